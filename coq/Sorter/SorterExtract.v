(* Family-unique entry points for the extracted model (all families share one OCaml module):
   the driver ocaml/d_sorter.ml reaches the sorter model only through these. *)
From NiflyVerif Require Import Res GraphModel SorterModel.
Local Open Scope N_scope.

Fixpoint sorter_pairs (l : list N) : list (N * N) :=
  match l with
  | a :: b :: r => (a, b) :: sorter_pairs r
  | _ => []
  end.

Definition sorter_nth (l : list N) (k : nat) : N := nth k l NPOS.
Definition sorter_nthl (l : list (list N)) (k : nat) : list N := nth k l [].

(* scalars: uid tname name kind ctrl coll gdata skin shader alpha skdata skpart bsdata texset textkey
            animnotes entA entB
   lists:   extra props children cblocks(interleaved) animnotes_l notes entities chained kpre kpost crefs ptrs *)
Definition sorter_mk_block (s : list N) (l : list (list N)) : sblock :=
  mkSB (sorter_nth s 0) (sorter_nth s 1) (sorter_nth s 2) (sorter_nth s 3)
       (sorter_nthl l 0) (sorter_nth s 4) (sorter_nthl l 1) (sorter_nth s 5) (sorter_nthl l 2)
       (sorter_nth s 6) (sorter_nth s 7) (sorter_nth s 8) (sorter_nth s 9) (sorter_nth s 10) (sorter_nth s 11)
       (sorter_nth s 12) (sorter_nth s 13)
       (sorter_pairs (sorter_nthl l 3)) (sorter_nth s 14) (sorter_nth s 15) (sorter_nthl l 4) (sorter_nthl l 5)
       (sorter_nthl l 6) (sorter_nthl l 7) (sorter_nth s 16) (sorter_nth s 17) (sorter_nthl l 8) (sorter_nthl l 9)
       (sorter_nthl l 10) (sorter_nthl l 11).

Definition sorter_block_scalars (b : sblock) : list N :=
  [s_uid b; s_tname b; s_name b; s_kind b; s_ctrl b; s_coll b; s_gdata b; s_skin b; s_shader b; s_alpha b;
   s_skdata b; s_skpart b; s_bsdata b; s_texset b; s_textkey b; s_animnotes b; s_entA b; s_entB b].

Definition sorter_block_lists (b : sblock) : list (list N) :=
  [s_extra b; s_props b; s_children b; flat_map (fun p => [fst p; snd p]) (s_cblocks b); s_animnotes_l b;
   s_notes b; s_entities b; s_chained b; s_kpre b; s_kpost b; s_crefs b; s_ptrs b].

Lemma sorter_block_roundtrip b : sorter_mk_block (sorter_block_scalars b) (sorter_block_lists b) = b.
Proof.
  destruct b. unfold sorter_mk_block, sorter_block_scalars, sorter_block_lists. cbn.
  f_equal. induction s_cblocks as [|[a c] r IH]; cbn; [reflexivity|]. rewrite IH. reflexivity.
Qed.

Definition sorter_mk_model (g : list sblock) (ob unk : bool) : smodel := mkSM g ob unk.
Definition sorter_model_blocks (m : smodel) : list sblock := sm_g m.
Definition sorter_model_ob (m : smodel) : bool := sm_ob m.
Definition sorter_model_unk (m : smodel) : bool := sm_unk m.
Definition sorter_state_order (st : sstate) : list N := st_nidx st.
Definition sorter_state_blocks (st : sstate) : list sblock := st_gr st.

Definition sorter_pretty_sort := pretty_sort.
Definition sorter_set_shape_order := set_shape_order.
Definition sorter_optimize := optimize_m.
Definition sorter_default_save := default_save.
Definition sorter_pretty_indices := pretty_indices.
Definition sorter_has_parent := has_parent.
Definition sorter_has_kind := has_kind.
