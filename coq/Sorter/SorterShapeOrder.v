(* SetShapeOrder (NifFile.cpp:241-276): the same theorems as for PrettySortBlocks, for every graph and
   every name list. The counter starts at 0 wherever the root node sits, and SortGraph applies the
   resolved order only when it is a permutation of the root's shape children, so neither a root in a
   block other than 0 nor duplicate / unresolved names can break the numbering or a child array. *)
From NiflyVerif Require Import Res CompactProofs GraphModel GraphInv GraphDelete GraphAdd GraphOrder
  SorterModel SorterInv SorterChildren SorterSort.
From Coq Require Import ZifyBool ZifyNat ZifyN Permutation.
Local Open Scope N_scope.

Lemma shape_order_unfold fuel ob names g r :
  root_node g = Some r ->
  shape_order_indices fuel ob names g =
  bind (sort_run ob (shape_ids g names) fuel (CSet r) (init_state g 0)) (leftover (length g)).
Proof. intros H. unfold shape_order_indices. rewrite H. reflexivity. Qed.

Lemma shape_order_sinv fuel ob names g st :
  vlen g < NPOS -> shape_order_indices fuel ob names g = Ok st -> SInv (vlen g) 0 [] st /\ complete (vlen g) st.
Proof.
  intros Hn H. pose proof NPOS_lt. assert (Hs : 0 + vlen g < 4294967296) by lia.
  assert (E : exists s1, SInv (vlen g) 0 [] s1 /\ leftover (length g) s1 = Ok st).
  { unfold shape_order_indices in H. destruct (root_node g) as [r|].
    - unfold seq2 in H.
      destruct (sort_run ob _ fuel (CSet r) (init_state g 0)) as [s1| |] eqn:E; cbn [bind] in H; try discriminate.
      exists s1. split; [|exact H]. eapply run_sinv; [exact Hs|exact E|apply init_inv].
    - exists (init_state g 0). split; [apply init_inv|exact H]. }
  destruct E as (s1 & H1 & H2).
  replace (length g) with (N.to_nat (vlen g)) in H2 by (unfold vlen; lia).
  exact (leftover_complete _ _ _ _ Hs H2 H1).
Qed.

(* the order handed to SetBlockOrder is a permutation, wherever the root node is *)
Theorem shape_order_perm fuel ob names g st :
  vlen g < NPOS -> shape_order_indices fuel ob names g = Ok st -> is_perm (st_nidx st) (vlen g).
Proof.
  intros Hn H. destruct (shape_order_sinv fuel ob names g st Hn H) as (HI & Hc). apply complete_perm; assumption.
Qed.

(* every name list (duplicates, unresolved names, any count) leaves every child array with the same
   set of children, none more often than before *)
Theorem shape_order_children fuel ob names g st :
  refs_in_range g -> node_shape_excl g ->
  shape_order_indices fuel ob names g = Ok st -> grel g (st_gr st).
Proof.
  intros Hr He H. unfold shape_order_indices in H.
  assert (HA : forall i, preserves (fun s => grel g (st_gr s)) (assign i)).
  { intros i s s' Ha HG. rewrite (assign_gr _ _ _ Ha). exact HG. }
  destruct (root_node g) as [r|].
  - unfold seq2 in H.
    destruct (sort_run ob _ fuel (CSet r) (init_state g 0)) as [s1| |] eqn:E; cbn [bind] in H; try discriminate.
    eapply (leftover_preserves_unary (fun s => grel g (st_gr s))); [exact HA|exact H|].
    eapply run_children; eauto. apply grel_refl.
  - eapply (leftover_preserves_unary (fun s => grel g (st_gr s))); [exact HA|exact H|apply grel_refl].
Qed.

(* the root node (GetRootNode: the first node in block order) gets index 0 *)
Theorem shape_order_root_first fuel ob names g st r :
  vlen g < NPOS -> root_node g = Some r -> kind_at g r K_COLL = false ->
  shape_order_indices fuel ob names g = Ok st -> vget (st_nidx st) r = Some 0.
Proof.
  intros Hn Hr Hc H. rewrite (shape_order_unfold _ _ _ _ _ Hr) in H.
  destruct (sort_run ob _ fuel (CSet r) (init_state g 0)) as [s1| |] eqn:E; cbn [bind] in H; try discriminate.
  assert (Hb : exists b, getb g r = Some b).
  { unfold root_node in Hr. destruct (indices_where (has_kind K_NODE) 0 g) as [|i l] eqn:Ei; [discriminate|].
    inversion Hr; subst i. assert (Hin : In r (indices_where (has_kind K_NODE) 0 g)) by (rewrite Ei; left; reflexivity).
    apply indices_where_spec in Hin. apply getb_in_range; lia. }
  destruct Hb as (b & Hb).
  assert (H1 : root_at r [] s1).
  { eapply cset_root; eauto. unfold kind_at in Hc. rewrite Hb in Hc. exact Hc. }
  assert (H2 : root_at r [] st).
  { eapply (leftover_preserves (root_at r)); [apply root_at_assign|exact H|exact H1]. }
  apply H2.
Qed.

(* ---- consistent header after applying a computed order ---- *)
Theorem order_view h g0 st g' :
  Inv h -> blocks h = map to_block g0 ->
  is_perm (st_nidx st) (vlen g0) -> grel g0 (st_gr st) -> reorder_g (st_nidx st) (st_gr st) = Ok g' ->
  exists h',
    set_block_order (hdr_with h (st_gr st)) (st_nidx st) = Ok h' /\ Inv h' /\ blocks h' = map to_block g' /\
    (forall i o, vget (st_nidx st) i = Some o -> vget (view h') o = vget (view (hdr_with h (st_gr st))) i).
Proof.
  intros HI Hb Hperm HG Er.
  pose proof (inv_hdr_with h _ _ HI Hb HG) as HI2. pose proof (grel_len _ _ HG) as Hlen.
  assert (Hperm2 : is_perm (st_nidx st) (vlen (blocks (hdr_with h (st_gr st))))).
  { cbn [hdr_with blocks]. rewrite vlen_map, Hlen. exact Hperm. }
  destruct (set_block_order_spec _ _ HI2 Hperm2) as (h' & Hrun & HI' & _ & _ & Hview).
  exists h'. split; [exact Hrun|]. split; [exact HI'|]. split; [|exact Hview].
  destruct (reorder_commutes (hdr_with h (st_gr st)) (st_gr st) (st_nidx st) h') as (g2 & Hr2 & Hb2).
  - reflexivity.
  - rewrite Hlen. exact Hperm.
  - cbn [hdr_with nblocks]. destruct HI as [Hnb _ _ _ _ _ _ _ _]. rewrite Hnb, Hb, vlen_map. lia.
  - exact Hrun.
  - rewrite Er in Hr2. inversion Hr2; subst g2. exact Hb2.
Qed.

(* SetShapeOrder on any consistent model, any name list: either a guarded no-op, or the blocks are
   permuted by a bijection, only child arrays were rebuilt, the header stays consistent and every
   reference designates the same object *)
Theorem set_shape_order_view fuel names m m' h :
  Inv h -> blocks h = map to_block (sm_g m) -> refs_in_range (sm_g m) -> node_shape_excl (sm_g m) ->
  set_shape_order fuel names m = Ok m' ->
  m' = m \/
  exists st h',
    shape_order_indices fuel (sm_ob m) names (sm_g m) = Ok st /\
    is_perm (st_nidx st) (vlen (sm_g m)) /\
    grel (sm_g m) (st_gr st) /\
    set_block_order (hdr_with h (st_gr st)) (st_nidx st) = Ok h' /\
    Inv h' /\ blocks h' = map to_block (sm_g m') /\
    (forall i o, vget (st_nidx st) i = Some o -> vget (view h') o = vget (view (hdr_with h (st_gr st))) i).
Proof.
  intros HI Hb Hr He H. unfold set_shape_order in H.
  destruct (sm_unk m); [left; congruence|].
  destruct names as [|a l]; [left; congruence|].
  destruct (negb _); [left; congruence|].
  destruct (shape_order_indices fuel (sm_ob m) (a :: l) (sm_g m)) as [st| |] eqn:Ep; cbn [bind] in H; try discriminate.
  destruct (reorder_g (st_nidx st) (st_gr st)) as [g'| |] eqn:Er; cbn [bind] in H; try discriminate.
  inversion H; subst m'. cbn [sm_g with_g]. right.
  assert (Hsmall : vlen (sm_g m) < NPOS).
  { destruct HI as [_ _ _ _ _ _ _ _ Hs]. rewrite Hb, vlen_map in Hs. exact Hs. }
  pose proof (shape_order_perm _ _ _ _ _ Hsmall Ep) as Hperm.
  pose proof (shape_order_children _ _ _ _ _ Hr He Ep) as HG.
  destruct (order_view h _ st g' HI Hb Hperm HG Er) as (h' & H1 & H2 & H3 & H4).
  exists st, h'. auto 10.
Qed.

(* whatever the traversal computed, SetBlockOrder gets a permutation and stores inside its vectors:
   the positive counterpart of the heap overflow of the unrepaired code *)
Theorem shape_order_apply_ok fuel ob names g st :
  vlen g < NPOS -> refs_in_range g -> node_shape_excl g ->
  shape_order_indices fuel ob names g = Ok st ->
  exists g', reorder_g (st_nidx st) (st_gr st) = Ok g' /\ vlen g' = vlen g.
Proof.
  intros Hn Hr He Ep.
  pose proof (shape_order_perm _ _ _ _ _ Hn Ep) as Hperm.
  pose proof (shape_order_children _ _ _ _ _ Hr He Ep) as HG.
  pose proof (grel_len _ _ HG) as Hl. rewrite <- Hl in Hperm.
  destruct (reorder_g_spec _ _ Hperm) as (g' & E & Hlen & _). exists g'. split; [exact E|lia].
Qed.

(* ---- the models on which the unrepaired code failed ---- *)
Definition blank (kind : N) (name : N) (children kpre : list N) : sblock :=
  mkSB 0 kind name kind [] NPOS [] NPOS children NPOS NPOS NPOS NPOS NPOS NPOS NPOS NPOS [] NPOS NPOS [] []
       [] [] NPOS NPOS kpre [] [] [].

(* a shape in block 0, the root node in block 1 *)
Definition w_root1 : smodel := mkSM [blank 8 1 [] [NPOS; NPOS]; blank 2 0 [0] [NPOS; NPOS]] false false.

(* root in block 0 with two shape children named 1 and 2 *)
Definition w_dup : smodel :=
  mkSM [blank 2 0 [1; 2] [NPOS; NPOS]; blank 8 1 [] [NPOS; NPOS]; blank 8 2 [] [NPOS; NPOS]] false false.

(* a name that does not resolve, the other shape not a child of the root *)
Definition w_missing : smodel :=
  mkSM [blank 2 0 [1; 3] [NPOS; NPOS]; blank 8 1 [] [NPOS; NPOS]; blank 8 2 [] [NPOS; NPOS]; blank 2 0 [2] [NPOS; NPOS]] false false.
