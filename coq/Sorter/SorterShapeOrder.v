(* SetShapeOrder (NifFile.cpp:241-278): the same theorems as for PrettySortBlocks under the
   hypotheses the proofs force - the root is block 0 (the counter is seeded with the root's id) and
   the resolved names are a permutation of the root's shape children (or differ in number) - and
   what happens outside them: with a root that is not block 0 the order is never a permutation and
   SetBlockOrder stores outside its vectors; with a duplicate name a child is listed twice. *)
From NiflyVerif Require Import Res CompactProofs GraphModel GraphInv GraphDelete GraphAdd GraphOrder
  SorterModel SorterInv SorterChildren SorterSort.
From Coq Require Import ZifyBool ZifyNat ZifyN Permutation.
Local Open Scope N_scope.

Lemma shape_order_unfold fuel ob names g r :
  root_node g = Some r ->
  shape_order_indices fuel ob names g =
  bind (sort_run ob (shape_ids g names) fuel (CSet r) (init_state g r)) (leftover (length g)).
Proof. intros H. unfold shape_order_indices. rewrite H. reflexivity. Qed.

(* the numbering invariant with the counter seeded by the root id *)
Lemma shape_order_sinv fuel ob names g st base :
  base + vlen g < 4294967296 ->
  (root_node g = Some base \/ (root_node g = None /\ base = 0)) ->
  shape_order_indices fuel ob names g = Ok st -> SInv (vlen g) base st /\ complete (vlen g) st.
Proof.
  intros Hs Hroot H.
  assert (E : exists s1, SInv (vlen g) base s1 /\ leftover (length g) s1 = Ok st).
  { destruct Hroot as [Hr|(Hr & ->)].
    - rewrite (shape_order_unfold _ _ _ _ _ Hr) in H.
      destruct (sort_run ob _ fuel (CSet base) (init_state g base)) as [s1| |] eqn:E; cbn [bind] in H; try discriminate.
      exists s1. split; [|exact H]. eapply run_sinv; [exact Hs|exact E|apply init_inv].
    - unfold shape_order_indices in H. rewrite Hr in H. exists (init_state g 0). split; [apply init_inv|exact H]. }
  destruct E as (s1 & H1 & H2).
  replace (length g) with (N.to_nat (vlen g)) in H2 by (unfold vlen; lia).
  exact (leftover_complete _ _ _ _ Hs H2 H1).
Qed.

Theorem shape_order_perm fuel ob names g st :
  vlen g < NPOS -> (root_node g = Some 0 \/ root_node g = None) ->
  shape_order_indices fuel ob names g = Ok st -> is_perm (st_nidx st) (vlen g).
Proof.
  intros Hn Hroot H. pose proof NPOS_lt.
  destruct (shape_order_sinv fuel ob names g st 0) as (HI & Hc); [lia| |exact H|apply complete_perm; assumption].
  destruct Hroot; auto.
Qed.

Theorem shape_order_children fuel ob names g st :
  refs_in_range g -> node_shape_excl g ->
  (forall b0, vget g 0 = Some b0 -> order_ok (shape_ids g names) g true (s_children b0)) ->
  shape_order_indices fuel ob names g = Ok st -> grel g (st_gr st).
Proof.
  intros Hr He Hord H. unfold shape_order_indices in H.
  assert (HA : forall i, preserves (fun s => grel g (st_gr s)) (assign i)).
  { intros i s s' Ha HG. rewrite (assign_gr _ _ _ Ha). exact HG. }
  destruct (root_node g) as [r|].
  - unfold seq2 in H.
    destruct (sort_run ob _ fuel (CSet r) (init_state g r)) as [s1| |] eqn:E; cbn [bind] in H; try discriminate.
    eapply (leftover_preserves (fun s => grel g (st_gr s))); [exact HA|exact H|].
    eapply run_children; eauto. apply grel_refl.
  - eapply (leftover_preserves (fun s => grel g (st_gr s))); [exact HA|exact H|apply grel_refl].
Qed.

(* the root (block 0) keeps index 0 *)
Theorem shape_order_root_first fuel ob names g st :
  vlen g < NPOS -> root_node g = Some 0 -> kind_at g 0 K_COLL = false ->
  shape_order_indices fuel ob names g = Ok st -> vget (st_nidx st) 0 = Some 0.
Proof.
  intros Hn Hr Hc H. rewrite (shape_order_unfold _ _ _ _ _ Hr) in H.
  destruct (sort_run ob _ fuel (CSet 0) (init_state g 0)) as [s1| |] eqn:E; cbn [bind] in H; try discriminate.
  assert (Hb : exists b, getb g 0 = Some b).
  { unfold root_node in Hr. destruct (indices_where (has_kind K_NODE) 0 g) as [|i l] eqn:Ei; [discriminate|].
    inversion Hr; subst i. assert (Hin : In 0 (indices_where (has_kind K_NODE) 0 g)) by (rewrite Ei; left; reflexivity).
    apply indices_where_spec in Hin. apply getb_in_range; [discriminate|lia]. }
  destruct Hb as (b & Hb).
  assert (H1 : root_at 0 s1).
  { eapply cset_root; eauto. unfold kind_at in Hc. rewrite Hb in Hc. exact Hc. }
  assert (H2 : root_at 0 st).
  { eapply (leftover_preserves (root_at 0)); [apply root_at_assign|exact H|exact H1]. }
  apply H2.
Qed.

(* ---- SetBlockOrder with an order that is not a permutation: a store outside the vector ---- *)
Lemma scatter_fault {A} (order : list N) (src : list A) n :
  vlen order = n -> vlen src = n ->
  forall fuel i dst, vlen dst = n -> (N.to_nat (n - i) < fuel)%nat ->
  (exists k o, i <= k < n /\ vget order k = Some o /\ n <= o) ->
  scatter fuel n order src dst i = Fault.
Proof.
  intros Ho Hs. induction fuel as [|f IH]; intros i dst Hd Hf (k & o & Hk & Hok & Hbig); [lia|].
  cbn [scatter]. destruct (N.ltb_spec i n) as [Hi|Hi]; [|lia].
  destruct (vget_lt order i ltac:(lia)) as (oi & Hoi). destruct (vget_lt src i ltac:(lia)) as (x & Hx).
  rewrite Hoi, Hx.
  destruct (vset dst oi (Some x)) as [dst'|] eqn:Ev; [|reflexivity].
  apply IH.
  - unfold vlen in *. rewrite (vset_len _ _ _ _ Ev). exact Hd.
  - lia.
  - exists k, o. split; [|auto]. apply vset_some_lt in Ev.
    assert (k <> i) by (intros ->; assert (o = oi) by congruence; lia). lia.
Qed.

Lemma rebuild_at_len ob rso i st : vlen (st_gr (rebuild_at ob rso i st)) = vlen (st_gr st).
Proof.
  unfold rebuild_at, set_children. destruct (getb (st_gr st) i); [|reflexivity].
  destruct (vset (st_gr st) i _) as [g'|] eqn:E; [|reflexivity]. cbn. unfold vlen. rewrite (vset_len _ _ _ _ E). reflexivity.
Qed.

Lemma shape_order_len fuel ob names g st : shape_order_indices fuel ob names g = Ok st -> vlen (st_gr st) = vlen g.
Proof.
  intros H. unfold shape_order_indices in H.
  assert (HA : forall i, preserves (fun s => vlen (st_gr s) = vlen g) (assign i)).
  { intros i s s' Ha HG. rewrite (assign_gr _ _ _ Ha). exact HG. }
  assert (HR : forall rso i s, vlen (st_gr s) = vlen g -> vlen (st_gr (rebuild_at ob rso i s)) = vlen g).
  { intros rso i s Hl. rewrite rebuild_at_len. exact Hl. }
  destruct (root_node g) as [r|].
  - unfold seq2 in H.
    destruct (sort_run ob _ fuel (CSet r) (init_state g r)) as [s1| |] eqn:E; cbn [bind] in H; try discriminate.
    eapply (leftover_preserves (fun s => vlen (st_gr s) = vlen g)); [exact HA|exact H|].
    eapply (run_preserves (fun s => vlen (st_gr s) = vlen g)); [exact HA|apply HR|exact E|reflexivity].
  - eapply (leftover_preserves (fun s => vlen (st_gr s) = vlen g)); [exact HA|exact H|reflexivity].
Qed.

(* Whenever the root is not block 0 - for every graph, every name list, every traversal - the
   order handed to SetBlockOrder s_contains an index beyond the block count, and the scatter loop
   stores outside its vector (Fault in the model, a heap overflow in the C++). *)
Theorem shape_order_root_nonzero_faults fuel ob names g st r :
  vlen g + vlen g < 4294967296 -> root_node g = Some r -> 0 < r ->
  shape_order_indices fuel ob names g = Ok st ->
  ~ is_perm (st_nidx st) (vlen g) /\ reorder_g (st_nidx st) (st_gr st) = Fault.
Proof.
  intros Hs Hr Hpos H.
  assert (Hrn : r < vlen g).
  { unfold root_node in Hr. destruct (indices_where (has_kind K_NODE) 0 g) as [|i l] eqn:Ei; [discriminate|].
    inversion Hr; subst i. assert (Hin : In r (indices_where (has_kind K_NODE) 0 g)) by (rewrite Ei; left; reflexivity).
    apply indices_where_spec in Hin. lia. }
  destruct (shape_order_sinv fuel ob names g st r) as (HI & Hc); [lia|left; exact Hr|exact H|].
  destruct (complete_shifted _ _ _ HI Hc ltac:(lia)) as (i & Hi & Hv).
  pose proof (shape_order_len _ _ _ _ _ H) as Hlen.
  destruct HI as [Hnl _ _ _ _].
  split.
  - intros (_ & Hall & _). rewrite Forall_forall in Hall. specialize (Hall _ (in_vget _ _ _ Hv)). lia.
  - unfold reorder_g. rewrite Hnl, Hlen, N.eqb_refl. cbn [negb].
    rewrite (scatter_fault (st_nidx st) (st_gr st) (vlen g)); [reflexivity|exact Hnl|exact Hlen| | |].
    + unfold vlen. rewrite repeat_length. exact Hlen.
    + unfold vlen in *. lia.
    + exists i, (r + vlen g - 1). split; [lia|]. split; [exact Hv|lia].
Qed.

Corollary set_shape_order_root_nonzero_faults fuel names m r m' :
  vlen (sm_g m) + vlen (sm_g m) < 4294967296 -> root_node (sm_g m) = Some r -> 0 < r ->
  sm_unk m = false -> names <> [] -> vlen names = vlen (indices_where (has_kind K_SHAPE) 0 (sm_g m)) ->
  set_shape_order fuel names m <> Ok m'.
Proof.
  intros Hs Hr Hpos Hu Hne Hcnt H. unfold set_shape_order in H. rewrite Hu in H.
  destruct names as [|a l]; [contradiction|]. rewrite Hcnt, N.eqb_refl in H. cbn [negb] in H.
  destruct (shape_order_indices fuel (sm_ob m) (a :: l) (sm_g m)) as [st| |] eqn:E; cbn [bind] in H; try discriminate.
  destruct (shape_order_root_nonzero_faults _ _ _ _ _ _ Hs Hr Hpos E) as (_ & Hf). rewrite Hf in H. discriminate.
Qed.

(* ---- consistent header after SetShapeOrder under the forced hypotheses ---- *)
Theorem order_view h g0 st g' :
  Inv h -> blocks h = map to_block g0 ->
  is_perm (st_nidx st) (vlen g0) -> grel g0 (st_gr st) -> reorder_g (st_nidx st) (st_gr st) = Ok g' ->
  exists h',
    set_block_order (hdr_with h (st_gr st)) (st_nidx st) = Ok h' /\ Inv h' /\ blocks h' = map to_block g' /\
    (forall i o, vget (st_nidx st) i = Some o -> vget (view h') o = vget (view (hdr_with h (st_gr st))) i).
Proof.
  intros HI Hb Hperm HG Er.
  pose proof (inv_hdr_with h _ _ HI Hb HG) as HI2. pose proof (grel_len _ _ HG) as Hlen.
  assert (Hperm2 : is_perm (st_nidx st) (vlen (blocks (hdr_with h (st_gr st))))).
  { cbn [hdr_with blocks]. rewrite vlen_map, Hlen. exact Hperm. }
  destruct (set_block_order_spec _ _ HI2 Hperm2) as (h' & Hrun & HI' & _ & _ & Hview).
  exists h'. split; [exact Hrun|]. split; [exact HI'|]. split; [|exact Hview].
  destruct (reorder_commutes (hdr_with h (st_gr st)) (st_gr st) (st_nidx st) h') as (g2 & Hr2 & Hb2).
  - reflexivity.
  - rewrite Hlen. exact Hperm.
  - cbn [hdr_with nblocks]. destruct HI as [Hnb _ _ _ _ _ _ _ _]. rewrite Hnb, Hb, vlen_map. lia.
  - exact Hrun.
  - rewrite Er in Hr2. inversion Hr2; subst g2. exact Hb2.
Qed.

(* ---- witnesses outside the hypotheses ---- *)
Definition blank (kind : N) (name : N) (children kpre : list N) : sblock :=
  mkSB 0 kind name kind [] NPOS [] NPOS children NPOS NPOS NPOS NPOS NPOS NPOS NPOS NPOS [] NPOS NPOS [] []
       [] [] NPOS NPOS kpre [] [] [].

(* a shape in block 0, the root node in block 1 *)
Definition w_root1 : smodel := mkSM [blank 8 1 [] [NPOS; NPOS]; blank 2 0 [0] [NPOS; NPOS]] false false.

(* root in block 0 with two shape children named 1 and 2 *)
Definition w_dup : smodel :=
  mkSM [blank 2 0 [1; 2] [NPOS; NPOS]; blank 8 1 [] [NPOS; NPOS]; blank 8 2 [] [NPOS; NPOS]] false false.
