(* Equivariance of the sorter's traversal under a renumbering of the blocks.
   [pi] is an injective renumbering that fixes NPOS and maps the block range 0..n-1 to itself.
   Two sort states are related ([rel]) when the second is the first one seen through [pi]:
   visited set and newIndices are indexed through pi, the counter is the same, block pi(i) of the
   second is block i of the first with every reference field mapped through pi.
   Theorem [run_equivariant]: every routine of the traversal (PrettySortBlocks' empty
   rootShapeOrder), started in related states on corresponding calls, ends in related states -
   same fuel, same result kind. No hypothesis on the graph. *)
From NiflyVerif Require Import Res CompactProofs GraphModel GraphInv GraphDelete GraphAdd GraphOrder
  SorterModel SorterInv SorterChildren SorterIdem.
From Coq Require Import ZifyBool ZifyNat ZifyN Permutation.
Local Open Scope N_scope.

(* ---- simulation of one action by another, for a relation on states ---- *)
Section Sim.
  Variable R : sstate -> sstate -> Prop.
  Definition simp (a a2 : s_act) (st st2 : sstate) : Prop :=
    forall st', a st = Ok st' -> exists st2', a2 st2 = Ok st2' /\ R st' st2'.
  Definition sim (a a2 : s_act) : Prop := forall st st2, R st st2 -> simp a a2 st st2.

  Lemma sim_at a a2 st st2 : sim a a2 -> R st st2 -> simp a a2 st st2.
  Proof. intros H HR. apply H. exact HR. Qed.

  Lemma sim_skip : sim s_skip s_skip.
  Proof. intros st st2 H st' E. inversion E; subst. exists st2. split; [reflexivity|exact H]. Qed.

  Lemma sim_seq a a2 b b2 : sim a a2 -> sim b b2 -> sim (a ;; b) (a2 ;; b2).
  Proof.
    intros Ha Hb st st2 H st' E. unfold seq2 in *.
    destruct (a st) as [s1| |] eqn:E1; cbn [bind] in E; try discriminate.
    destruct (Ha _ _ H _ E1) as (s2 & E2 & H1). rewrite E2. cbn [bind]. exact (Hb _ _ H1 _ E).
  Qed.

  Lemma sim_rd {A B} (f : sstate -> A) (f2 : sstate -> B) k k2 :
    (forall st st2, R st st2 -> simp (k (f st)) (k2 (f2 st2)) st st2) -> sim (s_rd f k) (s_rd f2 k2).
  Proof. intros H st st2 HR. unfold s_rd. apply H. exact HR. Qed.

  Lemma sim_foreach {A B} (l : list A) (l2 : list B) body body2 :
    Forall2 (fun x y => sim (body x) (body2 y)) l l2 -> sim (s_foreach l body) (s_foreach l2 body2).
  Proof.
    induction 1 as [|x y l l2 Hxy _ IH]; cbn [s_foreach]; [apply sim_skip|].
    apply sim_seq; assumption.
  Qed.

  Lemma sim_foreach_map {A B} (h : A -> B) (l : list A) body body2 :
    (forall x, In x l -> sim (body x) (body2 (h x))) -> sim (s_foreach l body) (s_foreach (map h l) body2).
  Proof.
    intros H. apply sim_foreach. induction l as [|x l IH]; cbn [map]; constructor.
    - apply H. left. reflexivity.
    - apply IH. intros y Hy. apply H. right. exact Hy.
  Qed.
End Sim.

(* ---- the renumbering ---- *)
Section Rename.
  Variable pi : N -> N.
  Variable n : N.
  Hypothesis pi_inj : forall a b, pi a = pi b -> a = b.
  Hypothesis pi_npos : pi NPOS = NPOS.
  Hypothesis pi_range : forall i, pi i < n <-> i < n.

  Lemma pi_eqb a b : (pi a =? pi b) = (a =? b).
  Proof. destruct (N.eqb_spec a b) as [->|H]; [apply N.eqb_refl|]. apply N.eqb_neq. intros E. apply H, pi_inj, E. Qed.

  Lemma pi_is_npos a : (pi a =? NPOS) = (a =? NPOS).
  Proof. rewrite <- pi_npos at 1. apply pi_eqb. Qed.

  Lemma pi_ltb a : (pi a <? n) = (a <? n).
  Proof. destruct (N.ltb_spec a n) as [H|H]; [apply N.ltb_lt, pi_range, H|]. apply N.ltb_ge. destruct (N.ltb_spec (pi a) n) as [H1|H1]; [|exact H1]. assert (a < n) by (apply pi_range; exact H1). lia. Qed.

  (* [S]: the blocks SortCollision has inserted into the visited set and not numbered yet; their
     newIndices entries (like those of unvisited blocks) still hold the initial value *)
  Record rel (S : list N) (st st2 : sstate) : Prop := mkRel {
    r_vis : st_vis st2 = map pi (st_vis st);
    r_next : st_next st2 = st_next st;
    r_nlen : vlen (st_nidx st) = n;
    r_nlen2 : vlen (st_nidx st2) = n;
    r_nidx : forall i, visited st i = true -> ~ In i S -> vget (st_nidx st2) (pi i) = vget (st_nidx st) i;
    r_glen : vlen (st_gr st) = n;
    r_glen2 : vlen (st_gr st2) = n;
    r_gr : forall i, vget (st_gr st2) (pi i) = option_map (map_refs pi) (vget (st_gr st) i)
  }.

  Lemma rel_visited st st2 i S : rel S st st2 -> visited st2 (pi i) = visited st i.
  Proof.
    intros H. unfold visited. rewrite (r_vis _ _ _ H). induction (st_vis st) as [|a l IH]; cbn; [reflexivity|].
    rewrite pi_eqb, IH. reflexivity.
  Qed.

  Lemma rel_getb st st2 i S : rel S st st2 -> getb (st_gr st2) (pi i) = option_map (map_refs pi) (getb (st_gr st) i).
  Proof.
    intros H. unfold getb. rewrite (r_glen _ _ _ H), (r_glen2 _ _ _ H), pi_is_npos, pi_ltb.
    destruct (i =? NPOS); [reflexivity|]. destruct (i <? n) eqn:E; [apply (r_gr _ _ _ H)|reflexivity].
  Qed.

  Lemma has_kind_map k b : has_kind k (map_refs pi b) = has_kind k b.
  Proof. reflexivity. Qed.

  Lemma before_parent_map b : before_parent (map_refs pi b) = before_parent b.
  Proof. reflexivity. Qed.

  Lemma rel_kind_at st st2 i k S : rel S st st2 -> kind_at (st_gr st2) (pi i) k = kind_at (st_gr st) i k.
  Proof. intros H. unfold kind_at. rewrite (rel_getb _ _ i _ H). destruct (getb (st_gr st) i); reflexivity. Qed.

  Lemma kids_map b : kids (map_refs pi b) = map pi (kids b).
  Proof. unfold kids. cbn. rewrite !map_app. reflexivity. Qed.

  (* ---- the primitive updates ---- *)
  Lemma rel_vset_nidx S st st2 i x v : rel S st st2 -> vset (st_nidx st) i x = Some v ->
    exists v2, vset (st_nidx st2) (pi i) x = Some v2 /\ vlen v = n /\ vlen v2 = n /\
               forall j, vget v2 (pi j) = if j =? i then Some x else vget (st_nidx st2) (pi j).
  Proof.
    intros H Hv. pose proof (vset_some_lt _ _ _ _ Hv) as Hi. rewrite (r_nlen _ _ _ H) in Hi.
    destruct (vset_ok (st_nidx st2) (pi i) x) as (v2 & Hv2); [rewrite (r_nlen2 _ _ _ H); apply pi_range; exact Hi|].
    exists v2. split; [exact Hv2|].
    split; [unfold vlen; rewrite (vset_len _ _ _ _ Hv); apply (r_nlen _ _ _ H)|].
    split; [unfold vlen; rewrite (vset_len _ _ _ _ Hv2); apply (r_nlen2 _ _ _ H)|].
    intros j. rewrite (vget_vset _ _ _ _ _ Hv2), pi_eqb. reflexivity.
  Qed.

  Lemma visited_cons i st j v nx g : visited (mkSt (i :: st_vis st) v nx g) j = ((j =? i) || visited st j)%bool.
  Proof. reflexivity. Qed.

  Lemma sim_assign S i : sim (rel S) (assign i) (assign (pi i)).
  Proof.
    intros st st2 H st' E. unfold assign in *. rewrite (rel_visited _ _ i _ H).
    destruct (visited st i) eqn:V; [inversion E; subst; eauto|].
    destruct (vset (st_nidx st) i (st_next st)) as [v|] eqn:Hv; [|discriminate]. inversion E; subst st'. clear E.
    destruct (rel_vset_nidx _ _ _ _ _ _ H Hv) as (v2 & Hv2 & L1 & L2 & Hg).
    rewrite (r_next _ _ _ H), Hv2. eexists. split; [reflexivity|].
    constructor; cbn [st_vis st_nidx st_next st_gr]; try assumption; try apply H.
    - rewrite (r_vis _ _ _ H). reflexivity.
    - reflexivity.
    - intros j Hj Hs. rewrite visited_cons in Hj. rewrite Hg, (vget_vset _ _ _ _ _ Hv).
      destruct (j =? i) eqn:Eji; [reflexivity|]. cbn [orb] in Hj. apply (r_nidx _ _ _ H); assumption.
  Qed.

  Lemma rel_mark S st st2 i : rel S st st2 -> rel (i :: S) (s_mark i st) (s_mark (pi i) st2).
  Proof.
    intros H. constructor; cbn [s_mark st_vis st_nidx st_next st_gr]; try apply H.
    - rewrite (r_vis _ _ _ H). reflexivity.
    - intros j Hj Hs. unfold visited in Hj. cbn [s_mark st_vis existsb] in Hj.
      destruct (N.eqb_spec j i) as [Heq|Hne]; [exfalso; apply Hs; left; symmetry; exact Heq|]. cbn [orb] in Hj.
      apply (r_nidx _ _ _ H); [exact Hj|]. intros Hc. apply Hs. right. exact Hc.
  Qed.

  Lemma sim_set_index S i : forall st st2, rel (i :: S) st st2 -> simp (rel S) (s_set_index i) (s_set_index (pi i)) st st2.
  Proof.
    intros st st2 H st' E. unfold s_set_index in *.
    destruct (vset (st_nidx st) i (st_next st)) as [v|] eqn:Hv; [|discriminate]. inversion E; subst st'. clear E.
    destruct (rel_vset_nidx _ _ _ _ _ _ H Hv) as (v2 & Hv2 & L1 & L2 & Hg).
    rewrite (r_next _ _ _ H), Hv2. eexists. split; [reflexivity|].
    constructor; cbn [st_vis st_nidx st_next st_gr]; try assumption; try reflexivity; try apply H.
    intros j Hj Hs. change (visited st j = true) in Hj. rewrite Hg, (vget_vset _ _ _ _ _ Hv).
    destruct (N.eqb_spec j i) as [->|Hne]; [reflexivity|].
    apply (r_nidx _ _ _ H); [exact Hj|]. intros [Hc|Hc]; [congruence|contradiction].
  Qed.

  (* ---- SortGraph's new child array ---- *)
  Lemma filter_map_pi (p p2 : N -> bool) l : (forall x, p2 (pi x) = p x) -> filter p2 (map pi l) = map pi (filter p l).
  Proof.
    intros H. induction l as [|a l IH]; cbn [map filter]; [reflexivity|]. rewrite H.
    destruct (p a); cbn [map]; rewrite IH; reflexivity.
  Qed.

  Lemma contains_map_pi l x : s_contains (map pi l) (pi x) = s_contains l x.
  Proof. unfold s_contains. induction l as [|a l IH]; cbn; [reflexivity|]. rewrite pi_eqb, IH. reflexivity. Qed.

  Section Graphs.
    Variables g g2 : list sblock.
    Hypothesis Hg : forall i, getb g2 (pi i) = option_map (map_refs pi) (getb g i).

    Lemma kind_at_pi x k : kind_at g2 (pi x) k = kind_at g x k.
    Proof. unfold kind_at. rewrite Hg. destruct (getb g x); reflexivity. Qed.

    Lemma child_count_pi x : child_count g2 (pi x) = child_count g x.
    Proof. unfold child_count. rewrite Hg. destruct (getb g x); [|reflexivity]. cbn. apply vlen_map. Qed.

    Lemma children_of_pi x : children_of g2 (pi x) = map pi (children_of g x).
    Proof. unfold children_of. rewrite Hg. destruct (getb g x); reflexivity. Qed.

    Lemma node_first_pi ob x : node_first ob g2 (pi x) = node_first ob g x.
    Proof. unfold node_first. rewrite kind_at_pi, child_count_pi. reflexivity. Qed.

    Lemma add_missing_pi : forall ch acc, add_missing g2 (map pi ch) (map pi acc) = map pi (add_missing g ch acc).
    Proof.
      induction ch as [|x ch IH]; intros acc; cbn [map add_missing]; [reflexivity|].
      rewrite contains_map_pi, Hg.
      destruct (negb (s_contains acc x) && match getb g x with Some _ => true | None => false end)%bool eqn:E.
      - replace (negb (s_contains acc x) && match option_map (map_refs pi) (getb g x) with Some _ => true | None => false end)%bool with true
          by (destruct (getb g x); exact (eq_sym E)).
        rewrite <- IH, map_app. reflexivity.
      - replace (negb (s_contains acc x) && match option_map (map_refs pi) (getb g x) with Some _ => true | None => false end)%bool with false
          by (destruct (getb g x); exact (eq_sym E)).
        apply IH.
    Qed.

    Lemma rebuild_pi ob r r2 ch : rebuild ob [] r2 g2 (map pi ch) = map pi (rebuild ob [] r g ch).
    Proof.
      unfold rebuild.
      replace (if r2 then shape_order [] (filter (fun x => kind_at g2 x K_SHAPE) (map pi ch)) else filter (fun x => kind_at g2 x K_SHAPE) (map pi ch))
        with (filter (fun x => kind_at g2 x K_SHAPE) (map pi ch)) by (destruct r2; [rewrite shape_order_nil|]; reflexivity).
      replace (if r then shape_order [] (filter (fun x => kind_at g x K_SHAPE) ch) else filter (fun x => kind_at g x K_SHAPE) ch)
        with (filter (fun x => kind_at g x K_SHAPE) ch) by (destruct r; [rewrite shape_order_nil|]; reflexivity).
      rewrite (filter_map_pi (node_first ob g) (node_first ob g2)) by (intros; apply node_first_pi).
      rewrite (filter_map_pi (fun x => kind_at g x K_SHAPE) (fun x => kind_at g2 x K_SHAPE)) by (intros; apply kind_at_pi).
      rewrite (filter_map_pi (N.eqb NPOS) (N.eqb NPOS)).
      2:{ intros x. rewrite N.eqb_sym, pi_is_npos. apply N.eqb_sym. }
      rewrite <- map_app, add_missing_pi, <- map_app. reflexivity.
    Qed.
  End Graphs.

  Lemma with_children_map b ch : with_children (map_refs pi b) (map pi ch) = map_refs pi (with_children b ch).
  Proof. reflexivity. Qed.

  Lemma rel_rebuild_at S ob i st st2 : rel S st st2 -> rel S (rebuild_at ob [] i st) (rebuild_at ob [] (pi i) st2).
  Proof.
    intros H. unfold rebuild_at, set_children.
    rewrite (children_of_pi _ _ (fun j => rel_getb _ _ j _ H)).
    rewrite (rebuild_pi _ _ (fun j => rel_getb _ _ j _ H)) with (r := i =? 0).
    rewrite (rel_getb _ _ i _ H).
    destruct (getb (st_gr st) i) as [b|] eqn:Eb; cbn [option_map]; [|exact H].
    set (ch' := rebuild ob [] (i =? 0) (st_gr st) (children_of (st_gr st) i)).
    rewrite with_children_map.
    apply getb_some in Eb. destruct Eb as (_ & Hi & _). rewrite (r_glen _ _ _ H) in Hi.
    destruct (vset_ok (st_gr st) i (with_children b ch')) as (g' & Hs); [rewrite (r_glen _ _ _ H); exact Hi|].
    destruct (vset_ok (st_gr st2) (pi i) (map_refs pi (with_children b ch'))) as (g2' & Hs2);
      [rewrite (r_glen2 _ _ _ H); apply pi_range; exact Hi|].
    rewrite Hs, Hs2.
    constructor; cbn [st_vis st_nidx st_next st_gr]; try apply H.
    - unfold vlen. rewrite (vset_len _ _ _ _ Hs). apply (r_glen _ _ _ H).
    - unfold vlen. rewrite (vset_len _ _ _ _ Hs2). apply (r_glen2 _ _ _ H).
    - intros j. rewrite (vget_vset _ _ _ _ _ Hs2), (vget_vset _ _ _ _ _ Hs), pi_eqb.
      destruct (j =? i); [reflexivity|apply (r_gr _ _ _ H)].
  Qed.

  Lemma rel_kids_at st st2 i S : rel S st st2 ->
    match getb (st_gr st2) (pi i) with Some b' => kids b' | None => [] end =
    map pi (match getb (st_gr st) i with Some b' => kids b' | None => [] end).
  Proof. intros H. rewrite (rel_getb _ _ i _ H). destruct (getb (st_gr st) i); cbn [option_map map]; [apply kids_map|reflexivity]. Qed.

  Lemma sim_bracket S i pre pre2 (rdf rdf2 : sstate -> list N) before before2 after after2 :
    (forall S', sim (rel S') pre pre2) -> (forall S' st st2, rel S' st st2 -> rdf2 st2 = map pi (rdf st)) ->
    (forall S' l, sim (rel S') (before l) (before2 (map pi l))) -> (forall l, sim (rel S) (after l) (after2 (map pi l))) ->
    sim (rel S) (s_bracket i pre rdf before after) (s_bracket (pi i) pre2 rdf2 before2 after2).
  Proof.
    intros Hpre Hrd Hb Ha st st2 H. unfold simp, s_bracket. rewrite (rel_visited _ _ i _ H).
    destruct (visited st i).
    - revert st st2 H. change (sim (rel S) (pre;; s_rd rdf (fun l => before l;; after l)) (pre2;; s_rd rdf2 (fun l => before2 l;; after2 l))).
      apply sim_seq; [apply Hpre|]. apply sim_rd. intros s s2 HR. rewrite (Hrd _ _ _ HR).
      apply sim_at; [|exact HR]. apply sim_seq; [apply Hb|apply Ha].
    - pose proof (rel_mark _ _ _ i H) as HM. revert HM. generalize (s_mark i st) (s_mark (pi i) st2). clear st st2 H.
      intros s0 s02 HM st' E. unfold seq2 at 1 in E.
      destruct (pre s0) as [s1| |] eqn:E1; cbn [bind] in E; try discriminate.
      destruct (Hpre _ _ _ HM _ E1) as (s12 & E12 & H1). unfold seq2 at 1. rewrite E12. cbn [bind].
      unfold s_rd in *. rewrite (Hrd _ _ _ H1). unfold seq2 in E |- *.
      destruct (before (rdf s1) s1) as [s2| |] eqn:E2; cbn [bind] in E; try discriminate.
      destruct (Hb _ _ _ _ H1 _ E2) as (s22 & E22 & H2). rewrite E22. cbn [bind].
      destruct (s_set_index i s2) as [s3| |] eqn:E3; cbn [bind] in E; try discriminate.
      destruct (sim_set_index _ _ _ _ H2 _ E3) as (s32 & E32 & H3). rewrite E32. cbn [bind].
      exact (Ha _ _ _ H3 _ E).
  Qed.

  Lemma sim_rebuild S ob i : sim (rel S) (pure_upd (rebuild_at ob [] i)) (pure_upd (rebuild_at ob [] (pi i))).
  Proof. intros st st2 H st' E. inversion E; subst st'. eexists. split; [reflexivity|]. apply rel_rebuild_at. exact H. Qed.

  Definition rn (c : s_call) : s_call :=
    match c with
    | CSet i => CSet (pi i) | CNet i => CNet (pi i) | CAV i => CAV (pi i) | CCtrl i => CCtrl (pi i)
    | CColl i => CColl (pi i) | CShape i => CShape (pi i) | CGraph i => CGraph (pi i)
    end.

  Ltac fields := cbn [option_map map_refs has_kind s_kind s_extra s_ctrl s_props s_coll s_children s_gdata s_skin
    s_shader s_alpha s_skdata s_skpart s_bsdata s_texset s_cblocks s_textkey s_animnotes s_animnotes_l s_notes
    s_entities s_chained s_entA s_entB fst snd]; rewrite ?has_kind_map, ?before_parent_map.

  Ltac simstep IH :=
    match goal with
    | |- sim _ s_skip s_skip => apply sim_skip
    | |- sim _ (seq2 _ _) (seq2 _ _) => apply sim_seq
    | |- sim _ (sort_run _ _ _ ?c) _ => exact (IH c _)
    | |- sim _ (assign _) _ => apply sim_assign
    | |- sim _ (pure_upd _) _ => apply sim_rebuild
    | |- sim _ (s_foreach ?l _) (s_foreach (map _ ?l) _) => apply sim_foreach_map; intros; cbn [fst snd]
    | |- sim _ (s_bracket _ _ _ _ _) _ => apply sim_bracket; intros
    | |- sim _ (s_rd _ _) (s_rd _ _) =>
        let st := fresh "st" in let st2 := fresh "st2" in let HR := fresh "HR" in
        apply sim_rd; intros st st2 HR;
        rewrite ?(rel_kids_at _ _ _ _ HR), ?(rel_getb _ _ _ _ HR), ?(rel_visited _ _ _ _ HR), ?(rel_kind_at _ _ _ _ _ HR);
        apply sim_at; [|exact HR];
        repeat match goal with
        | |- context [match getb (st_gr st) ?i with Some b' => kids b' | None => [] end] =>
            generalize (match getb (st_gr st) i with Some b' => kids b' | None => [] end); intro
        end;
        repeat match goal with
        | |- context [getb (st_gr st) ?i] => generalize (getb (st_gr st) i); intro
        | |- context [visited st ?i] => generalize (visited st i); intro
        | |- context [kind_at (st_gr st) ?i ?k] => generalize (kind_at (st_gr st) i k); intro
        end;
        clear st st2 HR; cbv beta iota
    | |- sim _ (match ?x with _ => _ end) _ => destruct x; fields; cbn [map]
    | |- sim _ (if ?x then _ else _) _ => destruct x; fields
    | |- _ = map pi _ => eapply rel_kids_at; eassumption
    end.

  Section Run.
    Variable ob : bool.
    Theorem run_equivariant : forall fuel c S, sim (rel S) (sort_run ob [] fuel c) (sort_run ob [] fuel (rn c)).
    Proof.
      induction fuel as [|f IH]; intros c S; [intros st st2 _ st' E; discriminate|].
      destruct c; cbn [sort_run rn]; repeat simstep IH.
    Qed.
  End Run.

  (* ---- GetParentNode: needs every block of the second graph to be the image of one of the first ---- *)
  Hypothesis pi_surj : forall j, j < n -> exists i, pi i = j.

  Lemma has_parent_pi S st st2 x : rel S st st2 -> has_parent (st_gr st2) (pi x) = has_parent (st_gr st) x.
  Proof.
    intros H. apply eq_true_iff_eq. unfold has_parent. rewrite !existsb_exists. split.
    - intros (b2 & Hin & Hb). destruct (in_vget_ex _ _ Hin) as (j & Hj).
      assert (Hjn : j < n) by (rewrite <- (r_glen2 _ _ _ H); eapply vget_some_lt'; eauto).
      destruct (pi_surj j Hjn) as (i & <-). rewrite (r_gr _ _ _ H) in Hj.
      destruct (vget (st_gr st) i) as [b|] eqn:Eb; [|discriminate]. inversion Hj; subst b2.
      exists b. split; [eapply in_vget; eauto|]. cbn [map_refs s_children] in Hb. rewrite has_kind_map, contains_map_pi in Hb. exact Hb.
    - intros (b & Hin & Hb). destruct (in_vget_ex _ _ Hin) as (i & Hi).
      exists (map_refs pi b). split.
      + eapply in_vget. rewrite (r_gr _ _ _ H), Hi. reflexivity.
      + cbn [map_refs s_children]. rewrite has_kind_map, contains_map_pi. exact Hb.
  Qed.
End Rename.
