(* triParts <-> partitions: GenerateTrueTrianglesFromTriParts distributes every assigned triangle
   to exactly one partition; PrepareVertexMapsAndTriangles on the freshly distributed partitions;
   SetShapePartitions / GetShapePartitions / SetDefaultPartition / DeletePartitions /
   RemoveEmptyPartitions. *)
From NiflyVerif Require Import Res UtilModel UtilSpec CompactProofs EraseProofs FillProofs SkinModel SkinLib SkinGenProofs.
From Coq Require Import ZifyBool ZifyNat ZifyN Sorted Permutation.
Local Open Scope N_scope.

(* ---- indexed map ---- *)
Fixpoint ks_imap {A B} (f : nat -> A -> B) (i : nat) (l : list A) : list B :=
  match l with
  | [] => []
  | x :: r => f i x :: ks_imap f (S i) r
  end.

Lemma ks_imap_length {A B} (f : nat -> A -> B) : forall l i, length (ks_imap f i l) = length l.
Proof. induction l as [|x l IH]; intros i; cbn; [reflexivity|rewrite IH; reflexivity]. Qed.

Lemma ks_imap_ext {A B} (f g : nat -> A -> B) : forall l i,
  (forall k x, (i <= k)%nat -> f k x = g k x) -> ks_imap f i l = ks_imap g i l.
Proof.
  induction l as [|x l IH]; intros i H; cbn; [reflexivity|].
  rewrite H by lia. f_equal. apply IH. intros; apply H; lia.
Qed.

Lemma ks_imap_ext_len {A B} (f g : nat -> A -> B) : forall l i,
  (forall k x, (i <= k < i + length l)%nat -> f k x = g k x) -> ks_imap f i l = ks_imap g i l.
Proof.
  induction l as [|x l IH]; intros i H; cbn; [reflexivity|].
  rewrite H by (cbn; lia). f_equal. apply IH. intros; apply H; cbn; lia.
Qed.

Lemma ks_imap_imap {A B C} (f : nat -> B -> C) (g : nat -> A -> B) : forall l i,
  ks_imap f i (ks_imap g i l) = ks_imap (fun k x => f k (g k x)) i l.
Proof. induction l as [|x l IH]; intros i; cbn; [reflexivity|rewrite IH; reflexivity]. Qed.

Lemma ks_imap_id {A} (f : nat -> A -> A) : forall l i, (forall k x, f k x = x) -> ks_imap f i l = l.
Proof. induction l as [|x l IH]; intros i H; cbn; [reflexivity|rewrite H, IH by exact H; reflexivity]. Qed.

Lemma ks_imap_map {A B C} (f : nat -> A -> B) (h : B -> C) : forall l i,
  map h (ks_imap f i l) = ks_imap (fun k x => h (f k x)) i l.
Proof. induction l as [|x l IH]; intros i; cbn; [reflexivity|rewrite IH; reflexivity]. Qed.

Lemma ks_imap_seq {A B} (f : nat -> A -> B) (d : A) : forall l i,
  ks_imap f i l = map (fun k => f k (nth (k - i) l d)) (seq i (length l)).
Proof.
  induction l as [|x l IH]; intros i; cbn [ks_imap length seq map]; [reflexivity|].
  rewrite Nat.sub_diag. cbn [nth]. f_equal. rewrite IH. apply map_ext_in.
  intros k Hk. apply in_seq in Hk. replace (k - i)%nat with (S (k - S i)) by lia. reflexivity.
Qed.

Lemma ks_imap_nth {A B} (f : nat -> A -> B) (da : A) (db : B) : forall l i j,
  (j < length l)%nat -> nth j (ks_imap f i l) db = f (i + j)%nat (nth j l da).
Proof.
  induction l as [|x l IH]; intros i j H; cbn in H; [lia|].
  destruct j as [|j]; cbn [ks_imap nth]; [f_equal; lia|].
  rewrite IH by lia. f_equal. lia.
Qed.

Lemma ks_imap_in {A B} (f : nat -> A -> B) : forall l i y,
  In y (ks_imap f i l) -> exists k x, (i <= k < i + length l)%nat /\ In x l /\ y = f k x.
Proof.
  induction l as [|x l IH]; intros i y H; cbn in H; [destruct H|].
  destruct H as [<-|H].
  - exists i, x. cbn. split; [lia|]. split; [left; reflexivity|reflexivity].
  - destruct (IH _ _ H) as (k & x' & Hk & Hx & E). exists k, x'. cbn. split; [lia|]. split; [right; exact Hx|exact E].
Qed.

(* ---- GenerateTrueTrianglesFromTriParts ---- *)
Definition ks_tris_of (k : nat) (ts : list tri) (tp : list Z) : list tri :=
  map fst (filter (fun x => Z.eqb (snd x) (Z.of_nat k)) (combine ts tp)).

Definition ks_assigned (ts : list tri) (tp : list Z) (n : nat) : list tri :=
  map fst (filter (fun x => ((0 <=? snd x)%Z && (snd x <? Z.of_nat n)%Z)%bool) (combine ts tp)).

Lemma kb_set_tt_tt p x : kb_tt (kb_set_tt p x) = x.
Proof. reflexivity. Qed.

Lemma kb_set_tt_twice p x y : kb_set_tt (kb_set_tt p x) y = kb_set_tt p y.
Proof. reflexivity. Qed.

Lemma kb_set_tt_id p : kb_set_tt p (kb_tt p) = p.
Proof. destruct p; reflexivity. Qed.

Lemma ks_imap_id_from {A} (f : nat -> A -> A) : forall l i,
  (forall k x, (i <= k)%nat -> f k x = x) -> ks_imap f i l = l.
Proof.
  induction l as [|x l IH]; intros i H; cbn; [reflexivity|].
  rewrite H by lia. f_equal. apply IH. intros; apply H; lia.
Qed.

Lemma ks_push_tt_imap (t : tri) : forall parts k i,
  ks_push_tt parts k t = ks_imap (fun j p => if Nat.eqb j (i + k) then kb_set_tt p (kb_tt p ++ [t]) else p) i parts.
Proof.
  induction parts as [|p r IH]; intros k i; cbn [ks_push_tt ks_imap]; [destruct k; reflexivity|].
  destruct k as [|k].
  - replace (i + 0)%nat with i by lia. rewrite Nat.eqb_refl. f_equal.
    symmetry. apply ks_imap_id_from. intros j x Hj. destruct (Nat.eqb_spec j i); [lia|reflexivity].
  - destruct (Nat.eqb_spec i (i + S k)); [lia|]. f_equal.
    rewrite (IH k (S i)). apply ks_imap_ext. intros j x Hj.
    replace (S i + k)%nat with (i + S k)%nat by lia. reflexivity.
Qed.

Lemma ks_tris_of_cons k t ts pi tp :
  ks_tris_of k (t :: ts) (pi :: tp) = (if Z.eqb pi (Z.of_nat k) then [t] else []) ++ ks_tris_of k ts tp.
Proof. unfold ks_tris_of. cbn. destruct (Z.eqb pi (Z.of_nat k)); reflexivity. Qed.

Lemma ks_distribute_imap : forall ts tp parts,
  vlen parts < 2 ^ 31 ->
  ks_distribute ts tp parts = ks_imap (fun j p => kb_set_tt p (kb_tt p ++ ks_tris_of j ts tp)) 0 parts.
Proof.
  induction ts as [|t ts IH]; intros tp parts Hn.
  - cbn [ks_distribute]. symmetry. apply ks_imap_id. intros k x. unfold ks_tris_of. cbn.
    rewrite app_nil_r. apply kb_set_tt_id.
  - destruct tp as [|pi tp].
    + cbn [ks_distribute]. symmetry. apply ks_imap_id. intros k x. unfold ks_tris_of. cbn.
      rewrite app_nil_r. apply kb_set_tt_id.
    + cbn [ks_distribute]. rewrite to_int_small by exact Hn.
      destruct ((0 <=? pi)%Z && (pi <? Z.of_N (vlen parts))%Z)%bool eqn:Hr.
      * rewrite IH by (unfold vlen in *; rewrite (ks_push_tt_imap t parts (Z.to_nat pi) 0), ks_imap_length; exact Hn).
        rewrite (ks_push_tt_imap t parts (Z.to_nat pi) 0). rewrite ks_imap_imap.
        apply ks_imap_ext. intros k x _. rewrite ks_tris_of_cons. cbn [plus].
        apply andb_true_iff in Hr. destruct Hr as [H0 H1].
        destruct (Nat.eqb_spec k (Z.to_nat pi)) as [->|Hne].
        -- replace (Z.eqb pi (Z.of_nat (Z.to_nat pi))) with true by (symmetry; apply Z.eqb_eq; lia).
           rewrite kb_set_tt_tt, kb_set_tt_twice, <- app_assoc. reflexivity.
        -- replace (Z.eqb pi (Z.of_nat k)) with false by (symmetry; apply Z.eqb_neq; lia).
           reflexivity.
      * rewrite IH by exact Hn. apply ks_imap_ext_len. intros k x Hk. rewrite ks_tris_of_cons.
        replace (Z.eqb pi (Z.of_nat k)) with false; [reflexivity|].
        symmetry. apply Z.eqb_neq. apply andb_false_iff in Hr. unfold vlen in *. destruct Hr as [Hr|Hr]; lia.
Qed.

(* every assigned triangle lands in exactly one of the lists [ks_tris_of k] *)
Lemma ks_concat_pick {A} (a : A) (g : nat -> list A) : forall n s j,
  (s <= j < s + n)%nat ->
  Permutation (concat (map (fun k => (if Nat.eqb k j then [a] else []) ++ g k) (seq s n)))
              (a :: concat (map g (seq s n))).
Proof.
  induction n as [|n IH]; intros s j Hj; [lia|].
  cbn [seq map concat].
  destruct (Nat.eqb_spec s j) as [->|Hne].
  - cbn [app]. apply perm_skip. apply Permutation_app_head.
    apply Permutation_refl'. f_equal. apply map_ext_in. intros k Hk. apply in_seq in Hk.
    destruct (Nat.eqb_spec k j); [lia|reflexivity].
  - cbn [app]. etransitivity; [apply Permutation_app_head; apply (IH (S s) j); lia|].
    symmetry. apply Permutation_middle.
Qed.

Lemma ks_tris_of_cover : forall (ts : list tri) (tp : list Z) (n : nat),
  Permutation (concat (map (fun k => ks_tris_of k ts tp) (seq 0 n))) (ks_assigned ts tp n).
Proof.
  induction ts as [|t ts IH]; intros tp n.
  - unfold ks_tris_of, ks_assigned. cbn. induction (seq 0 n); cbn; auto.
  - destruct tp as [|pi tp].
    + unfold ks_tris_of, ks_assigned. cbn. induction (seq 0 n); cbn; auto.
    + unfold ks_assigned. cbn [combine filter snd].
      destruct ((0 <=? pi)%Z && (pi <? Z.of_nat n)%Z)%bool eqn:Hr.
      * apply andb_true_iff in Hr. destruct Hr as [H0 H1]. cbn [map fst].
        etransitivity.
        2:{ apply perm_skip. apply (IH tp n). }
        etransitivity; [|apply (ks_concat_pick t (fun k => ks_tris_of k ts tp) n 0 (Z.to_nat pi)); lia].
        apply Permutation_refl'. f_equal. apply map_ext. intros k. rewrite ks_tris_of_cons.
        f_equal. destruct (Nat.eqb_spec k (Z.to_nat pi)) as [->|Hne].
        -- replace (Z.eqb pi (Z.of_nat (Z.to_nat pi))) with true by (symmetry; apply Z.eqb_eq; lia). reflexivity.
        -- replace (Z.eqb pi (Z.of_nat k)) with false by (symmetry; apply Z.eqb_neq; lia). reflexivity.
      * etransitivity; [|apply (IH tp n)].
        apply Permutation_refl'. f_equal. apply map_ext_in. intros k Hk. apply in_seq in Hk.
        rewrite ks_tris_of_cons. replace (Z.eqb pi (Z.of_nat k)) with false; [reflexivity|].
        symmetry. apply Z.eqb_neq. apply andb_false_iff in Hr. destruct Hr as [Hr|Hr]; lia.
Qed.

(* the partition GenerateTrueTrianglesFromTriParts leaves at position j *)
Definition ks_dist_part (ts : list tri) (tp : list Z) (j : nat) (p : ks_pb) : ks_pb :=
  kb_set_nt (kb_set_tt (ks_pb_clear p) (ks_tris_of j ts tp)) (wrap16 (vlen (ks_tris_of j ts tp))).

Theorem ks_sp_gen_true_spec (ts : list tri) (s : ks_sp) :
  vlen ts = vlen (kp_tp s) -> vlen (kp_parts s) < 2 ^ 31 ->
  ks_sp_gen_true ts s = ks_mkSP (kp_np s) (ks_imap (ks_dist_part ts (kp_tp s)) 0 (kp_parts s)) (kp_mapped s) (kp_tp s).
Proof.
  intros Hl Hn. unfold ks_sp_gen_true. rewrite Hl, N.eqb_refl. cbn [negb].
  rewrite ks_distribute_imap by (unfold vlen in *; rewrite map_length; exact Hn).
  f_equal. rewrite ks_imap_map.
  rewrite (ks_imap_seq _ (ks_pb_clear ks_pb0) (map ks_pb_clear (kp_parts s)) 0).
  rewrite (ks_imap_seq _ ks_pb0 (kp_parts s) 0). rewrite map_length.
  apply map_ext_in. intros k Hk. apply in_seq in Hk. rewrite Nat.sub_0_r.
  rewrite map_nth.
  unfold ks_dist_part. cbn. reflexivity.
Qed.

Lemma ks_dist_part_tt ts tp j p : kb_tt (ks_dist_part ts tp j p) = ks_tris_of j ts tp.
Proof. reflexivity. Qed.

Theorem ks_sp_gen_true_cover (ts : list tri) (s : ks_sp) :
  vlen ts = vlen (kp_tp s) -> vlen (kp_parts s) < 2 ^ 31 ->
  Permutation (concat (map kb_tt (kp_parts (ks_sp_gen_true ts s))))
              (ks_assigned ts (kp_tp s) (length (kp_parts s))).
Proof.
  intros Hl Hn. rewrite ks_sp_gen_true_spec by assumption. cbn [kp_parts].
  rewrite ks_imap_map. rewrite (ks_imap_seq _ ks_pb0).
  etransitivity; [|apply ks_tris_of_cover].
  apply Permutation_refl'. f_equal.
Qed.

(* ---------------------------------------------------------------------------------------- *)
(* PrepareVertexMapsAndTriangles on a freshly distributed partition *)
Definition ks_part_geom_ok (mapped : bool) (p : ks_pb) : Prop :=
  ks_vm_exact p /\ kb_nv p = vlen (kb_vm p) /\ vlen (kb_vm p) < 65536 /\
  (if mapped then Forall2 (ks_maps_back (kb_vm p)) (kb_tris p) (kb_tt p) else kb_tris p = kb_tt p).

(* everything except numVertices, numTriangles, vertexMap and triangles *)
Definition ks_same_skin (p p' : ks_pb) : Prop :=
  kb_tt p' = kb_tt p /\ kb_nb p' = kb_nb p /\ kb_ns p' = kb_ns p /\ kb_nw p' = kb_nw p /\
  kb_bones p' = kb_bones p /\ kb_hvm p' = kb_hvm p /\ kb_hvw p' = kb_hvw p /\ kb_vw p' = kb_vw p /\
  kb_slens p' = kb_slens p /\ kb_hf p' = kb_hf p /\ kb_strips p' = kb_strips p /\
  kb_hbi p' = kb_hbi p /\ kb_bi p' = kb_bi p.

Lemma ks_prepare_vmap_cleared (mapped : bool) (p : ks_pb) :
  kb_vm p = [] -> kb_tris p = [] ->
  (forall x, In x (ks_corners (kb_tt p)) -> x < 65535) -> vlen (kb_tt p) < 2 ^ 31 ->
  exists p', ks_pb_prepare_vmap mapped p = Ok p' /\ ks_part_geom_ok mapped p' /\ ks_same_skin p p'.
Proof.
  intros Hvm Htr Hc Hl. unfold ks_pb_prepare_vmap. rewrite Hvm. cbn [ks_isnil].
  destruct (ks_gen_vmap_ok p Hc) as (p1 & E1 & S1 & X1 & N1 & L1). rewrite E1. cbn [bind].
  unfold ks_same_but_vm in S1.
  destruct S1 as (S_nt & S_nb & S_ns & S_nw & S_bones & S_hvm & S_hvw & S_vw & S_slens & S_hf & S_strips & S_tris & S_hbi & S_bi & S_tt).
  rewrite S_tris, Htr. cbn [ks_isnil].
  destruct mapped.
  - destruct (kb_tt p1) as [|t0 tt0] eqn:Ett.
    + destruct (ks_gen_mapped_nil p1 Ett) as (p2 & E2 & T2 & TT2 & V2 & NV2 & B2 & W2 & I2).
      exists p2. split; [exact E2|]. split.
      * unfold ks_part_geom_ok, ks_vm_exact in *. rewrite V2, T2, TT2, NV2. rewrite Ett in X1.
        split; [exact X1|]. split; [exact N1|]. split; [exact L1|constructor].
      * revert E2. unfold ks_pb_gen_mapped. rewrite Ett. cbn [ks_isnil]. rewrite Bool.orb_true_r.
        intros E2. inversion E2; subst p2. unfold ks_same_skin, kb_set_nt, kb_set_tris. cbn.
        repeat split; congruence.
    + destruct (ks_gen_mapped_ok p1) as (p2 & E2 & S2 & F2).
      * exact L1.
      * rewrite Ett, S_tt. exact Hl.
      * rewrite Ett. discriminate.
      * intros x Hx. apply X1. exact Hx.
      * exists p2. split; [exact E2|].
        unfold ks_same_but_tris in S2.
        destruct S2 as (T_nv & T_nt & T_nb & T_ns & T_nw & T_bones & T_hvm & T_vm & T_hvw & T_vw & T_slens & T_hf & T_strips & T_hbi & T_bi & T_tt).
        split.
        -- unfold ks_part_geom_ok, ks_vm_exact in *. rewrite T_vm, T_tt, T_nv.
           split; [exact X1|]. split; [exact N1|]. split; [exact L1|exact F2].
        -- unfold ks_same_skin. repeat split; congruence.
  - eexists. split; [reflexivity|]. split.
    + unfold ks_part_geom_ok, ks_vm_exact, kb_set_tris in *. cbn [kb_vm kb_tt kb_nv kb_tris].
      split; [exact X1|]. split; [exact N1|]. split; [exact L1|reflexivity].
    + unfold ks_same_skin, kb_set_tris. cbn. repeat split; congruence.
Qed.

Lemma ks_dist_part_fields ts tp j p :
  kb_vm (ks_dist_part ts tp j p) = [] /\ kb_tris (ks_dist_part ts tp j p) = [] /\
  kb_vw (ks_dist_part ts tp j p) = [] /\ kb_bi (ks_dist_part ts tp j p) = [] /\
  kb_bones (ks_dist_part ts tp j p) = kb_bones p.
Proof. repeat split; reflexivity. Qed.

Lemma ks_tris_of_incl k ts tp t : In t (ks_tris_of k ts tp) -> In t ts.
Proof.
  unfold ks_tris_of. intros H. apply in_map_iff in H. destruct H as ([t' pi] & <- & H).
  apply filter_In in H. destruct H as [H _]. apply in_combine_l in H. exact H.
Qed.

Lemma ks_filter_length_le {A} (f : A -> bool) (l : list A) : (length (filter f l) <= length l)%nat.
Proof. induction l as [|x l IH]; cbn; [lia|]. destruct (f x); cbn; lia. Qed.

Lemma ks_tris_of_length k ts tp : (length (ks_tris_of k ts tp) <= length ts)%nat.
Proof.
  unfold ks_tris_of. rewrite map_length.
  etransitivity; [apply ks_filter_length_le|]. rewrite combine_length. lia.
Qed.

Lemma ks_corners_incl (a b : list tri) x : (forall t, In t a -> In t b) -> In x (ks_corners a) -> In x (ks_corners b).
Proof.
  unfold ks_corners. intros H Hx. apply in_flat_map in Hx. destruct Hx as (t & Ht & Hx).
  apply in_flat_map. exists t. split; [apply H; exact Ht|exact Hx].
Qed.

(* PrepareVertexMapsAndTriangles after GenerateTrueTrianglesFromTriParts *)
Theorem ks_prepare_after_distribute (ts : list tri) (s : ks_sp) :
  vlen ts = vlen (kp_tp s) -> vlen (kp_parts s) < 2 ^ 31 -> vlen ts < 2 ^ 31 ->
  (forall x, In x (ks_corners ts) -> x < 65535) ->
  exists parts', ks_sp_prepare_vmaps (ks_sp_gen_true ts s) = Ok (ks_mkSP (kp_np s) parts' (kp_mapped s) (kp_tp s)) /\
    Forall2 (fun p p' => ks_part_geom_ok (kp_mapped s) p' /\ ks_same_skin p p')
            (ks_imap (ks_dist_part ts (kp_tp s)) 0 (kp_parts s)) parts'.
Proof.
  intros Hl Hn Ht Hc. rewrite ks_sp_gen_true_spec by assumption.
  unfold ks_sp_prepare_vmaps. cbn [kp_parts kp_mapped kp_np kp_tp].
  destruct (ks_mapM_rel (ks_pb_prepare_vmap (kp_mapped s))
              (fun p p' => ks_part_geom_ok (kp_mapped s) p' /\ ks_same_skin p p')
              (ks_imap (ks_dist_part ts (kp_tp s)) 0 (kp_parts s))) as (ys & E & F).
  - intros x Hx. apply ks_imap_in in Hx. destruct Hx as (k & q & _ & _ & ->).
    destruct (ks_dist_part_fields ts (kp_tp s) k q) as (F1 & F2 & _).
    destruct (ks_prepare_vmap_cleared (kp_mapped s) (ks_dist_part ts (kp_tp s) k q) F1 F2) as (p' & E' & G' & S').
    + rewrite ks_dist_part_tt. intros x Hx. apply Hc. eapply ks_corners_incl; [|exact Hx].
      intros t. apply ks_tris_of_incl.
    + rewrite ks_dist_part_tt. pose proof (ks_tris_of_length k ts (kp_tp s)). unfold vlen in *. lia.
    + exists p'. auto.
  - rewrite E. cbn [bind]. exists ys. split; [reflexivity|exact F].
Qed.
