(* GenerateTriPartsFromTrueTriangles / PrepareTriParts (Skin.cpp:451-485, 514-519), repaired version:
   every copy of a triangle held by a partition claims one shape triangle that is not assigned yet.
   The loop model is shown equal to a pure function on the parallel lists (shape triangles,
   triParts); about that function: range, -1 for triangles nobody holds, every assigned entry names
   a partition holding a copy, and the counting statement (k copies held => k copies assigned, each
   in the partition holding it). *)
From NiflyVerif Require Import Res UtilModel UtilSpec CompactProofs EraseProofs SkinModel SkinLib.
From Coq Require Import ZifyBool ZifyNat ZifyN.
Local Open Scope N_scope.

Lemma ks_tri_eqb_eq (a b : tri) : ks_tri_eqb a b = true -> a = b.
Proof.
  destruct a as [[a1 a2] a3], b as [[b1 b2] b3]. unfold ks_tri_eqb. intros H.
  apply andb_true_iff in H. destruct H as [H H3]. apply andb_true_iff in H. destruct H as [H1 H2].
  apply N.eqb_eq in H1, H2, H3. subst. reflexivity.
Qed.

Lemma ks_tri_eqb_refl (a : tri) : ks_tri_eqb a a = true.
Proof. destruct a as [[a1 a2] a3]. unfold ks_tri_eqb. rewrite !N.eqb_refl. reflexivity. Qed.

Lemma ks_tri_eqb_spec (a b : tri) : reflect (a = b) (ks_tri_eqb a b).
Proof.
  destruct (ks_tri_eqb a b) eqn:E; constructor; [apply ks_tri_eqb_eq; exact E|].
  intros ->. rewrite ks_tri_eqb_refl in E. discriminate.
Qed.

(* ---- PrepareTrueTriangles is total for partitions without strips ---- *)
Lemma ks_pb_prepare_true_total (mapped : bool) (p : ks_pb) :
  kb_ns p = 0 -> vlen (kb_tris p) < 2 ^ 31 -> exists p', ks_pb_prepare_true mapped p = Ok p'.
Proof.
  intros Hns Hl. unfold ks_pb_prepare_true. destruct (negb (ks_isnil (kb_tt p))); [eauto|].
  rewrite Hns. cbn [N.eqb negb bind]. destruct mapped; [|eauto].
  unfold ks_pb_gen_true. destruct (ks_isnil (kb_vm p) || ks_isnil (kb_tris p))%bool; [eauto|].
  rewrite (apply_map_tris_correct 31 true) by exact Hl. cbn [bind].
  destruct (vlen (kb_tris p) =? vlen (map ks_rot (fst (apply_map_spec (kb_tris p) (map Z.of_N (kb_vm p)))))); eauto.
Qed.

(* ---- the triangle -> indices map ---- *)
Definition ks_tmap_get (m : ks_tmap) (c : tri) : list Z :=
  match ks_tri_find m c with Some l => l | None => [] end.

Lemma ks_tmap_get_push (m : ks_tmap) (key : tri) (i : Z) (c : tri) :
  ks_tmap_get (ks_tmap_push m key i) c = if ks_tri_eqb key c then ks_tmap_get m c ++ [i] else ks_tmap_get m c.
Proof.
  unfold ks_tmap_get. induction m as [|[k l] m IH]; cbn [ks_tmap_push ks_tri_find].
  - destruct (ks_tri_eqb key c); reflexivity.
  - destruct (ks_tri_eqb_spec k key) as [->|Hne]; cbn [ks_tri_find].
    + destruct (ks_tri_eqb key c); reflexivity.
    + destruct (ks_tri_eqb_spec k c) as [->|Hkc].
      * destruct (ks_tri_eqb_spec key c); [congruence|reflexivity].
      * exact IH.
Qed.

(* the shape indices (from i on) whose triangle is c up to rotation, ascending *)
Fixpoint ks_cidx (ts : list tri) (i : Z) (c : tri) : list Z :=
  match ts with
  | [] => []
  | t :: r => if ks_tri_eqb (ks_rot t) c then i :: ks_cidx r (i + 1)%Z c else ks_cidx r (i + 1)%Z c
  end.

Lemma ks_tri_index_get : forall (ts : list tri) (i : Z) (m : ks_tmap) (c : tri),
  ks_tmap_get (ks_tri_index ts i m) c = ks_tmap_get m c ++ ks_cidx ts i c.
Proof.
  induction ts as [|t ts IH]; intros i m c; cbn [ks_tri_index ks_cidx]; [rewrite app_nil_r; reflexivity|].
  rewrite IH, ks_tmap_get_push. destruct (ks_tri_eqb (ks_rot t) c); [rewrite <- app_assoc; reflexivity|reflexivity].
Qed.

(* ---- one claim, as a pure function on the parallel lists ---- *)
Fixpoint ks_claim_spec (ts : list tri) (tp : list Z) (c : tri) (pi : Z) : list Z :=
  match ts, tp with
  | t :: ts', v :: tp' =>
    if (ks_tri_eqb (ks_rot t) c && (v <? 0)%Z)%bool then pi :: tp' else v :: ks_claim_spec ts' tp' c pi
  | _, _ => tp
  end.

Lemma ks_claim_spec_length : forall ts tp c pi, length (ks_claim_spec ts tp c pi) = length tp.
Proof.
  induction ts as [|t ts IH]; intros [|v tp] c pi; cbn [ks_claim_spec]; try reflexivity.
  destruct (_ && _)%bool; cbn [length]; [reflexivity|rewrite IH; reflexivity].
Qed.

Lemma ks_claim_ok : forall (ts : list tri) (tp pre : list Z) (c : tri) (pi : Z),
  length ts = length tp ->
  ks_claim (ks_cidx ts (Z.of_nat (length pre)) c) pi (pre ++ tp) = Ok (pre ++ ks_claim_spec ts tp c pi).
Proof.
  induction ts as [|t ts IH]; intros [|v tp] pre c pi Hl; try discriminate; [reflexivity|].
  cbn [ks_cidx ks_claim_spec].
  assert (Hnext : ks_claim (ks_cidx ts (Z.of_nat (length pre) + 1)%Z c) pi (pre ++ v :: tp)
                  = Ok (pre ++ v :: ks_claim_spec ts tp c pi)).
  { replace (Z.of_nat (length pre) + 1)%Z with (Z.of_nat (length (pre ++ [v]))) by (rewrite app_length; cbn; lia).
    replace (pre ++ v :: tp) with ((pre ++ [v]) ++ tp) by (rewrite <- app_assoc; reflexivity).
    rewrite IH by (cbn in Hl; lia). rewrite <- app_assoc. reflexivity. }
  destruct (ks_tri_eqb (ks_rot t) c); cbn [andb]; [|exact Hnext].
  cbn [ks_claim]. unfold vget. replace (N.to_nat (Z.to_N (Z.of_nat (length pre)))) with (length pre) by lia.
  rewrite nth_error_app2 by lia. rewrite Nat.sub_diag. cbn [nth_error].
  destruct (v <? 0)%Z; [|exact Hnext].
  unfold vset. replace (N.to_nat (Z.to_N (Z.of_nat (length pre)))) with (length pre) by lia.
  destruct (N.ltb_spec (Z.to_N (Z.of_nat (length pre))) (N.of_nat (length (pre ++ v :: tp)))) as [_|Hc].
  2:{ rewrite app_length in Hc. cbn [length] in Hc. lia. }
  rewrite firstn_app, firstn_all, Nat.sub_diag. cbn [firstn]. rewrite app_nil_r.
  replace (S (length pre)) with (length pre + 1)%nat by lia.
  rewrite skipn_app, skipn_all2 by lia. replace (length pre + 1 - length pre)%nat with 1%nat by lia.
  cbn [skipn app]. reflexivity.
Qed.

(* ---- all claims of a run ---- *)
Fixpoint ks_claims (parts : list ks_pb) (pi : Z) : list (tri * Z) :=
  match parts with
  | [] => []
  | p :: r => map (fun pt => (ks_rot pt, pi)) (kb_tt p) ++ ks_claims r (pi + 1)%Z
  end.

Definition ks_run_claims (ts : list tri) (L : list (tri * Z)) (tp : list Z) : list Z :=
  fold_left (fun tp cl => ks_claim_spec ts tp (fst cl) (snd cl)) L tp.

Lemma ks_run_claims_length ts : forall L tp, length (ks_run_claims ts L tp) = length tp.
Proof.
  unfold ks_run_claims. induction L as [|cl L IH]; intros tp; cbn [fold_left]; [reflexivity|].
  rewrite IH. apply ks_claim_spec_length.
Qed.

Lemma ks_assign_tris_spec (ts : list tri) : forall (pts : list tri) (pi : Z) (tp : list Z),
  length ts = length tp ->
  ks_assign_tris (ks_tri_index ts 0%Z []) pts pi tp = Ok (ks_run_claims ts (map (fun pt => (ks_rot pt, pi)) pts) tp).
Proof.
  induction pts as [|pt pts IH]; intros pi tp Hl; [reflexivity|]. cbn [ks_assign_tris map].
  assert (E : ks_claim (ks_tmap_get (ks_tri_index ts 0%Z []) (ks_rot pt)) pi tp = Ok (ks_claim_spec ts tp (ks_rot pt) pi)).
  { rewrite ks_tri_index_get. cbn [ks_tmap_get ks_tri_find app]. apply (ks_claim_ok ts tp [] (ks_rot pt) pi Hl). }
  unfold ks_tmap_get in E.
  destruct (ks_tri_find (ks_tri_index ts 0%Z []) (ks_rot pt)) as [l|].
  - rewrite E. cbn [bind]. rewrite IH by (rewrite ks_claim_spec_length; exact Hl). reflexivity.
  - cbn [ks_claim] in E. injection E as E'.
    unfold ks_run_claims. cbn [fold_left fst snd]. rewrite <- E'. apply IH. exact Hl.
Qed.

Lemma ks_run_claims_app ts L1 L2 tp : ks_run_claims ts (L1 ++ L2) tp = ks_run_claims ts L2 (ks_run_claims ts L1 tp).
Proof. unfold ks_run_claims. apply fold_left_app. Qed.

Lemma ks_assign_parts_spec (ts : list tri) : forall (parts : list ks_pb) (pi : Z) (tp : list Z),
  length ts = length tp ->
  ks_assign_parts (ks_tri_index ts 0%Z []) parts pi tp = Ok (ks_run_claims ts (ks_claims parts pi) tp).
Proof.
  induction parts as [|p parts IH]; intros pi tp Hl; [reflexivity|]. cbn [ks_assign_parts ks_claims].
  rewrite ks_assign_tris_spec by exact Hl. cbn [bind].
  rewrite IH by (rewrite ks_run_claims_length; exact Hl). rewrite ks_run_claims_app. reflexivity.
Qed.

(* ---- pointwise: what a run does to one entry ---- *)
Lemma ks_claim_spec_nth : forall ts tp c pi i,
  nth_error (ks_claim_spec ts tp c pi) i = nth_error tp i \/
  (exists t v, nth_error ts i = Some t /\ nth_error tp i = Some v /\ ks_rot t = c /\ (v < 0)%Z /\
               nth_error (ks_claim_spec ts tp c pi) i = Some pi).
Proof.
  induction ts as [|t ts IH]; intros [|v tp] c pi i; cbn [ks_claim_spec]; try (left; reflexivity).
  destruct (ks_tri_eqb_spec (ks_rot t) c) as [Hc|Hc]; cbn [andb].
  - destruct (Z.ltb_spec v 0); cbn [andb].
    + destruct i as [|i]; [|left; reflexivity]. right. exists t, v. cbn. auto.
    + destruct i as [|i]; [left; reflexivity|]. cbn [nth_error]. apply IH.
  - destruct i as [|i]; [left; reflexivity|]. cbn [nth_error]. apply IH.
Qed.

Lemma ks_run_claims_nth ts : forall L tp i,
  (forall cl, In cl L -> (0 <= snd cl)%Z) ->
  nth_error (ks_run_claims ts L tp) i = nth_error tp i \/
  (exists t v cl, nth_error ts i = Some t /\ nth_error tp i = Some v /\ (v < 0)%Z /\ In cl L /\
                  fst cl = ks_rot t /\ nth_error (ks_run_claims ts L tp) i = Some (snd cl)).
Proof.
  induction L as [|cl L IH]; intros tp i Hpos; [left; reflexivity|].
  change (ks_run_claims ts (cl :: L) tp) with (ks_run_claims ts L (ks_claim_spec ts tp (fst cl) (snd cl))).
  assert (Hpos' : forall cl', In cl' L -> (0 <= snd cl')%Z) by (intros; apply Hpos; right; assumption).
  destruct (IH (ks_claim_spec ts tp (fst cl) (snd cl)) i Hpos') as [H|(t & v & cl' & Ht & Hv & Hneg & Hin & Hf & Hr)].
  - rewrite H. destruct (ks_claim_spec_nth ts tp (fst cl) (snd cl) i) as [H'|(t & v & Ht & Hv & Hc & Hneg & Hn)]; [left; exact H'|].
    right. exists t, v, cl. repeat split; auto. left. reflexivity.
  - destruct (ks_claim_spec_nth ts tp (fst cl) (snd cl) i) as [H'|(t' & v' & Ht' & Hv' & Hc & Hneg' & Hn)].
    + right. exists t, v, cl'. rewrite <- H'. repeat split; auto. right. exact Hin.
    + exfalso. rewrite Hn in Hv. inversion Hv; subst v. specialize (Hpos cl (or_introl eq_refl)). lia.
Qed.

(* ---- counting ---- *)
Fixpoint ks_cnt (f : tri -> Z -> bool) (ts : list tri) (tp : list Z) : nat :=
  match ts, tp with
  | t :: ts', v :: tp' => (if f t v then 1 else 0) + ks_cnt f ts' tp'
  | _, _ => 0
  end.

Definition ks_is_free (c : tri) (t : tri) (v : Z) : bool := (ks_tri_eqb (ks_rot t) c && (v <? 0)%Z)%bool.
Definition ks_is_asg (c : tri) (j : Z) (t : tri) (v : Z) : bool := (ks_tri_eqb (ks_rot t) c && (v =? j)%Z)%bool.
Definition ks_b2n (b : bool) : nat := if b then 1 else 0.

(* a claim either changes nothing (no free copy) or moves exactly one entry of class c from a
   negative value to pi *)
Lemma ks_claim_spec_effect : forall ts tp c pi,
  (ks_cnt (ks_is_free c) ts tp = 0%nat /\ ks_claim_spec ts tp c pi = tp) \/
  (exists t v, ks_rot t = c /\ (v < 0)%Z /\ (0 < ks_cnt (ks_is_free c) ts tp)%nat /\
     forall f, (ks_cnt f ts (ks_claim_spec ts tp c pi) + ks_b2n (f t v) = ks_cnt f ts tp + ks_b2n (f t pi))%nat).
Proof.
  induction ts as [|t ts IH]; intros [|v tp] c pi; cbn [ks_claim_spec ks_cnt]; try (left; split; reflexivity).
  unfold ks_is_free at 1 3. destruct (ks_tri_eqb_spec (ks_rot t) c) as [Hc|Hc]; cbn [andb].
  - destruct (Z.ltb_spec v 0) as [Hv|Hv].
    + right. exists t, v. split; [exact Hc|]. split; [exact Hv|]. split; [lia|].
      intros f. cbn [ks_cnt]. unfold ks_b2n. destruct (f t v), (f t pi); lia.
    + destruct (IH tp c pi) as [[H0 He]|(t' & v' & Hc' & Hv' & Hp & Hf)].
      * left. split; [lia|]. rewrite He. reflexivity.
      * right. exists t', v'. split; [exact Hc'|]. split; [exact Hv'|]. split; [lia|].
        intros f. cbn [ks_cnt]. specialize (Hf f). lia.
  - destruct (IH tp c pi) as [[H0 He]|(t' & v' & Hc' & Hv' & Hp & Hf)].
    + left. split; [lia|]. rewrite He. reflexivity.
    + right. exists t', v'. split; [exact Hc'|]. split; [exact Hv'|]. split; [lia|].
      intros f. cbn [ks_cnt]. specialize (Hf f). lia.
Qed.

(* number of claims for triangle c / for triangle c by partition j *)
Definition ks_hc (c : tri) (L : list (tri * Z)) : nat := length (filter (fun cl => ks_tri_eqb (fst cl) c) L).
Definition ks_hcj (c : tri) (j : Z) (L : list (tri * Z)) : nat :=
  length (filter (fun cl => (ks_tri_eqb (fst cl) c && (snd cl =? j)%Z)%bool) L).

Lemma ks_run_claims_count (ts : list tri) (c : tri) : forall (L : list (tri * Z)) (tp : list Z),
  (forall cl, In cl L -> (0 <= snd cl)%Z) ->
  ks_cnt (ks_is_free c) ts (ks_run_claims ts L tp) = (ks_cnt (ks_is_free c) ts tp - ks_hc c L)%nat /\
  ((ks_hc c L <= ks_cnt (ks_is_free c) ts tp)%nat -> forall j, (0 <= j)%Z ->
     ks_cnt (ks_is_asg c j) ts (ks_run_claims ts L tp) = (ks_cnt (ks_is_asg c j) ts tp + ks_hcj c j L)%nat).
Proof.
  induction L as [|[c1 p1] L IH]; intros tp Hpos.
  { cbn. split; [lia|]. intros _ j _. unfold ks_hcj. cbn. lia. }
  change (ks_run_claims ts ((c1, p1) :: L) tp) with (ks_run_claims ts L (ks_claim_spec ts tp c1 p1)).
  assert (Hp1 : (0 <= p1)%Z) by (apply (Hpos (c1, p1)); left; reflexivity).
  assert (Hpos' : forall cl, In cl L -> (0 <= snd cl)%Z) by (intros; apply Hpos; right; assumption).
  specialize (IH (ks_claim_spec ts tp c1 p1) Hpos'). destruct IH as [IH1 IH2].
  unfold ks_hc, ks_hcj in *. cbn [filter fst snd].
  destruct (ks_claim_spec_effect ts tp c1 p1) as [[H0 He]|(t & v & Hc & Hv & Hp & Hf)].
  - (* no free copy of c1: nothing changes *)
    rewrite He in *. destruct (ks_tri_eqb_spec c1 c) as [->|Hne]; cbn [andb length].
    + split; [rewrite IH1; lia|]. intros Hle. lia.
    + split; [exact IH1|]. intros Hle j Hj. apply IH2; assumption.
  - destruct (ks_tri_eqb_spec c1 c) as [->|Hne]; cbn [andb length].
    + (* a copy of c becomes assigned to p1 *)
      assert (Ef1 : ks_is_free c t v = true).
      { unfold ks_is_free. rewrite Hc, ks_tri_eqb_refl. apply Z.ltb_lt in Hv. rewrite Hv. reflexivity. }
      assert (Ef2 : ks_is_free c t p1 = false).
      { unfold ks_is_free. destruct (Z.ltb_spec p1 0); [lia|]. apply Bool.andb_false_r. }
      pose proof (Hf (ks_is_free c)) as Hfree. rewrite Ef1, Ef2 in Hfree. cbn [ks_b2n] in Hfree.
      split; [rewrite IH1; lia|]. intros Hle j Hj.
      rewrite IH2 by (try lia; exact Hj).
      assert (Ea1 : ks_is_asg c j t v = false).
      { unfold ks_is_asg. destruct (Z.eqb_spec v j); [lia|]. apply Bool.andb_false_r. }
      assert (Ea2 : ks_is_asg c j t p1 = (p1 =? j)%Z).
      { unfold ks_is_asg. rewrite Hc, ks_tri_eqb_refl. reflexivity. }
      pose proof (Hf (ks_is_asg c j)) as Hasg. rewrite Ea1, Ea2 in Hasg.
      destruct (Z.eqb_spec p1 j); cbn [ks_b2n length] in *; lia.
    + (* another triangle: the counts of c are untouched *)
      assert (Hsame : forall g : Z -> bool,
                ks_cnt (fun t0 v0 => (ks_tri_eqb (ks_rot t0) c && g v0)%bool) ts (ks_claim_spec ts tp c1 p1)
                = ks_cnt (fun t0 v0 => (ks_tri_eqb (ks_rot t0) c && g v0)%bool) ts tp).
      { intros g. specialize (Hf (fun t0 v0 => (ks_tri_eqb (ks_rot t0) c && g v0)%bool)). cbn beta in Hf.
        rewrite Hc in Hf. destruct (ks_tri_eqb_spec c1 c); [contradiction|]. cbn [andb ks_b2n] in Hf. lia. }
      assert (Hs1 : ks_cnt (ks_is_free c) ts (ks_claim_spec ts tp c1 p1) = ks_cnt (ks_is_free c) ts tp)
        by (exact (Hsame (fun v0 => (v0 <? 0)%Z))).
      split; [rewrite IH1, Hs1; reflexivity|]. intros Hle j Hj.
      assert (Hs2 : ks_cnt (ks_is_asg c j) ts (ks_claim_spec ts tp c1 p1) = ks_cnt (ks_is_asg c j) ts tp)
        by (exact (Hsame (fun v0 => (v0 =? j)%Z))).
      rewrite IH2 by (try rewrite Hs1; assumption). rewrite Hs2. reflexivity.
Qed.

Lemma ks_cnt_zero (f : tri -> Z -> bool) : forall ts tp i t v,
  ks_cnt f ts tp = 0%nat -> nth_error ts i = Some t -> nth_error tp i = Some v -> f t v = false.
Proof.
  induction ts as [|t0 ts IH]; intros [|v0 tp] i t v H Ht Hv; try (destruct i; discriminate).
  cbn [ks_cnt] in H. destruct i as [|i]; cbn in Ht, Hv.
  - inversion Ht; inversion Hv; subst. destruct (f t v); [lia|reflexivity].
  - eapply IH; try eassumption. lia.
Qed.

(* copies of c in the shape; all of them are free in a fresh triParts *)
Definition ks_shape_copies (c : tri) (ts : list tri) : nat := length (filter (fun t => ks_tri_eqb (ks_rot t) c) ts).

Lemma ks_cnt_fresh_free c : forall ts, ks_cnt (ks_is_free c) ts (repeat (-1)%Z (length ts)) = ks_shape_copies c ts.
Proof.
  unfold ks_shape_copies. induction ts as [|t ts IH]; [reflexivity|]. cbn [length repeat ks_cnt filter].
  unfold ks_is_free at 1. destruct (ks_tri_eqb (ks_rot t) c); cbn [andb length]; rewrite IH; reflexivity.
Qed.

Lemma ks_cnt_fresh_asg c j : (0 <= j)%Z -> forall ts, ks_cnt (ks_is_asg c j) ts (repeat (-1)%Z (length ts)) = 0%nat.
Proof.
  intros Hj. induction ts as [|t ts IH]; [reflexivity|]. cbn [length repeat ks_cnt].
  unfold ks_is_asg at 1. destruct (Z.eqb_spec (-1) j); [lia|]. rewrite Bool.andb_false_r, IH. reflexivity.
Qed.

(* the claims, in terms of the partitions *)
Definition ks_held_in (c : tri) (p : ks_pb) : nat := length (filter (fun pt => ks_tri_eqb (ks_rot pt) c) (kb_tt p)).
Definition ks_held (c : tri) (parts : list ks_pb) : nat := list_sum (map (ks_held_in c) parts).

Lemma ks_filter_map_length {A B} (f : B -> bool) (g : A -> B) (l : list A) :
  length (filter f (map g l)) = length (filter (fun x => f (g x)) l).
Proof. induction l as [|x l IH]; cbn; [reflexivity|]. destruct (f (g x)); cbn; rewrite IH; reflexivity. Qed.

Lemma ks_hc_claims c : forall parts pi, ks_hc c (ks_claims parts pi) = ks_held c parts.
Proof.
  unfold ks_hc, ks_held. induction parts as [|p parts IH]; intros pi; [reflexivity|]. cbn [ks_claims map list_sum].
  rewrite filter_app, app_length, IH, ks_filter_map_length. reflexivity.
Qed.

Lemma ks_claims_pos : forall parts pi cl, (0 <= pi)%Z -> In cl (ks_claims parts pi) -> (pi <= snd cl)%Z.
Proof.
  induction parts as [|p parts IH]; intros pi cl Hpi H; [destruct H|]. cbn [ks_claims] in H.
  apply in_app_iff in H. destruct H as [H|H].
  - apply in_map_iff in H. destruct H as (pt & <- & _). cbn. lia.
  - apply IH in H; lia.
Qed.

Lemma ks_claims_in : forall parts pi cl, In cl (ks_claims parts pi) ->
  exists p pt, nth_error parts (Z.to_nat (snd cl - pi)) = Some p /\ In pt (kb_tt p) /\ fst cl = ks_rot pt /\ (pi <= snd cl)%Z.
Proof.
  induction parts as [|p parts IH]; intros pi cl H; [destruct H|]. cbn [ks_claims] in H.
  apply in_app_iff in H. destruct H as [H|H].
  - apply in_map_iff in H. destruct H as (pt & <- & Hpt). exists p, pt. cbn [fst snd].
    rewrite Z.sub_diag. cbn. repeat split; auto. lia.
  - destruct (IH _ _ H) as (p' & pt & Hn & Hpt & Hf & Hle). exists p', pt.
    replace (Z.to_nat (snd cl - pi)) with (S (Z.to_nat (snd cl - (pi + 1)))) by lia. cbn [nth_error].
    repeat split; auto. lia.
Qed.

Lemma ks_filter_none {A} (f : A -> bool) (l : list A) : (forall x, In x l -> f x = false) -> length (filter f l) = 0%nat.
Proof.
  induction l as [|x l IH]; intros H; [reflexivity|]. cbn. rewrite (H x (or_introl eq_refl)).
  apply IH. intros; apply H; right; assumption.
Qed.

Lemma ks_hcj_claims c j : forall parts pi, (pi <= j)%Z ->
  ks_hcj c j (ks_claims parts pi) = match nth_error parts (Z.to_nat (j - pi)) with Some p => ks_held_in c p | None => 0%nat end.
Proof.
  unfold ks_hcj. induction parts as [|p parts IH]; intros pi Hle; [destruct (Z.to_nat (j - pi)); reflexivity|].
  cbn [ks_claims]. rewrite filter_app, app_length, ks_filter_map_length. cbn [fst snd].
  destruct (Z.eq_dec pi j) as [->|Hne].
  - rewrite Z.sub_diag. cbn [Z.to_nat nth_error].
    assert (E : length (filter (fun cl => (ks_tri_eqb (fst cl) c && (snd cl =? j)%Z)%bool) (ks_claims parts (j + 1))) = 0%nat).
    { apply ks_filter_none. intros cl Hcl. apply ks_claims_in in Hcl. destruct Hcl as (_ & _ & _ & _ & _ & Hge).
      destruct (Z.eqb_spec (snd cl) j); [lia|]. apply Bool.andb_false_r. }
    rewrite E. unfold ks_held_in. rewrite Nat.add_0_r. f_equal. apply filter_ext. intros pt. rewrite Z.eqb_refl. apply Bool.andb_true_r.
  - rewrite IH by lia.
    replace (Z.to_nat (j - pi)) with (S (Z.to_nat (j - (pi + 1)))) by lia. cbn [nth_error].
    assert (E : length (filter (fun pt => (ks_tri_eqb (ks_rot pt) c && (pi =? j)%Z)%bool) (kb_tt p)) = 0%nat).
    { apply ks_filter_none. intros pt _.
      destruct (Z.eqb_spec pi j); [contradiction|]. apply Bool.andb_false_r. }
    rewrite E. reflexivity.
Qed.

(* ---------------------------------------------------------------------------------------- *)
(* the regenerated triParts as a function of the shape triangles and the partitions *)
Definition ks_regen_tp (ts : list tri) (parts : list ks_pb) : list Z :=
  ks_run_claims ts (ks_claims parts 0%Z) (repeat (-1)%Z (length ts)).

Lemma ks_nth_error_repeat_m1 (n i : nat) (v : Z) : nth_error (repeat (-1)%Z n) i = Some v -> v = (-1)%Z.
Proof. intros H. apply nth_error_In in H. apply repeat_spec in H. exact H. Qed.

Theorem ks_regen_tp_spec (ts : list tri) (parts : list ks_pb) :
  let tp := ks_regen_tp ts parts in
  length tp = length ts /\
  Forall (fun pj => (-1 <= pj < Z.of_nat (length parts))%Z) tp /\
  (* a triangle nobody holds stays unassigned *)
  (forall i t, nth_error ts i = Some t ->
     (forall p pt, In p parts -> In pt (kb_tt p) -> ks_rot pt <> ks_rot t) -> nth_error tp i = Some (-1)%Z) /\
  (* an assigned triangle is assigned to a partition that holds a copy of it *)
  (forall i t j, nth_error ts i = Some t -> nth_error tp i = Some j -> (0 <= j)%Z ->
     exists p pt, nth_error parts (Z.to_nat j) = Some p /\ In pt (kb_tt p) /\ ks_rot pt = ks_rot t) /\
  (* of k shape copies and h held copies of a triangle, k - h stay unassigned *)
  (forall c, ks_cnt (ks_is_free c) ts tp = (ks_shape_copies c ts - ks_held c parts)%nat) /\
  (* ... and when the partitions hold no more copies than the shape has, partition j gets exactly
     as many shape copies as it holds *)
  (forall c, (ks_held c parts <= ks_shape_copies c ts)%nat -> forall j p, nth_error parts j = Some p ->
     ks_cnt (ks_is_asg c (Z.of_nat j)) ts tp = ks_held_in c p) /\
  (* ... and when they hold at least as many, every shape copy is assigned *)
  (forall c i t, (ks_shape_copies c ts <= ks_held c parts)%nat -> nth_error ts i = Some t -> ks_rot t = c ->
     exists j, nth_error tp i = Some j /\ (0 <= j)%Z).
Proof.
  cbv zeta. unfold ks_regen_tp.
  set (L := ks_claims parts 0%Z). set (tp0 := repeat (-1)%Z (length ts)).
  assert (Hpos : forall cl, In cl L -> (0 <= snd cl)%Z) by (intros cl H; apply (ks_claims_pos parts 0%Z cl); [lia|exact H]).
  assert (Hlen : length (ks_run_claims ts L tp0) = length ts) by (rewrite ks_run_claims_length; unfold tp0; apply repeat_length).
  assert (Hcls : forall cl, In cl L -> exists p pt, nth_error parts (Z.to_nat (snd cl)) = Some p /\ In pt (kb_tt p) /\ fst cl = ks_rot pt).
  { intros cl H. destruct (ks_claims_in parts 0%Z cl H) as (p & pt & Hn & Hpt & Hf & _).
    rewrite Z.sub_0_r in Hn. eauto. }
  split; [exact Hlen|]. split.
  { apply Forall_forall. intros x Hx. apply In_nth_error in Hx. destruct Hx as (i & Hi).
    destruct (ks_run_claims_nth ts L tp0 i Hpos) as [H|(t & v & cl & _ & _ & _ & Hin & _ & Hr)].
    - rewrite H in Hi. apply ks_nth_error_repeat_m1 in Hi. subst. lia.
    - rewrite Hr in Hi. inversion Hi; subst x. destruct (Hcls cl Hin) as (p & _ & Hn & _).
      assert (Z.to_nat (snd cl) < length parts)%nat by (apply nth_error_Some; congruence).
      specialize (Hpos cl Hin). lia. }
  split.
  { intros i t Hi Hnone.
    destruct (ks_run_claims_nth ts L tp0 i Hpos) as [H|(t' & v & cl & Ht' & _ & _ & Hin & Hf & _)].
    - rewrite H. unfold tp0. assert (i < length ts)%nat by (apply nth_error_Some; congruence).
      rewrite (nth_error_nth' _ (-1)%Z) by (rewrite repeat_length; assumption). f_equal. apply nth_repeat.
    - exfalso. rewrite Hi in Ht'. inversion Ht'; subst t'. destruct (Hcls cl Hin) as (p & pt & Hn & Hpt & Hfc).
      apply (Hnone p pt (nth_error_In _ _ Hn) Hpt). congruence. }
  split.
  { intros i t j Hi Hj Hj0.
    destruct (ks_run_claims_nth ts L tp0 i Hpos) as [H|(t' & v & cl & Ht' & _ & _ & Hin & Hf & Hr)].
    - rewrite H in Hj. apply ks_nth_error_repeat_m1 in Hj. lia.
    - rewrite Hr in Hj. inversion Hj; subst j. rewrite Hi in Ht'. inversion Ht'; subst t'.
      destruct (Hcls cl Hin) as (p & pt & Hn & Hpt & Hfc). exists p, pt. repeat split; auto. congruence. }
  assert (Hcount : forall c, ks_cnt (ks_is_free c) ts (ks_run_claims ts L tp0) = (ks_shape_copies c ts - ks_held c parts)%nat /\
            ((ks_held c parts <= ks_shape_copies c ts)%nat -> forall j, (0 <= j)%Z ->
               ks_cnt (ks_is_asg c j) ts (ks_run_claims ts L tp0) = ks_hcj c j L)).
  { intros c. unfold tp0, L.
    destruct (ks_run_claims_count ts c (ks_claims parts 0%Z) (repeat (-1)%Z (length ts)) Hpos) as [C1 C2].
    rewrite ks_cnt_fresh_free, ks_hc_claims in C1, C2.
    split; [exact C1|]. intros Hle j Hj. rewrite (C2 Hle j Hj). rewrite ks_cnt_fresh_asg by exact Hj. reflexivity. }
  split; [intros c; apply Hcount|]. split.
  { intros c Hle j p Hp. destruct (Hcount c) as [_ C2]. rewrite (C2 Hle (Z.of_nat j)) by lia.
    unfold L. rewrite ks_hcj_claims by lia. rewrite Z.sub_0_r, Nat2Z.id, Hp. reflexivity. }
  intros c i t Hge Hi Hc. destruct (Hcount c) as [C1 _].
  assert (Hz : ks_cnt (ks_is_free c) ts (ks_run_claims ts L tp0) = 0%nat) by lia.
  destruct (nth_error (ks_run_claims ts L tp0) i) as [v|] eqn:Ev.
  2:{ apply nth_error_None in Ev. assert (i < length ts)%nat by (apply nth_error_Some; congruence). lia. }
  exists v. split; [reflexivity|].
  pose proof (ks_cnt_zero _ _ _ _ _ _ Hz Hi Ev) as Hf. unfold ks_is_free in Hf. rewrite Hc, ks_tri_eqb_refl in Hf.
  cbn [andb] in Hf. apply Z.ltb_ge in Hf. exact Hf.
Qed.

(* PrepareTriParts when triParts has to be regenerated: total for partitions without strips; the
   result is [ks_regen_tp] of the partitions with their true triangles prepared *)
Theorem ks_prepare_triparts_regen (ts : list tri) (s : ks_sp) :
  vlen ts <> vlen (kp_tp s) ->
  Forall (fun p => kb_ns p = 0 /\ vlen (kb_tris p) < 2 ^ 31) (kp_parts s) ->
  exists s0, ks_sp_prepare_triparts ts s = Ok s0 /\ length (kp_parts s0) = length (kp_parts s) /\
    kp_mapped s0 = kp_mapped s /\ kp_tp s0 = ks_regen_tp ts (kp_parts s0).
Proof.
  intros Hne Hall. unfold ks_sp_prepare_triparts.
  destruct (N.eqb_spec (vlen ts) (vlen (kp_tp s))); [contradiction|].
  unfold ks_sp_prepare_true.
  destruct (ks_mapM_rel (ks_pb_prepare_true (kp_mapped s)) (fun _ _ => True) (kp_parts s)) as (ps & Eps & Fps).
  { intros p Hp. rewrite Forall_forall in Hall. destruct (Hall p Hp) as [H1 H2].
    destruct (ks_pb_prepare_true_total (kp_mapped s) p H1 H2) as (p' & E). eauto. }
  rewrite Eps. cbn [bind]. unfold ks_sp_gen_triparts. cbn [kp_parts kp_np kp_mapped kp_tp].
  rewrite ks_assign_parts_spec by (rewrite repeat_length; reflexivity). cbn [bind].
  eexists. split; [reflexivity|]. cbn [kp_parts kp_mapped kp_tp].
  split; [symmetry; eapply ks_Forall2_length; exact Fps|]. split; reflexivity.
Qed.
