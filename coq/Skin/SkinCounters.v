(* The numTriangles counter of the skin partitions (C10).

   RemoveEmptyPartitions drops the partitions whose numTriangles is 0; it loses no triangle exactly
   when "numTriangles = 0 -> trueTriangles is empty" holds for every partition
   (ks_filter_nonempty_cover takes that as a hypothesis). Here the hypothesis is discharged:

   * [ks_cnt_ok] is a per-partition invariant that implies it ([ks_cnt_ok_zero]);
   * SetShapePartitions (with one id per triangle), SetDefaultPartition and UpdateSkinPartitions
     (on a shape with triangles) ESTABLISH it from ANY state whatsoever;
   * every modelled operation ([ks_step]: Update, Get, Set, Default, Delete with ANY index list,
     RemoveEmpty, the dismember resize) PRESERVES it, including the lazy PrepareTrueTriangles /
     ConvertStripsToTriangles / GenerateTrueTrianglesFromMappedTriangles path behind
     GetShapePartitions;
   * hence it holds in every state reachable by any operation sequence ([ks_reachable], [ks_run]).

   The shape must have fewer than 65536 triangles and no corner 65535 ([ks_shape_small]); both bounds
   are needed: the counter is a uint16_t ([ks_cover_lost_65536]: SetDefaultPartition on 65536
   triangles gives numTriangles = 0 and RemoveEmptyPartitions drops every triangle), and a corner
   65535 empties the generated vertex map ([ks_cover_lost_corner]). *)
From NiflyVerif Require Import Res UtilModel UtilSpec CompactProofs EraseProofs FillProofs SkinModel SkinLib
  SkinGenProofs SkinPartsProofs SkinOpsProofs SkinSplitProofs SkinUpdateProofs SkinTriPartsProofs SkinTheorems.
From Coq Require Import ZifyBool ZifyNat ZifyN Sorted Permutation.
Local Open Scope N_scope.

Ltac ks_fields :=
  cbn [kb_nv kb_nt kb_nb kb_ns kb_nw kb_bones kb_hvm kb_vm kb_hvw kb_vw kb_slens kb_hf kb_strips kb_tris
       kb_hbi kb_bi kb_tt kb_set_nv kb_set_nt kb_set_vm kb_set_hvm kb_set_tris kb_set_tt ks_pb_clear
       ks_fill_part ks_pb0 ks_new_part].
Ltac ks_fields_in H :=
  cbn [kb_nv kb_nt kb_nb kb_ns kb_nw kb_bones kb_hvm kb_vm kb_hvw kb_vw kb_slens kb_hf kb_strips kb_tris
       kb_hbi kb_bi kb_tt kb_set_nv kb_set_nt kb_set_vm kb_set_hvm kb_set_tris kb_set_tt ks_pb_clear
       ks_fill_part ks_pb0 ks_new_part] in H.

(* ---------------------------------------------------------------------------------------- *)
(* the invariant *)

(* [mapped] = NiSkinPartition::bMappedIndices.
   - a partition with true triangles: numTriangles is their number;
   - a partition whose true triangles are not generated yet (a loaded file): what PrepareTrueTriangles
     will generate them from is small enough for the uint16_t counter, and when it is the triangle
     list, numTriangles is its length. (With mapped indices and no vertex map the code sets
     numTriangles = 0 and generates nothing: no constraint.) *)
Definition ks_cnt_ok (mapped : bool) (p : ks_pb) : Prop :=
  (kb_tt p <> [] -> kb_nt p = vlen (kb_tt p)) /\
  (kb_tt p = [] -> kb_ns p <> 0 -> forall ts, strips_model (kb_strips p) = Ok ts -> vlen ts < 65536) /\
  (kb_tt p = [] -> kb_ns p = 0 -> kb_tris p <> [] -> (mapped = true -> kb_vm p <> []) ->
     kb_nt p = vlen (kb_tris p) /\ vlen (kb_tris p) < 65536).

Definition ks_cnt_inv (s : ks_sp) : Prop := Forall (ks_cnt_ok (kp_mapped s)) (kp_parts s).

Lemma ks_vlen_nil_iff {A} (l : list A) : vlen l = 0 <-> l = [].
Proof. unfold vlen. destruct l; cbn [length]; split; intros H; try reflexivity; try discriminate; lia. Qed.

(* the hypothesis of ks_filter_nonempty_cover *)
Lemma ks_cnt_ok_zero mapped p : ks_cnt_ok mapped p -> kb_nt p = 0 -> kb_tt p = [].
Proof.
  intros (HA & _) Hz. destruct (kb_tt p) as [|t r] eqn:E; [reflexivity|].
  assert (Hne : t :: r <> []) by discriminate. specialize (HA Hne). rewrite Hz in HA.
  symmetry in HA. apply ks_vlen_nil_iff in HA. discriminate.
Qed.

Lemma ks_cnt_inv_zero s : ks_cnt_inv s -> forall p, In p (kp_parts s) -> kb_nt p = 0 -> kb_tt p = [].
Proof.
  intros H p Hp. unfold ks_cnt_inv in H. rewrite Forall_forall in H. apply (ks_cnt_ok_zero _ _ (H p Hp)).
Qed.

(* the invariant only looks at these fields *)
Lemma ks_cnt_ok_ext mapped p p' :
  kb_tt p' = kb_tt p -> kb_nt p' = kb_nt p -> kb_ns p' = kb_ns p -> kb_strips p' = kb_strips p ->
  kb_tris p' = kb_tris p -> kb_vm p' = kb_vm p -> ks_cnt_ok mapped p -> ks_cnt_ok mapped p'.
Proof. unfold ks_cnt_ok. intros -> -> -> -> -> ->. tauto. Qed.

Lemma ks_cnt_ok_pb0 mapped : ks_cnt_ok mapped ks_pb0.
Proof.
  unfold ks_cnt_ok. ks_fields. split; [congruence|]. split; [intros _ H; exfalso; apply H; reflexivity|].
  intros _ _ H. exfalso. apply H. reflexivity.
Qed.

Lemma ks_wrap16_small x : x < 65536 -> wrap16 x = x.
Proof. intros H. unfold wrap16, wrapN. apply N.mod_small. exact H. Qed.

(* a partition as a loaded file carries it (triangle list, counter = its length, nothing generated)
   and a strip partition with few points satisfy the invariant *)
Lemma ks_cnt_ok_loaded mapped p :
  kb_tt p = [] -> kb_ns p = 0 -> kb_nt p = vlen (kb_tris p) -> vlen (kb_tris p) < 65536 -> ks_cnt_ok mapped p.
Proof.
  intros Ht Hs Hn Hl. unfold ks_cnt_ok. split; [intros H; contradiction|]. split; [intros _ H; contradiction|].
  intros _ _ _ _. split; assumption.
Qed.

(* ---------------------------------------------------------------------------------------- *)
(* generic list facts *)

Lemma ks_Forall_firstn {A} (P : A -> Prop) (l : list A) n : Forall P l -> Forall P (firstn n l).
Proof.
  intros H. rewrite <- (firstn_skipn n l) in H. apply Forall_app in H. tauto.
Qed.

Lemma ks_Forall_skipn {A} (P : A -> Prop) (l : list A) n : Forall P l -> Forall P (skipn n l).
Proof.
  intros H. rewrite <- (firstn_skipn n l) in H. apply Forall_app in H. tauto.
Qed.

Lemma ks_Forall_repeat {A} (P : A -> Prop) (d : A) n : P d -> Forall P (repeat d n).
Proof. intros H. apply Forall_forall. intros x Hx. apply repeat_spec in Hx. subst. exact H. Qed.

Lemma ks_vset_Forall {A} (P : A -> Prop) (v v' : list A) i x :
  vset v i x = Some v' -> Forall P v -> P x -> Forall P v'.
Proof.
  unfold vset. destruct (N.ltb i (N.of_nat (length v))); [|discriminate].
  intros H Hv Hx. injection H as <-. apply Forall_app. split; [apply ks_Forall_firstn; exact Hv|].
  constructor; [exact Hx|apply (ks_Forall_skipn P v (S (N.to_nat i))); exact Hv].
Qed.

Lemma ks_vget_Forall {A} (P : A -> Prop) (v : list A) i x : vget v i = Some x -> Forall P v -> P x.
Proof. unfold vget. intros H Hv. rewrite Forall_forall in Hv. apply Hv. eapply nth_error_In. exact H. Qed.

Lemma ks_vresize_Forall {A} (P : A -> Prop) (d : A) (v : list A) n : Forall P v -> P d -> Forall P (vresize d v n).
Proof.
  intros Hv Hd. unfold vresize. apply Forall_app. split; [apply ks_Forall_firstn; exact Hv|apply ks_Forall_repeat; exact Hd].
Qed.

Lemma ks_mapM_inv {A B} (f : A -> res B) : forall (l : list A) (ys : list B),
  ks_mapM f l = Ok ys -> Forall2 (fun x y => f x = Ok y) l ys.
Proof.
  induction l as [|x l IH]; intros ys H; cbn [ks_mapM] in H.
  - inversion H. constructor.
  - destruct (f x) as [y| |] eqn:Ey; cbn [bind] in H; try discriminate.
    destruct (ks_mapM f l) as [ys'| |] eqn:El; cbn [bind] in H; try discriminate.
    inversion H; subst ys. constructor; [exact Ey|apply IH; reflexivity].
Qed.

Lemma ks_mapM_Forall {A B} (f : A -> res B) (P : A -> Prop) (Q : B -> Prop) (l : list A) (ys : list B) :
  (forall x y, P x -> f x = Ok y -> Q y) -> ks_mapM f l = Ok ys -> Forall P l -> Forall Q ys.
Proof.
  intros Hstep H Hl. apply ks_mapM_inv in H. induction H as [|x y l ys Hxy _ IH]; [constructor|].
  inversion Hl; subst. constructor; [eapply Hstep; eassumption|apply IH; assumption].
Qed.

(* the in-place compaction loop only stores values its body produces *)
Lemma ks_compact_Forall {A S} (P : A -> Prop) (dec : S -> N -> A -> res (S * option A)) inc_si inc_di :
  (forall s si x so y, P x -> dec s si x = Ok so -> snd so = Some y -> P y) ->
  forall fuel bound v s di si r,
    compact_loop dec inc_si inc_di fuel bound v s di si = Ok r -> Forall P v -> Forall P (fst (fst r)).
Proof.
  intros Hdec. induction fuel as [|f IH]; intros bound v s di si r H Hv; cbn [compact_loop] in H; [discriminate|].
  destruct (si <? bound).
  2:{ inversion H; subst r. exact Hv. }
  destruct (vget v si) as [x|] eqn:Ex; [|discriminate].
  destruct (dec s si x) as [so| |] eqn:Ed; cbn [bind] in H; try discriminate.
  destruct (snd so) as [y|] eqn:Ey.
  - destruct (vset v di y) as [v'|] eqn:Ev; [|discriminate].
    destruct (inc_di di) as [di'| |]; cbn [bind] in H; try discriminate.
    destruct (inc_si si) as [si'| |]; cbn [bind] in H; try discriminate.
    apply (IH _ _ _ _ _ _ H). eapply ks_vset_Forall; [exact Ev|exact Hv|].
    eapply Hdec; [eapply ks_vget_Forall; eassumption|exact Ed|exact Ey].
  - destruct (inc_si si) as [si'| |]; cbn [bind] in H; try discriminate.
    apply (IH _ _ _ _ _ _ H). exact Hv.
Qed.

(* EraseVectorIndices with ANY index list (unsorted, duplicates, out of range): every element of the
   result is an element of the input (or the resize filler) *)
Lemma ks_erase_model_Forall {A} (P : A -> Prop) w (d : A) (v : list A) (idx : list N) r :
  erase_model w d v idx = Ok r -> Forall P v -> P d -> Forall P r.
Proof.
  unfold erase_model. intros H Hv Hd. destruct idx as [|i0 rest]; [inversion H; subst; exact Hv|].
  destruct (vlen v <=? i0); [inversion H; subst; exact Hv|].
  destruct (incr w false i0) as [si0| |]; cbn [bind] in H; try discriminate.
  destruct (compact_loop _ _ _ _ _ _ _ _ _) as [r0| |] eqn:Ec; cbn [bind] in H; try discriminate.
  inversion H; subst r. apply ks_vresize_Forall; [|exact Hd].
  eapply (ks_compact_Forall P); [|exact Ec|exact Hv].
  intros s si x so y Hx Hso Hy. unfold erase_dec in Hso.
  destruct (s <? vlen (i0 :: rest)).
  - destruct (vget (i0 :: rest) s) as [k|]; [|discriminate].
    destruct (si =? k); inversion Hso; subst so; cbn [snd] in Hy; [discriminate|]. inversion Hy; subst; exact Hx.
  - inversion Hso; subst so. cbn [snd] in Hy. inversion Hy; subst; exact Hx.
Qed.

Lemma ks_apply_map_from_len map : forall tris pos,
  (length (fst (apply_map_from pos tris map)) <= length tris)%nat.
Proof.
  induction tris as [|t r IH]; intros pos; cbn [apply_map_from]; [cbn; lia|].
  specialize (IH (pos + 1)). destruct (apply_map_from (pos + 1) r map) as [kept del].
  destruct (map_tri map t) as [[[a b] c]|]; cbn [fst length] in *; lia.
Qed.

(* ApplyMapToTriangles on fewer than 65536 triangles: never more triangles than it was given *)
Lemma ks_apply_map_tris_len (tris : list tri) (map : list Z) r :
  vlen tris < 65536 -> apply_map_tris_model 31 true tris map = Ok r -> vlen (fst r) <= vlen tris.
Proof.
  intros Hl H. rewrite (apply_map_tris_correct 31 true) in H by (change (2 ^ 31) with 2147483648; lia).
  inversion H; subst r. unfold apply_map_spec. pose proof (ks_apply_map_from_len map tris 0). unfold vlen. lia.
Qed.

Lemma ks_vlen_map {A B} (f : A -> B) l : vlen (map f l) = vlen l.
Proof. unfold vlen. rewrite map_length. reflexivity. Qed.

(* ---------------------------------------------------------------------------------------- *)
(* PrepareTrueTriangles (the lazy path behind GetShapePartitions / UpdateSkinPartitions) *)

Lemma ks_prepare_true_p1 mapped p p1 :
  kb_tt p = [] -> ks_cnt_ok mapped p ->
  (if negb (kb_ns p =? 0) then bind (ks_pb_convert p) (fun r => Ok (fst r)) else Ok p) = Ok p1 ->
  kb_tt p1 = [] /\ kb_ns p1 = 0 /\
  (kb_tris p1 <> [] -> (mapped = true -> kb_vm p1 <> []) -> kb_nt p1 = vlen (kb_tris p1) /\ vlen (kb_tris p1) < 65536).
Proof.
  intros Ett (_ & HB1 & HB2) H. destruct (N.eqb_spec (kb_ns p) 0) as [Ens|Ens]; cbn [negb] in H.
  - inversion H; subst p1. split; [exact Ett|]. split; [exact Ens|]. apply HB2; assumption.
  - unfold ks_pb_convert in H. destruct (N.eqb_spec (kb_ns p) 0) as [|_]; [contradiction|].
    destruct (strips_model (kb_strips p)) as [ts| |] eqn:Es; cbn [bind fst] in H; try discriminate.
    inversion H; subst p1. ks_fields. split; [reflexivity|]. split; [reflexivity|].
    intros _ _. pose proof (HB1 Ett Ens ts eq_refl) as Hl. rewrite ks_wrap16_small by exact Hl. split; [reflexivity|exact Hl].
Qed.

Lemma ks_isnil_false {A} (l : list A) : ks_isnil l = false <-> l <> [].
Proof. destruct l; cbn; split; intros H; congruence. Qed.

Lemma ks_prepare_true_cnt mapped p p' :
  ks_pb_prepare_true mapped p = Ok p' -> ks_cnt_ok mapped p -> ks_cnt_ok mapped p'.
Proof.
  unfold ks_pb_prepare_true. intros H Hok.
  destruct (kb_tt p) as [|t0 tt0] eqn:Ett; cbn [ks_isnil negb] in H.
  2:{ inversion H; subst p'. exact Hok. }
  destruct (if negb (kb_ns p =? 0) then bind (ks_pb_convert p) (fun r => Ok (fst r)) else Ok p) as [p1| |] eqn:E1;
    cbn [bind] in H; try discriminate.
  destruct (ks_prepare_true_p1 mapped p p1 Ett Hok E1) as (Htt1 & Hns1 & Hcnt1). clear E1 Hok Ett.
  destruct mapped.
  - unfold ks_pb_gen_true in H.
    destruct (ks_isnil (kb_vm p1) || ks_isnil (kb_tris p1))%bool eqn:En.
    + inversion H; subst p'. rewrite Hns1. cbn [N.eqb]. unfold ks_cnt_ok. ks_fields.
      split; [congruence|]. split; [intros _ Hc; contradiction|].
      intros _ _ Ht Hv. exfalso. apply orb_true_iff in En. destruct En as [En|En].
      * specialize (Hv eq_refl). destruct (kb_vm p1); [congruence|discriminate].
      * destruct (kb_tris p1); [congruence|discriminate].
    + apply orb_false_iff in En. destruct En as [Ev Et]. apply ks_isnil_false in Ev, Et.
      destruct (Hcnt1 Et (fun _ => Ev)) as [Hnt Hl].
      destruct (apply_map_tris_model 31 true (kb_tris p1) (map Z.of_N (kb_vm p1))) as [r| |] eqn:Ea;
        cbn [bind] in H; try discriminate.
      pose proof (ks_apply_map_tris_len _ _ _ Hl Ea) as Hle.
      destruct (N.eqb_spec (vlen (kb_tris p1)) (vlen (map ks_rot (fst r)))) as [Eq|Ne]; inversion H; subst p'.
      * unfold ks_cnt_ok. ks_fields. split; [intros _; congruence|]. split; [intros _ Hc; contradiction|].
        intros _ _ _ _. split; assumption.
      * unfold ks_cnt_ok. ks_fields. rewrite ks_vlen_map.
        split; [intros _; apply ks_wrap16_small; lia|]. split; [intros _ Hc; contradiction|].
        intros _ _ Hc. exfalso. apply Hc. reflexivity.
  - inversion H; subst p'. unfold ks_cnt_ok. ks_fields.
    split; [intros Ht; apply Hcnt1; [exact Ht|discriminate]|]. split; [intros _ Hc; contradiction|].
    intros Ht _ Hc. contradiction.
Qed.

Lemma ks_sp_prepare_true_cnt s s' : ks_sp_prepare_true s = Ok s' -> ks_cnt_inv s -> ks_cnt_inv s'.
Proof.
  unfold ks_sp_prepare_true, ks_cnt_inv. intros H Hs.
  destruct (ks_mapM _ _) as [l| |] eqn:El; cbn [bind] in H; try discriminate.
  inversion H; subst s'. cbn [kp_parts kp_mapped].
  eapply ks_mapM_Forall; [|exact El|exact Hs]. intros x y Hx Hy. eapply ks_prepare_true_cnt; eassumption.
Qed.

Lemma ks_sp_gen_triparts_parts ts s s' : ks_sp_gen_triparts ts s = Ok s' ->
  kp_parts s' = kp_parts s /\ kp_mapped s' = kp_mapped s.
Proof.
  unfold ks_sp_gen_triparts. intros H. destruct (ks_assign_parts _ _ _ _) as [tp| |]; cbn [bind] in H; try discriminate.
  inversion H; subst s'. split; reflexivity.
Qed.

(* PrepareTriParts *)
Lemma ks_sp_prepare_triparts_cnt ts s s' : ks_sp_prepare_triparts ts s = Ok s' -> ks_cnt_inv s -> ks_cnt_inv s'.
Proof.
  unfold ks_sp_prepare_triparts. intros H Hs. destruct (vlen ts =? vlen (kp_tp s)); [inversion H; subst; exact Hs|].
  destruct (ks_sp_prepare_true s) as [s1| |] eqn:E1; cbn [bind] in H; try discriminate.
  apply ks_sp_gen_triparts_parts in H. destruct H as [Hp Hm]. unfold ks_cnt_inv. rewrite Hp, Hm.
  apply (ks_sp_prepare_true_cnt _ _ E1 Hs).
Qed.

(* ---------------------------------------------------------------------------------------- *)
(* GenerateTrueTrianglesFromTriParts: every partition is cleared, gets a sub-list of the shape's
   triangles and numTriangles = its length *)

Definition ks_dist_pre (T : tri -> Prop) (n : nat) (p : ks_pb) : Prop :=
  kb_ns p = 0 /\ kb_tris p = [] /\ kb_vm p = [] /\ (length (kb_tt p) <= n)%nat /\ Forall T (kb_tt p).

Definition ks_dist_ok (T : tri -> Prop) (p : ks_pb) : Prop :=
  kb_ns p = 0 /\ kb_tris p = [] /\ kb_vm p = [] /\ kb_nt p = vlen (kb_tt p) /\ vlen (kb_tt p) < 65536 /\ Forall T (kb_tt p).

Lemma ks_dist_pre_mono (T : tri -> Prop) n m p : (n <= m)%nat -> ks_dist_pre T n p -> ks_dist_pre T m p.
Proof. unfold ks_dist_pre. intros H (A & B & C & D & E). repeat split; auto. lia. Qed.

Lemma ks_push_tt_pre (T : tri -> Prop) t : T t -> forall parts k n,
  Forall (ks_dist_pre T n) parts -> Forall (ks_dist_pre T (S n)) (ks_push_tt parts k t).
Proof.
  intros Ht. induction parts as [|p r IH]; intros k n H; cbn [ks_push_tt]; [constructor|].
  inversion H as [|? ? Hp Hr]; subst. destruct k as [|k].
  - constructor; [|eapply Forall_impl; [|exact Hr]; intros q; apply ks_dist_pre_mono; lia].
    destruct Hp as (A & B & C & D & E). unfold ks_dist_pre. ks_fields. repeat split; auto.
    + rewrite app_length. cbn [length]. lia.
    + apply Forall_app. split; [exact E|constructor; [exact Ht|constructor]].
  - constructor; [apply (ks_dist_pre_mono T n); [lia|exact Hp]|apply IH; exact Hr].
Qed.

Lemma ks_distribute_pre (T : tri -> Prop) : forall ts tp parts n, Forall T ts ->
  Forall (ks_dist_pre T n) parts -> Forall (ks_dist_pre T (n + length ts)) (ks_distribute ts tp parts).
Proof.
  induction ts as [|t ts IH]; intros tp parts n HT H; cbn [ks_distribute].
  - rewrite Nat.add_0_r. destruct tp; exact H.
  - destruct tp as [|pi tp]; [eapply Forall_impl; [|exact H]; intros q; apply ks_dist_pre_mono; lia|].
    inversion HT as [|? ? Ht HT']; subst. cbn [length]. replace (n + S (length ts))%nat with (S n + length ts)%nat by lia.
    destruct ((0 <=? pi)%Z && (pi <? to_int (vlen parts))%Z)%bool.
    + apply IH; [exact HT'|]. apply ks_push_tt_pre; assumption.
    + apply IH; [exact HT'|]. eapply Forall_impl; [|exact H]. intros q; apply ks_dist_pre_mono; lia.
Qed.

Lemma ks_pb_clear_pre (T : tri -> Prop) p : ks_dist_pre T 0 (ks_pb_clear p).
Proof. unfold ks_dist_pre. ks_fields. repeat split; auto. Qed.

(* either nothing happens (triParts does not have one id per triangle) or every partition is fresh *)
Lemma ks_sp_gen_true_cases (T : tri -> Prop) ts s : vlen ts < 65536 -> Forall T ts ->
  ((vlen ts =? vlen (kp_tp s)) = false /\ ks_sp_gen_true ts s = s) \/
  ((vlen ts =? vlen (kp_tp s)) = true /\ kp_mapped (ks_sp_gen_true ts s) = kp_mapped s /\
   Forall (ks_dist_ok T) (kp_parts (ks_sp_gen_true ts s))).
Proof.
  intros Hl HT. unfold ks_sp_gen_true. destruct (vlen ts =? vlen (kp_tp s)); cbn [negb]; [|left; split; reflexivity].
  right. cbn [kp_mapped kp_parts]. split; [reflexivity|]. split; [reflexivity|].
  assert (Hpre : Forall (ks_dist_pre T (0 + length ts)) (ks_distribute ts (kp_tp s) (map ks_pb_clear (kp_parts s)))).
  { apply ks_distribute_pre; [exact HT|]. apply Forall_forall. intros q Hq. apply in_map_iff in Hq.
    destruct Hq as (q0 & <- & _). apply ks_pb_clear_pre. }
  apply Forall_forall. intros q Hq. apply in_map_iff in Hq. destruct Hq as (q0 & <- & Hq0).
  rewrite Forall_forall in Hpre. destruct (Hpre q0 Hq0) as (A & B & C & D & E).
  assert (Hs : vlen (kb_tt q0) < 65536) by (unfold vlen in *; lia).
  unfold ks_dist_ok. ks_fields. repeat split; auto. apply ks_wrap16_small. exact Hs.
Qed.

Lemma ks_dist_ok_cnt (T : tri -> Prop) mapped p : ks_dist_ok T p -> ks_cnt_ok mapped p.
Proof.
  intros (A & B & C & D & E & F). unfold ks_cnt_ok. split; [intros _; exact D|].
  split; [intros _ Hc; contradiction|]. intros _ _ Hc. contradiction.
Qed.

(* ---------------------------------------------------------------------------------------- *)
(* the shape *)

Definition ks_shape_small (sh : ks_shape) : Prop :=
  vlen (kh_tris sh) < 65536 /\ forall x, In x (ks_corners (kh_tris sh)) -> x < 65535.

Definition ks_tri_small (t : tri) : Prop := forall x, In x (ks_corners [t]) -> x < 65535.

Lemma ks_corners_cons t ts : ks_corners (t :: ts) = ks_corners [t] ++ ks_corners ts.
Proof. change (t :: ts) with ([t] ++ ts). apply ks_corners_app. Qed.

Lemma ks_tri_small_all ts : (forall x, In x (ks_corners ts) -> x < 65535) <-> Forall ks_tri_small ts.
Proof.
  induction ts as [|t ts IH]; [split; [constructor|intros _ x Hx; destruct Hx]|].
  rewrite ks_corners_cons. split.
  - intros H. constructor; [intros x Hx; apply H; apply in_or_app; left; exact Hx|].
    apply IH. intros x Hx. apply H. apply in_or_app. right. exact Hx.
  - intros H x Hx. inversion H as [|? ? Ht Hts]; subst. apply in_app_or in Hx. destruct Hx as [Hx|Hx]; [apply Ht; exact Hx|].
    apply IH; assumption.
Qed.

(* ---------------------------------------------------------------------------------------- *)
(* SetShapePartitions *)

Lemma ks_nf_set_cnt v sh info tp conv k k' : vlen (kh_tris sh) < 65536 ->
  ks_nf_set v sh info tp conv k = Ok k' ->
  ((vlen (kh_tris sh) =? vlen tp) = true \/ ks_cnt_inv (kk_sp k)) -> ks_cnt_inv (kk_sp k').
Proof.
  intros Hl H Hor. unfold ks_nf_set in H.
  destruct (ks_count_parts tp (ks_wrap32 (vlen info)) false) as [cu| |]; cbn [bind] in H; try discriminate.
  cbv zeta in H. inversion H; subst k'. clear H. cbn [kk_sp].
  match goal with |- ks_cnt_inv (ks_sp_gen_true _ ?s) => set (s1 := s) end.
  assert (Htp1 : vlen (kp_tp s1) = vlen tp).
  { unfold s1. cbn [kp_tp]. destruct (snd cu); [apply ks_vlen_map|reflexivity]. }
  destruct (ks_sp_gen_true_cases (fun _ => True) (kh_tris sh) s1 Hl) as [[Ene E]|[_ [Em Ef]]].
  { apply Forall_forall. auto. }
  - (* triParts of the wrong size: the partition list is only resized *)
    rewrite E. rewrite Htp1 in Ene. destruct Hor as [Hc|Hinv]; [congruence|].
    unfold ks_cnt_inv, s1. cbn [kp_parts kp_mapped]. apply Forall_forall. intros q Hq. apply in_map_iff in Hq.
    destruct Hq as (q0 & <- & Hq0).
    assert (Hq1 : ks_cnt_ok (kp_mapped (kk_sp k)) q0).
    { eapply (proj1 (Forall_forall _ _)); [|exact Hq0]. apply ks_vresize_Forall; [exact Hinv|apply ks_cnt_ok_pb0]. }
    eapply ks_cnt_ok_ext; [..|exact Hq1]; reflexivity.
  - unfold ks_cnt_inv. rewrite Em. eapply Forall_impl; [|exact Ef]. intros q. apply ks_dist_ok_cnt.
Qed.

(* ---------------------------------------------------------------------------------------- *)
(* SetDefaultPartition: establishes the invariant from any state *)

Lemma ks_nf_set_default_cnt v sh k : vlen (kh_tris sh) < 65536 -> ks_cnt_inv (kk_sp (ks_nf_set_default v sh k)).
Proof.
  intros Hl. unfold ks_nf_set_default, ks_cnt_inv. cbv zeta. cbn [kk_sp kp_parts kp_mapped].
  constructor; [|constructor].
  set (p0 := ks_mkPB 0 0 0 0 0 [] false [] false [] [] true [] [] false [] []).
  set (p1 := if 0 <? kh_nv sh then kb_set_vm (kb_set_nv (kb_set_hvm p0 true) (kh_nv sh)) (ks_nseq (wrap16 (kh_nv sh))) else p0).
  assert (H1 : kb_tt p1 = [] /\ kb_ns p1 = 0 /\ kb_tris p1 = [] /\ kb_nt p1 = 0).
  { unfold p1. destruct (0 <? kh_nv sh); unfold p0; ks_fields; repeat split; reflexivity. }
  destruct H1 as (A & B & C & D).
  destruct (kh_tris sh) as [|t0 ts0] eqn:Et; cbn [ks_isnil negb].
  - unfold ks_cnt_ok. rewrite A, C. split; [congruence|]. split; [intros _ Hc; contradiction|]. intros _ _ Hc. contradiction.
  - destruct (negb (negb (kh_bs sh))); unfold ks_cnt_ok; ks_fields;
      (split; [intros _; apply ks_wrap16_small; exact Hl|]; split; intros Hc; discriminate).
Qed.

(* ---------------------------------------------------------------------------------------- *)
(* DeletePartitions with ANY index list, RemoveEmptyPartitions *)

Lemma ks_sp_delete_cnt idx s s' : ks_sp_delete idx s = Ok s' -> ks_cnt_inv s -> ks_cnt_inv s'.
Proof.
  unfold ks_sp_delete. intros H Hs. destruct (ks_isnil idx); [inversion H; subst; exact Hs|].
  match type of H with bind ?a _ = _ => destruct a as [tp'| |] end; cbn [bind] in H; try discriminate.
  destruct (erase_model 32 ks_pb0 (kp_parts s) idx) as [parts'| |] eqn:Ee; cbn [bind] in H; try discriminate.
  inversion H; subst s'. unfold ks_cnt_inv. cbn [kp_parts kp_mapped].
  eapply ks_erase_model_Forall; [exact Ee|exact Hs|apply ks_cnt_ok_pb0].
Qed.

Lemma ks_update_flags_sp v k k' : ks_update_flags v k = Ok k' -> kk_sp k' = kk_sp k.
Proof.
  unfold ks_update_flags. destruct (kk_dis k) as [d|]; intros H; [|inversion H; reflexivity].
  destruct (ks_flags_loop _ _ _ _) as [d'| |]; cbn [bind] in H; try discriminate. inversion H; reflexivity.
Qed.

Lemma ks_nf_delete_cnt v idx k k' : ks_nf_delete v idx k = Ok k' -> ks_cnt_inv (kk_sp k) -> ks_cnt_inv (kk_sp k').
Proof.
  unfold ks_nf_delete. intros H Hs.
  destruct (ks_sp_delete idx (kk_sp k)) as [s'| |] eqn:Ed; cbn [bind] in H; try discriminate.
  pose proof (ks_sp_delete_cnt _ _ _ Ed Hs) as Hs'.
  destruct (kk_dis k) as [d|].
  - destruct (ks_dis_delete idx d) as [d'| |]; cbn [bind] in H; try discriminate.
    apply ks_update_flags_sp in H. rewrite H. exact Hs'.
  - inversion H; subst k'. exact Hs'.
Qed.

Lemma ks_nf_remove_empty_cnt v k k' : ks_nf_remove_empty v k = Ok k' -> ks_cnt_inv (kk_sp k) -> ks_cnt_inv (kk_sp k').
Proof.
  unfold ks_nf_remove_empty, ks_sp_remove_empty. cbv zeta. intros H Hs.
  match type of H with bind (bind ?a _) _ = _ => destruct a as [s'| |] eqn:Ed end; cbn [bind] in H; try discriminate.
  assert (Hs' : ks_cnt_inv s').
  { destruct (negb (ks_isnil _)) in Ed; [eapply ks_sp_delete_cnt; eassumption|inversion Ed; subst; exact Hs]. }
  destruct (negb (_ =? 0)).
  - destruct (kk_dis k) as [d|].
    + destruct (ks_dis_delete _ d) as [d'| |]; cbn [bind] in H; try discriminate.
      apply ks_update_flags_sp in H. rewrite H. exact Hs'.
    + inversion H; subst k'. exact Hs'.
  - inversion H; subst k'. exact Hs'.
Qed.

(* GetShapePartitions *)
Lemma ks_nf_get_cnt v sh k r : ks_nf_get v sh k = Ok r -> ks_cnt_inv (kk_sp k) -> ks_cnt_inv (kk_sp (snd r)).
Proof.
  unfold ks_nf_get. cbv zeta. intros H Hs.
  destruct (ks_sp_prepare_triparts (kh_tris sh) (kk_sp k)) as [s'| |] eqn:Ep; cbn [bind] in H; try discriminate.
  inversion H; subst r. cbn [snd kk_sp]. eapply ks_sp_prepare_triparts_cnt; eassumption.
Qed.

(* ---------------------------------------------------------------------------------------- *)
(* UpdateSkinPartitions: establishes the invariant from any state *)

Lemma ks_fill_parts_Forall (P : ks_pb -> Prop) m :
  (forall pb p, P p -> P (ks_fill_part m pb p)) ->
  forall n i parts pbs parts', ks_fill_parts m n i parts pbs = Ok parts' -> Forall P parts -> Forall P parts'.
Proof.
  intros Hf. induction n as [|n IH]; intros i parts pbs parts' H Hp; cbn [ks_fill_parts] in H; [inversion H; subst; exact Hp|].
  destruct (vget parts i) as [p|] eqn:Eg; [|discriminate]. destruct (vget pbs i) as [pb|]; [|discriminate].
  destruct (vset parts i (ks_fill_part m pb p)) as [parts1|] eqn:Es; [|discriminate].
  apply (IH _ _ _ _ H). eapply ks_vset_Forall; [exact Es|exact Hp|]. apply Hf. eapply ks_vget_Forall; eassumption.
Qed.

Lemma ks_corner_in_first (t : tri) (r : list tri) : exists a, In a (ks_corners (t :: r)).
Proof. destruct t as [[a b] c]. exists a. cbn. left. reflexivity. Qed.

(* PrepareVertexMapsAndTriangles on a freshly distributed partition *)
Lemma ks_prepare_vmap_fresh mapped p p' : ks_dist_ok ks_tri_small p ->
  ks_pb_prepare_vmap mapped p = Ok p' -> ks_cnt_ok mapped p'.
Proof.
  intros (Hns & Htris & Hvm & Hnt & Hl & HT) H. unfold ks_pb_prepare_vmap in H. rewrite Hvm in H. cbn [ks_isnil] in H.
  destruct (ks_gen_vmap_ok p) as (p1 & E1 & Hsame & [_ Hex] & _ & _).
  { apply ks_tri_small_all. exact HT. }
  rewrite E1 in H. cbn [bind] in H.
  destruct Hsame as (Snt & _ & Sns & _ & _ & _ & _ & _ & _ & _ & Sst & Str & _ & _ & Stt).
  rewrite Str, Htris in H. cbn [ks_isnil] in H.
  destruct mapped.
  - unfold ks_pb_gen_mapped in H.
    destruct (ks_isnil (kb_vm p1) || ks_isnil (kb_tt p1))%bool eqn:En.
    + inversion H; subst p'. rewrite Sns, Hns. cbn [N.eqb].
      assert (Ett : kb_tt p1 = []).
      { destruct (kb_tt p1) as [|t r] eqn:Et; [reflexivity|]. exfalso.
        destruct (ks_corner_in_first t r) as (a & Ha). apply Hex in Ha. cbn [ks_isnil] in En. rewrite orb_false_r in En.
        destruct (kb_vm p1); [destruct Ha|discriminate]. }
      unfold ks_cnt_ok. ks_fields. rewrite Ett. split; [congruence|]. split; [intros _ Hc; rewrite Sns in Hc; contradiction|].
      intros _ _ Hc. contradiction.
    + destruct (ks_invmap (kb_vm p1)) as [inv| |]; cbn [bind] in H; try discriminate.
      destruct (apply_map_tris_model 31 true (kb_tt p1) inv) as [r| |] eqn:Ea; cbn [bind] in H; try discriminate.
      assert (Hl1 : vlen (kb_tt p1) < 65536) by (rewrite Stt; exact Hl).
      pose proof (ks_apply_map_tris_len _ _ _ Hl1 Ea) as Hle.
      destruct (N.eqb_spec (vlen (map ks_rot (fst r))) (vlen (kb_tt p1))) as [Eq|Ne]; inversion H; subst p'.
      * unfold ks_cnt_ok. ks_fields. split; [intros _; rewrite Snt, Stt; exact Hnt|].
        split; [intros _ Hc; rewrite Sns in Hc; contradiction|].
        intros _ _ _ _. rewrite Eq, Snt, Stt. split; [exact Hnt|exact Hl].
      * unfold ks_cnt_ok. ks_fields. rewrite ks_vlen_map. split; [congruence|].
        split; [intros _ Hc; rewrite Sns in Hc; contradiction|].
        intros _ _ _ _. split; [apply ks_wrap16_small; lia|lia].
  - inversion H; subst p'. unfold ks_cnt_ok. ks_fields. rewrite Stt, Snt, Sns.
    split; [intros _; exact Hnt|]. split; [intros _ Hc; contradiction|]. intros Hc _ Hc'. contradiction.
Qed.

Lemma ks_new_part_cnt mapped : ks_cnt_ok mapped ks_new_part.
Proof.
  unfold ks_cnt_ok. ks_fields. split; [congruence|]. split; [intros _ H; exfalso; apply H; reflexivity|].
  intros _ _ H. exfalso. apply H. reflexivity.
Qed.

(* a partition that has no vertex map, no triangle list and no true triangle is left alone by
   PrepareVertexMapsAndTriangles as far as the invariant is concerned (UpdateSkinPartitions when
   triParts does not have one id per triangle: cannot happen after PrepareTriParts, but the model
   does not know) *)
Lemma ks_prepare_vmap_new mapped p' : ks_pb_prepare_vmap mapped ks_new_part = Ok p' -> ks_cnt_ok mapped p'.
Proof.
  intros H. apply (ks_prepare_vmap_fresh mapped ks_new_part p'); [|exact H].
  unfold ks_dist_ok. ks_fields. repeat split; try reflexivity; constructor.
Qed.

Lemma ks_nf_update_cnt v sh k k' : ks_shape_small sh ->
  ks_nf_update v sh k = Ok k' -> (kh_hastris sh = true \/ ks_cnt_inv (kk_sp k)) -> ks_cnt_inv (kk_sp k').
Proof.
  intros [Hl Hc] H Hor. unfold ks_nf_update in H. destruct (kh_hastris sh); cbn [negb] in H.
  2:{ inversion H; subst k'. destruct Hor as [Hd|Hi]; [discriminate|exact Hi]. }
  cbv zeta in H.
  destruct (ks_sp_prepare_triparts _ _) as [s0| |]; cbn [bind] in H; try discriminate.
  destruct (ks_split_loop _ _ _ _ _) as [[[tp pbs] dis]| |]; cbn [bind] in H; try discriminate.
  match type of H with bind (ks_sp_prepare_vmaps (ks_sp_gen_true ?ts ?s)) _ = _ => set (tris := ts) in *; set (s1 := s) in * end.
  destruct (ks_sp_prepare_vmaps (ks_sp_gen_true tris s1)) as [s2| |] eqn:E2; cbn [bind] in H; try discriminate.
  destruct (ks_fill_parts _ _ _ _ _) as [parts3| |] eqn:E3; cbn [bind] in H; try discriminate.
  apply ks_update_flags_sp in H. rewrite H. cbn [kk_sp]. unfold ks_cnt_inv. cbn [kp_parts kp_mapped].
  eapply ks_fill_parts_Forall; [|exact E3|].
  { intros pb p Hp. eapply ks_cnt_ok_ext; [..|exact Hp]; reflexivity. }
  assert (Htl : vlen tris < 65536) by (unfold tris; rewrite ks_vlen_map; exact Hl).
  assert (HT : Forall ks_tri_small tris).
  { apply ks_tri_small_all. intros x Hx. apply Hc. unfold tris in Hx. apply (proj1 (ks_corners_map_rot _ _)) in Hx. exact Hx. }
  unfold ks_sp_prepare_vmaps in E2.
  destruct (ks_mapM _ _) as [l| |] eqn:El; cbn [bind] in E2; try discriminate.
  inversion E2; subst s2. cbn [kp_parts kp_mapped]. clear E2 E3 H.
  destruct (ks_sp_gen_true_cases ks_tri_small tris s1 Htl HT) as [[_ E]|[_ [Em Ef]]].
  - rewrite E in El |- *. unfold s1 in El |- *. cbn [kp_parts kp_mapped] in El |- *.
    eapply (ks_mapM_Forall _ (fun p => p = ks_new_part)); [|exact El|apply ks_Forall_repeat; reflexivity].
    intros x y -> Hy. apply ks_prepare_vmap_new. exact Hy.
  - eapply ks_mapM_Forall; [|exact El|exact Ef]. intros x y Hx Hy. eapply ks_prepare_vmap_fresh; eassumption.
Qed.

(* ---------------------------------------------------------------------------------------- *)
(* every operation; operation sequences *)

(* the operations that (re)build every partition: after them the invariant holds whatever the state
   was before *)
Definition ks_creates (sh : ks_shape) (o : ks_op) : bool :=
  match o with
  | KUpdate => kh_hastris sh
  | KSet _ tp _ => vlen (kh_tris sh) =? vlen tp
  | KDefault => true
  | _ => false
  end.

Theorem ks_step_cnt v sh o k r k' : ks_shape_small sh ->
  ks_step v sh o k = Ok (r, k') -> (ks_creates sh o = true \/ ks_cnt_inv (kk_sp k)) -> ks_cnt_inv (kk_sp k').
Proof.
  intros Hsh H Hor. pose proof Hsh as [Hl Hc]. destruct o; cbn [ks_step ks_creates] in H, Hor.
  - destruct (ks_nf_update v sh k) as [k1| |] eqn:E; cbn [bind] in H; try discriminate. inversion H; subst.
    eapply ks_nf_update_cnt; eassumption.
  - destruct (ks_nf_get v sh k) as [g| |] eqn:E; cbn [bind] in H; try discriminate. inversion H; subst.
    destruct Hor as [Hd|Hi]; [discriminate|]. eapply ks_nf_get_cnt; eassumption.
  - destruct (ks_nf_set v sh info tp conv k) as [k1| |] eqn:E; cbn [bind] in H; try discriminate. inversion H; subst.
    eapply ks_nf_set_cnt; eassumption.
  - inversion H; subst. apply ks_nf_set_default_cnt. exact Hl.
  - destruct (ks_nf_delete v partInds k) as [k1| |] eqn:E; cbn [bind] in H; try discriminate. inversion H; subst.
    destruct Hor as [Hd|Hi]; [discriminate|]. eapply ks_nf_delete_cnt; eassumption.
  - destruct (ks_nf_remove_empty v k) as [k1| |] eqn:E; cbn [bind] in H; try discriminate. inversion H; subst.
    destruct Hor as [Hd|Hi]; [discriminate|]. eapply ks_nf_remove_empty_cnt; eassumption.
  - inversion H; subst. destruct Hor as [Hd|Hi]; [discriminate|]. exact Hi.
Qed.

(* states reachable by any sequence of modelled operations, starting either from a state that
   satisfies the invariant (e.g. no partition at all, or partitions as a loaded file carries them:
   ks_cnt_ok_loaded) or from ANY state by an operation that rebuilds the partitions *)
Inductive ks_reachable (v : ks_ver) (sh : ks_shape) : ks_skin -> Prop :=
| ks_reach_init k : ks_cnt_inv (kk_sp k) -> ks_reachable v sh k
| ks_reach_create o k r k' : ks_creates sh o = true -> ks_step v sh o k = Ok (r, k') -> ks_reachable v sh k'
| ks_reach_step o k r k' : ks_reachable v sh k -> ks_step v sh o k = Ok (r, k') -> ks_reachable v sh k'.

Theorem ks_reachable_cnt v sh k : ks_shape_small sh -> ks_reachable v sh k -> ks_cnt_inv (kk_sp k).
Proof.
  intros Hsh H. induction H as [k Hk|o k r k' Hc Hs|o k r k' _ IH Hs]; [exact Hk| |].
  - eapply ks_step_cnt; [exact Hsh|exact Hs|left; exact Hc].
  - eapply ks_step_cnt; [exact Hsh|exact Hs|right; exact IH].
Qed.

(* the same as a fold over an operation list *)
Fixpoint ks_run (v : ks_ver) (sh : ks_shape) (ops : list ks_op) (k : ks_skin) : res ks_skin :=
  match ops with
  | [] => Ok k
  | o :: r => bind (ks_step v sh o k) (fun x => ks_run v sh r (snd x))
  end.

Lemma ks_run_reachable v sh : forall ops k k', ks_reachable v sh k -> ks_run v sh ops k = Ok k' -> ks_reachable v sh k'.
Proof.
  induction ops as [|o ops IH]; intros k k' Hk H; cbn [ks_run] in H; [inversion H; subst; exact Hk|].
  destruct (ks_step v sh o k) as [[r k1]| |] eqn:E; cbn [bind snd] in H; try discriminate.
  apply (IH k1 k'); [|exact H]. eapply ks_reach_step; eassumption.
Qed.

Theorem ks_run_cnt v sh ops k k' : ks_shape_small sh -> ks_cnt_inv (kk_sp k) ->
  ks_run v sh ops k = Ok k' -> ks_cnt_inv (kk_sp k').
Proof.
  intros Hsh Hk H. apply (ks_reachable_cnt v sh); [exact Hsh|]. eapply ks_run_reachable; [|exact H].
  apply ks_reach_init. exact Hk.
Qed.

(* from ANY state, as soon as the sequence contains one rebuilding operation *)
Theorem ks_run_creates_cnt v sh ops1 o ops2 k k' : ks_shape_small sh -> ks_creates sh o = true ->
  ks_run v sh (ops1 ++ o :: ops2) k = Ok k' -> ks_cnt_inv (kk_sp k').
Proof.
  intros Hsh Hc. revert k. induction ops1 as [|o1 ops1 IH]; intros k H; cbn [app ks_run] in H.
  - destruct (ks_step v sh o k) as [[r k1]| |] eqn:E; cbn [bind snd] in H; try discriminate.
    apply (ks_reachable_cnt v sh); [exact Hsh|]. eapply ks_run_reachable; [|exact H]. eapply ks_reach_create; eassumption.
  - destruct (ks_step v sh o1 k) as [[r k1]| |]; cbn [bind snd] in H; try discriminate. apply (IH k1 H).
Qed.

(* ---------------------------------------------------------------------------------------- *)
(* RemoveEmptyPartitions loses no triangle, in every reachable state, without the counter
   hypothesis *)

Theorem ks_remove_empty_cover_reachable v sh k : ks_shape_small sh -> ks_reachable v sh k ->
  concat (map kb_tt (filter ks_nonempty (kp_parts (kk_sp k)))) = concat (map kb_tt (kp_parts (kk_sp k))).
Proof.
  intros Hsh Hr. apply ks_filter_nonempty_cover. apply ks_cnt_inv_zero. eapply ks_reachable_cnt; eassumption.
Qed.

(* ... stated on the operation itself: total, and the triangles of the partitions are the same list *)
Theorem ks_nf_remove_empty_cover v sh k : ks_shape_small sh -> ks_reachable v sh k ->
  kp_np (kk_sp k) < 2 ^ 31 -> vlen (kp_parts (kk_sp k)) < 2 ^ 32 -> ks_aligned k ->
  exists k', ks_nf_remove_empty v k = Ok k' /\ ks_reachable v sh k' /\ ks_aligned k' /\
    kp_parts (kk_sp k') = filter ks_nonempty (kp_parts (kk_sp k)) /\
    concat (map kb_tt (kp_parts (kk_sp k'))) = concat (map kb_tt (kp_parts (kk_sp k))).
Proof.
  intros Hsh Hr Hnp Hpl Ha. destruct (ks_nf_remove_empty_ok v k Hnp Hpl Ha) as (k' & E & Hp & _ & Ha' & _).
  exists k'. split; [exact E|].
  assert (Hr' : ks_reachable v sh k').
  { apply (ks_reach_step v sh KRemoveEmpty k None k' Hr). cbn [ks_step]. rewrite E. reflexivity. }
  split; [exact Hr'|]. split; [exact Ha'|]. split; [exact Hp|].
  rewrite Hp. apply (ks_remove_empty_cover_reachable v sh); assumption.
Qed.

(* ---------------------------------------------------------------------------------------- *)
(* the hypothesis on the shape, as a boolean; non-vacuity; and why both bounds are needed *)

Definition ks_shape_smallb (sh : ks_shape) : bool :=
  (vlen (kh_tris sh) <? 65536) && forallb (fun x => x <? 65535) (ks_corners (kh_tris sh)).

Lemma ks_shape_smallb_ok sh : ks_shape_smallb sh = true -> ks_shape_small sh.
Proof.
  unfold ks_shape_smallb, ks_shape_small. intros H. apply andb_prop in H. destruct H as [H1 H2].
  apply N.ltb_lt in H1. split; [exact H1|]. intros x Hx. rewrite forallb_forall in H2. apply N.ltb_lt. apply H2. exact Hx.
Qed.

(* twelve vertices, ten triangles, forty bones: UpdateSkinPartitions splits, then partition 0 is
   deleted, the rest is asked for (triParts regenerated), empty partitions are removed: reachable,
   and the partitions that remain hold the same triangles as before RemoveEmptyPartitions *)
Definition ks_cnt_example_ops : list ks_op := [KUpdate; KDelete [0]; KGet; KRemoveEmpty].

Definition ks_cnt_example_result : ks_skin :=
  Eval vm_compute in ks_ok_or (ks_run KFO3 (fst ks_wit_short) ks_cnt_example_ops ks_wit_short_aligned) (snd ks_wit_short).

Lemma ks_run_app v sh : forall ops1 ops2 k,
  ks_run v sh (ops1 ++ ops2) k = bind (ks_run v sh ops1 k) (ks_run v sh ops2).
Proof.
  induction ops1 as [|o ops1 IH]; intros ops2 k; cbn [app ks_run bind]; [reflexivity|].
  destruct (ks_step v sh o k) as [[r k1]| |]; cbn [bind snd]; [apply IH|reflexivity|reflexivity].
Qed.

(* any run that starts with a rebuilding operation ends in a reachable state *)
Lemma ks_run_create_reachable v sh o ops k k' : ks_creates sh o = true ->
  ks_run v sh (o :: ops) k = Ok k' -> ks_reachable v sh k'.
Proof.
  intros Hc H. cbn [ks_run] in H. destruct (ks_step v sh o k) as [[r k1]| |] eqn:E; cbn [bind snd] in H; try discriminate.
  eapply ks_run_reachable; [|exact H]. eapply ks_reach_create; eassumption.
Qed.

Lemma ks_reachable_example :
  let sh := fst ks_wit_short in
  ks_shape_small sh /\
  exists k', ks_run KFO3 sh ks_cnt_example_ops ks_wit_short_aligned = Ok k' /\ ks_reachable KFO3 sh k' /\
             (1 < length (kp_parts (kk_sp k')))%nat /\ (0 < length (concat (map kb_tt (kp_parts (kk_sp k')))))%nat.
Proof.
  cbv zeta. split; [apply ks_shape_smallb_ok; vm_compute; reflexivity|].
  assert (E : ks_run KFO3 (fst ks_wit_short) ks_cnt_example_ops ks_wit_short_aligned = Ok ks_cnt_example_result)
    by (vm_compute; reflexivity).
  exists ks_cnt_example_result. split; [exact E|]. split.
  - apply (ks_run_create_reachable KFO3 (fst ks_wit_short) KUpdate [KDelete [0]; KGet; KRemoveEmpty] ks_wit_short_aligned);
      [reflexivity|exact E].
  - split; vm_compute; lia.
Qed.

(* 65536 triangles: the uint16_t counter of the single default partition wraps to 0 and
   RemoveEmptyPartitions would drop all of them *)
Definition ks_wit_65536 : ks_shape := ks_mkShape (repeat (0, 1, 2) (N.to_nat 65536)) true 3 false.

Lemma ks_cover_lost_65536 :
  let sh := ks_wit_65536 in
  let k0 := ks_mkSkin (ks_mkSP 0 [] true []) (Some []) [] in
  let k := ks_nf_set_default KSSE sh k0 in
  vlen (kh_tris sh) = 65536 /\ forallb (fun x => x <? 65535) (ks_corners (kh_tris sh)) = true /\
  ks_step KSSE sh KDefault k0 = Ok (None, k) /\
  map kb_nt (kp_parts (kk_sp k)) = [0] /\
  filter ks_nonempty (kp_parts (kk_sp k)) = [] /\
  vlen (concat (map kb_tt (kp_parts (kk_sp k)))) = 65536.
Proof.
  cbv zeta. split; [vm_compute; reflexivity|]. split; [vm_compute; reflexivity|]. split; [reflexivity|].
  split; [vm_compute; reflexivity|]. split; vm_compute; reflexivity.
Qed.

(* a corner 65535 (no uint16_t vertex count allows it): GenerateVertexMapFromTrueTriangles wraps its
   loop bound to 0, the vertex map comes out empty, GenerateMappedTriangles... sets numTriangles = 0
   and keeps the true triangle: RemoveEmptyPartitions would drop it *)
Definition ks_wit_corner : ks_shape := ks_mkShape [(0, 1, 65535)] true 3 false.
Definition ks_wit_corner_result : ks_skin :=
  Eval vm_compute in ks_ok_or (ks_run KFO3 ks_wit_corner [KDefault; KUpdate] (ks_mkSkin (ks_mkSP 0 [] true []) (Some []) []))
                              (ks_mkSkin (ks_mkSP 0 [] true []) None []).

Lemma ks_cover_lost_corner :
  exists k, ks_run KFO3 ks_wit_corner [KDefault; KUpdate] (ks_mkSkin (ks_mkSP 0 [] true []) (Some []) []) = Ok k /\
    map kb_nt (kp_parts (kk_sp k)) = [0] /\
    filter ks_nonempty (kp_parts (kk_sp k)) = [] /\
    concat (map kb_tt (kp_parts (kk_sp k))) = [(0, 1, 65535)].
Proof.
  exists ks_wit_corner_result. split; [vm_compute; reflexivity|]. repeat split; vm_compute; reflexivity.
Qed.
