(* The statements of property C10 about UpdateSkinPartitions, one per clause of the property text,
   as projections of [ks_nf_update_ok]; the two ways its hypothesis on the state behind
   PrepareTriParts is met; refutations (with witnesses) of the statements WITHOUT the hypotheses. *)
From NiflyVerif Require Import Res UtilModel UtilSpec CompactProofs EraseProofs FillProofs SkinModel SkinLib
  SkinGenProofs SkinPartsProofs SkinOpsProofs SkinSplitProofs SkinUpdateProofs SkinTriPartsProofs.
From Coq Require Import ZifyBool ZifyNat ZifyN Sorted Permutation QArith.
Local Open Scope N_scope.

(* triParts is current: PrepareTriParts leaves the partition block alone *)
Lemma ks_prepare_triparts_current (ts : list tri) (s : ks_sp) :
  vlen ts = vlen (kp_tp s) -> ks_sp_prepare_triparts ts s = Ok s.
Proof. intros H. unfold ks_sp_prepare_triparts. rewrite H, N.eqb_refl. reflexivity. Qed.

Lemma ks_map_rot_vlen (ts : list tri) : vlen (map ks_rot ts) = vlen ts.
Proof. unfold vlen. rewrite map_length. reflexivity. Qed.

Section UpdateClauses.
  Variable v : ks_ver.
  Variable sh : ks_shape.
  Variable k : ks_skin.
  Variable s0 : ks_sp.
  Hypothesis Hprep : ks_sp_prepare_triparts (map ks_rot (kh_tris sh)) (kk_sp k) = Ok s0.
  Hypothesis Hacc : ks_update_accepts sh s0 (kk_dis k) = true.

  Lemma ks_update_total : exists k', ks_nf_update v sh k = Ok k'.
  Proof. destruct (ks_nf_update_ok v sh k s0 Hprep Hacc) as (k' & E & _). eauto. Qed.

  Lemma ks_update_tri_cover : forall k', ks_nf_update v sh k = Ok k' ->
    Permutation (concat (map kb_tt (kp_parts (kk_sp k'))))
                (ks_assigned_sign (map ks_rot (kh_tris sh)) (kp_tp s0)).
  Proof.
    intros k' E. destruct (ks_nf_update_ok v sh k s0 Hprep Hacc) as (k1 & E1 & P). rewrite E in E1. inversion E1; subst k1.
    apply P.
  Qed.

  Lemma ks_update_triparts : forall k', ks_nf_update v sh k = Ok k' ->
    map (Z.leb 0) (kp_tp (kk_sp k')) = map (Z.leb 0) (kp_tp s0) /\
    forall i t j, nth_error (map ks_rot (kh_tris sh)) i = Some t -> nth_error (kp_tp (kk_sp k')) i = Some (Z.of_nat j) ->
      exists p, nth_error (kp_parts (kk_sp k')) j = Some p /\ In t (kb_tt p).
  Proof.
    intros k' E. destruct (ks_nf_update_ok v sh k s0 Hprep Hacc) as (k1 & E1 & P). rewrite E in E1. inversion E1; subst k1.
    unfold ks_update_post in P. cbv zeta in P. tauto.
  Qed.

  Lemma ks_update_vertex_map_exact : forall k' p, ks_nf_update v sh k = Ok k' -> In p (kp_parts (kk_sp k')) ->
    sorted_lt (kb_vm p) /\ (forall x, In x (kb_vm p) <-> In x (ks_corners (kb_tt p))) /\ kb_nv p = vlen (kb_vm p).
  Proof.
    intros k' p E Hp. destruct (ks_nf_update_ok v sh k s0 Hprep Hacc) as (k1 & E1 & P). rewrite E in E1. inversion E1; subst k1.
    destruct P as (_ & G & _). rewrite Forall_forall in G. destruct (G p Hp) as ((Hs & Hx) & Hn & _). auto.
  Qed.

  Lemma ks_update_mapped_true : forall k' p, ks_nf_update v sh k = Ok k' -> In p (kp_parts (kk_sp k')) ->
    kp_mapped (kk_sp k') = kp_mapped s0 /\
    if kp_mapped s0 then Forall2 (ks_maps_back (kb_vm p)) (kb_tris p) (kb_tt p) else kb_tris p = kb_tt p.
  Proof.
    intros k' p E Hp. destruct (ks_nf_update_ok v sh k s0 Hprep Hacc) as (k1 & E1 & P). rewrite E in E1. inversion E1; subst k1.
    unfold ks_update_post in P. cbv zeta in P.
    destruct P as (_ & G & _ & _ & _ & _ & _ & _ & Hm & _). rewrite Forall_forall in G. destruct (G p Hp) as (_ & _ & _ & Hmt).
    split; [exact Hm|exact Hmt].
  Qed.

  Lemma ks_update_bone_limit : forall k' p, ks_nf_update v sh k = Ok k' -> In p (kp_parts (kk_sp k')) ->
    vlen (kb_bones p) <= ks_max_bones v.
  Proof.
    intros k' p E Hp. destruct (ks_nf_update_ok v sh k s0 Hprep Hacc) as (k1 & E1 & P). rewrite E in E1. inversion E1; subst k1.
    destruct P as (_ & _ & G & _). rewrite Forall_forall in G. exact (G p Hp).
  Qed.

  Lemma ks_update_bone_slots_valid : forall k' p, ks_nf_update v sh k = Ok k' -> In p (kp_parts (kk_sp k')) ->
    vlen (kb_bones p) <= 256 ->
    Forall2 (fun vtx row => ks_slot_row_ok (kb_bones p) (ks_vbw_get (ks_vbw_final (kk_bones k)) vtx) row) (kb_vm p) (kb_bi p).
  Proof.
    intros k' p E Hp. destruct (ks_nf_update_ok v sh k s0 Hprep Hacc) as (k1 & E1 & P). rewrite E in E1. inversion E1; subst k1.
    destruct P as (_ & _ & _ & G & _). rewrite Forall_forall in G. exact (G p Hp).
  Qed.

  Lemma ks_update_weights_normalised : forall k' p, ks_nf_update v sh k = Ok k' -> In p (kp_parts (kk_sp k')) ->
    (forall bl vw, In bl (kk_bones k) -> In vw bl -> (0 <= snd vw)%Q) ->
    length (kb_vw p) = length (kb_vm p) /\ Forall ks_weight_row_ok (kb_vw p).
  Proof.
    intros k' p E Hp Hnn. destruct (ks_nf_update_ok v sh k s0 Hprep Hacc) as (k1 & E1 & P). rewrite E in E1. inversion E1; subst k1.
    destruct P as (_ & _ & _ & _ & G & _). specialize (G Hnn). rewrite Forall_forall in G. exact (G p Hp).
  Qed.

  Lemma ks_update_dismember_aligned : forall k', ks_nf_update v sh k = Ok k' ->
    ks_aligned k' /\ kp_np (kk_sp k') = vlen (kp_parts (kk_sp k')).
  Proof.
    intros k' E. destruct (ks_nf_update_ok v sh k s0 Hprep Hacc) as (k1 & E1 & P). rewrite E in E1. inversion E1; subst k1.
    unfold ks_update_post in P. cbv zeta in P. tauto.
  Qed.
End UpdateClauses.

(* ---------------------------------------------------------------------------------------- *)
(* The accepted domain of UpdateSkinPartitions in closed form, on the state the caller has:
   triangles present, no corner 65535, partitions + triangles < 2^31, the dismember list (if any)
   aligned, and EITHER triParts current with every entry below the partition count (negative =
   unassigned) OR triParts stale/empty and no partition with strips left (no partition at all is fine: every
   triangle is then unassigned). *)
Definition ks_update_domain (sh : ks_shape) (k : ks_skin) : bool :=
  let s := kk_sp k in
  (kh_hastris sh
   && forallb ks_tri_small (kh_tris sh)
   && (vlen (kp_parts s) + vlen (kh_tris sh) <? 2147483648)
   && (match kk_dis k with Some d => vlen d =? vlen (kp_parts s) | None => true end)
   && (if vlen (kh_tris sh) =? vlen (kp_tp s)
       then forallb (fun pj => (pj <? Z.of_N (vlen (kp_parts s)))%Z) (kp_tp s)
       else forallb (fun p => (kb_ns p =? 0) && (vlen (kb_tris p) <? 2147483648)) (kp_parts s)))%bool.

Theorem ks_update_domain_ok (sh : ks_shape) (k : ks_skin) :
  ks_update_domain sh k = true ->
  exists s0, ks_sp_prepare_triparts (map ks_rot (kh_tris sh)) (kk_sp k) = Ok s0 /\
             ks_update_accepts sh s0 (kk_dis k) = true.
Proof.
  unfold ks_update_domain. intros H.
  repeat (apply andb_true_iff in H; destruct H as [H ?]).
  rename H into Hhas, H0 into Hcase, H1 into Hdis, H2 into Hsize, H3 into Hsmall.
  destruct (N.eqb_spec (vlen (kh_tris sh)) (vlen (kp_tp (kk_sp k)))) as [Heq|Hne].
  - exists (kk_sp k). split.
    + apply ks_prepare_triparts_current. rewrite ks_map_rot_vlen. exact Heq.
    + unfold ks_update_accepts. rewrite Hhas, Hcase, Hdis, Hsmall, Hsize. rewrite Heq, N.eqb_refl. reflexivity.
  - rename Hcase into Hsf.
    destruct (ks_prepare_triparts_regen (map ks_rot (kh_tris sh)) (kk_sp k)) as (s0 & E & Lp & Lm & Etp).
    { rewrite ks_map_rot_vlen; exact Hne. }
    { apply Forall_forall. intros p Hp. rewrite forallb_forall in Hsf. specialize (Hsf p Hp).
      apply andb_true_iff in Hsf. destruct Hsf as [H1 H2]. apply N.eqb_eq in H1. apply N.ltb_lt in H2.
      split; [exact H1|]. change (2 ^ 31) with 2147483648. exact H2. }
    destruct (ks_regen_tp_spec (map ks_rot (kh_tris sh)) (kp_parts s0)) as (Lt & Rg & _). rewrite <- Etp in Lt, Rg.
    exists s0. split; [exact E|]. unfold ks_update_accepts.
      assert (Hvl : vlen (kp_parts s0) = vlen (kp_parts (kk_sp k))) by (apply ks_vlen_length; exact Lp).
      rewrite Hhas, Hsmall, Hvl, Hsize, Hdis.
      assert (Ht : vlen (kh_tris sh) =? vlen (kp_tp s0) = true).
      { apply N.eqb_eq. unfold vlen. rewrite Lt, map_length. reflexivity. }
      rewrite Ht. cbn [andb].
      assert (Hr : forallb (fun pj => (pj <? Z.of_N (vlen (kp_parts (kk_sp k))))%Z) (kp_tp s0) = true).
      { apply forallb_forall. intros pj Hpj. rewrite Forall_forall in Rg. specialize (Rg pj Hpj).
        apply Z.ltb_lt. unfold vlen. rewrite <- Lp. lia. }
      rewrite Hr. reflexivity.
Qed.

(* the limit of the target game is never exceeded, whatever the weights: three vertices with at
   most four weights each need at most twelve bones *)
Lemma ks_bone_limit_games v : ks_max_bones v = 18 \/ ks_max_bones v = 80 \/ ks_max_bones v = 65535.
Proof. destruct v; cbn; tauto. Qed.

(* OB / FO3 / SSE: the limit implies the 256-slot hypothesis of bone_slots_valid *)
Lemma ks_limit_implies_slots v (p : ks_pb) :
  v <> KSK -> vlen (kb_bones p) <= ks_max_bones v -> vlen (kb_bones p) <= 256.
Proof. destruct v; cbn; intros; try congruence; lia. Qed.

(* ---------------------------------------------------------------------------------------- *)
(* Refutations: the same statements without their hypotheses are false of the model. *)

(* (a) no partition left, triParts to be regenerated: every triangle is unassigned (-1), nothing to
       rebuild (before the repair of GenerateTriPartsFromTrueTriangles every triangle claimed
       partition 0 and partBones[0] did not exist) *)
Definition ks_wit_nopart : ks_shape * ks_skin :=
  (ks_mkShape [(0, 1, 2)] true 3 false, ks_mkSkin (ks_mkSP 0 [] true []) (Some []) []).

Lemma ks_update_without_partitions_ok :
  ks_update_domain (fst ks_wit_nopart) (snd ks_wit_nopart) = true /\
  ks_nf_update KFO3 (fst ks_wit_nopart) (snd ks_wit_nopart) = Ok (ks_mkSkin (ks_mkSP 0 [] true [(-1)%Z]) (Some []) []).
Proof. split; vm_compute; reflexivity. Qed.

(* the same state through the API: SetDefaultPartition, DeletePartitions {0}, UpdateSkinPartitions *)
Lemma ks_default_delete_update_ok :
  let sh := ks_mkShape [(0, 1, 2)] true 3 false in
  let k0 := ks_mkSkin (ks_mkSP 0 [] true []) (Some []) [] in
  bind (ks_nf_delete KFO3 [0] (ks_nf_set_default KFO3 sh k0)) (ks_nf_update KFO3 sh)
  = Ok (ks_mkSkin (ks_mkSP 0 [] true [(-1)%Z]) (Some []) []).
Proof. vm_compute. reflexivity. Qed.

(* (b) dismember list shorter than the partition list, and a split is needed *)
Definition ks_wit_bones (nb per nv : nat) : list (list (N * Q)) :=
  map (fun b => map (fun vtx => (N.of_nat vtx, (1 # 4)%Q))
                    (filter (fun vtx => existsb (fun i => Nat.eqb ((vtx * per + i) mod nb) b) (seq 0 per)) (seq 0 nv)))
      (seq 0 nb).

Definition ks_wit_strip (nv : nat) : list tri :=
  map (fun i => (N.of_nat i, N.of_nat (i + 1), N.of_nat (i + 2))) (seq 0 (nv - 2)).

Definition ks_wit_short : ks_shape * ks_skin :=
  let sh := ks_mkShape (ks_wit_strip 12) true 12 false in
  (sh, ks_mkSkin (kk_sp (ks_nf_set_default KFO3 sh (ks_mkSkin (ks_mkSP 0 [] true []) (Some []) [])))
                 (Some []) (ks_wit_bones 40 4 12)).

Lemma ks_update_short_dismember_faults :
  ks_nf_update KFO3 (fst ks_wit_short) (snd ks_wit_short) = Fault.
Proof. vm_compute. reflexivity. Qed.

(* with the aligned list the same input is fine and is split *)
Definition ks_ok_or (r : res ks_skin) (d : ks_skin) : ks_skin := match r with Ok x => x | _ => d end.

Definition ks_wit_short_aligned : ks_skin :=
  ks_mkSkin (kk_sp (snd ks_wit_short)) (Some [(1, 0)]) (kk_bones (snd ks_wit_short)).

Definition ks_wit_short_result : ks_skin :=
  Eval vm_compute in ks_ok_or (ks_nf_update KFO3 (fst ks_wit_short) ks_wit_short_aligned) (snd ks_wit_short).

Lemma ks_update_aligned_dismember_splits :
  exists k', ks_nf_update KFO3 (fst ks_wit_short) ks_wit_short_aligned = Ok k' /\
             (1 < length (kp_parts (kk_sp k')))%nat /\ ks_aligned k'.
Proof.
  exists ks_wit_short_result. split; [vm_compute; reflexivity|]. split; [vm_compute; lia|vm_compute; reflexivity].
Qed.

(* (c) Skyrim LE has no bone limit: with more than 256 bones in a partition the uint8_t slot of
       a bone at position >= 256 wraps and names another bone *)
Definition ks_wit_wide : ks_shape * ks_skin :=
  let sh := ks_mkShape (ks_wit_strip 66) true 66 false in
  (sh, ks_mkSkin (kk_sp (ks_nf_set_default KSK sh (ks_mkSkin (ks_mkSP 0 [] true []) (Some []) [])))
                 (Some [(1, 32)]) (ks_wit_bones 264 4 66)).

Definition ks_wit_wide_result : ks_skin :=
  Eval vm_compute in ks_ok_or (ks_nf_update KSK (fst ks_wit_wide) (snd ks_wit_wide)) (snd ks_wit_wide).

Definition ks_wit_wide_part : ks_pb := Eval vm_compute in nth 0 (kp_parts (kk_sp ks_wit_wide_result)) ks_pb0.

Lemma ks_bone_slots_wrap_sk :
  exists k' p row idx,
    ks_sp_prepare_triparts (map ks_rot (kh_tris (fst ks_wit_wide))) (kk_sp (snd ks_wit_wide))
      = Ok (ks_mkSP 1 (kp_parts (kk_sp (snd ks_wit_wide))) true (repeat 0%Z 64)) /\
    ks_update_accepts (fst ks_wit_wide) (ks_mkSP 1 (kp_parts (kk_sp (snd ks_wit_wide))) true (repeat 0%Z 64)) (kk_dis (snd ks_wit_wide)) = true /\
    ks_nf_update KSK (fst ks_wit_wide) (snd ks_wit_wide) = Ok k' /\
    nth_error (kp_parts (kk_sp k')) 0 = Some p /\ vlen (kb_bones p) = 264 /\
    (* vertex 64 (position 64 of the vertex map) is weighted to bones 256..259 *)
    nth_error (kb_vm p) 64 = Some 64 /\ nth_error (kb_bi p) 64 = Some row /\
    map fst (ks_vbw_get (ks_vbw_final (kk_bones (snd ks_wit_wide))) 64) = [256; 257; 258; 259] /\
    nth_error row 0 = Some idx /\ nth_error (kb_bones p) (N.to_nat idx) = Some 0.
Proof.
  exists ks_wit_wide_result, ks_wit_wide_part, [0; 1; 2; 3], 0.
  split; [vm_compute; reflexivity|].
  split; [vm_compute; reflexivity|].
  split; [vm_compute; reflexivity|].
  split; [vm_compute; reflexivity|].
  split; [vm_compute; reflexivity|].
  split; [vm_compute; reflexivity|].
  split; [vm_compute; reflexivity|].
  split; [vm_compute; reflexivity|].
  split; vm_compute; reflexivity.
Qed.

(* (d) a regenerated triParts reports a triangle that no partition holds as -1 (before the repair: 0) *)
Lemma ks_get_unassigned_minus_one :
  let sh := ks_mkShape [(0, 1, 2); (2, 1, 3)] true 4 false in
  let p := kb_set_tt (kb_set_vm ks_pb0 [0; 1; 2]) [(0, 1, 2)] in
  exists info k', ks_nf_get KFO3 sh (ks_mkSkin (ks_mkSP 1 [p] true []) (Some [(1, 0)]) []) = Ok (info, [0; -1]%Z, k').
Proof. eexists. eexists. vm_compute. reflexivity. Qed.

(* ---------------------------------------------------------------------------------------- *)
(* satisfiability of the hypotheses: a shape whose partition has to be split (FO3, 40 bones) *)
Lemma ks_update_accepts_example :
  let sh := fst ks_wit_short in
  let k := ks_wit_short_aligned in
  exists s0, ks_sp_prepare_triparts (map ks_rot (kh_tris sh)) (kk_sp k) = Ok s0 /\
             ks_update_accepts sh s0 (kk_dis k) = true.
Proof.
  eexists. split.
  - vm_compute. reflexivity.
  - vm_compute. reflexivity.
Qed.

Lemma ks_set_accepts_example : ks_set_accepts [(1, 32); (1, 38)] [0; -1; 5; 1]%Z = true.
Proof. reflexivity. Qed.

Lemma ks_update_domain_example :
  ks_update_domain (fst ks_wit_short) ks_wit_short_aligned = true /\
  ks_update_domain (fst ks_wit_wide) (snd ks_wit_wide) = true.
Proof. split; vm_compute; reflexivity. Qed.

(* duplicate shape triangles: every copy held by a partition is assigned, to the partition holding it *)
Lemma ks_regen_duplicates_example :
  ks_regen_tp [(0, 4, 2); (2, 0, 4); (1, 0, 3); (7, 8, 9)]
              [kb_set_tt ks_pb0 [(0, 4, 2)]; kb_set_tt ks_pb0 [(4, 2, 0); (1, 0, 3)]] = [0; 1; 1; -1]%Z.
Proof. vm_compute. reflexivity. Qed.
