(* SetShapePartitions / GetShapePartitions / SetDefaultPartition / DeletePartitions /
   RemoveEmptyPartitions: cover, set-get, alignment of the dismember list. *)
From NiflyVerif Require Import Res UtilModel UtilSpec CompactProofs EraseProofs FillProofs SkinModel SkinLib SkinGenProofs SkinPartsProofs.
From Coq Require Import ZifyBool ZifyNat ZifyN Sorted Permutation.
Local Open Scope N_scope.

(* the dismember list has one entry per partition *)
Definition ks_aligned (k : ks_skin) : Prop :=
  match kk_dis k with Some d => length d = length (kp_parts (kk_sp k)) | None => True end.

(* ---------------------------------------------------------------------------------------- *)
(* SetShapePartitions *)

Definition ks_np_fold (tp : list Z) (n0 : N) : N :=
  fold_left (fun n pi => if (Z.of_N n <=? pi)%Z then Z.to_N (pi + 1) else n) tp n0.

(* accepted domain: list sizes and ids for which no C integer conversion wraps *)
Definition ks_set_accepts (info : list ks_pinfo) (tp : list Z) : bool :=
  ((vlen info <? 2147483646) && forallb (fun pi => (pi <? 2147483645)%Z) tp)%bool.

Lemma ks_np_fold_cons pi tp n0 :
  ks_np_fold (pi :: tp) n0 = ks_np_fold tp (if (Z.of_N n0 <=? pi)%Z then Z.to_N (pi + 1) else n0).
Proof. reflexivity. Qed.

Lemma ks_np_fold_ge : forall tp n0, n0 <= ks_np_fold tp n0.
Proof.
  induction tp as [|pi tp IH]; intros n0; [cbn; lia|]. rewrite ks_np_fold_cons.
  etransitivity; [|apply IH]. destruct (Z.leb_spec (Z.of_N n0) pi); lia.
Qed.

Lemma ks_np_fold_gt : forall tp n0 pi, In pi tp -> (pi < Z.of_N (ks_np_fold tp n0))%Z.
Proof.
  induction tp as [|p tp IH]; intros n0 pi H; [destruct H|]. rewrite ks_np_fold_cons.
  destruct H as [->|H]; [|apply IH; exact H].
  pose proof (ks_np_fold_ge tp (if (Z.of_N n0 <=? pi)%Z then Z.to_N (pi + 1) else n0)).
  destruct (Z.leb_spec (Z.of_N n0) pi); lia.
Qed.

Lemma ks_np_fold_bound : forall tp n0 B,
  n0 <= B -> (forall pi, In pi tp -> (pi < Z.of_N B)%Z) -> ks_np_fold tp n0 <= B.
Proof.
  induction tp as [|p tp IH]; intros n0 B H0 H; [exact H0|]. rewrite ks_np_fold_cons.
  apply IH; [|intros; apply H; right; assumption].
  assert (p < Z.of_N B)%Z by (apply H; left; reflexivity).
  destruct (Z.leb_spec (Z.of_N n0) p); lia.
Qed.

Lemma ks_count_parts_ok : forall tp n0 u0,
  n0 <= 2147483645 -> (forall pi, In pi tp -> (pi < 2147483645)%Z) ->
  ks_count_parts tp n0 u0 = Ok (ks_np_fold tp n0, (u0 || existsb (fun pi => (pi <? 0)%Z) tp)%bool).
Proof.
  induction tp as [|pi tp IH]; intros n0 u0 Hn H; [cbn; rewrite Bool.orb_false_r; reflexivity|].
  rewrite ks_np_fold_cons. cbn [ks_count_parts existsb].
  - assert (Hp : (pi < 2147483645)%Z) by (apply H; left; reflexivity).
    rewrite to_int_small by (change (2 ^ 31) with 2147483648; lia).
    destruct (Z.leb_spec (Z.of_N n0) pi) as [Hle|Hgt].
    + destruct (Z.ltb_spec (pi + 1) 2147483648); [|lia]. cbn [bind].
      assert (E : ks_to_u32 (pi + 1) = Z.to_N (pi + 1)).
      { unfold ks_to_u32. rewrite Z.mod_small by lia. reflexivity. }
      rewrite E. rewrite IH by (try lia; intros; apply H; right; assumption).
      f_equal. f_equal. destruct (Z.ltb_spec pi 0); destruct u0; reflexivity.
    + cbn [bind]. rewrite IH by (try lia; intros; apply H; right; assumption).
      f_equal. f_equal. destruct (Z.ltb_spec pi 0); destruct u0; reflexivity.
Qed.

Lemma ks_assigned_all : forall (ts : list tri) (tp : list Z) (n : nat),
  length ts = length tp -> Forall (fun pi => (0 <= pi < Z.of_nat n)%Z) tp -> ks_assigned ts tp n = ts.
Proof.
  unfold ks_assigned. induction ts as [|t ts IH]; intros tp n Hl Hf; [reflexivity|].
  destruct tp as [|pi tp]; [discriminate|]. inversion Hf; subst. cbn [combine filter snd].
  replace ((0 <=? pi)%Z && (pi <? Z.of_nat n)%Z)%bool with true.
  - cbn [map fst]. f_equal. apply IH; [cbn in Hl; lia|assumption].
  - symmetry. apply andb_true_iff. split; [apply Z.leb_le|apply Z.ltb_lt]; lia.
Qed.

Lemma ks_pad_info_length v info n : vlen info <= n -> vlen (ks_pad_info v info n) = n.
Proof. unfold ks_pad_info, vlen. rewrite app_length, repeat_length. lia. Qed.

Lemma ks_pad_info_firstn v info n : firstn (length info) (ks_pad_info v info n) = info.
Proof. unfold ks_pad_info. rewrite firstn_app, Nat.sub_diag, firstn_all. cbn. apply app_nil_r. Qed.

Lemma ks_pad_info_full v info n : n <= vlen info -> ks_pad_info v info n = info.
Proof.
  unfold ks_pad_info, vlen. intros H. replace (N.to_nat n - length info)%nat with 0%nat by lia.
  cbn. apply app_nil_r.
Qed.

(* numParts and the stored assignment, as functions of the arguments *)
Definition ks_set_np (info : list ks_pinfo) (tp : list Z) : N :=
  if existsb (fun pi => (pi <? 0)%Z) tp then ks_np_fold tp (vlen info) + 1 else ks_np_fold tp (vlen info).

Definition ks_set_tp (info : list ks_pinfo) (tp : list Z) : list Z :=
  map (fun pi => if (pi <? 0)%Z then (Z.of_N (ks_set_np info tp) - 1)%Z else pi) tp.

Lemma ks_set_tp_range info tp :
  Forall (fun pi => (0 <= pi < Z.of_N (ks_set_np info tp))%Z) (ks_set_tp info tp).
Proof.
  unfold ks_set_tp. apply Forall_forall. intros x Hx. apply in_map_iff in Hx. destruct Hx as (pi & <- & Hin).
  pose proof (ks_np_fold_gt tp (vlen info) pi Hin) as Hgt.
  unfold ks_set_np. destruct (existsb (fun pi => (pi <? 0)%Z) tp) eqn:Eu.
  - destruct (Z.ltb_spec pi 0); lia.
  - destruct (Z.ltb_spec pi 0) as [Hneg|]; [|lia].
    exfalso. assert (existsb (fun pi => (pi <? 0)%Z) tp = true).
    { apply existsb_exists. exists pi. split; [exact Hin|apply Z.ltb_lt; exact Hneg]. }
    congruence.
Qed.

Theorem ks_nf_set_ok (v : ks_ver) (sh : ks_shape) (info : list ks_pinfo) (tp : list Z) (conv : bool) (k : ks_skin) :
  ks_set_accepts info tp = true -> vlen (kh_tris sh) = vlen tp ->
  exists k', ks_nf_set v sh info tp conv k = Ok k' /\
    kp_tp (kk_sp k') = ks_set_tp info tp /\
    kp_np (kk_sp k') = ks_set_np info tp /\ vlen (kp_parts (kk_sp k')) = ks_set_np info tp /\
    Permutation (concat (map kb_tt (kp_parts (kk_sp k')))) (kh_tris sh) /\
    (forall j p, nth_error (kp_parts (kk_sp k')) j = Some p -> kb_tt p = ks_tris_of j (kh_tris sh) (ks_set_tp info tp)) /\
    kk_bones k' = kk_bones k /\
    match kk_dis k' with
    | Some d => vlen d = ks_set_np info tp /\ firstn (length info) d = info
    | None => kk_dis k = None /\ (conv && ks_file20207 v)%bool = false
    end.
Proof.
  intros Hacc Hlen. unfold ks_set_accepts in Hacc. apply andb_true_iff in Hacc. destruct Hacc as [Hi Ht].
  apply N.ltb_lt in Hi.
  assert (Hpi : forall pi, In pi tp -> (pi < 2147483645)%Z).
  { intros pi Hin. rewrite forallb_forall in Ht. apply Z.ltb_lt. apply Ht. exact Hin. }
  unfold ks_nf_set.
  assert (Hw : ks_wrap32 (vlen info) = vlen info).
  { unfold ks_wrap32, wrapN. apply N.mod_small. change (2 ^ 32) with 4294967296. lia. }
  rewrite Hw. rewrite ks_count_parts_ok by (try lia; exact Hpi). cbn [bind fst snd orb].
  set (un := existsb (fun pi => (pi <? 0)%Z) tp).
  set (cnt := ks_np_fold tp (vlen info)).
  assert (Hcnt : cnt <= 2147483645).
  { apply ks_np_fold_bound; [lia|]. intros pi Hin. specialize (Hpi pi Hin). lia. }
  assert (Hnp : (if un then ks_wrap32 (cnt + 1) else cnt) = ks_set_np info tp).
  { unfold ks_set_np. fold un cnt. destruct un; [|reflexivity].
    unfold ks_wrap32, wrapN. apply N.mod_small. change (2 ^ 32) with 4294967296. lia. }
  rewrite Hnp. set (np := ks_set_np info tp).
  assert (Hnpb : np <= 2147483646) by (unfold np, ks_set_np; fold un cnt; destruct un; lia).
  assert (Htp1 : (if un then map (fun pi => if (pi <? 0)%Z then (to_int np - 1)%Z else pi) tp else tp) = ks_set_tp info tp).
  { unfold ks_set_tp. fold np. rewrite to_int_small by (change (2 ^ 31) with 2147483648; lia).
    destruct un eqn:Eu; [reflexivity|]. symmetry. rewrite <- (map_id tp) at 2. apply map_ext_in.
    intros pi Hin. destruct (Z.ltb_spec pi 0) as [Hneg|]; [|reflexivity].
    exfalso. assert (un = true); [|congruence].
    unfold un. apply existsb_exists. exists pi. split; [exact Hin|apply Z.ltb_lt; exact Hneg]. }
  rewrite Htp1. set (tp1 := ks_set_tp info tp).
  set (parts1 := map (fun p => kb_set_hvm p true) (vresize ks_pb0 (kp_parts (kk_sp k)) np)).
  assert (Hl1 : length parts1 = N.to_nat np) by (unfold parts1; rewrite map_length, ks_vresize_length; reflexivity).
  assert (Hlt : vlen (kh_tris sh) = vlen tp1) by (unfold tp1, ks_set_tp, vlen; rewrite map_length; unfold vlen in Hlen; exact Hlen).
  set (s0 := ks_mkSP np parts1 (kp_mapped (kk_sp k)) tp1).
  assert (Hsp : vlen (kp_parts s0) < 2 ^ 31) by (cbn [kp_parts s0]; unfold vlen; rewrite Hl1; change (2 ^ 31) with 2147483648; lia).
  eexists. split; [reflexivity|]. cbn [kk_sp kk_dis kk_bones].
  pose proof (ks_sp_gen_true_spec (kh_tris sh) s0 Hlt Hsp) as Hspec.
  pose proof (ks_sp_gen_true_cover (kh_tris sh) s0 Hlt Hsp) as Hcov.
  fold s0. rewrite Hspec in Hcov |- *. subst s0. cbn [kp_tp kp_np kp_parts kp_mapped] in Hcov |- *.
  split; [reflexivity|]. split; [reflexivity|]. split.
  { unfold vlen. rewrite ks_imap_length, Hl1. lia. }
  split.
  { etransitivity; [exact Hcov|]. apply Permutation_refl'. apply ks_assigned_all.
    - unfold vlen in Hlt. apply Nat2N.inj. exact Hlt.
    - rewrite Hl1. eapply Forall_impl; [|apply (ks_set_tp_range info tp)]. fold np. cbn. intros; lia. }
  split.
  { intros j p Hj.
    assert (Hjl : (j < length parts1)%nat).
    { rewrite <- (ks_imap_length (ks_dist_part (kh_tris sh) tp1) parts1 0). apply nth_error_Some. congruence. }
    apply (nth_error_nth _ _ ks_pb0) in Hj. rewrite (ks_imap_nth _ ks_pb0 ks_pb0) in Hj by exact Hjl.
    rewrite <- Hj. cbn [plus]. apply ks_dist_part_tt. }
  split; [reflexivity|].
  destruct (kk_dis k) as [d|] eqn:Ed.
  - split; [apply ks_pad_info_length; unfold np, ks_set_np; fold un cnt; pose proof (ks_np_fold_ge tp (vlen info)); fold cnt in H; destruct un; lia|apply ks_pad_info_firstn].
  - destruct (conv && ks_file20207 v)%bool.
    + split; [apply ks_pad_info_length; unfold np, ks_set_np; fold un cnt; pose proof (ks_np_fold_ge tp (vlen info)); fold cnt in H; destruct un; lia|apply ks_pad_info_firstn].
    + split; reflexivity.
Qed.

(* ---------------------------------------------------------------------------------------- *)
(* GetShapePartitions when triParts is current *)
Theorem ks_nf_get_current (v : ks_ver) (sh : ks_shape) (k : ks_skin) :
  vlen (kh_tris sh) = vlen (kp_tp (kk_sp k)) ->
  ks_nf_get v sh k =
  Ok (ks_pad_info v (match kk_dis k with Some d => d | None => [] end) (vlen (kp_parts (kk_sp k))), kp_tp (kk_sp k), k).
Proof.
  intros H. unfold ks_nf_get, ks_sp_prepare_triparts. rewrite H, N.eqb_refl. cbn [bind].
  destruct k; reflexivity.
Qed.

(* Get after Set returns the assignment (unassigned triangles renumbered to the last partition)
   and, for a dismember instance, the stored partition info *)
Theorem ks_set_get (v : ks_ver) (sh : ks_shape) (info : list ks_pinfo) (tp : list Z) (conv : bool) (k : ks_skin) :
  ks_set_accepts info tp = true -> vlen (kh_tris sh) = vlen tp ->
  exists k' info', ks_nf_set v sh info tp conv k = Ok k' /\
    ks_nf_get v sh k' = Ok (info', ks_set_tp info tp, k') /\
    vlen info' = ks_set_np info tp /\
    (kk_dis k' <> None -> firstn (length info) info' = info /\ kk_dis k' = Some info').
Proof.
  intros Ha Hl. destruct (ks_nf_set_ok v sh info tp conv k Ha Hl) as (k' & E & Htp & Hnp & Hvl & _ & _ & _ & Hd).
  exists k'. eexists. split; [exact E|]. split.
  - rewrite ks_nf_get_current.
    + rewrite Htp. reflexivity.
    + rewrite Htp. unfold ks_set_tp, vlen. rewrite map_length. unfold vlen in Hl. exact Hl.
  - rewrite Hvl. destruct (kk_dis k') as [d|].
    + destruct Hd as [Hd1 Hd2]. rewrite ks_pad_info_full by lia. split; [exact Hd1|].
      intros _. split; [exact Hd2|reflexivity].
    + split; [apply ks_pad_info_length; cbn; lia|]. intros C. congruence.
Qed.

(* ---------------------------------------------------------------------------------------- *)
(* SetDefaultPartition *)
Theorem ks_nf_set_default_ok (v : ks_ver) (sh : ks_shape) (k : ks_skin) :
  kh_nv sh < 65536 ->
  exists p, kk_sp (ks_nf_set_default v sh k) = ks_mkSP 1 [p] (negb (kh_bs sh)) [] /\
    kb_tt p = kh_tris sh /\ kb_vm p = ks_nseq (kh_nv sh) /\
    (kh_bs sh = true -> kb_tris p = kh_tris sh) /\
    ks_aligned (ks_nf_set_default v sh k) /\
    (kk_dis (ks_nf_set_default v sh k) = None <-> kk_dis k = None) /\
    kb_hf p = true.
Proof.
  intros Hnv. unfold ks_nf_set_default. cbn [kk_sp kk_dis].
  assert (Hw : wrap16 (kh_nv sh) = kh_nv sh) by (unfold wrap16, wrapN; apply N.mod_small; exact Hnv).
  eexists. split; [reflexivity|]. split; [|split; [|split; [|split; [|split]]]].
  - destruct (0 <? kh_nv sh); destruct (kh_tris sh) as [|t ts] eqn:Et; cbn; try rewrite Bool.negb_involutive;
      destruct (kh_bs sh); reflexivity.
  - destruct (N.ltb_spec 0 (kh_nv sh)) as [Hp|Hz].
    + destruct (ks_isnil (kh_tris sh)); cbn [negb]; [rewrite Hw; reflexivity|].
      rewrite Bool.negb_involutive. destruct (kh_bs sh); cbn; rewrite Hw; reflexivity.
    + assert (kh_nv sh = 0) as -> by lia. destruct (ks_isnil (kh_tris sh)); cbn [negb]; [reflexivity|].
      rewrite Bool.negb_involutive. destruct (kh_bs sh); reflexivity.
  - intros Hbs. rewrite Hbs. cbn [negb].
    destruct (kh_tris sh) as [|t ts]; cbn [ks_isnil negb]; [destruct (0 <? kh_nv sh); reflexivity|].
    destruct (0 <? kh_nv sh); reflexivity.
  - unfold ks_aligned. cbn [kk_dis kk_sp kp_parts]. destruct (kk_dis k); reflexivity.
  - destruct (kk_dis k); split; intros; congruence.
  - destruct (0 <? kh_nv sh); destruct (ks_isnil (kh_tris sh)); cbn [negb]; try rewrite Bool.negb_involutive;
      destruct (kh_bs sh); reflexivity.
Qed.

(* ---------------------------------------------------------------------------------------- *)
(* UpdatePartitionFlags never leaves the partition list when the dismember list is not longer *)
Lemma ks_flags_loop_ok (v : ks_ver) (parts : list ks_pb) : forall (d : list ks_pinfo) (i : N),
  i + vlen d <= vlen parts ->
  exists d', ks_flags_loop v parts d i = Ok d' /\ length d' = length d /\ map snd d' = map snd d.
Proof.
  induction d as [|[f pid] d IH]; intros i H.
  - exists []. cbn. auto.
  - cbn [ks_flags_loop].
    assert (Hb : exists net, (if negb (i =? 0) then
            match vget parts i, vget parts (i - 1) with
            | Some a, Some b => Ok (if ks_list_eqb (kb_bones a) (kb_bones b) then 0 else 256)
            | _, _ => Fault
            end else Ok 256) = Ok net).
    { destruct (N.eqb_spec i 0); cbn [negb]; [eauto|].
      destruct (ks_vget_lt parts i) as (a & Ea); [unfold vlen in *; cbn [length] in H; lia|].
      destruct (ks_vget_lt parts (i - 1)) as (b & Eb); [unfold vlen in *; cbn [length] in H; lia|].
      rewrite Ea, Eb. eauto. }
    destruct Hb as (net & ->). cbn [bind].
    destruct (IH (i + 1)) as (d' & E & L & M); [unfold vlen in *; cbn [length] in H; lia|].
    rewrite E. cbn [bind]. eexists. split; [reflexivity|]. cbn. split; congruence.
Qed.

Lemma ks_update_flags_ok (v : ks_ver) (k : ks_skin) :
  ks_aligned k ->
  exists k', ks_update_flags v k = Ok k' /\ kk_sp k' = kk_sp k /\ kk_bones k' = kk_bones k /\ ks_aligned k' /\
    (kk_dis k' = None <-> kk_dis k = None) /\
    (forall d d', kk_dis k = Some d -> kk_dis k' = Some d' -> map snd d' = map snd d).
Proof.
  unfold ks_aligned, ks_update_flags. destruct (kk_dis k) as [d|] eqn:Ed; intros Ha.
  - destruct (ks_flags_loop_ok v (kp_parts (kk_sp k)) d 0) as (d' & E & L & M); [unfold vlen; lia|].
    rewrite E. cbn [bind]. eexists. split; [reflexivity|]. cbn [kk_sp kk_dis kk_bones].
    split; [reflexivity|]. split; [reflexivity|]. split; [congruence|]. split; [split; intros; congruence|].
    intros d0 d1 H0 H1. inversion H0; inversion H1; subst. exact M.
  - exists k. rewrite Ed. repeat split; auto; intros; congruence.
Qed.

(* ---------------------------------------------------------------------------------------- *)
(* DeletePartitions *)
Definition ks_remap (idx : list N) (n : N) (pi : Z) : Z :=
  if ((0 <=? pi)%Z && (pi <? Z.of_N n)%Z)%bool then nth (Z.to_nat pi) (collapse_spec idx n) 0%Z else pi.

Lemma ks_collapse_spec_length idx n : length (collapse_spec idx n) = N.to_nat n.
Proof. unfold collapse_spec. rewrite map_length, seq_length. reflexivity. Qed.

Lemma ks_erase_from_length {A B} : forall (l : list A) (l' : list B) pos idx,
  length l = length l' -> length (erase_from pos l idx) = length (erase_from pos l' idx).
Proof.
  induction l as [|x l IH]; intros [|y l'] pos idx H; try discriminate; [reflexivity|].
  cbn [erase_from]. destruct (memN pos idx); cbn [length]; rewrite (IH l' (pos + 1) idx) by (cbn in H; lia); reflexivity.
Qed.

Lemma ks_erase_from_map {A B} (f : A -> B) : forall (l : list A) pos idx,
  map f (erase_from pos l idx) = erase_from pos (map f l) idx.
Proof.
  induction l as [|x l IH]; intros pos idx; [reflexivity|].
  cbn [erase_from map]. destruct (memN pos idx); cbn [map]; rewrite IH; reflexivity.
Qed.

Lemma ks_erase_from_le {A} : forall (l : list A) pos idx, (length (erase_from pos l idx) <= length l)%nat.
Proof.
  induction l as [|x l IH]; intros pos idx; [cbn; lia|].
  cbn [erase_from]. destruct (memN pos idx); cbn [length]; specialize (IH (pos + 1) idx); lia.
Qed.

Theorem ks_sp_delete_ok (idx : list N) (s : ks_sp) :
  sorted_lt idx -> idx <> [] -> kp_np s < 2 ^ 31 -> vlen (kp_parts s) < 2 ^ 32 ->
  ks_sp_delete idx s =
  Ok (ks_mkSP (vlen (erase_spec (kp_parts s) idx)) (erase_spec (kp_parts s) idx) (kp_mapped s)
              (map (ks_remap idx (kp_np s)) (kp_tp s))).
Proof.
  intros Hs Hne Hnp Hpl. unfold ks_sp_delete.
  destruct idx as [|i0 rest]; [congruence|]. cbn [ks_isnil].
  assert (Htp : (if negb (ks_isnil (kp_tp s))
          then bind (collapse_model 32 false (i0 :: rest) (kp_np s)) (fun piMap => ks_mapM (ks_remap_tp piMap) (kp_tp s))
          else Ok (kp_tp s)) = Ok (map (ks_remap (i0 :: rest) (kp_np s)) (kp_tp s))).
  { destruct (kp_tp s) as [|p0 tp0] eqn:Etp; [reflexivity|]. cbn [ks_isnil negb]. rewrite <- Etp.
    rewrite collapse_correct by (try exact Hs; try exact Hnp; change (2 ^ 32) with 4294967296; change (2 ^ 31) with 2147483648 in Hnp; lia).
    cbn [bind]. apply ks_mapM_ok. intros pi _. unfold ks_remap_tp, ks_remap.
    assert (Hlen : vlen (collapse_spec (i0 :: rest) (kp_np s)) = kp_np s).
    { unfold vlen. rewrite ks_collapse_spec_length. lia. }
    rewrite Hlen. rewrite to_int_small by exact Hnp.
    destruct ((0 <=? pi)%Z && (pi <? Z.of_N (kp_np s))%Z)%bool eqn:Hr; [|reflexivity].
    apply andb_true_iff in Hr. destruct Hr as [H0 H1]. apply Z.leb_le in H0. apply Z.ltb_lt in H1.
    unfold vget.
    replace (N.to_nat (Z.to_N pi)) with (Z.to_nat pi) by lia.
    rewrite (nth_error_nth' _ 0%Z); [reflexivity|]. rewrite ks_collapse_spec_length. lia. }
  rewrite Htp. cbn [bind].
  rewrite (@erase_correct ks_pb 32) by (try exact Hs; exact Hpl). cbn [bind].
  f_equal. f_equal. unfold ks_wrap32, wrapN. apply N.mod_small.
  unfold erase_spec. pose proof (ks_erase_from_le (kp_parts s) 0 (i0 :: rest)). unfold vlen in *. lia.
Qed.

Theorem ks_nf_delete_ok (v : ks_ver) (idx : list N) (k : ks_skin) :
  sorted_lt idx -> idx <> [] -> kp_np (kk_sp k) < 2 ^ 31 -> vlen (kp_parts (kk_sp k)) < 2 ^ 32 -> ks_aligned k ->
  exists k', ks_nf_delete v idx k = Ok k' /\
    kk_sp k' = ks_mkSP (vlen (erase_spec (kp_parts (kk_sp k)) idx)) (erase_spec (kp_parts (kk_sp k)) idx)
                       (kp_mapped (kk_sp k)) (map (ks_remap idx (kp_np (kk_sp k))) (kp_tp (kk_sp k))) /\
    ks_aligned k' /\ kk_bones k' = kk_bones k /\
    (kk_dis k' = None <-> kk_dis k = None) /\
    (forall d d', kk_dis k = Some d -> kk_dis k' = Some d' -> map snd d' = erase_spec (map snd d) idx).
Proof.
  intros Hs Hne Hnp Hpl Ha. unfold ks_nf_delete. rewrite ks_sp_delete_ok by assumption. cbn [bind].
  unfold ks_aligned in Ha. destruct (kk_dis k) as [d|] eqn:Ed.
  - unfold ks_dis_delete. destruct idx as [|i0 rest]; [congruence|]. cbn [ks_isnil].
    rewrite (@erase_correct ks_pinfo 32).
    2: exact Hs.
    2:{ unfold vlen in *. rewrite Ha. exact Hpl. }
    cbn [bind].
    match goal with |- context [ks_update_flags v ?kk] => destruct (ks_update_flags_ok v kk) as (k' & E & S1 & B1 & A1 & N1 & M1) end.
    { unfold ks_aligned. cbn [kk_dis kk_sp kp_parts]. unfold erase_spec. apply ks_erase_from_length. exact Ha. }
    exists k'. split; [exact E|]. cbn [kk_sp kk_bones kk_dis] in *. split; [exact S1|]. split; [exact A1|]. split; [exact B1|].
    split; [split; intros; [apply N1 in H|]; congruence|].
    intros d0 d' H0 H1. inversion H0; subst d0. rewrite (M1 _ d' eq_refl H1).
    unfold erase_spec. apply ks_erase_from_map.
  - eexists. split; [reflexivity|]. cbn [kk_sp kk_dis kk_bones]. split; [reflexivity|].
    unfold ks_aligned. cbn [kk_dis]. repeat split; auto; intros; congruence.
Qed.

(* ---------------------------------------------------------------------------------------- *)
(* RemoveEmptyPartitions *)
Lemma ks_empty_indices_ge : forall parts i x, In x (ks_empty_indices parts i) -> i <= x.
Proof.
  induction parts as [|p r IH]; intros i x H; cbn in H; [destruct H|].
  destruct (kb_nt p =? 0); [destruct H as [<-|H]; [lia|]|]; apply IH in H; lia.
Qed.

Lemma ks_empty_indices_sorted : forall parts i, sorted_lt (ks_empty_indices parts i).
Proof.
  unfold sorted_lt. induction parts as [|p r IH]; intros i; cbn; [constructor|].
  destruct (kb_nt p =? 0); [|apply IH]. constructor; [apply IH|].
  apply Forall_forall. intros x Hx. apply ks_empty_indices_ge in Hx. lia.
Qed.

Lemma ks_erase_from_drop_small {A} : forall (l : list A) pos x idx,
  x < pos -> erase_from pos l (x :: idx) = erase_from pos l idx.
Proof.
  induction l as [|a l IH]; intros pos x idx H; [reflexivity|]. cbn [erase_from].
  assert (E : memN pos (x :: idx) = memN pos idx).
  { unfold memN. cbn [existsb]. destruct (N.eqb_spec pos x); [lia|reflexivity]. }
  rewrite E, IH by lia. reflexivity.
Qed.

Lemma ks_erase_empty : forall parts pos,
  erase_from pos parts (ks_empty_indices parts pos) = filter (fun p => negb (kb_nt p =? 0)) parts.
Proof.
  induction parts as [|p r IH]; intros pos; [reflexivity|]. cbn [erase_from ks_empty_indices filter].
  destruct (kb_nt p =? 0) eqn:E; cbn [negb].
  - assert (Hm : memN pos (pos :: ks_empty_indices r (pos + 1)) = true) by (apply memN_true_iff; left; reflexivity).
    rewrite Hm. rewrite ks_erase_from_drop_small by lia. apply IH.
  - assert (Hm : memN pos (ks_empty_indices r (pos + 1)) = false).
    { apply memN_false_iff. apply Forall_forall. intros x Hx. apply ks_empty_indices_ge in Hx. lia. }
    rewrite Hm. f_equal. apply IH.
Qed.

Definition ks_nonempty (p : ks_pb) : bool := negb (kb_nt p =? 0).

Theorem ks_nf_remove_empty_ok (v : ks_ver) (k : ks_skin) :
  kp_np (kk_sp k) < 2 ^ 31 -> vlen (kp_parts (kk_sp k)) < 2 ^ 32 -> ks_aligned k ->
  exists k', ks_nf_remove_empty v k = Ok k' /\
    kp_parts (kk_sp k') = filter ks_nonempty (kp_parts (kk_sp k)) /\
    kp_mapped (kk_sp k') = kp_mapped (kk_sp k) /\
    ks_aligned k' /\ kk_bones k' = kk_bones k /\ (kk_dis k' = None <-> kk_dis k = None).
Proof.
  intros Hnp Hpl Ha. unfold ks_nf_remove_empty, ks_sp_remove_empty.
  assert (Hw : ks_wrap32 (vlen (kp_parts (kk_sp k))) = vlen (kp_parts (kk_sp k))) by (unfold ks_wrap32, wrapN; apply N.mod_small; exact Hpl).
  assert (Hf : firstn (N.to_nat (ks_wrap32 (vlen (kp_parts (kk_sp k))))) (kp_parts (kk_sp k)) = kp_parts (kk_sp k)).
  { rewrite Hw. unfold vlen. rewrite Nat2N.id. apply firstn_all. }
  cbv zeta. rewrite Hf.
  set (del := ks_empty_indices (kp_parts (kk_sp k)) 0).
  assert (Hfil : erase_spec (kp_parts (kk_sp k)) del = filter ks_nonempty (kp_parts (kk_sp k))) by (apply ks_erase_empty).
  destruct del as [|d0 dr] eqn:Edel.
  - cbn [ks_isnil negb bind]. change (ks_wrap32 (vlen [])) with 0. cbn [N.eqb negb].
    exists (ks_mkSkin (kk_sp k) (kk_dis k) (kk_bones k)). split; [reflexivity|]. cbn [kk_sp kk_dis kk_bones].
    split.
    + rewrite <- Hfil. unfold erase_spec. symmetry. apply erase_from_none. constructor.
    + unfold ks_aligned in *. cbn [kk_dis kk_sp]. repeat split; auto.
  - cbn [ks_isnil negb]. rewrite <- Edel. rewrite <- Edel in Hfil.
    assert (Hs : sorted_lt del) by (apply ks_empty_indices_sorted).
    assert (Hne : del <> []) by (rewrite Edel; discriminate).
    rewrite ks_sp_delete_ok by assumption. cbn [bind].
    assert (Hcnt : (ks_wrap32 (vlen del) =? 0) = false).
    { apply N.eqb_neq. unfold ks_wrap32, wrapN. rewrite N.mod_small.
      - rewrite Edel. unfold vlen. cbn [length]. lia.
      - assert (length del <= length (kp_parts (kk_sp k)))%nat.
        { clear. unfold del. generalize 0. induction (kp_parts (kk_sp k)) as [|p r IH]; intros i; cbn; [lia|].
          destruct (kb_nt p =? 0); cbn [length]; specialize (IH (i + 1)); lia. }
        unfold vlen in *. lia. }
    rewrite Hcnt. cbn [negb].
    unfold ks_aligned in Ha. destruct (kk_dis k) as [d|] eqn:Ed.
    + unfold ks_dis_delete. rewrite Edel. cbn [ks_isnil]. rewrite <- Edel.
      rewrite (@erase_correct ks_pinfo 32).
      2: exact Hs.
      2:{ unfold vlen in *. rewrite Ha. exact Hpl. }
      cbn [bind].
      match goal with |- context [ks_update_flags v ?kk] => destruct (ks_update_flags_ok v kk) as (k' & E & S1 & B1 & A1 & N1 & M1) end.
      { unfold ks_aligned. cbn [kk_dis kk_sp kp_parts]. unfold erase_spec. apply ks_erase_from_length. exact Ha. }
      exists k'. split; [exact E|]. rewrite S1. cbn [kk_sp kp_parts kp_mapped kk_bones kk_dis] in *.
      split; [exact Hfil|]. split; [reflexivity|]. split; [exact A1|]. split; [exact B1|].
      split; intros; [apply N1 in H|]; congruence.
    + eexists. split; [reflexivity|]. cbn [kk_sp kp_parts kp_mapped kk_dis kk_bones].
      split; [exact Hfil|]. unfold ks_aligned. cbn [kk_dis]. repeat split; auto; intros; congruence.
Qed.

(* removing the partitions whose counter is zero loses no triangle when the counters are right *)
Lemma ks_filter_nonempty_cover (parts : list ks_pb) :
  (forall p, In p parts -> kb_nt p = 0 -> kb_tt p = []) ->
  concat (map kb_tt (filter ks_nonempty parts)) = concat (map kb_tt parts).
Proof.
  induction parts as [|p r IH]; intros H; [reflexivity|]. cbn [filter map concat]. unfold ks_nonempty at 1.
  destruct (N.eqb_spec (kb_nt p) 0) as [E|E]; cbn [negb].
  - rewrite (H p (or_introl eq_refl) E). cbn [app]. apply IH. intros; apply H; [right|]; assumption.
  - cbn [map concat]. f_equal. apply IH. intros; apply H; [right|]; assumption.
Qed.
