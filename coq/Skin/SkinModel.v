(* Hand model of the skin-partition code:
     src/Skin.cpp:303-510      NiSkinPartition::{DeletePartitions, RemoveEmptyPartitions,
                               ConvertStripsToTriangles, PrepareTrueTriangles,
                               PrepareVertexMapsAndTriangles, GenerateTriPartsFromTrueTriangles,
                               GenerateTrueTrianglesFromTriParts, PrepareTriParts} and
                               PartitionBlock::{ConvertStripsToTriangles,
                               GenerateTrueTrianglesFromMappedTriangles,
                               GenerateMappedTrianglesFromTrueTrianglesAndVertexMap,
                               GenerateVertexMapFromTrueTriangles}
     src/Skin.cpp:549-554      BSDismemberSkinInstance::DeletePartitions
     src/NifFile.cpp:2884-3060 Get/SetShapePartitions, SetDefaultPartition, DeletePartitions
     src/NifFile.cpp:4103-4121 RemoveEmptyPartitions
     src/NifFile.cpp:4264-4466 UpdateSkinPartitions, UpdatePartitionFlags
   on top of the proved utility models (UtilModel.v). Same loops, counters with their C widths,
   same branch order. Vectors are lists; an access outside a vector is [Fault]. Weights are exact
   rationals (IEEE rounding is not modelled). Every name carries the prefix ks_/kb_/kp_/kh_/kk_
   because extraction is monolithic. *)
From Coq Require Import QArith.
From NiflyVerif Require Export Res UtilModel.
Local Open Scope N_scope.

(* re-exported under our own name so that the generated Extract.v (which imports NiflyVerif modules
   only) can name it *)
Definition ks_qred (q : Q) : Q := Qred q.

Definition ks_wrap8 (x : N) : N := wrapN 8 x.
Definition ks_wrap32 (x : N) : N := wrapN 32 x.

(* static_cast<uint32_t>(int) *)
Definition ks_to_u32 (z : Z) : N := Z.to_N (Z.modulo z 4294967296).

Definition ks_isnil {A} (l : list A) : bool := match l with [] => true | _ => false end.

Fixpoint ks_mapM {A B} (f : A -> res B) (l : list A) : res (list B) :=
  match l with
  | [] => Ok []
  | x :: r => bind (f x) (fun y => bind (ks_mapM f r) (fun ys => Ok (y :: ys)))
  end.

(* Triangle::rot (Object3d.hpp:1427-1434) *)
Definition ks_rot (t : tri) : tri :=
  let '(p1, p2, p3) := t in
  if ((p2 <? p1) && (p2 <? p3))%bool then (p2, p3, p1)
  else if p3 <? p1 then (p3, p1, p2) else t.

Definition ks_tri_eqb (a b : tri) : bool :=
  let '(a1, a2, a3) := a in let '(b1, b2, b3) := b in
  ((a1 =? b1) && (a2 =? b2) && (a3 =? b3))%bool.

(* ---------------------------------------------------------------------------------------- *)
(* NiSkinPartition::PartitionBlock (Skin.hpp:65-94); vertexDesc, lodLevel, globalVB are only
   copied and are left out *)
Record ks_pb := ks_mkPB {
  kb_nv : N;                       (* numVertices (uint16) *)
  kb_nt : N;                       (* numTriangles (uint16) *)
  kb_nb : N;                       (* numBones (uint16) *)
  kb_ns : N;                       (* numStrips (uint16) *)
  kb_nw : N;                       (* numWeightsPerVertex (uint16) *)
  kb_bones : list N;
  kb_hvm : bool;
  kb_vm : list N;                  (* vertexMap *)
  kb_hvw : bool;
  kb_vw : list (list Q);           (* vertexWeights: w1..w4 *)
  kb_slens : list N;               (* stripLengths *)
  kb_hf : bool;                    (* hasFaces *)
  kb_strips : list (list N);
  kb_tris : list tri;              (* triangles (indices into vertexMap when mapped) *)
  kb_hbi : bool;
  kb_bi : list (list N);           (* boneIndices: i1..i4 *)
  kb_tt : list tri                 (* trueTriangles *)
}.

Definition ks_pb0 : ks_pb :=
  ks_mkPB 0 0 0 0 0 [] false [] false [] [] false [] [] false [] [].

(* field updates *)
Definition kb_set_nv (p : ks_pb) (x : N) : ks_pb :=
  ks_mkPB x (kb_nt p) (kb_nb p) (kb_ns p) (kb_nw p) (kb_bones p) (kb_hvm p) (kb_vm p) (kb_hvw p) (kb_vw p)
          (kb_slens p) (kb_hf p) (kb_strips p) (kb_tris p) (kb_hbi p) (kb_bi p) (kb_tt p).
Definition kb_set_nt (p : ks_pb) (x : N) : ks_pb :=
  ks_mkPB (kb_nv p) x (kb_nb p) (kb_ns p) (kb_nw p) (kb_bones p) (kb_hvm p) (kb_vm p) (kb_hvw p) (kb_vw p)
          (kb_slens p) (kb_hf p) (kb_strips p) (kb_tris p) (kb_hbi p) (kb_bi p) (kb_tt p).
Definition kb_set_vm (p : ks_pb) (x : list N) : ks_pb :=
  ks_mkPB (kb_nv p) (kb_nt p) (kb_nb p) (kb_ns p) (kb_nw p) (kb_bones p) (kb_hvm p) x (kb_hvw p) (kb_vw p)
          (kb_slens p) (kb_hf p) (kb_strips p) (kb_tris p) (kb_hbi p) (kb_bi p) (kb_tt p).
Definition kb_set_hvm (p : ks_pb) (x : bool) : ks_pb :=
  ks_mkPB (kb_nv p) (kb_nt p) (kb_nb p) (kb_ns p) (kb_nw p) (kb_bones p) x (kb_vm p) (kb_hvw p) (kb_vw p)
          (kb_slens p) (kb_hf p) (kb_strips p) (kb_tris p) (kb_hbi p) (kb_bi p) (kb_tt p).
Definition kb_set_tris (p : ks_pb) (x : list tri) : ks_pb :=
  ks_mkPB (kb_nv p) (kb_nt p) (kb_nb p) (kb_ns p) (kb_nw p) (kb_bones p) (kb_hvm p) (kb_vm p) (kb_hvw p) (kb_vw p)
          (kb_slens p) (kb_hf p) (kb_strips p) x (kb_hbi p) (kb_bi p) (kb_tt p).
Definition kb_set_tt (p : ks_pb) (x : list tri) : ks_pb :=
  ks_mkPB (kb_nv p) (kb_nt p) (kb_nb p) (kb_ns p) (kb_nw p) (kb_bones p) (kb_hvm p) (kb_vm p) (kb_hvw p) (kb_vw p)
          (kb_slens p) (kb_hf p) (kb_strips p) (kb_tris p) (kb_hbi p) (kb_bi p) x.

(* PartitionBlock::ConvertStripsToTriangles (Skin.cpp:333-345) *)
Definition ks_pb_convert (p : ks_pb) : res (ks_pb * bool) :=
  if kb_ns p =? 0 then Ok (p, false)
  else bind (strips_model (kb_strips p)) (fun ts =>
    Ok (ks_mkPB (kb_nv p) (wrap16 (vlen ts)) (kb_nb p) 0 (kb_nw p) (kb_bones p) (kb_hvm p) (kb_vm p)
                (kb_hvw p) (kb_vw p) [] true [] ts (kb_hbi p) (kb_bi p) [], true)).

(* PartitionBlock::GenerateTrueTrianglesFromMappedTriangles (Skin.cpp:356-374);
   ApplyMapToTriangles<uint16_t, int> *)
Definition ks_pb_gen_true (p : ks_pb) : res ks_pb :=
  if (ks_isnil (kb_vm p) || ks_isnil (kb_tris p))%bool then
    Ok (kb_set_nt (kb_set_tt p []) (if kb_ns p =? 0 then 0 else kb_nt p))
  else
    bind (apply_map_tris_model 31 true (kb_tris p) (map Z.of_N (kb_vm p))) (fun r =>
      let tt := map ks_rot (fst r) in
      if vlen (kb_tris p) =? vlen tt then Ok (kb_set_tt p tt)
      else Ok (kb_set_nt (kb_set_tris (kb_set_tt p tt) []) (wrap16 (vlen tt)))).

(* the invmap loop of GenerateMappedTrianglesFromTrueTrianglesAndVertexMap (Skin.cpp:385-390):
   mi is a uint16_t that stays below the (16-bit) bound, so it never wraps *)
Fixpoint ks_invmap_fill (l : list N) (mi : N) (inv : list Z) : res (list Z) :=
  match l with
  | [] => Ok inv
  | x :: r =>
    let inv1 := if vlen inv <=? x then vresize 0%Z inv (x + 1) else inv in
    match vset inv1 x (Z.of_N mi) with
    | None => Fault
    | Some inv2 => ks_invmap_fill r (mi + 1) inv2
    end
  end.

Definition ks_invmap (vm : list N) : res (list Z) :=
  ks_invmap_fill (firstn (N.to_nat (wrap16 (vlen vm))) vm) 0
                 (repeat 0%Z (N.to_nat (last vm 0 + 1))).

(* PartitionBlock::GenerateMappedTrianglesFromTrueTrianglesAndVertexMap (Skin.cpp:376-402) *)
Definition ks_pb_gen_mapped (p : ks_pb) : res ks_pb :=
  if (ks_isnil (kb_vm p) || ks_isnil (kb_tt p))%bool then
    Ok (kb_set_nt (kb_set_tris p []) (if kb_ns p =? 0 then 0 else kb_nt p))
  else
    bind (ks_invmap (kb_vm p)) (fun inv =>
    bind (apply_map_tris_model 31 true (kb_tt p) inv) (fun r =>
      let ts := map ks_rot (fst r) in
      if vlen ts =? vlen (kb_tt p) then Ok (kb_set_tris p ts)
      else Ok (kb_set_nt (kb_set_tt (kb_set_tris p ts) []) (wrap16 (vlen ts))))).

(* PartitionBlock::GenerateVertexMapFromTrueTriangles (Skin.cpp:404-420) *)
Fixpoint ks_mark (tt : list tri) (used : list bool) : res (list bool) :=
  match tt with
  | [] => Ok used
  | (p1, p2, p3) :: r =>
    match vset used p1 true with
    | None => Fault
    | Some u1 =>
      match vset u1 p2 true with
      | None => Fault
      | Some u2 =>
        match vset u2 p3 true with
        | None => Fault
        | Some u3 => ks_mark r u3
        end
      end
    end
  end.

Fixpoint ks_collect (l : list bool) (i : N) : list N :=
  match l with
  | [] => []
  | b :: r => if b then i :: ks_collect r (i + 1) else ks_collect r (i + 1)
  end.

Definition ks_pb_gen_vmap (p : ks_pb) : res ks_pb :=
  bind (ks_mark (kb_tt p) (repeat false (N.to_nat (max_tri_index (kb_tt p) + 1)))) (fun used =>
    (* for (uint16_t i = 0; i < static_cast<uint16_t>(vertUsed.size()); ++i) *)
    let vm := ks_collect (firstn (N.to_nat (wrap16 (vlen used))) used) 0 in
    Ok (kb_set_nv (kb_set_vm p vm) (wrap16 (vlen vm)))).

(* ---------------------------------------------------------------------------------------- *)
(* NiSkinPartition (Skin.hpp:63-162); the SSE vertex data copy is left out *)
Record ks_sp := ks_mkSP {
  kp_np : N;                       (* numPartitions (uint32) *)
  kp_parts : list ks_pb;
  kp_mapped : bool;                (* bMappedIndices *)
  kp_tp : list Z                   (* triParts (int) *)
}.

(* NiSkinPartition::ConvertStripsToTriangles (Skin.cpp:347-354) *)
Definition ks_sp_convert (s : ks_sp) : res (ks_sp * bool) :=
  bind (ks_mapM ks_pb_convert (kp_parts s)) (fun l =>
    Ok (ks_mkSP (kp_np s) (map fst l) (kp_mapped s) (kp_tp s), existsb snd l)).

(* NiSkinPartition::PrepareTrueTriangles (Skin.cpp:422-435) *)
Definition ks_pb_prepare_true (mapped : bool) (p : ks_pb) : res ks_pb :=
  if negb (ks_isnil (kb_tt p)) then Ok p
  else
    bind (if negb (kb_ns p =? 0) then bind (ks_pb_convert p) (fun r => Ok (fst r)) else Ok p) (fun p1 =>
      if mapped then ks_pb_gen_true p1 else Ok (kb_set_tt p1 (kb_tris p1))).

Definition ks_sp_prepare_true (s : ks_sp) : res ks_sp :=
  bind (ks_mapM (ks_pb_prepare_true (kp_mapped s)) (kp_parts s)) (fun l =>
    Ok (ks_mkSP (kp_np s) l (kp_mapped s) (kp_tp s))).

(* NiSkinPartition::PrepareVertexMapsAndTriangles (Skin.cpp:437-449) *)
Definition ks_pb_prepare_vmap (mapped : bool) (p : ks_pb) : res ks_pb :=
  bind (if ks_isnil (kb_vm p) then ks_pb_gen_vmap p else Ok p) (fun p1 =>
    if ks_isnil (kb_tris p1) then
      (if mapped then ks_pb_gen_mapped p1 else Ok (kb_set_tris p1 (kb_tt p1)))
    else Ok p1).

Definition ks_sp_prepare_vmaps (s : ks_sp) : res ks_sp :=
  bind (ks_mapM (ks_pb_prepare_vmap (kp_mapped s)) (kp_parts s)) (fun l =>
    Ok (ks_mkSP (kp_np s) l (kp_mapped s) (kp_tp s))).

(* NiSkinPartition::GenerateTriPartsFromTrueTriangles (Skin.cpp:451-485).
   std::unordered_map<Triangle, std::vector<int>> is an association list; per key the shape
   indices in push_back (= ascending) order. *)
Definition ks_tmap := list (tri * list Z).

Fixpoint ks_tmap_push (m : ks_tmap) (key : tri) (i : Z) : ks_tmap :=
  match m with
  | [] => [(key, [i])]
  | (k, l) :: r => if ks_tri_eqb k key then (k, l ++ [i]) :: r else (k, l) :: ks_tmap_push r key i
  end.

Fixpoint ks_tri_index (ts : list tri) (i : Z) (m : ks_tmap) : ks_tmap :=
  match ts with
  | [] => m
  | t :: r => ks_tri_index r (i + 1)%Z (ks_tmap_push m (ks_rot t) i)
  end.

Fixpoint ks_tri_find (m : ks_tmap) (t : tri) : option (list Z) :=
  match m with
  | [] => None
  | (k, l) :: r => if ks_tri_eqb k t then Some l else ks_tri_find r t
  end.

(* for (int triInd : it->second) if (triParts[triInd] < 0) { triParts[triInd] = partInd; break; } *)
Fixpoint ks_claim (idxs : list Z) (partInd : Z) (tp : list Z) : res (list Z) :=
  match idxs with
  | [] => Ok tp
  | j :: r =>
    match vget tp (Z.to_N j) with
    | None => Fault
    | Some v =>
      if (v <? 0)%Z then
        match vset tp (Z.to_N j) partInd with
        | None => Fault
        | Some tp' => Ok tp'
        end
      else ks_claim r partInd tp
    end
  end.

Fixpoint ks_assign_tris (m : ks_tmap) (pts : list tri) (partInd : Z) (tp : list Z) : res (list Z) :=
  match pts with
  | [] => Ok tp
  | pt :: r =>
    match ks_tri_find m (ks_rot pt) with
    | None => ks_assign_tris m r partInd tp
    | Some idxs => bind (ks_claim idxs partInd tp) (fun tp' => ks_assign_tris m r partInd tp')
    end
  end.

Fixpoint ks_assign_parts (m : ks_tmap) (parts : list ks_pb) (partInd : Z) (tp : list Z) : res (list Z) :=
  match parts with
  | [] => Ok tp
  | p :: r => bind (ks_assign_tris m (kb_tt p) partInd tp) (fun tp' => ks_assign_parts m r (partInd + 1)%Z tp')
  end.

Definition ks_sp_gen_triparts (shapeTris : list tri) (s : ks_sp) : res ks_sp :=
  (* triParts.clear(); triParts.resize(shapeTris.size(), -1): -1 = in no partition *)
  bind (ks_assign_parts (ks_tri_index shapeTris 0%Z []) (kp_parts s) 0%Z (repeat (-1)%Z (length shapeTris)))
       (fun tp => Ok (ks_mkSP (kp_np s) (kp_parts s) (kp_mapped s) tp)).

(* NiSkinPartition::GenerateTrueTrianglesFromTriParts (Skin.cpp:478-503) *)
Definition ks_pb_clear (p : ks_pb) : ks_pb :=
  ks_mkPB (kb_nv p) (kb_nt p) (kb_nb p) 0 (kb_nw p) (kb_bones p) (kb_hvm p) [] (kb_hvw p) []
          [] true [] [] (kb_hbi p) [] [].

Fixpoint ks_push_tt (parts : list ks_pb) (k : nat) (t : tri) : list ks_pb :=
  match parts, k with
  | [], _ => []
  | p :: r, O => kb_set_tt p (kb_tt p ++ [t]) :: r
  | p :: r, S k' => p :: ks_push_tt r k' t
  end.

Fixpoint ks_distribute (ts : list tri) (tp : list Z) (parts : list ks_pb) : list ks_pb :=
  match ts, tp with
  | t :: ts', pi :: tp' =>
    (* const int partInd = triParts[triInd]; if (partInd >= 0 && partInd < partitionsSize) *)
    if ((0 <=? pi)%Z && (pi <? to_int (vlen parts))%Z)%bool
    then ks_distribute ts' tp' (ks_push_tt parts (Z.to_nat pi) t)
    else ks_distribute ts' tp' parts
  | _, _ => parts
  end.

Definition ks_sp_gen_true (shapeTris : list tri) (s : ks_sp) : ks_sp :=
  if negb (vlen shapeTris =? vlen (kp_tp s)) then s
  else
    let parts1 := map ks_pb_clear (kp_parts s) in
    let parts2 := ks_distribute shapeTris (kp_tp s) parts1 in
    ks_mkSP (kp_np s) (map (fun p => kb_set_nt p (wrap16 (vlen (kb_tt p)))) parts2) (kp_mapped s) (kp_tp s).

(* NiSkinPartition::PrepareTriParts (Skin.cpp:505-510) *)
Definition ks_sp_prepare_triparts (shapeTris : list tri) (s : ks_sp) : res ks_sp :=
  if vlen shapeTris =? vlen (kp_tp s) then Ok s
  else bind (ks_sp_prepare_true s) (ks_sp_gen_triparts shapeTris).

(* NiSkinPartition::DeletePartitions (Skin.cpp:303-318):
   GenerateIndexCollapseMap<uint32_t, uint32_t>(partInds, numPartitions),
   EraseVectorIndices<vector<PartitionBlock>, uint32_t> *)
Definition ks_remap_tp (piMap : list Z) (pi : Z) : res Z :=
  if ((0 <=? pi)%Z && (pi <? to_int (vlen piMap))%Z)%bool then
    match vget piMap (Z.to_N pi) with Some x => Ok x | None => Fault end
  else Ok pi.

Definition ks_sp_delete (partInds : list N) (s : ks_sp) : res ks_sp :=
  if ks_isnil partInds then Ok s
  else
    bind (if negb (ks_isnil (kp_tp s))
          then bind (collapse_model 32 false partInds (kp_np s)) (fun piMap => ks_mapM (ks_remap_tp piMap) (kp_tp s))
          else Ok (kp_tp s)) (fun tp' =>
    bind (erase_model 32 ks_pb0 (kp_parts s) partInds) (fun parts' =>
      Ok (ks_mkSP (ks_wrap32 (vlen parts')) parts' (kp_mapped s) tp'))).

(* NiSkinPartition::RemoveEmptyPartitions (Skin.cpp:320-331); the uint32_t counter stays below
   its bound. Returns the new state, outDeletedIndices and the returned count. *)
Fixpoint ks_empty_indices (parts : list ks_pb) (i : N) : list N :=
  match parts with
  | [] => []
  | p :: r => if kb_nt p =? 0 then i :: ks_empty_indices r (i + 1) else ks_empty_indices r (i + 1)
  end.

Definition ks_sp_remove_empty (s : ks_sp) : res (ks_sp * list N * N) :=
  let del := ks_empty_indices (firstn (N.to_nat (ks_wrap32 (vlen (kp_parts s)))) (kp_parts s)) 0 in
  bind (if negb (ks_isnil del) then ks_sp_delete del s else Ok s) (fun s' =>
    Ok (s', del, ks_wrap32 (vlen del))).

(* ---------------------------------------------------------------------------------------- *)
(* BSDismemberSkinInstance::PartitionInfo = (flags, partID); DeletePartitions (Skin.cpp:549-554) *)
Definition ks_pinfo := (N * N)%type.

Definition ks_dis_delete (partInds : list N) (d : list ks_pinfo) : res (list ks_pinfo) :=
  if ks_isnil partInds then Ok d else erase_model 32 (0, 0) d partInds.

Inductive ks_ver := KOB | KFO3 | KSK | KSSE.

Definition ks_user12 (v : ks_ver) : bool := match v with KSK | KSSE => true | _ => false end.
Definition ks_file20207 (v : ks_ver) : bool := match v with KOB => false | _ => true end.
Definition ks_is_fo3 (v : ks_ver) : bool := match v with KFO3 => true | _ => false end.

(* the shape as far as the partition code looks at it *)
Record ks_shape := ks_mkShape {
  kh_tris : list tri;              (* shape->GetTriangles *)
  kh_hastris : bool;               (* its return value *)
  kh_nv : N;                       (* shape->GetNumVertices() (uint16) *)
  kh_bs : bool                     (* shape->HasType<BSTriShape>() *)
}.

(* skin instance with its NiSkinPartition, the dismember list when the instance is a
   BSDismemberSkinInstance, and NiSkinData::bones[].vertexWeights as (vertex, weight) lists *)
Record ks_skin := ks_mkSkin {
  kk_sp : ks_sp;
  kk_dis : option (list ks_pinfo);
  kk_bones : list (list (N * Q))
}.

Definition ks_default_info (v : ks_ver) : ks_pinfo := (1, if ks_user12 v then 32 else 0).

(* while (info.size() < n) info.push_back(pi); *)
Definition ks_pad_info (v : ks_ver) (info : list ks_pinfo) (n : N) : list ks_pinfo :=
  info ++ repeat (ks_default_info v) (N.to_nat n - length info).

(* NifFile::UpdatePartitionFlags (NifFile.cpp:4436-4466) *)
Definition ks_list_eqb (a b : list N) : bool :=
  ((vlen a =? vlen b) && forallb (fun xy => fst xy =? snd xy) (combine a b))%bool.

Fixpoint ks_flags_loop (v : ks_ver) (parts : list ks_pb) (d : list ks_pinfo) (i : N) : res (list ks_pinfo) :=
  match d with
  | [] => Ok []
  | (_, pid) :: r =>
    let vis := if ks_is_fo3 v then (if ((pid <? 100) || (1000 <=? pid))%bool then 1 else 0) else 1 in
    bind (if negb (i =? 0) then
            match vget parts i, vget parts (i - 1) with
            | Some a, Some b => Ok (if ks_list_eqb (kb_bones a) (kb_bones b) then 0 else 256)
            | _, _ => Fault
            end
          else Ok 256) (fun net =>
    bind (ks_flags_loop v parts r (i + 1)) (fun r' => Ok ((vis + net, pid) :: r')))
  end.

Definition ks_update_flags (v : ks_ver) (k : ks_skin) : res ks_skin :=
  match kk_dis k with
  | None => Ok k
  | Some d => bind (ks_flags_loop v (kp_parts (kk_sp k)) d 0) (fun d' => Ok (ks_mkSkin (kk_sp k) (Some d') (kk_bones k)))
  end.

(* NifFile::GetShapePartitions (NifFile.cpp:2884-2919): returns (partitionInfo, triParts) and the
   state (PrepareTriParts may fill in triParts and trueTriangles) *)
Definition ks_nf_get (v : ks_ver) (sh : ks_shape) (k : ks_skin) : res (list ks_pinfo * list Z * ks_skin) :=
  let info0 := match kk_dis k with Some d => d | None => [] end in
  bind (ks_sp_prepare_triparts (kh_tris sh) (kk_sp k)) (fun s' =>
    Ok (ks_pad_info v info0 (vlen (kp_parts s')), kp_tp s', ks_mkSkin s' (kk_dis k) (kk_bones k))).

(* NifFile::SetShapePartitions (NifFile.cpp:2921-2989) *)
Fixpoint ks_count_parts (tp : list Z) (numParts : N) (unassigned : bool) : res (N * bool) :=
  match tp with
  | [] => Ok (numParts, unassigned)
  | pi :: r =>
    bind (if (to_int numParts <=? pi)%Z
          then (if (pi + 1 <? 2147483648)%Z then Ok (ks_to_u32 (pi + 1)) else Fault)   (* int overflow *)
          else Ok numParts) (fun np' =>
      ks_count_parts r np' (if (pi <? 0)%Z then true else unassigned))
  end.

Definition ks_nf_set (v : ks_ver) (sh : ks_shape) (info : list ks_pinfo) (tp : list Z) (conv : bool)
                     (k : ks_skin) : res ks_skin :=
  bind (ks_count_parts tp (ks_wrap32 (vlen info)) false) (fun cu =>
    let numParts := if snd cu then ks_wrap32 (fst cu + 1) else fst cu in
    let tp1 := if snd cu then map (fun pi => if (pi <? 0)%Z then (to_int numParts - 1)%Z else pi) tp else tp in
    let parts1 := map (fun p => kb_set_hvm p true) (vresize ks_pb0 (kp_parts (kk_sp k)) numParts) in
    let s1 := ks_sp_gen_true (kh_tris sh) (ks_mkSP numParts parts1 (kp_mapped (kk_sp k)) tp1) in
    let dis0 := match kk_dis k with
                | Some d => Some d
                | None => if (conv && ks_file20207 v)%bool then Some [] else None
                end in
    let dis1 := match dis0 with
                | Some _ => Some (ks_pad_info v info numParts)
                | None => None
                end in
    Ok (ks_mkSkin s1 dis1 (kk_bones k))).

(* NifFile::SetDefaultPartition (NifFile.cpp:2991-3039) *)
Definition ks_nseq (n : N) : list N := map N.of_nat (seq 0 (N.to_nat n)).

Definition ks_nf_set_default (v : ks_ver) (sh : ks_shape) (k : ks_skin) : ks_skin :=
  let mapped := negb (kh_bs sh) in
  let dis1 := match kk_dis k with Some _ => Some [ks_default_info v] | None => None end in
  let nv := kh_nv sh in
  (* NiSkinPartition::PartitionBlock part; part.hasFaces = true; *)
  let p0 := ks_mkPB 0 0 0 0 0 [] false [] false [] [] true [] [] false [] [] in
  let p1 := if 0 <? nv then kb_set_vm (kb_set_nv (kb_set_hvm p0 true) nv) (ks_nseq (wrap16 nv)) else p0 in
  let p2 := if negb (ks_isnil (kh_tris sh)) then
              let p := kb_set_tt (kb_set_nt p1 (wrap16 (vlen (kh_tris sh)))) (kh_tris sh) in
              if negb mapped then kb_set_tris p (kh_tris sh) else p
            else p1 in
  ks_mkSkin (ks_mkSP 1 [p2] mapped []) dis1 (kk_bones k).

(* NifFile::DeletePartitions (NifFile.cpp:3041-3060) *)
Definition ks_nf_delete (v : ks_ver) (partInds : list N) (k : ks_skin) : res ks_skin :=
  bind (ks_sp_delete partInds (kk_sp k)) (fun s' =>
    match kk_dis k with
    | None => Ok (ks_mkSkin s' None (kk_bones k))
    | Some d => bind (ks_dis_delete partInds d) (fun d' => ks_update_flags v (ks_mkSkin s' (Some d') (kk_bones k)))
    end).

(* NifFile::RemoveEmptyPartitions (NifFile.cpp:4103-4121) *)
Definition ks_nf_remove_empty (v : ks_ver) (k : ks_skin) : res ks_skin :=
  bind (ks_sp_remove_empty (kk_sp k)) (fun r =>
    let '(s', del, cnt) := r in
    if negb (cnt =? 0) then
      match kk_dis k with
      | None => Ok (ks_mkSkin s' None (kk_bones k))
      | Some d => bind (ks_dis_delete del d) (fun d' => ks_update_flags v (ks_mkSkin s' (Some d') (kk_bones k)))
      end
    else Ok (ks_mkSkin s' (kk_dis k) (kk_bones k))).

(* ---------------------------------------------------------------------------------------- *)
(* NifFile::UpdateSkinPartitions (NifFile.cpp:4264-4434) *)

(* vertBoneWeights: std::unordered_map<uint16_t, std::vector<SkinWeight>> as an association list *)
Definition ks_vbw := list (N * list (N * Q)).

Fixpoint ks_vbw_push (m : ks_vbw) (key : N) (x : N * Q) : ks_vbw :=
  match m with
  | [] => [(key, [x])]
  | (k', l) :: r => if key =? k' then (k', l ++ [x]) :: r else (k', l) :: ks_vbw_push r key x
  end.

Fixpoint ks_vbw_get (m : ks_vbw) (key : N) : list (N * Q) :=
  match m with
  | [] => []
  | (k', l) :: r => if key =? k' then l else ks_vbw_get r key
  end.

Fixpoint ks_vbw_bone (m : ks_vbw) (boneIndex : N) (ws : list (N * Q)) : ks_vbw :=
  match ws with
  | [] => m
  | (vi, w) :: r => ks_vbw_bone (ks_vbw_push m vi (boneIndex, w)) boneIndex r
  end.

(* uint16_t boneIndex = 0; for (bone : bones) { ...; boneIndex++; } *)
Fixpoint ks_vbw_bones (m : ks_vbw) (boneIndex : N) (bones : list (list (N * Q))) : ks_vbw :=
  match bones with
  | [] => m
  | b :: r => ks_vbw_bones (ks_vbw_bone m boneIndex b) (wrap16 (boneIndex + 1)) r
  end.

(* sort(..., BoneWeightsSort()): descending weight. libstdc++'s std::sort is a (stable)
   insertion sort up to 16 elements; above that the order among EQUAL weights is not modelled. *)
Definition ks_qlt (a b : Q) : bool := negb (Qle_bool b a).

Fixpoint ks_ins (x : N * Q) (l : list (N * Q)) : list (N * Q) :=
  match l with
  | [] => [x]
  | y :: r => if ks_qlt (snd y) (snd x) then x :: l else y :: ks_ins x r
  end.

Definition ks_sort (l : list (N * Q)) : list (N * Q) := fold_left (fun acc x => ks_ins x acc) l [].

(* sort every entry, then resize(4) the longer ones *)
Definition ks_vbw_final (bones : list (list (N * Q))) : ks_vbw :=
  map (fun kl => (fst kl, firstn 4 (ks_sort (snd kl)))) (ks_vbw_bones [] 0 bones).

(* std::set<int> as a strictly ascending list *)
Fixpoint ks_set_add (x : N) (s : list N) : list N :=
  match s with
  | [] => [x]
  | y :: r => if x <? y then x :: s else if x =? y then s else y :: ks_set_add x r
  end.

Definition ks_set_union (s : list N) (xs : list N) : list N := fold_left (fun acc x => ks_set_add x acc) xs s.

Definition ks_memb (x : N) (s : list N) : bool := existsb (N.eqb x) s.

Definition ks_tri_bones (m : ks_vbw) (t : tri) : list N :=
  let '(p1, p2, p3) := t in
  ks_set_union [] (map fst (ks_vbw_get m p1) ++ map fst (ks_vbw_get m p2) ++ map fst (ks_vbw_get m p3)).

Definition ks_insert_at {A} (l : list A) (i : N) (x : A) : list A :=
  firstn (N.to_nat i) l ++ x :: skipn (N.to_nat i) l.

(* renumbering loop of the split (NifFile.cpp:4346-4348) *)
Fixpoint ks_renumber (tp : list Z) (j : N) (triIndex : N) (partInd : Z) : list Z :=
  match tp with
  | [] => []
  | pj :: r =>
    (if ((partInd <? pj)%Z || ((triIndex <=? j) && (partInd <=? pj)%Z))%bool then (pj + 1)%Z else pj)
    :: ks_renumber r (j + 1) triIndex partInd
  end.

Definition ks_split_state := (list Z * list (list N) * option (list ks_pinfo))%type.

Definition ks_max_bones (v : ks_ver) : N :=
  match v with KOB | KFO3 => 18 | KSSE => 80 | KSK => 65535 end.

(* one iteration of the loop NifFile.cpp:4324-4363 *)
Definition ks_split_step (maxb : N) (m : ks_vbw) (tri : tri) (triIndex : N) (st : ks_split_state)
  : res ks_split_state :=
  let '(tp, pbs, dis) := st in
  match vget tp triIndex with
  | None => Fault
  | Some partInd =>
    if (partInd <? 0)%Z then Ok st
    else
      let triBones := ks_tri_bones m tri in
      match vget pbs (Z.to_N partInd) with
      | None => Fault
      | Some pb =>
        let newBoneCount := wrap16 (vlen (filter (fun tb => negb (ks_memb tb pb)) triBones)) in
        bind (if maxb <? wrap16 (vlen pb) + newBoneCount then
                let tp' := ks_renumber tp 0 triIndex partInd in
                let pbs' := ks_insert_at pbs (Z.to_N partInd + 1) [] in
                bind (match dis with
                      | None => Ok None
                      | Some d =>
                        match vget d (Z.to_N partInd) with
                        | None => Fault
                        | Some inf => Ok (Some (ks_insert_at d (Z.to_N partInd + 1) (1, snd inf)))
                        end
                      end) (fun dis' => Ok (tp', pbs', dis', (partInd + 1)%Z))
              else Ok (tp, pbs, dis, partInd)) (fun r =>
          let '(tp1, pbs1, dis1, partInd1) := r in
          match vget pbs1 (Z.to_N partInd1) with
          | None => Fault
          | Some pb1 =>
            match vset pbs1 (Z.to_N partInd1) (ks_set_union pb1 triBones) with
            | None => Fault
            | Some pbs2 => Ok (tp1, pbs2, dis1)
            end
          end)
      end
  end.

Fixpoint ks_split_loop (maxb : N) (m : ks_vbw) (tris : list tri) (triIndex : N) (st : ks_split_state)
  : res ks_split_state :=
  match tris with
  | [] => Ok st
  | t :: r => bind (ks_split_step maxb m t triIndex st) (fun st' => ks_split_loop maxb m r (triIndex + 1) st')
  end.

(* boneLookup[b] = static_cast<uint8_t>(part.bones.size() - 1); a missing key reads as 0 *)
Fixpoint ks_bone_pos (bones : list N) (b : N) (i : N) : N :=
  match bones with
  | [] => 0
  | x :: r => if x =? b then ks_wrap8 i else ks_bone_pos r b (i + 1)
  end.

Definition ks_qsum (l : list Q) : Q := fold_left Qplus l (0 # 1)%Q.

Definition ks_pad4 {A} (d : A) (l : list A) : list A := firstn 4 l ++ repeat d (4 - length l).

(* per-vertex slots: bone indices and (normalised) weights (NifFile.cpp:4399-4422) *)
Definition ks_vertex_slots (bones : list N) (ws : list (N * Q)) : list N * list Q :=
  let ws4 := firstn 4 ws in
  let bi := ks_pad4 0 (map (fun bw => ks_bone_pos bones (fst bw) 0) ws4) in
  let pw := ks_pad4 (0 # 1)%Q (map snd ws4) in
  let tot := ks_qsum (map snd ws4) in
  (bi, if Qeq_bool tot (0 # 1)%Q then pw else map (fun w => Qred (w / tot)%Q) pw).

Definition ks_fill_part (m : ks_vbw) (pbones : list N) (p : ks_pb) : ks_pb :=
  let bones := map wrap16 pbones in
  let slots := map (fun vtx => ks_vertex_slots bones (ks_vbw_get m vtx)) (kb_vm p) in
  ks_mkPB (kb_nv p) (kb_nt p) (wrap16 (vlen pbones)) (kb_ns p) (kb_nw p) (kb_bones p ++ bones) (kb_hvm p) (kb_vm p)
          (kb_hvw p) (kb_vw p ++ map snd slots) (kb_slens p) (kb_hf p) (kb_strips p) (kb_tris p)
          (kb_hbi p) (kb_bi p ++ map fst slots) (kb_tt p).

(* for (partInd = 0; partInd < skinPart->numPartitions; ++partInd): partitions[partInd], partBones[partInd] *)
Fixpoint ks_fill_parts (m : ks_vbw) (n : nat) (i : N) (parts : list ks_pb) (pbs : list (list N)) : res (list ks_pb) :=
  match n with
  | O => Ok parts
  | S n' =>
    match vget parts i, vget pbs i with
    | Some p, Some pb =>
      match vset parts i (ks_fill_part m pb p) with
      | None => Fault
      | Some parts' => ks_fill_parts m n' (i + 1) parts' pbs
      end
    | _, _ => Fault
    end
  end.

Definition ks_new_part : ks_pb :=
  ks_mkPB 0 0 0 0 4 [] true [] true [] [] true [] [] true [] [].

Definition ks_nf_update (v : ks_ver) (sh : ks_shape) (k : ks_skin) : res ks_skin :=
  if negb (kh_hastris sh) then Ok k
  else
    let tris := map ks_rot (kh_tris sh) in
    let m := ks_vbw_final (kk_bones k) in
    bind (ks_sp_prepare_triparts tris (kk_sp k)) (fun s0 =>
    bind (ks_split_loop (ks_max_bones v) m tris 0
                        (kp_tp s0, repeat [] (length (kp_parts s0)), kk_dis k)) (fun st =>
      let '(tp, pbs, dis) := st in
      let s1 := ks_mkSP (ks_wrap32 (vlen pbs)) (repeat ks_new_part (length pbs)) (kp_mapped s0) tp in
      bind (ks_sp_prepare_vmaps (ks_sp_gen_true tris s1)) (fun s2 =>
      bind (ks_fill_parts m (N.to_nat (kp_np s2)) 0 (kp_parts s2) pbs) (fun parts3 =>
        ks_update_flags v (ks_mkSkin (ks_mkSP (kp_np s2) parts3 (kp_mapped s2) (kp_tp s2)) dis (kk_bones k)))))).

(* ---------------------------------------------------------------------------------------- *)
(* a history of operations, for the oracle *)
Inductive ks_op :=
| KUpdate
| KGet
| KSet (info : list ks_pinfo) (tp : list Z) (conv : bool)
| KDefault
| KDelete (partInds : list N)
| KRemoveEmpty
| KResizeDis (n : N).           (* not an API call: the dismember list a loaded file may carry *)

Definition ks_step (v : ks_ver) (sh : ks_shape) (o : ks_op) (k : ks_skin)
  : res (option (list ks_pinfo * list Z) * ks_skin) :=
  match o with
  | KUpdate => bind (ks_nf_update v sh k) (fun k' => Ok (None, k'))
  | KGet => bind (ks_nf_get v sh k) (fun r => Ok (Some (fst (fst r), snd (fst r)), snd r))
  | KSet info tp conv => bind (ks_nf_set v sh info tp conv k) (fun k' => Ok (None, k'))
  | KDefault => Ok (None, ks_nf_set_default v sh k)
  | KDelete l => bind (ks_nf_delete v l k) (fun k' => Ok (None, k'))
  | KRemoveEmpty => bind (ks_nf_remove_empty v k) (fun k' => Ok (None, k'))
  | KResizeDis n =>
    Ok (None, ks_mkSkin (kk_sp k) (match kk_dis k with Some d => Some (vresize (0, 0) d n) | None => None end) (kk_bones k))
  end.
