(* Small list / vector lemmas used by the skin-partition proofs. *)
From NiflyVerif Require Import Res UtilModel UtilSpec CompactProofs EraseProofs SkinModel.
From Coq Require Import ZifyBool ZifyNat ZifyN Permutation.
Local Open Scope N_scope.

(* ---- vget / vset ---- *)
Lemma ks_vget_nth {A} (v : list A) (i : N) : vget v i = nth_error v (N.to_nat i).
Proof. reflexivity. Qed.

Lemma ks_vget_lt {A} (v : list A) (i : N) : i < vlen v -> exists x, vget v i = Some x.
Proof.
  intros H. unfold vget. destruct (nth_error v (N.to_nat i)) eqn:E; [eauto|].
  apply nth_error_None in E. unfold vlen in H. lia.
Qed.

Lemma ks_nth_error_upd {A} (v : list A) (n : nat) (x : A) (k : nat) :
  (n < length v)%nat ->
  nth_error (firstn n v ++ x :: skipn (S n) v) k = if Nat.eqb k n then Some x else nth_error v k.
Proof.
  revert v k. induction n as [|n IH]; intros [|a v] k Hn; cbn [length] in Hn; try lia.
  - cbn [firstn skipn app]. destruct k; reflexivity.
  - cbn [firstn skipn app]. destruct k as [|k]; [reflexivity|].
    cbn [nth_error Nat.eqb]. apply IH. lia.
Qed.

Lemma ks_vset_some {A} (v : list A) (i : N) (x : A) :
  i < vlen v ->
  exists v', vset v i x = Some v' /\ length v' = length v /\ vget v' i = Some x /\
             (forall j, j <> i -> vget v' j = vget v j).
Proof.
  intros H. unfold vset. fold (vlen v). destruct (N.ltb_spec i (vlen v)) as [_|Hc]; [|lia].
  eexists; split; [reflexivity|].
  assert (Hn : (N.to_nat i < length v)%nat) by (unfold vlen in H; lia).
  split; [|split].
  - rewrite app_length. cbn [length]. rewrite firstn_length_le, skipn_length by lia. lia.
  - unfold vget. rewrite ks_nth_error_upd by exact Hn. rewrite Nat.eqb_refl. reflexivity.
  - intros j Hj. unfold vget. rewrite ks_nth_error_upd by exact Hn.
    destruct (Nat.eqb_spec (N.to_nat j) (N.to_nat i)); [lia|reflexivity].
Qed.

Lemma ks_vset_inv {A} (v v' : list A) (i : N) (x : A) :
  vset v i x = Some v' ->
  i < vlen v /\ length v' = length v /\ vget v' i = Some x /\ (forall j, j <> i -> vget v' j = vget v j).
Proof.
  intros H. destruct (N.ltb_spec i (vlen v)) as [Hlt|Hge].
  - destruct (ks_vset_some v i x Hlt) as (v1 & E & R). rewrite E in H. inversion H; subst. auto.
  - rewrite vset_none in H by exact Hge. discriminate.
Qed.

Lemma ks_vlen_length {A} (a b : list A) : length a = length b -> vlen a = vlen b.
Proof. unfold vlen. intros ->. reflexivity. Qed.

(* ---- vresize ---- *)
Lemma ks_vresize_length {A} (d : A) (v : list A) (n : N) : length (vresize d v n) = N.to_nat n.
Proof.
  unfold vresize. rewrite app_length, repeat_length, firstn_length. lia.
Qed.

Lemma ks_vresize_get {A} (d : A) (v : list A) (n i : N) :
  i < vlen v -> vlen v <= n -> vget (vresize d v n) i = vget v i.
Proof.
  intros Hi Hn. unfold vresize, vget. unfold vlen in *.
  rewrite firstn_all2 by lia. rewrite nth_error_app1 by lia. reflexivity.
Qed.

Lemma ks_vresize_grow {A} (d : A) (v : list A) (n : N) :
  vlen v <= n -> vresize d v n = v ++ repeat d (N.to_nat n - length v).
Proof. intros H. unfold vresize. unfold vlen in H. rewrite firstn_all2 by lia. reflexivity. Qed.

(* ---- mapM ---- *)
Lemma ks_mapM_ok {A B} (f : A -> res B) (g : A -> B) (l : list A) :
  (forall x, In x l -> f x = Ok (g x)) -> ks_mapM f l = Ok (map g l).
Proof.
  induction l as [|x l IH]; intros H; cbn; [reflexivity|].
  rewrite H by (left; reflexivity). cbn. rewrite IH by (intros; apply H; right; assumption). reflexivity.
Qed.

Lemma ks_mapM_rel {A B} (f : A -> res B) (R : A -> B -> Prop) (l : list A) :
  (forall x, In x l -> exists y, f x = Ok y /\ R x y) ->
  exists ys, ks_mapM f l = Ok ys /\ Forall2 R l ys.
Proof.
  induction l as [|x l IH]; intros H; cbn.
  - exists []. split; [reflexivity|constructor].
  - destruct (H x (or_introl eq_refl)) as (y & Hy & Ry). rewrite Hy. cbn.
    destruct IH as (ys & Hys & Rys); [intros; apply H; right; assumption|].
    rewrite Hys. cbn. exists (y :: ys). split; [reflexivity|constructor; assumption].
Qed.

Lemma ks_Forall2_length {A B} (R : A -> B -> Prop) l l' : Forall2 R l l' -> length l = length l'.
Proof. induction 1; cbn; congruence. Qed.

Lemma ks_Forall2_nth {A B} (R : A -> B -> Prop) l l' (da : A) (db : B) :
  Forall2 R l l' -> forall k, (k < length l)%nat -> R (nth k l da) (nth k l' db).
Proof.
  induction 1; intros k Hk; cbn in Hk; [lia|].
  destruct k; cbn; [assumption|apply IHForall2; lia].
Qed.

(* ---- ApplyMapToTriangles when every corner maps ---- *)
Definition ks_corners (ts : list tri) : list N :=
  flat_map (fun t => let '(a, b, c) := t in [a; b; c]) ts.

Lemma ks_corners_app a b : ks_corners (a ++ b) = ks_corners a ++ ks_corners b.
Proof. unfold ks_corners. apply flat_map_app. Qed.

Lemma ks_apply_all_kept (map : list Z) : forall (tris : list tri) pos,
  (forall c, In c (ks_corners tris) -> exists m, nth_error map (N.to_nat c) = Some m /\ (0 <= m)%Z) ->
  apply_map_from pos tris map =
  (List.map (fun t => let '(a, b, c) := t in
     (store16 (nth (N.to_nat a) map 0%Z), store16 (nth (N.to_nat b) map 0%Z), store16 (nth (N.to_nat c) map 0%Z))) tris, []).
Proof.
  induction tris as [|[[a b] c] tris IH]; intros pos H; cbn [apply_map_from List.map]; [reflexivity|].
  rewrite IH by (intros x Hx; apply H; cbn [ks_corners flat_map]; cbn; tauto).
  assert (Ha : exists m, nth_error map (N.to_nat a) = Some m /\ (0 <= m)%Z) by (apply H; cbn; tauto).
  assert (Hb : exists m, nth_error map (N.to_nat b) = Some m /\ (0 <= m)%Z) by (apply H; cbn; tauto).
  assert (Hc : exists m, nth_error map (N.to_nat c) = Some m /\ (0 <= m)%Z) by (apply H; cbn; tauto).
  destruct Ha as (ma & Ea & La), Hb as (mb & Eb & Lb), Hc as (mc & Ec & Lc).
  unfold map_tri, map_corner. rewrite Ea, Eb, Ec.
  destruct (Z.ltb_spec ma 0); [lia|]. destruct (Z.ltb_spec mb 0); [lia|]. destruct (Z.ltb_spec mc 0); [lia|].
  rewrite (nth_error_nth _ _ _ Ea), (nth_error_nth _ _ _ Eb), (nth_error_nth _ _ _ Ec). reflexivity.
Qed.

(* ---- Triangle::rot is one of the three cyclic rotations ---- *)
Definition ks_rotl (t : tri) : tri := let '(a, b, c) := t in (b, c, a).

Definition ks_rot_equiv (a b : tri) : Prop := b = a \/ b = ks_rotl a \/ b = ks_rotl (ks_rotl a).

Lemma ks_rot_cases t : ks_rot t = t \/ ks_rot t = ks_rotl t \/ ks_rot t = ks_rotl (ks_rotl t).
Proof.
  destruct t as [[a b] c]. unfold ks_rot, ks_rotl.
  destruct ((b <? a) && (b <? c))%bool; [right; left; reflexivity|].
  destruct (c <? a); [right; right; reflexivity|left; reflexivity].
Qed.

Lemma ks_rot_equiv_refl t : ks_rot_equiv t t.
Proof. left. reflexivity. Qed.

Lemma ks_rot_equiv_sym a b : ks_rot_equiv a b -> ks_rot_equiv b a.
Proof.
  destruct a as [[a1 a2] a3]. unfold ks_rot_equiv, ks_rotl.
  intros [-> | [-> | ->]]; [left|right; right|right; left]; reflexivity.
Qed.

Lemma ks_rot_equiv_trans a b c : ks_rot_equiv a b -> ks_rot_equiv b c -> ks_rot_equiv a c.
Proof.
  destruct a as [[a1 a2] a3]. unfold ks_rot_equiv, ks_rotl.
  intros [-> | [-> | ->]] [-> | [-> | ->]]; cbn; tauto.
Qed.

Lemma ks_rot_equiv_rot t : ks_rot_equiv t (ks_rot t).
Proof. unfold ks_rot_equiv. destruct (ks_rot_cases t) as [-> | [-> | ->]]; tauto. Qed.

(* mapping the corners commutes with rotation *)
Definition ks_map_tri (f : N -> N) (t : tri) : tri := let '(a, b, c) := t in (f a, f b, f c).

Lemma ks_map_tri_rotl f t : ks_map_tri f (ks_rotl t) = ks_rotl (ks_map_tri f t).
Proof. destruct t as [[a b] c]. reflexivity. Qed.

Lemma ks_map_tri_equiv f a b : ks_rot_equiv a b -> ks_rot_equiv (ks_map_tri f a) (ks_map_tri f b).
Proof.
  unfold ks_rot_equiv. intros [-> | [-> | ->]]; rewrite ?ks_map_tri_rotl; tauto.
Qed.

Lemma ks_corners_rot_in t x : In x (ks_corners [ks_rot t]) <-> In x (ks_corners [t]).
Proof.
  destruct t as [[a b] c].
  destruct (ks_rot_cases (a, b, c)) as [E|[E|E]]; rewrite E; cbn; tauto.
Qed.

Lemma ks_corners_map_rot ts x : In x (ks_corners (map ks_rot ts)) <-> In x (ks_corners ts).
Proof.
  induction ts as [|t ts IH]; [tauto|].
  change (map ks_rot (t :: ts)) with ([ks_rot t] ++ map ks_rot ts).
  change (t :: ts) with ([t] ++ ts).
  rewrite !ks_corners_app, !in_app_iff, IH, ks_corners_rot_in. tauto.
Qed.

(* ---- CalcMaxTriangleIndex bounds every corner ---- *)
Lemma ks_max_fold_ge (v : list tri) : forall m0,
  m0 <= fold_left (fun m t => let '(p1, p2, p3) := t in N.max (N.max (N.max m p1) p2) p3) v m0.
Proof.
  induction v as [|[[a b] c] v IH]; intros m0; cbn [fold_left]; [lia|].
  etransitivity; [|apply IH]. lia.
Qed.

Lemma ks_max_tri_index_ge (v : list tri) x : In x (ks_corners v) -> x <= max_tri_index v.
Proof.
  unfold max_tri_index. generalize 0 as m0. induction v as [|[[a b] c] v IH]; intros m0 H; [destruct H|].
  cbn [fold_left]. change ((a, b, c) :: v) with ([(a, b, c)] ++ v) in H.
  rewrite ks_corners_app, in_app_iff in H. destruct H as [H|H].
  - pose proof (ks_max_fold_ge v (N.max (N.max (N.max m0 a) b) c)) as G.
    cbn in H. destruct H as [<- | [<- | [<- | []]]]; lia.
  - apply IH. exact H.
Qed.

Lemma ks_max_tri_index_lt (v : list tri) (bnd : N) :
  0 < bnd -> (forall x, In x (ks_corners v) -> x < bnd) -> max_tri_index v < bnd.
Proof.
  unfold max_tri_index. intros Hb. assert (H0 : 0 < bnd) by exact Hb. revert H0. generalize 0 as m0.
  induction v as [|[[a b] c] v IH]; intros m0 Hm H; cbn [fold_left]; [exact Hm|].
  apply IH.
  - assert (a < bnd) by (apply H; cbn; tauto). assert (b < bnd) by (apply H; cbn; tauto).
    assert (c < bnd) by (apply H; cbn; tauto). lia.
  - intros x Hx. apply H. change ((a, b, c) :: v) with ([(a, b, c)] ++ v).
    rewrite ks_corners_app, in_app_iff. right. exact Hx.
Qed.
