(* GenerateTriPartsFromTrueTriangles (repaired version), exact form: the regenerated triParts is
   determined entry by entry. For a shape triangle t (class c = its rotation-normal form) at
   position i, let k = number of copies of c before position i in the shape, and let
   [ks_holders c parts] = the partition indices that hold c, in partition order, each repeated as
   often as the partition holds c. Then
       triParts[i] = the k-th entry of that list, or -1 when there are at most k entries:
   the k-th copy goes to the k-th holder. Everything SkinTriPartsProofs.v proves about the
   regenerated triParts (range, -1 for unheld, counting) follows from this; new consequence: a copy
   that still finds a holder ("k < held") is assigned, and to a partition that holds it. *)
From NiflyVerif Require Import Res UtilModel UtilSpec CompactProofs EraseProofs SkinModel SkinLib
  SkinPartsProofs SkinTriPartsProofs.
From Coq Require Import ZifyBool ZifyNat ZifyN.
Local Open Scope N_scope.

(* who claimed class c, in claim order *)
Definition ks_claimers (c : tri) (L : list (tri * Z)) : list Z :=
  map snd (filter (fun cl => ks_tri_eqb (fst cl) c) L).

Lemma ks_claimers_app c L1 L2 : ks_claimers c (L1 ++ L2) = ks_claimers c L1 ++ ks_claimers c L2.
Proof. unfold ks_claimers. rewrite filter_app, map_app. reflexivity. Qed.

(* the specification: walk the shape, [pre] = the triangles already passed *)
Fixpoint ks_exact_tp (pre ts : list tri) (L : list (tri * Z)) : list Z :=
  match ts with
  | [] => []
  | t :: r => nth (ks_shape_copies (ks_rot t) pre) (ks_claimers (ks_rot t) L) (-1)%Z :: ks_exact_tp (pre ++ [t]) r L
  end.

Lemma ks_exact_tp_length : forall ts pre L, length (ks_exact_tp pre ts L) = length ts.
Proof. induction ts as [|t r IH]; intros pre L; cbn [ks_exact_tp length]; [reflexivity|]. rewrite IH. reflexivity. Qed.

Lemma ks_shape_copies_snoc c pre t :
  ks_shape_copies c (pre ++ [t]) = (ks_shape_copies c pre + (if ks_tri_eqb (ks_rot t) c then 1 else 0))%nat.
Proof.
  unfold ks_shape_copies. rewrite filter_app, app_length. cbn [filter]. destruct (ks_tri_eqb (ks_rot t) c); cbn [length]; lia.
Qed.

Lemma ks_shape_copies_mono c pre t : (ks_shape_copies c pre <= ks_shape_copies c (pre ++ [t]))%nat.
Proof. rewrite ks_shape_copies_snoc. lia. Qed.

(* one more claim for class c does not change the entries of the copies that come after the
   (number of claims so far + 1)-th copy, nor those of other classes *)
Lemma ks_exact_tp_late c pi : forall ts pre L,
  (length (ks_claimers c L) < ks_shape_copies c pre)%nat ->
  ks_exact_tp pre ts (L ++ [(c, pi)]) = ks_exact_tp pre ts L.
Proof.
  induction ts as [|t r IH]; intros pre L Hlt; cbn [ks_exact_tp]; [reflexivity|].
  rewrite IH by (pose proof (ks_shape_copies_mono c pre t); lia).
  apply (f_equal (fun x => x :: ks_exact_tp (pre ++ [t]) r L)).
  rewrite ks_claimers_app. unfold ks_claimers at 2. cbn [filter fst].
  destruct (ks_tri_eqb_spec c (ks_rot t)) as [<-|Hne]; cbn [map snd]; [|rewrite app_nil_r; reflexivity].
  rewrite app_nth2 by (clear -Hlt; lia). remember (ks_shape_copies c pre - length (ks_claimers c L))%nat as d eqn:Ed.
  destruct d as [|d]; [clear -Hlt Ed; lia|]. rewrite (nth_overflow (ks_claimers c L)) by (clear -Hlt; lia).
  cbn [nth]. destruct d; reflexivity.
Qed.

Lemma ks_claimers_nonneg c L : (forall cl, In cl L -> (0 <= snd cl)%Z) -> Forall (fun j => (0 <= j)%Z) (ks_claimers c L).
Proof.
  intros H. apply Forall_forall. intros j Hj. unfold ks_claimers in Hj. apply in_map_iff in Hj.
  destruct Hj as (cl & <- & Hcl). apply filter_In in Hcl. apply H. tauto.
Qed.

(* one claim *)
Lemma ks_claim_exact c pi : (0 <= pi)%Z -> forall ts pre L,
  (forall cl, In cl L -> (0 <= snd cl)%Z) ->
  (ks_shape_copies c pre <= length (ks_claimers c L))%nat ->
  ks_claim_spec ts (ks_exact_tp pre ts L) c pi = ks_exact_tp pre ts (L ++ [(c, pi)]).
Proof.
  intros Hpi. induction ts as [|t r IH]; intros pre L Hpos Hle; cbn [ks_exact_tp ks_claim_spec]; [reflexivity|].
  pose proof (ks_claimers_nonneg (ks_rot t) L Hpos) as Hnn.
  destruct (ks_tri_eqb_spec (ks_rot t) c) as [Ec|Ec]; cbn [andb].
  - rewrite Ec in *. set (k := ks_shape_copies c pre) in *. set (H := ks_claimers c L) in *.
    destruct (Nat.lt_ge_cases k (length H)) as [Hk|Hk].
    + (* this copy has been claimed before *)
      assert (Hv : (0 <= nth k H (-1))%Z).
      { rewrite Forall_forall in Hnn. apply Hnn. apply nth_In. exact Hk. }
      destruct (Z.ltb_spec (nth k H (-1)%Z) 0) as [Hc|_]; [lia|].
      rewrite IH; [|exact Hpos|rewrite ks_shape_copies_snoc, Ec, ks_tri_eqb_refl; fold k H; lia].
      apply (f_equal (fun x => x :: _)). rewrite ks_claimers_app. fold H. rewrite app_nth1 by exact Hk. reflexivity.
    + (* the first free copy *)
      assert (Hkeq : k = length H) by lia.
      rewrite (nth_overflow H) by lia. cbn [Z.ltb Z.compare].
      rewrite ks_exact_tp_late by (rewrite ks_shape_copies_snoc, Ec, ks_tri_eqb_refl; fold k H; lia).
      apply (f_equal (fun x => x :: _)). rewrite ks_claimers_app. fold H. unfold ks_claimers at 1. cbn [filter fst]. rewrite ks_tri_eqb_refl. cbn [map snd].
      rewrite app_nth2 by lia. rewrite Hkeq, Nat.sub_diag. reflexivity.
  - rewrite IH; [|exact Hpos|].
    2:{ rewrite ks_shape_copies_snoc. destruct (ks_tri_eqb_spec (ks_rot t) c); [contradiction|]. lia. }
    apply (f_equal (fun x => x :: _)). rewrite ks_claimers_app. unfold ks_claimers at 3. cbn [filter fst].
    destruct (ks_tri_eqb_spec c (ks_rot t)) as [E|_]; [symmetry in E; contradiction|]. cbn [map]. rewrite app_nil_r. reflexivity.
Qed.

(* a whole run of claims *)
Lemma ks_run_claims_exact ts : forall L2 L1,
  (forall cl, In cl (L1 ++ L2) -> (0 <= snd cl)%Z) ->
  ks_run_claims ts L2 (ks_exact_tp [] ts L1) = ks_exact_tp [] ts (L1 ++ L2).
Proof.
  induction L2 as [|[c pi] L2 IH]; intros L1 Hpos; [rewrite app_nil_r; reflexivity|].
  change (ks_run_claims ts ((c, pi) :: L2) (ks_exact_tp [] ts L1))
    with (ks_run_claims ts L2 (ks_claim_spec ts (ks_exact_tp [] ts L1) c pi)).
  rewrite ks_claim_exact.
  - replace (L1 ++ (c, pi) :: L2) with ((L1 ++ [(c, pi)]) ++ L2) by (rewrite <- app_assoc; reflexivity).
    apply IH. rewrite <- app_assoc. exact Hpos.
  - apply (Hpos (c, pi)). apply in_or_app. right. left. reflexivity.
  - intros cl Hcl. apply Hpos. apply in_or_app. left. exact Hcl.
  - cbn. lia.
Qed.

Lemma ks_exact_tp_fresh : forall ts pre, ks_exact_tp pre ts [] = repeat (-1)%Z (length ts).
Proof.
  induction ts as [|t r IH]; intros pre; cbn [ks_exact_tp length repeat]; [reflexivity|]. rewrite IH.
  unfold ks_claimers. cbn [filter map]. destruct (ks_shape_copies (ks_rot t) pre); reflexivity.
Qed.

Theorem ks_regen_tp_exact_list (ts : list tri) (parts : list ks_pb) :
  ks_regen_tp ts parts = ks_exact_tp [] ts (ks_claims parts 0%Z).
Proof.
  unfold ks_regen_tp. rewrite <- (ks_exact_tp_fresh ts []).
  rewrite ks_run_claims_exact; [reflexivity|]. cbn [app]. intros cl Hcl. apply (ks_claims_pos parts 0%Z cl); [lia|exact Hcl].
Qed.

(* the claimers in terms of the partitions *)
Definition ks_holders_from (c : tri) (parts : list ks_pb) (i : nat) : list Z :=
  concat (ks_imap (fun j p => repeat (Z.of_nat j) (ks_held_in c p)) i parts).
Definition ks_holders (c : tri) (parts : list ks_pb) : list Z := ks_holders_from c parts 0.

Lemma ks_claimers_const c pi : forall pts,
  ks_claimers c (map (fun pt => (ks_rot pt, pi)) pts) = repeat pi (length (filter (fun pt => ks_tri_eqb (ks_rot pt) c) pts)).
Proof.
  unfold ks_claimers. induction pts as [|pt pts IH]; [reflexivity|]. cbn [map filter fst].
  destruct (ks_tri_eqb (ks_rot pt) c); cbn [map snd length repeat]; rewrite IH; reflexivity.
Qed.

Lemma ks_claimers_claims c : forall parts i, ks_claimers c (ks_claims parts (Z.of_nat i)) = ks_holders_from c parts i.
Proof.
  unfold ks_holders_from. induction parts as [|p parts IH]; intros i; [reflexivity|].
  cbn [ks_claims ks_imap concat]. rewrite ks_claimers_app, ks_claimers_const. f_equal.
  replace (Z.of_nat i + 1)%Z with (Z.of_nat (S i)) by lia. apply IH.
Qed.

Lemma ks_exact_tp_nth L : forall ts pre i t, nth_error ts i = Some t ->
  nth_error (ks_exact_tp pre ts L) i =
  Some (nth (ks_shape_copies (ks_rot t) (pre ++ firstn i ts)) (ks_claimers (ks_rot t) L) (-1)%Z).
Proof.
  induction ts as [|t0 r IH]; intros pre i t Hi; [destruct i; discriminate|].
  destruct i as [|i]; cbn [nth_error ks_exact_tp firstn] in *.
  - inversion Hi; subst t0. rewrite app_nil_r. reflexivity.
  - rewrite (IH (pre ++ [t0]) i t Hi). rewrite <- app_assoc. reflexivity.
Qed.

(* the k-th copy goes to the k-th holder *)
Theorem ks_regen_tp_exact (ts : list tri) (parts : list ks_pb) (i : nat) (t : tri) :
  nth_error ts i = Some t ->
  nth_error (ks_regen_tp ts parts) i =
  Some (nth (ks_shape_copies (ks_rot t) (firstn i ts)) (ks_holders (ks_rot t) parts) (-1)%Z).
Proof.
  intros Hi. rewrite ks_regen_tp_exact_list. rewrite (ks_exact_tp_nth _ ts [] i t Hi). cbn [app].
  change 0%Z with (Z.of_nat 0). rewrite ks_claimers_claims. reflexivity.
Qed.

Lemma ks_holders_from_length c : forall parts i, length (ks_holders_from c parts i) = ks_held c parts.
Proof.
  unfold ks_holders_from, ks_held. induction parts as [|p parts IH]; intros i; [reflexivity|].
  cbn [ks_imap concat map list_sum]. rewrite app_length, repeat_length, IH. reflexivity.
Qed.

Lemma ks_holders_from_in c : forall parts i j, In j (ks_holders_from c parts i) ->
  exists p, (Z.of_nat i <= j)%Z /\ nth_error parts (Z.to_nat j - i) = Some p /\ (0 < ks_held_in c p)%nat.
Proof.
  unfold ks_holders_from. induction parts as [|p parts IH]; intros i j H; [destruct H|].
  cbn [ks_imap concat] in H. apply in_app_or in H. destruct H as [H|H].
  - pose proof (repeat_spec _ _ _ H) as ->. exists p. split; [lia|]. rewrite Nat2Z.id, Nat.sub_diag. split; [reflexivity|].
    destruct (ks_held_in c p); [destruct H|lia].
  - destruct (IH (S i) j H) as (q & Hle & Hn & Hh). exists q. split; [lia|]. split; [|exact Hh].
    replace (Z.to_nat j - i)%nat with (S (Z.to_nat j - S i)) by lia. exact Hn.
Qed.

(* the missing half of "regenerated triParts", pointwise and with multiplicities: the k-th copy of
   a triangle is assigned iff the partitions hold more than k copies, and then to a partition
   holding it; otherwise it is unassigned *)
Theorem ks_regen_tp_held (ts : list tri) (parts : list ks_pb) (i : nat) (t : tri) :
  nth_error ts i = Some t ->
  let k := ks_shape_copies (ks_rot t) (firstn i ts) in
  ((k < ks_held (ks_rot t) parts)%nat ->
     exists j p, nth_error (ks_regen_tp ts parts) i = Some (Z.of_nat j) /\ nth_error parts j = Some p /\
                 (0 < ks_held_in (ks_rot t) p)%nat) /\
  ((ks_held (ks_rot t) parts <= k)%nat -> nth_error (ks_regen_tp ts parts) i = Some (-1)%Z).
Proof.
  intros Hi k. rewrite (ks_regen_tp_exact ts parts i t Hi). fold k. split; intros Hk.
  - assert (Hin : In (nth k (ks_holders (ks_rot t) parts) (-1)%Z) (ks_holders (ks_rot t) parts)).
    { apply nth_In. unfold ks_holders. rewrite ks_holders_from_length. exact Hk. }
    destruct (ks_holders_from_in _ _ _ _ Hin) as (p & Hle & Hn & Hh).
    exists (Z.to_nat (nth k (ks_holders (ks_rot t) parts) (-1)%Z)), p.
    rewrite Z2Nat.id by lia. split; [reflexivity|]. split; [|exact Hh]. rewrite Nat.sub_0_r in Hn. exact Hn.
  - rewrite nth_overflow; [reflexivity|]. unfold ks_holders. rewrite ks_holders_from_length. exact Hk.
Qed.

Lemma ks_regen_exact_example :
  let ts := [(0, 4, 2); (2, 0, 4); (1, 0, 3); (4, 2, 0); (7, 8, 9)] in
  let parts := [kb_set_tt ks_pb0 [(0, 4, 2)]; kb_set_tt ks_pb0 [(1, 0, 3)]; kb_set_tt ks_pb0 [(4, 2, 0)]] in
  ks_holders (0, 4, 2) parts = [0; 2]%Z /\ ks_regen_tp ts parts = [0; 2; 1; -1; -1]%Z.
Proof. split; vm_compute; reflexivity. Qed.
