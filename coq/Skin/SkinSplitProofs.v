(* The bone-limit splitting loop of UpdateSkinPartitions (NifFile.cpp:4321-4363). *)
From NiflyVerif Require Import Res UtilModel UtilSpec CompactProofs EraseProofs FillProofs SkinModel SkinLib.
From Coq Require Import ZifyBool ZifyNat ZifyN Sorted Permutation QArith.
Local Open Scope N_scope.

(* ---- std::set<int> as a strictly ascending list ---- *)
Lemma ks_set_add_in : forall s x y, In y (ks_set_add x s) <-> y = x \/ In y s.
Proof.
  induction s as [|a s IH]; intros x y; cbn [ks_set_add].
  - cbn. intuition.
  - destruct (N.ltb_spec x a); [cbn; intuition|].
    destruct (N.eqb_spec x a) as [->|Hne]; [cbn; intuition|].
    cbn [In]. rewrite IH. intuition.
Qed.

Lemma ks_set_add_sorted : forall s x, sorted_lt s -> sorted_lt (ks_set_add x s).
Proof.
  unfold sorted_lt. induction s as [|a s IH]; intros x H; cbn [ks_set_add].
  - constructor; constructor.
  - inversion H as [|? ? Hs Hf]; subst.
    destruct (N.ltb_spec x a).
    + constructor; [exact H|]. constructor; [assumption|].
      eapply Forall_impl; [|exact Hf]. cbn. intros; lia.
    + destruct (N.eqb_spec x a); [exact H|].
      constructor; [apply IH; exact Hs|].
      apply Forall_forall. intros y Hy. apply ks_set_add_in in Hy. destruct Hy as [->|Hy]; [lia|].
      rewrite Forall_forall in Hf. apply Hf. exact Hy.
Qed.

Lemma ks_memb_in x s : ks_memb x s = true <-> In x s.
Proof.
  unfold ks_memb. rewrite existsb_exists. split.
  - intros (y & Hy & E). apply N.eqb_eq in E. subst. exact Hy.
  - intros H. exists x. split; [exact H|apply N.eqb_refl].
Qed.

Lemma ks_set_add_mem : forall s x, sorted_lt s -> In x s -> ks_set_add x s = s.
Proof.
  unfold sorted_lt. induction s as [|a s IH]; intros x H Hin; [destruct Hin|]. cbn [ks_set_add].
  inversion H as [|? ? Hs Hf]; subst. rewrite Forall_forall in Hf.
  destruct Hin as [->|Hin].
  - destruct (N.ltb_spec x x); [lia|]. rewrite N.eqb_refl. reflexivity.
  - specialize (Hf x Hin). destruct (N.ltb_spec x a); [lia|]. destruct (N.eqb_spec x a); [reflexivity|].
    f_equal. apply IH; assumption.
Qed.

Lemma ks_set_add_length_le : forall s x, (length (ks_set_add x s) <= S (length s))%nat.
Proof.
  induction s as [|a s IH]; intros x; cbn [ks_set_add]; [cbn; lia|].
  destruct (x <? a); [cbn; lia|]. destruct (x =? a); [cbn; lia|]. cbn [length]. specialize (IH x). lia.
Qed.

Lemma ks_set_union_in : forall xs s y, In y (ks_set_union s xs) <-> In y s \/ In y xs.
Proof.
  unfold ks_set_union. induction xs as [|x xs IH]; intros s y; cbn [fold_left].
  - cbn. intuition.
  - rewrite IH, ks_set_add_in. cbn. intuition.
Qed.

Lemma ks_set_union_sorted : forall xs s, sorted_lt s -> sorted_lt (ks_set_union s xs).
Proof.
  unfold ks_set_union. induction xs as [|x xs IH]; intros s H; cbn [fold_left]; [exact H|].
  apply IH. apply ks_set_add_sorted. exact H.
Qed.

Definition ks_new_in (s xs : list N) : list N := filter (fun tb => negb (ks_memb tb s)) xs.

Lemma ks_new_in_mono s s' xs :
  (forall y, In y s -> In y s') -> (length (ks_new_in s' xs) <= length (ks_new_in s xs))%nat.
Proof.
  intros H. unfold ks_new_in. induction xs as [|x xs IH]; cbn [filter]; [lia|].
  destruct (ks_memb x s) eqn:E.
  - assert (ks_memb x s' = true) by (apply ks_memb_in; apply H; apply ks_memb_in; exact E).
    rewrite H0. cbn [negb]. exact IH.
  - cbn [negb]. destruct (ks_memb x s'); cbn [negb length]; lia.
Qed.

Lemma ks_new_in_cons s x xs :
  ks_new_in s (x :: xs) = if ks_memb x s then ks_new_in s xs else x :: ks_new_in s xs.
Proof. unfold ks_new_in. cbn [filter]. destruct (ks_memb x s); reflexivity. Qed.

Lemma ks_set_union_length : forall xs s,
  sorted_lt s -> (length (ks_set_union s xs) <= length s + length (ks_new_in s xs))%nat.
Proof.
  induction xs as [|x xs IH]; intros s H; [cbn; lia|].
  change (ks_set_union s (x :: xs)) with (ks_set_union (ks_set_add x s) xs).
  specialize (IH (ks_set_add x s) (ks_set_add_sorted s x H)).
  pose proof (ks_new_in_mono s (ks_set_add x s) xs) as Hm.
  specialize (Hm ltac:(intros y Hy; apply ks_set_add_in; right; exact Hy)).
  rewrite ks_new_in_cons.
  destruct (ks_memb x s) eqn:E; cbn [length].
  - apply ks_memb_in in E. rewrite (ks_set_add_mem s x H E) in *. lia.
  - pose proof (ks_set_add_length_le s x). lia.
Qed.

Lemma ks_new_in_length s xs : (length (ks_new_in s xs) <= length xs)%nat.
Proof. unfold ks_new_in. induction xs as [|x xs IH]; cbn; [lia|]. destruct (negb (ks_memb x s)); cbn; lia. Qed.

Lemma ks_sorted_nil : sorted_lt [].
Proof. constructor. Qed.

(* ---- list surgery ---- *)
Lemma ks_insert_at_length {A} (l : list A) (i : N) (x : A) : length (ks_insert_at l i x) = S (length l).
Proof.
  unfold ks_insert_at. rewrite app_length. cbn [length]. rewrite firstn_length, skipn_length. lia.
Qed.

Lemma ks_nth_error_firstn {A} : forall (l : list A) (i k : nat), (k < i)%nat -> nth_error (firstn i l) k = nth_error l k.
Proof.
  induction l as [|x l IH]; intros i k H; [rewrite firstn_nil; reflexivity|].
  destruct i as [|i]; [lia|]. destruct k as [|k]; cbn; [reflexivity|]. apply IH. lia.
Qed.

Lemma ks_nth_error_skipn {A} : forall (l : list A) (i k : nat), nth_error (skipn i l) k = nth_error l (i + k).
Proof.
  induction l as [|x l IH]; intros i k; [rewrite skipn_nil; destruct k, i; reflexivity|].
  destruct i as [|i]; [reflexivity|]. cbn. apply IH.
Qed.

Lemma ks_insert_at_nth {A} (l : list A) (i : nat) (x : A) (k : nat) :
  (i <= length l)%nat ->
  nth_error (ks_insert_at l (N.of_nat i) x) k =
  if (k <? i)%nat then nth_error l k else if (k =? i)%nat then Some x else nth_error l (k - 1).
Proof.
  intros Hi. unfold ks_insert_at. rewrite Nat2N.id.
  assert (Hf : length (firstn i l) = i) by (apply firstn_length_le; exact Hi).
  destruct (Nat.ltb_spec k i) as [Hlt|Hge].
  - rewrite nth_error_app1 by lia. apply ks_nth_error_firstn. lia.
  - rewrite nth_error_app2 by lia. rewrite Hf.
    destruct (Nat.eqb_spec k i) as [->|Hne]; [rewrite Nat.sub_diag; reflexivity|].
    destruct (k - i)%nat as [|d] eqn:Ed; [lia|]. cbn [nth_error].
    rewrite ks_nth_error_skipn. f_equal. lia.
Qed.

Lemma ks_renumber_length : forall tp j ti pi, length (ks_renumber tp j ti pi) = length tp.
Proof. induction tp as [|p tp IH]; intros; cbn; [reflexivity|rewrite IH; reflexivity]. Qed.

Lemma ks_renumber_nth : forall tp j ti pi k,
  nth_error (ks_renumber tp j ti pi) k =
  match nth_error tp k with
  | Some pj => Some (if ((pi <? pj)%Z || ((ti <=? j + N.of_nat k) && (pi <=? pj)%Z))%bool then (pj + 1)%Z else pj)
  | None => None
  end.
Proof.
  induction tp as [|p tp IH]; intros j ti pi k; [destruct k; reflexivity|].
  destruct k as [|k]; cbn [ks_renumber nth_error].
  - replace (j + N.of_nat 0) with j by lia. reflexivity.
  - rewrite IH. replace (j + 1 + N.of_nat k) with (j + N.of_nat (S k)) by lia. reflexivity.
Qed.

Lemma ks_renumber_sign : forall tp j ti pi,
  (0 <= pi)%Z -> map (Z.leb 0) (ks_renumber tp j ti pi) = map (Z.leb 0) tp.
Proof.
  induction tp as [|p tp IH]; intros j ti pi H; [reflexivity|]. cbn [ks_renumber map].
  rewrite IH by exact H. f_equal.
  destruct ((pi <? p)%Z || ((ti <=? j) && (pi <=? p)%Z))%bool eqn:E; [|reflexivity].
  assert (0 <= p)%Z.
  { apply orb_true_iff in E. destruct E as [E|E]; [apply Z.ltb_lt in E; lia|].
    apply andb_true_iff in E. destruct E as [_ E]. apply Z.leb_le in E. lia. }
  destruct (Z.leb_spec 0 p); destruct (Z.leb_spec 0 (p + 1)); try lia; reflexivity.
Qed.

(* ---- the bones of a triangle ---- *)
Lemma ks_tri_bones_sorted m t : sorted_lt (ks_tri_bones m t).
Proof. destruct t as [[a b] c]. unfold ks_tri_bones. apply ks_set_union_sorted. apply ks_sorted_nil. Qed.

Lemma ks_tri_bones_in m t b :
  In b (ks_tri_bones m t) <->
  exists vtx, In vtx (ks_corners [t]) /\ In b (map fst (ks_vbw_get m vtx)).
Proof.
  destruct t as [[p1 p2] p3]. unfold ks_tri_bones. rewrite ks_set_union_in, !in_app_iff. cbn [In ks_corners flat_map app].
  split.
  - intros [[]|[H|[H|H]]]; [exists p1|exists p2|exists p3]; split; auto.
  - intros (vtx & [<-|[<-|[<-|[]]]] & H); tauto.
Qed.

(* ---------------------------------------------------------------------------------------- *)
(* invariant of the loop after [i] triangles *)
Section Split.
  Variable maxb : N.
  Variable m : ks_vbw.
  Variable tris : list tri.
  Variable tp0 : list Z.          (* triParts at loop entry *)
  Variable n0 : nat.              (* partitions at loop entry *)

  Hypothesis maxb_small : maxb < 65536.
  Hypothesis tri_fits : forall t, In t tris -> vlen (ks_tri_bones m t) <= maxb.

  Definition ks_split_inv (i : nat) (st : ks_split_state) : Prop :=
    let '(tp, pbs, dis) := st in
    length tp = length tris /\
    map (Z.leb 0) tp = map (Z.leb 0) tp0 /\
    Forall (fun pj => (pj < Z.of_nat (length pbs))%Z) tp /\
    match dis with Some d => length d = length pbs | None => True end /\
    Forall (fun pb => sorted_lt pb /\ vlen pb <= maxb) pbs /\
    (length pbs <= n0 + i)%nat /\ (n0 <= length pbs)%nat /\
    (forall j t pj, (j < i)%nat -> nth_error tris j = Some t -> nth_error tp j = Some pj -> (0 <= pj)%Z ->
       exists pb, nth_error pbs (Z.to_nat pj) = Some pb /\ forall b, In b (ks_tri_bones m t) -> In b pb).

  Lemma ks_vset_nth {A} (l l' : list A) (i : N) (x : A) :
    vset l i x = Some l' ->
    length l' = length l /\ forall k, nth_error l' k = if (k =? N.to_nat i)%nat then Some x else nth_error l k.
  Proof.
    intros H. destruct (ks_vset_inv _ _ _ _ H) as (Hlt & Hlen & Hget & Hoth). split; [exact Hlen|].
    intros k. destruct (Nat.eqb_spec k (N.to_nat i)) as [->|Hne].
    - exact Hget.
    - specialize (Hoth (N.of_nat k) ltac:(lia)). unfold vget in Hoth. rewrite Nat2N.id in Hoth. exact Hoth.
  Qed.

  Lemma ks_split_step_ok (i : nat) (t : tri) (st : ks_split_state) :
    nth_error tris i = Some t -> ks_split_inv i st ->
    exists st', ks_split_step maxb m t (N.of_nat i) st = Ok st' /\ ks_split_inv (S i) st'.
  Proof.
    intros Ht Hinv. destruct st as [[tp pbs] dis]. unfold ks_split_inv in Hinv.
    destruct Hinv as (Hlen & Hsign & Hrange & Hdis & Hsets & Hcnt & Hcnt0 & Hbones).
    assert (Hi : (i < length tris)%nat) by (apply nth_error_Some; congruence).
    assert (Htin : In t tris) by (eapply nth_error_In; exact Ht).
    unfold ks_split_step.
    destruct (nth_error tp i) as [partInd|] eqn:Epi.
    2:{ apply nth_error_None in Epi. lia. }
    unfold vget at 1. rewrite Nat2N.id, Epi.
    destruct (Z.ltb_spec partInd 0) as [Hneg|Hpos].
    { (* unassigned triangle: skipped *)
      eexists. split; [reflexivity|]. unfold ks_split_inv.
      repeat split; auto; try lia.
      intros j t' pj Hj Ht' Hpj H0.
      destruct (Nat.eq_dec j i) as [->|Hne]; [rewrite Epi in Hpj; inversion Hpj; lia|].
      apply (Hbones j t' pj); auto. lia. }
    assert (HpiR : (partInd < Z.of_nat (length pbs))%Z).
    { rewrite Forall_forall in Hrange. apply Hrange. eapply nth_error_In. exact Epi. }
    set (tb := ks_tri_bones m t).
    destruct (nth_error pbs (Z.to_nat partInd)) as [pb|] eqn:Epb.
    2:{ apply nth_error_None in Epb. lia. }
    unfold vget at 1. replace (N.to_nat (Z.to_N partInd)) with (Z.to_nat partInd) by lia. rewrite Epb.
    assert (Hpb : sorted_lt pb /\ vlen pb <= maxb).
    { rewrite Forall_forall in Hsets. apply Hsets. eapply nth_error_In. exact Epb. }
    destruct Hpb as [Hpbs Hpbl].
    assert (Htb : vlen tb <= maxb) by (apply tri_fits; exact Htin).
    fold (ks_new_in pb tb).
    assert (Hnew : vlen (ks_new_in pb tb) <= maxb).
    { pose proof (ks_new_in_length pb tb). unfold vlen in *. lia. }
    assert (Hw1 : wrap16 (vlen pb) = vlen pb) by (unfold wrap16, wrapN; apply N.mod_small; change (2 ^ 16) with 65536; lia).
    assert (Hw2 : wrap16 (vlen (ks_new_in pb tb)) = vlen (ks_new_in pb tb)) by (unfold wrap16, wrapN; apply N.mod_small; change (2 ^ 16) with 65536; lia).
    rewrite Hw1, Hw2.
    destruct (N.ltb_spec maxb (vlen pb + vlen (ks_new_in pb tb))) as [Hsplit|Hfit].
    - (* too many bones: a new partition behind partInd *)
      assert (Hdis' : exists dis', match dis with
                      | None => Ok None
                      | Some d => match vget d (Z.to_N partInd) with
                                  | None => Fault
                                  | Some inf => Ok (Some (ks_insert_at d (Z.to_N partInd + 1) (1, snd inf)))
                                  end
                      end = Ok dis' /\
                      match dis' with Some d' => length d' = S (length pbs) | None => True end).
      { destruct dis as [d|]; [|exists None; auto].
        destruct (ks_vget_lt d (Z.to_N partInd)) as (inf & Einf); [unfold vlen; lia|]. rewrite Einf.
        eexists. split; [reflexivity|]. cbn. rewrite ks_insert_at_length. lia. }
      destruct Hdis' as (dis' & Edis & Hdl). rewrite Edis. cbn [bind].
      set (tp' := ks_renumber tp 0 (N.of_nat i) partInd).
      set (pbs' := ks_insert_at pbs (Z.to_N partInd + 1) []).
      assert (Hpl : length pbs' = S (length pbs)) by (apply ks_insert_at_length).
      assert (Hpn : forall k, nth_error pbs' k =
                 if (k <? Z.to_nat partInd + 1)%nat then nth_error pbs k
                 else if (k =? Z.to_nat partInd + 1)%nat then Some [] else nth_error pbs (k - 1)).
      { intros k. unfold pbs'. replace (Z.to_N partInd + 1) with (N.of_nat (Z.to_nat partInd + 1)) by lia.
        apply ks_insert_at_nth. lia. }
      assert (Eg : vget pbs' (Z.to_N (partInd + 1)) = Some []).
      { unfold vget. replace (N.to_nat (Z.to_N (partInd + 1))) with (Z.to_nat partInd + 1)%nat by lia.
        rewrite Hpn. destruct (Nat.ltb_spec (Z.to_nat partInd + 1) (Z.to_nat partInd + 1)); [lia|].
        rewrite Nat.eqb_refl. reflexivity. }
      rewrite Eg.
      destruct (ks_vset_some pbs' (Z.to_N (partInd + 1)) (ks_set_union [] tb)) as (pbs2 & E2 & _); [unfold vlen; lia|].
      rewrite E2. destruct (ks_vset_nth _ _ _ _ E2) as (Hl2 & Hn2).
      eexists. split; [reflexivity|]. unfold ks_split_inv.
      split; [unfold tp'; rewrite ks_renumber_length; exact Hlen|].
      split; [unfold tp'; rewrite ks_renumber_sign by lia; exact Hsign|].
      split.
      { apply Forall_forall. intros x Hx. apply In_nth_error in Hx. destruct Hx as (k & Hk).
        unfold tp' in Hk. rewrite ks_renumber_nth in Hk. destruct (nth_error tp k) as [pj|] eqn:Ek; [|discriminate].
        assert (pj < Z.of_nat (length pbs))%Z by (rewrite Forall_forall in Hrange; apply Hrange; eapply nth_error_In; exact Ek).
        inversion Hk; subst x. rewrite Hl2, Hpl. destruct (_ || _)%bool; lia. }
      split; [destruct dis'; [rewrite Hl2, Hpl; exact Hdl|exact I]|].
      split.
      { apply Forall_forall. intros x Hx. apply In_nth_error in Hx. destruct Hx as (k & Hk).
        rewrite Hn2 in Hk. destruct (Nat.eqb_spec k (N.to_nat (Z.to_N (partInd + 1)))).
        - inversion Hk; subst x. split; [apply ks_set_union_sorted; apply ks_sorted_nil|].
          pose proof (ks_set_union_length tb [] ks_sorted_nil). pose proof (ks_new_in_length [] tb).
          unfold vlen in *. cbn [length] in *. lia.
        - rewrite Hpn in Hk. rewrite Forall_forall in Hsets.
          destruct (Nat.ltb_spec k (Z.to_nat partInd + 1)); [apply Hsets; eapply nth_error_In; exact Hk|].
          destruct (Nat.eqb_spec k (Z.to_nat partInd + 1)); [lia|]. apply Hsets; eapply nth_error_In; exact Hk. }
      split; [rewrite Hl2, Hpl; lia|]. split; [rewrite Hl2, Hpl; lia|].
      intros j t' pj' Hj Ht' Hpj' H0.
      unfold tp' in Hpj'. rewrite ks_renumber_nth in Hpj'. destruct (nth_error tp j) as [pj|] eqn:Ej; [|discriminate].
      injection Hpj' as Hpj''.
      destruct (Nat.eq_dec j i) as [->|Hne].
      + (* the current triangle opens the new partition *)
        rewrite Epi in Ej. inversion Ej; subst pj. rewrite Ht in Ht'. inversion Ht'; subst t'.
        assert (Hc : ((partInd <? partInd)%Z || ((N.of_nat i <=? N.of_nat i) && (partInd <=? partInd)%Z))%bool = true).
        { apply orb_true_iff. right. apply andb_true_iff. split; [apply N.leb_le; lia|apply Z.leb_le; lia]. }
        rewrite Hc in Hpj''. subst pj'.
        exists (ks_set_union [] tb). split.
        * rewrite Hn2. destruct (Nat.eqb_spec (Z.to_nat (partInd + 1)) (N.to_nat (Z.to_N (partInd + 1)))); [reflexivity|lia].
        * intros b Hb. apply ks_set_union_in. right. exact Hb.
      + assert (Hjl : (j < i)%nat) by lia.
        assert (Hc : ((partInd <? pj)%Z || ((N.of_nat i <=? N.of_nat j) && (partInd <=? pj)%Z))%bool = (partInd <? pj)%Z).
        { destruct (N.leb_spec (N.of_nat i) (N.of_nat j)); [lia|]. cbn [andb]. apply Bool.orb_false_r. }
        rewrite Hc in Hpj''.
        assert (Hpj0 : (0 <= pj)%Z).
        { destruct (Z.ltb_spec partInd pj); lia. }
        destruct (Hbones j t' pj Hjl Ht' Ej Hpj0) as (pbj & Epbj & Hsub).
        exists pbj. split; [|exact Hsub].
        rewrite Hn2. destruct (Z.ltb_spec partInd pj).
        * subst pj'. destruct (Nat.eqb_spec (Z.to_nat (pj + 1)) (N.to_nat (Z.to_N (partInd + 1)))); [lia|].
          rewrite Hpn. destruct (Nat.ltb_spec (Z.to_nat (pj + 1)) (Z.to_nat partInd + 1)); [lia|].
          destruct (Nat.eqb_spec (Z.to_nat (pj + 1)) (Z.to_nat partInd + 1)); [lia|].
          replace (Z.to_nat (pj + 1) - 1)%nat with (Z.to_nat pj) by lia. exact Epbj.
        * subst pj'. destruct (Nat.eqb_spec (Z.to_nat pj) (N.to_nat (Z.to_N (partInd + 1)))); [lia|].
          rewrite Hpn. destruct (Nat.ltb_spec (Z.to_nat pj) (Z.to_nat partInd + 1)); [exact Epbj|lia].
    - (* the triangle's bones fit into its partition *)
      cbn [bind]. unfold vget at 1. replace (N.to_nat (Z.to_N partInd)) with (Z.to_nat partInd) by lia. rewrite Epb.
      destruct (ks_vset_some pbs (Z.to_N partInd) (ks_set_union pb tb)) as (pbs2 & E2 & _); [unfold vlen; lia|].
      rewrite E2. destruct (ks_vset_nth _ _ _ _ E2) as (Hl2 & Hn2).
      eexists. split; [reflexivity|]. unfold ks_split_inv.
      split; [exact Hlen|]. split; [exact Hsign|].
      split; [rewrite Hl2; exact Hrange|]. split; [destruct dis; [rewrite Hl2; exact Hdis|exact I]|].
      split.
      { apply Forall_forall. intros x Hx. apply In_nth_error in Hx. destruct Hx as (k & Hk).
        rewrite Hn2 in Hk. destruct (Nat.eqb_spec k (N.to_nat (Z.to_N partInd))).
        - inversion Hk; subst x. split; [apply ks_set_union_sorted; exact Hpbs|].
          pose proof (ks_set_union_length tb pb Hpbs). unfold vlen in *. lia.
        - rewrite Forall_forall in Hsets. apply Hsets. eapply nth_error_In. exact Hk. }
      split; [rewrite Hl2; lia|]. split; [rewrite Hl2; lia|].
      intros j t' pj Hj Ht' Hpj H0.
      destruct (Nat.eq_dec j i) as [->|Hne].
      + rewrite Epi in Hpj. inversion Hpj; subst pj. rewrite Ht in Ht'. inversion Ht'; subst t'.
        exists (ks_set_union pb tb). split.
        * rewrite Hn2. destruct (Nat.eqb_spec (Z.to_nat partInd) (N.to_nat (Z.to_N partInd))); [reflexivity|lia].
        * intros b Hb. apply ks_set_union_in. right. exact Hb.
      + destruct (Hbones j t' pj ltac:(lia) Ht' Hpj H0) as (pbj & Epbj & Hsub).
        rewrite Hn2. destruct (Nat.eqb_spec (Z.to_nat pj) (N.to_nat (Z.to_N partInd))) as [Eq|Hq].
        * exists (ks_set_union pb tb). split; [reflexivity|].
          replace (Z.to_nat pj) with (Z.to_nat partInd) in Epbj by lia. rewrite Epb in Epbj. inversion Epbj; subst pbj.
          intros b Hb. apply ks_set_union_in. left. apply Hsub. exact Hb.
        * exists pbj. split; [exact Epbj|exact Hsub].
  Qed.

  Lemma ks_split_loop_ok : forall (rest pre : list tri) (st : ks_split_state),
    tris = pre ++ rest -> ks_split_inv (length pre) st ->
    exists st', ks_split_loop maxb m rest (N.of_nat (length pre)) st = Ok st' /\ ks_split_inv (length tris) st'.
  Proof.
    induction rest as [|t rest IH]; intros pre st Htr Hinv.
    - exists st. split; [reflexivity|]. rewrite Htr, app_nil_r. exact Hinv.
    - cbn [ks_split_loop].
      destruct (ks_split_step_ok (length pre) t st) as (st1 & E1 & I1).
      + rewrite Htr. rewrite nth_error_app2 by lia. rewrite Nat.sub_diag. reflexivity.
      + exact Hinv.
      + rewrite E1. cbn [bind].
        destruct (IH (pre ++ [t]) st1) as (st' & E' & I').
        * rewrite Htr, <- app_assoc. reflexivity.
        * rewrite app_length. cbn [length]. replace (length pre + 1)%nat with (S (length pre)) by lia. exact I1.
        * exists st'. split; [|exact I'].
          rewrite <- E'. f_equal. rewrite app_length. cbn [length]. lia.
  Qed.
End Split.
