(* UpdateSkinPartitions (NifFile.cpp:4264-4434): everything behind the splitting loop, and the
   statement about the whole function. *)
From NiflyVerif Require Import Res UtilModel UtilSpec CompactProofs EraseProofs FillProofs SkinModel SkinLib
  SkinGenProofs SkinPartsProofs SkinOpsProofs SkinSplitProofs.
From Coq Require Import ZifyBool ZifyNat ZifyN Sorted Permutation QArith.
Local Open Scope N_scope.

(* ---------------------------------------------------------------------------------------- *)
(* the per-partition fill loop *)
Definition ks_zip_fill (m : ks_vbw) (parts : list ks_pb) (pbs : list (list N)) : list ks_pb :=
  map (fun pp => ks_fill_part m (snd pp) (fst pp)) (combine parts pbs).

Lemma ks_fill_parts_ok (m : ks_vbw) : forall (n : nat) (i : N) (parts : list ks_pb) (pbs : list (list N)),
  (N.to_nat i + n = length parts)%nat -> length parts = length pbs ->
  ks_fill_parts m n i parts pbs =
  Ok (firstn (N.to_nat i) parts ++ ks_zip_fill m (skipn (N.to_nat i) parts) (skipn (N.to_nat i) pbs)).
Proof.
  induction n as [|n IH]; intros i parts pbs Hn Hl; cbn [ks_fill_parts].
  - rewrite !skipn_all2 by lia. rewrite firstn_all2 by lia. unfold ks_zip_fill. cbn. rewrite app_nil_r. reflexivity.
  - destruct (vget_skipn parts i) as (p & Ep & Sp); [unfold vlen; lia|].
    destruct (vget_skipn pbs i) as (pb & Epb & Spb); [unfold vlen; lia|].
    rewrite Ep, Epb.
    destruct (vset_spec parts i (ks_fill_part m pb p)) as (parts' & E' & L' & F' & S'); [unfold vlen; lia|].
    rewrite E'. rewrite (IH (i + 1) parts' pbs) by lia.
    f_equal. replace (N.to_nat (i + 1)) with (S (N.to_nat i)) by lia.
    rewrite F', (S' (S (N.to_nat i))) by lia. rewrite Sp, Spb. unfold ks_zip_fill. cbn [combine map fst snd].
    rewrite <- app_assoc. reflexivity.
Qed.

Lemma ks_zip_fill_nth (m : ks_vbw) : forall parts pbs j p3,
  nth_error (ks_zip_fill m parts pbs) j = Some p3 ->
  exists p2 pb, nth_error parts j = Some p2 /\ nth_error pbs j = Some pb /\ p3 = ks_fill_part m pb p2.
Proof.
  induction parts as [|p parts IH]; intros [|pb pbs] j p3 H; try (destruct j; discriminate).
  destruct j as [|j]; cbn in H.
  - inversion H. exists p, pb. auto.
  - apply IH in H. exact H.
Qed.

Lemma ks_zip_fill_length m parts pbs : length parts = length pbs -> length (ks_zip_fill m parts pbs) = length parts.
Proof. intros H. unfold ks_zip_fill. rewrite map_length, combine_length. lia. Qed.

(* ---------------------------------------------------------------------------------------- *)
(* vertBoneWeights: where its entries come from *)
Lemma ks_vbw_get_push (m : ks_vbw) (key : N) (x : N * Q) (k : N) :
  ks_vbw_get (ks_vbw_push m key x) k = if k =? key then ks_vbw_get m key ++ [x] else ks_vbw_get m k.
Proof.
  induction m as [|[k' l] m IH]; cbn [ks_vbw_push ks_vbw_get].
  - destruct (k =? key); reflexivity.
  - destruct (N.eqb_spec key k') as [->|Hne]; cbn [ks_vbw_get].
    + destruct (k =? k'); reflexivity.
    + rewrite IH. destruct (N.eqb_spec k k') as [->|Hk].
      * destruct (N.eqb_spec k' key); [congruence|reflexivity].
      * reflexivity.
Qed.

Lemma ks_vbw_bone_in : forall (ws : list (N * Q)) (m : ks_vbw) (bi vtx : N) (b : N) (w : Q),
  In (b, w) (ks_vbw_get (ks_vbw_bone m bi ws) vtx) ->
  In (b, w) (ks_vbw_get m vtx) \/ (b = bi /\ In (vtx, w) ws).
Proof.
  induction ws as [|[vi w0] ws IH]; intros m bi vtx b w H; cbn [ks_vbw_bone] in H; [left; exact H|].
  apply IH in H. destruct H as [H|[-> H]]; [|right; split; [reflexivity|right; exact H]].
  rewrite ks_vbw_get_push in H. destruct (N.eqb_spec vtx vi) as [->|Hne]; [|left; exact H].
  apply in_app_iff in H. destruct H as [H|[H|[]]]; [left; exact H|].
  inversion H; subst. right. split; [reflexivity|left; reflexivity].
Qed.

Lemma ks_vbw_bones_in : forall (bones : list (list (N * Q))) (m : ks_vbw) (bi vtx b : N) (w : Q),
  bi < 65536 ->
  In (b, w) (ks_vbw_get (ks_vbw_bones m bi bones) vtx) ->
  In (b, w) (ks_vbw_get m vtx) \/ (b < 65536 /\ exists bl, In bl bones /\ In (vtx, w) bl).
Proof.
  induction bones as [|bl bones IH]; intros m bi vtx b w Hbi H; cbn [ks_vbw_bones] in H; [left; exact H|].
  apply IH in H.
  2:{ unfold wrap16, wrapN. apply N.mod_lt. discriminate. }
  destruct H as [H|(Hb & bl' & Hin & Hw)].
  - apply ks_vbw_bone_in in H. destruct H as [H|[-> H]]; [left; exact H|].
    right. split; [exact Hbi|]. exists bl. split; [left; reflexivity|exact H].
  - right. split; [exact Hb|]. exists bl'. split; [right; exact Hin|exact Hw].
Qed.

Lemma ks_ins_in x l y : In y (ks_ins x l) -> y = x \/ In y l.
Proof.
  induction l as [|a l IH]; cbn [ks_ins]; [cbn; intuition|].
  destruct (ks_qlt (snd a) (snd x)); cbn [In]; [intuition|].
  intros [->|H]; [right; left; reflexivity|]. apply IH in H. intuition.
Qed.

Lemma ks_sort_in l y : In y (ks_sort l) -> In y l.
Proof.
  unfold ks_sort. assert (G : forall l acc, In y (fold_left (fun acc x => ks_ins x acc) l acc) -> In y acc \/ In y l).
  { clear. induction l as [|x l IH]; intros acc H; cbn [fold_left] in H; [left; exact H|].
    apply IH in H. destruct H as [H|H]; [|right; right; exact H].
    apply ks_ins_in in H. destruct H as [->|H]; [right; left; reflexivity|left; exact H]. }
  intros H. apply G in H. destruct H as [[]|H]. exact H.
Qed.

Lemma ks_firstn_in {A} (n : nat) (l : list A) (y : A) : In y (firstn n l) -> In y l.
Proof.
  revert l. induction n as [|n IH]; intros [|a l] H; cbn in H; try contradiction.
  destruct H as [->|H]; [left; reflexivity|right; apply IH; exact H].
Qed.

Lemma ks_vbw_get_map (g : list (N * Q) -> list (N * Q)) (m : ks_vbw) (k : N) :
  g [] = [] -> ks_vbw_get (map (fun kl => (fst kl, g (snd kl))) m) k = g (ks_vbw_get m k).
Proof.
  intros Hg. induction m as [|[k' l] m IH]; cbn [map ks_vbw_get fst snd]; [symmetry; exact Hg|].
  destruct (k =? k'); [reflexivity|exact IH].
Qed.

Lemma ks_vbw_final_get (bones : list (list (N * Q))) (vtx : N) :
  ks_vbw_get (ks_vbw_final bones) vtx = firstn 4 (ks_sort (ks_vbw_get (ks_vbw_bones [] 0 bones) vtx)).
Proof. unfold ks_vbw_final. apply (ks_vbw_get_map (fun l => firstn 4 (ks_sort l))). reflexivity. Qed.

Lemma ks_vbw_final_in (bones : list (list (N * Q))) (vtx b : N) (w : Q) :
  In (b, w) (ks_vbw_get (ks_vbw_final bones) vtx) -> b < 65536 /\ exists bl, In bl bones /\ In (vtx, w) bl.
Proof.
  rewrite ks_vbw_final_get. intros H. apply ks_firstn_in, ks_sort_in in H.
  apply ks_vbw_bones_in in H; [|lia]. destruct H as [[]|H]. exact H.
Qed.

Lemma ks_vbw_final_length (bones : list (list (N * Q))) (vtx : N) :
  (length (ks_vbw_get (ks_vbw_final bones) vtx) <= 4)%nat.
Proof. rewrite ks_vbw_final_get. rewrite firstn_length. lia. Qed.

(* a triangle of vertices with at most four weights each needs at most twelve bones *)
Lemma ks_tri_bones_le_12 (bones : list (list (N * Q))) (t : tri) :
  vlen (ks_tri_bones (ks_vbw_final bones) t) <= 12.
Proof.
  destruct t as [[a b] c]. unfold ks_tri_bones.
  pose proof (ks_set_union_length (map fst (ks_vbw_get (ks_vbw_final bones) a) ++ map fst (ks_vbw_get (ks_vbw_final bones) b) ++ map fst (ks_vbw_get (ks_vbw_final bones) c)) [] ks_sorted_nil) as H.
  pose proof (ks_new_in_length [] (map fst (ks_vbw_get (ks_vbw_final bones) a) ++ map fst (ks_vbw_get (ks_vbw_final bones) b) ++ map fst (ks_vbw_get (ks_vbw_final bones) c))) as H1.
  rewrite !app_length, !map_length in H1.
  pose proof (ks_vbw_final_length bones a). pose proof (ks_vbw_final_length bones b). pose proof (ks_vbw_final_length bones c).
  unfold vlen. cbn [length] in H. lia.
Qed.

(* ---------------------------------------------------------------------------------------- *)
(* per-vertex slots: bone indices *)
Lemma ks_bone_pos_spec : forall (bones : list N) (b i : N),
  In b bones -> exists idx, nth_error bones idx = Some b /\ ks_bone_pos bones b i = ks_wrap8 (i + N.of_nat idx).
Proof.
  induction bones as [|x bones IH]; intros b i H; [destruct H|]. cbn [ks_bone_pos].
  destruct (N.eqb_spec x b) as [->|Hne].
  - exists 0%nat. split; [reflexivity|]. f_equal. lia.
  - destruct H as [H|H]; [congruence|]. destruct (IH b (i + 1) H) as (idx & E & P).
    exists (S idx). split; [exact E|]. rewrite P. f_equal. lia.
Qed.

Lemma ks_pad4_length {A} (d : A) (l : list A) : length (ks_pad4 d l) = 4%nat.
Proof. unfold ks_pad4. rewrite app_length, firstn_length, repeat_length. lia. Qed.

Lemma ks_pad4_nth {A} (d : A) (l : list A) (s : nat) (x : A) :
  (s < 4)%nat -> nth_error l s = Some x -> nth_error (ks_pad4 d l) s = Some x.
Proof.
  intros Hs H. unfold ks_pad4. assert (s < length l)%nat by (apply nth_error_Some; congruence).
  rewrite nth_error_app1 by (rewrite firstn_length; lia). rewrite ks_nth_error_firstn by lia. exact H.
Qed.

(* the slot row of a vertex: every used slot holds the position of its bone in the partition's
   bone list (needs at most 256 bones in the partition: the slot is a uint8_t) *)
Definition ks_slot_row_ok (bones : list N) (ws : list (N * Q)) (row : list N) : Prop :=
  length row = 4%nat /\
  forall s bw, nth_error (firstn 4 ws) s = Some bw ->
    exists idx, nth_error row s = Some idx /\ nth_error bones (N.to_nat idx) = Some (fst bw).

Lemma ks_vertex_slots_bi (bones : list N) (ws : list (N * Q)) :
  vlen bones <= 256 -> (forall bw, In bw ws -> In (fst bw) bones) ->
  ks_slot_row_ok bones ws (fst (ks_vertex_slots bones ws)).
Proof.
  intros Hb Hin. unfold ks_vertex_slots, ks_slot_row_ok. cbn [fst]. split; [apply ks_pad4_length|].
  intros s bw Hs.
  assert (Hs4 : (s < 4)%nat).
  { assert (s < length (firstn 4 ws))%nat by (apply nth_error_Some; congruence). rewrite firstn_length in H. lia. }
  assert (Hbw : In (fst bw) bones) by (apply Hin; eapply ks_firstn_in; eapply nth_error_In; exact Hs).
  destruct (ks_bone_pos_spec bones (fst bw) 0 Hbw) as (idx & Eidx & Pidx).
  exists (ks_bone_pos bones (fst bw) 0). split.
  - apply ks_pad4_nth; [exact Hs4|]. rewrite nth_error_map, Hs. reflexivity.
  - rewrite Pidx. assert (idx < length bones)%nat by (apply nth_error_Some; congruence).
    unfold ks_wrap8, wrapN. rewrite N.mod_small by (change (2 ^ 8) with 256; unfold vlen in Hb; lia).
    replace (N.to_nat (0 + N.of_nat idx)) with idx by lia. exact Eidx.
Qed.

(* ---------------------------------------------------------------------------------------- *)
(* per-vertex slots: weights over Q *)
Local Open Scope Q_scope.

Lemma ks_qsum_acc : forall (l : list Q) (a : Q), fold_left Qplus l a == a + fold_left Qplus l 0.
Proof.
  induction l as [|x l IH]; intros a; cbn [fold_left]; [ring|].
  rewrite (IH (a + x)), (IH (0 + x)). ring.
Qed.

Lemma ks_qsum_cons (x : Q) (l : list Q) : ks_qsum (x :: l) == x + ks_qsum l.
Proof. unfold ks_qsum. cbn [fold_left]. rewrite ks_qsum_acc. ring. Qed.

Lemma ks_qsum_app (a b : list Q) : ks_qsum (a ++ b) == ks_qsum a + ks_qsum b.
Proof.
  induction a as [|x a IH]; cbn [app]; [unfold ks_qsum at 2; cbn; ring|].
  rewrite !ks_qsum_cons, IH. ring.
Qed.

Lemma ks_qsum_zeros (n : nat) : ks_qsum (repeat 0 n) == 0.
Proof. induction n as [|n IH]; cbn [repeat]; [reflexivity|]. rewrite ks_qsum_cons, IH. ring. Qed.

Lemma ks_qsum_nonneg (l : list Q) : Forall (fun w => 0 <= w) l -> 0 <= ks_qsum l.
Proof.
  induction 1 as [|x l Hx Hl IH]; [unfold ks_qsum; cbn; apply Qle_refl|].
  rewrite ks_qsum_cons. replace 0 with (0 + 0) by reflexivity. apply Qplus_le_compat; assumption.
Qed.

Lemma ks_qsum_zero_all (l : list Q) : Forall (fun w => 0 <= w) l -> ks_qsum l == 0 -> Forall (fun w => w == 0) l.
Proof.
  induction 1 as [|x l Hx Hl IH]; intros Hs; [constructor|].
  rewrite ks_qsum_cons in Hs. pose proof (ks_qsum_nonneg l Hl) as Hn.
  assert (x == 0).
  { apply Qle_antisym; [|exact Hx]. rewrite <- Hs. rewrite <- (Qplus_0_r x) at 1. apply Qplus_le_compat; [apply Qle_refl|exact Hn]. }
  constructor; [exact H|]. apply IH. rewrite H in Hs. rewrite Qplus_0_l in Hs. exact Hs.
Qed.

Lemma ks_qsum_div (l : list Q) (t : Q) : ks_qsum (map (fun w => Qred (w / t)) l) == ks_qsum l / t.
Proof.
  induction l as [|x l IH]; cbn [map]; [unfold ks_qsum; cbn; unfold Qdiv; ring|].
  rewrite !ks_qsum_cons, IH, Qred_correct. unfold Qdiv. ring.
Qed.

(* the weight row of a vertex: four non-negative weights that sum to one, or four zeros *)
Definition ks_weight_row_ok (row : list Q) : Prop :=
  length row = 4%nat /\ Forall (fun w => 0 <= w) row /\ (ks_qsum row == 1 \/ Forall (fun w => w == 0) row).

Lemma ks_vertex_slots_vw (bones : list N) (ws : list (N * Q)) :
  (forall bw, In bw ws -> 0 <= snd bw) -> ks_weight_row_ok (snd (ks_vertex_slots bones ws)).
Proof.
  intros Hnn. unfold ks_vertex_slots, ks_weight_row_ok. cbn [snd].
  set (w4 := map snd (firstn 4 ws)).
  assert (Hw4 : Forall (fun w => 0 <= w) w4).
  { apply Forall_forall. intros w Hw. unfold w4 in Hw. apply in_map_iff in Hw. destruct Hw as (bw & <- & Hin).
    apply Hnn. eapply ks_firstn_in. exact Hin. }
  assert (Hl4 : (length w4 <= 4)%nat) by (unfold w4; rewrite map_length, firstn_length; lia).
  assert (Hpad : ks_pad4 0 w4 = w4 ++ repeat 0 (4 - length w4)).
  { unfold ks_pad4. rewrite firstn_all2 by exact Hl4. reflexivity. }
  assert (Hpn : Forall (fun w => 0 <= w) (ks_pad4 0 w4)).
  { rewrite Hpad. apply Forall_app. split; [exact Hw4|]. apply Forall_forall. intros x Hx. apply repeat_spec in Hx. subst. apply Qle_refl. }
  assert (Hps : ks_qsum (ks_pad4 0 w4) == ks_qsum w4).
  { rewrite Hpad, ks_qsum_app, ks_qsum_zeros. ring. }
  destruct (Qeq_bool (ks_qsum w4) 0) eqn:Et.
  - apply Qeq_bool_iff in Et. split; [apply ks_pad4_length|]. split; [exact Hpn|]. right.
    apply ks_qsum_zero_all; [exact Hpn|]. rewrite Hps. exact Et.
  - assert (Hne : ~ ks_qsum w4 == 0) by (intros C; apply Qeq_bool_iff in C; congruence).
    assert (Hpos : 0 < ks_qsum w4).
    { pose proof (ks_qsum_nonneg w4 Hw4) as H0. apply Qle_lteq in H0. destruct H0 as [H0|H0]; [exact H0|]. exfalso. apply Hne. symmetry. exact H0. }
    split; [rewrite map_length; apply ks_pad4_length|]. split.
    + apply Forall_forall. intros x Hx. apply in_map_iff in Hx. destruct Hx as (w & <- & Hw).
      rewrite Qred_correct. rewrite Forall_forall in Hpn. specialize (Hpn w Hw).
      unfold Qdiv. apply Qmult_le_0_compat; [exact Hpn|]. apply Qlt_le_weak. apply Qinv_lt_0_compat. exact Hpos.
    + left. rewrite ks_qsum_div, Hps. unfold Qdiv. apply Qmult_inv_r. exact Hne.
Qed.

Local Close Scope Q_scope.

(* ---------------------------------------------------------------------------------------- *)
(* which triangles a distributed partition holds *)
Lemma ks_tris_of_in : forall (ts : list tri) (tp : list Z) (k : nat) (t : tri),
  In t (ks_tris_of k ts tp) -> exists i, nth_error ts i = Some t /\ nth_error tp i = Some (Z.of_nat k).
Proof.
  induction ts as [|t0 ts IH]; intros tp k t H; [destruct H|].
  destruct tp as [|pi tp]; [destruct H|]. rewrite ks_tris_of_cons in H. apply in_app_iff in H.
  destruct H as [H|H].
  - destruct (Z.eqb_spec pi (Z.of_nat k)) as [->|]; [|destruct H]. destruct H as [<-|[]]. exists 0%nat. auto.
  - destruct (IH tp k t H) as (i & E1 & E2). exists (S i). auto.
Qed.

Lemma ks_assigned_sign_eq : forall (ts : list tri) (tp : list Z) (n : nat),
  Forall (fun pj => (pj < Z.of_nat n)%Z) tp ->
  ks_assigned ts tp n = map fst (filter (fun x => Z.leb 0 (snd x)) (combine ts tp)).
Proof.
  unfold ks_assigned. induction ts as [|t ts IH]; intros tp n H; [reflexivity|].
  destruct tp as [|pi tp]; [reflexivity|]. inversion H; subst. cbn [combine filter snd].
  replace (pi <? Z.of_nat n)%Z with true by (symmetry; apply Z.ltb_lt; assumption).
  rewrite Bool.andb_true_r. destruct (0 <=? pi)%Z; cbn [map fst]; rewrite (IH tp n) by assumption; reflexivity.
Qed.

(* the triangles assigned to some partition (triParts[i] >= 0), in shape order *)
Definition ks_assigned_sign (ts : list tri) (tp : list Z) : list tri :=
  map fst (filter (fun x => Z.leb 0 (snd x)) (combine ts tp)).

Lemma ks_assigned_sign_ext : forall (ts : list tri) (tp tp' : list Z),
  map (Z.leb 0) tp = map (Z.leb 0) tp' -> ks_assigned_sign ts tp = ks_assigned_sign ts tp'.
Proof.
  unfold ks_assigned_sign. induction ts as [|t ts IH]; intros tp tp' H; [reflexivity|].
  destruct tp as [|a tp], tp' as [|b tp']; try discriminate; [reflexivity|].
  cbn [map] in H. inversion H as [[H1 H2]]. cbn [combine filter snd]. rewrite H1.
  destruct (0 <=? b)%Z; cbn [map fst]; rewrite (IH tp tp' H2); reflexivity.
Qed.

Lemma ks_tris_of_in_conv : forall (ts : list tri) (tp : list Z) (k i : nat) (t : tri),
  nth_error ts i = Some t -> nth_error tp i = Some (Z.of_nat k) -> In t (ks_tris_of k ts tp).
Proof.
  induction ts as [|t0 ts IH]; intros tp k i t H1 H2; [destruct i; discriminate|].
  destruct tp as [|pi tp]; [destruct i; discriminate|]. rewrite ks_tris_of_cons. apply in_app_iff.
  destruct i as [|i]; cbn in H1, H2.
  - inversion H1; inversion H2; subst. left. rewrite Z.eqb_refl. left. reflexivity.
  - right. eapply IH; eassumption.
Qed.

Lemma ks_Forall2_nth_r {A B} (R : A -> B -> Prop) : forall l l' j y,
  Forall2 R l l' -> nth_error l' j = Some y -> exists x, nth_error l j = Some x /\ R x y.
Proof.
  intros l l' j y H. revert j. induction H as [|a b l l' Hab H IH]; intros j Hj; [destruct j; discriminate|].
  destruct j as [|j]; cbn in Hj.
  - inversion Hj; subst. exists a. auto.
  - apply IH in Hj. exact Hj.
Qed.

Lemma ks_imap_nth_error {A B} (f : nat -> A -> B) : forall l i j,
  nth_error (ks_imap f i l) j = option_map (f (i + j)%nat) (nth_error l j).
Proof.
  induction l as [|x l IH]; intros i j; [destruct j; reflexivity|].
  destruct j as [|j]; cbn [ks_imap nth_error option_map]; [f_equal; f_equal; lia|].
  rewrite IH. replace (S i + j)%nat with (i + S j)%nat by lia. reflexivity.
Qed.

Lemma ks_nth_error_repeat {A} (x : A) : forall n j y, nth_error (repeat x n) j = Some y -> y = x /\ (j < n)%nat.
Proof.
  induction n as [|n IH]; intros j y H; [destruct j; discriminate|].
  destruct j as [|j]; cbn in H; [inversion H; split; [reflexivity|lia]|].
  apply IH in H. destruct H; split; [assumption|lia].
Qed.

(* ---------------------------------------------------------------------------------------- *)
(* the accepted domain of UpdateSkinPartitions, on the state behind PrepareTriParts *)
Definition ks_tri_small (t : tri) : bool :=
  let '(a, b, c) := t in ((a <? 65535) && (b <? 65535) && (c <? 65535))%bool.

Definition ks_update_accepts (sh : ks_shape) (s0 : ks_sp) (dis : option (list ks_pinfo)) : bool :=
  (kh_hastris sh
   && (vlen (kh_tris sh) =? vlen (kp_tp s0))
   && forallb (fun pj => (pj <? Z.of_N (vlen (kp_parts s0)))%Z) (kp_tp s0)
   && (match dis with Some d => vlen d =? vlen (kp_parts s0) | None => true end)
   && forallb ks_tri_small (kh_tris sh)
   && (vlen (kp_parts s0) + vlen (kh_tris sh) <? 2147483648))%bool.

(* what UpdateSkinPartitions establishes *)
Definition ks_update_post (v : ks_ver) (sh : ks_shape) (s0 : ks_sp) (bones : list (list (N * Q))) (k' : ks_skin) : Prop :=
  let m := ks_vbw_final bones in
  let tris := map ks_rot (kh_tris sh) in
  let parts' := kp_parts (kk_sp k') in
  let tp' := kp_tp (kk_sp k') in
  Permutation (concat (map kb_tt parts')) (ks_assigned_sign tris (kp_tp s0)) /\
  Forall (ks_part_geom_ok (kp_mapped s0)) parts' /\
  Forall (fun p => vlen (kb_bones p) <= ks_max_bones v) parts' /\
  Forall (fun p => vlen (kb_bones p) <= 256 ->
            Forall2 (fun vtx row => ks_slot_row_ok (kb_bones p) (ks_vbw_get m vtx) row) (kb_vm p) (kb_bi p)) parts' /\
  ((forall bl vw, In bl bones -> In vw bl -> (0 <= snd vw)%Q) ->
     Forall (fun p => length (kb_vw p) = length (kb_vm p) /\ Forall ks_weight_row_ok (kb_vw p)) parts') /\
  ks_aligned k' /\ kp_np (kk_sp k') = vlen parts' /\ kk_bones k' = bones /\ kp_mapped (kk_sp k') = kp_mapped s0 /\
  length tp' = length tris /\ map (Z.leb 0) tp' = map (Z.leb 0) (kp_tp s0) /\
  (forall i t j, nth_error tris i = Some t -> nth_error tp' i = Some (Z.of_nat j) ->
     exists p, nth_error parts' j = Some p /\ In t (kb_tt p)).

Lemma ks_max_bones_bounds v : 12 <= ks_max_bones v /\ ks_max_bones v < 65536.
Proof. destruct v; cbn; lia. Qed.

Lemma ks_fill_part_fields m pb p :
  kb_vm (ks_fill_part m pb p) = kb_vm p /\ kb_tris (ks_fill_part m pb p) = kb_tris p /\
  kb_tt (ks_fill_part m pb p) = kb_tt p /\ kb_nv (ks_fill_part m pb p) = kb_nv p /\
  kb_bones (ks_fill_part m pb p) = kb_bones p ++ map wrap16 pb /\
  kb_bi (ks_fill_part m pb p) = kb_bi p ++ map (fun vtx => fst (ks_vertex_slots (map wrap16 pb) (ks_vbw_get m vtx))) (kb_vm p) /\
  kb_vw (ks_fill_part m pb p) = kb_vw p ++ map (fun vtx => snd (ks_vertex_slots (map wrap16 pb) (ks_vbw_get m vtx))) (kb_vm p).
Proof. unfold ks_fill_part. cbn. rewrite !map_map. repeat split; reflexivity. Qed.

Lemma ks_Forall2_map_same {A B} (R : A -> B -> Prop) (f : A -> B) (l : list A) :
  (forall x, In x l -> R x (f x)) -> Forall2 R l (map f l).
Proof.
  induction l as [|x l IH]; intros H; cbn; constructor; [apply H; left; reflexivity|].
  apply IH. intros; apply H; right; assumption.
Qed.

Theorem ks_nf_update_ok (v : ks_ver) (sh : ks_shape) (k : ks_skin) (s0 : ks_sp) :
  ks_sp_prepare_triparts (map ks_rot (kh_tris sh)) (kk_sp k) = Ok s0 ->
  ks_update_accepts sh s0 (kk_dis k) = true ->
  exists k', ks_nf_update v sh k = Ok k' /\ ks_update_post v sh s0 (kk_bones k) k'.
Proof.
  intros Hprep Hacc. unfold ks_update_accepts in Hacc.
  repeat (apply andb_true_iff in Hacc; destruct Hacc as [Hacc ?]).
  rename H into Hsize, H0 into Hsmall, H1 into Hdis0, H2 into Hrange0, H3 into Hlen0, Hacc into Hhas.
  apply N.ltb_lt in Hsize. apply N.eqb_eq in Hlen0.
  set (tris := map ks_rot (kh_tris sh)) in *.
  set (m := ks_vbw_final (kk_bones k)).
  set (n0 := length (kp_parts s0)).
  assert (Htl : length tris = length (kh_tris sh)) by (unfold tris; apply map_length).
  destruct (ks_max_bones_bounds v) as [Hmb12 Hmb].
  (* the splitting loop *)
  destruct (ks_split_loop_ok (ks_max_bones v) m tris (kp_tp s0) n0 Hmb) with (rest := tris) (pre := @nil tri)
    (st := (kp_tp s0, repeat (@nil N) n0, kk_dis k)) as (st' & Eloop & Hinv).
  { intros t _. pose proof (ks_tri_bones_le_12 (kk_bones k) t). fold m in H. lia. }
  { reflexivity. }
  { unfold ks_split_inv. rewrite repeat_length.
    split; [unfold vlen in Hlen0; lia|]. split; [reflexivity|].
    split.
    { apply Forall_forall. intros pj Hpj. rewrite forallb_forall in Hrange0. specialize (Hrange0 pj Hpj).
      apply Z.ltb_lt in Hrange0. unfold n0, vlen in *. lia. }
    split.
    { destruct (kk_dis k) as [d|]; [|exact I]. apply N.eqb_eq in Hdis0. unfold n0, vlen in *. lia. }
    split.
    { apply Forall_forall. intros pb Hpb. apply repeat_spec in Hpb. subst pb. split; [apply ks_sorted_nil|unfold vlen; cbn; lia]. }
    split; [lia|]. split; [lia|]. intros j t pj Hj. cbn [length] in Hj. lia. }
  unfold ks_nf_update. rewrite Hhas. cbn [negb]. fold tris. rewrite Hprep. cbn [bind]. fold m.
  cbn [length] in Eloop. change (N.of_nat 0) with 0 in Eloop. fold n0. rewrite Eloop. cbn [bind].
  destruct st' as [[tp pbs] dis]. unfold ks_split_inv in Hinv.
  destruct Hinv as (Hlen & Hsign & Hrange & Hdis & Hsets & Hcnt & Hcnt0 & Hbones).
  assert (Hpl : vlen pbs < 2 ^ 31).
  { change (2 ^ 31) with 2147483648. unfold vlen, n0 in *. lia. }
  assert (Hw : ks_wrap32 (vlen pbs) = vlen pbs).
  { unfold ks_wrap32, wrapN. apply N.mod_small. change (2 ^ 32) with 4294967296. change (2 ^ 31) with 2147483648 in Hpl. lia. }
  rewrite Hw.
  set (s1 := ks_mkSP (vlen pbs) (repeat ks_new_part (length pbs)) (kp_mapped s0) tp).
  destruct (ks_prepare_after_distribute tris s1) as (parts2 & Eprep & F2).
  { cbn [kp_tp s1]. unfold vlen. lia. }
  { cbn [kp_parts s1]. unfold vlen. rewrite repeat_length. exact Hpl. }
  { change (2 ^ 31) with 2147483648. unfold vlen in *. lia. }
  { intros x Hx. unfold tris in Hx. apply (proj1 (ks_corners_map_rot _ _)) in Hx. unfold ks_corners in Hx.
    apply in_flat_map in Hx. destruct Hx as ([[a b] c] & Ht & Hx).
    rewrite forallb_forall in Hsmall. specialize (Hsmall _ Ht). unfold ks_tri_small in Hsmall.
    apply andb_true_iff in Hsmall. destruct Hsmall as [Hs12 Hs3]. apply andb_true_iff in Hs12. destruct Hs12 as [Hs1 Hs2].
    apply N.ltb_lt in Hs1, Hs2, Hs3. cbn in Hx. destruct Hx as [<-|[<-|[<-|[]]]]; assumption. }
  rewrite Eprep. cbn [bind kp_np kp_parts kp_mapped kp_tp s1].
  assert (Hl2 : length parts2 = length pbs).
  { apply ks_Forall2_length in F2. rewrite ks_imap_length in F2. cbn [kp_parts s1] in F2. rewrite repeat_length in F2. lia. }
  rewrite (ks_fill_parts_ok m (N.to_nat (vlen pbs)) 0 parts2 pbs) by (unfold vlen; lia).
  cbn [N.to_nat firstn skipn app bind].
  set (parts3 := ks_zip_fill m parts2 pbs).
  assert (Hl3 : length parts3 = length pbs) by (unfold parts3; rewrite ks_zip_fill_length; lia).
  destruct (ks_update_flags_ok v (ks_mkSkin (ks_mkSP (vlen pbs) parts3 (kp_mapped s0) tp) dis (kk_bones k))) as (k' & Ek' & Ssp & Sb & Sa & _ & _).
  { unfold ks_aligned. cbn [kk_dis kk_sp kp_parts]. destruct dis as [d|]; [lia|exact I]. }
  exists k'. split; [exact Ek'|].
  (* what every final partition looks like *)
  assert (Hpart : forall j p3, nth_error parts3 j = Some p3 ->
            exists pb, nth_error pbs j = Some pb /\
              kb_tt p3 = ks_tris_of j tris tp /\ ks_part_geom_ok (kp_mapped s0) p3 /\
              kb_bones p3 = map wrap16 pb /\
              kb_bi p3 = map (fun vtx => fst (ks_vertex_slots (map wrap16 pb) (ks_vbw_get m vtx))) (kb_vm p3) /\
              kb_vw p3 = map (fun vtx => snd (ks_vertex_slots (map wrap16 pb) (ks_vbw_get m vtx))) (kb_vm p3)).
  { intros j p3 Hj. unfold parts3 in Hj. apply ks_zip_fill_nth in Hj. destruct Hj as (p2 & pb & Ep2 & Epb & ->).
    destruct (ks_Forall2_nth_r _ _ _ _ _ F2 Ep2) as (pd & Epd & G2 & S2).
    cbn [kp_parts kp_tp s1] in Epd. rewrite ks_imap_nth_error in Epd.
    destruct (nth_error (repeat ks_new_part (length pbs)) j) as [q|] eqn:Eq; [|discriminate].
    apply ks_nth_error_repeat in Eq. destruct Eq as [-> _]. cbn [option_map plus] in Epd. inversion Epd; subst pd. clear Epd.
    unfold ks_same_skin in S2. destruct S2 as (S_tt & _ & _ & _ & S_bones & _ & _ & S_vw & _ & _ & _ & _ & S_bi).
    destruct (ks_fill_part_fields m pb p2) as (F_vm & F_tris & F_tt & F_nv & F_bones & F_bi & F_vw).
    exists pb. split; [exact Epb|]. split; [rewrite F_tt, S_tt; reflexivity|].
    split.
    { unfold ks_part_geom_ok, ks_vm_exact in *. rewrite F_vm, F_tris, F_tt, F_nv. cbn [kp_mapped s1] in G2. exact G2. }
    split; [rewrite F_bones, S_bones; reflexivity|].
    split; [rewrite F_bi, S_bi, F_vm; reflexivity|rewrite F_vw, S_vw, F_vm; reflexivity]. }
  unfold ks_update_post. rewrite Ssp, Sb. cbn [kk_sp kp_parts kp_tp kp_np kp_mapped]. fold tris m.
  split.
  { (* cover *)
    pose proof (ks_sp_gen_true_cover tris s1) as Hcov.
    assert (Hs1a : vlen tris = vlen (kp_tp s1)) by (cbn [kp_tp s1]; unfold vlen; lia).
    assert (Hs1b : vlen (kp_parts s1) < 2 ^ 31) by (cbn [kp_parts s1]; unfold vlen; rewrite repeat_length; exact Hpl).
    specialize (Hcov Hs1a Hs1b). rewrite ks_sp_gen_true_spec in Hcov by assumption. cbn [kp_parts kp_tp s1] in Hcov.
    rewrite repeat_length in Hcov.
    rewrite (ks_assigned_sign_eq tris tp (length pbs) Hrange) in Hcov. fold (ks_assigned_sign tris tp) in Hcov.
    rewrite (ks_assigned_sign_ext tris tp (kp_tp s0) Hsign) in Hcov.
    etransitivity; [|exact Hcov]. apply Permutation_refl'. f_equal.
    apply nth_ext with (d := []) (d' := []).
    - rewrite !map_length, ks_imap_length, repeat_length. exact Hl3.
    - intros j Hj. rewrite map_length in Hj.
      change (@nil tri) with (kb_tt ks_pb0).
      rewrite (map_nth kb_tt parts3 ks_pb0 j).
      destruct (nth_error parts3 j) as [p3|] eqn:E3; [|apply nth_error_None in E3; lia].
      destruct (Hpart j p3 E3) as (pb & _ & Htt & _).
      rewrite (nth_error_nth _ _ _ E3), Htt.
      rewrite (map_nth kb_tt _ ks_pb0 j). rewrite (ks_imap_nth _ ks_pb0 ks_pb0) by (rewrite repeat_length; lia).
      cbn [plus]. rewrite ks_dist_part_tt. reflexivity. }
  split.
  { apply Forall_forall. intros p3 Hp3. apply In_nth_error in Hp3. destruct Hp3 as (j & Hj).
    destruct (Hpart j p3 Hj) as (pb & _ & _ & G & _). exact G. }
  split.
  { apply Forall_forall. intros p3 Hp3. apply In_nth_error in Hp3. destruct Hp3 as (j & Hj).
    destruct (Hpart j p3 Hj) as (pb & Epb & _ & _ & Hb & _). rewrite Hb. unfold vlen. rewrite map_length.
    rewrite Forall_forall in Hsets. destruct (Hsets pb (nth_error_In _ _ Epb)) as [_ Hle]. exact Hle. }
  split.
  { (* bone slots *)
    apply Forall_forall. intros p3 Hp3 H256. apply In_nth_error in Hp3. destruct Hp3 as (j & Hj).
    destruct (Hpart j p3 Hj) as (pb & Epb & Htt & G & Hb & Hbi & _). rewrite Hbi, Hb.
    apply ks_Forall2_map_same. intros vtx Hvtx. apply ks_vertex_slots_bi.
    - rewrite <- Hb. exact H256.
    - intros [b w] Hbw. cbn [fst].
      destruct (ks_vbw_final_in (kk_bones k) vtx b w Hbw) as (Hb16 & _).
      (* the vertex is a corner of a triangle of this partition, whose bones are in partBones[j] *)
      destruct G as ((_ & Hvm) & _). apply Hvm in Hvtx. rewrite Htt in Hvtx.
      unfold ks_corners in Hvtx. apply in_flat_map in Hvtx. destruct Hvtx as (t & Ht & Hc).
      apply ks_tris_of_in in Ht. destruct Ht as (i & Ei & Etp).
      destruct (Hbones i t (Z.of_nat j)) as (pb' & Epb' & Hsub); [apply nth_error_Some; congruence|exact Ei|exact Etp|lia|].
      rewrite Nat2Z.id, Epb in Epb'. inversion Epb'; subst pb'.
      assert (Hin : In b pb).
      { apply Hsub. apply ks_tri_bones_in. exists vtx. split.
        - unfold ks_corners. cbn [flat_map]. rewrite app_nil_r. exact Hc.
        - apply in_map_iff. exists (b, w). split; [reflexivity|exact Hbw]. }
      apply in_map_iff. exists b. split; [|exact Hin].
      unfold wrap16, wrapN. apply N.mod_small. exact Hb16. }
  split.
  { (* weights *)
    intros Hnn. apply Forall_forall. intros p3 Hp3. apply In_nth_error in Hp3. destruct Hp3 as (j & Hj).
    destruct (Hpart j p3 Hj) as (pb & _ & _ & _ & _ & _ & Hvw). rewrite Hvw. split; [apply map_length|].
    apply Forall_forall. intros row Hrow. apply in_map_iff in Hrow. destruct Hrow as (vtx & <- & _).
    apply ks_vertex_slots_vw. intros [b w] Hbw. cbn [snd].
    destruct (ks_vbw_final_in (kk_bones k) vtx b w Hbw) as (_ & bl & Hbl & Hwin).
    apply (Hnn bl (vtx, w) Hbl Hwin). }
  split; [exact Sa|]. split; [unfold vlen; lia|]. split; [reflexivity|]. split; [reflexivity|].
  split; [lia|]. split; [exact Hsign|].
  intros i t j Hi Htp.
  destruct (nth_error parts3 j) as [p3|] eqn:E3.
  - exists p3. split; [reflexivity|]. destruct (Hpart j p3 E3) as (pb & _ & Htt & _). rewrite Htt.
    eapply ks_tris_of_in_conv; eassumption.
  - exfalso. apply nth_error_None in E3. rewrite Forall_forall in Hrange.
    specialize (Hrange _ (nth_error_In _ _ Htp)). lia.
Qed.
