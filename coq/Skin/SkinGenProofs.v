(* The generators of Skin.cpp: vertex map from true triangles, mapped triangles from true
   triangles + vertex map, true triangles from mapped triangles. *)
From NiflyVerif Require Import Res UtilModel UtilSpec CompactProofs EraseProofs SkinModel SkinLib.
From Coq Require Import ZifyBool ZifyNat ZifyN Sorted.
Local Open Scope N_scope.

(* ---------------------------------------------------------------------------------------- *)
(* GenerateVertexMapFromTrueTriangles *)

Lemma ks_vset_true (used : list bool) (p : N) :
  p < vlen used ->
  exists u, vset used p true = Some u /\ length u = length used /\
            forall i, vget u i = Some true <-> (vget used i = Some true \/ (i = p)).
Proof.
  intros H. destruct (ks_vset_some used p true H) as (u & E & L & G & O).
  exists u. split; [exact E|]. split; [exact L|]. intros i.
  destruct (N.eq_dec i p) as [->|Hn].
  - rewrite G. tauto.
  - rewrite (O i Hn). split; [tauto|]. intros [?|?]; [assumption|contradiction].
Qed.

Lemma ks_mark_ok : forall (tt : list tri) (used : list bool),
  (forall x, In x (ks_corners tt) -> x < vlen used) ->
  exists u, ks_mark tt used = Ok u /\ length u = length used /\
            forall i, vget u i = Some true <-> (vget used i = Some true \/ In i (ks_corners tt)).
Proof.
  induction tt as [|[[a b] c] tt IH]; intros used H.
  - exists used. cbn. split; [reflexivity|]. split; [reflexivity|]. intros i. tauto.
  - cbn [ks_mark].
    assert (Ha : a < vlen used) by (apply H; cbn; tauto).
    assert (Hb : b < vlen used) by (apply H; cbn; tauto).
    assert (Hc : c < vlen used) by (apply H; cbn; tauto).
    destruct (ks_vset_true used a Ha) as (u1 & E1 & L1 & G1). rewrite E1.
    destruct (ks_vset_true u1 b) as (u2 & E2 & L2 & G2); [unfold vlen in *; lia|]. rewrite E2.
    destruct (ks_vset_true u2 c) as (u3 & E3 & L3 & G3); [unfold vlen in *; lia|]. rewrite E3.
    destruct (IH u3) as (u & E & L & G).
    { intros x Hx. unfold vlen in *. rewrite L3, L2, L1. apply H.
      change ((a, b, c) :: tt) with ([(a, b, c)] ++ tt). rewrite ks_corners_app, in_app_iff. tauto. }
    exists u. split; [exact E|]. split; [lia|]. intros i. rewrite G, G3, G2, G1.
    change ((a, b, c) :: tt) with ([(a, b, c)] ++ tt). rewrite ks_corners_app, in_app_iff. cbn. intuition.
Qed.

Lemma ks_collect_in : forall (l : list bool) (i v : N),
  In v (ks_collect l i) <-> exists k, v = i + N.of_nat k /\ nth_error l k = Some true.
Proof.
  induction l as [|b l IH]; intros i v; cbn [ks_collect].
  - split; [intros []|]. intros (k & _ & E). destruct k; discriminate.
  - split.
    + intros H. destruct b.
      * destruct H as [<-|H]; [exists 0%nat; split; [lia|reflexivity]|].
        apply IH in H. destruct H as (k & -> & E). exists (S k). split; [lia|exact E].
      * apply IH in H. destruct H as (k & -> & E). exists (S k). split; [lia|exact E].
    + intros (k & -> & E). destruct k as [|k]; cbn in E.
      * inversion E; subst. left. lia.
      * assert (In (i + 1 + N.of_nat k) (ks_collect l (i + 1))) by (apply IH; eauto).
        replace (i + N.of_nat (S k)) with (i + 1 + N.of_nat k) by lia.
        destruct b; [right|]; assumption.
Qed.

Lemma ks_collect_ge (l : list bool) (i v : N) : In v (ks_collect l i) -> i <= v.
Proof. intros H. apply ks_collect_in in H. destruct H as (k & -> & _). lia. Qed.

Lemma ks_collect_sorted : forall (l : list bool) (i : N), sorted_lt (ks_collect l i).
Proof.
  unfold sorted_lt. induction l as [|b l IH]; intros i; cbn [ks_collect]; [constructor|].
  destruct b; [|apply IH]. constructor; [apply IH|].
  apply Forall_forall. intros x Hx. apply ks_collect_ge in Hx. lia.
Qed.

Lemma ks_collect_length : forall (l : list bool) (i : N), (length (ks_collect l i) <= length l)%nat.
Proof.
  induction l as [|b l IH]; intros i; cbn [ks_collect length]; [lia|].
  destruct b; cbn [length]; specialize (IH (i + 1)); lia.
Qed.

Lemma ks_repeat_false_get (n : nat) (i : N) : vget (repeat false n) i = Some true -> False.
Proof.
  unfold vget. intros H. apply nth_error_In in H. apply repeat_spec in H. discriminate.
Qed.

(* what GenerateVertexMapFromTrueTriangles establishes, and what it leaves alone *)
Definition ks_same_but_vm (p p' : ks_pb) : Prop :=
  kb_nt p' = kb_nt p /\ kb_nb p' = kb_nb p /\ kb_ns p' = kb_ns p /\ kb_nw p' = kb_nw p /\
  kb_bones p' = kb_bones p /\ kb_hvm p' = kb_hvm p /\ kb_hvw p' = kb_hvw p /\ kb_vw p' = kb_vw p /\
  kb_slens p' = kb_slens p /\ kb_hf p' = kb_hf p /\ kb_strips p' = kb_strips p /\ kb_tris p' = kb_tris p /\
  kb_hbi p' = kb_hbi p /\ kb_bi p' = kb_bi p /\ kb_tt p' = kb_tt p.

Definition ks_vm_exact (p : ks_pb) : Prop :=
  sorted_lt (kb_vm p) /\ (forall x, In x (kb_vm p) <-> In x (ks_corners (kb_tt p))).

Theorem ks_gen_vmap_ok (p : ks_pb) :
  (forall x, In x (ks_corners (kb_tt p)) -> x < 65535) ->
  exists p', ks_pb_gen_vmap p = Ok p' /\ ks_same_but_vm p p' /\ ks_vm_exact p' /\
             kb_nv p' = vlen (kb_vm p') /\ vlen (kb_vm p') < 65536.
Proof.
  intros H. unfold ks_pb_gen_vmap.
  set (mx := max_tri_index (kb_tt p)).
  assert (Hmx : mx < 65535) by (apply ks_max_tri_index_lt; [lia|exact H]).
  destruct (ks_mark_ok (kb_tt p) (repeat false (N.to_nat (mx + 1)))) as (u & E & L & G).
  { intros x Hx. unfold vlen. rewrite repeat_length. pose proof (ks_max_tri_index_ge _ _ Hx). fold mx in H0. lia. }
  rewrite E. cbn [bind].
  rewrite repeat_length in L.
  assert (Hw : wrap16 (vlen u) = vlen u).
  { unfold wrap16, wrapN. apply N.mod_small. unfold vlen. rewrite L. change (2 ^ 16) with 65536. lia. }
  assert (Hf : firstn (N.to_nat (wrap16 (vlen u))) u = u).
  { rewrite Hw. unfold vlen. rewrite Nat2N.id. apply firstn_all. }
  cbv zeta. rewrite Hf.
  set (vm := ks_collect u 0).
  assert (Hlen : vlen vm < 65536).
  { pose proof (ks_collect_length u 0). fold vm in H0. unfold vlen. lia. }
  assert (Hw2 : wrap16 (vlen vm) = vlen vm) by (unfold wrap16, wrapN; apply N.mod_small; exact Hlen).
  eexists. split; [reflexivity|].
  split; [|split; [|split]].
  - unfold ks_same_but_vm, kb_set_nv, kb_set_vm. cbn. repeat split; reflexivity.
  - unfold ks_vm_exact, kb_set_nv, kb_set_vm. cbn [kb_vm kb_tt]. split; [apply ks_collect_sorted|].
    intros x. fold vm. unfold vm. rewrite ks_collect_in. split.
    + intros (k & -> & Ek). assert (Hg : vget u (N.of_nat k) = Some true) by (unfold vget; rewrite Nat2N.id; exact Ek).
      apply G in Hg. destruct Hg as [Hg|Hg]; [exfalso; eapply ks_repeat_false_get; exact Hg|].
      replace (0 + N.of_nat k) with (N.of_nat k) by lia. exact Hg.
    + intros Hx. exists (N.to_nat x). split; [lia|].
      assert (Hg : vget u x = Some true) by (apply G; right; exact Hx). exact Hg.
  - unfold kb_set_nv, kb_set_vm. cbn [kb_nv kb_vm]. fold vm. exact Hw2.
  - unfold kb_set_nv, kb_set_vm. cbn [kb_vm]. fold vm. exact Hlen.
Qed.

(* ---------------------------------------------------------------------------------------- *)
(* GenerateMappedTrianglesFromTrueTrianglesAndVertexMap *)

Definition ks_inv_good (full : list N) (inv : list Z) (x : N) : Prop :=
  exists k, nth_error full k = Some x /\ vget inv x = Some (Z.of_nat k).

Lemma ks_invmap_fill_ok (full : list N) : forall (l pre : list N) (inv : list Z),
  full = pre ++ l ->
  (forall x, In x pre -> ks_inv_good full inv x) ->
  exists inv', ks_invmap_fill l (N.of_nat (length pre)) inv = Ok inv' /\
               forall x, In x full -> ks_inv_good full inv' x.
Proof.
  induction l as [|x0 r IH]; intros pre inv Hf Hg.
  - exists inv. split; [reflexivity|]. intros x Hx. apply Hg. rewrite Hf, app_nil_r in Hx. exact Hx.
  - cbn [ks_invmap_fill].
    set (inv1 := if vlen inv <=? x0 then vresize 0%Z inv (x0 + 1) else inv).
    assert (Hl1 : x0 < vlen inv1).
    { unfold inv1. destruct (N.leb_spec (vlen inv) x0); [|assumption].
      unfold vlen. rewrite ks_vresize_length. lia. }
    assert (Hpres : forall x, x < vlen inv -> vget inv1 x = vget inv x).
    { intros x Hx. unfold inv1. destruct (N.leb_spec (vlen inv) x0); [|reflexivity].
      apply ks_vresize_get; lia. }
    destruct (ks_vset_some inv1 x0 (Z.of_N (N.of_nat (length pre))) Hl1) as (inv2 & E2 & L2 & G2 & O2).
    rewrite E2.
    destruct (IH (pre ++ [x0]) inv2) as (inv' & E' & G').
    { rewrite Hf, <- app_assoc. reflexivity. }
    { intros x Hx. apply in_app_iff in Hx. destruct (N.eq_dec x x0) as [->|Hn].
      - exists (length pre). split.
        + rewrite Hf. rewrite nth_error_app2 by lia. rewrite Nat.sub_diag. reflexivity.
        + rewrite G2. f_equal. lia.
      - destruct Hx as [Hx|[Hx|[]]]; [|congruence].
        destruct (Hg x Hx) as (k & Ek & Gk). exists k. split; [exact Ek|].
        rewrite (O2 x Hn). rewrite Hpres; [exact Gk|]. eapply vget_some_lt. exact Gk. }
    exists inv'. split; [|exact G'].
    rewrite <- E'. f_equal. rewrite app_length. cbn [length]. lia.
Qed.

Lemma ks_invmap_ok (vm : list N) :
  vlen vm < 65536 ->
  exists inv, ks_invmap vm = Ok inv /\ forall x, In x vm -> ks_inv_good vm inv x.
Proof.
  intros H. unfold ks_invmap.
  assert (Hw : wrap16 (vlen vm) = vlen vm) by (unfold wrap16, wrapN; apply N.mod_small; exact H).
  rewrite Hw. unfold vlen at 1. rewrite Nat2N.id, firstn_all.
  apply (ks_invmap_fill_ok vm vm [] _ eq_refl). intros x [].
Qed.

Lemma ks_Forall2_map_l {A B} (R : B -> A -> Prop) (h : A -> B) (l : list A) :
  (forall x, In x l -> R (h x) x) -> Forall2 R (map h l) l.
Proof.
  induction l as [|x l IH]; intros H; cbn; constructor; [apply H; left; reflexivity|].
  apply IH. intros; apply H; right; assumption.
Qed.

Definition ks_vmf (vm : list N) (c : N) : N := nth (N.to_nat c) vm 0.

(* mapped triangle m translates back to true triangle t through the vertex map *)
Definition ks_maps_back (vm : list N) (m t : tri) : Prop :=
  (forall c, In c (ks_corners [m]) -> c < vlen vm) /\ ks_rot_equiv (ks_map_tri (ks_vmf vm) m) t.

Definition ks_same_but_tris (p p' : ks_pb) : Prop :=
  kb_nv p' = kb_nv p /\ kb_nt p' = kb_nt p /\ kb_nb p' = kb_nb p /\ kb_ns p' = kb_ns p /\ kb_nw p' = kb_nw p /\
  kb_bones p' = kb_bones p /\ kb_hvm p' = kb_hvm p /\ kb_vm p' = kb_vm p /\ kb_hvw p' = kb_hvw p /\
  kb_vw p' = kb_vw p /\ kb_slens p' = kb_slens p /\ kb_hf p' = kb_hf p /\ kb_strips p' = kb_strips p /\
  kb_hbi p' = kb_hbi p /\ kb_bi p' = kb_bi p /\ kb_tt p' = kb_tt p.

Lemma ks_store16_small (k : nat) : N.of_nat k < 65536 -> store16 (Z.of_nat k) = N.of_nat k.
Proof. intros H. unfold store16. rewrite Z.mod_small by lia. lia. Qed.

Theorem ks_gen_mapped_ok (p : ks_pb) :
  vlen (kb_vm p) < 65536 -> vlen (kb_tt p) < 2 ^ 31 -> kb_tt p <> [] ->
  (forall x, In x (ks_corners (kb_tt p)) -> In x (kb_vm p)) ->
  exists p', ks_pb_gen_mapped p = Ok p' /\ ks_same_but_tris p p' /\
             Forall2 (ks_maps_back (kb_vm p)) (kb_tris p') (kb_tt p).
Proof.
  intros Hvm Htt Hne Hsub. unfold ks_pb_gen_mapped.
  destruct (kb_tt p) as [|t0 tt0] eqn:Ett; [congruence|].
  destruct (kb_vm p) as [|v0 vm0] eqn:Evm.
  { exfalso. destruct t0 as [[a b] c]. apply (Hsub a). cbn. tauto. }
  cbn [ks_isnil orb]. rewrite <- Evm, <- Ett in *.
  destruct (ks_invmap_ok (kb_vm p) Hvm) as (inv & Einv & Ginv). rewrite Einv. cbn [bind].
  rewrite (apply_map_tris_correct 31 true) by exact Htt. cbn [bind].
  unfold apply_map_spec.
  rewrite ks_apply_all_kept.
  2:{ intros c Hc. destruct (Ginv c (Hsub c Hc)) as (k & Ek & Gk). exists (Z.of_nat k). split; [exact Gk|lia]. }
  cbn [fst]. unfold vlen at 1. rewrite !map_length. fold (vlen (kb_tt p)). rewrite N.eqb_refl.
  eexists. split; [reflexivity|]. split.
  - unfold ks_same_but_tris, kb_set_tris. cbn. repeat split; reflexivity.
  - unfold kb_set_tris. cbn [kb_tris]. rewrite map_map. apply ks_Forall2_map_l.
    intros [[a b] c] Hin.
    assert (Hc : forall x, In x [a; b; c] -> In x (ks_corners (kb_tt p))).
    { intros x Hx. unfold ks_corners. apply in_flat_map. exists (a, b, c). split; [exact Hin|exact Hx]. }
    assert (Hk : forall x, In x [a; b; c] ->
                 exists k, (k < length (kb_vm p))%nat /\ nth_error (kb_vm p) k = Some x /\
                           store16 (nth (N.to_nat x) inv 0%Z) = N.of_nat k).
    { intros x Hx. destruct (Ginv x (Hsub x (Hc x Hx))) as (k & Ek & Gk).
      assert (Hkl : (k < length (kb_vm p))%nat) by (apply nth_error_Some; congruence).
      exists k. split; [exact Hkl|]. split; [exact Ek|].
      unfold vget in Gk. rewrite (nth_error_nth _ _ _ Gk). apply ks_store16_small. unfold vlen in Hvm. lia. }
    destruct (Hk a) as (ka & La & Ea & Sa); [cbn; tauto|].
    destruct (Hk b) as (kb & Lb & Eb & Sb); [cbn; tauto|].
    destruct (Hk c) as (kc & Lc & Ec & Sc); [cbn; tauto|].
    cbv beta iota. rewrite Sa, Sb, Sc.
    set (m0 := (N.of_nat ka, N.of_nat kb, N.of_nat kc)).
    unfold ks_maps_back. split.
    + intros x Hx. apply (proj1 (ks_corners_rot_in _ _)) in Hx. unfold m0 in Hx. cbn in Hx. unfold vlen.
      destruct Hx as [<- | [<- | [<- | []]]]; lia.
    + assert (Hm0 : ks_map_tri (ks_vmf (kb_vm p)) m0 = (a, b, c)).
      { unfold m0, ks_map_tri, ks_vmf. rewrite !Nat2N.id.
        rewrite (nth_error_nth _ _ _ Ea), (nth_error_nth _ _ _ Eb), (nth_error_nth _ _ _ Ec). reflexivity. }
      rewrite <- Hm0. apply ks_rot_equiv_sym. apply ks_map_tri_equiv. apply ks_rot_equiv_rot.
Qed.

(* with an empty true-triangle list the mapped list is emptied as well *)
Lemma ks_gen_mapped_nil (p : ks_pb) :
  kb_tt p = [] -> exists p', ks_pb_gen_mapped p = Ok p' /\ kb_tris p' = [] /\ kb_tt p' = [] /\ kb_vm p' = kb_vm p
                             /\ kb_nv p' = kb_nv p /\ kb_bones p' = kb_bones p /\ kb_vw p' = kb_vw p /\ kb_bi p' = kb_bi p.
Proof.
  intros H. unfold ks_pb_gen_mapped. rewrite H. cbn [ks_isnil]. rewrite Bool.orb_true_r.
  eexists. split; [reflexivity|]. unfold kb_set_nt, kb_set_tris. cbn. rewrite H. repeat split; reflexivity.
Qed.

(* ---------------------------------------------------------------------------------------- *)
(* GenerateTrueTrianglesFromMappedTriangles *)
Theorem ks_gen_true_ok (p : ks_pb) :
  vlen (kb_tris p) < 2 ^ 31 -> kb_tris p <> [] ->
  (forall x, In x (kb_vm p) -> x < 65536) ->
  (forall c, In c (ks_corners (kb_tris p)) -> c < vlen (kb_vm p)) ->
  exists p', ks_pb_gen_true p = Ok p' /\ kb_tris p' = kb_tris p /\ kb_vm p' = kb_vm p /\
             kb_tt p' = map (fun m => ks_rot (ks_map_tri (ks_vmf (kb_vm p)) m)) (kb_tris p).
Proof.
  intros Hlen Hne Hvm Hc. unfold ks_pb_gen_true.
  destruct (kb_tris p) as [|t0 ts0] eqn:Et; [congruence|].
  destruct (kb_vm p) as [|v0 vm0] eqn:Evm.
  { exfalso. destruct t0 as [[a b] c]. assert (a < vlen (@nil N)) by (apply Hc; cbn; tauto). cbn in H. lia. }
  cbn [ks_isnil orb]. rewrite <- Evm, <- Et in *.
  rewrite (apply_map_tris_correct 31 true) by exact Hlen. cbn [bind]. unfold apply_map_spec.
  rewrite ks_apply_all_kept.
  2:{ intros c Hcc. specialize (Hc c Hcc). unfold vlen in Hc.
      rewrite nth_error_map. destruct (nth_error (kb_vm p) (N.to_nat c)) as [x|] eqn:E.
      - exists (Z.of_N x). split; [reflexivity|lia].
      - apply nth_error_None in E. lia. }
  cbn [fst]. unfold vlen at 2. rewrite !map_length. fold (vlen (kb_tris p)). rewrite N.eqb_refl.
  eexists. split; [reflexivity|]. unfold kb_set_tt. cbn [kb_tris kb_vm kb_tt].
  split; [reflexivity|]. split; [reflexivity|].
  rewrite map_map. apply map_ext_in. intros [[a b] c] Hin. f_equal.
  unfold ks_map_tri, ks_vmf.
  assert (Hk : forall x, In x [a; b; c] -> store16 (nth (N.to_nat x) (map Z.of_N (kb_vm p)) 0%Z) = nth (N.to_nat x) (kb_vm p) 0).
  { intros x Hx. assert (Hxl : x < vlen (kb_vm p)).
    { apply Hc. unfold ks_corners. apply in_flat_map. exists (a, b, c). split; [exact Hin|exact Hx]. }
    change 0%Z with (Z.of_N 0). rewrite map_nth. unfold store16.
    assert (nth (N.to_nat x) (kb_vm p) 0 < 65536).
    { apply Hvm. apply nth_In. unfold vlen in Hxl. lia. }
    rewrite Z.mod_small by lia. lia. }
  rewrite (Hk a), (Hk b), (Hk c) by (cbn; tauto). reflexivity.
Qed.
