(* C14 — cloning a shape yields a self-contained copy and leaves the source untouched.
   Statements only. Model: Clone/CloneModel.v (CloneChildren's cloneBlock recursion with reference
   rebinding, pointer rebinding and string registration; CloneNamedNode; the list/graph logic of
   CloneShape). Proofs: Clone/CloneProofs.v, Clone/CloneExtras.v.

   Vocabulary (CloneProofs.v):
   [sget0 S0 n r]       the source block reference r designates (None: empty or not a source block)
   [crel .. dst lo hi d pold pnew r r'] an unresolvable r is copied as is (r' = r); a resolvable r
                        became r', which resolves in dst to a NEW block (index in [lo,hi)) of the same
                        class, with the source block's non-reference fields, strings registered in
                        dst's header, pointers equal to the source's up to the rebinding pair, and
                        child references related hereditarily in the same way (C14_crel_unfold)
   [Post .. st bi .. b st']  the destination stays well formed, every other pre-existing block and
                        every pre-existing object is untouched, header strings only grow, and the
                        child references of block bi are [crel]-related to those of b
   [enum_ok enum]       std::set<NiRef*> visits every reference of a block exactly once
   [fin S0 n d r]       the source below r has depth at most d (no cycle) *)
From NiflyVerif Require Import Res GraphModel GraphInv CopyModel CloneModel CloneProofs CloneExtras.
Local Open Scope N_scope.

(* clone_children_closed, source = another model (any consistent model, any size, any visiting
   order): whenever CloneChildren returns, the closure of the block has been cloned into the
   destination and nothing else was touched *)
Theorem C14_clone_children_closed_other : forall s empty enum, enum_ok enum -> Inv (fh s) ->
  forall fuel st bi b st',
  WF st -> vget (bl st) bi = Some b -> Forall (ref_ok (vlen (blocks (fh s)))) (crefs b) ->
  clone_children (Some s) empty enum fuel st bi = Ok st' ->
  Post (Some s) empty s (vlen (blocks (fh s))) (pred fuel) st bi NPOS NPOS b st'.
Proof. exact clone_children_other. Qed.
Print Assumptions C14_clone_children_closed_other.

(* the same inside ONE model (srcNif == this): the source blocks are those in front of the block
   whose children are cloned *)
Theorem C14_clone_children_closed_same : forall empty enum, enum_ok enum ->
  forall st0 bi, bi <= vlen (bl st0) ->
  (forall r c, r < bi -> vget (bl st0) r = Some c -> Forall (ref_ok bi) (crefs c)) ->
  forall fuel b st',
  WF st0 -> vget (bl st0) bi = Some b -> Forall (ref_ok bi) (crefs b) ->
  clone_children None empty enum fuel st0 bi = Ok st' ->
  Post None empty (cfile st0) bi (pred fuel) st0 bi NPOS NPOS b st'.
Proof. exact clone_children_same. Qed.
Print Assumptions C14_clone_children_closed_same.

(* what [crel] says, one level at a time *)
Theorem C14_crel_unfold : forall empty S0 sbound dst lo hi d pold pnew r r' sb,
  sget0 S0 sbound r = Some sb ->
  crel empty S0 sbound dst lo hi d pold pnew r r' ->
  exists d' db, d = S d' /\ vget (blocks (fh dst)) r' = Some db /\ lo <= r' < hi /\
    tname db = tname sb /\ heap dst (uid db) = heap S0 (uid sb) /\
    ptrs db = (if pold =? NPOS then ptrs sb else map (rebind pold pnew) (ptrs sb)) /\
    (forall x, In x (astrs (heap S0 (uid sb))) -> x <> empty -> In x (fstrs dst)) /\
    Forall2 (crel empty S0 sbound dst lo hi d' (if pold =? NPOS then r else pold) (if pold =? NPOS then r' else pnew))
            (crefs sb) (crefs db).
Proof. exact crel_unfold. Qed.
Print Assumptions C14_crel_unfold.

Theorem C14_crel_unresolved : forall empty S0 sbound dst lo hi d pold pnew r r',
  sget0 S0 sbound r = None -> crel empty S0 sbound dst lo hi d pold pnew r r' -> r' = r.
Proof. exact crel_unresolved. Qed.
Print Assumptions C14_crel_unresolved.

(* source_unchanged when the source IS the destination *)
Theorem C14_source_unchanged_same : forall empty enum, enum_ok enum ->
  forall st0 bi, bi <= vlen (bl st0) ->
  (forall r c, r < bi -> vget (bl st0) r = Some c -> Forall (ref_ok bi) (crefs c)) ->
  forall fuel b st',
  WF st0 -> vget (bl st0) bi = Some b -> Forall (ref_ok bi) (crefs b) ->
  clone_children None empty enum fuel st0 bi = Ok st' ->
  (forall k, k < vlen (bl st0) -> k <> bi -> vget (bl st') k = vget (bl st0) k) /\
  (forall u, u < cnext st0 -> heap (cfile st') u = heap (cfile st0) u) /\
  (forall x, In x (fstrs (cfile st0)) -> In x (fstrs (cfile st'))).
Proof. exact source_unchanged_same. Qed.
Print Assumptions C14_source_unchanged_same.

(* clone_total: on a source of finite depth below the block, any fuel above the depth makes
   CloneChildren return (no fault, no exhaustion) *)
Theorem C14_clone_total_other : forall s empty enum, enum_ok enum -> Inv (fh s) ->
  forall fuel d st bi b,
  WF st -> vget (bl st) bi = Some b -> Forall (ref_ok (vlen (blocks (fh s)))) (crefs b) ->
  Forall (fin s (vlen (blocks (fh s))) d) (crefs b) -> (d < fuel)%nat ->
  exists st', clone_children (Some s) empty enum fuel st bi = Ok st' /\
              Post (Some s) empty s (vlen (blocks (fh s))) (pred fuel) st bi NPOS NPOS b st'.
Proof. exact clone_total_other. Qed.
Print Assumptions C14_clone_total_other.

Theorem C14_clone_total_same : forall empty enum, enum_ok enum ->
  forall st0 bi, bi <= vlen (bl st0) ->
  (forall r c, r < bi -> vget (bl st0) r = Some c -> Forall (ref_ok bi) (crefs c)) ->
  forall fuel d b,
  WF st0 -> vget (bl st0) bi = Some b -> Forall (ref_ok bi) (crefs b) ->
  Forall (fin (cfile st0) bi d) (crefs b) -> (d < fuel)%nat ->
  exists st', clone_children None empty enum fuel st0 bi = Ok st' /\
              Post None empty (cfile st0) bi (pred fuel) st0 bi NPOS NPOS b st'.
Proof. exact clone_total_same. Qed.
Print Assumptions C14_clone_total_same.

(* clone_total_acyclic: a rank decreasing along every resolvable child reference (no cycle) gives
   the explicit fuel bound "largest rank among the block's references + 2" *)
Theorem C14_clone_total_acyclic : forall s empty enum, enum_ok enum -> Inv (fh s) ->
  forall rank fuel st bi b,
  ranked s (vlen (blocks (fh s))) rank ->
  WF st -> vget (bl st) bi = Some b -> Forall (ref_ok (vlen (blocks (fh s)))) (crefs b) ->
  (0 < fuel)%nat -> (forall c, In c (crefs b) -> (S (rank c) < fuel)%nat) ->
  exists st', clone_children (Some s) empty enum fuel st bi = Ok st' /\
              Post (Some s) empty s (vlen (blocks (fh s))) (pred fuel) st bi NPOS NPOS b st'.
Proof. exact clone_total_acyclic_other. Qed.
Print Assumptions C14_clone_total_acyclic.

(* cyclic child references: a consistent source with a self-referencing block below the cloned
   block makes CloneChildren run out of EVERY fuel: the C++ recursion never returns (replayed:
   AddressSanitizer stack-overflow, known finding C14-cyclic-child-refs-recursion) *)
Theorem C14_cyclic_source_refuted :
  exists (s : file) (st : cst) (bi : N) (b : block),
    Inv (fh s) /\ WF st /\ vget (bl st) bi = Some b /\ Forall (ref_ok (vlen (blocks (fh s)))) (crefs b) /\
    forall fuel, clone_children (Some s) 0 enum_canon fuel st bi = OutOfFuel.
Proof. exact cyclic_source_refuted. Qed.
Print Assumptions C14_cyclic_source_refuted.

(* "ptr_rebound" is false for the first level: a block directly below the cloned block whose
   pointer designates that block keeps the SOURCE index (known finding C14-child-pointer-not-rebound) *)
Theorem C14_first_level_pointer_not_rebound_refuted :
  exists st' child,
    clone_children (Some pt_src) 0 enum_canon 3 pt_dst 3 = Ok st' /\
    vget (bl st') 3 = Some (mkBlock 13 1 [4] []) /\
    vget (bl st') 4 = Some child /\ tname child = 2 /\
    ptrs child = [0] /\ ptrs child <> [3].
Proof. exact first_level_pointer_not_rebound_refuted. Qed.
Print Assumptions C14_first_level_pointer_not_rebound_refuted.

(* the bone list CloneShape rebuilds names exactly the source bones that exist in the destination,
   in order; all of them when every name is found *)
Theorem C14_bone_names : forall f names,
  map (node_name_at f) (rebuild_bones f names) =
  map Some (filter (fun n => match find_node f n with Some _ => true | None => false end) names).
Proof. exact rebuild_bones_names. Qed.
Print Assumptions C14_bone_names.

Theorem C14_bone_names_all : forall f names,
  (forall n, In n names -> find_node f n <> None) ->
  map (node_name_at f) (rebuild_bones f names) = map Some names.
Proof. exact rebuild_bones_all. Qed.
Print Assumptions C14_bone_names_all.

(* CloneNamedNode from another model (as repaired): the node appended to the destination carries
   no child reference and no pointer at all - nothing of the source's numbering survives *)
Theorem C14_clone_named_node_clean : forall s st name st' id,
  WF st -> clone_named_node (Some s) st name = (st', id) -> id <> NPOS \/ st' <> st ->
  exists b, id = vlen (bl st) /\ vget (bl st') id = Some b /\
            Forall (fun r => r = NPOS) (crefs b) /\ Forall (fun r => r = NPOS) (ptrs b) /\
            bl st' = bl st ++ [b] /\ WF st'.
Proof. exact clone_named_node_clean. Qed.
Print Assumptions C14_clone_named_node_clean.

(* the canonical visiting order satisfies the hypothesis on enumerations *)
Theorem C14_enum_canon_ok : enum_ok enum_canon.
Proof. exact enum_canon_ok. Qed.
Print Assumptions C14_enum_canon_ok.

(* hypotheses are satisfiable: the two-block source / four-block destination of the pointer
   witness satisfy those of C14_clone_children_closed_other, and CloneChildren returns on them *)
Example C14_hypotheses_satisfiable :
  Inv (fh pt_src) /\ WF pt_dst /\ vget (bl pt_dst) 3 = Some (mkBlock 13 1 [1] []) /\
  Forall (ref_ok (vlen (blocks (fh pt_src)))) [1] /\
  exists st', clone_children (Some pt_src) 0 enum_canon 3 pt_dst 3 = Ok st' /\
              Post (Some pt_src) 0 pt_src (vlen (blocks (fh pt_src))) 2 pt_dst 3 NPOS NPOS (mkBlock 13 1 [1] []) st'.
Proof.
  assert (HW : WF pt_dst).
  { constructor; [reflexivity|]. intros b H. vm_compute in H.
    repeat (destruct H as [<-|H]; [vm_compute; reflexivity|]). contradiction. }
  assert (Hcl : Forall (ref_ok (vlen (blocks (fh pt_src)))) [1]).
  { constructor; [|constructor]. right. vm_compute. reflexivity. }
  split; [exact pt_src_inv|]. split; [exact HW|]. split; [reflexivity|]. split; [exact Hcl|].
  eexists. split; [vm_compute; reflexivity|].
  apply (clone_children_other pt_src 0 enum_canon enum_canon_ok pt_src_inv 3 pt_dst 3 (mkBlock 13 1 [1] [])); auto.
Qed.
