(* C14 — cloning a shape yields a self-contained copy and leaves the source untouched.
   Statements only. Model: Clone/CloneModel.v (CloneChildren's cloneBlock recursion with reference
   rebinding, pointer rebinding and string registration; CloneNamedNode; the list/graph logic of
   CloneShape). Proofs: Clone/CloneProofs.v, Clone/CloneExtras.v.

   Vocabulary (CloneProofs.v):
   [sget0 S0 n r]       the source block reference r designates (None: empty or not a source block)
   [crel .. dst lo hi d pold pnew r r'] an unresolvable r is copied as is (r' = r); a resolvable r
                        became r', which resolves in dst to a NEW block (index in [lo,hi)) of the same
                        class, with the source block's non-reference fields, strings registered in
                        dst's header, pointers equal to the source's up to the rebinding pair, and
                        child references related hereditarily in the same way (C14_crel_unfold)
   [Post .. st bi .. b st']  the destination stays well formed, every other pre-existing block and
                        every pre-existing object is untouched, header strings only grow, and the
                        child references of block bi are [crel]-related to those of b
   [enum_ok enum]       std::set<NiRef*> visits every reference of a block exactly once
   [fin S0 n d r]       the source below r has depth at most d (no cycle)

   The node hierarchy CloneShape rebuilds (the cloneNodes lambda, NifFile.cpp:1373-1426); proofs:
   Clone/CloneHier.v, CloneHierProofs.v, CloneHierTotal.v, instances: CloneHierExamples.v.
   [node_name_at f i]   Some n: block i of f is a node named n
   [kids_at f i]        the childRefs array of the node at index i ([] when there is no node)
   [crefs_at/ptrs_at f i] all child references / pointers of block i
   [HWF st]             the destination is well formed: counters agree, no object in two slots, every
                        node's childRefs window lies inside its reference list
   [SrcWinB s]          the same windows in the source, and where the emptied childRefs of a
                        CloneNamedNode result sits lies inside the result's reference list
   [walk_kids src rec ks st]  the loop over the children of a source node (the model's own anonymous
                        fix, named; C14_hier_walk_is_model_term)
   [src_walk fuel s ks] the pre-order listing of the source nodes below the nodes ks
   [spn s sn]           the name of GetParentNode(sn) in the source (None: no parent / unnamed)
   [ptarget d root o]   the first node of d named o, the root when there is none (or o = None)
   [Steps s root st vs st']  st' is reached from st by one cloneNodes step per source node of vs, in
                        order, each step being one of: name absent -> clone appended as last child of
                        [ptarget]; name present under another parent and target not the root -> the
                        node is moved; otherwise nothing (CloneHier.StepCases); HWF holds at every step *)
From NiflyVerif Require Import Res GraphModel GraphInv CopyModel CloneModel CloneProofs CloneExtras
  CloneHier CloneHierProofs CloneHierTotal CloneHierExamples.
Local Open Scope N_scope.

(* clone_children_closed, source = another model (any consistent model, any size, any visiting
   order): whenever CloneChildren returns, the closure of the block has been cloned into the
   destination and nothing else was touched *)
Theorem C14_clone_children_closed_other : forall s empty enum, enum_ok enum -> Inv (fh s) ->
  forall fuel st bi b st',
  WF st -> vget (bl st) bi = Some b -> Forall (ref_ok (vlen (blocks (fh s)))) (crefs b) ->
  clone_children (Some s) empty enum fuel st bi = Ok st' ->
  Post (Some s) empty s (vlen (blocks (fh s))) (pred fuel) st bi NPOS NPOS b st'.
Proof. exact clone_children_other. Qed.
Print Assumptions C14_clone_children_closed_other.

(* the same inside ONE model (srcNif == this): the source blocks are those in front of the block
   whose children are cloned *)
Theorem C14_clone_children_closed_same : forall empty enum, enum_ok enum ->
  forall st0 bi, bi <= vlen (bl st0) ->
  (forall r c, r < bi -> vget (bl st0) r = Some c -> Forall (ref_ok bi) (crefs c)) ->
  forall fuel b st',
  WF st0 -> vget (bl st0) bi = Some b -> Forall (ref_ok bi) (crefs b) ->
  clone_children None empty enum fuel st0 bi = Ok st' ->
  Post None empty (cfile st0) bi (pred fuel) st0 bi NPOS NPOS b st'.
Proof. exact clone_children_same. Qed.
Print Assumptions C14_clone_children_closed_same.

(* what [crel] says, one level at a time *)
Theorem C14_crel_unfold : forall empty S0 sbound dst lo hi d pold pnew r r' sb,
  sget0 S0 sbound r = Some sb ->
  crel empty S0 sbound dst lo hi d pold pnew r r' ->
  exists d' db, d = S d' /\ vget (blocks (fh dst)) r' = Some db /\ lo <= r' < hi /\
    tname db = tname sb /\ heap dst (uid db) = heap S0 (uid sb) /\
    ptrs db = (if pold =? NPOS then ptrs sb else map (rebind pold pnew) (ptrs sb)) /\
    (forall x, In x (astrs (heap S0 (uid sb))) -> x <> empty -> In x (fstrs dst)) /\
    Forall2 (crel empty S0 sbound dst lo hi d' (if pold =? NPOS then r else pold) (if pold =? NPOS then r' else pnew))
            (crefs sb) (crefs db).
Proof. exact crel_unfold. Qed.
Print Assumptions C14_crel_unfold.

Theorem C14_crel_unresolved : forall empty S0 sbound dst lo hi d pold pnew r r',
  sget0 S0 sbound r = None -> crel empty S0 sbound dst lo hi d pold pnew r r' -> r' = r.
Proof. exact crel_unresolved. Qed.
Print Assumptions C14_crel_unresolved.

(* source_unchanged when the source IS the destination *)
Theorem C14_source_unchanged_same : forall empty enum, enum_ok enum ->
  forall st0 bi, bi <= vlen (bl st0) ->
  (forall r c, r < bi -> vget (bl st0) r = Some c -> Forall (ref_ok bi) (crefs c)) ->
  forall fuel b st',
  WF st0 -> vget (bl st0) bi = Some b -> Forall (ref_ok bi) (crefs b) ->
  clone_children None empty enum fuel st0 bi = Ok st' ->
  (forall k, k < vlen (bl st0) -> k <> bi -> vget (bl st') k = vget (bl st0) k) /\
  (forall u, u < cnext st0 -> heap (cfile st') u = heap (cfile st0) u) /\
  (forall x, In x (fstrs (cfile st0)) -> In x (fstrs (cfile st'))).
Proof. exact source_unchanged_same. Qed.
Print Assumptions C14_source_unchanged_same.

(* clone_total: on a source of finite depth below the block, any fuel above the depth makes
   CloneChildren return (no fault, no exhaustion) *)
Theorem C14_clone_total_other : forall s empty enum, enum_ok enum -> Inv (fh s) ->
  forall fuel d st bi b,
  WF st -> vget (bl st) bi = Some b -> Forall (ref_ok (vlen (blocks (fh s)))) (crefs b) ->
  Forall (fin s (vlen (blocks (fh s))) d) (crefs b) -> (d < fuel)%nat ->
  exists st', clone_children (Some s) empty enum fuel st bi = Ok st' /\
              Post (Some s) empty s (vlen (blocks (fh s))) (pred fuel) st bi NPOS NPOS b st'.
Proof. exact clone_total_other. Qed.
Print Assumptions C14_clone_total_other.

Theorem C14_clone_total_same : forall empty enum, enum_ok enum ->
  forall st0 bi, bi <= vlen (bl st0) ->
  (forall r c, r < bi -> vget (bl st0) r = Some c -> Forall (ref_ok bi) (crefs c)) ->
  forall fuel d b,
  WF st0 -> vget (bl st0) bi = Some b -> Forall (ref_ok bi) (crefs b) ->
  Forall (fin (cfile st0) bi d) (crefs b) -> (d < fuel)%nat ->
  exists st', clone_children None empty enum fuel st0 bi = Ok st' /\
              Post None empty (cfile st0) bi (pred fuel) st0 bi NPOS NPOS b st'.
Proof. exact clone_total_same. Qed.
Print Assumptions C14_clone_total_same.

(* clone_total_acyclic: a rank decreasing along every resolvable child reference (no cycle) gives
   the explicit fuel bound "largest rank among the block's references + 2" *)
Theorem C14_clone_total_acyclic : forall s empty enum, enum_ok enum -> Inv (fh s) ->
  forall rank fuel st bi b,
  ranked s (vlen (blocks (fh s))) rank ->
  WF st -> vget (bl st) bi = Some b -> Forall (ref_ok (vlen (blocks (fh s)))) (crefs b) ->
  (0 < fuel)%nat -> (forall c, In c (crefs b) -> (S (rank c) < fuel)%nat) ->
  exists st', clone_children (Some s) empty enum fuel st bi = Ok st' /\
              Post (Some s) empty s (vlen (blocks (fh s))) (pred fuel) st bi NPOS NPOS b st'.
Proof. exact clone_total_acyclic_other. Qed.
Print Assumptions C14_clone_total_acyclic.

(* cyclic child references: a consistent source with a self-referencing block below the cloned
   block makes CloneChildren run out of EVERY fuel: the C++ recursion never returns (replayed:
   AddressSanitizer stack-overflow, known finding C14-cyclic-child-refs-recursion) *)
Theorem C14_cyclic_source_refuted :
  exists (s : file) (st : cst) (bi : N) (b : block),
    Inv (fh s) /\ WF st /\ vget (bl st) bi = Some b /\ Forall (ref_ok (vlen (blocks (fh s)))) (crefs b) /\
    forall fuel, clone_children (Some s) 0 enum_canon fuel st bi = OutOfFuel.
Proof. exact cyclic_source_refuted. Qed.
Print Assumptions C14_cyclic_source_refuted.

(* "ptr_rebound" is false for the first level: a block directly below the cloned block whose
   pointer designates that block keeps the SOURCE index (known finding C14-child-pointer-not-rebound) *)
Theorem C14_first_level_pointer_not_rebound_refuted :
  exists st' child,
    clone_children (Some pt_src) 0 enum_canon 3 pt_dst 3 = Ok st' /\
    vget (bl st') 3 = Some (mkBlock 13 1 [4] []) /\
    vget (bl st') 4 = Some child /\ tname child = 2 /\
    ptrs child = [0] /\ ptrs child <> [3].
Proof. exact first_level_pointer_not_rebound_refuted. Qed.
Print Assumptions C14_first_level_pointer_not_rebound_refuted.

(* the bone list CloneShape rebuilds names exactly the source bones that exist in the destination,
   in order; all of them when every name is found *)
Theorem C14_bone_names : forall f names,
  map (node_name_at f) (rebuild_bones f names) =
  map Some (filter (fun n => match find_node f n with Some _ => true | None => false end) names).
Proof. exact rebuild_bones_names. Qed.
Print Assumptions C14_bone_names.

Theorem C14_bone_names_all : forall f names,
  (forall n, In n names -> find_node f n <> None) ->
  map (node_name_at f) (rebuild_bones f names) = map Some names.
Proof. exact rebuild_bones_all. Qed.
Print Assumptions C14_bone_names_all.

(* CloneNamedNode from another model (as repaired): the node appended to the destination carries
   no child reference and no pointer at all - nothing of the source's numbering survives *)
Theorem C14_clone_named_node_clean : forall s st name st' id,
  WF st -> clone_named_node (Some s) st name = (st', id) -> id <> NPOS \/ st' <> st ->
  exists b, id = vlen (bl st) /\ vget (bl st') id = Some b /\
            Forall (fun r => r = NPOS) (crefs b) /\ Forall (fun r => r = NPOS) (ptrs b) /\
            bl st' = bl st ++ [b] /\ WF st'.
Proof. exact clone_named_node_clean. Qed.
Print Assumptions C14_clone_named_node_clean.

(* the canonical visiting order satisfies the hypothesis on enumerations *)
Theorem C14_enum_canon_ok : enum_ok enum_canon.
Proof. exact enum_canon_ok. Qed.
Print Assumptions C14_enum_canon_ok.

(* hypotheses are satisfiable: the two-block source / four-block destination of the pointer
   witness satisfy those of C14_clone_children_closed_other, and CloneChildren returns on them *)
Example C14_hypotheses_satisfiable :
  Inv (fh pt_src) /\ WF pt_dst /\ vget (bl pt_dst) 3 = Some (mkBlock 13 1 [1] []) /\
  Forall (ref_ok (vlen (blocks (fh pt_src)))) [1] /\
  exists st', clone_children (Some pt_src) 0 enum_canon 3 pt_dst 3 = Ok st' /\
              Post (Some pt_src) 0 pt_src (vlen (blocks (fh pt_src))) 2 pt_dst 3 NPOS NPOS (mkBlock 13 1 [1] []) st'.
Proof.
  assert (HW : WF pt_dst).
  { constructor; [reflexivity|]. intros b H. vm_compute in H.
    repeat (destruct H as [<-|H]; [vm_compute; reflexivity|]). contradiction. }
  assert (Hcl : Forall (ref_ok (vlen (blocks (fh pt_src)))) [1]).
  { constructor; [|constructor]. right. vm_compute. reflexivity. }
  split; [exact pt_src_inv|]. split; [exact HW|]. split; [reflexivity|]. split; [exact Hcl|].
  eexists. split; [vm_compute; reflexivity|].
  apply (clone_children_other pt_src 0 enum_canon enum_canon_ok pt_src_inv 3 pt_dst 3 (mkBlock 13 1 [1] [])); auto.
Qed.

(* ============================================================================================== *)
(* The node hierarchy rebuilt by CloneShape (cloneNodes). All statements hold for every source and
   destination model the model accepts (no size bound) and every fuel; "whenever the walk returns". *)

(* the named walk IS the model's term (definitional) *)
Theorem C14_hier_walk_is_model_term : forall src fuel st root sn,
  clone_nodes src (S fuel) st root sn =
  bind (clone_node_step src st root sn) (fun r =>
    let '(st1, kids) := r in walk_kids src (fun st k => clone_nodes src fuel st root k) kids st1).
Proof. exact clone_nodes_unfold. Qed.
Print Assumptions C14_hier_walk_is_model_term.

(* from the call of CloneShape (source = another model) to the walk: the invariant is carried through
   AddBlock, AddBlockRef, CloneChildren, SetGeomData and boneRefs.Clear() to the state [st5] where the
   walk over the children of the source root starts; the walk is a [Steps] run over the pre-order
   listing of the source's node tree; the bone list is then rebuilt in [st6] from the source shape's
   bone names *)
Theorem C14_hier_clone_shape_stages : forall compat s empty enum fuel st si name st' did ri rb sri srb0,
  get_root (cfile st) = Some (ri, rb) -> get_root s = Some (sri, srb0) ->
  HWF st -> SrcWinB s ->
  clone_shape compat (Some s) empty enum fuel st si name = Ok (st', did) ->
  exists (sb : block) (st5 st6 : cst) (cont : option (N * block * N * N)),
    vget (blocks (fh s)) si = Some sb /\
    HWF st5 /\ ri < vlen (bl st5) /\ vlen (bl st) < vlen (bl st5) /\
    walk_kids (Some s) (fun st k => clone_nodes (Some s) fuel st ri k) (kids_at s sri) st5 = Ok st6 /\
    Steps s ri st5 (src_walk fuel s (kids_at s sri)) st6 /\
    match cont with
    | Some (ci, _, _, _) => set_bone_ptrs (cfile st6) ci (rebuild_bones (cfile st6) (shape_bone_names s sb))
    | None => Ok (cfile st6)
    end = Ok (cfile st') /\ cnext st' = cnext st6.
Proof. exact clone_shape_other_stages_hwf. Qed.
Print Assumptions C14_hier_clone_shape_stages.

(* one cloneNodes call / the walk over a list of children, as a [Steps] run *)
Theorem C14_hier_nodes_steps : forall s, SrcWin s -> forall root fuel st sn snb st',
  HWF st -> root < vlen (bl st) ->
  vget (blocks (fh s)) sn = Some snb -> is_node s snb = true ->
  clone_nodes (Some s) fuel st root sn = Ok st' -> Steps s root st (src_nodes fuel s sn) st'.
Proof. exact clone_nodes_steps. Qed.
Print Assumptions C14_hier_nodes_steps.

Theorem C14_hier_walk_steps : forall s, SrcWin s -> forall root fuel ks st st',
  HWF st -> root < vlen (bl st) ->
  walk_kids (Some s) (fun st k => clone_nodes (Some s) fuel st root k) ks st = Ok st' ->
  Steps s root st (src_walk fuel s ks) st'.
Proof. exact walk_kids_steps. Qed.
Print Assumptions C14_hier_walk_steps.

(* (a) every visited source node's name is carried by a node of the destination afterwards ... *)
Theorem C14_hier_bones_found : forall s root st vs st', Steps s root st vs st' ->
  forall sn bone, In sn vs -> node_name_at s sn = Some bone -> find_node (cfile st') bone <> None.
Proof. exact steps_found. Qed.
Print Assumptions C14_hier_bones_found.

(* ... exactly once when it was absent: every block appended by the walk is a node carrying the name
   of a visited source node, and NO other block of the destination, old or new, carries that name
   (so a name that existed is reused, never duplicated) *)
Theorem C14_hier_created_once : forall s root st vs st', Steps s root st vs st' ->
  forall n, vlen (bl st) <= n < vlen (bl st') ->
  exists sn bone, In sn vs /\ node_name_at s sn = Some bone /\
    node_name_at (cfile st') n = Some bone /\
    (forall i, node_name_at (cfile st') i = Some bone -> i = n).
Proof. exact steps_new_unique. Qed.
Print Assumptions C14_hier_created_once.

(* the list the clone's bone pointers are rebuilt from names the same bones in the same order, each a
   node of the destination, when every bone name of the source shape is the name of a visited node *)
Theorem C14_hier_bone_list : forall s, SrcWin s -> forall root st vs st' names,
  Steps s root st vs st' ->
  (forall n, In n names -> exists sn, In sn vs /\ node_name_at s sn = Some n) ->
  map (node_name_at (cfile st')) (rebuild_bones (cfile st') names) = map Some names.
Proof. exact bones_exist_after_walk. Qed.
Print Assumptions C14_hier_bone_list.

(* (b) a created node hangs, in the FINAL destination, under the first node named like its source
   parent (GetParentNode in the source), under the destination root when there is none. Side
   conditions: the name was absent, it is visited once, and no node named like the parent is visited
   at or after the node (in a tree the parent comes first) *)
Theorem C14_hier_created_parent : forall s root st vs st', Steps s root st vs st' ->
  forall vs1 sn vs2 bone, vs = vs1 ++ sn :: vs2 -> node_name_at s sn = Some bone ->
  find_node (cfile st) bone = None ->
  (forall sn', In sn' (vs1 ++ vs2) -> node_name_at s sn' <> Some bone) ->
  (forall pn sn', spn s sn = Some pn -> In sn' (sn :: vs2) -> node_name_at s sn' <> Some pn) ->
  exists n, vlen (bl st) <= n < vlen (bl st') /\ node_name_at (cfile st') n = Some bone /\
            In n (kids_at (cfile st') (ptarget (cfile st') root (spn s sn))).
Proof. exact steps_new_parent. Qed.
Print Assumptions C14_hier_created_parent.

(* (c) nothing that existed is removed, moved to another index, renamed or rewritten: same object,
   class, pointers, strings, payload, node-ness and name; a block that is not a node is exactly what
   it was; header strings untouched *)
Theorem C14_hier_existing_kept : forall s root st vs st', Steps s root st vs st' ->
  vlen (bl st) <= vlen (bl st') /\ fstrs (cfile st') = fstrs (cfile st) /\
  forall i b, vget (bl st) i = Some b ->
    exists b', vget (bl st') i = Some b' /\ uid b' = uid b /\ tname b' = tname b /\ ptrs b' = ptrs b /\
      astrs (heap (cfile st') (uid b')) = astrs (heap (cfile st) (uid b)) /\
      atok (heap (cfile st') (uid b')) = atok (heap (cfile st) (uid b)) /\
      is_node (cfile st') b' = is_node (cfile st) b /\ name_of (cfile st') b' = name_of (cfile st) b /\
      (is_node (cfile st) b = false -> b' = b /\ heap (cfile st') (uid b') = heap (cfile st) (uid b)).
Proof. exact steps_existing_kept. Qed.
Print Assumptions C14_hier_existing_kept.

(* (c) parents: whatever does not carry the name of a visited source node is a child of exactly the
   nodes it was a child of *)
Theorem C14_hier_parent_kept : forall s root st vs st', Steps s root st vs st' ->
  forall c, c <> NPOS -> c < vlen (bl st) ->
  (forall sn bone, In sn vs -> node_name_at s sn = Some bone -> node_name_at (cfile st) c <> Some bone) ->
  forall p, In c (kids_at (cfile st') p) <-> In c (kids_at (cfile st) p).
Proof. exact steps_parent_kept. Qed.
Print Assumptions C14_hier_parent_kept.

(* ... but a destination node that DOES carry a visited name can be re-parented (the C++ moves an
   existing node below the node named like its source parent): "never re-parented" is false *)
Theorem C14_existing_node_reparented_refuted :
  exists s st vs st' root c p p',
    HWF st /\ SrcWin s /\ Steps s root st vs st' /\
    c < vlen (bl st) /\ In c (kids_at (cfile st) p) /\ ~ In c (kids_at (cfile st') p) /\
    p' <> p /\ In c (kids_at (cfile st') p').
Proof. exact existing_node_reparented_refuted. Qed.
Print Assumptions C14_existing_node_reparented_refuted.

(* (e) child references from index [lo] on that were empty or inside the destination are so
   afterwards (lo = 0: the whole destination; lo = the old block count: the created nodes alone, with
   no hypothesis); the created nodes hold no pointer at all *)
Theorem C14_hier_refs_closed : forall s root st vs st' lo, Steps s root st vs st' ->
  (forall i, lo <= i -> Forall (ref_ok (vlen (bl st))) (crefs_at (cfile st) i)) ->
  (forall i, lo <= i -> Forall (ref_ok (vlen (bl st'))) (crefs_at (cfile st') i)).
Proof. exact steps_closed. Qed.
Print Assumptions C14_hier_refs_closed.

Theorem C14_hier_created_no_ptrs : forall s root st vs st', Steps s root st vs st' ->
  forall n, vlen (bl st) <= n < vlen (bl st') -> Forall (fun r => r = NPOS) (ptrs_at (cfile st') n).
Proof. exact steps_new_ptrs. Qed.
Print Assumptions C14_hier_created_no_ptrs.

(* (d) source = the destination itself (srcNif == this), as repaired (known finding
   C14-same-model-duplicate-names-reparented, fixed): CloneShape performs NO walk. For ALL models, no
   hypothesis on names: every pre-existing block keeps its name and its children - hence every node its
   parent -, except that the clone (did = the old block count) is appended to the children of the
   source shape's parent [po] (source = another model: the source is a read-only parameter of the
   model; that the C++ does not write it is observed by the correspondence check) *)
Theorem C14_hier_same_model_kept : forall compat empty enum fuel st si name st' did,
  HWF st -> clone_shape compat None empty enum fuel st si name = Ok (st', did) ->
  did = vlen (bl st) /\ vlen (bl st) < vlen (bl st') /\
  (forall i, i < vlen (bl st) -> node_name_at (cfile st') i = node_name_at (cfile st) i) /\
  exists po : option N,
    (forall p, po = Some p -> p < vlen (bl st) -> In si (kids_at (cfile st) p)) /\
    (forall i, i < vlen (bl st) ->
       kids_at (cfile st') i = kids_at (cfile st) i ++ match po with Some p => if i =? p then [did] else [] | None => [] end).
Proof. exact same_model_hierarchy_kept. Qed.
Print Assumptions C14_hier_same_model_kept.

(* the walk the C++ no longer performs inside one model changed nothing when node names are pairwise
   different: the repair does not alter the behaviour on such models *)
Theorem C14_hier_same_model_identity : forall fuel root ks st st',
  names_unique (cfile st) ->
  walk_kids None (fun st k => clone_nodes None fuel st root k) ks st = Ok st' -> st' = st.
Proof. exact same_model_walk_identity. Qed.
Print Assumptions C14_hier_same_model_identity.

(* the former witness of the defect (two nodes of one name): nothing but the appended clone changes *)
Example C14_same_model_duplicate_names_kept :
  exists st' did,
    HWF dup_st /\ ~ names_unique (cfile dup_st) /\
    clone_shape (fun _ _ => false) None 0 enum_canon 5 dup_st 4 300 = Ok (st', did) /\ did = 5 /\
    map (kids_at (cfile dup_st)) [0; 1; 2; 3] = [[1; 2; 4]; []; [3]; []] /\
    map (kids_at (cfile st')) [0; 1; 2; 3] = [[1; 2; 4; did]; []; [3]; []] /\
    map (node_name_at (cfile st')) [0; 1; 2; 3] = map (node_name_at (cfile dup_st)) [0; 1; 2; 3].
Proof. exact same_model_duplicate_names_kept. Qed.

(* a bone that is not below the source root is not walked: the clone's bone list drops it *)
Theorem C14_unreachable_bone_dropped_refuted :
  exists s st sb st' did db,
    vget (blocks (fh s)) 2 = Some sb /\ shape_bone_names s sb = [101] /\
    clone_shape (fun _ _ => false) (Some s) 0 enum_canon 5 st 2 300 = Ok (st', did) /\
    vget (bl st') did = Some db /\ shape_bone_names (cfile st') db = [] /\
    find_node (cfile st') 101 = None.
Proof. exact unreachable_bone_dropped_refuted. Qed.
Print Assumptions C14_unreachable_bone_dropped_refuted.

(* the walk returns: every source node named, node tree of depth <= fuel below the walked nodes,
   destination root a node *)
Theorem C14_hier_walk_total : forall s, SrcWin s -> nblocks (fh s) <= vlen (blocks (fh s)) ->
  (forall i b, vget (blocks (fh s)) i = Some b -> is_node s b = true -> name_of s b <> None) ->
  forall root fuel ks st,
  HWF st -> node_at (cfile st) root ->
  (forall k, In k ks -> src_node s k = true -> sfin s fuel k) ->
  exists st', walk_kids (Some s) (fun st k => clone_nodes (Some s) fuel st root k) ks st = Ok st'.
Proof. exact walk_kids_total. Qed.
Print Assumptions C14_hier_walk_total.

(* hypotheses are satisfiable on a non-trivial instance: source Root -> B1 -> B2 -> B3 (a three-level
   bone chain) with a shape skinned to the three; destination Root -> B2 (one bone already present).
   The walk visits B1 B2 B3, is a [Steps] run from a well-formed destination, ends in the hierarchy
   Root -> B1 -> B2 -> B3 with B1, B3 created and B2 reused; steps_new_parent applies to B3 and B1;
   the totality theorem applies; CloneShape as a whole returns with the bone list B1 B2 B3 *)
Example C14_hier_hypotheses_satisfiable :
  HWF ex_dst /\ SrcWinB ex_src /\
  src_walk 5 ex_src (kids_at ex_src 0) = [1; 2; 3] /\
  Steps ex_src 0 ex_dst [1; 2; 3] ex_final /\
  map (fun i => (node_name_at (cfile ex_final) i, kids_at (cfile ex_final) i)) [0; 1; 2; 3] =
    [(Some 100, [NPOS; 2]); (Some 102, [3]); (Some 101, [1]); (Some 103, [])] /\
  (exists n, vlen (bl ex_dst) <= n < vlen (bl ex_final) /\ node_name_at (cfile ex_final) n = Some 103 /\
             In n (kids_at (cfile ex_final) 1)) /\
  (exists n, vlen (bl ex_dst) <= n < vlen (bl ex_final) /\ node_name_at (cfile ex_final) n = Some 101 /\
             In n (kids_at (cfile ex_final) 0)) /\
  (exists st', walk_kids (Some ex_src) (fun st k => clone_nodes (Some ex_src) 3 st 0 k) (kids_at ex_src 0) ex_dst = Ok st') /\
  (exists ri rb sri srb st' did db,
    get_root (cfile ex_dst) = Some (ri, rb) /\ get_root ex_src = Some (sri, srb) /\
    HWF ex_dst /\ SrcWinB ex_src /\
    clone_shape (fun _ _ => false) (Some ex_src) 0 enum_canon 5 ex_dst 4 300 = Ok (st', did) /\
    vget (bl st') did = Some db /\ shape_bone_names (cfile st') db = [101; 102; 103]).
Proof.
  split; [exact ex_dst_hwf|]. split; [exact ex_src_winb|]. split; [exact ex_preorder|]. split; [exact ex_steps|].
  split; [exact ex_final_hierarchy|]. split; [exact ex_new_parent_applies|]. split; [exact ex_new_parent_applies_root|].
  split; [exact ex_total_applies|exact ex_clone_shape].
Qed.
