(* C09 — deleting vertices keeps a shape and its skin data consistent.
   Only statements, each closed by [exact] of a lemma proved in coq/Geom/*.v, and their
   assumptions. The models (Geom/GeomModel.v) mirror every notifyVerticesDelete override and
   NifFile::DeleteVertsForShape line by line on top of the utility models of C18. *)
From NiflyVerif Require Import Res UtilModel UtilSpec EraseProofs GeomModel GeomBase GeomSpec GeomProofs
  GeomSkinProofs GeomPartProofs GeomStripProofs RefitProofs GeomShapeProofs GeomTwice.
Local Open Scope N_scope.

(* ---- NiTriShapeData (NiTriShape of OB / FO3 / SK): for every well-formed data block and every
   strictly ascending index list the model returns exactly: survivors, in order, of the vertex
   array and of every per-vertex array; the triangles none of whose corners was deleted,
   re-indexed, in order; counters recomputed from the lengths. *)
Theorem C09_trishape_delete : forall g idx,
  sorted_lt idx -> gd_kind g = GKTriShape -> gd_wf g = true ->
  gd_delete g idx = Ok (gd_trishape_spec g idx).
Proof. exact gd_trishape_delete_ok. Qed.
Print Assumptions C09_trishape_delete.

(* ... and the result is well-formed again: counters = lengths, every per-vertex array has one
   element per remaining vertex, every triangle corner < new vertex count. Being an invariant, it
   covers repeated deletions. *)
Theorem C09_trishape_wf_preserved : forall g idx,
  gd_kind g = GKTriShape -> gd_wf g = true -> gd_wf (gd_trishape_spec g idx) = true.
Proof. exact gd_trishape_spec_wf. Qed.
Print Assumptions C09_trishape_wf_preserved.

(* the triangle part of the spec is the utility spec of C18 applied to the collapse map *)
Theorem C09_tris_spec_is_apply_map : forall idx n tris,
  n <= 65536 -> forallb (tri_lt n) tris = true ->
  apply_map_spec tris (collapse_spec idx n) = (tris_spec idx tris, del_pos idx tris).
Proof. exact apply_map_spec_collapse. Qed.
Print Assumptions C09_tris_spec_is_apply_map.

(* the new vertex count is the number of unlisted positions *)
Theorem C09_survivor_count : forall (A : Type) (v : list A) idx,
  vlen (erase_spec v idx) = rank idx (vlen v).
Proof. exact @erase_spec_vlen. Qed.
Print Assumptions C09_survivor_count.

(* ---- NiLinesData and a bare NiGeometryData *)
Theorem C09_lines_delete : forall g idx,
  sorted_lt idx -> gd_kind g = GKLines -> gd_wf g = true -> gd_delete g idx = Ok (gd_lines_spec g idx).
Proof. exact gd_lines_delete_ok. Qed.
Print Assumptions C09_lines_delete.

(* ---- NiTriStripsData. The code itself says its strip deletion "is not healthy": a point is simply
   taken out of its strip, so windows that did not exist before may appear. What holds, and is
   proved: every strip keeps exactly its surviving points, re-indexed, in order; hence every strip
   point is below the new vertex count and the strip lengths agree with the strips (gd_wf). Nothing
   is claimed about the triangles the strips then denote. *)
Theorem C09_tristrips_delete : forall g idx,
  sorted_lt idx -> gd_kind g = GKTriStrips -> gd_wf g = true ->
  gd_delete g idx = Ok (gd_tristrips_spec g idx).
Proof. exact gd_tristrips_delete_ok. Qed.
Print Assumptions C09_tristrips_delete.

Theorem C09_tristrips_indices_valid : forall g idx,
  gd_kind g = GKTriStrips -> gd_wf g = true -> gd_wf (gd_tristrips_spec g idx) = true.
Proof. exact gd_tristrips_spec_wf. Qed.
Print Assumptions C09_tristrips_indices_valid.

(* ---- BSTriShape (SSE / FO4 / FO76), BSDynamicTriShape, BSMeshLODTriShape *)
Theorem C09_bstrishape_delete : forall b idx,
  sorted_lt idx -> bs_core_wf b = true -> bs_base_delete b idx = Ok (bs_base_spec b idx).
Proof. exact bs_base_delete_ok. Qed.
Print Assumptions C09_bstrishape_delete.

Theorem C09_bsplain_delete : forall b idx,
  sorted_lt idx -> bs_kind b = BSPlain -> bs_core_wf b = true -> bs_delete b idx = Ok (bs_base_spec b idx).
Proof. exact bs_plain_delete_ok. Qed.
Print Assumptions C09_bsplain_delete.

Theorem C09_bsdynamic_delete : forall b idx,
  sorted_lt idx -> bs_kind b = BSDynamic -> bs_core_wf b = true -> bs_delete b idx = Ok (bs_dyn_spec b idx).
Proof. exact bs_dyn_delete_ok. Qed.
Print Assumptions C09_bsdynamic_delete.

Theorem C09_bsmeshlod_delete : forall b idx,
  sorted_lt idx -> bs_kind b = BSMeshLOD -> bs_core_wf b = true -> bs_delete b idx = Ok (bs_lod_spec b idx).
Proof. exact bs_lod_delete_ok. Qed.
Print Assumptions C09_bsmeshlod_delete.

Theorem C09_bstrishape_wf_preserved : forall b idx,
  bs_core_wf b = true -> bs_kind b <> BSDynamic -> bs_core_wf (bs_base_spec b idx) = true.
Proof. exact bs_base_spec_wf. Qed.
Print Assumptions C09_bstrishape_wf_preserved.

Theorem C09_bsdynamic_wf_preserved : forall b idx,
  bs_kind b = BSDynamic -> bs_core_wf b = true -> bs_core_wf (bs_dyn_spec b idx) = true.
Proof. exact bs_dyn_spec_wf. Qed.
Print Assumptions C09_bsdynamic_wf_preserved.

(* ---- NiSkinData: every bone keeps exactly the weights of surviving vertices, re-indexed, in
   order; [idx_ok]: non-empty (the orchestrator's guard), strictly ascending, below 65535 *)
Theorem C09_skindata_delete : forall idx nv bones,
  idx_ok idx -> nv <= 65536 -> forallb (bone_wf nv) bones = true ->
  skindata_delete bones idx = Ok (map (bone_spec idx) bones).
Proof. exact skindata_delete_ok. Qed.
Print Assumptions C09_skindata_delete.

Theorem C09_skindata_wf_preserved : forall idx nv b,
  bone_wf nv b = true -> bone_wf (rank idx nv) (bone_spec idx b) = true.
Proof. exact bone_spec_wf. Qed.
Print Assumptions C09_skindata_wf_preserved.

(* ---- LOCKEDNORM lists: sorted, survivors re-indexed, all below the new vertex count *)
Theorem C09_lockednorm_delete : forall idx v,
  idx_ok idx -> vlen v < 4294967295 -> Forall (fun x => x < 4294967296) v ->
  lockednorm_delete v idx = Ok (locked_spec idx v).
Proof. exact lockednorm_delete_ok. Qed.
Print Assumptions C09_lockednorm_delete.

Theorem C09_lockednorm_in_range : forall idx nv v,
  Forall (fun x => x < nv) v -> Forall (fun x => x < rank idx nv) (locked_spec idx v).
Proof. exact locked_spec_lt. Qed.
Print Assumptions C09_lockednorm_in_range.

(* ---- NiSkinPartition. A partition is "prepared" when it has no strips and both its vertex map and
   its triangle list are present ([part_wf]; this is what UpdateSkinPartitions and a loaded SSE / LE
   file give). For such a partition the loop keeps the vertex-map entries of surviving vertices,
   re-indexed, the per-vertex weights and bone indices at the same positions, and the triangles
   none of whose corners was deleted, re-indexed (through the vertex map when the partition stores
   mapped indices). [n] is the size of the collapse map the code derives from the largest index. *)
Theorem C09_partition_delete : forall idx n nv mapped p,
  sorted_lt idx -> n <= 65536 -> Forall (fun v => v < n) (p_vmap p) ->
  (mapped = false -> forallb (tri_lt n) (p_tris p) = true) -> part_wf nv mapped p = true ->
  part_delete mapped (collapse_spec idx n) p = Ok (part_spec idx mapped p).
Proof. exact part_delete_ok. Qed.
Print Assumptions C09_partition_delete.

(* ... and stays prepared with all indices below the new vertex count, unless it lost every
   triangle (then RemoveEmptyPartitions drops it, see C09_skin_delete) *)
Theorem C09_partition_wf_preserved : forall idx nv mapped p,
  part_wf nv mapped p = true -> p_nt (part_spec idx mapped p) <> 0 ->
  part_wf (rank idx nv) mapped (part_spec idx mapped p) = true.
Proof. exact part_spec_wf. Qed.
Print Assumptions C09_partition_wf_preserved.

Theorem C09_skinpartition_delete : forall idx nv sp,
  idx <> [] -> sorted_lt idx -> skinpart_wf nv sp = true ->
  skinpart_delete sp idx =
  Ok (mkSkinpart (sp_np sp) (if isnil (sp_vdata sp) then sp_nv sp else vlen (erase_spec (sp_vdata sp) idx))
                 (erase_spec (sp_vdata sp) idx)
                 (map (part_spec idx (sp_mapped sp)) (sp_parts sp)) (sp_mapped sp) []).
Proof. exact skinpart_delete_ok. Qed.
Print Assumptions C09_skinpartition_delete.

(* ---- the skin instance: NiSkinData, NiSkinPartition followed by RemoveEmptyPartitions, and the
   BSDismemberSkinInstance partition list kept aligned with the partitions that remain *)
Theorem C09_skin_delete : forall idx nv k,
  idx_ok idx -> nv <= 65536 -> skin_wf nv k = true -> skin_delete k idx = Ok (skin_spec idx k).
Proof. exact skin_delete_ok. Qed.
Print Assumptions C09_skin_delete.

Theorem C09_skin_wf_preserved : forall idx nv k,
  nv < 65536 -> skin_wf nv k = true -> skin_wf (rank idx nv) (skin_spec idx k) = true.
Proof. exact skin_spec_wf. Qed.
Print Assumptions C09_skin_wf_preserved.

(* ---- BSSubIndexTriShape: vertex data and triangles as for BSTriShape; the segment tables are
   re-fitted ([bs_sits_spec], see C17 for what the re-fit keeps and what it breaks). Segment and
   sub-segment ranges stay inside the new triangle list: C17_refit_keeps_ranges. *)
Theorem C09_bssubindex_delete : forall b idx,
  sorted_lt idx -> bs_kind b = BSSubIndex -> bs_core_wf b = true -> seg_tables_wf b = true ->
  bs_delete b idx = Ok (bs_sits_spec b idx).
Proof. exact bs_sits_delete_ok. Qed.
Print Assumptions C09_bssubindex_delete.

(* ---- NifFile::DeleteVertsForShape as a whole, for every geometry kind (NiTriShapeData,
   NiTriStripsData, BSTriShape, BSDynamicTriShape, BSMeshLODTriShape, BSSubIndexTriShape) with or
   without a skin instance, with LOCKEDNORM lists ([shape_wf]): no fault, and the result is
   [shape_spec] = the per-block results above *)
Theorem C09_delete_verts : forall s idx,
  idx_ok idx -> shape_wf s = true -> exists flag, delete_verts s idx = Ok (shape_spec idx s, flag).
Proof. exact delete_verts_ok. Qed.
Print Assumptions C09_delete_verts.

(* every index anywhere below the new vertex count, counters = lengths: the invariant is kept *)
Theorem C09_shape_wf_preserved : forall idx s, shape_wf s = true -> shape_wf (shape_spec idx s) = true.
Proof. exact shape_spec_wf. Qed.
Print Assumptions C09_shape_wf_preserved.

Theorem C09_new_vertex_count : forall idx s, shape_nv (shape_spec idx s) = rank idx (shape_nv s).
Proof. exact shape_spec_nv. Qed.
Print Assumptions C09_new_vertex_count.

(* histories: any number of consecutive deletions *)
Theorem C09_delete_history : forall steps s, shape_wf s = true -> Forall idx_ok steps ->
  exists s', delete_history s steps = Ok s' /\ shape_wf s' = true.
Proof. exact delete_history_ok. Qed.
Print Assumptions C09_delete_history.

(* ---- deleting twice = deleting the union of the first list and the second list translated back
   ([union2], strictly ascending and inside the vertex range again) *)
Theorem C09_union_sorted : forall idx1 idx2 n, sorted_lt (union2 idx1 idx2 n).
Proof. exact union2_sorted. Qed.
Print Assumptions C09_union_sorted.

Theorem C09_erase_twice : forall (A : Type) (v : list A) idx1 idx2,
  erase_spec (erase_spec v idx1) idx2 = erase_spec v (union2 idx1 idx2 (vlen v)).
Proof. exact @erase_spec_twice. Qed.
Print Assumptions C09_erase_twice.

Theorem C09_tris_twice : forall idx1 idx2 n tris, forallb (tri_lt n) tris = true ->
  tris_spec idx2 (tris_spec idx1 tris) = tris_spec (union2 idx1 idx2 n) tris.
Proof. exact tris_spec_twice. Qed.
Print Assumptions C09_tris_twice.

Theorem C09_trishape_twice : forall g idx1 idx2, gd_kind g = GKTriShape -> gd_wf g = true ->
  gd_trishape_spec (gd_trishape_spec g idx1) idx2 = gd_trishape_spec g (union2 idx1 idx2 (vlen (gd_verts g))).
Proof. exact gd_trishape_spec_twice. Qed.
Print Assumptions C09_trishape_twice.

Theorem C09_bstrishape_twice : forall b idx1 idx2, bs_core_wf b = true ->
  let u := union2 idx1 idx2 (vlen (bs_vdata b)) in
  bs_vdata (bs_base_spec (bs_base_spec b idx1) idx2) = bs_vdata (bs_base_spec b u) /\
  bs_tris (bs_base_spec (bs_base_spec b idx1) idx2) = bs_tris (bs_base_spec b u) /\
  bs_nv (bs_base_spec (bs_base_spec b idx1) idx2) = bs_nv (bs_base_spec b u) /\
  bs_nt (bs_base_spec (bs_base_spec b idx1) idx2) = bs_nt (bs_base_spec b u).
Proof. exact bs_base_spec_twice. Qed.
Print Assumptions C09_bstrishape_twice.

Theorem C09_weights_twice : forall idx1 idx2 n ws, forallb (fun x => fst x <? n) ws = true ->
  weights_spec idx2 (weights_spec idx1 ws) = weights_spec (union2 idx1 idx2 n) ws.
Proof. exact weights_spec_twice. Qed.
Print Assumptions C09_weights_twice.

(* ---- non-vacuity: a well-formed NiTriShapeData, a BSTriShape and a bone, with results *)
Definition C09_ex_gdata : gdata :=
  mkGdata GKTriShape 5 [10; 11; 12; 13; 14] [20; 21; 22; 23; 24] [] [] [] [[30; 31; 32; 33; 34]]
          3 9 [(0, 1, 2); (2, 3, 4); (0, 2, 4)] [] [] [].

Example C09_example_trishape :
  gd_wf C09_ex_gdata = true /\ sorted_lt [1; 3] /\
  gd_delete C09_ex_gdata [1; 3] =
  Ok (mkGdata GKTriShape 3 [10; 12; 14] [20; 22; 24] [] [] [] [[30; 32; 34]] 1 3 [(0, 1, 2)] [] [] []).
Proof. repeat split; try reflexivity; repeat constructor. Qed.

Example C09_example_skindata :
  idx_ok [1; 3] /\ forallb (bone_wf 5) [mkBone 3 [(0, 7); (1, 8); (4, 9)]] = true /\
  skindata_delete [mkBone 3 [(0, 7); (1, 8); (4, 9)]] [1; 3] = Ok [mkBone 2 [(0, 7); (2, 9)]].
Proof.
  repeat split; try reflexivity; try discriminate; repeat constructor.
Qed.

(* a skinned NiTriShape with NiSkinData, one mapped partition, a dismember list and a LOCKEDNORM
   list: well-formed, and the orchestrator's result on [1; 3] *)
Definition C09_ex_shape : shape :=
  mkShape (Some C09_ex_gdata) None
          (Some (mkSkin (Some [mkBone 3 [(0, 7); (1, 8); (4, 9)]])
                        (Some (mkSkinpart 1 0 []
                                 [mkPart 5 3 0 [0; 1; 2; 3; 4] true [50; 51; 52; 53; 54] false [] [] true []
                                         [(0, 1, 2); (2, 3, 4); (0, 2, 4)] []] true []))
                        (Some [32])))
          [[4; 1; 0]].

Example C09_example_shape :
  shape_wf C09_ex_shape = true /\ idx_ok [1; 3] /\
  exists s', delete_verts C09_ex_shape [1; 3] = Ok (s', false) /\ shape_wf s' = true /\
    sh_locked s' = [[0; 2]] /\
    option_map gd_tris (sh_gdata s') = Some [(0, 1, 2)].
Proof.
  split; [vm_compute; reflexivity|].
  split; [repeat split; try discriminate; repeat constructor|].
  eexists. split; [vm_compute; reflexivity|]. repeat split; vm_compute; reflexivity.
Qed.
