(* C09 — deleting vertices keeps a shape and its skin data consistent.
   Only statements, each closed by [exact] of a lemma proved in coq/Geom/*.v, and their
   assumptions. The models (Geom/GeomModel.v) mirror every notifyVerticesDelete override and
   NifFile::DeleteVertsForShape line by line on top of the utility models of C18. *)
From NiflyVerif Require Import Res UtilModel UtilSpec EraseProofs GeomModel GeomBase GeomSpec GeomProofs
  GeomSkinProofs.
Local Open Scope N_scope.

(* ---- NiTriShapeData (NiTriShape of OB / FO3 / SK): for every well-formed data block and every
   strictly ascending index list the model returns exactly: survivors, in order, of the vertex
   array and of every per-vertex array; the triangles none of whose corners was deleted,
   re-indexed, in order; counters recomputed from the lengths. *)
Theorem C09_trishape_delete : forall g idx,
  sorted_lt idx -> gd_kind g = GKTriShape -> gd_wf g = true ->
  gd_delete g idx = Ok (gd_trishape_spec g idx).
Proof. exact gd_trishape_delete_ok. Qed.
Print Assumptions C09_trishape_delete.

(* ... and the result is well-formed again: counters = lengths, every per-vertex array has one
   element per remaining vertex, every triangle corner < new vertex count. Being an invariant, it
   covers repeated deletions. *)
Theorem C09_trishape_wf_preserved : forall g idx,
  gd_kind g = GKTriShape -> gd_wf g = true -> gd_wf (gd_trishape_spec g idx) = true.
Proof. exact gd_trishape_spec_wf. Qed.
Print Assumptions C09_trishape_wf_preserved.

(* the triangle part of the spec is the utility spec of C18 applied to the collapse map *)
Theorem C09_tris_spec_is_apply_map : forall idx n tris,
  n <= 65536 -> forallb (tri_lt n) tris = true ->
  apply_map_spec tris (collapse_spec idx n) = (tris_spec idx tris, del_pos idx tris).
Proof. exact apply_map_spec_collapse. Qed.
Print Assumptions C09_tris_spec_is_apply_map.

(* the new vertex count is the number of unlisted positions *)
Theorem C09_survivor_count : forall (A : Type) (v : list A) idx,
  vlen (erase_spec v idx) = rank idx (vlen v).
Proof. exact @erase_spec_vlen. Qed.
Print Assumptions C09_survivor_count.

(* ---- NiLinesData and a bare NiGeometryData *)
Theorem C09_lines_delete : forall g idx,
  sorted_lt idx -> gd_kind g = GKLines -> gd_wf g = true -> gd_delete g idx = Ok (gd_lines_spec g idx).
Proof. exact gd_lines_delete_ok. Qed.
Print Assumptions C09_lines_delete.

(* ---- BSTriShape (SSE / FO4 / FO76), BSDynamicTriShape, BSMeshLODTriShape *)
Theorem C09_bstrishape_delete : forall b idx,
  sorted_lt idx -> bs_core_wf b = true -> bs_base_delete b idx = Ok (bs_base_spec b idx).
Proof. exact bs_base_delete_ok. Qed.
Print Assumptions C09_bstrishape_delete.

Theorem C09_bsplain_delete : forall b idx,
  sorted_lt idx -> bs_kind b = BSPlain -> bs_core_wf b = true -> bs_delete b idx = Ok (bs_base_spec b idx).
Proof. exact bs_plain_delete_ok. Qed.
Print Assumptions C09_bsplain_delete.

Theorem C09_bsdynamic_delete : forall b idx,
  sorted_lt idx -> bs_kind b = BSDynamic -> bs_core_wf b = true -> bs_delete b idx = Ok (bs_dyn_spec b idx).
Proof. exact bs_dyn_delete_ok. Qed.
Print Assumptions C09_bsdynamic_delete.

Theorem C09_bsmeshlod_delete : forall b idx,
  sorted_lt idx -> bs_kind b = BSMeshLOD -> bs_core_wf b = true -> bs_delete b idx = Ok (bs_lod_spec b idx).
Proof. exact bs_lod_delete_ok. Qed.
Print Assumptions C09_bsmeshlod_delete.

Theorem C09_bstrishape_wf_preserved : forall b idx,
  bs_core_wf b = true -> bs_kind b <> BSDynamic -> bs_core_wf (bs_base_spec b idx) = true.
Proof. exact bs_base_spec_wf. Qed.
Print Assumptions C09_bstrishape_wf_preserved.

Theorem C09_bsdynamic_wf_preserved : forall b idx,
  bs_kind b = BSDynamic -> bs_core_wf b = true -> bs_core_wf (bs_dyn_spec b idx) = true.
Proof. exact bs_dyn_spec_wf. Qed.
Print Assumptions C09_bsdynamic_wf_preserved.

(* ---- NiSkinData: every bone keeps exactly the weights of surviving vertices, re-indexed, in
   order; [idx_ok]: non-empty (the orchestrator's guard), strictly ascending, below 65535 *)
Theorem C09_skindata_delete : forall idx nv bones,
  idx_ok idx -> nv <= 65536 -> forallb (bone_wf nv) bones = true ->
  skindata_delete bones idx = Ok (map (bone_spec idx) bones).
Proof. exact skindata_delete_ok. Qed.
Print Assumptions C09_skindata_delete.

Theorem C09_skindata_wf_preserved : forall idx nv b,
  bone_wf nv b = true -> bone_wf (rank idx nv) (bone_spec idx b) = true.
Proof. exact bone_spec_wf. Qed.
Print Assumptions C09_skindata_wf_preserved.

(* ---- LOCKEDNORM lists: sorted, survivors re-indexed, all below the new vertex count *)
Theorem C09_lockednorm_delete : forall idx v,
  idx_ok idx -> vlen v < 4294967295 -> Forall (fun x => x < 4294967296) v ->
  lockednorm_delete v idx = Ok (locked_spec idx v).
Proof. exact lockednorm_delete_ok. Qed.
Print Assumptions C09_lockednorm_delete.

Theorem C09_lockednorm_in_range : forall idx nv v,
  Forall (fun x => x < nv) v -> Forall (fun x => x < rank idx nv) (locked_spec idx v).
Proof. exact locked_spec_lt. Qed.
Print Assumptions C09_lockednorm_in_range.

(* ---- non-vacuity: a well-formed NiTriShapeData, a BSTriShape and a bone, with results *)
Definition C09_ex_gdata : gdata :=
  mkGdata GKTriShape 5 [10; 11; 12; 13; 14] [20; 21; 22; 23; 24] [] [] [] [[30; 31; 32; 33; 34]]
          3 9 [(0, 1, 2); (2, 3, 4); (0, 2, 4)] [] [] [].

Example C09_example_trishape :
  gd_wf C09_ex_gdata = true /\ sorted_lt [1; 3] /\
  gd_delete C09_ex_gdata [1; 3] =
  Ok (mkGdata GKTriShape 3 [10; 12; 14] [20; 22; 24] [] [] [] [[30; 32; 34]] 1 3 [(0, 1, 2)] [] [] []).
Proof. repeat split; try reflexivity; repeat constructor. Qed.

Example C09_example_skindata :
  idx_ok [1; 3] /\ forallb (bone_wf 5) [mkBone 3 [(0, 7); (1, 8); (4, 9)]] = true /\
  skindata_delete [mkBone 3 [(0, 7); (1, 8); (4, 9)]] [1; 3] = Ok [mkBone 2 [(0, 7); (2, 9)]].
Proof.
  repeat split; try reflexivity; try discriminate; repeat constructor.
Qed.
