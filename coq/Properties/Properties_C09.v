(* C09 — deleting vertices keeps a shape and its skin data consistent.
   Only statements, each closed by [exact] of a lemma proved in coq/Geom/*.v, and their
   assumptions. The models (Geom/GeomModel.v) mirror every notifyVerticesDelete override and
   NifFile::DeleteVertsForShape line by line on top of the utility models of C18. *)
From NiflyVerif Require Import SegProofs SseRange.
From NiflyVerif Require Import Res UtilModel UtilSpec EraseProofs GeomModel GeomBase GeomSpec GeomProofs
  GeomSkinProofs GeomPartProofs GeomStripProofs RefitProofs GeomShapeProofs GeomTwice GeomTwiceParts GeomTwiceSegs.
Local Open Scope N_scope.

(* ---- NiTriShapeData (NiTriShape of OB / FO3 / SK): for every well-formed data block and every
   strictly ascending index list the model returns exactly: survivors, in order, of the vertex
   array and of every per-vertex array; the triangles none of whose corners was deleted,
   re-indexed, in order; counters recomputed from the lengths. *)
Theorem C09_trishape_delete : forall g idx,
  sorted_lt idx -> gd_kind g = GKTriShape -> gd_wf g = true ->
  gd_delete g idx = Ok (gd_trishape_spec g idx).
Proof. exact gd_trishape_delete_ok. Qed.
Print Assumptions C09_trishape_delete.

(* ... and the result is well-formed again: counters = lengths, every per-vertex array has one
   element per remaining vertex, every triangle corner < new vertex count. Being an invariant, it
   covers repeated deletions. *)
Theorem C09_trishape_wf_preserved : forall g idx,
  gd_kind g = GKTriShape -> gd_wf g = true -> gd_wf (gd_trishape_spec g idx) = true.
Proof. exact gd_trishape_spec_wf. Qed.
Print Assumptions C09_trishape_wf_preserved.

(* the triangle part of the spec is the utility spec of C18 applied to the collapse map *)
Theorem C09_tris_spec_is_apply_map : forall idx n tris,
  n <= 65536 -> forallb (tri_lt n) tris = true ->
  apply_map_spec tris (collapse_spec idx n) = (tris_spec idx tris, del_pos idx tris).
Proof. exact apply_map_spec_collapse. Qed.
Print Assumptions C09_tris_spec_is_apply_map.

(* the new vertex count is the number of unlisted positions *)
Theorem C09_survivor_count : forall (A : Type) (v : list A) idx,
  vlen (erase_spec v idx) = rank idx (vlen v).
Proof. exact @erase_spec_vlen. Qed.
Print Assumptions C09_survivor_count.

(* ---- NiLinesData and a bare NiGeometryData *)
Theorem C09_lines_delete : forall g idx,
  sorted_lt idx -> gd_kind g = GKLines -> gd_wf g = true -> gd_delete g idx = Ok (gd_lines_spec g idx).
Proof. exact gd_lines_delete_ok. Qed.
Print Assumptions C09_lines_delete.

(* ---- NiTriStripsData. The code itself says its strip deletion "is not healthy": a point is simply
   taken out of its strip, so windows that did not exist before may appear. What holds, and is
   proved: every strip keeps exactly its surviving points, re-indexed, in order; hence every strip
   point is below the new vertex count and the strip lengths agree with the strips (gd_wf). Nothing
   is claimed about the triangles the strips then denote. *)
Theorem C09_tristrips_delete : forall g idx,
  sorted_lt idx -> gd_kind g = GKTriStrips -> gd_wf g = true ->
  gd_delete g idx = Ok (gd_tristrips_spec g idx).
Proof. exact gd_tristrips_delete_ok. Qed.
Print Assumptions C09_tristrips_delete.

Theorem C09_tristrips_indices_valid : forall g idx,
  gd_kind g = GKTriStrips -> gd_wf g = true -> gd_wf (gd_tristrips_spec g idx) = true.
Proof. exact gd_tristrips_spec_wf. Qed.
Print Assumptions C09_tristrips_indices_valid.

(* ---- BSTriShape (SSE / FO4 / FO76), BSDynamicTriShape, BSMeshLODTriShape *)
Theorem C09_bstrishape_delete : forall b idx,
  sorted_lt idx -> bs_core_wf b = true -> bs_base_delete b idx = Ok (bs_base_spec b idx).
Proof. exact bs_base_delete_ok. Qed.
Print Assumptions C09_bstrishape_delete.

Theorem C09_bsplain_delete : forall b idx,
  sorted_lt idx -> bs_kind b = BSPlain -> bs_core_wf b = true -> bs_delete b idx = Ok (bs_base_spec b idx).
Proof. exact bs_plain_delete_ok. Qed.
Print Assumptions C09_bsplain_delete.

Theorem C09_bsdynamic_delete : forall b idx,
  sorted_lt idx -> bs_kind b = BSDynamic -> bs_core_wf b = true -> bs_delete b idx = Ok (bs_dyn_spec b idx).
Proof. exact bs_dyn_delete_ok. Qed.
Print Assumptions C09_bsdynamic_delete.

Theorem C09_bsmeshlod_delete : forall b idx,
  sorted_lt idx -> bs_kind b = BSMeshLOD -> bs_core_wf b = true -> bs_delete b idx = Ok (bs_lod_spec b idx).
Proof. exact bs_lod_delete_ok. Qed.
Print Assumptions C09_bsmeshlod_delete.

Theorem C09_bstrishape_wf_preserved : forall b idx,
  bs_core_wf b = true -> bs_kind b <> BSDynamic -> bs_core_wf (bs_base_spec b idx) = true.
Proof. exact bs_base_spec_wf. Qed.
Print Assumptions C09_bstrishape_wf_preserved.

Theorem C09_bsdynamic_wf_preserved : forall b idx,
  bs_kind b = BSDynamic -> bs_core_wf b = true -> bs_core_wf (bs_dyn_spec b idx) = true.
Proof. exact bs_dyn_spec_wf. Qed.
Print Assumptions C09_bsdynamic_wf_preserved.

(* ---- NiSkinData: every bone keeps exactly the weights of surviving vertices, re-indexed, in
   order; [idx_ok]: non-empty (the orchestrator's guard), strictly ascending, below 65535 *)
Theorem C09_skindata_delete : forall idx nv bones,
  idx_ok idx -> nv <= 65536 -> forallb (bone_wf nv) bones = true ->
  skindata_delete bones idx = Ok (map (bone_spec idx) bones).
Proof. exact skindata_delete_ok. Qed.
Print Assumptions C09_skindata_delete.

Theorem C09_skindata_wf_preserved : forall idx nv b,
  bone_wf nv b = true -> bone_wf (rank idx nv) (bone_spec idx b) = true.
Proof. exact bone_spec_wf. Qed.
Print Assumptions C09_skindata_wf_preserved.

(* ---- LOCKEDNORM lists: sorted, survivors re-indexed, all below the new vertex count *)
Theorem C09_lockednorm_delete : forall idx v,
  idx_ok idx -> vlen v < 4294967295 -> Forall (fun x => x < 4294967296) v ->
  lockednorm_delete v idx = Ok (locked_spec idx v).
Proof. exact lockednorm_delete_ok. Qed.
Print Assumptions C09_lockednorm_delete.

Theorem C09_lockednorm_in_range : forall idx nv v,
  Forall (fun x => x < nv) v -> Forall (fun x => x < rank idx nv) (locked_spec idx v).
Proof. exact locked_spec_lt. Qed.
Print Assumptions C09_lockednorm_in_range.

(* ---- NiSkinPartition. A partition is "prepared" when it has no strips and both its vertex map and
   its triangle list are present ([part_wf]; this is what UpdateSkinPartitions and a loaded SSE / LE
   file give). For such a partition the loop keeps the vertex-map entries of surviving vertices,
   re-indexed, the per-vertex weights and bone indices at the same positions, and the triangles
   none of whose corners was deleted, re-indexed (through the vertex map when the partition stores
   mapped indices). [n] is the size of the collapse map the code derives from the largest index. *)
Theorem C09_partition_delete : forall idx n nv mapped p,
  sorted_lt idx -> n <= 65536 -> Forall (fun v => v < n) (p_vmap p) ->
  (mapped = false -> forallb (tri_lt n) (p_tris p) = true) -> part_wf nv mapped p = true ->
  part_delete mapped (collapse_spec idx n) p = Ok (part_spec idx mapped p).
Proof. exact part_delete_ok. Qed.
Print Assumptions C09_partition_delete.

(* ... and stays prepared with all indices below the new vertex count, unless it lost every
   triangle (then RemoveEmptyPartitions drops it, see C09_skin_delete) *)
Theorem C09_partition_wf_preserved : forall idx nv mapped p,
  part_wf nv mapped p = true -> p_nt (part_spec idx mapped p) <> 0 ->
  part_wf (rank idx nv) mapped (part_spec idx mapped p) = true.
Proof. exact part_spec_wf. Qed.
Print Assumptions C09_partition_wf_preserved.

Theorem C09_skinpartition_delete : forall idx nv sp,
  idx <> [] -> sorted_lt idx -> skinpart_wf nv sp = true ->
  skinpart_delete sp idx =
  Ok (mkSkinpart (sp_np sp) (if isnil (sp_vdata sp) then sp_nv sp else vlen (erase_spec (sp_vdata sp) idx))
                 (erase_spec (sp_vdata sp) idx)
                 (map (part_spec idx (sp_mapped sp)) (sp_parts sp)) (sp_mapped sp) []).
Proof. exact skinpart_delete_ok. Qed.
Print Assumptions C09_skinpartition_delete.

(* ---- the skin instance: NiSkinData, NiSkinPartition followed by RemoveEmptyPartitions, and the
   BSDismemberSkinInstance partition list kept aligned with the partitions that remain *)
Theorem C09_skin_delete : forall idx nv k,
  idx_ok idx -> nv <= 65536 -> skin_wf nv k = true -> skin_delete k idx = Ok (skin_spec idx k).
Proof. exact skin_delete_ok. Qed.
Print Assumptions C09_skin_delete.

Theorem C09_skin_wf_preserved : forall idx nv k,
  nv < 65536 -> skin_wf nv k = true -> skin_wf (rank idx nv) (skin_spec idx k) = true.
Proof. exact skin_spec_wf. Qed.
Print Assumptions C09_skin_wf_preserved.

(* ---- BSSubIndexTriShape: vertex data and triangles as for BSTriShape; the segment tables are
   re-fitted ([bs_sits_spec], see C17 for what the re-fit keeps and what it breaks). Segment and
   sub-segment ranges stay inside the new triangle list: C17_refit_keeps_ranges. *)
Theorem C09_bssubindex_delete : forall b idx,
  sorted_lt idx -> bs_kind b = BSSubIndex -> bs_core_wf b = true -> seg_tables_wf b = true ->
  bs_delete b idx = Ok (bs_sits_spec b idx).
Proof. exact bs_sits_delete_ok. Qed.
Print Assumptions C09_bssubindex_delete.

(* ---- NifFile::DeleteVertsForShape as a whole, for every geometry kind (NiTriShapeData,
   NiTriStripsData, BSTriShape, BSDynamicTriShape, BSMeshLODTriShape, BSSubIndexTriShape) with or
   without a skin instance, with LOCKEDNORM lists ([shape_wf]): no fault, and the result is
   [shape_spec] = the per-block results above *)
Theorem C09_delete_verts : forall s idx,
  idx_ok idx -> shape_wf s = true -> exists flag, delete_verts s idx = Ok (shape_spec idx s, flag).
Proof. exact delete_verts_ok. Qed.
Print Assumptions C09_delete_verts.

(* every index anywhere below the new vertex count, counters = lengths: the invariant is kept *)
Theorem C09_shape_wf_preserved : forall idx s, shape_wf s = true -> shape_wf (shape_spec idx s) = true.
Proof. exact shape_spec_wf. Qed.
Print Assumptions C09_shape_wf_preserved.

Theorem C09_new_vertex_count : forall idx s, shape_nv (shape_spec idx s) = rank idx (shape_nv s).
Proof. exact shape_spec_nv. Qed.
Print Assumptions C09_new_vertex_count.

(* histories: any number of consecutive deletions *)
Theorem C09_delete_history : forall steps s, shape_wf s = true -> Forall idx_ok steps ->
  exists s', delete_history s steps = Ok s' /\ shape_wf s' = true.
Proof. exact delete_history_ok. Qed.
Print Assumptions C09_delete_history.

(* ---- deleting twice = deleting the union of the first list and the second list translated back
   ([union2], strictly ascending and inside the vertex range again) *)
Theorem C09_union_sorted : forall idx1 idx2 n, sorted_lt (union2 idx1 idx2 n).
Proof. exact union2_sorted. Qed.
Print Assumptions C09_union_sorted.

Theorem C09_erase_twice : forall (A : Type) (v : list A) idx1 idx2,
  erase_spec (erase_spec v idx1) idx2 = erase_spec v (union2 idx1 idx2 (vlen v)).
Proof. exact @erase_spec_twice. Qed.
Print Assumptions C09_erase_twice.

Theorem C09_tris_twice : forall idx1 idx2 n tris, forallb (tri_lt n) tris = true ->
  tris_spec idx2 (tris_spec idx1 tris) = tris_spec (union2 idx1 idx2 n) tris.
Proof. exact tris_spec_twice. Qed.
Print Assumptions C09_tris_twice.

Theorem C09_trishape_twice : forall g idx1 idx2, gd_kind g = GKTriShape -> gd_wf g = true ->
  gd_trishape_spec (gd_trishape_spec g idx1) idx2 = gd_trishape_spec g (union2 idx1 idx2 (vlen (gd_verts g))).
Proof. exact gd_trishape_spec_twice. Qed.
Print Assumptions C09_trishape_twice.

Theorem C09_bstrishape_twice : forall b idx1 idx2, bs_core_wf b = true ->
  let u := union2 idx1 idx2 (vlen (bs_vdata b)) in
  bs_vdata (bs_base_spec (bs_base_spec b idx1) idx2) = bs_vdata (bs_base_spec b u) /\
  bs_tris (bs_base_spec (bs_base_spec b idx1) idx2) = bs_tris (bs_base_spec b u) /\
  bs_nv (bs_base_spec (bs_base_spec b idx1) idx2) = bs_nv (bs_base_spec b u) /\
  bs_nt (bs_base_spec (bs_base_spec b idx1) idx2) = bs_nt (bs_base_spec b u).
Proof. exact bs_base_spec_twice. Qed.
Print Assumptions C09_bstrishape_twice.

Theorem C09_weights_twice : forall idx1 idx2 n ws, forallb (fun x => fst x <? n) ws = true ->
  weights_spec idx2 (weights_spec idx1 ws) = weights_spec (union2 idx1 idx2 n) ws.
Proof. exact weights_spec_twice. Qed.
Print Assumptions C09_weights_twice.

(* ---- delete-twice = delete-union, continued (coq/Geom/GeomTwiceParts.v): strips, vertex maps,
   LOCKEDNORM lists, prepared partitions, the NiSkinPartition block with RemoveEmptyPartitions, the
   dismember list, the skin instance, every NiGeometryData kind, BSDynamic / BSMeshLOD, and
   DeleteVertsForShape as a whole *)

(* "survivors, re-indexed, in order" on an index list: a strip of NiTriStripsData, a partition's
   vertex map *)
Theorem C09_strip_twice : forall idx1 idx2 n s, Forall (fun p => p < n) s ->
  strip_spec idx2 (strip_spec idx1 s) = strip_spec (union2 idx1 idx2 n) s.
Proof. exact strip_spec_twice. Qed.
Print Assumptions C09_strip_twice.

(* LOCKEDNORM lists (sorted by the first call; the second sort changes nothing) *)
Theorem C09_lockednorm_twice : forall idx1 idx2 n v, Forall (fun x => x < n) v ->
  locked_spec idx2 (locked_spec idx1 v) = locked_spec (union2 idx1 idx2 n) v.
Proof. exact locked_spec_twice. Qed.
Print Assumptions C09_lockednorm_twice.

(* a partition's triangles in partition-local (mapped) indices: the positions of the vertex-map
   entries deleted by the two calls, translated back, are those the union deletes *)
Theorem C09_mapped_tris_twice : forall idx1 idx2 n vm tris, Forall (fun p => p < n) vm ->
  forallb (tri_lt (vlen vm)) tris = true ->
  tris_spec (dlpos idx2 0 (strip_spec idx1 vm)) (tris_spec (dlpos idx1 0 vm) tris) =
  tris_spec (dlpos (union2 idx1 idx2 n) 0 vm) tris.
Proof. exact tris_spec_dlpos_twice. Qed.
Print Assumptions C09_mapped_tris_twice.

(* a prepared partition: vertex map, per-vertex weights and bone indices, triangles (mapped or
   not), true triangles, counters *)
Theorem C09_partition_twice : forall idx1 idx2 nv mapped p, part_wf nv mapped p = true ->
  part_spec idx2 mapped (part_spec idx1 mapped p) = part_spec (union2 idx1 idx2 nv) mapped p.
Proof. exact part_spec_twice. Qed.
Print Assumptions C09_partition_twice.

(* NiSkinPartition incl. RemoveEmptyPartitions: a partition emptied by the first call is removed by
   it; the union empties and removes the same partitions, so the numbering of the remaining ones
   agrees *)
Theorem C09_skinpartition_twice : forall idx1 idx2 nv sp, skinpart_wf nv sp = true ->
  skinpart_spec idx2 (skinpart_spec idx1 sp) = skinpart_spec (union2 idx1 idx2 nv) sp.
Proof. exact skinpart_spec_twice. Qed.
Print Assumptions C09_skinpartition_twice.

(* the skin instance: NiSkinData, NiSkinPartition, BSDismemberSkinInstance partition list *)
Theorem C09_skin_twice : forall idx1 idx2 nv k, skin_wf nv k = true ->
  skin_spec idx2 (skin_spec idx1 k) = skin_spec (union2 idx1 idx2 nv) k.
Proof. exact skin_spec_twice. Qed.
Print Assumptions C09_skin_twice.

(* NiTriStripsData: strips, strip lengths and the triangle counter *)
Theorem C09_tristrips_twice : forall g idx1 idx2, gd_kind g = GKTriStrips -> gd_wf g = true ->
  gd_tristrips_spec (gd_tristrips_spec g idx1) idx2 = gd_tristrips_spec g (union2 idx1 idx2 (vlen (gd_verts g))).
Proof. exact gd_tristrips_spec_twice. Qed.
Print Assumptions C09_tristrips_twice.

(* every NiGeometryData kind (NiTriShapeData, NiTriStripsData, NiLinesData, bare) *)
Theorem C09_geomdata_twice : forall g idx1 idx2, gd_wf g = true ->
  gd_spec idx2 (gd_spec idx1 g) = gd_spec (union2 idx1 idx2 (vlen (gd_verts g))) g.
Proof. exact gd_spec_twice. Qed.
Print Assumptions C09_geomdata_twice.

(* BSTriShape / BSDynamicTriShape / BSMeshLODTriShape, every field except the scratch list
   deletedTris (positions dropped by the LAST call: necessarily different) *)
Theorem C09_bs_twice : forall b idx1 idx2, bs_core_wf b = true -> bs_kind b <> BSSubIndex ->
  bs_forget_deleted (bs_spec idx2 (bs_spec idx1 b)) =
  bs_forget_deleted (bs_spec (union2 idx1 idx2 (vlen (bs_vdata b))) b).
Proof. exact bs_spec_twice. Qed.
Print Assumptions C09_bs_twice.

(* NifFile::DeleteVertsForShape as a whole, every geometry kind except BSSubIndexTriShape: the
   complete results agree (geometry, skin data, partitions, dismember list, LOCKEDNORM lists) *)
Theorem C09_delete_twice_is_delete_union : forall idx1 idx2 s, shape_wf s = true ->
  (forall b, sh_bs s = Some b -> bs_kind b <> BSSubIndex) ->
  shape_view bs_forget_deleted (shape_spec idx2 (shape_spec idx1 s)) =
  shape_view bs_forget_deleted (shape_spec (union2 idx1 idx2 (shape_nv s)) s).
Proof. exact shape_spec_twice. Qed.
Print Assumptions C09_delete_twice_is_delete_union.

(* ... and for every kind incl. BSSubIndexTriShape everything except its segment tables *)
Theorem C09_delete_twice_is_delete_union_core : forall idx1 idx2 s, shape_wf s = true ->
  shape_view bs_forget_segs (shape_spec idx2 (shape_spec idx1 s)) =
  shape_view bs_forget_segs (shape_spec (union2 idx1 idx2 (shape_nv s)) s).
Proof. exact shape_spec_twice_core. Qed.
Print Assumptions C09_delete_twice_is_delete_union_core.

(* in terms of the model of the code: two calls run, and give the union's result *)
Theorem C09_delete_verts_twice : forall idx1 idx2 s, idx_ok idx1 -> idx_ok idx2 -> shape_wf s = true ->
  exists s1 f1 s2 f2,
    delete_verts s idx1 = Ok (s1, f1) /\ delete_verts s1 idx2 = Ok (s2, f2) /\
    s2 = shape_spec idx2 (shape_spec idx1 s) /\
    shape_view bs_forget_segs s2 = shape_view bs_forget_segs (shape_spec (union2 idx1 idx2 (shape_nv s)) s).
Proof. exact delete_verts_twice. Qed.
Print Assumptions C09_delete_verts_twice.

(* the union is a legal argument whenever it is not empty (e.g. idx1 has an index inside the range) *)
Theorem C09_delete_verts_union : forall idx1 idx2 s, shape_wf s = true -> union2 idx1 idx2 (shape_nv s) <> [] ->
  exists f, delete_verts s (union2 idx1 idx2 (shape_nv s)) = Ok (shape_spec (union2 idx1 idx2 (shape_nv s)) s, f).
Proof. exact delete_verts_union. Qed.
Print Assumptions C09_delete_verts_union.

(* ---- the segment tables of BSSubIndexTriShape (coq/Geom/GeomTwiceSegs.v). The re-fit measures the
   dropped triangles against the CURRENT range starts and never moves the first start, so
   twice = union needs tables that tile the triangle list from triangle 0 ([sse_tile 0],
   [segs_tile 0]: what SetSegmentation gives and what the re-fit keeps, C17); for such tables both
   the SSE segment list and the FO4 segments with their sub-segments come out identical *)
Theorem C09_sse_segments_twice : forall idx1 idx2 n tris,
  forallb (tri_lt n) tris = true -> 3 * vlen tris < 4294967296 -> forall segs, sse_tile 0 segs (vlen tris) ->
  sse_refit_spec (rev (del_pos idx2 (tris_spec idx1 tris))) (sse_refit_spec (rev (del_pos idx1 tris)) segs) =
  sse_refit_spec (rev (del_pos (union2 idx1 idx2 n) tris)) segs.
Proof. exact sse_refit_twice. Qed.
Print Assumptions C09_sse_segments_twice.

Theorem C09_fo4_segments_twice : forall idx1 idx2 n tris,
  forallb (tri_lt n) tris = true -> 3 * vlen tris < 4294967296 -> forall segs, segs_tile 0 segs (vlen tris) ->
  segs_refit_spec (rev (del_pos idx2 (tris_spec idx1 tris))) (segs_refit_spec (rev (del_pos idx1 tris)) segs) =
  segs_refit_spec (rev (del_pos (union2 idx1 idx2 n) tris)) segs.
Proof. exact segs_refit_twice. Qed.
Print Assumptions C09_fo4_segments_twice.

(* the triangles dropped by the two calls, translated back, are exactly those the union drops *)
Theorem C09_dropped_triangles_twice : forall idx1 idx2 n tris, forallb (tri_lt n) tris = true ->
  del_pos (union2 idx1 idx2 n) tris = union2 (del_pos idx1 tris) (del_pos idx2 (tris_spec idx1 tris)) (vlen tris).
Proof. exact del_pos_union. Qed.
Print Assumptions C09_dropped_triangles_twice.

(* BSSubIndexTriShape as a whole (vertex data, triangles, numPrimitives, both tables) *)
Theorem C09_bssubindex_twice : forall b idx1 idx2,
  bs_core_wf b = true -> 3 * bs_nt b < 4294967296 -> seg_tables_tiled b ->
  bs_forget_deleted (bs_sits_spec (bs_sits_spec b idx1) idx2) =
  bs_forget_deleted (bs_sits_spec b (union2 idx1 idx2 (vlen (bs_vdata b)))).
Proof. exact bs_sits_spec_twice. Qed.
Print Assumptions C09_bssubindex_twice.

Theorem C09_segment_tiling_kept : forall b idx,
  bs_core_wf b = true -> 3 * bs_nt b < 4294967296 -> seg_tables_tiled b -> seg_tables_tiled (bs_sits_spec b idx).
Proof. exact seg_tables_tiled_kept. Qed.
Print Assumptions C09_segment_tiling_kept.

(* DeleteVertsForShape, every geometry kind, BSSubIndexTriShape with tiled tables included *)
Theorem C09_delete_twice_is_delete_union_tiled : forall idx1 idx2 s, shape_wf s = true ->
  (forall b, sh_bs s = Some b -> bs_kind b = BSSubIndex -> 3 * bs_nt b < 4294967296 /\ seg_tables_tiled b) ->
  shape_view bs_forget_deleted (shape_spec idx2 (shape_spec idx1 s)) =
  shape_view bs_forget_deleted (shape_spec (union2 idx1 idx2 (shape_nv s)) s).
Proof. exact shape_spec_twice_tiled. Qed.
Print Assumptions C09_delete_twice_is_delete_union_tiled.

(* without the tiling hypothesis the law is false of the model (and of the code): a consistent
   table whose only range starts at triangle 1 *)
Theorem C09_bssubindex_twice_refuted :
  bs_core_wf sits_wit = true /\ seg_tables_wf sits_wit = true /\ union2 [0] [4] 7 = [0; 5] /\
  exists b1 b2 bu, bs_delete sits_wit [0] = Ok b1 /\ bs_delete b1 [4] = Ok b2 /\ bs_delete sits_wit [0; 5] = Ok bu /\
    bs_tris b2 = bs_tris bu /\ bs_sse b2 = [mkSsegd 3 2] /\ bs_sse bu = [mkSsegd 3 1].
Proof. exact bs_sits_twice_refuted. Qed.
Print Assumptions C09_bssubindex_twice_refuted.

(* ---- non-vacuity: a well-formed NiTriShapeData, a BSTriShape and a bone, with results *)
Definition C09_ex_gdata : gdata :=
  mkGdata GKTriShape 5 [10; 11; 12; 13; 14] [20; 21; 22; 23; 24] [] [] [] [[30; 31; 32; 33; 34]]
          3 9 [(0, 1, 2); (2, 3, 4); (0, 2, 4)] [] [] [].

Example C09_example_trishape :
  gd_wf C09_ex_gdata = true /\ sorted_lt [1; 3] /\
  gd_delete C09_ex_gdata [1; 3] =
  Ok (mkGdata GKTriShape 3 [10; 12; 14] [20; 22; 24] [] [] [] [[30; 32; 34]] 1 3 [(0, 1, 2)] [] [] []).
Proof. repeat split; try reflexivity; repeat constructor. Qed.

Example C09_example_skindata :
  idx_ok [1; 3] /\ forallb (bone_wf 5) [mkBone 3 [(0, 7); (1, 8); (4, 9)]] = true /\
  skindata_delete [mkBone 3 [(0, 7); (1, 8); (4, 9)]] [1; 3] = Ok [mkBone 2 [(0, 7); (2, 9)]].
Proof.
  repeat split; try reflexivity; try discriminate; repeat constructor.
Qed.

(* a skinned NiTriShape with NiSkinData, one mapped partition, a dismember list and a LOCKEDNORM
   list: well-formed, and the orchestrator's result on [1; 3] *)
Definition C09_ex_shape : shape :=
  mkShape (Some C09_ex_gdata) None
          (Some (mkSkin (Some [mkBone 3 [(0, 7); (1, 8); (4, 9)]])
                        (Some (mkSkinpart 1 0 []
                                 [mkPart 5 3 0 [0; 1; 2; 3; 4] true [50; 51; 52; 53; 54] false [] [] true []
                                         [(0, 1, 2); (2, 3, 4); (0, 2, 4)] []] true []))
                        (Some [32])))
          [[4; 1; 0]].

Example C09_example_shape :
  shape_wf C09_ex_shape = true /\ idx_ok [1; 3] /\
  exists s', delete_verts C09_ex_shape [1; 3] = Ok (s', false) /\ shape_wf s' = true /\
    sh_locked s' = [[0; 2]] /\
    option_map gd_tris (sh_gdata s') = Some [(0, 1, 2)].
Proof.
  split; [vm_compute; reflexivity|].
  split; [repeat split; try discriminate; repeat constructor|].
  eexists. split; [vm_compute; reflexivity|]. repeat split; vm_compute; reflexivity.
Qed.

(* delete [1] then [2] (= original vertex 3) equals delete [1; 3] on the skinned example shape:
   the hypotheses of the twice-theorems hold and the results are non-trivial *)
Example C09_example_twice :
  shape_wf C09_ex_shape = true /\ idx_ok [1] /\ idx_ok [2] /\ union2 [1] [2] (shape_nv C09_ex_shape) = [1; 3] /\
  exists s1 s2, delete_verts C09_ex_shape [1] = Ok (s1, false) /\ delete_verts s1 [2] = Ok (s2, false) /\
    delete_verts C09_ex_shape [1; 3] = Ok (s2, false) /\
    option_map gd_tris (sh_gdata s2) = Some [(0, 1, 2)] /\ sh_locked s2 = [[0; 2]].
Proof.
  split; [vm_compute; reflexivity|]. split; [repeat split; try discriminate; repeat constructor|].
  split; [repeat split; try discriminate; repeat constructor|].
  split; [vm_compute; reflexivity|].
  eexists. eexists. split; [vm_compute; reflexivity|]. split; [vm_compute; reflexivity|].
  split; [vm_compute; reflexivity|]. split; vm_compute; reflexivity.
Qed.

(* a BSSubIndexTriShape whose SSE table tiles its three triangles (2 + 1): the hypotheses of
   C09_bssubindex_twice hold, and the two ways agree on a non-trivial result *)
Definition C09_ex_sits : bsshape :=
  mkBs BSSubIndex 7 [10; 11; 12; 13; 14; 15; 16] 3 [(0, 1, 2); (3, 4, 5); (3, 4, 6)] [] [] 0 0 0 0 segn_none 2
       [mkSsegd 0 2; mkSsegd 6 1].

Example C09_example_sits_twice :
  bs_core_wf C09_ex_sits = true /\ 3 * bs_nt C09_ex_sits < 4294967296 /\ seg_tables_tiled C09_ex_sits /\
  bs_sse (bs_sits_spec (bs_sits_spec C09_ex_sits [0]) [4]) = [mkSsegd 0 0; mkSsegd 0 1] /\
  bs_sse (bs_sits_spec C09_ex_sits [0; 5]) = [mkSsegd 0 0; mkSsegd 0 1].
Proof.
  split; [vm_compute; reflexivity|]. split; [vm_compute; reflexivity|]. split.
  - split; [left; reflexivity|right]. cbn [bs_sse bs_nt C09_ex_sits].
    apply sst_cons; [reflexivity|]. apply (sst_cons 2); [reflexivity|]. apply (sst_nil 3).
  - split; vm_compute; reflexivity.
Qed.
