(* C18 — index-remapping and strip utilities agree with their mathematical definition.
   Only statements, each closed by [exact] of a lemma proved elsewhere, and their assumptions. *)
From NiflyVerif Require Import Res UtilModel UtilSpec CompactProofs EraseProofs FillProofs StripProofs.
From NiflyVerif Require Import InsertSpec RankProofs ExpandProofs InsertProofs.
From NiflyVerif Require Import MapKeysModel MapKeysSpec MapKeysProofs MapKeysCollapse.
From Coq Require Import Sorted Permutation.
Local Open Scope N_scope.

(* EraseVectorIndices: for a strictly ascending index list and a vector shorter than 2^w
   (w = value bits of the index type) the loop returns exactly the unlisted elements, in order. *)
Theorem C18_erase_correct : forall (A : Type) (w : N) (d : A) (v : list A) (idx : list N),
  sorted_lt idx -> vlen v < 2 ^ w -> erase_model w d v idx = Ok (erase_spec v idx).
Proof. exact @erase_correct. Qed.
Print Assumptions C18_erase_correct.

(* ... and for ANY index list (unsorted, duplicated, out of range, empty) it never leaves v. *)
Theorem C18_erase_safe : forall (A : Type) (w : N) (d : A) (v : list A) (idx : list N),
  vlen v < 2 ^ w -> exists r, erase_model w d v idx = Ok r /\ (length r <= length v)%nat.
Proof. exact @erase_safe. Qed.
Print Assumptions C18_erase_safe.

(* ApplyMapToTriangles: for every triangle list and every map (no hypothesis on either beyond the
   counter widths) the result is exactly the triangles whose corners all map to a non-negative
   entry, re-indexed, in order, together with the positions of the dropped ones. *)
Theorem C18_apply_map_tris_correct : forall (w2 : N) (sg2 : bool) (tris : list tri) (map : list Z),
  vlen tris < 2 ^ w2 -> vlen tris < 2 ^ 31 ->
  apply_map_tris_model w2 sg2 tris map = Ok (apply_map_spec tris map).
Proof. exact apply_map_tris_correct. Qed.
Print Assumptions C18_apply_map_tris_correct.

(* GenerateIndexCollapseMap: survivors go to consecutive new positions in order, deleted to -1. *)
Theorem C18_collapse_correct : forall (w2 : N) (sg2 : bool) (idx : list N) (n : N),
  sorted_lt idx -> n < 2 ^ w2 -> n < 2 ^ 31 ->
  collapse_model w2 sg2 idx n = Ok (collapse_spec idx n).
Proof. exact collapse_correct. Qed.
Print Assumptions C18_collapse_correct.

(* GenerateTrianglesFromStrips: for every list of strips. *)
Theorem C18_strips_correct : forall strips : list (list N), strips_model strips = Ok (strips_spec strips).
Proof. exact strips_correct. Qed.
Print Assumptions C18_strips_correct.

Theorem C18_strips_nondegenerate : forall s i a b c,
  In (a, b, c) (strip_windows i s) -> a <> b /\ b <> c /\ c <> a.
Proof. exact strip_windows_nondegenerate. Qed.
Print Assumptions C18_strips_nondegenerate.

(* InsertVectorIndices. [insert_spec d v idx] (Util/InsertSpec.v) is the vector of |v| + |idx|
   elements whose unlisted positions hold v in order (position p holds v[rank idx p]); a listed
   position keeps what the resized vector held there (the old v[p], or the fill value d): the
   "hole" a copying move leaves, which the property does not constrain.
   For a strictly ascending index list whose entries are all positions of the result, and a
   result length below 2^w (w = value bits of the index type), the backwards in-place loop returns
   exactly that vector: no access outside the vector, no counter wrap that matters. *)
Theorem C18_insert_correct : forall (A : Type) (w : N) (d : A) (v : list A) (idx : list N),
  sorted_lt idx -> Forall (fun i => i < vlen v + vlen idx) idx -> vlen v + vlen idx < 2 ^ w ->
  insert_model w d v idx = Ok (insert_spec d v idx).
Proof. exact @insert_correct. Qed.
Print Assumptions C18_insert_correct.

(* the guard: an empty list, or a last index that is not a position of the result, leaves v as it
   is, for ANY list (unsorted, duplicated) and any width *)
Theorem C18_insert_out_of_range : forall (A : Type) (w : N) (d : A) (v : list A) (idx : list N),
  idx = [] \/ vlen v + vlen idx <= last idx 0 -> insert_model w d v idx = Ok v.
Proof. exact @insert_out_of_range. Qed.
Print Assumptions C18_insert_out_of_range.

Theorem C18_insert_spec_length : forall (A : Type) (d : A) (v : list A) (idx : list N),
  length (insert_spec d v idx) = (length v + length idx)%nat.
Proof. exact @insert_spec_length. Qed.
Print Assumptions C18_insert_spec_length.

(* the naive definitions are inverse to each other: erasing the inserted positions gives v back *)
Theorem C18_erase_insert_spec : forall (A : Type) (d : A) (v : list A) (idx : list N),
  NoDup idx -> Forall (fun i => i < vlen v + vlen idx) idx ->
  erase_spec (insert_spec d v idx) idx = v.
Proof. exact @erase_insert_spec. Qed.
Print Assumptions C18_erase_insert_spec.

(* ... and so are the loops: insert, then erase the same positions, is the identity *)
Theorem C18_insert_then_erase : forall (A : Type) (w : N) (d : A) (v : list A) (idx : list N),
  sorted_lt idx -> Forall (fun i => i < vlen v + vlen idx) idx -> vlen v + vlen idx < 2 ^ w ->
  bind (insert_model w d v idx) (fun r => erase_model w d r idx) = Ok v.
Proof. exact @insert_then_erase. Qed.
Print Assumptions C18_insert_then_erase.

(* "erase then re-insert restores positions": the two loops one after the other give a vector of
   the old length in which every surviving element is back at its old position *)
Theorem C18_erase_then_insert_restores : forall (A : Type) (w : N) (d : A) (u : list A) (idx : list N),
  sorted_lt idx -> Forall (fun i => i < vlen u) idx -> vlen u < 2 ^ w ->
  exists r, bind (erase_model w d u idx) (fun v => insert_model w d v idx) = Ok r /\
            length r = length u /\
            forall p, memN p idx = false -> nth_error r (N.to_nat p) = nth_error u (N.to_nat p).
Proof. exact @erase_then_insert. Qed.
Print Assumptions C18_erase_then_insert_restores.

(* GenerateIndexExpandMap: for a strictly ascending index list and mapSize + |indices| below the
   range of the counter type (so that neither counter wraps; a signed counter would otherwise
   overflow) and below 2^31 (the entries are stored as int), the loop with its inner skip loop
   returns the naive expand map and stays inside the map and the index list. *)
Theorem C18_expand_correct : forall (w2 : N) (sg2 : bool) (idx : list N) (n : N),
  sorted_lt idx -> n + vlen idx < 2 ^ w2 -> n + vlen idx < 2 ^ 31 ->
  expand_model w2 sg2 idx n = Ok (expand_spec idx n).
Proof. exact expand_correct. Qed.
Print Assumptions C18_expand_correct.

(* the naive expand map, said without fuel: entry j is THE position that is not listed and has
   exactly j unlisted positions below it ([free_rank]; unique by C18_free_rank_unique) *)
Theorem C18_expand_spec_char : forall (idx : list N) (n : N) (j : nat),
  NoDup idx -> (j < N.to_nat n)%nat ->
  exists p, nth_error (expand_spec idx n) j = Some (Z.of_N p) /\ free_rank idx p (N.of_nat j)
            /\ p <= N.of_nat j + vlen idx.
Proof. exact expand_spec_char. Qed.
Print Assumptions C18_expand_spec_char.

Theorem C18_free_rank_unique : forall (idx : list N) (p q j : N),
  free_rank idx p j -> free_rank idx q j -> p = q.
Proof. exact free_rank_unique. Qed.
Print Assumptions C18_free_rank_unique.

(* expand is the inverse of collapse on the survivors: collapse[expand[j]] = j *)
Theorem C18_collapse_expand : forall (idx : list N) (n m : N) (j : nat) (p : N),
  NoDup idx -> nth_error (expand_spec idx n) j = Some (Z.of_N p) -> p < m ->
  nth_error (collapse_spec idx m) (N.to_nat p) = Some (Z.of_nat j).
Proof. exact collapse_expand. Qed.
Print Assumptions C18_collapse_expand.

(* ApplyIndexMapToMapKeys (NifUtil.hpp:132-153). keyMap is the list of entries in the order the
   container iterates (ascending keys for a std::map, any order for an unordered_map), kt the key
   type (int, uint16_t, uint32_t), the result the new container listed by ascending key.
   For ALL inputs -- any keys, any index map (empty, negative entries, non-injective), any offset,
   any iteration order -- the loop ends without reading outside indexMap, and its only fault is the
   signed overflow of d.first + defaultOffset for a key outside the index map ([mk_noub], undefined
   behaviour in C++; impossible for uint32_t keys). Otherwise the result is the map the naive
   definition gives for the key renaming the code computes, casts to the key type included
   ([mk_ctarget]). *)
Theorem C18_mapkeys_defined : forall (V : Type) (kt : mk_kty) (km : list (Z * V)) (im : list Z) (off : Z),
  mapkeys_model kt km im off =
  if forallb (fun d => mk_noub kt im off (fst d)) km
  then Ok (mapkeys_spec_with (mk_ctarget kt im off) km)
  else Fault.
Proof. exact @mapkeys_defined. Qed.
Print Assumptions C18_mapkeys_defined.

(* the precondition the C++ needs for the documented behaviour: every new key (indexMap[k] for a
   surviving key inside the map, k + defaultOffset for a key outside) is a value of the key type.
   Then the result is [mapkeys_spec]: the naive definition without widths or casts. *)
Theorem C18_mapkeys_correct : forall (V : Type) (kt : mk_kty) (km : list (Z * V)) (im : list Z) (off : Z),
  mk_fits (mk_kty_w kt) (mk_kty_sg kt) im off km ->
  mapkeys_model kt km im off = Ok (mapkeys_spec km im off).
Proof. exact @mapkeys_correct. Qed.
Print Assumptions C18_mapkeys_correct.

(* What the naive result is, for ALL inputs (injective or not):
   keys strictly ascending, hence no key twice; *)
Theorem C18_mapkeys_result_sorted : forall (V : Type) (km : list (Z * V)) (im : list Z) (off : Z),
  StronglySorted Z.lt (map fst (mapkeys_spec km im off)).
Proof. exact @mapkeys_spec_sorted. Qed.
Print Assumptions C18_mapkeys_result_sorted.

(* a look-up of new key t returns the value of the LAST entry, in iteration order, whose old key is
   sent to t, and nothing when no entry is sent there: on a collision the later entry wins and the
   earlier one is lost (for an unordered_map "later" is decided by the hash table); *)
Theorem C18_mapkeys_lookup_last : forall (V : Type) (km : list (Z * V)) (im : list Z) (off : Z) (t : Z),
  mk_find t (mapkeys_spec km im off) = mk_last t (mk_image im off km).
Proof. exact @mapkeys_spec_find. Qed.
Print Assumptions C18_mapkeys_lookup_last.

(* every entry of the result is an old entry (k, v) with its value unchanged and its key the image
   of k under the map; an old key sent to "deleted" (mk_target = None) therefore never shows up. *)
Theorem C18_mapkeys_entries_sound : forall (V : Type) (km : list (Z * V)) (im : list Z) (off : Z) (t : Z) (v : V),
  In (t, v) (mapkeys_spec km im off) -> exists k, In (k, v) km /\ mk_target im off k = Some t.
Proof. exact @mapkeys_spec_sound. Qed.
Print Assumptions C18_mapkeys_entries_sound.

(* When no two surviving entries get the same new key ([mk_injective]) no entry is lost: every
   surviving entry is found under its new key with its value, and the result is exactly the list
   of surviving entries under their new keys, re-ordered by key. *)
Theorem C18_mapkeys_injective_complete : forall (V : Type) (km : list (Z * V)) (im : list Z) (off k : Z) (v : V) (t : Z),
  mk_injective im off km -> In (k, v) km -> mk_target im off k = Some t ->
  mk_find t (mapkeys_spec km im off) = Some v.
Proof. exact (fun V km im off k v t => @mapkeys_spec_complete V km im off k v t). Qed.
Print Assumptions C18_mapkeys_injective_complete.

Theorem C18_mapkeys_injective_perm : forall (V : Type) (km : list (Z * V)) (im : list Z) (off : Z),
  mk_injective im off km -> Permutation (mapkeys_spec km im off) (mk_image im off km).
Proof. exact @mapkeys_spec_perm. Qed.
Print Assumptions C18_mapkeys_injective_perm.

(* the other case, explicitly: the result never has more entries than survive, and it has exactly
   as many iff there is no collision -- a non-injective renaming always loses entries. *)
Theorem C18_mapkeys_length : forall (V : Type) (km : list (Z * V)) (im : list Z) (off : Z),
  (length (mapkeys_spec km im off) <= length (mk_image im off km) <= length km)%nat /\
  (length (mapkeys_spec km im off) = length (mk_image im off km) <-> mk_injective im off km).
Proof. exact @mapkeys_spec_length. Qed.
Print Assumptions C18_mapkeys_length.

(* the use the comment describes -- the collapse map of a deletion (C18_collapse_correct) with
   defaultOffset = -(number of deleted positions) -- never collides, for any set of distinct keys *)
Theorem C18_mapkeys_collapse_injective : forall (V : Type) (km : list (Z * V)) (idx : list N) (n : N),
  NoDup idx -> Forall (fun i => i < n) idx -> NoDup (map fst km) ->
  mk_injective (collapse_spec idx n) (- Z.of_N (vlen idx)) km.
Proof. exact @mapkeys_collapse_injective. Qed.
Print Assumptions C18_mapkeys_collapse_injective.

(* Non-vacuity: concrete inputs meeting the hypotheses, with non-trivial results. *)
Example C18_erase_example :
  sorted_lt [1; 3] /\ vlen [10; 11; 12; 13; 14] < 2 ^ 16 /\
  erase_model 16 0 [10; 11; 12; 13; 14] [1; 3] = Ok [10; 12; 14].
Proof. repeat split; try (repeat constructor; fail); try reflexivity. Qed.

Example C18_collapse_example :
  collapse_model 16 false [1; 3] 5 = Ok [0; -1; 1; -1; 2]%Z.
Proof. reflexivity. Qed.

Example C18_strips_example :
  strips_model [[0; 1; 2; 3; 3; 4]] = Ok [(0, 1, 2); (1, 3, 2)].
Proof. reflexivity. Qed.

(* insert: 3 elements, holes at positions 1 and 3 (position 1 keeps the stale 11, position 3 lies
   beyond the old end and holds the fill value 0); erasing the holes again gives the input *)
Example C18_insert_example :
  sorted_lt [1; 3] /\ Forall (fun i => i < vlen [10; 11; 12] + vlen [1; 3]) [1; 3] /\
  vlen [10; 11; 12] + vlen [1; 3] < 2 ^ 16 /\
  insert_model 16 0 [10; 11; 12] [1; 3] = Ok [10; 11; 11; 0; 12] /\
  insert_spec 0 [10; 11; 12] [1; 3] = [10; 11; 11; 0; 12] /\
  erase_spec [10; 11; 11; 0; 12] [1; 3] = [10; 11; 12].
Proof. repeat split; try (repeat constructor; fail); reflexivity. Qed.

(* the guard: last index 7 is not a position of a 5-element result *)
Example C18_insert_guard_example :
  insert_model 16 0 [10; 11; 12] [1; 7] = Ok [10; 11; 12].
Proof. reflexivity. Qed.

(* expand: positions 1 and 3 deleted; the three new positions come from 0, 2, 4, and the collapse
   map of the erase example sends these back to 0, 1, 2 *)
Example C18_expand_example :
  sorted_lt [1; 3] /\ 3 + vlen [1; 3] < 2 ^ 16 /\ 3 + vlen [1; 3] < 2 ^ 31 /\
  expand_model 16 false [1; 3] 3 = Ok [0; 2; 4]%Z /\
  free_rank [1; 3] 4 2.
Proof. repeat split; try (repeat constructor; fail); reflexivity. Qed.

(* map keys: positions 1 and 3 of 5 deleted (collapse map [0;-1;1;-1;2], offset -2); the entries at
   keys 0, 3, 4, 7 (std::map<int,_> order): key 3 is deleted, 4 -> 2, 7 lies beyond the map -> 5 *)
Example C18_mapkeys_example :
  mk_fits (mk_kty_w MK_int) (mk_kty_sg MK_int) (collapse_spec [1; 3] 5) (-2) [(0, 100); (3, 101); (4, 102); (7, 103)]%Z /\
  mk_injective (collapse_spec [1; 3] 5) (-2) [(0, 100); (3, 101); (4, 102); (7, 103)]%Z /\
  mapkeys_model MK_int [(0, 100); (3, 101); (4, 102); (7, 103)]%Z (collapse_spec [1; 3] 5) (-2)
    = Ok [(0, 100); (2, 102); (5, 103)]%Z.
Proof.
  split; [repeat constructor; cbn; lia|].
  split; [|reflexivity].
  unfold mk_injective, mk_injective_with.
  match goal with |- NoDup ?l => let l' := eval vm_compute in l in change (NoDup l') end.
  repeat (apply NoDup_cons; [cbn; intuition lia|]). apply NoDup_nil.
Qed.

(* the non-injective case: keys 0 and 5 are both sent to 3 (indexMap[0] = 3, 5 - 2 = 3); the entry
   that comes later in iteration order wins, the other one is lost (one entry instead of two) *)
Example C18_mapkeys_collision_example :
  mk_fits (mk_kty_w MK_int) (mk_kty_sg MK_int) [3]%Z (-2) [(0, 100); (5, 101)]%Z /\
  ~ mk_injective [3]%Z (-2) [(0, 100); (5, 101)]%Z /\
  mapkeys_model MK_int [(0, 100); (5, 101)]%Z [3]%Z (-2) = Ok [(3, 101)]%Z /\
  mapkeys_model MK_int [(5, 101); (0, 100)]%Z [3]%Z (-2) = Ok [(3, 100)]%Z.
Proof.
  split; [repeat constructor; cbn; lia|].
  split; [|split; reflexivity].
  unfold mk_injective, mk_injective_with. intros H.
  match type of H with NoDup ?l => let l' := eval vm_compute in l in change (NoDup l') in H end.
  inversion H as [|? ? Hn _]. apply Hn. left. reflexivity.
Qed.

(* outside the precondition: with uint16_t keys 5 - 7 wraps to 65534 (C18_mapkeys_defined still
   says what happens); with int keys INT_MAX + 1 is undefined behaviour: the model faults *)
Example C18_mapkeys_wrap_example :
  mapkeys_model MK_u16 [(0, 100); (5, 101)]%Z [3]%Z (-7) = Ok [(3, 100); (65534, 101)]%Z /\
  mapkeys_model MK_int [(1, 100); (2147483647, 101)]%Z [0]%Z 1 = Fault.
Proof. split; reflexivity. Qed.
