(* C18 — index-remapping and strip utilities agree with their mathematical definition.
   Only statements, each closed by [exact] of a lemma proved elsewhere, and their assumptions. *)
From NiflyVerif Require Import Res UtilModel UtilSpec CompactProofs EraseProofs FillProofs StripProofs.
Local Open Scope N_scope.

(* EraseVectorIndices: for a strictly ascending index list and a vector shorter than 2^w
   (w = value bits of the index type) the loop returns exactly the unlisted elements, in order. *)
Theorem C18_erase_correct : forall (A : Type) (w : N) (d : A) (v : list A) (idx : list N),
  sorted_lt idx -> vlen v < 2 ^ w -> erase_model w d v idx = Ok (erase_spec v idx).
Proof. exact @erase_correct. Qed.
Print Assumptions C18_erase_correct.

(* ... and for ANY index list (unsorted, duplicated, out of range, empty) it never leaves v. *)
Theorem C18_erase_safe : forall (A : Type) (w : N) (d : A) (v : list A) (idx : list N),
  vlen v < 2 ^ w -> exists r, erase_model w d v idx = Ok r /\ (length r <= length v)%nat.
Proof. exact @erase_safe. Qed.
Print Assumptions C18_erase_safe.

(* ApplyMapToTriangles: for every triangle list and every map (no hypothesis on either beyond the
   counter widths) the result is exactly the triangles whose corners all map to a non-negative
   entry, re-indexed, in order, together with the positions of the dropped ones. *)
Theorem C18_apply_map_tris_correct : forall (w2 : N) (sg2 : bool) (tris : list tri) (map : list Z),
  vlen tris < 2 ^ w2 -> vlen tris < 2 ^ 31 ->
  apply_map_tris_model w2 sg2 tris map = Ok (apply_map_spec tris map).
Proof. exact apply_map_tris_correct. Qed.
Print Assumptions C18_apply_map_tris_correct.

(* GenerateIndexCollapseMap: survivors go to consecutive new positions in order, deleted to -1. *)
Theorem C18_collapse_correct : forall (w2 : N) (sg2 : bool) (idx : list N) (n : N),
  sorted_lt idx -> n < 2 ^ w2 -> n < 2 ^ 31 ->
  collapse_model w2 sg2 idx n = Ok (collapse_spec idx n).
Proof. exact collapse_correct. Qed.
Print Assumptions C18_collapse_correct.

(* GenerateTrianglesFromStrips: for every list of strips. *)
Theorem C18_strips_correct : forall strips : list (list N), strips_model strips = Ok (strips_spec strips).
Proof. exact strips_correct. Qed.
Print Assumptions C18_strips_correct.

Theorem C18_strips_nondegenerate : forall s i a b c,
  In (a, b, c) (strip_windows i s) -> a <> b /\ b <> c /\ c <> a.
Proof. exact strip_windows_nondegenerate. Qed.
Print Assumptions C18_strips_nondegenerate.

(* Non-vacuity: concrete inputs meeting the hypotheses, with non-trivial results. *)
Example C18_erase_example :
  sorted_lt [1; 3] /\ vlen [10; 11; 12; 13; 14] < 2 ^ 16 /\
  erase_model 16 0 [10; 11; 12; 13; 14] [1; 3] = Ok [10; 12; 14].
Proof. repeat split; try (repeat constructor; fail); try reflexivity. Qed.

Example C18_collapse_example :
  collapse_model 16 false [1; 3] 5 = Ok [0; -1; 1; -1; 2]%Z.
Proof. reflexivity. Qed.

Example C18_strips_example :
  strips_model [[0; 1; 2; 3; 3; 4]] = Ok [(0, 1, 2); (1, 3, 2)].
Proof. reflexivity. Qed.
