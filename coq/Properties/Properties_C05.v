(* C05 — every serialised block or string reference is enumerated by its owner.
   Programs and enumeration tables are GENERATED from /repo on every run (coq/Gen/IRCur.v). *)
From NiflyVerif Require Import IR Exec IREq Refs Versions IRCur.
Local Open Scope N_scope.

(* for ALL programs: whatever a run of the program logs as "a reference passed through Sync here"
   is a key of a field named by the static collection [refs_for] (branches on the version triple are
   decided, all other branches are taken both ways, loops once) *)
Theorem C05_logged_sound : forall m v hs s st st',
  exec m v hs s st = Ok st' -> log_ext (names_of (refs_for v s)) st st'.
Proof. exact logged_sound. Qed.
Print Assumptions C05_logged_sound.

(* under the per-type obligation, in every listed version, in both modes, for every object and every
   input, each reference/string index passing through the block's Sync belongs to a field that the
   owner's GetChildRefs/GetPtrs/GetStringRefs report *)
Theorem C05_enumerated_covers_logged : forall versions body enum m v hs st st',
  refs_enumerated versions body enum = true -> In v versions ->
  exec m v hs body st = Ok st' -> log_ext (fst enum ++ snd enum) st st'.
Proof. exact enumerated_covers_logged. Qed.
Print Assumptions C05_enumerated_covers_logged.

(* the block types whose obligation is discharged in this run *)
Definition C05_enum_of (i : N) : list N * list N :=
  match find (fun x => fst x =? i) IRCur.enum_table with Some x => snd x | None => ([], []) end.
Definition C05_proved_ids : list N :=
  map fst (filter (fun x => refs_enumerated supported_versions (snd (snd x)) (C05_enum_of (fst x))) IRCur.block_table).
Eval vm_compute in C05_proved_ids.

(* non-vacuity: a reference synced but not enumerated is rejected, an enumerated one accepted *)
Example C05_obligation_discriminates :
  refs_enumerated supported_versions (SSeq (SRef 7 []) (SSeq (SRefArrHead 1 2 3 9 [] 4) (SFor 5 (ESize 3 []) (SRef 9 [ILocal 5])))) ([7], []) = false /\
  refs_enumerated supported_versions (SSeq (SRef 7 []) (SSeq (SRefArrHead 1 2 3 9 [] 4) (SFor 5 (ESize 3 []) (SRef 9 [ILocal 5])))) ([9; 7], []) = true.
Proof. split; reflexivity. Qed.
