(* C01 — load/save round trip at the block level, on the SyncIR programs GENERATED from /repo. *)
From NiflyVerif Require Import IR Exec IREq Refs RtDefs RtProofs Total Versions IRCur.
Local Open Scope N_scope.

(* The static round-trip discipline is sound, for ALL programs of the IR, all version triples, all
   header-string oracles: a program accepted by [chk] from the agreed set A, run in write mode on any
   state, then in read mode on any state that agrees on A and holds the produced bytes (followed by
   anything), consumes exactly those bytes without fault and ends agreeing on the resulting set
   (tokens: scalar instances, container sizes, the bytes of raw arrays (SBytes: vertex and other plain-struct
   data), locals; strings are transferred but not part of the agreement: a reader cuts them at a NUL).
   [rt_ok] quantifies over writers that finish with the model-only flag [warn] down: the flag goes up
   exactly when an inline string of 2049 bytes or more is written by a stream below 20.1.0.3, which
   NiStringRef::Read cannot take back (it keeps at most 2048 bytes). An object obtained by reading never
   holds such a string. *)
Theorem C01_chk_sound : forall v hs s A A', chk v s A = Some A' -> rt_ok v hs s A A'.
Proof. exact chk_sound. Qed.
Print Assumptions C01_chk_sound.

(* Per block type and version (obligation [chk_block], discharged by computation on the regenerated
   model): whatever object is written, a freshly constructed object reads the bytes back exactly. *)
Theorem C01_block_round_trip : forall v hs b,
  chk_block v b = true ->
  forall obj sw', exec Wr v hs (block_prog b) obj = Ok sw' -> warn sw' = false ->
  exists bytes A', out sw' = rev bytes ++ out obj /\
    forall rest, exists sr', exec Rd v hs (block_prog b) (empty_state (bytes ++ rest)) = Ok sr' /\
                             inp sr' = rest /\ eof sr' = false /\ agree A' sw' sr'.
Proof. exact block_round_trip. Qed.
Print Assumptions C01_block_round_trip.

(* the block types for which the obligation is discharged for ALL supported version triples,
   and the per-version counts *)
Definition C01_proved_ids : list N :=
  map fst (filter (fun x => forallb (fun v => chk_block v (snd x)) supported_versions) IRCur.block_table).
Eval vm_compute in C01_proved_ids.
Definition C01_proved_per_version : list nat :=
  map (fun v => length (filter (fun x => chk_block v (snd x)) IRCur.block_table)) supported_versions.
Eval vm_compute in C01_proved_per_version.

(* the flag hypothesis is satisfiable and necessary: a short inline name passes, a 2049-byte one raises it *)
Example C01_warn_down_and_up :
  let prog := SStrRef 7 8 [] in let v := mkVer 335544325 11 11 in
  (forall sw', exec Wr v (fun _ => false) prog (set_blob (empty_state []) (enc_key 7 []) [65; 66]) = Ok sw' -> warn sw' = false) /\
  (forall sw', exec Wr v (fun _ => false) prog (set_blob (empty_state []) (enc_key 7 []) (repeat 65 2049)) = Ok sw' -> warn sw' = true).
Proof. split; intros sw' H; vm_compute in H; injection H as <-; reflexivity. Qed.

(* non-vacuity: a count that is used before it is transferred is rejected; the accepted order passes *)
Example C01_check_discriminates :
  chk (mkVer 0 0 0) (SSeq (SFor 1 (ELoad 5 []) (SSync 6 [ILocal 1] (PInt false 2))) (SSync 5 [] (PInt false 4))) [] = None /\
  exists A', chk (mkVer 0 0 0) (SSeq (SSync 5 [] (PInt false 4)) (SFor 1 (ELoad 5 []) (SSync 6 [ILocal 1] (PInt false 2)))) [] = Some A'.
Proof. split; [reflexivity|eexists; reflexivity]. Qed.
