(* C17 — segment / partition labels round-trip and always partition the triangles.
   Only statements, each closed by [exact] of a lemma proved in coq/Geom/*.v, and their
   assumptions. Models: Geom/SegModel.v (BSSubIndexTriShape::SetSegmentation with std::stable_sort
   as a stable insertion sort, the partTriInds loops, the table construction, the renumbering
   loop; GetSegmentation; NiShape::ReorderTriangles) and the re-fit of Geom/GeomModel.v. *)
From NiflyVerif Require Import Res UtilModel UtilSpec EraseProofs GeomModel SegModel GeomBase GeomSpec
  SegSort SegProofs RefitProofs RefitLabels SegRecords SseRange.
From Coq Require Import Sorted Permutation.
Local Open Scope N_scope.

(* ---- the sort that stands for std::stable_sort: a permutation, sorted by key, and stable
   (for every key the elements carrying it keep their order) *)
Theorem C17_sort_perm : forall l, Permutation (stable_sort l) l.
Proof. exact stable_sort_perm. Qed.
Print Assumptions C17_sort_perm.

Theorem C17_sort_sorted : forall l, StronglySorted key_le (stable_sort l).
Proof. exact stable_sort_sorted. Qed.
Print Assumptions C17_sort_sorted.

Theorem C17_sort_stable : forall l k,
  filter (fun y => Z.eqb (snd y) k) (stable_sort l) = filter (fun y => Z.eqb (snd y) k) l.
Proof. exact stable_sort_stable. Qed.
Print Assumptions C17_sort_stable.

(* ---- whatever the arguments (any info, any label list, ill-formed shapes included): when
   SetSegmentation returns, the stored triangles are a permutation of the previous ones *)
Theorem C17_set_seg_perm : forall b inf labels b',
  set_segmentation b inf labels = Ok b' -> Permutation (bs_tris b') (bs_tris b).
Proof. exact set_segmentation_perm. Qed.
Print Assumptions C17_set_seg_perm.

(* ReorderTriangles with a permutation of 0..n-1 permutes the triangles *)
Theorem C17_reorder_tris : forall tris inds out,
  reorder_tris tris inds = Some out -> Permutation inds (nseq (vlen tris)) -> Permutation out tris.
Proof. exact reorder_tris_perm. Qed.
Print Assumptions C17_reorder_tris.

(* ---- the main statement. For a label list with one entry per triangle whose entries are ids
   declared in the info or negative (valid_labels), distinct non-negative declared ids, at most
   2^32/3 triangles and 2^31 ids:
   SetSegmentation succeeds; counters agree; the triangles are re-ordered by the stable sort of
   the renumbered labels; the segment table tiles the triangle list ([segs_tile]: segments
   contiguous, in order, from 0 to the triangle count; inside a segment first its own triangles,
   then its sub-segments contiguous and ending where the segment ends); and GetSegmentation
   returns, position by position, the renumbered label of the triangle now stored there, with the
   info renumbered 0,1,2,... in declaration order. *)
Theorem C17_get_set_labels : forall b inf labels,
  let ids := inf_ids (inf_segs inf) in
  let nt := bs_nt b in
  NoDup ids -> Forall (fun i => (0 <= i)%Z) ids -> valid_labels ids labels ->
  (labels <> [] -> inf_segs inf <> []) ->
  vlen labels = nt -> vlen (bs_tris b) = nt -> 3 * nt < 4294967296 ->
  (Z.of_nat (ids_total (inf_segs inf)) < 2147483648)%Z ->
  let keys := map (renumber ids) labels in
  let sorted := stable_sort (combine (nseq nt) keys) in
  exists b', set_segmentation b inf labels = Ok b' /\
    bs_nt b' = nt /\ sn_nprim (bs_segn b') = nt /\ sn_nseg (bs_segn b') = vlen (sn_segs (bs_segn b')) /\
    bs_tris b' = map (fun i => nth (N.to_nat i) (bs_tris b) (0, 0, 0)) (map fst sorted) /\
    segs_tile 0 (sn_segs (bs_segn b')) nt /\
    sn_segs (bs_segn b') = segs_spec (cntlt (map snd sorted)) (inf_segs inf) 0 /\
    sn_recs (bs_segn b') = recs_spec (inf_segs inf) 0 /\
    exists inf', get_segmentation b' = Ok (inf', map snd sorted) /\
                 inf_shape (inf_segs inf') = shape_spec (inf_segs inf) 0.
Proof. exact set_get_labels. Qed.
Print Assumptions C17_get_set_labels.

(* every triangle keeps its (renumbered) label: the (triangle, label) pairs are only permuted *)
Theorem C17_labels_follow_triangles : forall b inf labels o2n newid keys,
  vlen labels = bs_nt b -> vlen (bs_tris b) = bs_nt b -> 3 * bs_nt b < 4294967296 ->
  o2n_segs (inf_segs inf) [] 0%Z = Ok (o2n, newid) -> newid = Z.of_nat (ids_total (inf_segs inf)) ->
  (newid < 2147483648)%Z -> mapM (new_label o2n) labels = Ok keys ->
  Forall (fun k => (0 <= k < newid)%Z) keys ->
  forall b', set_segmentation b inf labels = Ok b' ->
  Permutation (combine (bs_tris b') (map snd (stable_sort (combine (nseq (bs_nt b)) keys))))
              (combine (bs_tris b) keys).
Proof. exact set_segmentation_pairs. Qed.
Print Assumptions C17_labels_follow_triangles.

(* the renumbering loop computes the documented renumbering *)
Theorem C17_renumbering : forall inf labels,
  NoDup (inf_ids (inf_segs inf)) -> Forall (fun i => (0 <= i)%Z) (inf_ids (inf_segs inf)) ->
  valid_labels (inf_ids (inf_segs inf)) labels -> (labels <> [] -> inf_segs inf <> []) ->
  exists o2n,
    o2n_segs (inf_segs inf) [] 0%Z = Ok (o2n, Z.of_nat (ids_total (inf_segs inf))) /\
    mapM (new_label o2n) labels = Ok (map (renumber (inf_ids (inf_segs inf))) labels) /\
    Forall (fun k => (0 <= k < Z.of_nat (ids_total (inf_segs inf)))%Z) (map (renumber (inf_ids (inf_segs inf))) labels).
Proof. exact renumber_loop_ok. Qed.
Print Assumptions C17_renumbering.

(* ---- the re-fit after vertex deletion (BSSubIndexTriShape::notifyVerticesDelete), as a function:
   every range loses the dropped triangles lying inside it, then the ranges are laid out one after
   the other. No fault when the counters agree with the tables. *)
Theorem C17_refit_function : forall b idx,
  sorted_lt idx -> bs_kind b = BSSubIndex -> bs_core_wf b = true -> seg_tables_wf b = true ->
  bs_delete b idx = Ok (bs_sits_spec b idx).
Proof. exact bs_sits_delete_ok. Qed.
Print Assumptions C17_refit_function.

(* the range facts survive a vertex deletion: starting from tables that tile the triangle list as
   SetSegmentation leaves them ([segs_tile]), the re-fitted tables tile the new triangle list in
   the same way: segments contiguous, ordered, from 0 to the new triangle count (so the sizes sum
   to it), numPrimitives is the new triangle count, and in every segment the triangles it owns
   itself come first, then its sub-segments, contiguous, ending where the segment ends. (Before the
   repair of C17-refit-first-subsegment-start the sub-segments were laid out from the segment's
   start and only a weaker statement held.) *)
Theorem C17_refit_keeps_ranges : forall b idx,
  sorted_lt idx -> bs_kind b = BSSubIndex -> bs_core_wf b = true -> seg_tables_wf b = true ->
  segs_tile 0 (sn_segs (bs_segn b)) (bs_nt b) -> sn_nprim (bs_segn b) = bs_nt b -> 3 * bs_nt b < 4294967296 ->
  exists b', bs_delete b idx = Ok b' /\
    bs_tris b' = tris_spec idx (bs_tris b) /\ bs_nt b' = vlen (bs_tris b') /\
    sn_nprim (bs_segn b') = bs_nt b' /\
    segs_tile 0 (sn_segs (bs_segn b')) (bs_nt b').
Proof. exact bs_sits_delete_ranges. Qed.
Print Assumptions C17_refit_keeps_ranges.

(* the counting fact behind it: walking the dropped positions in descending order, a range of n
   triangles starting at lo loses exactly the dropped positions inside [lo, lo + n) *)
Theorem C17_shrink_counts : forall lo D n,
  StronglySorted (fun a b => b < a) D -> lo + n < 4294967296 ->
  fold_left (shrink_step lo) D n = n - count_in D lo (lo + n).
Proof. exact shrink_count_ok. Qed.
Print Assumptions C17_shrink_counts.

(* ---- every surviving triangle keeps its label (holds since the repair of
   C17-refit-first-subsegment-start). For a sub-index shape whose segment tables are the ones
   SetSegmentation writes for a sorted key list K (one key per triangle): DeleteVertsForShape's
   branch keeps the untouched triangles in order, and GetSegmentation then returns K with exactly
   the entries of the dropped triangles erased, and the same info ids. *)
Theorem C17_refit_keeps_labels : forall b idx (K : list Z) (shape : list seginfo),
  sorted_lt idx -> bs_kind b = BSSubIndex -> bs_core_wf b = true -> bs_ssen b = vlen (bs_sse b) ->
  StronglySorted Z.le K -> Forall (fun k => (0 <= k < Z.of_nat (ids_total shape))%Z) K ->
  vlen K = bs_nt b -> 3 * bs_nt b < 4294967296 ->
  sn_segs (bs_segn b) = segs_spec (cntlt K) shape 0 -> sn_nseg (bs_segn b) = vlen (sn_segs (bs_segn b)) ->
  N.of_nat (ids_total shape) <= vlen (sn_recs (bs_segn b)) ->
  exists b' inf', bs_delete b idx = Ok b' /\
    bs_tris b' = tris_spec idx (bs_tris b) /\
    get_segmentation b' = Ok (inf', erase_spec K (del_pos idx (bs_tris b))) /\
    inf_shape (inf_segs inf') = shape_spec shape 0.
Proof. exact refit_keeps_labels. Qed.
Print Assumptions C17_refit_keeps_labels.

(* the property's history in one statement: set a valid labelling, delete any vertex set, read the
   labelling back = the labels read before the deletion minus the dropped triangles *)
Theorem C17_set_then_delete_keeps_labels : forall b inf labels idx,
  let ids := inf_ids (inf_segs inf) in
  let nt := bs_nt b in
  NoDup ids -> Forall (fun i => (0 <= i)%Z) ids -> valid_labels ids labels ->
  (labels <> [] -> inf_segs inf <> []) ->
  vlen labels = nt -> 3 * nt < 4294967296 ->
  (Z.of_nat (ids_total (inf_segs inf)) < 2147483648)%Z ->
  bs_kind b = BSSubIndex -> bs_core_wf b = true -> bs_ssen b = vlen (bs_sse b) -> sorted_lt idx ->
  exists b1 b2 inf1 inf2 L,
    set_segmentation b inf labels = Ok b1 /\ get_segmentation b1 = Ok (inf1, L) /\
    bs_delete b1 idx = Ok b2 /\ bs_tris b2 = tris_spec idx (bs_tris b1) /\
    get_segmentation b2 = Ok (inf2, erase_spec L (del_pos idx (bs_tris b1))) /\
    inf_shape (inf_segs inf2) = inf_shape (inf_segs inf1).
Proof. exact set_then_delete_keeps_labels. Qed.
Print Assumptions C17_set_then_delete_keeps_labels.

(* ---- the former counter-example (DESIGN section 7, #9a; finding C17-refit-first-subsegment-start,
   repaired): six triangles on 18 vertices, info "segment 0 with sub-segments 1 and 2; segment 3",
   labels 0 0 1 2 2 3; deleting vertex 15 (the last triangle) leaves the five other triangles in
   place and now they keep their labels 0 0 1 2 2 (the unrepaired re-fit gave 1 2 2 0 0). *)
Definition C17_w_tris : list tri := [(0,1,2); (3,4,5); (6,7,8); (9,10,11); (12,13,14); (15,16,17)].
Definition C17_w_shape : bsshape :=
  mkBs BSSubIndex 18 (nseq 18) 6 C17_w_tris [] [] 0 0 0 0
       (mkSegmentation 0 0 0 [] 0 0 [] [] 0) 0 [].
Definition C17_w_inf : seginf :=
  mkSeginf [mkSeginfo 0 [mkSubinfo 1 0 7; mkSubinfo 2 0 8]; mkSeginfo 3 []] 9.
Definition C17_w_labels : list Z := [0; 0; 1; 2; 2; 3]%Z.

Definition labels_of (r : res (seginf * list Z)) : list Z :=
  match r with Ok x => snd x | _ => [] end.

Example C17_refit_keeps_labels_on_witness :
  exists b b' : bsshape,
    set_segmentation C17_w_shape C17_w_inf C17_w_labels = Ok b /\
    labels_of (get_segmentation b) = [0; 0; 1; 2; 2; 3]%Z /\
    bs_delete b [15] = Ok b' /\
    bs_tris b' = firstn 5 (bs_tris b) /\
    labels_of (get_segmentation b') = firstn 5 (labels_of (get_segmentation b)).
Proof.
  eexists. eexists.
  split; [vm_compute; reflexivity|].
  split; [vm_compute; reflexivity|].
  split; [vm_compute; reflexivity|].
  split; [vm_compute; reflexivity|].
  vm_compute. reflexivity.
Qed.

(* ---- non-vacuity of the hypotheses of C17_get_set_labels: the witness above satisfies them *)
Example C17_example_hypotheses :
  NoDup (inf_ids (inf_segs C17_w_inf)) /\ Forall (fun i => (0 <= i)%Z) (inf_ids (inf_segs C17_w_inf)) /\
  valid_labels (inf_ids (inf_segs C17_w_inf)) ((-1)%Z :: C17_w_labels) /\
  vlen C17_w_labels = bs_nt C17_w_shape /\ vlen (bs_tris C17_w_shape) = bs_nt C17_w_shape.
Proof.
  split; [repeat constructor; cbn; intuition discriminate|].
  split; [repeat constructor; discriminate|].
  split; [|split; reflexivity].
  unfold valid_labels. repeat constructor; cbn; try (left; reflexivity); right; intuition.
Qed.

(* ---- what the get/set API carries besides ids and labels: per sub-segment the userSlotID and the
   (material, extraData) token, through subSegmentData.dataRecords, and the ssf file name.
   [inf_data] lists, segment by segment and in order, the (userSlotID, data token) of every
   sub-segment of an info. Hypotheses as for C17_get_set_labels.
   For ANY user slots: what GetSegmentation returns is what it reads ([rec_read]: a stored slot
   below 30 is reported as 0) from the records SetSegmentation stored ([subrecs]: a slot below 30 is
   replaced by the running sub-segment number 1, 2, ... of its segment), in order; the ssf name comes
   back unchanged. *)
Theorem C17_set_get_records_general : forall b inf labels,
  NoDup (inf_ids (inf_segs inf)) -> Forall (fun i => (0 <= i)%Z) (inf_ids (inf_segs inf)) ->
  valid_labels (inf_ids (inf_segs inf)) labels -> (labels <> [] -> inf_segs inf <> []) ->
  vlen labels = bs_nt b -> vlen (bs_tris b) = bs_nt b -> 3 * bs_nt b < 4294967296 ->
  (Z.of_nat (ids_total (inf_segs inf)) < 2147483648)%Z ->
  exists b' inf' L, set_segmentation b inf labels = Ok b' /\ get_segmentation b' = Ok (inf', L) /\
    inf_data (inf_segs inf') = map (fun s => map rec_read (subrecs (gi_subs s) 1)) (inf_segs inf) /\
    inf_ssf inf' = inf_ssf inf.
Proof. exact set_get_records_general. Qed.
Print Assumptions C17_set_get_records_general.

(* the well-formedness the C++ needs: in every segment fewer than 30 sub-segments carry a user slot
   below 30 (their running numbers must stay below 30 to be told apart from real slots). Then the
   records read back are the records set, in order, with the documented normalisation of the slot
   ([slot_norm]: below 30 -> 0, otherwise unchanged; material/extraData untouched). *)
Theorem C17_set_get_records : forall b inf labels,
  NoDup (inf_ids (inf_segs inf)) -> Forall (fun i => (0 <= i)%Z) (inf_ids (inf_segs inf)) ->
  valid_labels (inf_ids (inf_segs inf)) labels -> (labels <> [] -> inf_segs inf <> []) ->
  vlen labels = bs_nt b -> vlen (bs_tris b) = bs_nt b -> 3 * bs_nt b < 4294967296 ->
  (Z.of_nat (ids_total (inf_segs inf)) < 2147483648)%Z ->
  Forall (fun s => low_count (gi_subs s) < 30) (inf_segs inf) ->
  exists b' inf' L, set_segmentation b inf labels = Ok b' /\ get_segmentation b' = Ok (inf', L) /\
    inf_data (inf_segs inf') = map (map slot_norm) (inf_data (inf_segs inf)) /\
    inf_ssf inf' = inf_ssf inf.
Proof. exact set_get_records. Qed.
Print Assumptions C17_set_get_records.

(* ... and literally equal when the slots handed in are 0 or at least 30 *)
Theorem C17_set_get_records_exact : forall b inf labels,
  NoDup (inf_ids (inf_segs inf)) -> Forall (fun i => (0 <= i)%Z) (inf_ids (inf_segs inf)) ->
  valid_labels (inf_ids (inf_segs inf)) labels -> (labels <> [] -> inf_segs inf <> []) ->
  vlen labels = bs_nt b -> vlen (bs_tris b) = bs_nt b -> 3 * bs_nt b < 4294967296 ->
  (Z.of_nat (ids_total (inf_segs inf)) < 2147483648)%Z ->
  Forall (fun s => low_count (gi_subs s) < 30) (inf_segs inf) ->
  Forall (fun s => Forall (fun u => si_slot u = 0 \/ 30 <= si_slot u) (gi_subs s)) (inf_segs inf) ->
  exists b' inf' L, set_segmentation b inf labels = Ok b' /\ get_segmentation b' = Ok (inf', L) /\
    inf_data (inf_segs inf') = inf_data (inf_segs inf) /\ inf_ssf inf' = inf_ssf inf.
Proof. exact set_get_records_exact. Qed.
Print Assumptions C17_set_get_records_exact.

(* the ill-formed branch of the size test: a label list without one entry per triangle leaves the
   shape (triangles, tables, records) exactly as it was *)
Theorem C17_set_seg_size_mismatch : forall b inf labels,
  vlen labels <> bs_nt b -> set_segmentation b inf labels = Ok b.
Proof. exact set_segmentation_size_mismatch. Qed.
Print Assumptions C17_set_seg_size_mismatch.

(* the ill-formed branch of the slot rule: with 30 sub-segments of user slot 0 in one segment (all
   other hypotheses hold) the 30th is stored under the number 30 and read back as the real slot 30.
   Replayed on the implementation by the check (case "records-30"): it reads 30 as well. *)
Theorem C17_set_get_records_refuted :
  exists b inf labels b' inf' L,
    NoDup (inf_ids (inf_segs inf)) /\ Forall (fun i => (0 <= i)%Z) (inf_ids (inf_segs inf)) /\
    valid_labels (inf_ids (inf_segs inf)) labels /\ vlen labels = bs_nt b /\ vlen (bs_tris b) = bs_nt b /\
    Forall (fun s => low_count (gi_subs s) = 30) (inf_segs inf) /\
    set_segmentation b inf labels = Ok b' /\ get_segmentation b' = Ok (inf', L) /\
    inf_data (inf_segs inf) = [repeat (0, 7) 30] /\
    inf_data (inf_segs inf') = [repeat (0, 7) 29 ++ [(30, 7)]].
Proof. exact set_get_records_refuted. Qed.
Print Assumptions C17_set_get_records_refuted.

(* ---- the SSE-style segment table (BSSubIndexTriShape::segments: index, numTris) under the re-fit.
   [sse_tile 0 segs nt]: the segments are contiguous and in order from triangle 0 to triangle nt
   (index = 3 * first triangle). If the table tiles the triangle list before a vertex deletion, it
   tiles the new triangle list afterwards; in particular every segment's index is a multiple of 3
   and its range [index/3, index/3 + numTris) lies inside the new triangle list, and the counts sum
   to the new triangle count (C17_sse_tile_facts). *)
Theorem C17_sse_refit_keeps_ranges : forall b idx,
  sorted_lt idx -> bs_kind b = BSSubIndex -> bs_core_wf b = true -> seg_tables_wf b = true ->
  sse_tile 0 (bs_sse b) (bs_nt b) -> 3 * bs_nt b < 4294967296 ->
  exists b', bs_delete b idx = Ok b' /\
    bs_tris b' = tris_spec idx (bs_tris b) /\ bs_nt b' = vlen (bs_tris b') /\
    bs_ssen b' = vlen (bs_sse b') /\
    sse_tile 0 (bs_sse b') (bs_nt b') /\
    Forall (fun s => sd_index s mod 3 = 0 /\ sd_index s / 3 + sd_num s <= bs_nt b') (bs_sse b').
Proof. exact bs_sits_delete_sse_ranges. Qed.
Print Assumptions C17_sse_refit_keeps_ranges.

Theorem C17_sse_tile_facts : forall p segs e, sse_tile p segs e ->
  Forall (fun s => sd_index s mod 3 = 0 /\ p <= sd_index s / 3 /\ sd_index s / 3 + sd_num s <= e) segs /\
  p + fold_right (fun s a => sd_num s + a) 0 segs = e.
Proof. exact (fun p segs e H => conj (sse_tile_in_range p segs e H) (sse_tile_sum p segs e H)). Qed.
Print Assumptions C17_sse_tile_facts.

(* without the tiling hypothesis the code does NOT keep the ranges inside the triangle list (the
   start of the first segment is never re-fitted; a dropped triangle inside two overlapping ranges
   is subtracted from both). Two witnesses, both replayed on the implementation by the check
   (cases "sse-front-gap", "sse-overlap"): every segment lies inside the triangle list before the
   deletion and one leaves it afterwards. *)
Theorem C17_sse_refit_ranges_refuted :
  exists b idx b',
    sorted_lt idx /\ bs_kind b = BSSubIndex /\ bs_core_wf b = true /\ seg_tables_wf b = true /\
    3 * bs_nt b < 4294967296 /\
    sse_in_range (bs_nt b) (bs_sse b) = true /\
    bs_delete b idx = Ok b' /\
    bs_nt b' = 5 /\ bs_sse b' = [mkSsegd 6 4] /\
    sse_in_range (bs_nt b') (bs_sse b') = false.
Proof. exact sse_refit_ranges_refuted. Qed.
Print Assumptions C17_sse_refit_ranges_refuted.

Theorem C17_sse_refit_overlap_refuted :
  exists b idx b',
    sorted_lt idx /\ bs_core_wf b = true /\ seg_tables_wf b = true /\
    sse_in_range (bs_nt b) (bs_sse b) = true /\
    bs_delete b idx = Ok b' /\
    bs_nt b' = 5 /\ bs_sse b' = [mkSsegd 0 3; mkSsegd 9 3] /\
    sse_in_range (bs_nt b') (bs_sse b') = false.
Proof. exact sse_refit_overlap_refuted. Qed.
Print Assumptions C17_sse_refit_overlap_refuted.

(* ---- non-vacuity of the new hypotheses. Records: the witness info with user slots 5 (below 30:
   comes back as 0) and 31 (a real slot: comes back as 31), data tokens 7 and 8 unchanged. *)
Definition C17_w_inf2 : seginf :=
  mkSeginf [mkSeginfo 0 [mkSubinfo 1 5 7; mkSubinfo 2 31 8]; mkSeginfo 3 []] 9.

Definition data_of (r : res (seginf * list Z)) : list (list (N * tok)) * tok :=
  match r with Ok x => (inf_data (inf_segs (fst x)), inf_ssf (fst x)) | _ => ([], 0) end.

Example C17_records_example :
  Forall (fun s => low_count (gi_subs s) < 30) (inf_segs C17_w_inf2) /\
  exists b, set_segmentation C17_w_shape C17_w_inf2 C17_w_labels = Ok b /\
    sn_recs (bs_segn b) = [mkSegrec 0 0; mkSegrec 1 7; mkSegrec 31 8; mkSegrec 1 0] /\
    data_of (get_segmentation b) = ([[(0, 7); (31, 8)]; []], 9).
Proof.
  split; [repeat constructor|].
  eexists. split; [vm_compute; reflexivity|]. split; vm_compute; reflexivity.
Qed.

(* SSE: the witness shape with the table 0..1 | 2..3 | 4..5; deleting vertex 15 (the last triangle)
   gives 0..1 | 2..3 | 4..4 on five triangles *)
Example C17_sse_example :
  let b := mkBs BSSubIndex 18 (nseq 18) 6 C17_w_tris [] [] 0 0 0 0
                (mkSegmentation 0 0 0 [] 0 0 [] [] 0) 3 [mkSsegd 0 2; mkSsegd 6 2; mkSsegd 12 2] in
  sse_tile 0 (bs_sse b) (bs_nt b) /\ bs_core_wf b = true /\ seg_tables_wf b = true /\
  exists b', bs_delete b [15] = Ok b' /\ bs_nt b' = 5 /\
             bs_sse b' = [mkSsegd 0 2; mkSsegd 6 2; mkSsegd 12 1].
Proof.
  cbv zeta. split; [cbn [bs_sse bs_nt]; repeat (constructor; [reflexivity|]); constructor|].
  split; [reflexivity|]. split; [reflexivity|].
  eexists. split; [vm_compute; reflexivity|]. split; vm_compute; reflexivity.
Qed.
