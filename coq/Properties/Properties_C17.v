(* C17 — segment / partition labels round-trip and always partition the triangles.
   Only statements, each closed by [exact] of a lemma proved in coq/Geom/*.v, and their
   assumptions. Models: Geom/SegModel.v (BSSubIndexTriShape::SetSegmentation with std::stable_sort
   as a stable insertion sort, the partTriInds loops, the table construction, the renumbering
   loop; GetSegmentation; NiShape::ReorderTriangles) and the re-fit of Geom/GeomModel.v. *)
From NiflyVerif Require Import Res UtilModel UtilSpec EraseProofs GeomModel SegModel GeomBase GeomSpec
  SegSort SegProofs RefitProofs RefitLabels.
From Coq Require Import Sorted Permutation.
Local Open Scope N_scope.

(* ---- the sort that stands for std::stable_sort: a permutation, sorted by key, and stable
   (for every key the elements carrying it keep their order) *)
Theorem C17_sort_perm : forall l, Permutation (stable_sort l) l.
Proof. exact stable_sort_perm. Qed.
Print Assumptions C17_sort_perm.

Theorem C17_sort_sorted : forall l, StronglySorted key_le (stable_sort l).
Proof. exact stable_sort_sorted. Qed.
Print Assumptions C17_sort_sorted.

Theorem C17_sort_stable : forall l k,
  filter (fun y => Z.eqb (snd y) k) (stable_sort l) = filter (fun y => Z.eqb (snd y) k) l.
Proof. exact stable_sort_stable. Qed.
Print Assumptions C17_sort_stable.

(* ---- whatever the arguments (any info, any label list, ill-formed shapes included): when
   SetSegmentation returns, the stored triangles are a permutation of the previous ones *)
Theorem C17_set_seg_perm : forall b inf labels b',
  set_segmentation b inf labels = Ok b' -> Permutation (bs_tris b') (bs_tris b).
Proof. exact set_segmentation_perm. Qed.
Print Assumptions C17_set_seg_perm.

(* ReorderTriangles with a permutation of 0..n-1 permutes the triangles *)
Theorem C17_reorder_tris : forall tris inds out,
  reorder_tris tris inds = Some out -> Permutation inds (nseq (vlen tris)) -> Permutation out tris.
Proof. exact reorder_tris_perm. Qed.
Print Assumptions C17_reorder_tris.

(* ---- the main statement. For a label list with one entry per triangle whose entries are ids
   declared in the info or negative (valid_labels), distinct non-negative declared ids, at most
   2^32/3 triangles and 2^31 ids:
   SetSegmentation succeeds; counters agree; the triangles are re-ordered by the stable sort of
   the renumbered labels; the segment table tiles the triangle list ([segs_tile]: segments
   contiguous, in order, from 0 to the triangle count; inside a segment first its own triangles,
   then its sub-segments contiguous and ending where the segment ends); and GetSegmentation
   returns, position by position, the renumbered label of the triangle now stored there, with the
   info renumbered 0,1,2,... in declaration order. *)
Theorem C17_get_set_labels : forall b inf labels,
  let ids := inf_ids (inf_segs inf) in
  let nt := bs_nt b in
  NoDup ids -> Forall (fun i => (0 <= i)%Z) ids -> valid_labels ids labels ->
  (labels <> [] -> inf_segs inf <> []) ->
  vlen labels = nt -> vlen (bs_tris b) = nt -> 3 * nt < 4294967296 ->
  (Z.of_nat (ids_total (inf_segs inf)) < 2147483648)%Z ->
  let keys := map (renumber ids) labels in
  let sorted := stable_sort (combine (nseq nt) keys) in
  exists b', set_segmentation b inf labels = Ok b' /\
    bs_nt b' = nt /\ sn_nprim (bs_segn b') = nt /\ sn_nseg (bs_segn b') = vlen (sn_segs (bs_segn b')) /\
    bs_tris b' = map (fun i => nth (N.to_nat i) (bs_tris b) (0, 0, 0)) (map fst sorted) /\
    segs_tile 0 (sn_segs (bs_segn b')) nt /\
    sn_segs (bs_segn b') = segs_spec (cntlt (map snd sorted)) (inf_segs inf) 0 /\
    sn_recs (bs_segn b') = recs_spec (inf_segs inf) 0 /\
    exists inf', get_segmentation b' = Ok (inf', map snd sorted) /\
                 inf_shape (inf_segs inf') = shape_spec (inf_segs inf) 0.
Proof. exact set_get_labels. Qed.
Print Assumptions C17_get_set_labels.

(* every triangle keeps its (renumbered) label: the (triangle, label) pairs are only permuted *)
Theorem C17_labels_follow_triangles : forall b inf labels o2n newid keys,
  vlen labels = bs_nt b -> vlen (bs_tris b) = bs_nt b -> 3 * bs_nt b < 4294967296 ->
  o2n_segs (inf_segs inf) [] 0%Z = Ok (o2n, newid) -> newid = Z.of_nat (ids_total (inf_segs inf)) ->
  (newid < 2147483648)%Z -> mapM (new_label o2n) labels = Ok keys ->
  Forall (fun k => (0 <= k < newid)%Z) keys ->
  forall b', set_segmentation b inf labels = Ok b' ->
  Permutation (combine (bs_tris b') (map snd (stable_sort (combine (nseq (bs_nt b)) keys))))
              (combine (bs_tris b) keys).
Proof. exact set_segmentation_pairs. Qed.
Print Assumptions C17_labels_follow_triangles.

(* the renumbering loop computes the documented renumbering *)
Theorem C17_renumbering : forall inf labels,
  NoDup (inf_ids (inf_segs inf)) -> Forall (fun i => (0 <= i)%Z) (inf_ids (inf_segs inf)) ->
  valid_labels (inf_ids (inf_segs inf)) labels -> (labels <> [] -> inf_segs inf <> []) ->
  exists o2n,
    o2n_segs (inf_segs inf) [] 0%Z = Ok (o2n, Z.of_nat (ids_total (inf_segs inf))) /\
    mapM (new_label o2n) labels = Ok (map (renumber (inf_ids (inf_segs inf))) labels) /\
    Forall (fun k => (0 <= k < Z.of_nat (ids_total (inf_segs inf)))%Z) (map (renumber (inf_ids (inf_segs inf))) labels).
Proof. exact renumber_loop_ok. Qed.
Print Assumptions C17_renumbering.

(* ---- the re-fit after vertex deletion (BSSubIndexTriShape::notifyVerticesDelete), as a function:
   every range loses the dropped triangles lying inside it, then the ranges are laid out one after
   the other. No fault when the counters agree with the tables. *)
Theorem C17_refit_function : forall b idx,
  sorted_lt idx -> bs_kind b = BSSubIndex -> bs_core_wf b = true -> seg_tables_wf b = true ->
  bs_delete b idx = Ok (bs_sits_spec b idx).
Proof. exact bs_sits_delete_ok. Qed.
Print Assumptions C17_refit_function.

(* the range facts survive a vertex deletion: starting from tables that tile the triangle list as
   SetSegmentation leaves them ([segs_tile]), the re-fitted tables tile the new triangle list in
   the same way: segments contiguous, ordered, from 0 to the new triangle count (so the sizes sum
   to it), numPrimitives is the new triangle count, and in every segment the triangles it owns
   itself come first, then its sub-segments, contiguous, ending where the segment ends. (Before the
   repair of C17-refit-first-subsegment-start the sub-segments were laid out from the segment's
   start and only a weaker statement held.) *)
Theorem C17_refit_keeps_ranges : forall b idx,
  sorted_lt idx -> bs_kind b = BSSubIndex -> bs_core_wf b = true -> seg_tables_wf b = true ->
  segs_tile 0 (sn_segs (bs_segn b)) (bs_nt b) -> sn_nprim (bs_segn b) = bs_nt b -> 3 * bs_nt b < 4294967296 ->
  exists b', bs_delete b idx = Ok b' /\
    bs_tris b' = tris_spec idx (bs_tris b) /\ bs_nt b' = vlen (bs_tris b') /\
    sn_nprim (bs_segn b') = bs_nt b' /\
    segs_tile 0 (sn_segs (bs_segn b')) (bs_nt b').
Proof. exact bs_sits_delete_ranges. Qed.
Print Assumptions C17_refit_keeps_ranges.

(* the counting fact behind it: walking the dropped positions in descending order, a range of n
   triangles starting at lo loses exactly the dropped positions inside [lo, lo + n) *)
Theorem C17_shrink_counts : forall lo D n,
  StronglySorted (fun a b => b < a) D -> lo + n < 4294967296 ->
  fold_left (shrink_step lo) D n = n - count_in D lo (lo + n).
Proof. exact shrink_count_ok. Qed.
Print Assumptions C17_shrink_counts.

(* ---- every surviving triangle keeps its label (holds since the repair of
   C17-refit-first-subsegment-start). For a sub-index shape whose segment tables are the ones
   SetSegmentation writes for a sorted key list K (one key per triangle): DeleteVertsForShape's
   branch keeps the untouched triangles in order, and GetSegmentation then returns K with exactly
   the entries of the dropped triangles erased, and the same info ids. *)
Theorem C17_refit_keeps_labels : forall b idx (K : list Z) (shape : list seginfo),
  sorted_lt idx -> bs_kind b = BSSubIndex -> bs_core_wf b = true -> bs_ssen b = vlen (bs_sse b) ->
  StronglySorted Z.le K -> Forall (fun k => (0 <= k < Z.of_nat (ids_total shape))%Z) K ->
  vlen K = bs_nt b -> 3 * bs_nt b < 4294967296 ->
  sn_segs (bs_segn b) = segs_spec (cntlt K) shape 0 -> sn_nseg (bs_segn b) = vlen (sn_segs (bs_segn b)) ->
  N.of_nat (ids_total shape) <= vlen (sn_recs (bs_segn b)) ->
  exists b' inf', bs_delete b idx = Ok b' /\
    bs_tris b' = tris_spec idx (bs_tris b) /\
    get_segmentation b' = Ok (inf', erase_spec K (del_pos idx (bs_tris b))) /\
    inf_shape (inf_segs inf') = shape_spec shape 0.
Proof. exact refit_keeps_labels. Qed.
Print Assumptions C17_refit_keeps_labels.

(* the property's history in one statement: set a valid labelling, delete any vertex set, read the
   labelling back = the labels read before the deletion minus the dropped triangles *)
Theorem C17_set_then_delete_keeps_labels : forall b inf labels idx,
  let ids := inf_ids (inf_segs inf) in
  let nt := bs_nt b in
  NoDup ids -> Forall (fun i => (0 <= i)%Z) ids -> valid_labels ids labels ->
  (labels <> [] -> inf_segs inf <> []) ->
  vlen labels = nt -> 3 * nt < 4294967296 ->
  (Z.of_nat (ids_total (inf_segs inf)) < 2147483648)%Z ->
  bs_kind b = BSSubIndex -> bs_core_wf b = true -> bs_ssen b = vlen (bs_sse b) -> sorted_lt idx ->
  exists b1 b2 inf1 inf2 L,
    set_segmentation b inf labels = Ok b1 /\ get_segmentation b1 = Ok (inf1, L) /\
    bs_delete b1 idx = Ok b2 /\ bs_tris b2 = tris_spec idx (bs_tris b1) /\
    get_segmentation b2 = Ok (inf2, erase_spec L (del_pos idx (bs_tris b1))) /\
    inf_shape (inf_segs inf2) = inf_shape (inf_segs inf1).
Proof. exact set_then_delete_keeps_labels. Qed.
Print Assumptions C17_set_then_delete_keeps_labels.

(* ---- the former counter-example (DESIGN section 7, #9a; finding C17-refit-first-subsegment-start,
   repaired): six triangles on 18 vertices, info "segment 0 with sub-segments 1 and 2; segment 3",
   labels 0 0 1 2 2 3; deleting vertex 15 (the last triangle) leaves the five other triangles in
   place and now they keep their labels 0 0 1 2 2 (the unrepaired re-fit gave 1 2 2 0 0). *)
Definition C17_w_tris : list tri := [(0,1,2); (3,4,5); (6,7,8); (9,10,11); (12,13,14); (15,16,17)].
Definition C17_w_shape : bsshape :=
  mkBs BSSubIndex 18 (nseq 18) 6 C17_w_tris [] [] 0 0 0 0
       (mkSegmentation 0 0 0 [] 0 0 [] [] 0) 0 [].
Definition C17_w_inf : seginf :=
  mkSeginf [mkSeginfo 0 [mkSubinfo 1 0 7; mkSubinfo 2 0 8]; mkSeginfo 3 []] 9.
Definition C17_w_labels : list Z := [0; 0; 1; 2; 2; 3]%Z.

Definition labels_of (r : res (seginf * list Z)) : list Z :=
  match r with Ok x => snd x | _ => [] end.

Example C17_refit_keeps_labels_on_witness :
  exists b b' : bsshape,
    set_segmentation C17_w_shape C17_w_inf C17_w_labels = Ok b /\
    labels_of (get_segmentation b) = [0; 0; 1; 2; 2; 3]%Z /\
    bs_delete b [15] = Ok b' /\
    bs_tris b' = firstn 5 (bs_tris b) /\
    labels_of (get_segmentation b') = firstn 5 (labels_of (get_segmentation b)).
Proof.
  eexists. eexists.
  split; [vm_compute; reflexivity|].
  split; [vm_compute; reflexivity|].
  split; [vm_compute; reflexivity|].
  split; [vm_compute; reflexivity|].
  vm_compute. reflexivity.
Qed.

(* ---- non-vacuity of the hypotheses of C17_get_set_labels: the witness above satisfies them *)
Example C17_example_hypotheses :
  NoDup (inf_ids (inf_segs C17_w_inf)) /\ Forall (fun i => (0 <= i)%Z) (inf_ids (inf_segs C17_w_inf)) /\
  valid_labels (inf_ids (inf_segs C17_w_inf)) ((-1)%Z :: C17_w_labels) /\
  vlen C17_w_labels = bs_nt C17_w_shape /\ vlen (bs_tris C17_w_shape) = bs_nt C17_w_shape.
Proof.
  split; [repeat constructor; cbn; intuition discriminate|].
  split; [repeat constructor; discriminate|].
  split; [|split; reflexivity].
  unfold valid_labels. repeat constructor; cbn; try (left; reflexivity); right; intuition.
Qed.
