(* C04 — default save only permutes blocks and prunes unreferenced ones.
   Statements only; the model is Sorter/SorterModel.v (a transcription of NifFile.cpp:241-662 and
   of DeleteUnreferencedBlocks on top of Graph/GraphModel.v), proofs are in Sorter/*.v.
   All statements are for every graph: any number of blocks, any kinds, any references. *)
From NiflyVerif Require Import Res GraphModel GraphInv GraphAdd GraphOrder
  SorterModel SorterInv SorterChildren SorterIdem SorterSort SorterShapeOrder SorterFacts
  SorterRename SorterIdemFull SorterRerun.
From Coq Require Import Permutation.
Local Open Scope N_scope.

(* ---- index assignment ---- *)
(* [SInv n base S st]: newIndices has n entries; the visited set is, without duplicates, the numbered
   blocks plus the pending list S (blocks SortCollision inserted into the visited set on entry and
   has not numbered yet); newIndex = base + number of numbered blocks; the k-th numbered block carries
   base + k. The fused assignment (SetSortIndices, completing loops) keeps it ... *)
Theorem C04_assign_inv : forall n base S i st st',
  base + n < 4294967296 -> SInv n base S st -> assign i st = Ok st' -> SInv n base S st'.
Proof. exact assign_inv. Qed.
Print Assumptions C04_assign_inv.

(* ... SortCollision's entry (visitedIndices.insert(parent)) moves the parent into the pending list ... *)
Theorem C04_mark_inv : forall n base S i st,
  SInv n base S st -> visited st i = false -> SInv n base (i :: S) (s_mark i st).
Proof. exact mark_inv. Qed.
Print Assumptions C04_mark_inv.

(* ... and its deferred numbering (if (assignIndex) newIndices[parent] = newIndex++) takes it out again *)
Theorem C04_set_index_inv : forall n base S i st st',
  base + n < 4294967296 -> SInv n base (i :: S) st -> s_set_index i st = Ok st' -> SInv n base S st'.
Proof. exact set_index_inv. Qed.
Print Assumptions C04_set_index_inv.

(* Any property of the sort state, indexed by the pending list, that survives the fused assignment,
   the two halves of SortCollision's assignment and a child-array rebuild survives every traversal:
   every routine, every graph (cyclic collision graphs included), every fuel, every root shape order,
   and every call returns with the pending list it was entered with. Nothing below depends on which
   blocks the traversal visits or in which order. *)
Theorem C04_traversal_generic : forall (P : list N -> sstate -> Prop) ob rso,
  (forall S i, preserves (P S) (assign i)) ->
  (forall S i st, P S st -> visited st i = false -> P (i :: S) (s_mark i st)) ->
  (forall S i st st', P (i :: S) st -> s_set_index i st = Ok st' -> P S st') ->
  (forall S i st, P S st -> P S (rebuild_at ob rso i st)) ->
  forall fuel S c, preserves (P S) (sort_run ob rso fuel c).
Proof. exact run_preserves. Qed.
Print Assumptions C04_traversal_generic.

Theorem C04_traversal_numbering : forall ob rso n base S fuel c st st',
  base + n < 4294967296 -> sort_run ob rso fuel c st = Ok st' -> SInv n base S st -> SInv n base S st'.
Proof. exact run_sinv. Qed.
Print Assumptions C04_traversal_numbering.

(* ---- sort_perm: after the completing loop newIndices is a permutation of 0..n-1 ---- *)
Theorem C04_sort_perm : forall fuel ob g st,
  vlen g < NPOS -> pretty_indices fuel ob g = Ok st -> is_perm (st_nidx st) (vlen g).
Proof. exact sort_perm. Qed.
Print Assumptions C04_sort_perm.

(* ---- root_first: the first node (block order) that no node lists as a child gets index 0 ---- *)
Theorem C04_root_first : forall fuel ob g st r,
  vlen g < NPOS -> pretty_indices fuel ob g = Ok st ->
  first_root g = Some r -> kind_at g r K_COLL = false ->
  vget (st_nidx st) r = Some 0.
Proof. exact root_first. Qed.
Print Assumptions C04_root_first.

(* ---- SortGraph's new child array ---- *)
(* [crel shp ch ch']: the same set of children, none listed more often, the shape children permuted.
   No side condition on the root shape order: it is applied only when it is a permutation of the
   root's shape children (std::is_permutation guard), for every rootShapeOrder [rso]. *)
Theorem C04_rebuild_children : forall ob rso g is_root ch,
  (forall x, In x ch -> x = NPOS \/ x < vlen g) ->
  (forall x, kind_at g x K_NODE = true -> kind_at g x K_SHAPE = false) ->
  crel (fun x => kind_at g x K_SHAPE) ch (rebuild ob rso is_root g ch).
Proof. exact rebuild_spec. Qed.
Print Assumptions C04_rebuild_children.

(* exactly a permutation when no child that is neither node nor shape is listed twice *)
Theorem C04_rebuild_permutation : forall ob rso g is_root ch,
  (forall x, In x ch -> x = NPOS \/ x < vlen g) ->
  (forall x, kind_at g x K_NODE = true -> kind_at g x K_SHAPE = false) ->
  (forall x, x <> NPOS -> node_first ob g x = false -> kind_at g x K_SHAPE = false -> (cnt ch x <= 1)%nat) ->
  Permutation (rebuild ob rso is_root g ch) ch.
Proof. exact rebuild_permutation. Qed.
Print Assumptions C04_rebuild_permutation.

(* a component of "sorting a sorted model changes nothing", for every graph: with the empty
   rootShapeOrder of PrettySortBlocks a rebuilt child array is a fixed point of the rebuild *)
Theorem C04_rebuild_fixed_point : forall ob g is_root ch,
  (forall x, kind_at g x K_NODE = true -> kind_at g x K_SHAPE = false) ->
  rebuild ob [] is_root g (rebuild ob [] is_root g ch) = rebuild ob [] is_root g ch.
Proof. exact rebuild_fixed_point. Qed.
Print Assumptions C04_rebuild_fixed_point.

(* ---- sort_idem: sorting an already sorted model changes nothing ---- *)
(* (a) the traversal is equivariant under a renumbering of the blocks: [pi] injective, fixing NPOS,
   mapping the block range to itself; [rel pi n S st st2] says that st2 is st seen through pi (visited
   set, numbered newIndices entries, counter, every reference field of every block). Every routine,
   any graph, same fuel: related states in, related states out. *)
Theorem C04_traversal_equivariant : forall (pi : N -> N) (n : N),
  (forall a b, pi a = pi b -> a = b) -> pi NPOS = NPOS -> (forall i, pi i < n <-> i < n) ->
  forall ob fuel c S, sim (rel pi n S) (sort_run ob [] fuel c) (sort_run ob [] fuel (rn pi c)).
Proof. exact run_equivariant. Qed.
Print Assumptions C04_traversal_equivariant.

(* (b) the index computation run again on the block vector it leaves behind (child arrays rebuilt,
   blocks not yet permuted) computes the same order and rebuilds nothing *)
Theorem C04_rerun_same_order : forall ob f g st1,
  refs_in_range g -> node_excl g -> pretty_indices f ob g = Ok st1 ->
  pretty_indices f ob (st_gr st1) = Ok st1.
Proof. exact rerun_final. Qed.
Print Assumptions C04_rerun_same_order.

(* (c) on the reordered graph the loop over the parentless nodes (which now runs in the new block
   order) and the completing loop assign the identity *)
Theorem C04_second_run_identity : forall ob f h stF,
  vlen h < NPOS -> refs_in_range h -> node_shape_excl h -> node_coll_excl h ->
  pretty_indices f ob h = Ok stF ->
  forall h2, vlen h2 = vlen h ->
  (forall i, vget h2 (remap_ref (st_nidx stF) i) = option_map (map_refs (remap_ref (st_nidx stF))) (vget h i)) ->
  exists st2F, pretty_indices f ob h2 = Ok st2F /\
    st_nidx st2F = map N.of_nat (seq 0 (length h2)) /\ vlen (st_gr st2F) = vlen h /\
    forall i, vget (st_gr st2F) (remap_ref (st_nidx stF) i) =
              option_map (map_refs (remap_ref (st_nidx stF))) (vget (st_gr stF) i).
Proof. exact second_run. Qed.
Print Assumptions C04_second_run_identity.

(* the clause itself, for every model: fewer than 2^32-1 blocks, child references empty or in range, no
   object that is a NiNode and also a NiShape, NiCollisionObject or NiTimeController; both runs on the
   same fuel (the second needs no more than the first) *)
Theorem C04_sort_idem : forall fuel m m',
  vlen (sm_g m) < NPOS -> refs_in_range (sm_g m) -> node_excl (sm_g m) ->
  pretty_sort fuel m = Ok m' -> pretty_sort fuel m' = Ok m'.
Proof. exact sort_idem. Qed.
Print Assumptions C04_sort_idem.

(* the same with the hypotheses as one boolean check of the model *)
Theorem C04_sort_idem_checked : forall fuel m m',
  sortable_b (sm_g m) = true -> pretty_sort fuel m = Ok m' -> pretty_sort fuel m' = Ok m'.
Proof. exact sort_idem_b. Qed.
Print Assumptions C04_sort_idem_checked.

(* outside the hypotheses it is false of the model: a dangling child index in an OB / FO3 file ... *)
Theorem C04_sort_idem_refuted_dangling_ref :
  exists fuel m m', pretty_sort fuel m = Ok m' /\ pretty_sort fuel m' <> Ok m' /\
    vlen (sm_g m) < NPOS /\ node_excl_b (sm_g m) = true /\ refs_in_range_b (sm_g m) = false.
Proof. exact sort_idem_refuted_dangling_ref. Qed.
Print Assumptions C04_sort_idem_refuted_dangling_ref.

(* ... and an object that is both NiNode and NiTimeController (no C++ class is) *)
Theorem C04_sort_idem_refuted_node_controller :
  exists fuel m m', pretty_sort fuel m = Ok m' /\ pretty_sort fuel m' <> Ok m' /\
    vlen (sm_g m) < NPOS /\ refs_in_range_b (sm_g m) = true /\ node_excl_b (sm_g m) = false.
Proof. exact sort_idem_refuted_node_controller. Qed.
Print Assumptions C04_sort_idem_refuted_node_controller.

(* after the whole sort: every block is the original one up to its child array, which holds the same
   set of children, none more often than before *)
Theorem C04_sort_graph_children : forall fuel ob g st i b0 b,
  refs_in_range g -> node_shape_excl g -> pretty_indices fuel ob g = Ok st ->
  vget g i = Some b0 -> vget (st_gr st) i = Some b ->
  b = with_children b0 (s_children b) /\
  (forall x, In x (s_children b) <-> In x (s_children b0)) /\
  (forall x, (cnt (s_children b) x <= cnt (s_children b0) x)%nat) /\
  Permutation (filter (fun x => kind_at g x K_SHAPE) (s_children b)) (filter (fun x => kind_at g x K_SHAPE) (s_children b0)).
Proof. exact sort_graph_children. Qed.
Print Assumptions C04_sort_graph_children.

(* ---- applying the order ---- *)
(* the reordering moves block i to slot order[i] and rewrites every reference slot *)
Theorem C04_reorder_spec : forall order g,
  is_perm order (vlen g) ->
  exists g', reorder_g order g = Ok g' /\ vlen g' = vlen g /\
    (forall i o b, vget order i = Some o -> vget g i = Some b -> vget g' o = Some (map_refs (remap_ref order) b)).
Proof. exact reorder_g_spec. Qed.
Print Assumptions C04_reorder_spec.

(* ... so that every slot (structured field or not) designates the same object as before *)
Theorem C04_reorder_referent : forall order g g' r,
  vlen g < NPOS -> is_perm order (vlen g) -> reorder_g order g = Ok g' -> r = NPOS \/ r < vlen g ->
  option_map s_uid (getb g' (remap_ref order r)) = option_map s_uid (getb g r).
Proof. exact reorder_g_referent. Qed.
Print Assumptions C04_reorder_referent.

(* it is NiHeader::SetBlockOrder of Graph/GraphModel.v on the blocks as the header sees them *)
Theorem C04_reorder_commutes : forall h g order h',
  blocks h = map to_block g -> is_perm order (vlen g) -> nblocks h = vlen g ->
  set_block_order h order = Ok h' ->
  exists g', reorder_g order g = Ok g' /\ blocks h' = map to_block g'.
Proof. exact reorder_commutes. Qed.
Print Assumptions C04_reorder_commutes.

(* PrettySortBlocks on any consistent model (composition with GraphOrder.set_block_order_spec):
   the order is a bijection, only child arrays were rebuilt (grel), SetBlockOrder succeeds, the header
   stays consistent (no object twice, all references in range, type and size tables aligned), and the
   abstract graph is the same graph with slot i moved to slot order[i]: every reference designates
   the same object, nothing lost or duplicated. *)
Theorem C04_sort_view : forall fuel m m' h,
  Inv h -> blocks h = map to_block (sm_g m) -> refs_in_range (sm_g m) -> node_shape_excl (sm_g m) ->
  sm_unk m = false -> sm_g m <> [] ->
  pretty_sort fuel m = Ok m' ->
  exists st h',
    pretty_indices fuel (sm_ob m) (sm_g m) = Ok st /\
    is_perm (st_nidx st) (vlen (sm_g m)) /\
    grel (sm_g m) (st_gr st) /\
    set_block_order (hdr_with h (st_gr st)) (st_nidx st) = Ok h' /\
    Inv h' /\ blocks h' = map to_block (sm_g m') /\
    (forall i o, vget (st_nidx st) i = Some o -> vget (view h') o = vget (view (hdr_with h (st_gr st))) i).
Proof. exact pretty_sort_view. Qed.
Print Assumptions C04_sort_view.

(* ---- pruning: the sorter model's DeleteUnreferencedBlocks is Graph's, for which C06 proves that it
   is a chain of DeleteBlock calls on blocks that no block referenced at that moment ---- *)
Theorem C04_prune_only_unreferenced : forall fuel h g root c,
  Inv h -> blocks h = map to_block g -> (length g < fuel)%nat ->
  exists h' c' g', delete_unreferenced fuel (fun _ => true) h root c = Ok (h', c') /\
                   prune_g fuel g root = Ok g' /\ blocks h' = map to_block g' /\
                   del_chain unreferenced h h' /\ Inv h'.
Proof. exact prune_commutes. Qed.
Print Assumptions C04_prune_only_unreferenced.

(* ---- SetShapeOrder: for every graph, every position of the root node, every name list
        (duplicates, unresolved names, any count) ---- *)
Theorem C04_shape_order_perm : forall fuel ob names g st,
  vlen g < NPOS -> shape_order_indices fuel ob names g = Ok st -> is_perm (st_nidx st) (vlen g).
Proof. exact shape_order_perm. Qed.
Print Assumptions C04_shape_order_perm.

(* the root node (first node in block order, GetRootNode) gets index 0 *)
Theorem C04_shape_order_root_first : forall fuel ob names g st r,
  vlen g < NPOS -> root_node g = Some r -> kind_at g r K_COLL = false ->
  shape_order_indices fuel ob names g = Ok st -> vget (st_nidx st) r = Some 0.
Proof. exact shape_order_root_first. Qed.
Print Assumptions C04_shape_order_root_first.

Theorem C04_shape_order_children : forall fuel ob names g st,
  refs_in_range g -> node_shape_excl g ->
  shape_order_indices fuel ob names g = Ok st -> grel g (st_gr st).
Proof. exact shape_order_children. Qed.
Print Assumptions C04_shape_order_children.

(* SetBlockOrder always receives a permutation and stores inside its vectors *)
Theorem C04_shape_order_apply_ok : forall fuel ob names g st,
  vlen g < NPOS -> refs_in_range g -> node_shape_excl g ->
  shape_order_indices fuel ob names g = Ok st ->
  exists g', reorder_g (st_nidx st) (st_gr st) = Ok g' /\ vlen g' = vlen g.
Proof. exact shape_order_apply_ok. Qed.
Print Assumptions C04_shape_order_apply_ok.

(* the whole of SetShapeOrder on a consistent model: either a guarded no-op, or the blocks are
   permuted by a bijection, the header stays consistent and every reference keeps its referent *)
Theorem C04_shape_order_view : forall fuel names m m' h,
  Inv h -> blocks h = map to_block (sm_g m) -> refs_in_range (sm_g m) -> node_shape_excl (sm_g m) ->
  set_shape_order fuel names m = Ok m' ->
  m' = m \/
  exists st h',
    shape_order_indices fuel (sm_ob m) names (sm_g m) = Ok st /\
    is_perm (st_nidx st) (vlen (sm_g m)) /\
    grel (sm_g m) (st_gr st) /\
    set_block_order (hdr_with h (st_gr st)) (st_nidx st) = Ok h' /\
    Inv h' /\ blocks h' = map to_block (sm_g m') /\
    (forall i o, vget (st_nidx st) i = Some o -> vget (view h') o = vget (view (hdr_with h (st_gr st))) i).
Proof. exact set_shape_order_view. Qed.
Print Assumptions C04_shape_order_view.

(* ---- non-vacuity: a model on which every hypothesis holds and the sort runs ---- *)
(* block 0: extra data (loose); 1: root node [shape 3; node 2; empty]; 2: node [shape 4]; 3, 4: shapes *)
Definition ex_g : list sblock :=
  [ blank 0 0 [] [];
    blank 2 0 [3; 2; NPOS] [NPOS; NPOS];
    blank 2 0 [4] [NPOS; NPOS];
    blank 8 1 [] [NPOS; NPOS];
    blank 8 2 [] [NPOS; NPOS] ].
Definition ex_m : smodel := mkSM ex_g false false.

Example C04_example_hyps : refs_in_range ex_g /\ node_shape_excl ex_g /\ first_root ex_g = Some 1 /\
  kind_at ex_g 1 K_COLL = false /\ vlen ex_g < NPOS.
Proof. split; [range_tac|]. split; [excl_tac|]. split; [reflexivity|]. split; reflexivity. Qed.

Example C04_example_sort :
  match pretty_indices fuel100 false ex_g with
  | Ok st => st_nidx st = [4; 0; 1; 3; 2] /\ children_of (st_gr st) 1 = [2; 3; NPOS]
  | _ => False
  end.
Proof. vm_compute. split; reflexivity. Qed.

Example C04_example_sorted :
  match pretty_sort fuel100 ex_m with
  | Ok m' => map s_children (sm_g m') = [[1; 3; NPOS]; [2]; []; []; []] /\ pretty_sort fuel100 m' = Ok m'
  | _ => False
  end.
Proof. vm_compute. split; reflexivity. Qed.

(* sort_idem on a model that is not in sorted order: root node in block 2 with shapes 4 and 0, controller 3,
   collision object 1 -> rigid body 5; the hypotheses hold, the sort permutes the blocks, the second
   sort changes nothing *)
Example C04_example_idem :
  sortable_b (sm_g idem_ex) = true /\
  match pretty_sort fuel100 idem_ex with
  | Ok m' => map s_uid (sm_g m') = [2; 3; 5; 1; 4; 0] /\ map s_children (sm_g m') = [[4; 5]; []; []; []; []; []] /\
             pretty_sort fuel100 m' = Ok m'
  | _ => False
  end.
Proof. exact sort_idem_example. Qed.

(* the inputs on which the unrepaired SetShapeOrder failed: root in block 1 (was: order [2; 1], a store
   outside the vector), one name twice (was: children [1; 1; 2]), an unresolved name with a shape
   below another node (was: children [3; 0; 1]) *)
Example C04_example_root_nonzero :
  match set_shape_order fuel100 [1] w_root1 with
  | Ok m' => map s_kind (sm_g m') = [2; 8] /\ map s_children (sm_g m') = [[1]; []]
  | _ => False
  end.
Proof. vm_compute. split; reflexivity. Qed.

Example C04_example_bad_names :
  match set_shape_order fuel100 [1; 1] w_dup, set_shape_order fuel100 [2; 9] w_missing with
  | Ok m1, Ok m2 => map s_children (sm_g m1) = [[1; 2]; []; []] /\ map s_children (sm_g m2) = [[1; 3]; [2]; []; []] /\ map s_kind (sm_g m2) = [2; 2; 8; 8]
  | _, _ => False
  end.
Proof. vm_compute. repeat split; reflexivity. Qed.

(* a valid order is applied: root 0 with shapes named 1, 2, order [2; 1] *)
Example C04_example_order :
  match set_shape_order fuel100 [2; 1] w_dup with
  | Ok m' => map s_name (sm_g m') = [0; 2; 1] /\ map s_children (sm_g m') = [[1; 2]; []; []]
  | _ => False
  end.
Proof. vm_compute. split; reflexivity. Qed.

(* a cyclic collision graph (node 0 -> collision object 1 -> body 2 -> shape 3 -> body 2, and body 2
   listing itself): the sort terminates with a permutation, children before their parent *)
Definition ex_cycle : list sblock :=
  [ mkSB 0 2 0 2 [] NPOS [] 1 [] NPOS NPOS NPOS NPOS NPOS NPOS NPOS NPOS [] NPOS NPOS [] [] [] [] NPOS NPOS [NPOS; 1] [] [] [];
    blank 1 0 [] [2];
    blank 8192 0 [] [3; 2];
    blank 8192 0 [] [2] ].

Example C04_example_cycle :
  match pretty_indices fuel100 false ex_cycle with
  | Ok st => st_nidx st = [0; 3; 2; 1]
  | _ => False
  end.
Proof. vm_compute. reflexivity. Qed.
