(* C15 -- Corrupted block references never crash loading, querying or saving.

   The statements below are about the hand model coq/Robust/RobustModel.v (tied to the C++ by
   tools/props/c15.py: the extracted model is run on the graph dumped after loading every corrupted
   file and must predict every digest of the battery and the order PrettySortBlocks produces).
   They hold for
   ARBITRARY graphs: any reference may hold any number.

   What is NOT here: absence of memory errors / undefined behaviour in the C++ -- that is observed
   (ASan/UBSan + watchdog) on the enumerated corruptions only. *)
From NiflyVerif Require Import Res GraphModel RobustModel RobustBasics RobustSorter RobustGraph.
Local Open Scope N_scope.

(* ---- (i) NiHeader::GetBlock<T>: range check + dynamic_cast ---- *)
Theorem C15_get_block_guard_none : forall A (bl : list A) nb is_t id,
  id = NPOS \/ nb <= id -> get_block_guard bl nb is_t id = Ok None.
Proof. exact @get_block_guard_none. Qed.
Print Assumptions C15_get_block_guard_none.

Theorem C15_get_block_guard_some : forall A (bl : list A) nb is_t id,
  nb <= vlen bl -> id <> NPOS -> id < nb ->
  exists b, vget bl id = Some b /\ get_block_guard bl nb is_t id = Ok (if is_t b then Some b else None).
Proof. exact @get_block_guard_some. Qed.
Print Assumptions C15_get_block_guard_some.

Theorem C15_get_block_guard_sound : forall A (bl : list A) nb is_t id b,
  get_block_guard bl nb is_t id = Ok (Some b) ->
  id <> NPOS /\ id < nb /\ vget bl id = Some b /\ is_t b = true.
Proof. exact @get_block_guard_sound. Qed.
Print Assumptions C15_get_block_guard_sound.

Theorem C15_get_block_guard_no_fault : forall A (bl : list A) nb is_t id,
  nb <= vlen bl -> get_block_guard bl nb is_t id <> Fault.
Proof. exact @get_block_guard_no_fault. Qed.
Print Assumptions C15_get_block_guard_no_fault.

(* ---- (ii) range guards: GetBlockTypeStringById, SetBlockOrder (remap_ref), BlockDeleted (shift_ref) ---- *)
Theorem C15_block_type_string_no_fault : forall h id,
  nblocks h <= vlen (tidx h) -> ntypes h <= vlen (tnames h) -> rb_block_type_string h id <> Fault.
Proof. exact rb_block_type_string_no_fault. Qed.
Print Assumptions C15_block_type_string_no_fault.

Theorem C15_block_type_string_none : forall h id,
  id = NPOS \/ nblocks h <= id -> rb_block_type_string h id = Ok None.
Proof. exact rb_block_type_string_none. Qed.
Print Assumptions C15_block_type_string_none.

Theorem C15_remap_ref_outside : forall order r, r = NPOS \/ vlen order <= r -> remap_ref order r = r.
Proof. exact remap_ref_outside. Qed.
Print Assumptions C15_remap_ref_outside.

Theorem C15_remap_ref_inside : forall order r,
  r <> NPOS -> r < vlen order -> vget order r = Some (remap_ref order r).
Proof. exact remap_ref_inside. Qed.
Print Assumptions C15_remap_ref_inside.

Theorem C15_shift_ref_cases : forall id r,
  shift_ref id r = (if r =? NPOS then NPOS else if r =? id then NPOS else if id <? r then r - 1 else r)
  /\ (shift_ref id r = NPOS \/ shift_ref id r <= r).
Proof. exact shift_ref_cases. Qed.
Print Assumptions C15_shift_ref_cases.

Theorem C15_is_referenced_spec : forall h id p,
  is_referenced h id p = true <-> id <> NPOS /\ exists b, In b (blocks h) /\ In id (refs_of p b).
Proof. exact is_referenced_spec. Qed.
Print Assumptions C15_is_referenced_spec.

(* DeleteUnreferencedBlocks: terminates for EVERY header and every reference content *)
Theorem C15_delete_unreferenced_terminates : forall of_type fuel h root count,
  (length (blocks h) < fuel)%nat -> nblocks h < NPOS ->
  delete_unreferenced fuel of_type h root count <> OutOfFuel.
Proof. exact delete_unreferenced_terminates. Qed.
Print Assumptions C15_delete_unreferenced_terminates.

(* ... and is total (no out-of-range table access either) as soon as the header TABLES are consistent
   (counter = vector size, one type index per block, every type index names an existing type);
   nothing is assumed about the references *)
Theorem C15_delete_unreferenced_total : forall of_type fuel h root count,
  TInv h -> (length (blocks h) < fuel)%nat -> nblocks h < NPOS ->
  exists h' c, delete_unreferenced fuel of_type h root count = Ok (h', c) /\ TInv h'.
Proof. exact delete_unreferenced_total. Qed.
Print Assumptions C15_delete_unreferenced_total.

(* ---- GetTree: total for every child relation, fuel numBlocks + 1, result without repetition ---- *)
Theorem C15_get_tree_total : forall n (children : N -> list N) root, root < n ->
  exists r, rb_get_tree n children (S (N.to_nat n)) root [] = Ok r /\
            NoDup r /\ Forall (fun i => i < n) r /\ In root r.
Proof. exact get_tree_total. Qed.
Print Assumptions C15_get_tree_total.

Theorem C15_get_tree_total_graph : forall g, exists r, rg_get_tree (S (length g)) g = Ok r.
Proof. exact rg_get_tree_total. Qed.
Print Assumptions C15_get_tree_total_graph.

(* ---- (iii) the sorter ---- *)
(* no index outside newIndices / visitedIndices, whatever the graph, the scripts and the fuel *)
Theorem C15_pretty_sort_no_fault : forall n children entities before is_coll script fuel roots,
  rb_pretty_sort n children entities before is_coll script fuel roots <> Fault.
Proof. exact pretty_sort_no_fault. Qed.
Print Assumptions C15_pretty_sort_no_fault.

(* PrettySortBlocks is total for EVERY graph, every kind assignment and every script, within the
   explicit fuel numBlocks + 2.  (Before the repair of C15-sortcollision-cycle SortCollision recursed
   before marking its parent and this statement was false: the former witness is C15_ex_self below.) *)
Theorem C15_pretty_sort_total : forall n children entities before is_coll script roots,
  exists st,
    rb_pretty_sort n children entities before is_coll script (S (S (N.to_nat n))) roots = Ok st /\ wf n st.
Proof. exact pretty_sort_total. Qed.
Print Assumptions C15_pretty_sort_total.

(* SortCollision from any entry point, any state: fuel = unvisited blocks + 2 *)
Theorem C15_sort_collision_total : forall n children entities before (is_coll : N -> bool)
    (script : N -> list rb_action) p st,
  wf n st -> rb_valid n p = true ->
  exists st', rb_sort_collision n children entities before (S (S (unv st))) p st = Ok st' /\ wf n st'.
Proof. exact sort_collision_total. Qed.
Print Assumptions C15_sort_collision_total.

Theorem C15_pretty_sort_total_graph : forall g ob unk,
  exists order, rg_pretty_sort (rb_sort_fuel g) g ob unk = Ok order.
Proof. exact rg_pretty_sort_total. Qed.
Print Assumptions C15_pretty_sort_total_graph.

(* ---- the parent walk of GetNodeTransformToGlobal: total for every node graph (it keeps a visited
        set since the repair of C15-node-cycle-global-transform-hang) ---- *)
Theorem C15_to_global_total : forall nc fuel i visited,
  NoDup visited /\ Forall (fun j => j < vlen nc) visited ->
  (N.to_nat (vlen nc) - length visited < fuel)%nat ->
  exists k, rb_to_global nc fuel i visited = Ok k.
Proof. exact to_global_total. Qed.
Print Assumptions C15_to_global_total.

Theorem C15_to_global_total_graph : forall g i, i < vlen g ->
  exists k, rg_to_global (S (length g)) g i = Ok k.
Proof. exact rg_to_global_total. Qed.
Print Assumptions C15_to_global_total_graph.

(* ---- the hypotheses are satisfiable ---- *)
Example C15_ex_sorted : rg_pretty_sort (rb_sort_fuel rb_g_ok) rb_g_ok false false = Ok [0; 3; 2; 1].
Proof. reflexivity. Qed.
(* the former witnesses: a self-referencing collision body (a closed set of before-parent calls) is sorted,
   the walk from a node that is its own parent ends *)
Example C15_ex_closed : rg_closed_ok rb_g_self [2] = true.
Proof. reflexivity. Qed.
Example C15_ex_self : rg_pretty_sort (rb_sort_fuel rb_g_self) rb_g_self false false = Ok [0; 2; 1].
Proof. reflexivity. Qed.
Example C15_ex_parent_closed : rb_pclosed_ok (rg_node_children rb_g_loop) [0] = true.
Proof. reflexivity. Qed.
Example C15_ex_loop : rg_to_global 2 rb_g_loop 0 = Ok 1.
Proof. reflexivity. Qed.
Example C15_ex_tinv : TInv (mkHdr [mkBlock 0 7 [99; NPOS; 0] [5]; mkBlock 1 7 [1] []] 2 [7] 1 [0; 0] [0; 0] true).
Proof. repeat split; cbn; try lia; repeat constructor; cbn; lia. Qed.
Example C15_ex_guard : get_block_guard [10; 20; 30] 3 (fun x => 15 <? x) 1 = Ok (Some 20)
                       /\ get_block_guard [10; 20; 30] 3 (fun x => 15 <? x) 0 = Ok None
                       /\ get_block_guard [10; 20; 30] 3 (fun x => 15 <? x) 3 = Ok None
                       /\ get_block_guard [10; 20; 30] 4 (fun x => 15 <? x) 3 = Fault.
Proof. repeat split. Qed.
