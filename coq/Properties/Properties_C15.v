(* C15 -- Corrupted block references never crash loading, querying or saving.

   The statements below are about the hand model coq/Robust/RobustModel.v (tied to the C++ by
   tools/props/c15.py: the extracted model is run on the graph dumped after loading every corrupted
   file and must predict every digest of the battery, the order PrettySortBlocks produces, and
   "terminates / diverges" for the two traversals that keep no visited set).  They hold for
   ARBITRARY graphs: any reference may hold any number.

   What is NOT here: absence of memory errors / undefined behaviour in the C++ -- that is observed
   (ASan/UBSan + watchdog) on the enumerated corruptions only. *)
From NiflyVerif Require Import Res GraphModel RobustModel RobustBasics RobustSorter RobustGraph.
Local Open Scope N_scope.

(* ---- (i) NiHeader::GetBlock<T>: range check + dynamic_cast ---- *)
Theorem C15_get_block_guard_none : forall A (bl : list A) nb is_t id,
  id = NPOS \/ nb <= id -> get_block_guard bl nb is_t id = Ok None.
Proof. exact @get_block_guard_none. Qed.
Print Assumptions C15_get_block_guard_none.

Theorem C15_get_block_guard_some : forall A (bl : list A) nb is_t id,
  nb <= vlen bl -> id <> NPOS -> id < nb ->
  exists b, vget bl id = Some b /\ get_block_guard bl nb is_t id = Ok (if is_t b then Some b else None).
Proof. exact @get_block_guard_some. Qed.
Print Assumptions C15_get_block_guard_some.

Theorem C15_get_block_guard_sound : forall A (bl : list A) nb is_t id b,
  get_block_guard bl nb is_t id = Ok (Some b) ->
  id <> NPOS /\ id < nb /\ vget bl id = Some b /\ is_t b = true.
Proof. exact @get_block_guard_sound. Qed.
Print Assumptions C15_get_block_guard_sound.

Theorem C15_get_block_guard_no_fault : forall A (bl : list A) nb is_t id,
  nb <= vlen bl -> get_block_guard bl nb is_t id <> Fault.
Proof. exact @get_block_guard_no_fault. Qed.
Print Assumptions C15_get_block_guard_no_fault.

(* ---- (ii) range guards: GetBlockTypeStringById, SetBlockOrder (remap_ref), BlockDeleted (shift_ref) ---- *)
Theorem C15_block_type_string_no_fault : forall h id,
  nblocks h <= vlen (tidx h) -> ntypes h <= vlen (tnames h) -> rb_block_type_string h id <> Fault.
Proof. exact rb_block_type_string_no_fault. Qed.
Print Assumptions C15_block_type_string_no_fault.

Theorem C15_block_type_string_none : forall h id,
  id = NPOS \/ nblocks h <= id -> rb_block_type_string h id = Ok None.
Proof. exact rb_block_type_string_none. Qed.
Print Assumptions C15_block_type_string_none.

Theorem C15_remap_ref_outside : forall order r, r = NPOS \/ vlen order <= r -> remap_ref order r = r.
Proof. exact remap_ref_outside. Qed.
Print Assumptions C15_remap_ref_outside.

Theorem C15_remap_ref_inside : forall order r,
  r <> NPOS -> r < vlen order -> vget order r = Some (remap_ref order r).
Proof. exact remap_ref_inside. Qed.
Print Assumptions C15_remap_ref_inside.

Theorem C15_shift_ref_cases : forall id r,
  shift_ref id r = (if r =? NPOS then NPOS else if r =? id then NPOS else if id <? r then r - 1 else r)
  /\ (shift_ref id r = NPOS \/ shift_ref id r <= r).
Proof. exact shift_ref_cases. Qed.
Print Assumptions C15_shift_ref_cases.

Theorem C15_is_referenced_spec : forall h id p,
  is_referenced h id p = true <-> id <> NPOS /\ exists b, In b (blocks h) /\ In id (refs_of p b).
Proof. exact is_referenced_spec. Qed.
Print Assumptions C15_is_referenced_spec.

(* DeleteUnreferencedBlocks: terminates for EVERY header and every reference content *)
Theorem C15_delete_unreferenced_terminates : forall of_type fuel h root count,
  (length (blocks h) < fuel)%nat -> nblocks h < NPOS ->
  delete_unreferenced fuel of_type h root count <> OutOfFuel.
Proof. exact delete_unreferenced_terminates. Qed.
Print Assumptions C15_delete_unreferenced_terminates.

(* ... and is total (no out-of-range table access either) as soon as the header TABLES are consistent
   (counter = vector size, one type index per block, every type index names an existing type);
   nothing is assumed about the references *)
Theorem C15_delete_unreferenced_total : forall of_type fuel h root count,
  TInv h -> (length (blocks h) < fuel)%nat -> nblocks h < NPOS ->
  exists h' c, delete_unreferenced fuel of_type h root count = Ok (h', c) /\ TInv h'.
Proof. exact delete_unreferenced_total. Qed.
Print Assumptions C15_delete_unreferenced_total.

(* ---- GetTree: total for every child relation, fuel numBlocks + 1, result without repetition ---- *)
Theorem C15_get_tree_total : forall n (children : N -> list N) root, root < n ->
  exists r, rb_get_tree n children (S (N.to_nat n)) root [] = Ok r /\
            NoDup r /\ Forall (fun i => i < n) r /\ In root r.
Proof. exact get_tree_total. Qed.
Print Assumptions C15_get_tree_total.

Theorem C15_get_tree_total_graph : forall g, exists r, rg_get_tree (S (length g)) g = Ok r.
Proof. exact rg_get_tree_total. Qed.
Print Assumptions C15_get_tree_total_graph.

(* ---- (iii) the sorter ---- *)
(* no index outside newIndices / visitedIndices, whatever the graph, the scripts and the fuel *)
Theorem C15_pretty_sort_no_fault : forall n children entities before is_coll script fuel roots,
  rb_pretty_sort n children entities before is_coll script fuel roots <> Fault.
Proof. exact pretty_sort_no_fault. Qed.
Print Assumptions C15_pretty_sort_no_fault.

(* total with the explicit fuel (n+1)(R+1)+1 whenever the calls SortCollision makes BEFORE marking
   its parent admit a rank bounded by R (i.e. contain no cycle); [script] is arbitrary *)
Theorem C15_pretty_sort_total : forall n children entities before is_coll script (rank : N -> nat) (R : nat),
  (forall p c, rb_valid n p = true -> In c (rb_pre_targets n children entities before p) -> (rank c < rank p)%nat) ->
  (forall p, (rank p <= R)%nat) ->
  forall roots, exists st,
    rb_pretty_sort n children entities before is_coll script (S ((N.to_nat n + 1) * (R + 1))) roots = Ok st
    /\ wf n st.
Proof. exact pretty_sort_total. Qed.
Print Assumptions C15_pretty_sort_total.

(* no bhk blocks / constraints at all: every graph, fuel n + 2 *)
Theorem C15_pretty_sort_total_no_bhk : forall n children entities before is_coll script roots,
  (forall p, entities p = []) -> (forall c, before c = false) ->
  exists st, rb_pretty_sort n children entities before is_coll script (S (N.to_nat n + 1)) roots = Ok st.
Proof. exact pretty_sort_total_no_bhk. Qed.
Print Assumptions C15_pretty_sort_total_no_bhk.

(* on a dumped graph: a rank certificate accepted by the extracted checker => fuel (n+1)^2+1 suffices *)
Theorem C15_pretty_sort_total_graph : forall g ranks ob unk,
  rg_rank_ok g ranks = true -> exists order, rg_pretty_sort (rb_sort_fuel g) g ob unk = Ok order.
Proof. exact rg_pretty_sort_total. Qed.
Print Assumptions C15_pretty_sort_total_graph.

(* SortCollision recurses before it marks its parent: with a set C of existing blocks each of which
   makes such a call into C, a call on a member of C while C is unvisited never completes *)
Theorem C15_sort_collision_diverges : forall n children entities before (C : list N),
  (forall p, In p C -> rb_valid n p = true /\
     exists c, In c C /\ In c (rb_pre_targets n children entities before p)) ->
  forall fuel p st, In p C -> (forall x, In x C -> rb_is_visited st x = false) ->
  forall st', rb_sort_collision n children entities before fuel p st <> Ok st'.
Proof. exact sort_collision_diverges. Qed.
Print Assumptions C15_sort_collision_diverges.

Theorem C15_sort_collision_diverges_graph : forall g C, rg_closed_ok g C = true ->
  forall fuel p st, In p C -> (forall x, In x C -> rb_is_visited st x = false) -> wf (vlen g) st ->
  rb_sort_collision (vlen g) (rg_children g) (rg_entities g) (rg_before g) fuel p st = OutOfFuel.
Proof. exact rg_sort_collision_diverges. Qed.
Print Assumptions C15_sort_collision_diverges_graph.

(* the totality statement for ALL graphs is false: NiNode -> bhkCollisionObject -> bhkRigidBody whose
   shape reference is the body itself (replayed on the implementation: stack overflow) *)
Theorem C15_sort_collision_total_refuted :
  exists g, forall fuel, rg_pretty_sort fuel g false false = OutOfFuel.
Proof. exact sort_collision_total_refuted. Qed.
Print Assumptions C15_sort_collision_total_refuted.

(* ---- the parent walk of GetNodeTransformToGlobal (no visited set) ---- *)
Theorem C15_to_global_total : forall nc (rank : N -> nat),
  (forall i q, rb_get_parent_node nc i = Some q -> (rank q < rank i)%nat) ->
  forall fuel i steps, (rank i < fuel)%nat -> exists k, rb_to_global nc fuel i steps = Ok k.
Proof. exact to_global_total. Qed.
Print Assumptions C15_to_global_total.

Theorem C15_to_global_diverges : forall nc (C : list N),
  (forall p, In p C -> exists q, rb_get_parent_node nc p = Some q /\ In q C) ->
  forall fuel i steps, In i C -> rb_to_global nc fuel i steps = OutOfFuel.
Proof. exact to_global_diverges. Qed.
Print Assumptions C15_to_global_diverges.

Theorem C15_to_global_diverges_graph : forall g C, rb_pclosed_ok (rg_node_children g) C = true ->
  forall fuel i, In i C -> rg_to_global fuel g i = OutOfFuel.
Proof. exact rg_to_global_diverges. Qed.
Print Assumptions C15_to_global_diverges_graph.

(* a NiNode that lists itself as a child (replayed on the implementation: hang) *)
Theorem C15_to_global_total_refuted : exists g i, forall fuel, rg_to_global fuel g i = OutOfFuel.
Proof. exact to_global_total_refuted. Qed.
Print Assumptions C15_to_global_total_refuted.

(* ---- the hypotheses are satisfiable ---- *)
Example C15_ex_rank : rg_rank_ok rb_g_ok [0; 2; 1; 0] = true.
Proof. reflexivity. Qed.
Example C15_ex_sorted : rg_pretty_sort (rb_sort_fuel rb_g_ok) rb_g_ok false false = Ok [0; 3; 2; 1].
Proof. reflexivity. Qed.
Example C15_ex_closed : rg_closed_ok rb_g_self [2] = true.
Proof. reflexivity. Qed.
Example C15_ex_no_rank : rg_rank_ok rb_g_self [0; 0; 0] = false.
Proof. reflexivity. Qed.
Example C15_ex_parent_closed : rb_pclosed_ok (rg_node_children rb_g_loop) [0] = true.
Proof. reflexivity. Qed.
Example C15_ex_tinv : TInv (mkHdr [mkBlock 0 7 [99; NPOS; 0] [5]; mkBlock 1 7 [1] []] 2 [7] 1 [0; 0] [0; 0] true).
Proof. repeat split; cbn; try lia; repeat constructor; cbn; lia. Qed.
Example C15_ex_guard : get_block_guard [10; 20; 30] 3 (fun x => 15 <? x) 1 = Ok (Some 20)
                       /\ get_block_guard [10; 20; 30] 3 (fun x => 15 <? x) 0 = Ok None
                       /\ get_block_guard [10; 20; 30] 3 (fun x => 15 <? x) 3 = Ok None
                       /\ get_block_guard [10; 20; 30] 4 (fun x => 15 <? x) 3 = Fault.
Proof. repeat split. Qed.
