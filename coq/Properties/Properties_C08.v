(* C08 — the wire format of every block type is that of the reference release.
   IRRef is generated from /verif/reference (the pinned release), IRCur from /repo's working tree,
   by the same translator in the same run, with shared name tables. *)
From NiflyVerif Require Import IR Exec IREq IRRef IRCur.
Local Open Scope N_scope.

(* the comparison is sound: a boolean "equal" means the very same programs *)
Theorem C08_table_eqb_sound : forall a b, table_eqb a b = true -> a = b.
Proof. exact table_eqb_eq. Qed.
Print Assumptions C08_table_eqb_sound.

(* OBLIGATION on the generated models: the encoders/decoders of all block types, including the
   constructor constants they depend on, are syntactically identical in the two trees.
   Fails to compile exactly when some Sync body changed in a way the translator can see. *)
Theorem C08_same_programs : IRCur.block_table = IRRef.block_table.
Proof. apply table_eqb_eq. vm_compute. reflexivity. Qed.
Print Assumptions C08_same_programs.

(* consequently every block type is read and written identically, for every version triple
   (any numbers, not only the supported games), every header-string oracle, every object and
   every byte string, in both modes *)
Theorem C08_same_behaviour : forall i bc, In (i, bc) IRCur.block_table ->
  exists br, In (i, br) IRRef.block_table /\
    forall m v hs st, exec m v hs (fst bc) st = exec m v hs (fst br) st /\
                      exec m v hs (snd bc) st = exec m v hs (snd br) st.
Proof.
  intros i bc H. exists bc. rewrite <- C08_same_programs. split; [exact H|]. intros; split; reflexivity.
Qed.
Print Assumptions C08_same_behaviour.
