(* C10 — Skin partitions always cover the shape's triangles exactly once.
   Only statements, each closed by [exact] of a lemma proved in coq/Skin/, and their assumptions.
   The model (coq/Skin/SkinModel.v) mirrors Skin.cpp:303-510 and NifFile.cpp:2884-3060, 4103-4121,
   4264-4466 loop by loop; weights are exact rationals (IEEE rounding is NOT modelled: the weight
   statement is partial in that respect). All statements are for all inputs (any triangle count, any
   bone count, any assignment) inside an explicitly stated accepted domain. *)
From NiflyVerif Require Import Res UtilModel UtilSpec CompactProofs EraseProofs FillProofs SkinModel SkinLib
  SkinGenProofs SkinPartsProofs SkinOpsProofs SkinSplitProofs SkinUpdateProofs SkinTriPartsProofs SkinTheorems
  SkinCounters SkinTriPartsExact.
From Coq Require Import Sorted Permutation QArith.
Local Open Scope N_scope.

(* ------------------------------------------------------------------------------------------ *)
(* The generators of Skin.cpp *)

(* vertex_map_exact: GenerateVertexMapFromTrueTriangles yields exactly the vertices the true
   triangles use, strictly ascending (no duplicates); hypothesis: no corner is 65535 (the uint16_t
   loop bound wraps to 0 there: probed on the real code, corpus/C10) *)
Theorem C10_vertex_map_exact_generator : forall p : ks_pb,
  (forall x, In x (ks_corners (kb_tt p)) -> x < 65535) ->
  exists p', ks_pb_gen_vmap p = Ok p' /\ ks_same_but_vm p p' /\
    (sorted_lt (kb_vm p') /\ forall x, In x (kb_vm p') <-> In x (ks_corners (kb_tt p'))) /\
    kb_nv p' = vlen (kb_vm p') /\ vlen (kb_vm p') < 65536.
Proof. exact ks_gen_vmap_ok. Qed.
Print Assumptions C10_vertex_map_exact_generator.

(* mapped_true: GenerateMappedTrianglesFromTrueTrianglesAndVertexMap; every mapped triangle
   translates back through the vertex map to its true triangle up to the rotation Triangle::rot
   applies; hypothesis: the vertex map lists every corner (any order, duplicates allowed) *)
Theorem C10_mapped_true_generator : forall p : ks_pb,
  vlen (kb_vm p) < 65536 -> vlen (kb_tt p) < 2 ^ 31 -> kb_tt p <> [] ->
  (forall x, In x (ks_corners (kb_tt p)) -> In x (kb_vm p)) ->
  exists p', ks_pb_gen_mapped p = Ok p' /\ ks_same_but_tris p p' /\
    Forall2 (fun m t => (forall c, In c (ks_corners [m]) -> c < vlen (kb_vm p)) /\
                        ks_rot_equiv (ks_map_tri (ks_vmf (kb_vm p)) m) t) (kb_tris p') (kb_tt p).
Proof. exact ks_gen_mapped_ok. Qed.
Print Assumptions C10_mapped_true_generator.

(* the other direction: GenerateTrueTrianglesFromMappedTriangles *)
Theorem C10_true_from_mapped_generator : forall p : ks_pb,
  vlen (kb_tris p) < 2 ^ 31 -> kb_tris p <> [] ->
  (forall x, In x (kb_vm p) -> x < 65536) ->
  (forall c, In c (ks_corners (kb_tris p)) -> c < vlen (kb_vm p)) ->
  exists p', ks_pb_gen_true p = Ok p' /\ kb_tris p' = kb_tris p /\ kb_vm p' = kb_vm p /\
    kb_tt p' = map (fun m => ks_rot (ks_map_tri (ks_vmf (kb_vm p)) m)) (kb_tris p).
Proof. exact ks_gen_true_ok. Qed.
Print Assumptions C10_true_from_mapped_generator.

(* tri_cover for GenerateTrueTrianglesFromTriParts: the partitions' true triangles are a
   permutation of the triangles whose id names an existing partition; partition j holds exactly
   the triangles with id j, in shape order *)
Theorem C10_tri_cover_distribute : forall (ts : list tri) (s : ks_sp),
  vlen ts = vlen (kp_tp s) -> vlen (kp_parts s) < 2 ^ 31 ->
  Permutation (concat (map kb_tt (kp_parts (ks_sp_gen_true ts s))))
              (ks_assigned ts (kp_tp s) (length (kp_parts s))).
Proof. exact ks_sp_gen_true_cover. Qed.
Print Assumptions C10_tri_cover_distribute.

Theorem C10_distribute_exact : forall (ts : list tri) (s : ks_sp),
  vlen ts = vlen (kp_tp s) -> vlen (kp_parts s) < 2 ^ 31 ->
  ks_sp_gen_true ts s = ks_mkSP (kp_np s) (ks_imap (ks_dist_part ts (kp_tp s)) 0 (kp_parts s)) (kp_mapped s) (kp_tp s).
Proof. exact ks_sp_gen_true_spec. Qed.
Print Assumptions C10_distribute_exact.

(* PrepareVertexMapsAndTriangles on freshly distributed partitions: exact vertex maps and mapped
   triangles that translate back (or triangles = trueTriangles when indices are not mapped) *)
Theorem C10_prepare_after_distribute : forall (ts : list tri) (s : ks_sp),
  vlen ts = vlen (kp_tp s) -> vlen (kp_parts s) < 2 ^ 31 -> vlen ts < 2 ^ 31 ->
  (forall x, In x (ks_corners ts) -> x < 65535) ->
  exists parts', ks_sp_prepare_vmaps (ks_sp_gen_true ts s) = Ok (ks_mkSP (kp_np s) parts' (kp_mapped s) (kp_tp s)) /\
    Forall2 (fun p p' => ks_part_geom_ok (kp_mapped s) p' /\ ks_same_skin p p')
            (ks_imap (ks_dist_part ts (kp_tp s)) 0 (kp_parts s)) parts'.
Proof. exact ks_prepare_after_distribute. Qed.
Print Assumptions C10_prepare_after_distribute.

(* ------------------------------------------------------------------------------------------ *)
(* SetShapePartitions / GetShapePartitions / SetDefaultPartition / DeletePartitions /
   RemoveEmptyPartitions *)

(* tri_cover + dismember_aligned for SetShapePartitions: EVERY triangle of the shape (unassigned
   ones go to one extra last partition, out-of-range ids create their partitions) lies in exactly
   one partition; the dismember list gets one entry per partition and starts with the given infos.
   Accepted domain: no C integer conversion wraps (fewer than 2^31-2 infos, ids below 2^31-3). *)
Theorem C10_set_partitions : forall (v : ks_ver) (sh : ks_shape) (info : list ks_pinfo) (tp : list Z) (conv : bool) (k : ks_skin),
  ks_set_accepts info tp = true -> vlen (kh_tris sh) = vlen tp ->
  exists k', ks_nf_set v sh info tp conv k = Ok k' /\
    kp_tp (kk_sp k') = ks_set_tp info tp /\
    kp_np (kk_sp k') = ks_set_np info tp /\ vlen (kp_parts (kk_sp k')) = ks_set_np info tp /\
    Permutation (concat (map kb_tt (kp_parts (kk_sp k')))) (kh_tris sh) /\
    (forall j p, nth_error (kp_parts (kk_sp k')) j = Some p -> kb_tt p = ks_tris_of j (kh_tris sh) (ks_set_tp info tp)) /\
    kk_bones k' = kk_bones k /\
    match kk_dis k' with
    | Some d => vlen d = ks_set_np info tp /\ firstn (length info) d = info
    | None => kk_dis k = None /\ (conv && ks_file20207 v)%bool = false
    end.
Proof. exact ks_nf_set_ok. Qed.
Print Assumptions C10_set_partitions.

(* set_get_partitions: Get after Set returns the assignment, unassigned triangles renumbered to
   the (new) last partition, and for a dismember instance the stored partition infos *)
Theorem C10_set_get_partitions : forall (v : ks_ver) (sh : ks_shape) (info : list ks_pinfo) (tp : list Z) (conv : bool) (k : ks_skin),
  ks_set_accepts info tp = true -> vlen (kh_tris sh) = vlen tp ->
  exists k' info', ks_nf_set v sh info tp conv k = Ok k' /\
    ks_nf_get v sh k' = Ok (info', ks_set_tp info tp, k') /\
    vlen info' = ks_set_np info tp /\
    (kk_dis k' <> None -> firstn (length info) info' = info /\ kk_dis k' = Some info').
Proof. exact ks_set_get. Qed.
Print Assumptions C10_set_get_partitions.

Theorem C10_set_assignment_in_range : forall info tp,
  Forall (fun pi => (0 <= pi < Z.of_N (ks_set_np info tp))%Z) (ks_set_tp info tp).
Proof. exact ks_set_tp_range. Qed.
Print Assumptions C10_set_assignment_in_range.

(* GetShapePartitions with a current triParts changes nothing and returns it *)
Theorem C10_get_current : forall (v : ks_ver) (sh : ks_shape) (k : ks_skin),
  vlen (kh_tris sh) = vlen (kp_tp (kk_sp k)) ->
  ks_nf_get v sh k =
  Ok (ks_pad_info v (match kk_dis k with Some d => d | None => [] end) (vlen (kp_parts (kk_sp k))), kp_tp (kk_sp k), k).
Proof. exact ks_nf_get_current. Qed.
Print Assumptions C10_get_current.

(* SetDefaultPartition: one partition holding every triangle, identity vertex map, one dismember entry *)
Theorem C10_set_default_partition : forall (v : ks_ver) (sh : ks_shape) (k : ks_skin),
  kh_nv sh < 65536 ->
  exists p, kk_sp (ks_nf_set_default v sh k) = ks_mkSP 1 [p] (negb (kh_bs sh)) [] /\
    kb_tt p = kh_tris sh /\ kb_vm p = ks_nseq (kh_nv sh) /\
    (kh_bs sh = true -> kb_tris p = kh_tris sh) /\
    ks_aligned (ks_nf_set_default v sh k) /\
    (kk_dis (ks_nf_set_default v sh k) = None <-> kk_dis k = None) /\
    kb_hf p = true.   (* hasFaces: the triangle list is written by a save right after it *)
Proof. exact ks_nf_set_default_ok. Qed.
Print Assumptions C10_set_default_partition.

(* DeletePartitions (documented precondition: strictly ascending indices): exactly the unlisted
   partitions remain, unchanged; triParts is renumbered (deleted -> -1); dismember_aligned *)
Theorem C10_delete_partitions : forall (v : ks_ver) (idx : list N) (k : ks_skin),
  sorted_lt idx -> idx <> [] -> kp_np (kk_sp k) < 2 ^ 31 -> vlen (kp_parts (kk_sp k)) < 2 ^ 32 -> ks_aligned k ->
  exists k', ks_nf_delete v idx k = Ok k' /\
    kk_sp k' = ks_mkSP (vlen (erase_spec (kp_parts (kk_sp k)) idx)) (erase_spec (kp_parts (kk_sp k)) idx)
                       (kp_mapped (kk_sp k)) (map (ks_remap idx (kp_np (kk_sp k))) (kp_tp (kk_sp k))) /\
    ks_aligned k' /\ kk_bones k' = kk_bones k /\
    (kk_dis k' = None <-> kk_dis k = None) /\
    (forall d d', kk_dis k = Some d -> kk_dis k' = Some d' -> map snd d' = erase_spec (map snd d) idx).
Proof. exact ks_nf_delete_ok. Qed.
Print Assumptions C10_delete_partitions.

(* RemoveEmptyPartitions: exactly the partitions with numTriangles <> 0 remain; dismember_aligned;
   no triangle is lost when the counters are right *)
Theorem C10_remove_empty_partitions : forall (v : ks_ver) (k : ks_skin),
  kp_np (kk_sp k) < 2 ^ 31 -> vlen (kp_parts (kk_sp k)) < 2 ^ 32 -> ks_aligned k ->
  exists k', ks_nf_remove_empty v k = Ok k' /\
    kp_parts (kk_sp k') = filter ks_nonempty (kp_parts (kk_sp k)) /\
    kp_mapped (kk_sp k') = kp_mapped (kk_sp k) /\
    ks_aligned k' /\ kk_bones k' = kk_bones k /\ (kk_dis k' = None <-> kk_dis k = None).
Proof. exact ks_nf_remove_empty_ok. Qed.
Print Assumptions C10_remove_empty_partitions.

Theorem C10_remove_empty_keeps_cover : forall parts : list ks_pb,
  (forall p, In p parts -> kb_nt p = 0 -> kb_tt p = []) ->
  concat (map kb_tt (filter ks_nonempty parts)) = concat (map kb_tt parts).
Proof. exact ks_filter_nonempty_cover. Qed.
Print Assumptions C10_remove_empty_keeps_cover.

(* ------------------------------------------------------------------------------------------ *)
(* The numTriangles counter. [ks_cnt_inv s]: in every partition of s with true triangles,
   numTriangles is their number; in a partition whose true triangles are not generated yet (loaded
   file), what PrepareTrueTriangles will generate them from (strips / triangle list) fits the
   uint16_t counter and numTriangles is the length of the triangle list (coq/Skin/SkinCounters.v).
   [ks_shape_small sh]: fewer than 65536 triangles, no corner 65535. *)

(* the hypothesis of C10_remove_empty_keeps_cover follows from the invariant *)
Theorem C10_counter_zero_means_empty : forall s : ks_sp,
  ks_cnt_inv s -> forall p, In p (kp_parts s) -> kb_nt p = 0 -> kb_tt p = [].
Proof. exact ks_cnt_inv_zero. Qed.
Print Assumptions C10_counter_zero_means_empty.

(* every modelled operation (UpdateSkinPartitions, Get/SetShapePartitions, SetDefaultPartition,
   DeletePartitions with ANY index list, RemoveEmptyPartitions, incl. the lazy PrepareTrueTriangles /
   ConvertStripsToTriangles path) preserves the invariant; the operations that rebuild every
   partition ([ks_creates]: UpdateSkinPartitions on a shape with triangles, SetShapePartitions with
   one id per triangle, SetDefaultPartition) establish it from ANY state *)
Theorem C10_counter_invariant_step : forall v sh o k r k',
  ks_shape_small sh -> ks_step v sh o k = Ok (r, k') ->
  (ks_creates sh o = true \/ ks_cnt_inv (kk_sp k)) -> ks_cnt_inv (kk_sp k').
Proof. exact ks_step_cnt. Qed.
Print Assumptions C10_counter_invariant_step.

(* hence in every reachable state: [ks_reachable] = started from a state with the invariant (no
   partition, partitions as loaded: C10_counter_loaded_partition) or from ANY state by a rebuilding
   operation, then any operations *)
Theorem C10_counter_invariant_reachable : forall v sh k,
  ks_shape_small sh -> ks_reachable v sh k -> ks_cnt_inv (kk_sp k).
Proof. exact ks_reachable_cnt. Qed.
Print Assumptions C10_counter_invariant_reachable.

(* the same over operation lists ([ks_run] = fold of ks_step) *)
Theorem C10_counter_invariant_run : forall v sh ops k k',
  ks_shape_small sh -> ks_cnt_inv (kk_sp k) -> ks_run v sh ops k = Ok k' -> ks_cnt_inv (kk_sp k').
Proof. exact ks_run_cnt. Qed.
Print Assumptions C10_counter_invariant_run.

Theorem C10_counter_invariant_run_from_any_state : forall v sh ops1 o ops2 k k',
  ks_shape_small sh -> ks_creates sh o = true ->
  ks_run v sh (ops1 ++ o :: ops2) k = Ok k' -> ks_cnt_inv (kk_sp k').
Proof. exact ks_run_creates_cnt. Qed.
Print Assumptions C10_counter_invariant_run_from_any_state.

Theorem C10_counter_loaded_partition : forall mapped p,
  kb_tt p = [] -> kb_ns p = 0 -> kb_nt p = vlen (kb_tris p) -> vlen (kb_tris p) < 65536 -> ks_cnt_ok mapped p.
Proof. exact ks_cnt_ok_loaded. Qed.
Print Assumptions C10_counter_loaded_partition.

(* C10_remove_empty_keeps_cover without the counter hypothesis, for every reachable state *)
Theorem C10_remove_empty_keeps_cover_reachable : forall v sh k,
  ks_shape_small sh -> ks_reachable v sh k ->
  concat (map kb_tt (filter ks_nonempty (kp_parts (kk_sp k)))) = concat (map kb_tt (kp_parts (kk_sp k))).
Proof. exact ks_remove_empty_cover_reachable. Qed.
Print Assumptions C10_remove_empty_keeps_cover_reachable.

(* ... and on the operation: total, the triangles of the partitions are the same list afterwards *)
Theorem C10_remove_empty_loses_no_triangle : forall v sh k,
  ks_shape_small sh -> ks_reachable v sh k ->
  kp_np (kk_sp k) < 2 ^ 31 -> vlen (kp_parts (kk_sp k)) < 2 ^ 32 -> ks_aligned k ->
  exists k', ks_nf_remove_empty v k = Ok k' /\ ks_reachable v sh k' /\ ks_aligned k' /\
    kp_parts (kk_sp k') = filter ks_nonempty (kp_parts (kk_sp k)) /\
    concat (map kb_tt (kp_parts (kk_sp k'))) = concat (map kb_tt (kp_parts (kk_sp k))).
Proof. exact ks_nf_remove_empty_cover. Qed.
Print Assumptions C10_remove_empty_loses_no_triangle.

(* ------------------------------------------------------------------------------------------ *)
(* UpdateSkinPartitions. [s0] is the partition block behind PrepareTriParts; the accepted domain
   [ks_update_accepts] says: the shape has triangles, triParts has one entry per triangle and every
   entry is below the partition count (or negative = unassigned), the dismember list (if any) is
   aligned, no corner is 65535, partitions + triangles < 2^31. *)

Theorem C10_update_total : forall v sh k s0,
  ks_sp_prepare_triparts (map ks_rot (kh_tris sh)) (kk_sp k) = Ok s0 -> ks_update_accepts sh s0 (kk_dis k) = true ->
  exists k', ks_nf_update v sh k = Ok k'.
Proof. exact ks_update_total. Qed.
Print Assumptions C10_update_total.

(* tri_cover: the partitions' true triangles are a permutation of the (rotated) triangles that
   were assigned (triParts >= 0): each lies in exactly one partition, unassigned ones in none *)
Theorem C10_tri_cover : forall v sh k s0,
  ks_sp_prepare_triparts (map ks_rot (kh_tris sh)) (kk_sp k) = Ok s0 -> ks_update_accepts sh s0 (kk_dis k) = true ->
  forall k', ks_nf_update v sh k = Ok k' ->
  Permutation (concat (map kb_tt (kp_parts (kk_sp k'))))
              (ks_assigned_sign (map ks_rot (kh_tris sh)) (kp_tp s0)).
Proof. exact ks_update_tri_cover. Qed.
Print Assumptions C10_tri_cover.

(* ... and the rebuilt triParts names, for every assigned triangle, a partition that holds it;
   assigned / unassigned is unchanged by the rebuild *)
Theorem C10_tri_cover_triparts : forall v sh k s0,
  ks_sp_prepare_triparts (map ks_rot (kh_tris sh)) (kk_sp k) = Ok s0 -> ks_update_accepts sh s0 (kk_dis k) = true ->
  forall k', ks_nf_update v sh k = Ok k' ->
  map (Z.leb 0) (kp_tp (kk_sp k')) = map (Z.leb 0) (kp_tp s0) /\
  forall i t j, nth_error (map ks_rot (kh_tris sh)) i = Some t -> nth_error (kp_tp (kk_sp k')) i = Some (Z.of_nat j) ->
    exists p, nth_error (kp_parts (kk_sp k')) j = Some p /\ In t (kb_tt p).
Proof. exact ks_update_triparts. Qed.
Print Assumptions C10_tri_cover_triparts.

(* vertex_map_exact *)
Theorem C10_vertex_map_exact : forall v sh k s0,
  ks_sp_prepare_triparts (map ks_rot (kh_tris sh)) (kk_sp k) = Ok s0 -> ks_update_accepts sh s0 (kk_dis k) = true ->
  forall k' p, ks_nf_update v sh k = Ok k' -> In p (kp_parts (kk_sp k')) ->
  sorted_lt (kb_vm p) /\ (forall x, In x (kb_vm p) <-> In x (ks_corners (kb_tt p))) /\ kb_nv p = vlen (kb_vm p).
Proof. exact ks_update_vertex_map_exact. Qed.
Print Assumptions C10_vertex_map_exact.

(* mapped_true (LE: mapped indices; SSE: triangles = trueTriangles) *)
Theorem C10_mapped_true : forall v sh k s0,
  ks_sp_prepare_triparts (map ks_rot (kh_tris sh)) (kk_sp k) = Ok s0 -> ks_update_accepts sh s0 (kk_dis k) = true ->
  forall k' p, ks_nf_update v sh k = Ok k' -> In p (kp_parts (kk_sp k')) ->
  kp_mapped (kk_sp k') = kp_mapped s0 /\
  if kp_mapped s0 then Forall2 (ks_maps_back (kb_vm p)) (kb_tris p) (kb_tt p) else kb_tris p = kb_tt p.
Proof. exact ks_update_mapped_true. Qed.
Print Assumptions C10_mapped_true.

(* bone_limit: no partition exceeds the limit of the target game (18 OB/FO3, 80 SSE, none = 65535
   for Skyrim LE). The hypothesis "every triangle alone needs at most lim bones" of the general
   loop invariant (C10_split_loop_invariant) is always met: at most 4 weights per vertex are kept,
   so a triangle needs at most 12 bones (C10_triangle_needs_at_most_12_bones). *)
Theorem C10_bone_limit : forall v sh k s0,
  ks_sp_prepare_triparts (map ks_rot (kh_tris sh)) (kk_sp k) = Ok s0 -> ks_update_accepts sh s0 (kk_dis k) = true ->
  forall k' p, ks_nf_update v sh k = Ok k' -> In p (kp_parts (kk_sp k')) ->
  vlen (kb_bones p) <= ks_max_bones v.
Proof. exact ks_update_bone_limit. Qed.
Print Assumptions C10_bone_limit.

Theorem C10_triangle_needs_at_most_12_bones : forall (bones : list (list (N * Q))) (t : tri),
  vlen (ks_tri_bones (ks_vbw_final bones) t) <= 12.
Proof. exact ks_tri_bones_le_12. Qed.
Print Assumptions C10_triangle_needs_at_most_12_bones.

(* the splitting loop for ANY limit below 2^16 and ANY vertex-weight table: if every triangle alone
   fits, every partition fits, the dismember list stays aligned, assigned stays assigned, and the
   bones of every processed triangle are in the bone set of its partition *)
Theorem C10_split_loop_invariant : forall (maxb : N) (m : ks_vbw) (tris : list tri) (tp0 : list Z) (n0 : nat),
  maxb < 65536 -> (forall t, In t tris -> vlen (ks_tri_bones m t) <= maxb) ->
  forall (rest pre : list tri) (st : ks_split_state),
  tris = pre ++ rest -> ks_split_inv maxb m tris tp0 n0 (length pre) st ->
  exists st', ks_split_loop maxb m rest (N.of_nat (length pre)) st = Ok st' /\
              ks_split_inv maxb m tris tp0 n0 (length tris) st'.
Proof. exact ks_split_loop_ok. Qed.
Print Assumptions C10_split_loop_invariant.

(* bone_slots_valid: in a partition with at most 256 bones (the slot is a uint8_t) every used
   per-vertex slot indexes an existing partition bone, and it is the bone of that weight.
   OB/FO3/SSE: implied by bone_limit (C10_limit_implies_slots). Skyrim LE: a hypothesis, and
   the statement without it is refuted (C10_bone_slots_valid_refuted_sk). *)
Theorem C10_bone_slots_valid : forall v sh k s0,
  ks_sp_prepare_triparts (map ks_rot (kh_tris sh)) (kk_sp k) = Ok s0 -> ks_update_accepts sh s0 (kk_dis k) = true ->
  forall k' p, ks_nf_update v sh k = Ok k' -> In p (kp_parts (kk_sp k')) ->
  vlen (kb_bones p) <= 256 ->
  Forall2 (fun vtx row => ks_slot_row_ok (kb_bones p) (ks_vbw_get (ks_vbw_final (kk_bones k)) vtx) row) (kb_vm p) (kb_bi p).
Proof. exact ks_update_bone_slots_valid. Qed.
Print Assumptions C10_bone_slots_valid.

Theorem C10_limit_implies_slots : forall v (p : ks_pb),
  v <> KSK -> vlen (kb_bones p) <= ks_max_bones v -> vlen (kb_bones p) <= 256.
Proof. exact ks_limit_implies_slots. Qed.
Print Assumptions C10_limit_implies_slots.

(* weights_normalised, over Q (exact arithmetic; the implementation's binary32 rounding is not
   modelled: partial claim): non-negative input weights give, per vertex, four non-negative weights
   that sum to 1 or are all 0 *)
Theorem C10_weights_normalised : forall v sh k s0,
  ks_sp_prepare_triparts (map ks_rot (kh_tris sh)) (kk_sp k) = Ok s0 -> ks_update_accepts sh s0 (kk_dis k) = true ->
  forall k' p, ks_nf_update v sh k = Ok k' -> In p (kp_parts (kk_sp k')) ->
  (forall bl vw, In bl (kk_bones k) -> In vw bl -> (0 <= snd vw)%Q) ->
  length (kb_vw p) = length (kb_vm p) /\ Forall ks_weight_row_ok (kb_vw p).
Proof. exact ks_update_weights_normalised. Qed.
Print Assumptions C10_weights_normalised.

(* dismember_aligned after UpdateSkinPartitions (splits insert into both lists) *)
Theorem C10_dismember_aligned_update : forall v sh k s0,
  ks_sp_prepare_triparts (map ks_rot (kh_tris sh)) (kk_sp k) = Ok s0 -> ks_update_accepts sh s0 (kk_dis k) = true ->
  forall k', ks_nf_update v sh k = Ok k' ->
  ks_aligned k' /\ kp_np (kk_sp k') = vlen (kp_parts (kk_sp k')).
Proof. exact ks_update_dismember_aligned. Qed.
Print Assumptions C10_dismember_aligned_update.

(* the accepted domain in closed form, on the state the caller has (see ks_update_domain in
   coq/Skin/SkinTheorems.v): it implies the hypotheses of all the statements above *)
Theorem C10_update_domain : forall (sh : ks_shape) (k : ks_skin),
  ks_update_domain sh k = true ->
  exists s0, ks_sp_prepare_triparts (map ks_rot (kh_tris sh)) (kk_sp k) = Ok s0 /\
             ks_update_accepts sh s0 (kk_dis k) = true.
Proof. exact ks_update_domain_ok. Qed.
Print Assumptions C10_update_domain.

(* the two ways the hypothesis on [s0] is met: triParts is current ... *)
Theorem C10_prepare_triparts_current : forall (ts : list tri) (s : ks_sp),
  vlen ts = vlen (kp_tp s) -> ks_sp_prepare_triparts ts s = Ok s.
Proof. exact ks_prepare_triparts_current. Qed.
Print Assumptions C10_prepare_triparts_current.

(* ... or it is regenerated (after SetDefaultPartition, after a reload): total for partitions
   without strips; the result is the pure function [ks_regen_tp] of the shape triangles and the
   partitions (with their true triangles prepared). No partition at all is fine. *)
Theorem C10_prepare_triparts_regenerated : forall (ts : list tri) (s : ks_sp),
  vlen ts <> vlen (kp_tp s) ->
  Forall (fun p => kb_ns p = 0 /\ vlen (kb_tris p) < 2 ^ 31) (kp_parts s) ->
  exists s0, ks_sp_prepare_triparts ts s = Ok s0 /\ length (kp_parts s0) = length (kp_parts s) /\
    kp_mapped s0 = kp_mapped s /\ kp_tp s0 = ks_regen_tp ts (kp_parts s0).
Proof. exact ks_prepare_triparts_regen. Qed.
Print Assumptions C10_prepare_triparts_regenerated.

(* The regenerated triParts (GenerateTriPartsFromTrueTriangles: every copy of a triangle held by a
   partition claims one shape triangle that is not assigned yet), duplicate shape triangles included.
   Triangles are compared up to Triangle::rot; [ks_shape_copies c ts] = copies of c in the shape,
   [ks_held c parts] = copies held by the partitions, [ks_held_in c p] = copies held by p:
   one entry per triangle, a partition index or -1; -1 ("not assigned") for a triangle nobody holds;
   an assigned triangle is assigned to a partition that holds a copy of it; of k shape copies and h
   held copies, k - h stay unassigned; with h <= k partition j gets exactly as many shape copies as it
   holds; with k <= h every shape copy is assigned ("a held triangle gets the index of a partition
   holding it"). *)
Theorem C10_regenerated_triparts : forall (ts : list tri) (parts : list ks_pb),
  let tp := ks_regen_tp ts parts in
  length tp = length ts /\
  Forall (fun pj => (-1 <= pj < Z.of_nat (length parts))%Z) tp /\
  (forall i t, nth_error ts i = Some t ->
     (forall p pt, In p parts -> In pt (kb_tt p) -> ks_rot pt <> ks_rot t) -> nth_error tp i = Some (-1)%Z) /\
  (forall i t j, nth_error ts i = Some t -> nth_error tp i = Some j -> (0 <= j)%Z ->
     exists p pt, nth_error parts (Z.to_nat j) = Some p /\ In pt (kb_tt p) /\ ks_rot pt = ks_rot t) /\
  (forall c, ks_cnt (ks_is_free c) ts tp = (ks_shape_copies c ts - ks_held c parts)%nat) /\
  (forall c, (ks_held c parts <= ks_shape_copies c ts)%nat -> forall j p, nth_error parts j = Some p ->
     ks_cnt (ks_is_asg c (Z.of_nat j)) ts tp = ks_held_in c p) /\
  (forall c i t, (ks_shape_copies c ts <= ks_held c parts)%nat -> nth_error ts i = Some t -> ks_rot t = c ->
     exists j, nth_error tp i = Some j /\ (0 <= j)%Z).
Proof. exact ks_regen_tp_spec. Qed.
Print Assumptions C10_regenerated_triparts.

(* The regenerated triParts, exactly: the k-th copy (in shape order) of a triangle goes to the k-th
   holder. [ks_holders c parts] lists the indices of the partitions holding c (up to Triangle::rot),
   in partition order, each as often as it holds c; entry i of triParts is the entry number
   "copies of ts[i] before position i" of that list, -1 when the list is that short. *)
Theorem C10_regenerated_triparts_exact : forall (ts : list tri) (parts : list ks_pb) (i : nat) (t : tri),
  nth_error ts i = Some t ->
  nth_error (ks_regen_tp ts parts) i =
  Some (nth (ks_shape_copies (ks_rot t) (firstn i ts)) (ks_holders (ks_rot t) parts) (-1)%Z).
Proof. exact ks_regen_tp_exact. Qed.
Print Assumptions C10_regenerated_triparts_exact.

(* the half that was missing, pointwise and with multiplicities: a copy that still finds a holder
   gets the index of a partition that holds it; the copies beyond the held number get -1 *)
Theorem C10_regenerated_triparts_held : forall (ts : list tri) (parts : list ks_pb) (i : nat) (t : tri),
  nth_error ts i = Some t ->
  let k := ks_shape_copies (ks_rot t) (firstn i ts) in
  ((k < ks_held (ks_rot t) parts)%nat ->
     exists j p, nth_error (ks_regen_tp ts parts) i = Some (Z.of_nat j) /\ nth_error parts j = Some p /\
                 (0 < ks_held_in (ks_rot t) p)%nat) /\
  ((ks_held (ks_rot t) parts <= k)%nat -> nth_error (ks_regen_tp ts parts) i = Some (-1)%Z).
Proof. exact ks_regen_tp_held. Qed.
Print Assumptions C10_regenerated_triparts_held.

(* UpdateSkinPartitions with no partition left (SetDefaultPartition, DeletePartitions {0},
   UpdateSkinPartitions) is inside the accepted domain and leaves every triangle unassigned *)
Theorem C10_update_without_partitions :
  ks_update_domain (fst ks_wit_nopart) (snd ks_wit_nopart) = true /\
  ks_nf_update KFO3 (fst ks_wit_nopart) (snd ks_wit_nopart) = Ok (ks_mkSkin (ks_mkSP 0 [] true [(-1)%Z]) (Some []) []).
Proof. exact ks_update_without_partitions_ok. Qed.
Print Assumptions C10_update_without_partitions.

Theorem C10_update_after_default_delete :
  let sh := ks_mkShape [(0, 1, 2)] true 3 false in
  let k0 := ks_mkSkin (ks_mkSP 0 [] true []) (Some []) [] in
  bind (ks_nf_delete KFO3 [0] (ks_nf_set_default KFO3 sh k0)) (ks_nf_update KFO3 sh)
  = Ok (ks_mkSkin (ks_mkSP 0 [] true [(-1)%Z]) (Some []) []).
Proof. exact ks_default_delete_update_ok. Qed.
Print Assumptions C10_update_after_default_delete.

(* ------------------------------------------------------------------------------------------ *)
(* Refuted: the statements without their hypotheses are false of the model. Every witness is
   replayed on the real code (corpus/C10/cases.txt) and recorded in known_findings.json. *)

(* UpdateSkinPartitions is NOT total with a dismember list shorter than the partition list when a
   split is needed *)
Theorem C10_update_total_refuted_short_dismember :
  ks_nf_update KFO3 (fst ks_wit_short) (snd ks_wit_short) = Fault.
Proof. exact ks_update_short_dismember_faults. Qed.
Print Assumptions C10_update_total_refuted_short_dismember.

(* bone_slots_valid without the 256-bone hypothesis is false for Skyrim LE: 66 vertices with four
   bones each (264 bones, one partition): vertex 64 is weighted to bones 256..259, its slot 0 reads 0
   and names bone 0 *)
Theorem C10_bone_slots_valid_refuted_sk :
  exists k' p row idx,
    ks_sp_prepare_triparts (map ks_rot (kh_tris (fst ks_wit_wide))) (kk_sp (snd ks_wit_wide))
      = Ok (ks_mkSP 1 (kp_parts (kk_sp (snd ks_wit_wide))) true (repeat 0%Z 64)) /\
    ks_update_accepts (fst ks_wit_wide) (ks_mkSP 1 (kp_parts (kk_sp (snd ks_wit_wide))) true (repeat 0%Z 64)) (kk_dis (snd ks_wit_wide)) = true /\
    ks_nf_update KSK (fst ks_wit_wide) (snd ks_wit_wide) = Ok k' /\
    nth_error (kp_parts (kk_sp k')) 0 = Some p /\ vlen (kb_bones p) = 264 /\
    nth_error (kb_vm p) 64 = Some 64 /\ nth_error (kb_bi p) 64 = Some row /\
    map fst (ks_vbw_get (ks_vbw_final (kk_bones (snd ks_wit_wide))) 64) = [256; 257; 258; 259] /\
    nth_error row 0 = Some idx /\ nth_error (kb_bones p) (N.to_nat idx) = Some 0.
Proof. exact ks_bone_slots_wrap_sk. Qed.
Print Assumptions C10_bone_slots_valid_refuted_sk.

(* the counter invariant needs both bounds of [ks_shape_small]: with 65536 triangles
   SetDefaultPartition builds ONE partition whose uint16_t numTriangles wraps to 0, and
   RemoveEmptyPartitions would drop it with all its triangles ... *)
Theorem C10_remove_empty_keeps_cover_refuted_65536 :
  let sh := ks_wit_65536 in
  let k0 := ks_mkSkin (ks_mkSP 0 [] true []) (Some []) [] in
  let k := ks_nf_set_default KSSE sh k0 in
  vlen (kh_tris sh) = 65536 /\ forallb (fun x => x <? 65535) (ks_corners (kh_tris sh)) = true /\
  ks_step KSSE sh KDefault k0 = Ok (None, k) /\
  map kb_nt (kp_parts (kk_sp k)) = [0] /\
  filter ks_nonempty (kp_parts (kk_sp k)) = [] /\
  vlen (concat (map kb_tt (kp_parts (kk_sp k)))) = 65536.
Proof. exact ks_cover_lost_65536. Qed.
Print Assumptions C10_remove_empty_keeps_cover_refuted_65536.

(* ... and a corner 65535 empties the generated vertex map: numTriangles = 0 with the true
   triangle kept *)
Theorem C10_remove_empty_keeps_cover_refuted_corner_65535 :
  exists k, ks_run KFO3 ks_wit_corner [KDefault; KUpdate] (ks_mkSkin (ks_mkSP 0 [] true []) (Some []) []) = Ok k /\
    map kb_nt (kp_parts (kk_sp k)) = [0] /\
    filter ks_nonempty (kp_parts (kk_sp k)) = [] /\
    concat (map kb_tt (kp_parts (kk_sp k))) = [(0, 1, 65535)].
Proof. exact ks_cover_lost_corner. Qed.
Print Assumptions C10_remove_empty_keeps_cover_refuted_corner_65535.

(* ------------------------------------------------------------------------------------------ *)
(* Non-vacuity: the accepted domains are inhabited, with non-trivial results. *)
Example C10_update_accepts_example :
  let sh := fst ks_wit_short in
  let k := ks_wit_short_aligned in
  exists s0, ks_sp_prepare_triparts (map ks_rot (kh_tris sh)) (kk_sp k) = Ok s0 /\
             ks_update_accepts sh s0 (kk_dis k) = true.
Proof. exact ks_update_accepts_example. Qed.

Example C10_update_domain_example :
  ks_update_domain (fst ks_wit_short) ks_wit_short_aligned = true /\
  ks_update_domain (fst ks_wit_wide) (snd ks_wit_wide) = true.
Proof. exact ks_update_domain_example. Qed.

Example C10_get_unassigned_example :
  let sh := ks_mkShape [(0, 1, 2); (2, 1, 3)] true 4 false in
  let p := kb_set_tt (kb_set_vm ks_pb0 [0; 1; 2]) [(0, 1, 2)] in
  exists info k', ks_nf_get KFO3 sh (ks_mkSkin (ks_mkSP 1 [p] true []) (Some [(1, 0)]) []) = Ok (info, [0; -1]%Z, k').
Proof. exact ks_get_unassigned_minus_one. Qed.

Example C10_regenerated_duplicates_example :
  ks_regen_tp [(0, 4, 2); (2, 0, 4); (1, 0, 3); (7, 8, 9)]
              [kb_set_tt ks_pb0 [(0, 4, 2)]; kb_set_tt ks_pb0 [(4, 2, 0); (1, 0, 3)]] = [0; 1; 1; -1]%Z.
Proof. exact ks_regen_duplicates_example. Qed.

Example C10_update_splits_example :
  exists k', ks_nf_update KFO3 (fst ks_wit_short) ks_wit_short_aligned = Ok k' /\
             (1 < length (kp_parts (kk_sp k')))%nat /\ ks_aligned k'.
Proof. exact ks_update_aligned_dismember_splits. Qed.

Example C10_set_accepts_example : ks_set_accepts [(1, 32); (1, 38)] [0; -1; 5; 1]%Z = true.
Proof. exact ks_set_accepts_example. Qed.

Example C10_set_example :
  ks_set_np [(1, 32); (1, 38)] [0; -1; 5; 1]%Z = 7 /\ ks_set_tp [(1, 32); (1, 38)] [0; -1; 5; 1]%Z = [0; 6; 5; 1]%Z.
Proof. split; reflexivity. Qed.

Example C10_vertex_map_example :
  ks_pb_gen_vmap (kb_set_tt ks_pb0 [(5, 2, 9); (2, 9, 65534)]) =
  Ok (kb_set_nv (kb_set_vm (kb_set_tt ks_pb0 [(5, 2, 9); (2, 9, 65534)]) [2; 5; 9; 65534]) 4).
Proof. vm_compute. reflexivity. Qed.

(* reachable, non-trivial: 12 vertices / 10 triangles / 40 bones, UpdateSkinPartitions (splits),
   DeletePartitions {0}, GetShapePartitions (triParts regenerated), RemoveEmptyPartitions *)
Example C10_counter_reachable_example :
  let sh := fst ks_wit_short in
  ks_shape_small sh /\
  exists k', ks_run KFO3 sh [KUpdate; KDelete [0]; KGet; KRemoveEmpty] ks_wit_short_aligned = Ok k' /\ ks_reachable KFO3 sh k' /\
             (1 < length (kp_parts (kk_sp k')))%nat /\ (0 < length (concat (map kb_tt (kp_parts (kk_sp k')))))%nat.
Proof. exact ks_reachable_example. Qed.

Example C10_regenerated_exact_example :
  let ts := [(0, 4, 2); (2, 0, 4); (1, 0, 3); (4, 2, 0); (7, 8, 9)] in
  let parts := [kb_set_tt ks_pb0 [(0, 4, 2)]; kb_set_tt ks_pb0 [(1, 0, 3)]; kb_set_tt ks_pb0 [(4, 2, 0)]] in
  ks_holders (0, 4, 2) parts = [0; 2]%Z /\ ks_regen_tp ts parts = [0; 2; 1; -1; -1]%Z.
Proof. exact ks_regen_exact_example. Qed.
