(* C07 — saved header tables describe the written file exactly.
   Statements only; the model is Container/ContainerModel.v, proofs are in Container/*.v. *)
From NiflyVerif Require Import Res ContainerModel ContainerBase ContainerHdr ContainerWalk ContainerStrings ContainerUnknown ContainerExamples.
From NiflyVerif Require GraphModel GraphInv GraphSteps ContainerGraph.
Local Open Scope N_scope.

(* NiHeader::Get reads back exactly what NiHeader::Put wrote, whatever follows the header, for every
   version branch behind the first line (endian byte, user version, Bethesda strings, embedded
   data, type table, type indices, size table, string table, groups), for all well-formed tables
   (counters in step with their vectors, values inside their C widths, strings without NUL that
   fit their size prefix); Put leaves such a header unchanged in memory. *)
Theorem C07_hdr_get_put : forall t r, wf_tables t ->
  exists po, put_hdr t = Ok po /\ po_tables po = t /\ get_hdr (po_bytes po ++ r) = Ok (t, r).
Proof. exact hdr_get_put. Qed.
Print Assumptions C07_hdr_get_put.

(* the first line Put writes is accepted by Get for every version Load supports *)
Theorem C07_line_ok_supported : forall v, supported v = true -> line_ok (v_file v) = true.
Proof. exact line_ok_supported. Qed.
Print Assumptions C07_line_ok_supported.

(* Save (from hdr.Put on: header, blocks with the byte counter, footer, back-patch of the size
   table) for ANY block list and ANY payload codec: the file is header ++ payloads ++ footer, the
   independent reader parses the header, finds every payload exactly where the patched size table
   says (sizes = lengths of the written payloads) and lands on the 8-byte footer at the end of the
   file. *)
Theorem C07_walk_save : forall (blk : Type) (put_blk : tables -> srefs -> blk -> list N) (m : model blk) (ps : list (list N)),
  wf_model blk put_blk m ps ->
  let t' := set_sizes (m_hdr blk m) (map (@vlen N) ps) in
  exists bytes hb : list N,
    save_core blk put_blk m = Ok (bytes, m) /\
    bytes = hb ++ concat ps ++ footer /\
    get_hdr bytes = Ok (t', concat ps ++ footer) /\ walkb bytes = Some (t', ps) /\ walk bytes = Some t'.
Proof. exact walk_save. Qed.
Print Assumptions C07_walk_save.

(* what the independent reader accepts is header ++ payloads of the declared sizes ++ footer, and
   nothing else *)
Theorem C07_walkb_sound : forall s t ps, walkb s = Some (t, ps) ->
  exists r, get_hdr s = Ok (t, r) /\ r = concat ps ++ footer /\ map (@vlen N) ps = h_sizes t.
Proof. exact walkb_sound. Qed.
Print Assumptions C07_walkb_sound.

(* UpdateHeaderStrings(false): the rebuilt table holds each string once *)
Theorem C07_strings_nodup : forall file tb bs tb' bs',
  update_header_strings file false tb bs = Ok (tb', bs') -> NoDup (st_strings tb').
Proof. exact strings_nodup. Qed.
Print Assumptions C07_strings_nodup.

(* the recorded maximum string length is the true maximum (both modes) *)
Theorem C07_maxlen_is_max : forall file hu tb bs tb' bs',
  (hu = true -> tab_inv tb) -> file <? V20_1_0_1 = false ->
  update_header_strings file hu tb bs = Ok (tb', bs') ->
  Forall (fun s => slen s <= st_maxlen tb') (st_strings tb') /\
  ((st_strings tb' = [] /\ st_maxlen tb' = 0) \/ exists s, In s (st_strings tb') /\ st_maxlen tb' = slen s).
Proof. exact maxlen_is_max. Qed.
Print Assumptions C07_maxlen_is_max.

Theorem C07_maxlen_old_versions : forall file tb bs tb' bs',
  file <? V20_1_0_1 = true -> update_header_strings file false tb bs = Ok (tb', bs') ->
  st_strings tb' = [] /\ st_n tb' = 0 /\ st_maxlen tb' = 0.
Proof. exact maxlen_old_versions. Qed.
Print Assumptions C07_maxlen_old_versions.

(* every index UpdateHeaderStrings stores in a string reference is empty (NPOS) or inside the
   table, where it denotes the reference's own string; numStrings is the size of the table *)
Theorem C07_string_indices_in_range : forall file hu tb bs tb' bs',
  (hu = true -> tab_inv tb) -> file <? V20_1_0_1 = false ->
  update_header_strings file hu tb bs = Ok (tb', bs') ->
  st_n tb' = vlen (st_strings tb') /\
  map (map snd) bs' = map (map snd) bs /\
  Forall (Forall (fun r => fst r = cNPOS \/
                           (fst r < st_n tb' /\ vget (st_strings tb') (fst r) = Some (snd r)))) bs'.
Proof. exact string_indices_in_range. Qed.
Print Assumptions C07_string_indices_in_range.

(* UpdateHeaderStrings never faults and keeps numStrings in step *)
Theorem C07_update_header_strings_total : forall file hu tb bs, (hu = true -> tab_inv tb) ->
  exists tb' bs', update_header_strings file hu tb bs = Ok (tb', bs') /\ tab_inv tb'.
Proof. intros file hu tb bs H. destruct (uhs_total file hu tb bs H) as (tb' & bs' & A & B & _). eauto. Qed.
Print Assumptions C07_update_header_strings_total.

(* after ANY valid edit history (C06_history: steps h ops = Ok h' /\ Inv h') the block-table counters
   are in step with their vectors and every type index is inside the type table: the counter
   hypotheses of wf_tables / wf_model hold for the header Save then writes *)
Theorem C07_counts_after_history : forall ops h, GraphInv.Inv h -> GraphSteps.valid_ops h ops ->
  exists h', GraphModel.steps h ops = Ok h' /\
    GraphModel.nblocks h' = vlen (GraphModel.blocks h') /\ GraphModel.ntypes h' = vlen (GraphModel.tnames h') /\
    vlen (GraphModel.tidx h') = GraphModel.nblocks h' /\
    (GraphModel.has_sizes h' = true -> vlen (GraphModel.sizes h') = GraphModel.nblocks h') /\
    Forall (fun t => t < GraphModel.ntypes h') (GraphModel.tidx h') /\ GraphModel.nblocks h' < 4294967295.
Proof.
  exact (fun ops h I V => match GraphSteps.steps_inv ops h I V with
                          | ex_intro _ h' (conj HS I') => ex_intro _ h' (conj HS (ContainerGraph.inv_counts h' I'))
                          end).
Qed.
Print Assumptions C07_counts_after_history.

(* ---- 1-byte-sized header strings (creator / export info) of ANY length (DESIGN.md 7 #10, repaired:
   NiString::Write cuts the string to the longest one its size prefix can express) ---- *)
(* a zero-terminated string of any length is read back as its first 254 characters, which is also
   what Write leaves in memory *)
Theorem C07_nistring1_any_length : forall s r, nul_free s ->
  rd_nistring 1 (fst (wr_nistring 1 true s) ++ r) = Ok (clip1 s, r) /\ snd (wr_nistring 1 true s) = clip1 s.
Proof. exact rd_wr_str1_any. Qed.
Print Assumptions C07_nistring1_any_length.

(* header level: whatever the lengths of the four 1-byte-sized strings, Get reads back exactly the
   header Put leaves in memory (those strings cut to 254 characters, everything else as given) *)
Theorem C07_hdr_get_put_any_length : forall t r, wf_tables (clip_tables t) ->
  exists po, put_hdr t = Ok po /\ po_tables po = clip_tables t /\
             get_hdr (po_bytes po ++ r) = Ok (clip_tables t, r).
Proof. exact hdr_get_put_long. Qed.
Print Assumptions C07_hdr_get_put_any_length.

(* and Save: the written file is walked by the independent reader and described by the header
   Save leaves in memory *)
Theorem C07_walk_save_any_length : forall (blk : Type) (put_blk : tables -> srefs -> blk -> list N) (m : model blk) (ps : list (list N)),
  wf_model blk put_blk (clip_model blk m) ps ->
  let t' := set_sizes (clip_tables (m_hdr blk m)) (map (@vlen N) ps) in
  exists bytes hb : list N,
    save_core blk put_blk m = Ok (bytes, clip_model blk m) /\
    bytes = hb ++ concat ps ++ footer /\
    get_hdr bytes = Ok (t', concat ps ++ footer) /\ walkb bytes = Some (t', ps) /\ walk bytes = Some t'.
Proof. exact walk_save_long. Qed.
Print Assumptions C07_walk_save_any_length.

(* the inputs that failed before the repair *)
Theorem C07_nistring1_len255 : forall r,
  rd_nistring 1 (fst (wr_nistring 1 true str255) ++ r) = Ok (repeat 65 254, r)
  /\ snd (wr_nistring 1 true str255) = repeat 65 254.
Proof. exact nistring1_len255. Qed.
Print Assumptions C07_nistring1_len255.

Theorem C07_hdr_creator255 :
  exists po, put_hdr (ex_tables str255) = Ok po /\
    po_tables po = ex_tables (repeat 65 254) /\
    walkb (po_bytes po ++ concat ex_pays ++ footer) = Some (ex_tables (repeat 65 254), ex_pays).
Proof. exact hdr_creator255. Qed.
Print Assumptions C07_hdr_creator255.

(* NiStringRef inside blocks: from 20.1.0.3 on the 32-bit index is what is written and read; before,
   the inline sized string is read back when it is shorter than 2049 characters *)
Theorem C07_stringref_new : forall file idx s r,
  file <? V20_1_0_3 = false -> idx < 4294967296 ->
  rd_stringref file (fst (wr_stringref file (idx, s)) ++ r) = Ok ((idx, []), r)
  /\ snd (wr_stringref file (idx, s)) = (idx, s).
Proof. exact rd_wr_stringref_new. Qed.
Print Assumptions C07_stringref_new.

Theorem C07_stringref_old : forall file idx s r,
  file <? V20_1_0_3 = true -> nul_free s -> vlen s < 2049 ->
  rd_stringref file (fst (wr_stringref file (idx, s)) ++ r) = Ok ((cNPOS, s), r)
  /\ snd (wr_stringref file (idx, s)) = (idx, s).
Proof. exact rd_wr_stringref_old. Qed.
Print Assumptions C07_stringref_old.

(* refuted without the 2049 bound: the reader returns the empty string and leaves the characters
   in the stream (pre-20.1.0.3 files only) *)
Theorem C07_stringref_old_long_refuted : forall file idx s r,
  file <? V20_1_0_3 = true -> 2049 <= vlen s -> vlen s < 4294967296 ->
  rd_stringref file (fst (wr_stringref file (idx, s)) ++ r) = Ok ((cNPOS, []), s ++ r).
Proof. exact rd_wr_stringref_old_long. Qed.
Print Assumptions C07_stringref_old_long_refuted.

(* ---- the hypotheses are satisfiable ---- *)
Example C07_ex_wf_tables : wf_tables (ex_tables [110; 105; 102]).
Proof. exact ex_wf. Qed.
Example C07_ex_walk : walkb ex_file = Some (ex_tables [110; 105; 102], ex_pays).
Proof. exact ex_walk. Qed.
Example C07_ex_wf_any_length : forall c, nul_free c -> wf_tables (clip_tables (ex_tables c)).
Proof. exact ex_wf_any. Qed.
Example C07_ex_tab_inv : tab_inv empty_tab.
Proof. exact empty_tab_inv. Qed.
