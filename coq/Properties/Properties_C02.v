(* C02 — saving is repeatable and never alters the in-memory model; block level, on the SyncIR programs
   GENERATED from /repo. *)
From NiflyVerif Require Import IR Exec IREq Refs RtDefs RtProofs WiDefs WiProofs WkDefs WkProofs WkSound WkPrune Total Versions IRCur.
Local Open Scope N_scope.

(* The write-once discipline is sound, for ALL programs it accepts, all version triples and header-string
   oracles: if [kchk] accepts the program from the empty sets, then for every object o that the program writes
   successfully (leaving the object o1 behind: scalars stored back in range, vectors clamped, empty references
   removed, strings cut), writing o1 again succeeds, emits exactly the same bytes and leaves every scalar,
   container size and byte array of o1 unchanged ([ext_eq]: every instance of every field).
   The discipline: every field NAME is modified by one statement only; inside `for x` that statement modifies
   the instance whose index vector holds x at a fixed position (different iterations own different instances:
   the index encoding is injective, EncInj.enc_key_inj); every value a condition, count, index or right-hand
   side reads is never modified, or was modified earlier and inside the current iteration's slice; a reference
   array (CleanInvalidRefs + count + element loop) is one unit whose second run finds nothing to remove. *)
Theorem C02_write_idem : forall v hs s C' L',
  kchk (targets s) v [] s [] [] = Some (C', L') ->
  forall o o1, exec Wr v hs s o = Ok o1 ->
  exists bytes, out o1 = rev bytes ++ out o /\
    exists o2, exec Wr v hs s o1 = Ok o2 /\ out o2 = rev bytes ++ out o1 /\ ext_eq o2 o1.
Proof. exact write_idem_loops. Qed.
Print Assumptions C02_write_idem.

(* per block type and version (obligation [kchk_block], discharged by computation on the regenerated model):
   the Sync chain of the block is idempotent in write mode *)
Theorem C02_block_write_idem : forall v hs b,
  kchk_block v b = true ->
  forall o o1, exec Wr v hs (snd b) o = Ok o1 ->
  exists bytes, out o1 = rev bytes ++ out o /\
    exists o2, exec Wr v hs (snd b) o1 = Ok o2 /\ out o2 = rev bytes ++ out o1 /\ ext_eq o2 o1.
Proof. exact block_write_idem_loops. Qed.
Print Assumptions C02_block_write_idem.

(* the same after pruning: branches a write run of this version never takes (conditions on the version triple
   and on the stream mode) are removed before the discipline is applied - a member that only the READ branch
   assigns is not modified by a write run. The pruned program runs exactly like the original one
   (WkPrune.prune_exec), so the statement is about the original Sync chain. [kchk_block_any]: accepted as it
   stands or after pruning. *)
Theorem C02_block_write_idem_pruned : forall v hs b,
  kchk_block_any v b = true ->
  forall o o1, exec Wr v hs (snd b) o = Ok o1 ->
  exists bytes, out o1 = rev bytes ++ out o /\
    exists o2, exec Wr v hs (snd b) o1 = Ok o2 /\ out o2 = rev bytes ++ out o1 /\ ext_eq o2 o1.
Proof. exact block_write_idem_any. Qed.
Print Assumptions C02_block_write_idem_pruned.

Theorem C02_prune_preserves_runs : forall v hs s st, exec Wr v hs (prune v s) st = exec Wr v hs s st.
Proof. exact prune_exec. Qed.
Print Assumptions C02_prune_preserves_runs.

(* the two facts the loop rule rests on *)
Theorem C02_index_encoding_injective : forall f l1 l2, enc_key f l1 = enc_key f l2 -> l1 = l2.
Proof. exact EncInj.enc_key_inj. Qed.
Print Assumptions C02_index_encoding_injective.

(* the round trip shared with C01: an object read back from a save agrees with the saved object on every
   tracked value (see Properties_C01.v for the statement's reading) *)
Theorem C02_block_round_trip : forall v hs b,
  chk_block v b = true ->
  forall obj sw', exec Wr v hs (block_prog b) obj = Ok sw' -> warn sw' = false ->
  exists bytes A', out sw' = rev bytes ++ out obj /\
    forall rest, exists sr', exec Rd v hs (block_prog b) (empty_state (bytes ++ rest)) = Ok sr' /\
                             inp sr' = rest /\ eof sr' = false /\ agree A' sw' sr'.
Proof. exact block_round_trip. Qed.
Print Assumptions C02_block_round_trip.

(* the block types for which the idempotence obligation is discharged for ALL supported version triples,
   and the per-version counts *)
Definition C02_proved_ids : list N :=
  map fst (filter (fun x => forallb (fun v => kchk_block_any v (snd x)) supported_versions) IRCur.block_table).
Eval vm_compute in C02_proved_ids.
Definition C02_proved_per_version : list nat :=
  map (fun v => length (filter (fun x => kchk_block_any v (snd x)) IRCur.block_table)) supported_versions.
Eval vm_compute in C02_proved_per_version.

(* non-vacuity: a field assigned after it was transferred is rejected (the second write would emit another
   value); the same program with the assignment first is accepted and the theorem applies to it *)
Example C02_check_discriminates :
  let bad := SSeq (SSync 5 [] (PInt false 4)) (SAssign 5 [] (PInt false 4) (EConst 7)) in
  let good := SSeq (SAssign 5 [] (PInt false 4) (EConst 7)) (SSync 6 [] (PInt false 4)) in
  kchk (targets bad) (mkVer 0 0 0) [] bad [] [] = None /\
  exists r, kchk (targets good) (mkVer 0 0 0) [] good [] [] = Some r.
Proof. split; [reflexivity|eexists; reflexivity]. Qed.

(* loops: an array whose elements are indexed by the loop variable is accepted; one that writes the same
   instance in every iteration is rejected *)
Example C02_loop_discriminates :
  let good := SSeq (SSync 5 [] (PInt false 4)) (SFor 1 (ELoad 5 []) (SSync 6 [ILocal 1] (PInt false 2))) in
  let bad := SSeq (SSync 5 [] (PInt false 4)) (SFor 1 (ELoad 5 []) (SSync 6 [] (PInt false 2))) in
  (exists r, kchk (targets good) (mkVer 0 0 0) [] good [] [] = Some r) /\
  kchk (targets bad) (mkVer 0 0 0) [] bad [] [] = None.
Proof. split; [eexists; reflexivity|reflexivity]. Qed.

(* a truncating transfer (NiAVObject::flags as 16 bit in old streams): the field is read before it is assigned,
   accepted as one unit because the assigned value is a fixed point of the truncation; the same shape with a
   cast that is NOT the width of the transfer is rejected. Concretely: flags = 0x12345 is written as 0x2345,
   the object then holds 0x2345, and the second write emits the same two bytes and changes nothing. *)
Example C02_truncating_transfer :
  let prog := SSeq (SLocal 2 (PInt false 2) (ECast 2 false (ELoad 1 [])))
                   (SSeq (SSyncLocal 2 (PInt false 2)) (SAssign 1 [] (PInt false 4) (ELocal 2))) in
  let bad := SSeq (SLocal 2 (PInt false 2) (ECast 4 false (ELoad 1 [])))
                  (SSeq (SSyncLocal 2 (PInt false 1)) (SAssign 1 [] (PInt false 4) (ELocal 2))) in
  let o := set_int (empty_state []) (enc_key 1 []) 74565%Z in
  (exists r, kchk (targets prog) (mkVer 0 0 0) [] prog [] [] = Some r) /\
  kchk (targets bad) (mkVer 0 0 0) [] bad [] [] = None /\
  exists o1 o2, exec Wr (mkVer 0 0 0) (fun _ => false) prog o = Ok o1 /\
                exec Wr (mkVer 0 0 0) (fun _ => false) prog (syncir_clear_out o1) = Ok o2 /\
                output o2 = output o1 /\ output o1 = [69; 35] /\
                get_int o1 (enc_key 1 []) = 9029%Z /\ get_int o2 (enc_key 1 []) = 9029%Z.
Proof.
  cbv zeta. split; [eexists; vm_compute; reflexivity|]. split; [vm_compute; reflexivity|].
  eexists. eexists. split; [vm_compute; reflexivity|]. split; [vm_compute; reflexivity|].
  repeat split; vm_compute; reflexivity.
Qed.

(* a concrete second write: the clamp of an over-long NiString is applied once, the second write repeats it *)
Example C02_second_write_repeats :
  let prog := SNiString 7 [] 1 in
  let o := set_blob (empty_state []) (enc_key 7 []) (repeat 65 300) in
  exists o1 o2, exec Wr (mkVer 0 0 0) (fun _ => false) prog o = Ok o1 /\
                exec Wr (mkVer 0 0 0) (fun _ => false) prog (syncir_clear_out o1) = Ok o2 /\
                output o2 = output o1 /\ length (output o1) = 256%nat.
Proof. vm_compute. eexists; eexists. repeat split. Qed.
