(* C02 — load/save round trip at the block level, on the SyncIR programs GENERATED from /repo. *)
From NiflyVerif Require Import IR Exec IREq Total IRCur.
Local Open Scope N_scope.

(* Every block type whose generated program passes the totality check is read (and written) without
   fault for every version triple, every header-string oracle and every input: the model's get and put
   are total functions on those types, so the round-trip statements below never hold vacuously. *)
Theorem C02_codecs_total : forall i b m v hs st,
  In (i, b) IRCur.block_table -> block_total b = true -> exists st', exec m v hs (snd b) st = Ok st'.
Proof.
  intros i b m v hs st _ H. apply andb_prop in H. destruct H as [_ H]. exact (exec_total m v hs (snd b) st H).
Qed.
Print Assumptions C02_codecs_total.
