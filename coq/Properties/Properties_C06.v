(* C06 — block-graph edits keep every reference on its target and the header consistent.
   Statements only; proofs are in Graph/*.v. *)
From NiflyVerif Require Import Res GraphModel GraphInv GraphDelete GraphAdd GraphReplace GraphOrder GraphSteps.
Local Open Scope N_scope.

(* DeleteBlock on any consistent header and any index in range: the result is consistent again
   (counters = sizes, per-block type names right, no unused or duplicate type name, size table
   aligned, no object twice, all references empty or in range), and on the abstract graph the
   deletion removes the object and empties exactly the references that designated it; every other
   reference still designates the same object. *)
Theorem C06_delete_block : forall h id,
  Inv h -> id < vlen (blocks h) ->
  exists h' pre b post,
    delete_block h id = Ok h' /\ Inv h' /\
    blocks h = pre ++ b :: post /\ vlen pre = id /\
    blocks h' = map (block_deleted id) (pre ++ post) /\
    has_sizes h' = has_sizes h /\
    view h' = map (kill (uid b)) (map (view_block (blocks h)) (pre ++ post)).
Proof. exact delete_block_spec. Qed.
Print Assumptions C06_delete_block.

(* AddBlock: consistent again, returns the new index, existing entries of the abstract graph
   are unchanged and the new object is appended. *)
Theorem C06_add_block : forall h b,
  Inv h -> valid_add h b ->
  let h' := fst (add_block h b) in
  Inv h' /\ snd (add_block h b) = vlen (blocks h) /\
  blocks h' = blocks h ++ [b] /\ has_sizes h' = has_sizes h /\
  view h' = view h ++ [view_block (blocks h ++ [b]) b].
Proof. exact add_block_spec. Qed.
Print Assumptions C06_add_block.

(* DeleteUnreferencedBlocks<T>: terminates within |blocks|+1 recursive calls, is a chain of
   DeleteBlock calls on in-range indices each of which no block referenced at that moment, and
   therefore keeps the header consistent. *)
Theorem C06_prune : forall of_type fuel h root c,
  Inv h -> (length (blocks h) < fuel)%nat ->
  exists h' c', delete_unreferenced fuel of_type h root c = Ok (h', c') /\
                del_chain unreferenced h h' /\ Inv h'.
Proof. exact prune_full. Qed.
Print Assumptions C06_prune.

(* DeleteBlockByType: a chain of in-range DeleteBlock calls; consistent afterwards. *)
Theorem C06_delete_by_type : forall h name oo,
  Inv h -> exists h', delete_block_by_type h name oo = Ok h' /\ del_chain (fun _ _ => True) h h' /\ Inv h'.
Proof. exact delete_by_type_full. Qed.
Print Assumptions C06_delete_by_type.

(* ReplaceBlock: the slot keeps its index; the header stays consistent; every other entry of the
   abstract graph is unchanged (references to the slot now designate the replacement, which
   continues the slot's logical identity). *)
Theorem C06_replace_block : forall h id b',
  Inv h -> id < vlen (blocks h) -> block_ok (vlen (blocks h)) b' ->
  (forall b, vget (blocks h) id = Some b -> uid b' = uid b) ->
  exists h' pre b post,
    replace_block h id b' = Ok h' /\ Inv h' /\
    blocks h = pre ++ b :: post /\ vlen pre = id /\
    blocks h' = pre ++ b' :: post /\ has_sizes h' = has_sizes h /\
    view h' = map (view_block (blocks h)) pre ++ view_block (blocks h') b' :: map (view_block (blocks h)) post.
Proof. exact replace_block_spec. Qed.
Print Assumptions C06_replace_block.

(* SetBlockOrder with a permutation: consistent afterwards and the abstract graph is the same
   graph with slot i moved to slot order[i] (so every reference designates the same object). *)
Theorem C06_set_block_order : forall h order,
  Inv h -> is_perm order (vlen (blocks h)) ->
  exists h', set_block_order h order = Ok h' /\ Inv h' /\ has_sizes h' = has_sizes h /\
    vlen (blocks h') = vlen (blocks h) /\
    (forall i o, vget order i = Some o -> vget (view h') o = vget (view h) i).
Proof. exact set_block_order_spec. Qed.
Print Assumptions C06_set_block_order.

(* Any history (no bound on its length) of valid operations from any consistent header — in
   particular from the empty model — runs without fault and ends in a consistent header. *)
Theorem C06_history : forall ops h, Inv h -> valid_ops h ops -> exists h', steps h ops = Ok h' /\ Inv h'.
Proof. exact steps_inv. Qed.
Print Assumptions C06_history.

Theorem C06_history_from_empty : forall hs ops, valid_ops (empty_hdr hs) ops ->
  exists h', steps (empty_hdr hs) ops = Ok h' /\ Inv h'.
Proof. exact history_inv. Qed.
Print Assumptions C06_history_from_empty.

(* Non-vacuity: a concrete consistent header with references, a deletion in the middle. *)
Definition ex_h : hdr :=
  fst (add_block (fst (add_block (fst (add_block (empty_hdr true)
    (mkBlock 0 7 [1; 2] []))) (mkBlock 1 8 [] [0]))) (mkBlock 2 8 [NPOS] [1])).

Example C06_example_run :
  match delete_block ex_h 1 with
  | Ok h' => map crefs (blocks h') = [[NPOS; 1]; [NPOS]] /\ map ptrs (blocks h') = [[]; [NPOS]]
             /\ tnames h' = [7; 8] /\ tidx h' = [0; 1]
  | _ => False
  end.
Proof. vm_compute. repeat split; reflexivity. Qed.

Example C06_example_order :
  match set_block_order ex_h [2; 0; 1] with
  | Ok h' => map uid (blocks h') = [1; 2; 0] /\ map crefs (blocks h') = [[]; [NPOS]; [0; 1]]
  | _ => False
  end.
Proof. vm_compute. repeat split; reflexivity. Qed.
