(* C03 — blocks of unknown type survive load and save untouched.
   Statements only; the model is Container/ContainerModel.v, proofs are in Container/ContainerUnknown.v.
   The block layer is a parameter: [get_blk]/[put_blk] are the codecs of the known types, [known]
   says which type names have a factory, [prepare_blk]/[finalize_blk]/[bounds_blk] are the
   per-block steps of PrepareData/FinalizeData/Optimize, [prune]/[sort] are
   DeleteUnreferencedBlocks and PrettySortBlocks. *)
From NiflyVerif Require Import Res ContainerModel ContainerBase ContainerHdr ContainerWalk ContainerStrings ContainerUnknown ContainerExamples.
Local Open Scope N_scope.

(* For every file the independent reader accepts (so >= 20.2.0.5) with a well-formed header (its
   1-byte-sized creator/export strings of any length: [clip_tables] is the header as Put leaves it) of a
   supported version, whose blocks of known types are consumed exactly by their codecs
   ([blocks_ok]) and which has at least one block of a type without factory: Load succeeds, and
   Save with ANY option set writes a file the independent reader accepts again, with the same
   number of blocks, the same type table and type indices, where at every position of an unknown
   block the payload bytes and the declared size are those of the input, and every string of the
   input string table is still at its index. *)
Theorem C03_unknown_payload :
  forall (blk : Type) (put_blk : tables -> srefs -> blk -> list N)
         (get_blk : tables -> list N -> list N -> res (srefs * blk * list N)) (known : list N -> bool)
         (prepare_blk finalize_blk bounds_blk : model blk -> srefs * blk -> srefs * blk)
         (prune sort : model blk -> model blk) (s : list N) (t : tables) (pays : list (list N))
         (bs0 : list (cblock blk)) (o : save_opts),
  walkb s = Some (t, pays) ->
  wf_tables (clip_tables t) ->
  supported (h_ver t) = true ->
  vlen pays = h_nblocks t ->
  blocks_ok blk get_blk known t 0 pays bs0 ->
  existsb (is_unknown blk) bs0 = true ->
  exists m m' : model blk,
    load blk get_blk known prepare_blk s = Loaded blk m /\
    pre_save blk finalize_blk bounds_blk prune sort o m = Ok m' /\
    (Forall str4_ok (h_strings (m_hdr blk m')) ->
     u32 (vlen (h_strings (m_hdr blk m'))) ->
     Forall (fun b : cblock blk => u32 (vlen (payload_of blk put_blk (clip_tables (m_hdr blk m')) b))) (m_blocks blk m') ->
     exists (bytes : list N) (pays' : list (list N)) (t' : tables),
       save blk put_blk finalize_blk bounds_blk prune sort o m = Ok (bytes, clip_model blk m') /\
       walkb bytes = Some (t', pays') /\
       length pays' = length pays /\
       h_nblocks t' = h_nblocks t /\
       h_types t' = h_types t /\
       h_tidx t' = h_tidx t /\
       unknown_slices blk bs0 pays' = unknown_slices blk bs0 pays /\
       unknown_slices blk bs0 (h_sizes t') = unknown_slices blk bs0 (h_sizes t) /\
       (exists e : list (list N), h_strings t' = h_strings t ++ e)).
Proof. exact unknown_payload. Qed.
Print Assumptions C03_unknown_payload.

(* With hasUnknown set, FinalizeData + Optimize + PrettySortBlocks under BOTH values of both save
   options never reach prune/sort: same block count, unknown blocks identical at their positions,
   known blocks still known, header block count / type table / type indices / sizes unchanged,
   string table only extended. *)
Theorem C03_no_reorder :
  forall (blk : Type) (finalize_blk bounds_blk : model blk -> srefs * blk -> srefs * blk)
         (prune sort : model blk -> model blk) (o : save_opts) (m : model blk),
  m_has_unknown blk m = true ->
  tab_inv (tab_of (m_hdr blk m)) ->
  exists m' : model blk,
    pre_save blk finalize_blk bounds_blk prune sort o m = Ok m' /\
    m_has_unknown blk m' = true /\
    same_unknown blk (m_blocks blk m) (m_blocks blk m') /\
    length (m_blocks blk m') = length (m_blocks blk m) /\
    h_ver (m_hdr blk m') = h_ver (m_hdr blk m) /\
    h_nblocks (m_hdr blk m') = h_nblocks (m_hdr blk m) /\
    h_ntypes (m_hdr blk m') = h_ntypes (m_hdr blk m) /\
    h_types (m_hdr blk m') = h_types (m_hdr blk m) /\
    h_tidx (m_hdr blk m') = h_tidx (m_hdr blk m) /\
    h_sizes (m_hdr blk m') = h_sizes (m_hdr blk m) /\
    (exists e : list (list N), h_strings (m_hdr blk m') = h_strings (m_hdr blk m) ++ e).
Proof. exact no_reorder. Qed.
Print Assumptions C03_no_reorder.

(* UpdateHeaderStrings(true) only appends: every existing string keeps its index *)
Theorem C03_strings_prefix : forall file tb bs tb' bs',
  tab_inv tb -> update_header_strings file true tb bs = Ok (tb', bs') ->
  exists e, st_strings tb' = st_strings tb ++ e.
Proof. exact strings_prefix. Qed.
Print Assumptions C03_strings_prefix.

Theorem C03_strings_prefix_index : forall file tb bs tb' bs' i s,
  tab_inv tb -> update_header_strings file true tb bs = Ok (tb', bs') ->
  vget (st_strings tb) i = Some s -> vget (st_strings tb') i = Some s.
Proof. exact strings_prefix_index. Qed.
Print Assumptions C03_strings_prefix_index.

(* Load of such a file: header as read, unknown blocks verbatim at their positions, hasUnknown set
   exactly when there is one *)
Theorem C03_load_unknown :
  forall (blk : Type) (get_blk : tables -> list N -> list N -> res (srefs * blk * list N))
         (known : list N -> bool) (prepare_blk : model blk -> srefs * blk -> srefs * blk)
         (s : list N) (t : tables) (pays : list (list N)) (bs0 : list (cblock blk)),
  walkb s = Some (t, pays) ->
  wf_tables (clip_tables t) ->
  supported (h_ver t) = true ->
  vlen pays = h_nblocks t ->
  blocks_ok blk get_blk known t 0 pays bs0 ->
  exists m : model blk,
    load blk get_blk known prepare_blk s = Loaded blk m /\
    m_hdr blk m = t /\
    same_unknown blk bs0 (m_blocks blk m) /\ m_has_unknown blk m = existsb (is_unknown blk) bs0.
Proof.
  exact (fun blk get_blk known prepare_blk =>
           load_unknown blk (fun _ _ _ => []) get_blk known prepare_blk).
Qed.
Print Assumptions C03_load_unknown.

(* below 20.2.0.5 (no size table) the block loop stops at the first block whose type has no
   factory and Load returns 3 *)
Theorem C03_load_err3 :
  forall (blk : Type) (get_blk : tables -> list N -> list N -> res (srefs * blk * list N))
         (known : list N -> bool) (prepare_blk : model blk -> srefs * blk -> srefs * blk)
         (s : list N) (t : tables) (r : list N),
  get_hdr s = Ok (t, r) ->
  supported (h_ver t) = true ->
  v_file (h_ver t) <? V20_2_0_5 = true ->
  reaches_unknown blk get_blk known t 0 r -> load blk get_blk known prepare_blk s = LoadErr blk 3.
Proof.
  exact (fun blk get_blk known prepare_blk =>
           load_err3 blk (fun _ _ _ => []) get_blk known prepare_blk (fun _ x => x) (fun _ x => x)).
Qed.
Print Assumptions C03_load_err3.

(* ---- the hypotheses are satisfiable: a two-block file (one known, one unknown type) ---- *)
Example C03_ex_walk : walkb ex_file = Some (ex_tables [110; 105; 102], ex_pays).
Proof. exact ex_walk. Qed.
Example C03_ex_wf : wf_tables (clip_tables (ex_tables [110; 105; 102])).
Proof. exact (ex_wf_any [110; 105; 102] ltac:(repeat constructor; discriminate)). Qed.
Example C03_ex_blocks_ok : blocks_ok (list N) ex_get ex_known (ex_tables [110; 105; 102]) 0 ex_pays ex_blocks.
Proof. exact ex_blocks_ok. Qed.
Example C03_ex_roundtrip :
  match load (list N) ex_get ex_known ex_id ex_file with
  | Loaded _ m =>
    m_has_unknown _ m = true /\
    ex_save_walk (mkOpts false false) m = Some (ex_tables [110; 105; 102], ex_pays) /\
    ex_save_walk (mkOpts true true) m = Some (ex_tables [110; 105; 102], ex_pays)
  | _ => False
  end.
Proof. exact ex_roundtrip. Qed.
