(* C12 -- LE<->SE conversion preserves geometry and skinning and yields a valid file.
   LEVEL: PARTIAL.  These theorems cover the parts of NifFile::OptimizeFor that are pure list logic:
   RenameDuplicateShapes, the geometry bookkeeping of both directions (through the Create models of C13
   and the strip model of C18) and the reference carry-over.  The conversion as a whole (skin partitions,
   weights, shader edits, block deletion, sorting, save/reload) is explored by tools/props/c12.py on the
   implementation, not proved.  Only statements, each closed by [exact]. *)
From NiflyVerif Require Import Res UtilModel UtilSpec ShapeClass ShapeQuant ShapeModel ShapeLoops ShapeBsProofs ShapeBsCreate
  ShapeGeomProofs ShapeApiTheorems ConvModel ConvProofs ConvGeomProofs.
Local Open Scope N_scope.

(* ---------------------------------------------------------------------------------------------- *)
(* RenameDuplicateShapes *)

(* sibling shapes end up with pairwise distinct names, for EVERY child list without unnamed shapes.
   (Before the repair of C12-rename-candidate-taken -- the candidate test was "> 1" -- this needed the extra
   hypothesis that no child is already called X_<number>, and [A_1, A, A] -> [A_1, A_1, A] refuted it.) *)
Theorem C12_rename_distinct : forall orig : list cv_child,
  (forall k, In k orig -> cv_is_shape k = true -> cv_cname k <> []) ->
  exists r ren, cv_rename_node orig = Ok (r, ren) /\ NoDup (cv_shape_names r)
    /\ length r = length orig /\ map cv_is_shape r = map cv_is_shape orig.
Proof. exact cv_rename_distinct. Qed.
Print Assumptions C12_rename_distinct.

(* the loop (including the candidate search: a pigeonhole argument over the n+1 first candidates)
   terminates with a result for every child list *)
Theorem C12_rename_total : forall kids : list cv_child, exists r ren, cv_rename_node kids = Ok (r, ren).
Proof. exact cv_rename_total. Qed.
Print Assumptions C12_rename_total.

(* without the hypothesis it is false: unnamed shapes are never renamed *)
Theorem C12_rename_empty_refuted :
  exists kids r, cv_rename_node kids = Ok (r, false) /\ cv_shape_names r = [[]; []] /\ ~ NoDup (cv_shape_names r).
Proof. exact cv_rename_empty_refuted. Qed.
Print Assumptions C12_rename_empty_refuted.

(* and only the root and its direct child nodes are visited: root -> N1 -> N2 -> [A, A] is left as it is *)
Theorem C12_rename_deep_refuted :
  exists tree, cv_rename_file tree = Ok (tree, false)
    /\ tree = [CvNode [78; 49] [CvNode [78; 50] [CvShape cv_A; CvShape cv_A]]].
Proof. exact cv_rename_deep_refuted. Qed.
Print Assumptions C12_rename_deep_refuted.

(* frame, for every child list: same children in the same order; a child keeps its name or is a shape
   whose name got "_<number>" appended *)
Theorem C12_rename_frame : forall kids r ren,
  cv_rename_node kids = Ok (r, ren) -> Forall2 cv_child_step kids r.
Proof. exact cv_rename_frame. Qed.
Print Assumptions C12_rename_frame.

(* std::to_string as modelled is injective and never produces '_' *)
Theorem C12_to_string : forall a b, (cv_to_string a = cv_to_string b -> a = b) /\ ~ In cv_us (cv_to_string a).
Proof. intros a b. split; [exact (cv_to_string_inj a b) | exact (cv_to_string_no_us a)]. Qed.
Print Assumptions C12_to_string.

(* ---------------------------------------------------------------------------------------------- *)
(* geometry bookkeeping *)

(* positions_kept / triangle_set_kept, LE -> SE: positions 1:1, the triangle LIST kept (strips expanded
   by the window definition proved in C18), for every vertex/triangle array within the 16-bit counters *)
Theorem C12_to_sse_kept : forall bsphere btan seg verts strips tris uvsets norms ms,
  vlen verts <= 65535 ->
  let t := match strips with Some pts => strips_spec pts | None => tris end in
  exists s, cv_to_sse bsphere btan seg verts strips tris uvsets norms ms = Ok s
    /\ sa_wf_bs s /\ sa_b_nv s = vlen verts
    /\ sa_bs_get_verts s = Ok verts
    /\ (verts <> [] -> vlen t <= 65535 -> sa_bs_get_tris s = t /\ sa_b_nt s = vlen t)
    /\ (verts = [] -> sa_bs_get_tris s = [])
    /\ sa_b_kind s = (if seg then sa_KSubIndex else sa_KTri).
Proof. exact (fun b t => cv_to_sse_kept b t sa_unk_gtan). Qed.
Print Assumptions C12_to_sse_kept.

(* SE -> LE *)
Theorem C12_to_le_kept : forall bsphere gtan dec_tok s ms,
  sa_wf_bs s -> sa_b_nv s <= 65535 ->
  exists g, cv_to_le bsphere gtan dec_tok s ms = Ok g
    /\ sa_g_nv g = sa_b_nv s
    /\ sa_g_get_verts g = Some (map sa_bv_vert (sa_b_vd s))
    /\ (sa_b_nv s <> 0 -> vlen (sa_b_tris s) <= 65535 -> sa_g_tris g = sa_b_tris s)
    /\ (sa_bs_has s sa_VF_UV = true -> sa_g_get_uvs g = Some (map sa_bv_uv (sa_b_vd s))).
Proof. exact (fun b => cv_to_le_kept b sa_unk_btan). Qed.
Print Assumptions C12_to_le_kept.

Theorem C12_le_triangles : forall strips tris,
  cv_le_triangles strips tris = Ok (match strips with Some pts => strips_spec pts | None => tris end).
Proof. exact cv_le_triangles_spec. Qed.
Print Assumptions C12_le_triangles.

(* ---------------------------------------------------------------------------------------------- *)
(* references *)

Theorem C12_refs_carried : forall r : cv_refs, cv_carry r = r /\ cv_carry (cv_carry r) = r.
Proof. intros r. split; [exact (cv_refs_carried r) | exact (cv_refs_there_and_back r)]. Qed.
Print Assumptions C12_refs_carried.

(* ---------------------------------------------------------------------------------------------- *)
(* the hypotheses are satisfiable *)
Example C12_ex_rename :
  cv_rename_node [cv_sh cv_A; cv_sh cv_A; cv_sh [66]; cv_sh cv_A]
  = Ok ([cv_sh cv_A; cv_sh cv_A_1; cv_sh [66]; cv_sh [65; 95; 50]], true).
Proof. exact cv_rename_distinct_ex. Qed.
(* the former counterexample of DESIGN section 7 #7 *)
Example C12_ex_former_witness :
  cv_rename_node [cv_sh cv_A_1; cv_sh cv_A; cv_sh cv_A] = Ok ([cv_sh cv_A_1; cv_sh [65; 95; 50]; cv_sh cv_A], true).
Proof. exact cv_rename_former_witness. Qed.
Example C12_ex_child_node :
  cv_rename_file [CvNode [78; 49] [CvShape cv_A; CvShape cv_A]] = Ok ([CvNode [78; 49] [CvShape cv_A; CvShape cv_A_1]], true).
Proof. exact cv_rename_child_node. Qed.
Example C12_ex_to_string : cv_to_string 0 = [48] /\ cv_to_string 10 = [49; 48] /\ cv_to_string 2147483647 = [50; 49; 52; 55; 52; 56; 51; 54; 52; 55].
Proof. repeat split; vm_compute; reflexivity. Qed.
