(* C11 — a copied model is equal to and fully independent of its source.
   Statements only; the model is Clone/CopyModel.v (NifFile::CopyFrom, LinkGeomData, SetGeomData,
   member-wise Clone), proofs are in Clone/CopyProofs.v and Clone/CopyEdits.v.
   [compat] is the dynamic_cast test of SetGeomData (shape class, data class); every theorem
   holds for every such relation, every file, every block count. *)
From NiflyVerif Require Import Res GraphModel GraphInv GraphAdd GraphOrder GraphSteps CopyModel CopyProofs CopyEdits.
Local Open Scope N_scope.

(* The copy writes what the source writes: header tables, string table, and per block its class,
   references, string values and payload are identical whatever the cached pointers are (save
   bytes are a function of these). No hypothesis on the source. *)
Theorem C11_copy_equal : forall compat me base f c,
  copy_from compat me base f = Ok c -> save_view c = save_view f.
Proof. exact copy_equal. Qed.
Print Assumptions C11_copy_equal.

(* Copying a consistent model whose cached pointers are its own never faults, keeps the header
   consistent and re-establishes the ownership invariant in the copy. *)
Theorem C11_copy_link_inv : forall compat me base f,
  Inv (fh f) -> SlotOk f -> LinkInv compat f ->
  exists c, copy_from compat me base f = Ok c /\ LinkInv compat c /\ Inv (fh c) /\ fid c = me /\
            save_view c = save_view f.
Proof. exact copy_link_inv. Qed.
Print Assumptions C11_copy_link_inv.

(* Independence: every cached pointer of the copy is tagged with the copy, designates one of the
   copy's own objects, these objects are new (none is an object of the source), and the copied
   header references the copy's own block vector. *)
Theorem C11_copy_independent : forall compat me base f c,
  Inv (fh f) -> SlotOk f -> LinkInv compat f -> me <> fid f ->
  (forall u, In u (map uid (blocks (fh f))) -> u < base) ->
  copy_from compat me base f = Ok c ->
  (forall b o w, In b (blocks (fh c)) -> acached (heap c (uid b)) = Some (o, w) ->
     o = me /\ o <> fid f /\ In w (map uid (blocks (fh c))) /\ ~ In w (map uid (blocks (fh f)))) /\
  (forall u, In u (map uid (blocks (fh c))) -> ~ In u (map uid (blocks (fh f)))) /\
  hown c = me.
Proof. exact copy_independent. Qed.
Print Assumptions C11_copy_independent.

(* LinkGeomData (run by PrepareData after Load, and by CopyFrom) establishes the invariant from any
   state in which every stale pointer is about to be overwritten, in particular from all-null. *)
Theorem C11_link_establishes : forall compat f,
  Inv (fh f) -> SlotOk f -> hown f = fid f -> stale_ok compat f ->
  exists f', link_geom_data compat f = Ok f' /\ LinkInv compat f' /\
             fh f' = fh f /\ fid f' = fid f /\ fstrs f' = fstrs f /\
             (forall x, same_fields (heap f x) (heap f' x)).
Proof. exact link_geom_data_establishes. Qed.
Print Assumptions C11_link_establishes.

Theorem C11_link_after_load : forall compat f,
  Inv (fh f) -> SlotOk f -> hown f = fid f ->
  (forall b, In b (blocks (fh f)) -> acached (heap f (uid b)) = None) ->
  exists f', link_geom_data compat f = Ok f' /\ LinkInv compat f'.
Proof. exact link_after_load. Qed.
Print Assumptions C11_link_after_load.

(* What the invariant buys: what a model writes and what its geometry accessors reach does not
   depend on any other model of the world - whatever edit is applied to the other model, or its
   destruction (g' = None). *)
Theorem C11_other_model_invisible : forall compat (W : world) f k g',
  LinkInv compat f -> k <> fid f -> observe (wset W k g') f = observe W f.
Proof. exact other_model_invisible. Qed.
Print Assumptions C11_other_model_invisible.

(* The invariant is preserved by the edits of one model: payload edits of any object (vertex
   deletion, SetVertsForShape, texture paths, names), AddBlock, SetBlockOrder with any
   permutation, and DeleteBlock of any block that no surviving shape caches a pointer to. *)
Theorem C11_payload_edit : forall compat f u strs tok,
  LinkInv compat f -> LinkInv compat (f_payload f u strs tok).
Proof. exact f_payload_link. Qed.
Print Assumptions C11_payload_edit.

Theorem C11_add_block : forall compat f b a,
  Inv (fh f) -> valid_add (fh f) b -> LinkInv compat f ->
  LinkInv compat (f_add f b a) /\ Inv (fh (f_add f b a)).
Proof. exact f_add_link. Qed.
Print Assumptions C11_add_block.

Theorem C11_set_block_order : forall compat f order,
  Inv (fh f) -> LinkInv compat f -> is_perm order (vlen (blocks (fh f))) ->
  exists f', f_order f order = Ok f' /\ LinkInv compat f' /\ Inv (fh f').
Proof. exact f_order_link. Qed.
Print Assumptions C11_set_block_order.

Theorem C11_delete_block : forall compat f id,
  Inv (fh f) -> LinkInv compat f -> id < vlen (blocks (fh f)) ->
  (forall x b o, vget (blocks (fh f)) id = Some x -> In b (blocks (fh f)) -> uid b <> uid x ->
                 acached (heap f (uid b)) <> Some (o, uid x)) ->
  exists f', f_delete f id = Ok f' /\ LinkInv compat f' /\ Inv (fh f').
Proof. exact f_delete_link. Qed.
Print Assumptions C11_delete_block.

(* NifFile::DeleteShape as repaired (the data block is deleted only when the shape is its only
   referrer, then the shape): when only the shape caches a pointer to its data block and nobody
   caches a pointer to the shape, deleting the data block and then the shape never faults and ends
   in a model that satisfies the ownership invariant again. *)
Theorem C11_delete_shape : forall compat f si id bs x,
  Inv (fh f) -> LinkInv compat f ->
  vget (blocks (fh f)) si = Some bs -> vget (blocks (fh f)) id = Some x -> uid bs <> uid x ->
  (forall b o, In b (blocks (fh f)) -> uid b <> uid bs -> acached (heap f (uid b)) <> Some (o, uid x)) ->
  (forall b o, In b (blocks (fh f)) -> uid b <> uid bs -> acached (heap f (uid b)) <> Some (o, uid bs)) ->
  exists f1, f_delete f id = Ok f1 /\
    exists si', (exists b', vget (blocks (fh f1)) si' = Some b' /\ uid b' = uid bs) /\
    exists f2, f_delete f1 si' = Ok f2 /\ LinkInv compat f2 /\ Inv (fh f2).
Proof. exact delete_shape_link. Qed.
Print Assumptions C11_delete_shape.

(* its guard GetBlockRefCount(data, false) == 1 gives the first hypothesis: when the shape is the only
   block referencing the data block, no other shape caches a pointer to it (a shared data block is
   kept, so the shapes sharing it keep valid pointers) *)
Theorem C11_sole_referrer_sole_cacher : forall compat f si id bs x,
  Inv (fh f) -> LinkInv compat f ->
  vget (blocks (fh f)) si = Some bs -> vget (blocks (fh f)) id = Some x ->
  In id (crefs bs) -> ref_count (fh f) id false = 1 ->
  forall b o, In b (blocks (fh f)) -> uid b <> uid bs -> acached (heap f (uid b)) <> Some (o, uid x).
Proof. exact sole_referrer_sole_cacher. Qed.
Print Assumptions C11_sole_referrer_sole_cacher.

(* The side condition of C11_delete_block is necessary. DeleteBlock of a geometry data block whose
   shape survives empties the data reference but not the raw pointer: the invariant is lost, and a
   copy of that model holds a pointer tagged with the SOURCE that designates an object neither
   model owns (freed memory). Replayed on the implementation through NiHeader::DeleteBlock:
   heap-use-after-free (known finding C11-dangling-geom-cache). *)
Theorem C11_delete_data_breaks_link_refuted :
  exists f id f', Inv (fh f) /\ LinkInv all_compat f /\ id < vlen (blocks (fh f)) /\
    f_delete f id = Ok f' /\ ~ LinkInv all_compat f' /\
    exists c b w, copy_from all_compat 1 100 f' = Ok c /\ In b (blocks (fh c)) /\
      acached (heap c (uid b)) = Some (fid f, w) /\ fid c <> fid f /\
      ~ In w (map uid (blocks (fh f'))) /\ ~ In w (map uid (blocks (fh c))).
Proof. exact delete_data_breaks_link_refuted. Qed.
Print Assumptions C11_delete_data_breaks_link_refuted.

(* Without the invariant an observation of one model does depend on the other. *)
Theorem C11_observe_nonlocal_refuted :
  exists (W : world) f k g', k <> fid f /\ observe (wset W k g') f <> observe W f.
Proof. exact observe_nonlocal_refuted. Qed.
Print Assumptions C11_observe_nonlocal_refuted.

(* The boolean checker run on the implementation's dumps decides the invariant. *)
Theorem C11_link_inv_decided : forall compat f, link_inv_b compat f = true <-> LinkInv compat f.
Proof. exact link_inv_b_iff. Qed.
Print Assumptions C11_link_inv_decided.

(* The hypotheses are satisfiable: a linked shape/data pair, its copy, and an edit of it. *)
Example C11_hypotheses_satisfiable :
  Inv (fh w_file) /\ SlotOk w_file /\ LinkInv all_compat w_file /\
  exists c, copy_from all_compat 1 100 w_file = Ok c /\ LinkInv all_compat c /\
            acached (heap c 101) = Some (1, 100).
Proof.
  split; [exact w_inv|]. split.
  - intros b k [<-|[<-|[]]]; vm_compute; intros H; inversion H; reflexivity.
  - split; [exact w_link|]. eexists. split; [vm_compute; reflexivity|]. split.
    + apply link_inv_b_iff. vm_compute. reflexivity.
    + vm_compute. reflexivity.
Qed.
