(* C13 -- Geometry written through the API is what is read back, in every version.
   Only statements, each closed by [exact] of a lemma proved in coq/ShapeApi/*.v, and their assumptions.

   Reading guide.  [sa_version] is the (file, user, stream) triple; [sa_create_class] the class table of
   NifFile::CreateShapeFromData.  [sa_geom] models NiTriShapeData, [sa_bstri] BSTriShape /
   BSSubIndexTriShape; scalars that are only copied are opaque tokens (the binary32 bit pattern),
   byte-quantised fields go through [sa_norm_enc]/[sa_col_enc] on the token's exact value.
   [sa_wf_bs]/[sa_wf_g]: every per-vertex array has numVertices elements (or is empty when its flag is off).
   bsphere / btan / gtan / half_rt (Miniball, tangent-space arithmetic, binary16 round trip) are
   universally quantified: the statements hold whatever those functions compute. *)
From NiflyVerif Require Import Res ShapeClass ShapeClassProofs ShapeQuant ShapeQuantProofs ShapeModel ShapeLoops
  ShapeBsProofs ShapeBsCreate ShapeGeomProofs ShapeApiTheorems ShapeDescProofs.
From Coq Require Import QArith Qabs.
Local Open Scope N_scope.

(* ---------------------------------------------------------------------------------------------- *)
(* (a) class selection, for EVERY version triple *)

Theorem C13_version_predicates_exclusive : forall v : sa_version, sa_game_count v <= 1.
Proof. exact sa_games_exclusive. Qed.
Print Assumptions C13_version_predicates_exclusive.

Theorem C13_create_class_total : forall v : sa_version,
  (sa_is_sse v = true /\ sa_create_class v = sa_row_sse)
  \/ (sa_is_sse v = false /\ (sa_is_fo4 v = true \/ sa_is_fo76 v = true) /\ sa_create_class v = sa_row_fo4)
  \/ (sa_is_sk v = true /\ sa_create_class v = sa_row_sk)
  \/ (sa_is_sse v = false /\ sa_is_fo4 v = false /\ sa_is_fo76 v = false /\ sa_is_sk v = false
      /\ sa_create_class v = sa_row_legacy).
Proof. exact sa_create_class_total. Qed.
Print Assumptions C13_create_class_total.

Theorem C13_create_class_per_game : forall v : sa_version,
  (sa_is_sse v = true -> sa_create_class v = sa_row_sse)
  /\ (sa_is_fo4 v = true -> sa_create_class v = sa_row_fo4)
  /\ (sa_is_fo76 v = true -> sa_create_class v = sa_row_fo4)
  /\ (sa_is_sk v = true -> sa_create_class v = sa_row_sk)
  /\ (sa_is_fo3 v = true -> sa_create_class v = sa_row_legacy)
  /\ (sa_is_ob v = true -> sa_create_class v = sa_row_legacy)
  /\ (sa_is_sf v = true -> sa_create_class v = sa_row_legacy).
Proof.
  intros v. repeat split.
  - exact (sa_create_class_sse v). - exact (sa_create_class_fo4 v). - exact (sa_create_class_fo76 v).
  - exact (sa_create_class_sk v). - exact (sa_create_class_fo3 v). - exact (sa_create_class_ob v).
  - exact (sa_create_class_sf v).
Qed.
Print Assumptions C13_create_class_per_game.

Theorem C13_create_class_structure : forall v : sa_version,
  (sa_cr_data (sa_create_class v) = None <-> sa_cr_shape (sa_create_class v) <> sa_CNiTriShape)
  /\ sa_cr_texset (sa_create_class v) = true
  /\ (sa_cr_link (sa_create_class v) = sa_LPropertyList <-> sa_cr_shader (sa_create_class v) = sa_CBSShaderPPLightingProperty)
  /\ (sa_cr_wet (sa_create_class v) = true <-> sa_cr_shape (sa_create_class v) = sa_CBSSubIndexTriShape)
  /\ sa_cr_blocks (sa_create_class v) = (match sa_cr_data (sa_create_class v) with Some _ => 4 | None => 3 end).
Proof. exact sa_create_class_shape_data. Qed.
Print Assumptions C13_create_class_structure.

Theorem C13_factory_versions :
  sa_is_ob sa_getOB = true /\ sa_is_fo3 sa_getFO3 = true /\ sa_is_sk sa_getSK = true /\ sa_is_sse sa_getSSE = true
  /\ sa_is_fo4 sa_getFO4 = true /\ sa_is_fo76 sa_getFO76 = true /\ sa_is_sf sa_getSF = true.
Proof. exact sa_factory_versions. Qed.
Print Assumptions C13_factory_versions.

(* ---------------------------------------------------------------------------------------------- *)
(* creation: for every version, every vertex / triangle / uv / normal array (any lengths) *)

(* create_get_verts / create_get_tris / create_get_uvs with the truncations the code applies:
   min(|verts|, 65535) vertices; 0 triangles without vertices, else min(|tris|, limit) with the
   limit of the chosen class; uvs accepted only with exactly that many entries. *)
Theorem C13_create_get : forall bsphere btan gtan (ver : sa_version) verts tris uvs norms,
  let nv := sa_nv_of verts in
  let nt := sa_nt_of (sa_limit_of ver) nv tris in
  exists sh, sa_create bsphere btan gtan ver verts tris uvs norms = Ok sh
    /\ sa_wf_shape sh /\ sa_num_verts sh = nv /\ sa_num_tris sh = nt
    /\ sa_get_verts sh = Ok (Some (firstn (N.to_nat nv) verts))
    /\ sa_get_tris sh = firstn (N.to_nat nt) tris
    /\ (match uvs with
        | Some u => sa_get_uvs sh = Ok (if vlen u =? nv then Some u else None)
        | None => sa_get_uvs sh = Ok (match sh with sa_SG _ => None | sa_SB _ => Some (repeat sa_v2z (N.to_nat nv)) end)
        end)
    /\ (match sh with
        | sa_SG _ => sa_cr_shape (sa_create_class ver) = sa_CNiTriShape
        | sa_SB b => sa_cr_shape (sa_create_class ver) = (match sa_b_kind b with sa_KTri => sa_CBSTriShape | sa_KSubIndex => sa_CBSSubIndexTriShape end)
        end).
Proof. exact sa_create_spec. Qed.
Print Assumptions C13_create_get.

(* ---------------------------------------------------------------------------------------------- *)
(* BSTriShape storage: set_get_X and set_X_frame for every per-vertex pair *)

Theorem C13_bs_set_get_verts : forall bsphere btan ver s verts, sa_wf_bs s -> length verts = N.to_nat (sa_b_nv s) ->
  exists s', sa_bs_api_set_verts bsphere btan ver s verts = Ok s' /\ sa_bs_get_verts s' = Ok verts.
Proof. exact sa_bs_set_get_verts. Qed.
Print Assumptions C13_bs_set_get_verts.
Theorem C13_bs_set_get_uvs : forall s uvs, sa_wf_bs s -> length uvs = N.to_nat (sa_b_nv s) ->
  exists s', sa_bs_api_set_uvs s uvs = Ok s' /\ sa_bs_get_uvs s' = Ok (Some uvs).
Proof. exact sa_bs_set_get_uvs. Qed.
Print Assumptions C13_bs_set_get_uvs.
Theorem C13_bs_set_get_normals : forall s ns, sa_wf_bs s -> length ns = N.to_nat (sa_b_nv s) ->
  exists s', sa_bs_api_set_normals s ns = Ok s'
    /\ sa_bs_get_normals s' = Ok (Some (map (fun x => sa_ndec3 (sa_nbyte3 x)) ns)).
Proof. exact (((sa_bs_set_get_normals sa_unk_bsphere sa_unk_btan))). Qed.
Print Assumptions C13_bs_set_get_normals.
Theorem C13_bs_set_get_tangents : forall s ts, sa_wf_bs s -> length ts = N.to_nat (sa_b_nv s) ->
  exists s', sa_bs_api_set_tangents s ts = Ok s'
    /\ sa_bs_get_tangents s' = Ok (Some (map (fun x => sa_ndec3 (sa_nbyte3 x)) ts)).
Proof. exact (((sa_bs_set_get_tangents sa_unk_bsphere sa_unk_btan))). Qed.
Print Assumptions C13_bs_set_get_tangents.
Theorem C13_bs_set_get_bitangents : forall s bs, sa_wf_bs s -> length bs = N.to_nat (sa_b_nv s) ->
  exists s', sa_bs_api_set_bitangents s bs = Ok s'
    /\ sa_bs_get_bitangents s' = Ok (Some (map (fun x => sa_bit_dec (sa_bit_enc x)) bs)).
Proof. exact (((sa_bs_set_get_bitangents sa_unk_bsphere sa_unk_btan))). Qed.
Print Assumptions C13_bs_set_get_bitangents.
Theorem C13_bs_set_get_colors : forall s cs, sa_wf_bs s -> length cs = N.to_nat (sa_b_nv s) ->
  exists s', sa_bs_api_set_colors s cs = Ok s'
    /\ sa_bs_get_colors s' = Ok (Some (map (fun x => sa_cdec4 (sa_cbyte4 x)) cs)).
Proof. exact sa_bs_set_get_colors. Qed.
Print Assumptions C13_bs_set_get_colors.
Theorem C13_bs_set_get_eye : forall s es, sa_wf_bs s -> length es = N.to_nat (sa_b_nv s) ->
  exists s', sa_bs_api_set_eye s es = Ok s' /\ sa_bs_get_eye s' = Ok (Some es).
Proof. exact sa_bs_set_get_eye. Qed.
Print Assumptions C13_bs_set_get_eye.

(* frame: each setter changes only its own vertex field and its own descriptor bit; the vertex count,
   the triangle list, the bounds and the length of the vertex array stay ([sa_bs_same_except]) *)
Theorem C13_bs_set_frames : forall bsphere btan ver s,
  sa_wf_bs s ->
  (forall l, length l = N.to_nat (sa_b_nv s) ->
     exists s', sa_bs_api_set_verts bsphere btan ver s l = Ok s' /\ sa_wf_bs s' /\ sa_bs_same_except FVert s s')
  /\ (forall l, length l = N.to_nat (sa_b_nv s) ->
     exists s', sa_bs_api_set_uvs s l = Ok s' /\ sa_wf_bs s' /\ sa_bs_same_except FUv s s')
  /\ (forall l, length l = N.to_nat (sa_b_nv s) ->
     exists s', sa_bs_api_set_normals s l = Ok s' /\ sa_wf_bs s' /\ sa_bs_same_except FNormal s s')
  /\ (forall l, length l = N.to_nat (sa_b_nv s) ->
     exists s', sa_bs_api_set_tangents s l = Ok s' /\ sa_wf_bs s' /\ sa_bs_same_except FTangent s s')
  /\ (forall l, length l = N.to_nat (sa_b_nv s) ->
     exists s', sa_bs_api_set_bitangents s l = Ok s' /\ sa_wf_bs s' /\ sa_bs_same_except FBitangent s s')
  /\ (forall l, length l = N.to_nat (sa_b_nv s) ->
     exists s', sa_bs_api_set_colors s l = Ok s' /\ sa_wf_bs s' /\ sa_bs_same_except FColor s s')
  /\ (forall l, length l = N.to_nat (sa_b_nv s) ->
     exists s', sa_bs_api_set_eye s l = Ok s' /\ sa_wf_bs s' /\ sa_bs_same_except FEye s s').
Proof.
  intros bsphere btan ver s W. repeat split; intros l L.
  - destruct (sa_bs_set_verts_same_spec bsphere btan ver s l W L) as [s' [E [W' [S _]]]]. eauto.
  - destruct (sa_bs_set_uvs_spec s l W L) as [s' [E [W' [S _]]]]. eauto.
  - destruct (sa_bs_set_normals_spec sa_unk_bsphere sa_unk_btan s l W L) as [s' [E [W' [S _]]]]. eauto.
  - destruct (sa_bs_set_tangents_spec sa_unk_bsphere sa_unk_btan s l W L) as [s' [E [W' [S _]]]]. eauto.
  - destruct (sa_bs_set_bitangents_spec sa_unk_bsphere sa_unk_btan s l W L) as [s' [E [W' [S _]]]]. eauto.
  - destruct (sa_bs_set_colors_spec s l W L) as [s' [E [W' [S _]]]]. eauto.
  - destruct (sa_bs_set_eye_spec s l W L) as [s' [E [W' [S _]]]]. eauto.
Qed.
Print Assumptions C13_bs_set_frames.

(* ... and what that means for every other getter *)
Theorem C13_bs_frame_getters : forall x s s', sa_wf_bs s -> sa_wf_bs s' -> sa_bs_same_except x s s' ->
  sa_b_nv s' = sa_b_nv s /\ sa_b_nt s' = sa_b_nt s /\ sa_bs_get_tris s' = sa_bs_get_tris s /\ sa_b_bounds s' = sa_b_bounds s
  /\ length (sa_b_vd s') = length (sa_b_vd s)
  /\ (x <> FVert -> sa_bs_get_verts s' = sa_bs_get_verts s)
  /\ (x <> FUv -> sa_bs_get_uvs s' = sa_bs_get_uvs s)
  /\ (x <> FNormal -> sa_bs_get_normals s' = sa_bs_get_normals s)
  /\ (x <> FTangent -> sa_bs_has s' sa_VF_TANGENT = sa_bs_has s sa_VF_TANGENT -> sa_bs_get_tangents s' = sa_bs_get_tangents s)
  /\ (x <> FBitangent -> sa_bs_has s' sa_VF_TANGENT = sa_bs_has s sa_VF_TANGENT -> sa_bs_get_bitangents s' = sa_bs_get_bitangents s)
  /\ (x <> FColor -> sa_bs_get_colors s' = sa_bs_get_colors s)
  /\ (x <> FEye -> sa_bs_get_eye s' = sa_bs_get_eye s)
  /\ (x <> FTangent -> x <> FBitangent -> sa_bs_has s' sa_VF_TANGENT = sa_bs_has s sa_VF_TANGENT).
Proof. exact sa_bs_frame_getters. Qed.
Print Assumptions C13_bs_frame_getters.

(* setters that check the size ignore any other length; SetNormalsForShape does not check and
   reads past the end of a shorter array (the model faults) *)
Theorem C13_bs_wrong_length : forall s,
  (forall uvs, length uvs <> N.to_nat (sa_b_nv s) -> sa_bs_api_set_uvs s uvs = Ok s)
  /\ (forall cs, length cs <> N.to_nat (sa_b_nv s) -> sa_bs_api_set_colors s cs = Ok s)
  /\ (forall ts, length ts <> N.to_nat (sa_b_nv s) -> sa_bs_api_set_tangents s ts = Ok s)
  /\ (forall bs, length bs <> N.to_nat (sa_b_nv s) -> sa_bs_api_set_bitangents s bs = Ok s)
  /\ (forall es, length es <> N.to_nat (sa_b_nv s) -> sa_bs_api_set_eye s es = Ok s).
Proof. exact sa_bs_set_wrong_length. Qed.
Print Assumptions C13_bs_wrong_length.
Theorem C13_bs_set_normals_short_faults : forall s ns,
  sa_wf_bs s -> (length ns < N.to_nat (sa_b_nv s))%nat -> sa_bs_api_set_normals s ns = Fault.
Proof. exact ((sa_bs_set_normals_short_faults sa_unk_bsphere sa_unk_btan)). Qed.
Print Assumptions C13_bs_set_normals_short_faults.

Theorem C13_bs_set_tris_bounds : forall s t b,
  (sa_bs_get_tris (sa_bs_set_tris s t) = t /\ sa_b_nt (sa_bs_set_tris s t) = sa_wrap32 (vlen t)
   /\ sa_b_vd (sa_bs_set_tris s t) = sa_b_vd s /\ sa_b_desc (sa_bs_set_tris s t) = sa_b_desc s
   /\ sa_b_nv (sa_bs_set_tris s t) = sa_b_nv s /\ sa_b_bounds (sa_bs_set_tris s t) = sa_b_bounds s)
  /\ (sa_b_bounds (sa_bs_with_bounds s b) = b /\ sa_b_vd (sa_bs_with_bounds s b) = sa_b_vd s
   /\ sa_b_desc (sa_bs_with_bounds s b) = sa_b_desc s /\ sa_b_tris (sa_bs_with_bounds s b) = sa_b_tris s
   /\ sa_b_nv (sa_bs_with_bounds s b) = sa_b_nv s /\ sa_b_nt (sa_bs_with_bounds s b) = sa_b_nt s).
Proof. intros s t b. split; [exact (sa_bs_set_tris_spec s t) | exact (sa_bs_set_bounds_spec s b)]. Qed.
Print Assumptions C13_bs_set_tris_bounds.

(* SetVertsForShape with another count re-creates the shape: vertices as given (truncated), no triangles *)
Theorem C13_bs_set_verts_recreate : forall bsphere btan ver s verts,
  length verts <> N.to_nat (sa_b_nv s) ->
  let nv := sa_nv_of verts in
  exists s', sa_bs_api_set_verts bsphere btan ver s verts = Ok s' /\ sa_wf_bs s' /\ sa_b_nv s' = nv
    /\ sa_bs_get_verts s' = Ok (firstn (N.to_nat nv) verts) /\ sa_b_nt s' = 0 /\ sa_b_tris s' = [].
Proof. exact (fun b t => sa_bs_set_verts_recreate b t sa_unk_gtan). Qed.
Print Assumptions C13_bs_set_verts_recreate.

(* ---------------------------------------------------------------------------------------------- *)
(* quantisation of the byte fields over Q: exact arithmetic, binary32 rounding not modelled *)

Theorem C13_norm_quant_bound : forall x : Q, (-1 <= x)%Q -> (x <= 1)%Q ->
  (0 <= sa_norm_enc x <= 255)%Z /\ (Qabs (sa_norm_dec (sa_norm_enc x) - x) <= 1 # 255)%Q.
Proof. intros x H1 H2. split; [exact (norm_enc_range x H1 H2) | exact (norm_quant_bound x H1 H2)]. Qed.
Print Assumptions C13_norm_quant_bound.
Theorem C13_col_quant_bound : forall x : Q,
  (0 <= sa_col_enc x <= 255)%Z /\ (Qabs (sa_col_dec (sa_col_enc x) - sa_col_clamp x) <= 1 # 256)%Q.
Proof. intros x. split; [exact (col_enc_range x) | exact (col_quant_bound x)]. Qed.
Print Assumptions C13_col_quant_bound.
Theorem C13_byte_fixpoints : forall b : Z, (0 <= b <= 255)%Z ->
  sa_norm_enc (sa_norm_dec b) = b /\ sa_col_enc (sa_col_dec b) = b.
Proof. intros b H. split; [exact (norm_enc_dec_id b H) | exact (col_enc_dec_id b H)]. Qed.
Print Assumptions C13_byte_fixpoints.
(* on float tokens: what the normal / colour getters return after the setter *)
Theorem C13_token_quantisation : forall x : sa_F,
  ((-1 <= sa_f32_val x)%Q -> (sa_f32_val x <= 1)%Q ->
     (Qabs (sa_ndec (sa_nbyte x) - sa_f32_val x) <= 1 # 255)%Q /\ sa_nbyte x <= 255)
  /\ ((Qabs (sa_cdec (sa_cbyte x) - sa_col_clamp (sa_f32_val x)) <= 1 # 256)%Q /\ sa_cbyte x <= 255).
Proof. intros x. split; [exact (sa_nbyte_bound x) | exact (sa_cbyte_bound x)]. Qed.
Print Assumptions C13_token_quantisation.

(* ---------------------------------------------------------------------------------------------- *)
(* NiTriShapeData storage *)

Theorem C13_g_set_verts : forall bsphere gtan g verts, sa_wf_g g -> length verts = N.to_nat (sa_g_nv g) ->
  exists g', sa_g_api_set_verts bsphere gtan g verts = Ok g' /\ sa_wf_g g' /\ sa_g_verts g' = verts
    /\ sa_g_counts_same g g' /\ sa_g_hn g' = sa_g_hn g /\ sa_g_hc g' = sa_g_hc g /\ sa_g_df g' = sa_g_df g
    /\ sa_g_norms g' = sa_g_norms g /\ sa_g_tans g' = sa_g_tans g /\ sa_g_bits g' = sa_g_bits g
    /\ sa_g_cols g' = sa_g_cols g /\ sa_g_uvs g' = sa_g_uvs g.
Proof. exact sa_g_set_verts_same_spec. Qed.
Print Assumptions C13_g_set_verts.
Theorem C13_g_set_uvs : forall g uvs, sa_wf_g g -> length uvs = N.to_nat (sa_g_nv g) ->
  exists g', sa_g_api_set_uvs g uvs = Ok g' /\ sa_wf_g g' /\ sa_g_get_uvs g' = Some uvs
    /\ sa_g_counts_same g g' /\ sa_g_hn g' = sa_g_hn g /\ sa_g_hc g' = sa_g_hc g
    /\ sa_g_has_tangents g' = sa_g_has_tangents g
    /\ sa_g_verts g' = sa_g_verts g /\ sa_g_norms g' = sa_g_norms g /\ sa_g_tans g' = sa_g_tans g
    /\ sa_g_bits g' = sa_g_bits g /\ sa_g_cols g' = sa_g_cols g.
Proof. exact sa_g_set_uvs_spec. Qed.
Print Assumptions C13_g_set_uvs.
Theorem C13_g_set_colors : forall g cs, sa_wf_g g -> length cs = N.to_nat (sa_g_nv g) ->
  let g' := sa_g_api_set_colors g cs in
  sa_wf_g g' /\ sa_g_get_colors g' = Some cs
    /\ sa_g_counts_same g g' /\ sa_g_hn g' = sa_g_hn g /\ sa_g_df g' = sa_g_df g
    /\ sa_g_verts g' = sa_g_verts g /\ sa_g_norms g' = sa_g_norms g /\ sa_g_tans g' = sa_g_tans g
    /\ sa_g_bits g' = sa_g_bits g /\ sa_g_uvs g' = sa_g_uvs g.
Proof. exact sa_g_set_colors_spec. Qed.
Print Assumptions C13_g_set_colors.
Theorem C13_g_set_normals : forall g ns, sa_wf_g g -> length ns = N.to_nat (sa_g_nv g) ->
  let g' := sa_g_api_set_normals g ns in
  sa_wf_g g' /\ sa_g_get_normals g' = Some ns
    /\ sa_g_counts_same g g' /\ sa_g_hc g' = sa_g_hc g /\ sa_g_df g' = sa_g_df g
    /\ sa_g_verts g' = sa_g_verts g /\ sa_g_tans g' = sa_g_tans g
    /\ sa_g_bits g' = sa_g_bits g /\ sa_g_cols g' = sa_g_cols g /\ sa_g_uvs g' = sa_g_uvs g.
Proof. exact sa_g_set_normals_spec. Qed.
Print Assumptions C13_g_set_normals.
Theorem C13_g_set_tangents : forall g ts, sa_wf_g g -> length ts = N.to_nat (sa_g_nv g) ->
  let g' := sa_g_api_set_tangents g ts in
  sa_wf_g g' /\ sa_g_get_tangents g' = Some ts
    /\ sa_g_counts_same g g' /\ sa_g_hn g' = sa_g_hn g /\ sa_g_hc g' = sa_g_hc g /\ sa_g_has_uvs g' = sa_g_has_uvs g
    /\ sa_g_verts g' = sa_g_verts g /\ sa_g_norms g' = sa_g_norms g /\ sa_g_cols g' = sa_g_cols g
    /\ sa_g_uvs g' = sa_g_uvs g
    /\ sa_g_bits g' = (if sa_g_has_tangents g then sa_g_bits g else repeat sa_v3z (N.to_nat (sa_g_nv g))).
Proof. exact sa_g_set_tangents_spec. Qed.
Print Assumptions C13_g_set_tangents.
Theorem C13_g_set_bitangents : forall g bs, sa_wf_g g -> length bs = N.to_nat (sa_g_nv g) ->
  let g' := sa_g_api_set_bitangents g bs in
  sa_wf_g g' /\ sa_g_get_bitangents g' = Some bs
    /\ sa_g_counts_same g g' /\ sa_g_hn g' = sa_g_hn g /\ sa_g_hc g' = sa_g_hc g /\ sa_g_has_uvs g' = sa_g_has_uvs g
    /\ sa_g_verts g' = sa_g_verts g /\ sa_g_norms g' = sa_g_norms g /\ sa_g_cols g' = sa_g_cols g
    /\ sa_g_uvs g' = sa_g_uvs g
    /\ sa_g_tans g' = (if sa_g_has_tangents g then sa_g_tans g else repeat sa_v3z (N.to_nat (sa_g_nv g))).
Proof. exact sa_g_set_bitangents_spec. Qed.
Print Assumptions C13_g_set_bitangents.
Theorem C13_g_set_tris_bounds : forall g t b,
  (let g' := sa_g_set_tris g t in
   sa_g_get_tris g' = (true, t) /\ sa_g_nt g' = sa_wrap16 (vlen t) /\ sa_g_ntp g' = sa_wrap16 (vlen t) * 3
   /\ sa_g_nv g' = sa_g_nv g /\ sa_g_verts g' = sa_g_verts g /\ sa_g_norms g' = sa_g_norms g /\ sa_g_tans g' = sa_g_tans g
   /\ sa_g_bits g' = sa_g_bits g /\ sa_g_cols g' = sa_g_cols g /\ sa_g_uvs g' = sa_g_uvs g /\ sa_g_df g' = sa_g_df g
   /\ sa_g_hn g' = sa_g_hn g /\ sa_g_hc g' = sa_g_hc g /\ sa_g_bounds g' = sa_g_bounds g)
  /\ (let g' := sa_g_with_bounds g b in
   sa_g_bounds g' = b /\ sa_g_nv g' = sa_g_nv g /\ sa_g_verts g' = sa_g_verts g /\ sa_g_norms g' = sa_g_norms g
   /\ sa_g_tans g' = sa_g_tans g /\ sa_g_bits g' = sa_g_bits g /\ sa_g_cols g' = sa_g_cols g /\ sa_g_uvs g' = sa_g_uvs g
   /\ sa_g_df g' = sa_g_df g /\ sa_g_tris g' = sa_g_tris g /\ sa_g_nt g' = sa_g_nt g).
Proof. intros g t b. split; [exact (sa_g_set_tris_spec g t) | exact (sa_g_set_bounds_spec g b)]. Qed.
Print Assumptions C13_g_set_tris_bounds.
Theorem C13_g_wrong_length : forall g,
  (forall uvs, length uvs <> N.to_nat (sa_g_nv g) -> sa_g_api_set_uvs g uvs = Ok g)
  /\ (forall cs, length cs <> N.to_nat (sa_g_nv g) -> sa_g_api_set_colors g cs = g).
Proof. exact sa_g_set_wrong_length. Qed.
Print Assumptions C13_g_wrong_length.

(* SetVertsForShape with another count on NiTriShapeData re-creates the data; since the repair of
   C13-setverts-recreate-stale-colors the colour array follows the new count (cut, or padded with white)
   and the invariant is kept for EVERY well-formed shape *)
Theorem C13_g_set_verts_recreate : forall bsphere gtan g verts,
  sa_wf_g g -> length verts <> N.to_nat (sa_g_nv g) ->
  let nv := sa_nv_of verts in
  exists g', sa_g_api_set_verts bsphere gtan g verts = Ok g' /\ sa_g_nv g' = nv
    /\ sa_g_verts g' = firstn (N.to_nat nv) verts
    /\ sa_g_hc g' = sa_g_hc g /\ sa_g_cols g' = sa_cols_after g nv /\ sa_g_tris g' = sa_g_tris g /\ sa_g_nt g' = sa_g_nt g
    /\ sa_g_get_uvs g' = None /\ sa_g_get_normals g' = None /\ sa_g_get_tangents g' = None
    /\ sa_wf_g g'.
Proof. exact (fun b g => sa_g_set_verts_recreate b sa_unk_btan g). Qed.
Print Assumptions C13_g_set_verts_recreate.

(* ---------------------------------------------------------------------------------------------- *)
(* save + reload (storage map of the file format made explicit) *)

Theorem C13_bs_reload : forall half_rt ver s,
  (sa_sse_range ver && sa_bs_has s sa_VF_SKINNED) = false ->
  (sa_sse_range ver && (65536 <=? sa_b_nt s)) = false ->
  (16 <? sa_desc_main_size (sa_b_desc s)) = false -> 0 < sa_b_dataSize s ->
  exists s', sa_bs_reload half_rt ver s = Ok s'
    /\ sa_b_nv s' = sa_b_nv s /\ sa_b_desc s' = sa_b_desc s /\ sa_b_kind s' = sa_b_kind s
    /\ sa_b_vd s' = map (sa_bs_store_vertex half_rt ver (sa_b_desc s)) (sa_b_vd s)
    /\ sa_b_tris s' = filter (sa_tri_valid (sa_b_nv s)) (sa_b_tris s)
    /\ (sa_wf_bs s -> sa_wf_bs s').
Proof. exact sa_bs_reload_spec. Qed.
Print Assumptions C13_bs_reload.
Theorem C13_bs_reload_verts : forall half_rt ver s s',
  sa_wf_bs s -> sa_bs_has s sa_VF_VERTEX = true ->
  sa_b_nv s' = sa_b_nv s -> sa_b_vd s' = map (sa_bs_store_vertex half_rt ver (sa_b_desc s)) (sa_b_vd s) ->
  let full := sa_bs_has s sa_VF_FULLPREC || (sa_vstream ver =? 100) in
  exists l, sa_bs_get_verts s = Ok l
    /\ sa_bs_get_verts s' = Ok (map (fun x => let '(a, b, c) := x in
                                     if full then (a, b, c) else (half_rt a, half_rt b, half_rt c)) l).
Proof. exact sa_bs_reload_verts. Qed.
Print Assumptions C13_bs_reload_verts.
Theorem C13_bs_reload_uvs : forall half_rt ver s s',
  sa_wf_bs s -> sa_b_nv s' = sa_b_nv s -> sa_b_desc s' = sa_b_desc s ->
  sa_b_vd s' = map (sa_bs_store_vertex half_rt ver (sa_b_desc s)) (sa_b_vd s) ->
  match sa_bs_get_uvs s with
  | Ok (Some l) => sa_bs_get_uvs s' = Ok (Some (map (fun x => (half_rt (fst x), half_rt (snd x))) l))
  | Ok None => sa_bs_get_uvs s' = Ok None
  | _ => False
  end.
Proof. exact sa_bs_reload_uvs. Qed.
Print Assumptions C13_bs_reload_uvs.
Theorem C13_bs_reload_bytes : forall half_rt ver s s',
  sa_wf_bs s -> sa_b_nv s' = sa_b_nv s -> sa_b_desc s' = sa_b_desc s ->
  sa_b_vd s' = map (sa_bs_store_vertex half_rt ver (sa_b_desc s)) (sa_b_vd s) ->
  sa_bs_get_normals s' = sa_bs_get_normals s /\ sa_bs_get_colors s' = sa_bs_get_colors s /\ sa_bs_get_eye s' = sa_bs_get_eye s
  /\ (sa_bs_has s sa_VF_NORMAL = true -> sa_bs_get_tangents s' = sa_bs_get_tangents s).
Proof. exact sa_bs_reload_bytes. Qed.
Print Assumptions C13_bs_reload_bytes.
Theorem C13_bs_reload_tris : forall s s',
  sa_b_tris s' = filter (sa_tri_valid (sa_b_nv s)) (sa_b_tris s) ->
  forallb (sa_tri_valid (sa_b_nv s)) (sa_b_tris s) = true -> sa_bs_get_tris s' = sa_bs_get_tris s.
Proof. exact sa_bs_reload_tris. Qed.
Print Assumptions C13_bs_reload_tris.
Theorem C13_bs_finalize_frame : forall ver s s1, sa_bs_calc_data_sizes ver s = Ok s1 ->
  sa_b_vd s1 = sa_b_vd s /\ sa_b_tris s1 = sa_b_tris s /\ sa_b_nv s1 = sa_b_nv s /\ sa_b_nt s1 = sa_b_nt s
  /\ sa_b_bounds s1 = sa_b_bounds s /\ sa_b_kind s1 = sa_b_kind s /\ sa_b_seg s1 = sa_b_seg s.
Proof. exact sa_bs_calc_data_sizes_frame. Qed.
Print Assumptions C13_bs_finalize_frame.
(* ... and keeps all sixteen flag bits of the descriptor (bit-level argument through SetAttributeOffset,
   SetSize, SetFlags) *)
Theorem C13_bs_finalize_keeps_flags : forall ver s s1 k, sa_bs_calc_data_sizes ver s = Ok s1 -> k < 16 ->
  N.testbit (sa_b_desc s1) (44 + k) = N.testbit (sa_b_desc s) (44 + k).
Proof. exact sa_bs_calc_data_sizes_flags. Qed.
Print Assumptions C13_bs_finalize_keeps_flags.
Theorem C13_bs_finalize_keeps_has : forall ver s s1, sa_bs_calc_data_sizes ver s = Ok s1 ->
  sa_bs_has s1 sa_VF_VERTEX = sa_bs_has s sa_VF_VERTEX /\ sa_bs_has s1 sa_VF_UV = sa_bs_has s sa_VF_UV
  /\ sa_bs_has s1 sa_VF_NORMAL = sa_bs_has s sa_VF_NORMAL /\ sa_bs_has s1 sa_VF_TANGENT = sa_bs_has s sa_VF_TANGENT
  /\ sa_bs_has s1 sa_VF_COLORS = sa_bs_has s sa_VF_COLORS /\ sa_bs_has s1 sa_VF_SKINNED = sa_bs_has s sa_VF_SKINNED
  /\ sa_bs_has s1 sa_VF_EYEDATA = sa_bs_has s sa_VF_EYEDATA /\ sa_bs_has s1 sa_VF_FULLPREC = sa_bs_has s sa_VF_FULLPREC.
Proof. exact sa_bs_calc_data_sizes_has. Qed.
Print Assumptions C13_bs_finalize_keeps_has.
(* since the repair of C13-eyedata-desc-shift (mask built in 64 bits) the descriptor computation is
   total: eye data included, so the reload theorems above apply to shapes with eye data as well *)
Theorem C13_bs_finalize_total : forall ver s, exists s1, sa_bs_calc_data_sizes ver s = Ok s1.
Proof. exact sa_bs_calc_data_sizes_total. Qed.
Print Assumptions C13_bs_finalize_total.

Theorem C13_g_reload_verts : forall bsphere ver opt g, sa_wf_g g ->
  sa_g_get_verts (sa_g_reload ver (sa_g_after_save bsphere ver opt g)) = sa_g_get_verts g
  /\ sa_g_nv (sa_g_reload ver (sa_g_after_save bsphere ver opt g)) = sa_g_nv g.
Proof. exact sa_g_reload_verts. Qed.
Print Assumptions C13_g_reload_verts.
Theorem C13_g_reload_uvs : forall bsphere ver opt g, sa_wf_g g ->
  sa_g_get_uvs (sa_g_reload ver (sa_g_after_save bsphere ver opt g)) = sa_g_get_uvs g.
Proof. exact sa_g_reload_uvs. Qed.
Print Assumptions C13_g_reload_uvs.
Theorem C13_g_reload_normals_colors : forall bsphere ver opt g, sa_wf_g g ->
  sa_g_get_normals (sa_g_reload ver (sa_g_after_save bsphere ver opt g)) = sa_g_get_normals g
  /\ sa_g_get_colors (sa_g_reload ver (sa_g_after_save bsphere ver opt g)) = sa_g_get_colors g.
Proof. exact sa_g_reload_normals_colors. Qed.
Print Assumptions C13_g_reload_normals_colors.
Theorem C13_g_reload_tris : forall bsphere ver opt g,
  sa_g_ht g = true -> length (sa_g_tris g) = N.to_nat (sa_g_nt g) ->
  forallb (sa_tri_valid (sa_g_nv g)) (sa_g_tris g) = true ->
  sa_g_get_tris (sa_g_reload ver (sa_g_after_save bsphere ver opt g)) = (true, sa_g_tris g).
Proof. exact sa_g_reload_tris. Qed.
Print Assumptions C13_g_reload_tris.

(* ---------------------------------------------------------------------------------------------- *)
(* the hypotheses are satisfiable; concrete instances *)

Example C13_ex_class_sse : sa_create_class sa_getSSE = sa_row_sse /\ sa_create_class sa_getFO4 = sa_row_fo4
  /\ sa_create_class sa_getSK = sa_row_sk /\ sa_create_class sa_getOB = sa_row_legacy /\ sa_create_class sa_getSF = sa_row_legacy.
Proof. repeat split. Qed.
Example C13_ex_wf_new : sa_wf_bs (sa_bs_new sa_KTri) /\ sa_wf_g sa_geom_new.
Proof. split; [reflexivity | exact sa_geom_new_wf]. Qed.
(* the former counterexample of the length invariant: 3 coloured vertices, SetVertsForShape with 2 -> 2 colours *)
Example C13_ex_recreate_colors :
  exists g', sa_wf_g sa_cex_g
    /\ sa_g_api_set_verts sa_unk_bsphere sa_unk_gtan sa_cex_g [sa_v3z; sa_v3z] = Ok g'
    /\ sa_g_nv g' = 2 /\ sa_g_get_colors g' = Some [sa_c4one; sa_c4one] /\ sa_wf_g g'.
Proof. exact sa_g_set_verts_recreate_colors_ex. Qed.
(* byte normal of 0.5f (0x3F000000) is round(0.75 * 255) = 191, read back as 127/255 *)
Example C13_ex_nbyte : sa_nbyte 1056964608 = 191 /\ (sa_ndec 191 == 127 # 255)%Q.
Proof. split; vm_compute; reflexivity. Qed.
(* colour 1.0f -> 255 -> 1; colour 0.5f -> 128 -> 128/255 *)
Example C13_ex_cbyte : sa_cbyte 1065353216 = 255 /\ sa_cbyte 1056964608 = 128 /\ (sa_cdec 255 == 1)%Q.
Proof. repeat split; vm_compute; reflexivity. Qed.
