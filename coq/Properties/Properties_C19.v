(* C19 — Texture path clean-up is canonical and idempotent.
   Only statements, each closed by [exact] of a lemma proved in Path/PathProofs.v, and their
   assumptions. [clean np terrain isrel p] is the model of the lambda fTrimPath of
   NifFile::TrimTexturePaths (Path/PathModel.v) as REPAIRED by fixes/C19-mixed-separators (any run of
   separators becomes one backslash) and fixes/C19-terrain-restrip (terrain files: a leading Data\ in
   front of textures\ is taken off before the search); np = needs_prefix = not OB and not Special;
   [isrel] stands for std::filesystem's is_relative. All statements are for ALL byte lists.

   For the prefixing games the property now holds without side conditions on the path. For OB /
   Special it is FALSE of the faithful model (and of the code): see the _refuted theorems; what
   holds there is stated with the exact side conditions.
     isrel hypothesis : every path without '/' is relative (libstdc++ on POSIX; Example below) *)
From NiflyVerif Require Import Res PathModel PathSpec PathProofs.
Local Open Scope N_scope.

(* (c) blank paths become empty: every configuration, any is_relative *)
Theorem C19_clean_blank : forall (isrel : list N -> bool) np terrain p,
  all_space p = true -> clean np terrain isrel p = [].
Proof. exact clean_blank. Qed.
Print Assumptions C19_clean_blank.

(* structure of every result: every configuration, any is_relative, any path *)
Theorem C19_clean_no_slash : forall np terrain isrel p, has_fs (clean np terrain isrel p) = false.
Proof. exact clean_no_slash. Qed.
Print Assumptions C19_clean_no_slash.

Theorem C19_clean_no_trailing_ws : forall np terrain isrel p, last_space (clean np terrain isrel p) = false.
Proof. exact clean_no_trailing_ws. Qed.
Print Assumptions C19_clean_no_trailing_ws.

Theorem C19_clean_single_bs : forall np terrain isrel p, has_dbs (clean np terrain isrel p) = false.
Proof. exact clean_single_bs. Qed.
Print Assumptions C19_clean_single_bs.

Theorem C19_clean_no_leading_ws_prefixing : forall terrain isrel p,
  (forall q, has_fs q = false -> isrel q = true) ->
  hd_space (clean true terrain isrel p) = false.
Proof. exact clean_no_leading_ws_prefixing. Qed.
Print Assumptions C19_clean_no_leading_ws_prefixing.

(* (b) canonical form, prefixing games (FO3, SK, SSE, FO4, FO76, SF), terrain or not, every path *)
Theorem C19_clean_canonical_prefixing : forall isrel,
  (forall q, has_fs q = false -> isrel q = true) ->
  forall terrain p, canonical true terrain isrel (clean true terrain isrel p) = true.
Proof. exact clean_canonical_prefixing. Qed.
Print Assumptions C19_clean_canonical_prefixing.

(* (a) idempotence, prefixing games, terrain or not, every path *)
Theorem C19_clean_idem_prefixing : forall isrel,
  (forall q, has_fs q = false -> isrel q = true) ->
  forall terrain p,
  clean true terrain isrel (clean true terrain isrel p) = clean true terrain isrel p.
Proof. exact clean_idem_prefixing. Qed.
Print Assumptions C19_clean_idem_prefixing.

(* (a)+(b) OB / Special: idempotent and canonical exactly outside the two defect classes
   "result still contains \textures\" and "result starts with whitespace" *)
Theorem C19_clean_ob_outside_defects : forall isrel,
  (forall q, has_fs q = false -> isrel q = true) ->
  forall terrain p,
  hd_space (clean false terrain isrel p) = false ->
  contains_ci BTEX (clean false terrain isrel p) = false ->
  clean false terrain isrel (clean false terrain isrel p) = clean false terrain isrel p /\
  canonical false terrain isrel (clean false terrain isrel p) = true.
Proof. exact clean_ob_outside_defects. Qed.
Print Assumptions C19_clean_ob_outside_defects.

(* Refutations of the unconditional statements for OB / Special (POSIX is_relative); every witness
   is replayed on the real code by tools/props/c19.py (list WITNESSES). *)

(* "a\textures\b\textures\c.dds" -> "b\textures\c.dds" -> "c.dds" *)
Theorem C19_clean_idem_refuted_ob : exists p,
  clean false false isrel_posix (clean false false isrel_posix p) <> clean false false isrel_posix p.
Proof. exact clean_idem_refuted_ob. Qed.
Print Assumptions C19_clean_idem_refuted_ob.

Theorem C19_clean_canonical_refuted_ob : exists p,
  canonical false false isrel_posix (clean false false isrel_posix p) = false.
Proof. exact clean_canonical_refuted_ob. Qed.
Print Assumptions C19_clean_canonical_refuted_ob.

(* terrain: the same path -> "Data\b\textures\c.dds" -> "Data\c.dds" *)
Theorem C19_clean_idem_refuted_ob_terrain : exists p,
  clean false true isrel_posix (clean false true isrel_posix p) <> clean false true isrel_posix p.
Proof. exact clean_idem_refuted_ob_terrain. Qed.
Print Assumptions C19_clean_idem_refuted_ob_terrain.

(* "\ a" -> " a" -> "a": leading whitespace survives, not canonical, not idempotent *)
Theorem C19_clean_canonical_refuted_ob_ws : exists p,
  hd_space (clean false false isrel_posix p) = true /\
  canonical false false isrel_posix (clean false false isrel_posix p) = false /\
  clean false false isrel_posix (clean false false isrel_posix p) <> clean false false isrel_posix p.
Proof. exact clean_canonical_refuted_ob_ws. Qed.
Print Assumptions C19_clean_canonical_refuted_ob_ws.

(* a line terminator in front of \textures\ stops the search: "x<LF>\textures\a" stays *)
Theorem C19_clean_canonical_refuted_ob_newline : exists p,
  canonical false false isrel_posix (clean false false isrel_posix p) = false.
Proof. exact clean_canonical_refuted_ob_newline. Qed.
Print Assumptions C19_clean_canonical_refuted_ob_newline.

(* Non-vacuity: the hypothesis is satisfiable and the results non-trivial. *)
Example C19_isrel_posix_ok : forall q, has_fs q = false -> isrel_posix q = true.
Proof. exact isrel_posix_ok. Qed.

(* " \Data\\Textures//white.dds<CR><LF>  " (the repository's own test) -> "textures\white.dds" *)
Example C19_clean_example :
  let p := [32; 92; 68; 97; 116; 97; 92; 92; 84; 101; 120; 116; 117; 114; 101; 115; 47; 47;
            119; 104; 105; 116; 101; 46; 100; 100; 115; 13; 10; 32; 32] in
  clean true false isrel_posix p =
    [116; 101; 120; 116; 117; 114; 101; 115; 92; 119; 104; 105; 116; 101; 46; 100; 100; 115] /\
  clean true true isrel_posix p =
    [68; 97; 116; 97; 92; 116; 101; 120; 116; 117; 114; 101; 115; 92; 119; 104; 105; 116; 101; 46; 100; 100; 115].
Proof. split; reflexivity. Qed.

(* the inputs of the repaired defects: "a/\b" -> "textures\a\b";
   terrain "Data\TEXTURES\a" and "Data\textures\textures\x" are left as they are *)
Example C19_repaired_examples :
  clean true false isrel_posix [97; 47; 92; 98] = [116; 101; 120; 116; 117; 114; 101; 115; 92; 97; 92; 98] /\
  (let q := [68; 97; 116; 97; 92; 84; 69; 88; 84; 85; 82; 69; 83; 92; 97] in clean true true isrel_posix q = q) /\
  (let q := [68; 97; 116; 97; 92; 116; 101; 120; 116; 117; 114; 101; 115; 92;
             116; 101; 120; 116; 117; 114; 101; 115; 92; 120] in clean true true isrel_posix q = q).
Proof. repeat split; reflexivity. Qed.

(* OB: a clean result outside the defect classes *)
Example C19_clean_ob_example :
  let p := [47; 97; 92; 116; 101; 120; 116; 117; 114; 101; 115; 92; 98; 46; 100; 100; 115] in
  clean false false isrel_posix p = [98; 46; 100; 100; 115] /\
  hd_space (clean false false isrel_posix p) = false /\
  contains_ci BTEX (clean false false isrel_posix p) = false.
Proof. repeat split; reflexivity. Qed.

(* MODEL ONLY: with a Windows-like is_relative (drive letters) the hypothesis on isrel fails and so
   does idempotence of the prefixing configuration *)
Example C19_idem_needs_isrel_hypothesis : exists p,
  clean true false isrel_drive (clean true false isrel_drive p) <> clean true false isrel_drive p.
Proof. exact clean_idem_needs_isrel_hyp. Qed.
