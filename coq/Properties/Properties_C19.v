(* C19 — Texture path clean-up is canonical and idempotent.
   Only statements, each closed by [exact] of a lemma proved in Path/PathProofs.v, and their
   assumptions. [clean np terrain isrel p] is the model of the lambda fTrimPath of
   NifFile::TrimTexturePaths (Path/PathModel.v); np = needs_prefix = not OB and not Special;
   [isrel] stands for std::filesystem's is_relative. All statements are for ALL byte lists.

   The full property is FALSE of the faithful model (and of the code): see the _refuted theorems.
   What holds is stated with the exact side conditions:
     mixed p = false      : p has no adjacent different separators ("/\" or "\/")
     isrel hypothesis     : every path without '/' is relative (libstdc++ on POSIX; Example below) *)
From NiflyVerif Require Import Res PathModel PathSpec PathProofs.
Local Open Scope N_scope.

(* (c) blank paths become empty: every configuration, any is_relative *)
Theorem C19_clean_blank : forall (isrel : list N -> bool) np terrain p,
  all_space p = true -> clean np terrain isrel p = [].
Proof. exact clean_blank. Qed.
Print Assumptions C19_clean_blank.

(* structure of every result: every configuration, any is_relative *)
Theorem C19_clean_no_slash : forall np terrain isrel p, has_fs (clean np terrain isrel p) = false.
Proof. exact clean_no_slash. Qed.
Print Assumptions C19_clean_no_slash.

Theorem C19_clean_no_trailing_ws : forall np terrain isrel p, last_space (clean np terrain isrel p) = false.
Proof. exact clean_no_trailing_ws. Qed.
Print Assumptions C19_clean_no_trailing_ws.

Theorem C19_clean_single_bs : forall np terrain isrel p,
  mixed p = false -> has_dbs (clean np terrain isrel p) = false.
Proof. exact clean_single_bs. Qed.
Print Assumptions C19_clean_single_bs.

Theorem C19_clean_no_leading_ws_prefixing : forall terrain isrel p,
  (forall q, has_fs q = false -> isrel q = true) ->
  hd_space (clean true terrain isrel p) = false.
Proof. exact clean_no_leading_ws_prefixing. Qed.
Print Assumptions C19_clean_no_leading_ws_prefixing.

(* (b) canonical form, prefixing games (FO3, SK, SSE, FO4, FO76, SF), terrain or not *)
Theorem C19_clean_canonical_prefixing : forall isrel,
  (forall q, has_fs q = false -> isrel q = true) ->
  forall terrain p, mixed p = false ->
  canonical true terrain isrel (clean true terrain isrel p) = true.
Proof. exact clean_canonical_prefixing. Qed.
Print Assumptions C19_clean_canonical_prefixing.

(* (a) idempotence, prefixing games, not terrain *)
Theorem C19_clean_idem_prefixing : forall isrel,
  (forall q, has_fs q = false -> isrel q = true) ->
  forall p, mixed p = false ->
  clean true false isrel (clean true false isrel p) = clean true false isrel p.
Proof. exact clean_idem_prefixing. Qed.
Print Assumptions C19_clean_idem_prefixing.

(* (a) idempotence, prefixing games, terrain: when the result reads Data\textures\<rest> with the
   literal lower-case folder name and <rest> does not start with textures\ again *)
Theorem C19_clean_idem_prefixing_terrain : forall isrel,
  (forall q, has_fs q = false -> isrel q = true) ->
  forall p, mixed p = false ->
  firstn 9 (skipn 5 (clean true true isrel p)) = TEX ->
  starts_ci TEX (skipn 14 (clean true true isrel p)) = false ->
  clean true true isrel (clean true true isrel p) = clean true true isrel p.
Proof. exact clean_idem_prefixing_terrain. Qed.
Print Assumptions C19_clean_idem_prefixing_terrain.

(* (a)+(b) OB / Special: idempotent and canonical exactly outside the two defect classes
   "result still contains \textures\" and "result starts with whitespace" *)
Theorem C19_clean_ob_outside_defects : forall isrel,
  (forall q, has_fs q = false -> isrel q = true) ->
  forall terrain p, mixed p = false ->
  hd_space (clean false terrain isrel p) = false ->
  contains_ci BTEX (clean false terrain isrel p) = false ->
  clean false terrain isrel (clean false terrain isrel p) = clean false terrain isrel p /\
  canonical false terrain isrel (clean false terrain isrel p) = true.
Proof. exact clean_ob_outside_defects. Qed.
Print Assumptions C19_clean_ob_outside_defects.

(* Refutations of the unconditional statements (POSIX is_relative); every witness is replayed on
   the real code by tools/props/c19.py (list WITNESSES). *)

(* OB / Special: "a\textures\b\textures\c.dds" -> "b\textures\c.dds" -> "c.dds" *)
Theorem C19_clean_idem_refuted_ob : exists p, mixed p = false /\
  clean false false isrel_posix (clean false false isrel_posix p) <> clean false false isrel_posix p.
Proof. exact clean_idem_refuted_ob. Qed.
Print Assumptions C19_clean_idem_refuted_ob.

Theorem C19_clean_canonical_refuted_ob : exists p, mixed p = false /\
  canonical false false isrel_posix (clean false false isrel_posix p) = false.
Proof. exact clean_canonical_refuted_ob. Qed.
Print Assumptions C19_clean_canonical_refuted_ob.

(* OB / Special terrain: "textures\a" -> "Data\textures\a" -> "Data\a" *)
Theorem C19_clean_idem_refuted_ob_terrain : exists p, mixed p = false /\
  clean false true isrel_posix (clean false true isrel_posix p) <> clean false true isrel_posix p.
Proof. exact clean_idem_refuted_ob_terrain. Qed.
Print Assumptions C19_clean_idem_refuted_ob_terrain.

(* OB / Special: "\ a" -> " a" -> "a": leading whitespace survives, not canonical, not idempotent *)
Theorem C19_clean_canonical_refuted_ob_ws : exists p, mixed p = false /\
  hd_space (clean false false isrel_posix p) = true /\
  canonical false false isrel_posix (clean false false isrel_posix p) = false /\
  clean false false isrel_posix (clean false false isrel_posix p) <> clean false false isrel_posix p.
Proof. exact clean_canonical_refuted_ob_ws. Qed.
Print Assumptions C19_clean_canonical_refuted_ob_ws.

(* OB / Special: a line terminator in front of \textures\ stops the search: "x<LF>\textures\a" stays *)
Theorem C19_clean_canonical_refuted_ob_newline : exists p, mixed p = false /\
  canonical false false isrel_posix (clean false false isrel_posix p) = false.
Proof. exact clean_canonical_refuted_ob_newline. Qed.
Print Assumptions C19_clean_canonical_refuted_ob_newline.

(* every configuration: "a/\b" -> "textures\a\\b" (double backslash) -> "textures\a\b" *)
Theorem C19_clean_idem_refuted_mixed : exists p,
  clean true false isrel_posix (clean true false isrel_posix p) <> clean true false isrel_posix p /\
  canonical true false isrel_posix (clean true false isrel_posix p) = false.
Proof. exact clean_idem_refuted_mixed. Qed.
Print Assumptions C19_clean_idem_refuted_mixed.

(* prefixing terrain: "textures\textures\x" -> "Data\textures\textures\x" -> "Data\textures\x" *)
Theorem C19_clean_idem_refuted_terrain : exists p, mixed p = false /\
  clean true true isrel_posix (clean true true isrel_posix p) <> clean true true isrel_posix p.
Proof. exact clean_idem_refuted_terrain. Qed.
Print Assumptions C19_clean_idem_refuted_terrain.

(* prefixing terrain: "TEXTURES\a" -> "Data\TEXTURES\a" -> "Data\textures\a" *)
Theorem C19_clean_idem_refuted_terrain_case : exists p, mixed p = false /\
  clean true true isrel_posix (clean true true isrel_posix p) <> clean true true isrel_posix p.
Proof. exact clean_idem_refuted_terrain_case. Qed.
Print Assumptions C19_clean_idem_refuted_terrain_case.

(* Non-vacuity: the hypotheses are satisfiable and the results non-trivial. *)
Example C19_isrel_posix_ok : forall q, has_fs q = false -> isrel_posix q = true.
Proof. exact isrel_posix_ok. Qed.

(* " \Data\\Textures//white.dds<CR><LF>  " (the repository's own test) -> "textures\white.dds" *)
Example C19_clean_example :
  let p := [32; 92; 68; 97; 116; 97; 92; 92; 84; 101; 120; 116; 117; 114; 101; 115; 47; 47;
            119; 104; 105; 116; 101; 46; 100; 100; 115; 13; 10; 32; 32] in
  mixed p = false /\
  clean true false isrel_posix p =
    [116; 101; 120; 116; 117; 114; 101; 115; 92; 119; 104; 105; 116; 101; 46; 100; 100; 115] /\
  canonical true false isrel_posix (clean true false isrel_posix p) = true /\
  clean true true isrel_posix p =
    [68; 97; 116; 97; 92; 116; 101; 120; 116; 117; 114; 101; 115; 92; 119; 104; 105; 116; 101; 46; 100; 100; 115] /\
  firstn 9 (skipn 5 (clean true true isrel_posix p)) = TEX /\
  starts_ci TEX (skipn 14 (clean true true isrel_posix p)) = false.
Proof. repeat split; reflexivity. Qed.

(* OB: a clean result outside the defect classes *)
Example C19_clean_ob_example :
  let p := [47; 97; 92; 116; 101; 120; 116; 117; 114; 101; 115; 92; 98; 46; 100; 100; 115] in
  mixed p = false /\ clean false false isrel_posix p = [98; 46; 100; 100; 115] /\
  hd_space (clean false false isrel_posix p) = false /\
  contains_ci BTEX (clean false false isrel_posix p) = false.
Proof. repeat split; reflexivity. Qed.

(* MODEL ONLY: with a Windows-like is_relative (drive letters) the hypothesis on isrel fails and so
   does idempotence of the prefixing configuration *)
Example C19_idem_needs_isrel_hypothesis : exists p, mixed p = false /\
  clean true false isrel_drive (clean true false isrel_drive p) <> clean true false isrel_drive p.
Proof. exact clean_idem_needs_isrel_hyp. Qed.
