(* C16 — truncated files never make the loader fault (the arithmetic part that a model can carry).
   The per-type programs are GENERATED from /repo on every run (coq/Gen/IRCur.v). *)
From NiflyVerif Require Import IR Exec IREq Total IRCur.
Local Open Scope N_scope.

(* soundness of the static check, for ALL programs of the IR: a program accepted by [stmt_total]
   never faults, in either mode, for any version triple, any header-string oracle and ANY state,
   in particular for any input byte string (every prefix of every file) *)
Theorem C16_total_sound : forall m v hs s st, stmt_total s = true -> exists st', exec m v hs s st = Ok st'.
Proof. exact exec_total. Qed.
Print Assumptions C16_total_sound.

(* per block type of the current tree: if the check accepts the generated program, reading any byte
   string into a freshly constructed object never faults *)
Theorem C16_block_never_faults : forall i b v hs bytes,
  In (i, b) IRCur.block_table -> block_total b = true ->
  exists st0 st, exec Wr v hs (fst b) (empty_state bytes) = Ok st0 /\ exec Rd v hs (snd b) st0 = Ok st.
Proof. intros i b v hs bytes _ H. exact (block_never_faults b v hs bytes H). Qed.
Print Assumptions C16_block_never_faults.

(* the block types for which the obligation [block_total] is discharged in this run (by computation on
   the regenerated IR); the check compares this list with the committed baseline *)
Definition C16_proved_ids : list N :=
  map fst (filter (fun x => block_total (snd x)) IRCur.block_table).
Eval vm_compute in C16_proved_ids.

(* non-vacuity: a program with a division by a loaded value is rejected, and really faults *)
Example C16_div_rejected :
  let s := SSeq (SSync 1 [] (PInt false 4)) (SLocal 1 (PInt false 4) (EBin Odiv (EConst 8) (ELoad 1 []))) in
  stmt_total s = false /\ exec Rd (mkVer 0 0 0) (fun _ => true) s (empty_state [0; 0; 0; 0]) = Fault.
Proof. split; reflexivity. Qed.
