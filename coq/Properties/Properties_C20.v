(* C20 — Transform algebra and bounding spheres obey their geometric laws.
   Only statements, each closed by [exact] of a lemma of Xform/XformProofs.v, and their assumptions.

   Scope (honest): every theorem is about the EXACT-ARITHMETIC model of Xform/XformModel.v, for
   every commutative field [K] ([is_field K] = Coq.setoid_ring's field_theory with Leibniz equality)
   and every element of it: no range restriction, no conditioning assumption.  IEEE-754 binary32
   rounding, sqrt/sin/cos/asin/acos, external/Miniball.hpp and every "within float tolerance" claim
   are outside the model; they are only exercised on the implementation by tools/props/c20.py.
   The instance that is extracted and run against the C++ is [QcOps] (canonical rationals), to which
   the theorems apply verbatim (C20_qc_* below).

   Not proved (tested on the implementation only): RotMatToVec o RotVecToMat = id below a half turn
   beyond its algebraic core (C20_rotvec_trace / C20_rotvec_axis / C20_rotvec_skew_zero /
   C20_rotvec_half_turn_sq); CalcAverageRotation / CalcMedianRotation on copies are proved for the
   two-pass SCHEME (C20_avg_rotation_of_copies, C20_median_rotation_of_copies) with RotMatToVec /
   RotVecToMat as parameters whose orthonormality and round trip on the rebased matrix are hypotheses, what Miniball.hpp actually returns
   (C20_meb_le_bbox is the mathematical fact about an ideal minimum enclosing ball), UpdateBounds. *)
From Coq Require Import List Permutation QArith Qcanon Lqa.
From NiflyVerif Require Import XformModel XformProofs XformBounds.
Import ListNotations.

(* ---- MatTransform::ApplyTransform / ComposeTransforms ---- *)

(* t1.ComposeTransforms(t2).ApplyTransform(v) = t1.ApplyTransform(t2.ApplyTransform(v)) *)
Theorem C20_apply_compose : forall (F : Type) (K : fops F), is_field K ->
  forall (t1 t2 : xform F) (v : vec3 F),
  xf_apply K (xf_compose K t1 t2) v = xf_apply K t1 (xf_apply K t2 v).
Proof. exact apply_compose. Qed.
Print Assumptions C20_apply_compose.

Theorem C20_compose_assoc : forall (F : Type) (K : fops F), is_field K ->
  forall t1 t2 t3 : xform F,
  xf_compose K (xf_compose K t1 t2) t3 = xf_compose K t1 (xf_compose K t2 t3).
Proof. exact compose_assoc. Qed.
Print Assumptions C20_compose_assoc.

(* ---- Matrix3::Invert ---- *)

(* Invert reports failure exactly when the determinant is zero ... *)
Theorem C20_invert_none_iff : forall (F : Type) (K : fops F),
  forall m : mat3 F, m3_invert K m = None <-> m3_det K m = f0 K.
Proof. exact invert_none_iff. Qed.
Print Assumptions C20_invert_none_iff.

(* ... and otherwise its result multiplies back to the identity on both sides *)
Theorem C20_invert_mul_id : forall (F : Type) (K : fops F), is_field K ->
  forall m mi : mat3 F,
  m3_invert K m = Some mi -> m3_mul K m mi = m3_id K /\ m3_mul K mi m = m3_id K.
Proof. exact invert_mul_id. Qed.
Print Assumptions C20_invert_mul_id.

Theorem C20_det_mul : forall (F : Type) (K : fops F), is_field K ->
  forall a b : mat3 F, m3_det K (m3_mul K a b) = fmul K (m3_det K a) (m3_det K b).
Proof. exact det_mul. Qed.
Print Assumptions C20_det_mul.

(* ---- MatTransform::InverseTransform ---- *)

(* composing a transform with its inverse gives the identity transform, componentwise *)
Theorem C20_compose_inverse : forall (F : Type) (K : fops F), is_field K ->
  forall t : xform F, m3_det K (rot t) <> f0 K -> scl t <> f0 K ->
  xf_compose K t (xf_inverse K t) = xf_id K.
Proof. exact compose_inverse. Qed.
Print Assumptions C20_compose_inverse.

Theorem C20_inverse_compose : forall (F : Type) (K : fops F), is_field K ->
  forall t : xform F, m3_det K (rot t) <> f0 K -> scl t <> f0 K ->
  xf_compose K (xf_inverse K t) t = xf_id K.
Proof. exact inverse_compose. Qed.
Print Assumptions C20_inverse_compose.

Theorem C20_inverse_apply : forall (F : Type) (K : fops F), is_field K ->
  forall (t : xform F) (v : vec3 F), m3_det K (rot t) <> f0 K -> scl t <> f0 K ->
  xf_apply K (xf_inverse K t) (xf_apply K t v) = v.
Proof. exact inverse_apply. Qed.
Print Assumptions C20_inverse_apply.

Theorem C20_apply_inverse : forall (F : Type) (K : fops F), is_field K ->
  forall (t : xform F) (v : vec3 F), m3_det K (rot t) <> f0 K -> scl t <> f0 K ->
  xf_apply K t (xf_apply K (xf_inverse K t) v) = v.
Proof. exact apply_inverse. Qed.
Print Assumptions C20_apply_inverse.

(* ---- MatTransform::ToMatrix, Matrix4 ---- *)

Theorem C20_to_matrix_apply : forall (F : Type) (K : fops F), is_field K ->
  forall (t : xform F) (v : vec3 F), m4_mulv K (xf_to_matrix K t) v = xf_apply K t v.
Proof. exact to_matrix_apply. Qed.
Print Assumptions C20_to_matrix_apply.

Theorem C20_to_matrix_compose : forall (F : Type) (K : fops F), is_field K ->
  forall t1 t2 : xform F,
  xf_to_matrix K (xf_compose K t1 t2) = m4_mul K (xf_to_matrix K t1) (xf_to_matrix K t2).
Proof. exact to_matrix_compose. Qed.
Print Assumptions C20_to_matrix_compose.

(* Matrix4::Inverse (Det, Get33, Det33, Adjoint transcribed literally): "matrix inversion
   multiplies back to the identity" for the 4x4 class as well *)
Theorem C20_inverse4_mul_id : forall (F : Type) (K : fops F), is_field K ->
  forall m mi : mat4 F,
  m4_inverse K m = Some mi -> m4_mul K m mi = m4_id K /\ m4_mul K mi m = m4_id K.
Proof. exact inverse4_mul_id. Qed.
Print Assumptions C20_inverse4_mul_id.

Theorem C20_inverse4_none_iff : forall (F : Type) (K : fops F),
  forall m : mat4 F, m4_inverse K m = None <-> m4_det K m = f0 K.
Proof. exact inverse4_none_iff. Qed.
Print Assumptions C20_inverse4_none_iff.

(* ---- RotVecToMat: entry formulas of Object3d.cpp:34-42 on a unit axis n and (c,s) on the unit
   circle (c = cos angle, s = sin angle: any angle) give an orthonormal matrix of determinant 1 ---- *)
Theorem C20_rotvec_orthonormal : forall (F : Type) (K : fops F), is_field K ->
  forall (n : vec3 F) (c s : F), unit_vec K n -> unit_circle K c s ->
  let m := rodrigues K n c s in
  m3_mul K m (m3_transpose m) = m3_id K /\ m3_mul K (m3_transpose m) m = m3_id K /\
  m3_det K m = f1 K.
Proof. exact rotvec_orthonormal. Qed.
Print Assumptions C20_rotvec_orthonormal.

(* the cancellation-avoiding formula used when cosang > .5 is the same matrix *)
Theorem C20_rotvec_alt_branch : forall (F : Type) (K : fops F), is_field K ->
  forall (n : vec3 F) (c s : F), unit_circle K c s -> fadd K (f1 K) c <> f0 K ->
  rodrigues_alt K n c s = rodrigues K n c s.
Proof. exact rodrigues_alt_eq. Qed.
Print Assumptions C20_rotvec_alt_branch.

(* algebraic core of RotMatToVec o RotVecToMat: the trace gives back cos(angle), the skew part
   gives back 2 sin(angle) * axis.  (asin/acos and the normalisation are not modelled.) *)
Theorem C20_rotvec_trace : forall (F : Type) (K : fops F), is_field K ->
  forall (n : vec3 F) (c s : F), unit_vec K n -> fadd K (f1 K) (f1 K) <> f0 K ->
  rot_cosang K (rodrigues K n c s) = c.
Proof. exact rotvec_trace. Qed.
Print Assumptions C20_rotvec_trace.

Theorem C20_rotvec_axis : forall (F : Type) (K : fops F), is_field K ->
  forall (n : vec3 F) (c s : F),
  rot_axis_raw K (rodrigues K n c s) = v3_lscale K (fmul K (fadd K (f1 K) (f1 K)) s) n.
Proof. exact rotvec_axis. Qed.
Print Assumptions C20_rotvec_axis.

(* ---- averages / medians of identical transforms (translation and scale parts) ---- *)

Theorem C20_average_of_copies_ts : forall (F : Type) (K : fops F), is_field K ->
  forall (t : xform F) (n : nat), fnat K n <> f0 K ->
  avg_trans K (repeat t n) = trans t /\ avg_scale K (repeat t n) = scl t.
Proof. exact average_of_copies_ts. Qed.
Print Assumptions C20_average_of_copies_ts.

(* CalcMedianOfFloats: std::nth_element permutes the data; on n copies of x every position holds x *)
Theorem C20_median_of_copies : forall (F : Type) (K : fops F),
  forall (x : F) (n : nat) (l : list F) (k : nat),
  Permutation l (repeat x n) -> (k < n)%nat -> nth k l (f0 K) = x.
Proof. exact median_of_copies. Qed.
Print Assumptions C20_median_of_copies.

Theorem C20_median_even_of_copies : forall (F : Type) (K : fops F), is_field K ->
  forall x : F, fadd K (f1 K) (f1 K) <> f0 K ->
  fdiv K (fadd K x x) (fadd K (f1 K) (f1 K)) = x.
Proof. exact median_even_of_copies. Qed.
Print Assumptions C20_median_even_of_copies.

(* ---- RotMatToVec's half-turn case (repair C20-rotmattovec-symmetric-half-turn): a vanishing skew
   part means sin(angle) = 0, and the diagonal minus cosang is (1-c)/2 times the squared axis ---- *)
Theorem C20_rotvec_skew_zero : forall (F : Type) (K : fops F), is_field K ->
  forall (n : vec3 F) (c s : F), unit_vec K n -> fadd K (f1 K) (f1 K) <> f0 K ->
  rot_axis_raw K (rodrigues K n c s) = v3_zero K -> s = f0 K.
Proof. exact rotvec_skew_zero. Qed.
Print Assumptions C20_rotvec_skew_zero.

Theorem C20_rotvec_half_turn_sq : forall (F : Type) (K : fops F), is_field K ->
  forall (n : vec3 F) (c s : F), unit_vec K n -> fadd K (f1 K) (f1 K) <> f0 K ->
  half_turn_sq K (rodrigues K n c s) =
  v3_scale K (V3 (fmul K (vx n) (vx n)) (fmul K (vy n) (vy n)) (fmul K (vz n) (vz n)))
             (fdiv K (fsub K (f1 K) c) (fadd K (f1 K) (f1 K))).
Proof. exact rotvec_half_turn_sq. Qed.
Print Assumptions C20_rotvec_half_turn_sq.

(* ---- CalcAverageRotation as REPAIRED (fix C20-average-rotation-overcorrects: sum2 / n): the average
   of n >= 1 copies of r is r, whatever base B the first pass produced, provided B is orthonormal and
   the rotation-vector round trip is exact on the rebased matrix B^T r.  m2v = RotMatToVec and
   v2m = RotVecToMat are parameters (not modelled). ---- *)
Theorem C20_avg_rotation_of_copies : forall (F : Type) (K : fops F), is_field K ->
  forall (m2v : mat3 F -> vec3 F) (v2m : vec3 F -> mat3 F) (r : mat3 F) (n : nat),
  n <> 0%nat -> fnat K n <> f0 K ->
  let B := v2m (m2v r) in
  m3_mul K B (m3_transpose B) = m3_id K ->
  v2m (m2v (m3_mul K (m3_transpose B) r)) = m3_mul K (m3_transpose B) r ->
  avg_rotation K m2v v2m (repeat r n) = r.
Proof. exact avg_rotation_of_copies. Qed.
Print Assumptions C20_avg_rotation_of_copies.

(* the code before the repair returned B * v2m(n * offset) instead: the offset that should cancel the
   error of the base was applied n times *)
Theorem C20_avg_rotation_unrepaired_of_copies : forall (F : Type) (K : fops F), is_field K ->
  forall (m2v : mat3 F -> vec3 F) (v2m : vec3 F -> mat3 F) (r : mat3 F) (n : nat),
  n <> 0%nat -> fnat K n <> f0 K ->
  let B := v2m (m2v r) in
  avg_rotation_unrepaired K m2v v2m (repeat r n) =
  m3_mul K B (v2m (v3_lscale K (fnat K n) (m2v (m3_mul K (m3_transpose B) r)))).
Proof. exact avg_rotation_unrepaired_of_copies. Qed.
Print Assumptions C20_avg_rotation_unrepaired_of_copies.

Theorem C20_median_rotation_of_copies : forall (F : Type) (K : fops F), is_field K ->
  forall (m2v : mat3 F -> vec3 F) (v2m : vec3 F -> mat3 F) (med : list F -> F) (r : mat3 F) (n : nat),
  n <> 0%nat -> fnat K n <> f0 K -> (forall x, med (repeat x n) = x) ->
  let B := v2m (m2v r) in
  m3_mul K B (m3_transpose B) = m3_id K ->
  v2m (m2v (m3_mul K (m3_transpose B) r)) = m3_mul K (m3_transpose B) r ->
  median_rotation K m2v v2m med (repeat r n) = r.
Proof. exact median_rotation_of_copies. Qed.
Print Assumptions C20_median_rotation_of_copies.

(* ---- bounding spheres: the ideal result (rationals, squared distances) ----
   the ball around the bounding-box centre with radius half the diagonal encloses every point ... *)
Theorem C20_bbox_ball_encloses : forall (p0 : pt) (l : list pt),
  encloses (bbox_center p0 l) (bbox_half_diag2 p0 l) (p0 :: l).
Proof. exact bbox_ball_encloses. Qed.
Print Assumptions C20_bbox_ball_encloses.

(* ... hence a minimum enclosing ball of a non-empty point list (duplicates, collinear, single points
   allowed) contains every point and has squared radius <= the squared half diagonal *)
Theorem C20_meb_le_bbox : forall (c : pt) (r2 : Q) (p0 : pt) (l : list pt),
  is_meb c r2 (p0 :: l) -> encloses c r2 (p0 :: l) /\ (r2 <= bbox_half_diag2 p0 l)%Q.
Proof. exact meb_le_bbox. Qed.
Print Assumptions C20_meb_le_bbox.

(* ---- the executed instance is a field: the theorems above speak about the extracted code ---- *)
Theorem C20_qc_is_field : is_field QcOps.
Proof. exact Qcft. Qed.
Print Assumptions C20_qc_is_field.

Theorem C20_qc_compose_inverse : forall t : xform Qc,
  qc_det3 (rot t) <> 0%Qc -> scl t <> 0%Qc ->
  qc_compose t (qc_inverse t) = xf_id QcOps /\ qc_compose (qc_inverse t) t = xf_id QcOps /\
  forall v, qc_apply (qc_inverse t) (qc_apply t v) = v.
Proof.
  exact (fun t Hd Hs => conj (compose_inverse Qc QcOps Qcft t Hd Hs)
    (conj (inverse_compose Qc QcOps Qcft t Hd Hs) (fun v => inverse_apply Qc QcOps Qcft t v Hd Hs))).
Qed.
Print Assumptions C20_qc_compose_inverse.

(* ---- Non-vacuity: a concrete well-conditioned transform meeting every hypothesis ----
   rotation by the 3-4-5 angle about z (cos = 3/5, sin = 4/5), scale 2, translation (1,-2,3). *)
Definition ex_q (a : Z) (b : positive) : Qc := qc_make a b.
Definition ex_axis : vec3 Qc := V3 (ex_q 0 1) (ex_q 0 1) (ex_q 1 1).
Definition ex_rot : mat3 Qc := rodrigues QcOps ex_axis (ex_q 3 5) (ex_q 4 5).
Definition ex_t : xform Qc := XF ex_rot (V3 (ex_q 1 1) (ex_q (-2) 1) (ex_q 3 1)) (ex_q 2 1).

Example C20_example_hyps :
  unit_vec QcOps ex_axis /\ unit_circle QcOps (ex_q 3 5) (ex_q 4 5) /\
  m3_det QcOps (rot ex_t) <> 0%Qc /\ scl ex_t <> 0%Qc /\ fnat QcOps 3 <> 0%Qc /\
  fadd QcOps 1%Qc 1%Qc <> 0%Qc.
Proof.
  repeat split; try (apply Qc_is_canon; reflexivity);
    intro H; apply (f_equal this) in H; vm_compute in H; discriminate.
Qed.

Example C20_example_values :
  map this [r00 ex_rot; r01 ex_rot; r10 ex_rot; r11 ex_rot; r22 ex_rot]
    = [3 # 5; 4 # 5; -4 # 5; 3 # 5; 1 # 1]%Q /\
  (let p := xf_apply QcOps ex_t (V3 (ex_q 5 1) (ex_q 0 1) (ex_q 1 1)) in
   map this [vx p; vy p; vz p] = [7 # 1; -10 # 1; 5 # 1]%Q) /\
  (let i := xf_inverse QcOps ex_t in
   map this [scl i; vx (trans i); vy (trans i); vz (trans i)] = [1 # 2; -11 # 10; 1 # 5; -3 # 2]%Q) /\
  m3_invert QcOps (M3 1 1 1 1 1 1 1 1 1)%Qc = None.
Proof. vm_compute. repeat split. Qed.

(* a minimum enclosing ball exists for a concrete set: {(0,0,0), (2,0,0), (2,0,0)} -> centre (1,0,0), r^2 = 1 *)
Example C20_meb_example : is_meb (1, 0, 0)%Q 1%Q [(0, 0, 0); (2, 0, 0); (2, 0, 0)]%Q.
Proof.
  split.
  - intros p [<-|[<-|[<-|[]]]]; unfold dist2; cbn; discriminate.
  - intros [[x y] z] r2' H.
    pose proof (H (0, 0, 0)%Q (or_introl eq_refl)) as H0.
    pose proof (H (2, 0, 0)%Q (or_intror (or_introl eq_refl))) as H2.
    unfold dist2 in H0, H2; cbn [px py pz fst snd] in H0, H2.
    pose proof (Qsquare_nonneg (x - 1)) as Sx. pose proof (Qsquare_nonneg y) as Sy.
    pose proof (Qsquare_nonneg z) as Sz.
    Lqa.lra.
Qed.

(* the hypotheses of C20_avg_rotation_of_copies are satisfiable with a non-trivial rotation: maps that
   are exact on the data at hand (m2v tags a matrix by its first row, v2m returns the 3-4-5 rotation for
   that tag and the identity otherwise) *)
Definition ex_m2v (m : mat3 Qc) : vec3 Qc := V3 (r00 m) (r01 m) (r02 m).
Definition ex_v2m (v : vec3 Qc) : mat3 Qc :=
  if Qc_eq_dec (vx v) (ex_q 3 5) then ex_rot else m3_id QcOps.

Example C20_avg_rotation_example :
  ex_v2m (ex_m2v ex_rot) = ex_rot /\
  m3_mul QcOps ex_rot (m3_transpose ex_rot) = m3_id QcOps /\
  ex_v2m (ex_m2v (m3_mul QcOps (m3_transpose ex_rot) ex_rot)) = m3_mul QcOps (m3_transpose ex_rot) ex_rot /\
  avg_rotation QcOps ex_m2v ex_v2m (repeat ex_rot 3) = ex_rot.
Proof.
  assert (HB : ex_v2m (ex_m2v ex_rot) = ex_rot).
  { unfold ex_v2m, ex_m2v. cbn [vx]. destruct (Qc_eq_dec _ _) as [|N]; [reflexivity|].
    exfalso; apply N; apply Qc_is_canon; reflexivity. }
  destruct (rotvec_orthonormal Qc QcOps Qcft ex_axis (ex_q 3 5) (ex_q 4 5)) as [Ho [Ho' _]];
    try (apply Qc_is_canon; reflexivity).
  fold ex_rot in Ho, Ho'.
  assert (Hrt : ex_v2m (ex_m2v (m3_mul QcOps (m3_transpose ex_rot) ex_rot)) = m3_mul QcOps (m3_transpose ex_rot) ex_rot).
  { rewrite Ho'. unfold ex_v2m, ex_m2v. cbn [vx r00 m3_id]. destruct (Qc_eq_dec _ _) as [E|]; [|reflexivity].
    exfalso. apply (f_equal this) in E. vm_compute in E. discriminate. }
  repeat split; try assumption.
  pose proof (avg_rotation_of_copies Qc QcOps Qcft ex_m2v ex_v2m ex_rot 3) as H.
  cbv zeta in H. rewrite HB in H. apply H; try assumption; try discriminate.
Qed.
