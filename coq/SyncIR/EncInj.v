(* The index-vector encoding of Exec.enc_key is injective: two different index vectors of one field name
   never denote the same store key. *)
From NiflyVerif Require Import IR Exec.
Local Open Scope N_scope.

(* the code of a number as a list of bits, most significant pair first as it is appended to the accumulator *)
Fixpoint bits_p (p : positive) : list bool :=
  match p with
  | xH => [false; true]
  | xO q => true :: false :: bits_p q
  | xI q => true :: true :: bits_p q
  end.
Definition bits_n (n : N) : list bool := match n with N0 => [false; false] | Npos p => bits_p p end.

Definition push (acc : positive) (b : bool) : positive := if b then xI acc else xO acc.
Definition pushes (acc : positive) (bs : list bool) : positive := fold_left push bs acc.

Lemma enc_p_pushes : forall p acc, enc_p p acc = pushes acc (bits_p p).
Proof. induction p; intros acc; cbn [enc_p bits_p pushes fold_left push]; try rewrite IHp; reflexivity. Qed.

Lemma enc_n_pushes n acc : enc_n n acc = pushes acc (bits_n n).
Proof. destruct n; cbn [enc_n bits_n]; [reflexivity|apply enc_p_pushes]. Qed.

Lemma pushes_app acc a b : pushes acc (a ++ b) = pushes (pushes acc a) b.
Proof. unfold pushes. apply fold_left_app. Qed.

Lemma fold_enc l : forall acc, fold_left (fun acc n => enc_n n acc) l acc = pushes acc (concat (map bits_n l)).
Proof.
  induction l as [|n r IH]; intros acc; cbn [fold_left map concat]; [reflexivity|].
  rewrite IH, enc_n_pushes, pushes_app. reflexivity.
Qed.

(* pushing bits is injective in the bit list (same start) *)
Lemma push_inj a b x y : push a x = push b y -> a = b /\ x = y.
Proof. destruct x, y; cbn; intros H; inversion H; auto. Qed.

Lemma pushes_length_inj : forall bs1 bs2 acc, length bs1 = length bs2 -> pushes acc bs1 = pushes acc bs2 -> bs1 = bs2.
Proof.
  intros bs1 bs2 acc Hl. revert bs2 Hl acc.
  induction bs1 as [|b r IH] using rev_ind; intros bs2 Hl acc H.
  - destruct bs2; [reflexivity|discriminate].
  - destruct bs2 as [|c s] using rev_ind; [rewrite app_length in Hl; cbn in Hl; lia|].
    rewrite !pushes_app in H. cbn [pushes fold_left] in H. apply push_inj in H. destruct H as [H1 H2].
    rewrite !app_length in Hl. cbn in Hl. f_equal; [|congruence]. eapply IH; [lia|exact H1].
Qed.

Lemma pushes_size acc bs : Pos.size_nat (pushes acc bs) = (Pos.size_nat acc + length bs)%nat.
Proof.
  revert acc. induction bs as [|b r IH]; intros acc; cbn [pushes fold_left length]; [lia|].
  change (fold_left push r (push acc b)) with (pushes (push acc b) r). rewrite IH. destruct b; cbn; lia.
Qed.

Lemma pushes_inj acc bs1 bs2 : pushes acc bs1 = pushes acc bs2 -> bs1 = bs2.
Proof.
  intros H. apply (pushes_length_inj bs1 bs2 acc); [|exact H].
  pose proof (f_equal Pos.size_nat H) as Hs. rewrite !pushes_size in Hs. lia.
Qed.

(* the codes are prefix-free: unique decoding *)
Lemma bits_p_prefix : forall p q r1 r2, bits_p p ++ r1 = bits_p q ++ r2 -> p = q /\ r1 = r2.
Proof.
  induction p; intros q r1 r2 H; destruct q; cbn [bits_p app] in H; inversion H; subst;
    try (destruct (IHp _ _ _ H1) as [-> ->]; auto); auto.
Qed.

Lemma bits_n_prefix a b r1 r2 : bits_n a ++ r1 = bits_n b ++ r2 -> a = b /\ r1 = r2.
Proof.
  destruct a as [|p], b as [|q]; cbn [bits_n]; intros H.
  - inversion H. auto.
  - destruct q; cbn in H; inversion H.
  - destruct p; cbn in H; inversion H.
  - destruct (bits_p_prefix p q r1 r2 H) as [-> ->]. auto.
Qed.

Lemma concat_bits_inj : forall l1 l2, concat (map bits_n l1) = concat (map bits_n l2) -> l1 = l2.
Proof.
  induction l1 as [|a r IH]; intros l2 H; destruct l2 as [|b s]; cbn [map concat] in H.
  - reflexivity.
  - destruct b as [|q]; [|destruct q]; cbn in H; discriminate.
  - destruct a as [|p]; [|destruct p]; cbn in H; discriminate.
  - destruct (bits_n_prefix a b _ _ H) as [-> Hr]. f_equal. apply IH. exact Hr.
Qed.

Theorem enc_key_inj f l1 l2 : enc_key f l1 = enc_key f l2 -> l1 = l2.
Proof.
  unfold enc_key. intros H. inversion H as [H1]. rewrite !fold_enc in H1.
  apply pushes_inj in H1. apply concat_bits_inj. exact H1.
Qed.

Lemma skey_eqb_enc f l1 l2 : skey_eqb (enc_key f l1) (enc_key f l2) = true -> l1 = l2.
Proof.
  unfold skey_eqb. intros H. apply andb_prop in H. destruct H as [_ H2]. apply Pos.eqb_eq in H2.
  apply (enc_key_inj f). unfold enc_key. f_equal. exact H2.
Qed.
