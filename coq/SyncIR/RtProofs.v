(* Soundness of the round-trip check: a program accepted by [chk], run in write mode on any object and
   then in read mode on the bytes it produced, consumes exactly those bytes and ends with an object that
   agrees with the written one on everything that is agreed. *)
From NiflyVerif Require Import IR Exec IREq Refs RtDefs.
From Coq Require Import FMapPositive Lia ZifyBool ZifyNat ZifyN.
Local Open Scope N_scope.

(* ---------------------------------------------------------------------------------------------- *)
(* state accessors under the primitive updates *)
Lemma skey_eqb_refl k : skey_eqb k k = true.
Proof. unfold skey_eqb. rewrite !Pos.eqb_refl. reflexivity. Qed.

Lemma find2_add2 {A} (m : PM.t (PM.t A)) k a k' :
  find2 (add2 m k a) k' = if skey_eqb k' k then Some a else find2 m k'.
Proof.
  unfold find2, add2, skey_eqb. destruct k as [kf ki], k' as [kf' ki']. cbn [fst snd].
  destruct (Pos.eqb_spec kf' kf) as [->|Hf]; cbn [andb].
  - rewrite PM.gss. destruct (Pos.eqb_spec ki' ki) as [->|Hi].
    + rewrite PM.gss. reflexivity.
    + rewrite PM.gso by exact Hi. destruct (PM.find kf m); [reflexivity|]. apply PM.gempty.
  - rewrite PM.gso by exact Hf. reflexivity.
Qed.

Lemma get_set_int st k z k' : get_int (set_int st k z) k' = if skey_eqb k' k then z else get_int st k'.
Proof. unfold get_int, set_int. cbn [ints]. rewrite find2_add2. destruct (skey_eqb k' k); reflexivity. Qed.

Lemma get_set_size st k n k' : get_size (set_size st k n) k' = if skey_eqb k' k then n else get_size st k'.
Proof. unfold get_size, set_size. cbn [sizes]. rewrite find2_add2. destruct (skey_eqb k' k); reflexivity. Qed.

(* instances of different field names never collide *)
Lemma skey_eqb_names f i g j : f <> g -> skey_eqb (enc_key f i) (enc_key g j) = false.
Proof.
  intros H. unfold skey_eqb, enc_key. cbn [fst snd].
  destruct (Pos.eqb_spec (N.succ_pos f) (N.succ_pos g)) as [E|_]; [|reflexivity].
  exfalso. apply H. rewrite <- (N.pos_pred_succ f), <- (N.pos_pred_succ g), E. reflexivity.
Qed.

Lemma assoc_get_set l x v y : assoc_get (assoc_set l x v) y = if y =? x then v else assoc_get l y.
Proof.
  induction l as [|[a b] l IH]; cbn [assoc_set assoc_get].
  - destruct (N.eqb_spec y x); reflexivity.
  - destruct (N.eqb_spec x a) as [->|Hxa]; cbn [assoc_get].
    + destruct (N.eqb_spec y a); reflexivity.
    + destruct (N.eqb_spec y a) as [->|Hya].
      * destruct (N.eqb_spec a x); [congruence|reflexivity].
      * exact IH.
Qed.

Lemma get_set_local st x v y : get_local (set_local st x v) y = if y =? x then v else get_local st y.
Proof. unfold get_local, set_local. cbn [locals]. apply assoc_get_set. Qed.

(* the input side of a state is consistent *)
Definition wfio (st : state) : Prop := remaining st = N.of_nat (length (inp st)) /\ eof st = false.

Lemma read_exact st e rest :
  wfio st -> inp st = e ++ rest ->
  exists st1, read st (N.of_nat (length e)) = (e, st1) /\ inp st1 = rest /\ wfio st1 /\
              ints st1 = ints st /\ blobs st1 = blobs st /\ sizes st1 = sizes st /\ locals st1 = locals st /\ out st1 = out st.
Proof.
  intros [Hr He] Hi. unfold read. rewrite He.
  assert (Hle : N.of_nat (length e) <=? remaining st = true).
  { rewrite Hr, Hi, app_length. apply N.leb_le. lia. }
  rewrite Hle. rewrite Nat2N.id, Hi.
  rewrite firstn_app, Nat.sub_diag, firstn_all. cbn [firstn]. rewrite app_nil_r.
  rewrite skipn_app, Nat.sub_diag, skipn_all. cbn [skipn app].
  eexists. split; [reflexivity|]. cbn [inp remaining eof ints blobs sizes locals out].
  repeat split; try reflexivity.
  cbn [remaining inp]. rewrite Hr, Hi, app_length. lia.
Qed.

Lemma overlay_full n got old : length got = n -> overlay n got old = got.
Proof.
  intros H. unfold overlay. rewrite skipn_all2 by (rewrite firstn_length; lia).
  rewrite app_nil_r. rewrite <- H. apply firstn_all.
Qed.

Lemma le_bytes_length : forall w z, length (le_bytes w z) = w.
Proof. induction w as [|w IH]; intros z; cbn; [reflexivity|]. rewrite IH. reflexivity. Qed.

(* ---------------------------------------------------------------------------------------------- *)
(* agreement *)
Lemma akey_eqb_eq a b : akey_eqb a b = true -> a = b.
Proof.
  destruct a, b; cbn; try discriminate; intros H.
  - apply andb_prop in H. destruct H as [H1 H2]. apply N.eqb_eq in H1. apply idx_eqb_eq in H2. congruence.
  - apply andb_prop in H. destruct H as [H1 H2]. apply N.eqb_eq in H1. apply idx_eqb_eq in H2. congruence.
  - apply andb_prop in H. destruct H as [H1 H2]. apply N.eqb_eq in H1. apply idx_eqb_eq in H2. congruence.
  - apply N.eqb_eq in H. congruence.
Qed.

Lemma amem_in a A : amem a A = true -> In a A.
Proof.
  unfold amem. rewrite existsb_exists. intros (b & Hb & He). apply akey_eqb_eq in He. subst. exact Hb.
Qed.

Lemma iexpr_eqb_refl i : iexpr_eqb i i = true.
Proof. destruct i; cbn; apply N.eqb_refl. Qed.
Lemma idx_eqb_refl l : idx_eqb l l = true.
Proof. induction l as [|x r IH]; cbn; [reflexivity|]. rewrite iexpr_eqb_refl, IH. reflexivity. Qed.
Lemma akey_eqb_refl a : akey_eqb a a = true.
Proof. destruct a; cbn; rewrite ?N.eqb_refl, ?idx_eqb_refl; reflexivity. Qed.

Lemma in_amem a A : In a A -> amem a A = true.
Proof. intros H. unfold amem. apply existsb_exists. exists a. split; [exact H|apply akey_eqb_refl]. Qed.

Definition key (st : state) (f : name) (idx : list iexpr) : skey := enc_key f (eval_idx st idx).

Record agree (A : list akey) (sw sr : state) : Prop := mkAgree {
  ag_local : forall x, In (ALocal x) A -> get_local sw x = get_local sr x;
  ag_int : forall f idx, In (AInt f idx) A -> idx_agreed A idx = true ->
                         get_int sw (key sw f idx) = get_int sr (key sr f idx);
  ag_size : forall f idx, In (ASize f idx) A -> idx_agreed A idx = true ->
                          get_size sw (key sw f idx) = get_size sr (key sr f idx);
  ag_blob : forall f idx, In (ABlob f idx) A -> idx_agreed A idx = true ->
                          get_blob sw (key sw f idx) = get_blob sr (key sr f idx)
}.

Lemma idx_agreed_eval A sw sr idx :
  agree A sw sr -> idx_agreed A idx = true -> eval_idx sw idx = eval_idx sr idx.
Proof.
  intros Hag. unfold idx_agreed, eval_idx. induction idx as [|i r IH]; cbn [forallb map]; intros H; [reflexivity|].
  apply andb_prop in H. destruct H as [H1 H2]. f_equal; [|auto].
  destruct i as [n|x]; cbn [eval_i]; [reflexivity|].
  rewrite (ag_local A sw sr Hag x (amem_in _ _ H1)). reflexivity.
Qed.

Lemma key_agreed A sw sr f idx : agree A sw sr -> idx_agreed A idx = true -> key sw f idx = key sr f idx.
Proof. intros Ha Hi. unfold key. rewrite (idx_agreed_eval A sw sr idx Ha Hi). reflexivity. Qed.

(* monotonicity of idx_agreed and agree in the agreed set *)
Lemma idx_agreed_mono A B idx : (forall a, In a A -> In a B) -> idx_agreed A idx = true -> idx_agreed B idx = true.
Proof.
  intros Hs. unfold idx_agreed. rewrite !forallb_forall. intros H i Hi. specialize (H i Hi).
  destruct i; [reflexivity|]. apply in_amem. apply Hs. apply amem_in. exact H.
Qed.

(* the subset must not lose index variables that tokens of the smaller set need: a token of B whose
   indices are agreed in B has them agreed in A as well (A is larger) *)
Lemma agree_subset A B sw sr : (forall a, In a B -> In a A) -> agree A sw sr -> agree B sw sr.
Proof.
  intros Hs [Hl Hi Hz Hb]. constructor.
  - intros x Hx. apply Hl. auto.
  - intros f idx Hf Hidx. apply Hi; [auto|]. eapply idx_agreed_mono; eauto.
  - intros f idx Hf Hidx. apply Hz; [auto|]. eapply idx_agreed_mono; eauto.
  - intros f idx Hf Hidx. apply Hb; [auto|]. eapply idx_agreed_mono; eauto.
Qed.

Lemma asubset_in A B : asubset A B = true -> forall a, In a A -> In a B.
Proof. unfold asubset. rewrite forallb_forall. intros H a Ha. apply amem_in. auto. Qed.

Lemma ainter_in_l A B a : In a (ainter A B) -> In a A.
Proof. unfold ainter. rewrite filter_In. tauto. Qed.
Lemma ainter_in_r A B a : In a (ainter A B) -> In a B.
Proof. unfold ainter. rewrite filter_In. intros [_ H]. apply amem_in. exact H. Qed.

Lemma aadd_in a A b : In b (aadd a A) -> b = a \/ In b A.
Proof. unfold aadd. destruct (amem a A); [auto|]. intros [H|H]; auto. Qed.
Lemma in_aadd_old a A b : In b A -> In b (aadd a A).
Proof. unfold aadd. destruct (amem a A); [auto|]. intros H. right. exact H. Qed.
Lemma in_aadd_new a A : In a (aadd a A).
Proof. unfold aadd. destruct (amem a A) eqn:E; [apply amem_in; exact E|left; reflexivity]. Qed.

Lemma akill_in x A a : In a (akill x A) -> In a A.
Proof. unfold akill. rewrite filter_In. tauto. Qed.

(* ---------------------------------------------------------------------------------------------- *)
(* expressions over agreed data evaluate alike in the two runs *)
Section Rt.
  Variable v : version.
  Variable hs : Z -> bool.

  Lemma reads_ok_eval A sw sr : agree A sw sr -> forall e, reads_ok A e = true ->
    eval Wr v hs sw e = eval Rd v hs sr e.
  Proof.
    intros Hag. induction e; cbn [reads_ok]; intros H; try discriminate; cbn [eval].
    - reflexivity.
    - apply andb_prop in H. destruct H as [H1 H2]. f_equal.
      exact (ag_int A sw sr Hag f idx (amem_in _ _ H1) H2).
    - apply andb_prop in H. destruct H as [H1 H2]. f_equal. f_equal.
      exact (ag_size A sw sr Hag f idx (amem_in _ _ H1) H2).
    - f_equal. apply (ag_local A sw sr Hag). apply amem_in. exact H.
    - destruct v0; reflexivity.
    - apply andb_prop in H. destruct H as [H1 H2].
      destruct o; cbn [eval]; rewrite (IHe1 H1); destruct (eval Rd v hs sr e1); cbn [bind]; try reflexivity;
        try (rewrite (IHe2 H2); reflexivity);
        destruct (Z.eqb t 0); try reflexivity; rewrite (IHe2 H2); reflexivity.
    - destruct o; cbn [eval]; rewrite (IHe H); reflexivity.
    - rewrite (IHe H). reflexivity.
    - apply andb_prop in H. destruct H as [H H3]. apply andb_prop in H. destruct H as [H1 H2].
      rewrite (IHe1 H1). destruct (eval Rd v hs sr e1); cbn [bind]; try reflexivity.
      destruct (Z.eqb t 0); auto.
  Qed.

  (* ---- the statement of the round trip, for one program ---- *)
  (* [sw'] is the writer's final state, [extra] what it appended (in stream order) *)
  Definition wrote (sw sw' : state) (extra : list N) : Prop := out sw' = rev extra ++ out sw.

  Definition rt_ok0 (s : stmt) (A A' : list akey) : Prop :=
    forall sw sw', exec Wr v hs s sw = Ok sw' ->
    exists extra, wrote sw sw' extra /\
      forall sr rest, agree A sw sr -> wfio sr -> inp sr = extra ++ rest ->
      exists sr', exec Rd v hs s sr = Ok sr' /\ inp sr' = rest /\ wfio sr' /\ agree A' sw' sr'.

  (* the same, for writers that finish without the long-inline-string flag *)
  Definition rt_ok (s : stmt) (A A' : list akey) : Prop :=
    forall sw sw', exec Wr v hs s sw = Ok sw' -> warn sw' = false ->
    exists extra, wrote sw sw' extra /\
      forall sr rest, agree A sw sr -> wfio sr -> inp sr = extra ++ rest ->
      exists sr', exec Rd v hs s sr = Ok sr' /\ inp sr' = rest /\ wfio sr' /\ agree A' sw' sr'.

  Lemma rt_ok0_ok s A A' : rt_ok0 s A A' -> rt_ok s A A'.
  Proof. intros H sw sw' Hx _. exact (H sw sw' Hx). Qed.

  (* ---- the flag is never reset by a writer ---- *)
  Lemma warn_sync_int_w st k p n : warn (sync_int Wr st k p n) = warn st.
  Proof. unfold sync_int. destruct (n =? prim_width p); reflexivity. Qed.

  Lemma warn_compact fidx i : forall fuel st src dst n, warn (compact_refs fuel st fidx i src dst n) = warn st.
  Proof.
    induction fuel as [|fuel IH]; intros st src dst n; cbn [compact_refs]; [reflexivity|].
    destruct (src <? n); [|reflexivity].
    destruct (Z.eqb _ NPOSZ); rewrite IH; reflexivity.
  Qed.

  Lemma warn_clean st a b c d i : warn (clean_refs st a b c d i) = warn st.
  Proof.
    unfold clean_refs. destruct (Z.eqb _ 0); [|reflexivity]. cbv zeta. cbn [warn set_int set_size].
    apply warn_compact.
  Qed.

  Lemma warn_set_int st k z : warn (set_int st k z) = warn st. Proof. reflexivity. Qed.
  Lemma warn_set_size st k z : warn (set_size st k z) = warn st. Proof. reflexivity. Qed.
  Lemma warn_set_blob st k z : warn (set_blob st k z) = warn st. Proof. reflexivity. Qed.
  Lemma warn_set_local st k z : warn (set_local st k z) = warn st. Proof. reflexivity. Qed.
  Lemma warn_emit st b : warn (emit st b) = warn st. Proof. reflexivity. Qed.
  Lemma warn_log_ref st k : warn (log_ref st k) = warn st. Proof. reflexivity. Qed.
  Lemma warn_sync_blob_w st k n : warn (sync_blob Wr st k n) = warn st. Proof. reflexivity. Qed.
  Lemma warn_set_warn st b : warn (set_warn st b) = (warn st || b)%bool. Proof. reflexivity. Qed.

  Lemma warn_iter body x
        (IH : forall st st', exec Wr v hs body st = Ok st' -> warn st = true -> warn st' = true) :
    forall n st p, N.iter n (fun acc => bind acc (fun p => let '(i, s) := p in
                  bind (exec Wr v hs body (set_local s x (Z.of_N i))) (fun s' => Ok (i + 1, s')))) (Ok (0, st)) = Ok p ->
              warn st = true -> warn (snd p) = true.
  Proof.
    induction n as [|n IHn] using N.peano_ind; intros st p H Hw.
    - cbn in H. inversion H; subst. exact Hw.
    - rewrite N.iter_succ in H.
      destruct (N.iter n _ (Ok (0, st))) as [[j t]| |] eqn:E; cbn [bind] in H; try discriminate.
      destruct (exec Wr v hs body (set_local t x (Z.of_N j))) as [t'| |] eqn:Eb; cbn [bind] in H; try discriminate.
      inversion H; subst p. cbn [snd]. eapply IH; [exact Eb|]. exact (IHn st (j, t) E Hw).
  Qed.

  Lemma warn_mono : forall s st st', exec Wr v hs s st = Ok st' -> warn st = true -> warn st' = true.
  Proof.
    Local Ltac wrw := repeat first [rewrite warn_sync_int_w | rewrite warn_clean | rewrite warn_sync_blob_w | rewrite warn_set_warn
                              | rewrite warn_emit | rewrite warn_log_ref | rewrite warn_set_local | rewrite warn_set_size
                              | rewrite warn_set_blob | rewrite warn_set_int].
    Local Ltac okinj H := match type of H with Ok ?X = Ok ?y => let E := fresh in assert (E : y = X) by congruence; subst y; clear H end.
    induction s; intros st st' H Hw; cbn [exec] in H; cbv zeta in H;
      try (okinj H; wrw; exact Hw).
    - destruct (exec Wr v hs s1 st) as [st1| |] eqn:E1; cbn [bind] in H; try discriminate. eauto.
    - destruct (eval Wr v hs st c) as [z| |]; cbn [bind] in H; try discriminate.
      destruct (Z.eqb z 0); eauto.
    - destruct (eval Wr v hs st n) as [z| |]; cbn [bind] in H; try discriminate.
      okinj H. wrw. exact Hw.
    - destruct (get_size st _ =? 0); okinj H; [exact Hw|]. wrw. exact Hw.
    - destruct (Z.ltb (vfile v) V20_1_0_3); okinj H; wrw; [rewrite Hw; reflexivity|exact Hw].
    - destruct (eval Wr v hs st n) as [z| |]; cbn [bind] in H; try discriminate. okinj H. exact Hw.
    - destruct (eval Wr v hs st n) as [z| |]; cbn [bind] in H; try discriminate.
      unfold iter_loop in H.
      destruct (N.iter (Z.to_N z) _ (Ok (0, st))) as [p| |] eqn:E; cbn [bind] in H; try discriminate.
      okinj H. eapply warn_iter; [exact IHs|exact E|exact Hw].
    - destruct (eval Wr v hs st e) as [z| |]; cbn [bind] in H; try discriminate. okinj H. exact Hw.
    - destruct (eval Wr v hs st e) as [z| |]; cbn [bind] in H; try discriminate. okinj H. exact Hw.
    - discriminate.
  Qed.

  Lemma wrote_refl sw : wrote sw sw [].
  Proof. reflexivity. Qed.

  Lemma wrote_trans a b c e1 e2 : wrote a b e1 -> wrote b c e2 -> wrote a c (e1 ++ e2).
  Proof. unfold wrote. intros H1 H2. rewrite H2, H1, rev_app_distr, app_assoc. reflexivity. Qed.

  (* a state change that touches neither the stream nor anything agreed *)
  Lemma agree_set_int_both A sw sr f idx z :
    agree A sw sr -> idx_agreed A idx = true ->
    agree (aadd (AInt f idx) A) (set_int sw (key sw f idx) z) (set_int sr (key sr f idx) z).
  Proof.
    intros Hag Hidx.
    assert (Hk : key sw f idx = key sr f idx) by (eapply key_agreed; eauto).
    constructor.
    - intros x Hx. apply aadd_in in Hx. destruct Hx as [Hx|Hx]; [discriminate|].
      unfold get_local, set_int. cbn [locals]. apply (ag_local A sw sr Hag x Hx).
    - intros g i Hg Hi.
      assert (Hi' : idx_agreed A i = true).
      { unfold idx_agreed in *. rewrite forallb_forall in *. intros j Hj. specialize (Hi j Hj). destruct j; [reflexivity|].
        apply amem_in in Hi. apply aadd_in in Hi. destruct Hi as [Hi|Hi]; [discriminate|]. apply in_amem. exact Hi. }
      assert (Hgi : key sw g i = key sr g i) by (eapply key_agreed; eauto).
      rewrite !get_set_int.
      change (key (set_int sw (key sw f idx) z) g i) with (key sw g i).
      change (key (set_int sr (key sr f idx) z) g i) with (key sr g i).
      rewrite Hgi, Hk.
      destruct (skey_eqb (key sr g i) (key sr f idx)) eqn:E; [reflexivity|].
      apply aadd_in in Hg. destruct Hg as [Hg|Hg].
      + inversion Hg; subst g i. rewrite skey_eqb_refl in E. discriminate.
      + pose proof (ag_int A sw sr Hag g i Hg Hi') as Hold. rewrite Hgi in Hold. exact Hold.
    - intros g i Hg Hi. apply aadd_in in Hg. destruct Hg as [Hg|Hg]; [discriminate|].
      assert (Hi' : idx_agreed A i = true).
      { unfold idx_agreed in *. rewrite forallb_forall in *. intros j Hj. specialize (Hi j Hj). destruct j; [reflexivity|].
        apply amem_in in Hi. apply aadd_in in Hi. destruct Hi as [Hi|Hi]; [discriminate|]. apply in_amem. exact Hi. }
      exact (ag_size A sw sr Hag g i Hg Hi').
    - intros g i Hg Hi. apply aadd_in in Hg. destruct Hg as [Hg|Hg]; [discriminate|].
      assert (Hi' : idx_agreed A i = true).
      { unfold idx_agreed in *. rewrite forallb_forall in *. intros j Hj. specialize (Hi j Hj). destruct j; [reflexivity|].
        apply amem_in in Hi. apply aadd_in in Hi. destruct Hi as [Hi|Hi]; [discriminate|]. apply in_amem. exact Hi. }
      exact (ag_blob A sw sr Hag g i Hg Hi').
  Qed.

  (* agreement only looks at scalars, sizes, raw arrays and locals *)
  Definition store_eq (a b : state) : Prop := ints a = ints b /\ sizes a = sizes b /\ locals a = locals b /\ blobs a = blobs b.

  Lemma store_eq_refl a : store_eq a a.
  Proof. repeat split. Qed.

  Lemma agree_store_eq A sw sw' sr sr' : store_eq sw sw' -> store_eq sr sr' -> agree A sw sr -> agree A sw' sr'.
  Proof.
    intros (Hi1 & Hs1 & Hl1 & Hb1) (Hi2 & Hs2 & Hl2 & Hb2) [Hl Hi Hz Hb].
    assert (Hk1 : forall f idx, key sw' f idx = key sw f idx).
    { intros. unfold key, eval_idx. f_equal. apply map_ext. intros [n|x]; cbn [eval_i]; [reflexivity|]. unfold get_local. rewrite Hl1. reflexivity. }
    assert (Hk2 : forall f idx, key sr' f idx = key sr f idx).
    { intros. unfold key, eval_idx. f_equal. apply map_ext. intros [n|x]; cbn [eval_i]; [reflexivity|]. unfold get_local. rewrite Hl2. reflexivity. }
    constructor.
    - intros x Hx. unfold get_local. rewrite <- Hl1, <- Hl2. apply Hl. exact Hx.
    - intros f idx Hf Hidx. rewrite Hk1, Hk2. unfold get_int. rewrite <- Hi1, <- Hi2. apply Hi; auto.
    - intros f idx Hf Hidx. rewrite Hk1, Hk2. unfold get_size. rewrite <- Hs1, <- Hs2. apply Hz; auto.
    - intros f idx Hf Hidx. rewrite Hk1, Hk2. unfold get_blob. rewrite <- Hb1, <- Hb2. apply Hb; auto.
  Qed.

  Lemma warn_back s st st' : exec Wr v hs s st = Ok st' -> warn st' = false -> warn st = false.
  Proof.
    intros H Hf. destruct (warn st) eqn:E; [|reflexivity]. rewrite (warn_mono s st st' H E) in Hf. discriminate.
  Qed.

  (* ---- structural lemmas ---- *)
  Lemma rt_skip A : rt_ok0 SSkip A A.
  Proof.
    intros sw sw' H. cbn in H. inversion H; subst. exists []. split; [apply wrote_refl|].
    intros sr rest Hag Hw Hi. exists sr. split; [reflexivity|]. split; [exact Hi|]. split; [exact Hw|exact Hag].
  Qed.

  Lemma rt_seq a b A A1 A2 : rt_ok a A A1 -> rt_ok b A1 A2 -> rt_ok (SSeq a b) A A2.
  Proof.
    intros Ha Hb sw sw' H Hnw. cbn [exec] in H.
    destruct (exec Wr v hs a sw) as [sw1| |] eqn:E1; cbn [bind] in H; try discriminate.
    destruct (Ha sw sw1 E1 (warn_back b sw1 sw' H Hnw)) as (e1 & W1 & R1). destruct (Hb sw1 sw' H Hnw) as (e2 & W2 & R2).
    exists (e1 ++ e2). split; [eapply wrote_trans; eauto|].
    intros sr rest Hag Hw Hi. rewrite <- app_assoc in Hi.
    destruct (R1 sr (e2 ++ rest) Hag Hw Hi) as (sr1 & X1 & I1 & Wf1 & Ag1).
    destruct (R2 sr1 rest Ag1 Wf1 I1) as (sr2 & X2 & I2 & Wf2 & Ag2).
    exists sr2. cbn [exec]. rewrite X1. cbn [bind]. auto.
  Qed.

  Lemma rt_weaken s A A1 A2 : (forall a, In a A2 -> In a A1) -> rt_ok s A A1 -> rt_ok s A A2.
  Proof.
    intros Hs H sw sw' Hx Hnw. destruct (H sw sw' Hx Hnw) as (e & W & R). exists e. split; [exact W|].
    intros sr rest Hag Hw Hi. destruct (R sr rest Hag Hw Hi) as (sr' & X & I & Wf & Ag).
    exists sr'. split; [exact X|]. split; [exact I|]. split; [exact Wf|]. eapply agree_subset; eauto.
  Qed.

  Lemma rt_if_dyn c t e A A1 A2 :
    reads_ok A c = true -> rt_ok t A A1 -> rt_ok e A A2 -> rt_ok (SIf c t e) A (ainter A1 A2).
  Proof.
    intros Hc Ht He sw sw' H Hnw. cbn [exec] in H.
    destruct (eval Wr v hs sw c) as [z| |] eqn:Ec; cbn [bind] in H; try discriminate.
    destruct (Z.eqb z 0) eqn:Ez.
    - destruct (He sw sw' H Hnw) as (ex & W & R). exists ex. split; [exact W|].
      intros sr rest Hag Hw Hi. destruct (R sr rest Hag Hw Hi) as (sr' & X & I & Wf & Ag).
      exists sr'. cbn [exec]. rewrite <- (reads_ok_eval A sw sr Hag c Hc), Ec. cbn [bind]. rewrite Ez.
      split; [exact X|]. split; [exact I|]. split; [exact Wf|]. eapply agree_subset; [|exact Ag]. apply ainter_in_r.
    - destruct (Ht sw sw' H Hnw) as (ex & W & R). exists ex. split; [exact W|].
      intros sr rest Hag Hw Hi. destruct (R sr rest Hag Hw Hi) as (sr' & X & I & Wf & Ag).
      exists sr'. cbn [exec]. rewrite <- (reads_ok_eval A sw sr Hag c Hc), Ec. cbn [bind]. rewrite Ez.
      split; [exact X|]. split; [exact I|]. split; [exact Wf|]. eapply agree_subset; [|exact Ag]. apply ainter_in_l.
  Qed.

  Lemma rt_if_ver c t e A A' z :
    ver_only v c = Some z -> rt_ok (if Z.eqb z 0 then e else t) A A' -> rt_ok (SIf c t e) A A'.
  Proof.
    intros Hv Hb sw sw' H Hnw. cbn [exec] in H.
    rewrite (ver_only_sound Wr v hs c sw z Hv) in H. cbn [bind] in H.
    assert (Hx : exec Wr v hs (if Z.eqb z 0 then e else t) sw = Ok sw') by (destruct (Z.eqb z 0); exact H).
    destruct (Hb sw sw' Hx Hnw) as (ex & W & R). exists ex. split; [exact W|].
    intros sr rest Hag Hw Hi. destruct (R sr rest Hag Hw Hi) as (sr' & X & I & Wf & Ag).
    exists sr'. cbn [exec]. rewrite (ver_only_sound Rd v hs c sr z Hv). cbn [bind].
    split; [destruct (Z.eqb z 0); exact X|]. auto.
  Qed.

  (* ---- a scalar transfer of the full width of its type ---- *)
  Lemma full_width_pos p : full_width p = true -> 0 < prim_width p.
  Proof. destruct p; cbn; intros H; try lia; apply andb_prop in H; destruct H as [H _]; lia. Qed.

  Lemma encode_length p z : length (encode p z) = N.to_nat (prim_width p).
  Proof. unfold encode. apply le_bytes_length. Qed.

  Lemma sync_int_w sw k p :
    let e := encode p (get_int sw k) in
    let sw' := sync_int Wr sw k p (prim_width p) in
    wrote sw sw' e /\ store_eq sw' (set_int sw k (decode p e)).
  Proof.
    cbv zeta. unfold sync_int. rewrite N.eqb_refl.
    rewrite firstn_all2 by (rewrite encode_length; lia).
    split.
    - unfold wrote, emit. cbn [out set_int]. rewrite rev_append_rev. reflexivity.
    - repeat split.
  Qed.

  Lemma sync_int_r sr k p e rest :
    0 < prim_width p -> length e = N.to_nat (prim_width p) -> wfio sr -> inp sr = e ++ rest ->
    let sr' := sync_int Rd sr k p (prim_width p) in
    inp sr' = rest /\ wfio sr' /\ store_eq sr' (set_int sr k (decode p e)).
  Proof.
    intros Hp He Hw Hi. cbv zeta. unfold sync_int.
    destruct (read_exact sr e rest Hw Hi) as (s1 & Hr & I1 & W1 & E1 & E2 & E3 & E4 & E5).
    replace (read sr (prim_width p)) with (read sr (N.of_nat (length e))) by (f_equal; lia).
    rewrite Hr.
    destruct (Nat.eqb_spec (length e) 0) as [Hz|_]; [lia|].
    rewrite overlay_full by exact He.
    split; [|split].
    - cbn [inp set_int]. exact I1.
    - unfold wfio in *. cbn [remaining inp eof set_int]. exact W1.
    - unfold store_eq, set_int. cbn [ints sizes locals blobs]. rewrite E1, E2, E3, E4. repeat split.
  Qed.

  (* the reference log is invisible to everything the round trip looks at *)
  Lemma read_log_ref st a n : read (log_ref st a) n = (fst (read st n), log_ref (snd (read st n)) a).
  Proof.
    unfold read, log_ref. cbn [eof remaining inp ints blobs sizes locals out trace reflog].
    destruct (eof st); [reflexivity|]. destruct (n <=? remaining st); reflexivity.
  Qed.

  Lemma sync_int_log_ref m st a k p n : sync_int m (log_ref st a) k p n = log_ref (sync_int m st k p n) a.
  Proof.
    unfold sync_int. destruct m.
    - rewrite read_log_ref. destruct (read st n) as [got st1]. cbn [fst snd].
      destruct (length got =? 0)%nat; reflexivity.
    - destruct (n =? prim_width p); reflexivity.
  Qed.

  Definition maybe_log (b : bool) (st : state) (k : skey) : state := if b then log_ref st k else st.

  Lemma maybe_log_facts b st k :
    store_eq (maybe_log b st k) st /\ out (maybe_log b st k) = out st /\ inp (maybe_log b st k) = inp st /\
    (wfio st -> wfio (maybe_log b st k)).
  Proof. destruct b; cbn [maybe_log]; (split; [repeat split|split; [reflexivity|split; [reflexivity|]]]); intros [H1 H2]; split; assumption. Qed.

  Lemma store_eq_trans a b c : store_eq a b -> store_eq b c -> store_eq a c.
  Proof. intros (A1 & A2 & A3 & A4) (B1 & B2 & B3 & B4). repeat split; congruence. Qed.
  Lemma store_eq_sym a b : store_eq a b -> store_eq b a.
  Proof. intros (A1 & A2 & A3 & A4). repeat split; congruence. Qed.

  (* the common shape of SSync / SHalf / SRef / SStrRef (index form): a scalar of the full width of its
     type, possibly logged as a reference *)
  Lemma rt_scalar A s f idx p (lg : bool) :
    idx_agreed A idx = true -> 0 < prim_width p ->
    (forall m st, exec m v hs s st = Ok (maybe_log lg (sync_int m st (key st f idx) p (prim_width p)) (key st f idx))) ->
    rt_ok0 s A (aadd (AInt f idx) A).
  Proof.
    intros Hidx Hp Hex sw sw' H. rewrite Hex in H.
    assert (Hsw : sw' = maybe_log lg (sync_int Wr sw (key sw f idx) p (prim_width p)) (key sw f idx)) by congruence.
    clear H. subst sw'.
    remember (key sw f idx) as k eqn:Ek. remember (encode p (get_int sw k)) as e eqn:Ee.
    destruct (sync_int_w sw k p) as (Ww & Sw). rewrite <- Ee in Ww, Sw.
    destruct (maybe_log_facts lg (sync_int Wr sw k p (prim_width p)) k) as (L1 & L2 & L3 & L4).
    exists e. split.
    - unfold wrote in *. rewrite L2. exact Ww.
    - intros sr rest Hag Hw Hi. rewrite Hex.
      assert (Hk : key sr f idx = k) by (rewrite Ek; symmetry; eapply key_agreed; eauto).
      rewrite Hk.
      assert (Hel : length e = N.to_nat (prim_width p)) by (rewrite Ee; apply encode_length).
      destruct (sync_int_r sr k p e rest Hp Hel Hw Hi) as (I1 & W1 & S1).
      destruct (maybe_log_facts lg (sync_int Rd sr k p (prim_width p)) k) as (M1 & M2 & M3 & M4).
      eexists. split; [reflexivity|]. split; [rewrite M3; exact I1|]. split; [apply M4; exact W1|].
      eapply agree_store_eq.
      + apply store_eq_sym. eapply store_eq_trans; [exact L1|exact Sw].
      + apply store_eq_sym. eapply store_eq_trans; [exact M1|exact S1].
      + pose proof (agree_set_int_both A sw sr f idx (decode p e) Hag Hidx) as Hs.
        rewrite <- Ek in Hs. rewrite Hk in Hs. exact Hs.
  Qed.

  (* ---- sizes, locals, assignments ---- *)
  Lemma idx_agreed_aadd_int A f idx i : idx_agreed (aadd (AInt f idx) A) i = true -> idx_agreed A i = true.
  Proof.
    unfold idx_agreed. rewrite !forallb_forall. intros H j Hj. specialize (H j Hj). destruct j; [reflexivity|].
    apply amem_in in H. apply aadd_in in H. destruct H as [H|H]; [discriminate|]. apply in_amem. exact H.
  Qed.
  Lemma idx_agreed_aadd_size A f idx i : idx_agreed (aadd (ASize f idx) A) i = true -> idx_agreed A i = true.
  Proof.
    unfold idx_agreed. rewrite !forallb_forall. intros H j Hj. specialize (H j Hj). destruct j; [reflexivity|].
    apply amem_in in H. apply aadd_in in H. destruct H as [H|H]; [discriminate|]. apply in_amem. exact H.
  Qed.

  Lemma agree_set_size_both A sw sr f idx n :
    agree A sw sr -> idx_agreed A idx = true ->
    agree (aadd (ASize f idx) A) (set_size sw (key sw f idx) n) (set_size sr (key sr f idx) n).
  Proof.
    intros Hag Hidx.
    assert (Hk : key sw f idx = key sr f idx) by (eapply key_agreed; eauto).
    constructor.
    - intros x Hx. apply aadd_in in Hx. destruct Hx as [Hx|Hx]; [discriminate|].
      exact (ag_local A sw sr Hag x Hx).
    - intros g i Hg Hi. apply aadd_in in Hg. destruct Hg as [Hg|Hg]; [discriminate|].
      exact (ag_int A sw sr Hag g i Hg (idx_agreed_aadd_size _ _ _ _ Hi)).
    - intros g i Hg Hi.
      pose proof (idx_agreed_aadd_size _ _ _ _ Hi) as Hi'.
      assert (Hgi : key sw g i = key sr g i) by (eapply key_agreed; eauto).
      rewrite !get_set_size.
      change (key (set_size sw (key sw f idx) n) g i) with (key sw g i).
      change (key (set_size sr (key sr f idx) n) g i) with (key sr g i).
      rewrite Hgi, Hk.
      destruct (skey_eqb (key sr g i) (key sr f idx)) eqn:E; [reflexivity|].
      apply aadd_in in Hg. destruct Hg as [Hg|Hg].
      + inversion Hg; subst g i. rewrite skey_eqb_refl in E. discriminate.
      + pose proof (ag_size A sw sr Hag g i Hg Hi') as Hold. rewrite Hgi in Hold. exact Hold.
    - intros g i Hg Hi. apply aadd_in in Hg. destruct Hg as [Hg|Hg]; [discriminate|].
      exact (ag_blob A sw sr Hag g i Hg (idx_agreed_aadd_size _ _ _ _ Hi)).
  Qed.

  Lemma idx_agreed_aadd_blob A f idx i : idx_agreed (aadd (ABlob f idx) A) i = true -> idx_agreed A i = true.
  Proof.
    unfold idx_agreed. rewrite !forallb_forall. intros H j Hj. specialize (H j Hj). destruct j; [reflexivity|].
    apply amem_in in H. apply aadd_in in H. destruct H as [H|H]; [discriminate|]. apply in_amem. exact H.
  Qed.

  Lemma get_set_blob' st k b k' : get_blob (set_blob st k b) k' = if skey_eqb k' k then b else get_blob st k'.
  Proof. unfold get_blob, set_blob. cbn [blobs]. rewrite find2_add2. destruct (skey_eqb k' k); reflexivity. Qed.

  Lemma agree_set_blob_both A sw sr f idx b :
    agree A sw sr -> idx_agreed A idx = true ->
    agree (aadd (ABlob f idx) A) (set_blob sw (key sw f idx) b) (set_blob sr (key sr f idx) b).
  Proof.
    intros Hag Hidx.
    assert (Hk : key sw f idx = key sr f idx) by (eapply key_agreed; eauto).
    constructor.
    - intros x Hx. apply aadd_in in Hx. destruct Hx as [Hx|Hx]; [discriminate|].
      exact (ag_local A sw sr Hag x Hx).
    - intros g i Hg Hi. apply aadd_in in Hg. destruct Hg as [Hg|Hg]; [discriminate|].
      exact (ag_int A sw sr Hag g i Hg (idx_agreed_aadd_blob _ _ _ _ Hi)).
    - intros g i Hg Hi. apply aadd_in in Hg. destruct Hg as [Hg|Hg]; [discriminate|].
      exact (ag_size A sw sr Hag g i Hg (idx_agreed_aadd_blob _ _ _ _ Hi)).
    - intros g i Hg Hi.
      pose proof (idx_agreed_aadd_blob _ _ _ _ Hi) as Hi'.
      assert (Hgi : key sw g i = key sr g i) by (eapply key_agreed; eauto).
      rewrite !get_set_blob'.
      change (key (set_blob sw (key sw f idx) b) g i) with (key sw g i).
      change (key (set_blob sr (key sr f idx) b) g i) with (key sr g i).
      rewrite Hgi, Hk.
      destruct (skey_eqb (key sr g i) (key sr f idx)) eqn:E; [reflexivity|].
      apply aadd_in in Hg. destruct Hg as [Hg|Hg].
      + inversion Hg; subst g i. rewrite skey_eqb_refl in E. discriminate.
      + pose proof (ag_blob A sw sr Hag g i Hg Hi') as Hold. rewrite Hgi in Hold. exact Hold.
  Qed.

  (* two different byte strings stored under one field name: every token of that name is forgotten *)
  Lemma agree_kill_blob A sw sr f l1 l2 b1 b2 :
    agree A sw sr -> agree (akill_blob f A) (set_blob sw (enc_key f l1) b1) (set_blob sr (enc_key f l2) b2).
  Proof.
    intros Hag.
    assert (Hin : forall a, In a (akill_blob f A) -> In a A) by (intros a Ha; unfold akill_blob in Ha; apply filter_In in Ha; apply Ha).
    assert (Hidx : forall i, idx_agreed (akill_blob f A) i = true -> idx_agreed A i = true).
    { intros i. apply idx_agreed_mono. exact Hin. }
    constructor.
    - intros x Hx. exact (ag_local A sw sr Hag x (Hin _ Hx)).
    - intros g i Hg Hi. exact (ag_int A sw sr Hag g i (Hin _ Hg) (Hidx _ Hi)).
    - intros g i Hg Hi. exact (ag_size A sw sr Hag g i (Hin _ Hg) (Hidx _ Hi)).
    - intros g i Hg Hi.
      assert (Hne : g <> f).
      { unfold akill_blob in Hg. apply filter_In in Hg. destruct Hg as [_ Hg]. apply negb_true_iff in Hg. apply N.eqb_neq in Hg. congruence. }
      rewrite !get_set_blob'.
      change (key (set_blob sw (enc_key f l1) b1) g i) with (key sw g i).
      change (key (set_blob sr (enc_key f l2) b2) g i) with (key sr g i).
      unfold key. rewrite !skey_eqb_names by exact Hne.
      exact (ag_blob A sw sr Hag g i (Hin _ Hg) (Hidx _ Hi)).
  Qed.

  Lemma eval_idx_set_local_other st x z idx : idx_mentions x idx = false -> eval_idx (set_local st x z) idx = eval_idx st idx.
  Proof.
    unfold idx_mentions, eval_idx. intros H. apply map_ext_in. intros [n|y] Hy; cbn [eval_i]; [reflexivity|].
    rewrite get_set_local. destruct (N.eqb_spec y x) as [->|]; [|reflexivity].
    exfalso. assert (Hex : existsb (fun i => match i with ILocal y => x =? y | IConst _ => false end) idx = true).
    { apply existsb_exists. exists (ILocal x). split; [exact Hy|apply N.eqb_refl]. }
    congruence.
  Qed.

  (* B mentions x nowhere *)
  Definition xfree (x : lvar) (B : list akey) : Prop :=
    forall a, In a B -> match a with AInt _ i | ASize _ i | ABlob _ i => idx_mentions x i = false | ALocal y => y <> x end.

  Lemma akill_xfree x A : xfree x (akill x A).
  Proof.
    intros a Ha. unfold akill in Ha. apply filter_In in Ha. destruct Ha as [_ H].
    destruct a; try (apply negb_true_iff in H; exact H).
    apply negb_true_iff in H. apply N.eqb_neq in H. congruence.
  Qed.

  Lemma idx_agreed_drop_local x B i :
    idx_mentions x i = false -> idx_agreed (aadd (ALocal x) B) i = true -> idx_agreed B i = true.
  Proof.
    unfold idx_agreed, idx_mentions. rewrite !forallb_forall. intros Hm H j Hj. specialize (H j Hj).
    destruct j as [n|y]; [reflexivity|].
    apply amem_in in H. apply aadd_in in H. destruct H as [H|H]; [|apply in_amem; exact H].
    inversion H; subst y. exfalso.
    assert (Hex : existsb (fun i => match i with ILocal y => x =? y | IConst _ => false end) i = true).
    { apply existsb_exists. exists (ILocal x). split; [exact Hj|apply N.eqb_refl]. }
    congruence.
  Qed.

  Lemma agree_set_local_both B sw sr x z :
    agree B sw sr -> xfree x B -> agree (aadd (ALocal x) B) (set_local sw x z) (set_local sr x z).
  Proof.
    intros Hag Hfree. constructor.
    - intros y Hy. rewrite !get_set_local. destruct (N.eqb_spec y x); [reflexivity|].
      apply aadd_in in Hy. destruct Hy as [Hy|Hy]; [congruence|]. exact (ag_local B sw sr Hag y Hy).
    - intros g i Hg Hi. apply aadd_in in Hg. destruct Hg as [Hg|Hg]; [discriminate|].
      pose proof (Hfree _ Hg) as Hm. cbn in Hm.
      unfold key. rewrite !eval_idx_set_local_other by exact Hm.
      change (get_int (set_local sw x z)) with (get_int sw). change (get_int (set_local sr x z)) with (get_int sr).
      exact (ag_int B sw sr Hag g i Hg (idx_agreed_drop_local x B i Hm Hi)).
    - intros g i Hg Hi. apply aadd_in in Hg. destruct Hg as [Hg|Hg]; [discriminate|].
      pose proof (Hfree _ Hg) as Hm. cbn in Hm.
      unfold key. rewrite !eval_idx_set_local_other by exact Hm.
      change (get_size (set_local sw x z)) with (get_size sw). change (get_size (set_local sr x z)) with (get_size sr).
      exact (ag_size B sw sr Hag g i Hg (idx_agreed_drop_local x B i Hm Hi)).
    - intros g i Hg Hi. apply aadd_in in Hg. destruct Hg as [Hg|Hg]; [discriminate|].
      pose proof (Hfree _ Hg) as Hm. cbn in Hm.
      unfold key. rewrite !eval_idx_set_local_other by exact Hm.
      change (get_blob (set_local sw x z)) with (get_blob sw). change (get_blob (set_local sr x z)) with (get_blob sr).
      exact (ag_blob B sw sr Hag g i Hg (idx_agreed_drop_local x B i Hm Hi)).
  Qed.

  Lemma rt_local A x p e : reads_ok A e = true -> rt_ok0 (SLocal x p e) A (aadd (ALocal x) (akill x A)).
  Proof.
    intros He sw sw' H. cbn [exec] in H.
    destruct (eval Wr v hs sw e) as [z| |] eqn:Ez; cbn [bind] in H; try discriminate.
    assert (sw' = set_local sw x (wrapZ (prim_width p) (prim_signed p) z)) by congruence. subst sw'. clear H.
    exists []. split; [reflexivity|].
    intros sr rest Hag Hw Hi. cbn [exec]. rewrite <- (reads_ok_eval A sw sr Hag e He), Ez. cbn [bind].
    eexists. split; [reflexivity|]. split; [exact Hi|]. split; [exact Hw|].
    apply agree_set_local_both; [|apply akill_xfree].
    eapply agree_subset; [|exact Hag]. apply akill_in.
  Qed.

  Lemma key_of_key st f idx : key_of st f idx = key st f idx.
  Proof. reflexivity. Qed.

  Lemma rt_assign A f idx p e : idx_agreed A idx = true -> reads_ok A e = true -> rt_ok0 (SAssign f idx p e) A (aadd (AInt f idx) A).
  Proof.
    intros Hidx He sw sw' H. cbn [exec] in H. cbv zeta in H. rewrite key_of_key in H.
    destruct (eval Wr v hs sw e) as [z| |] eqn:Ez; cbn [bind] in H; try discriminate.
    assert (sw' = set_int sw (key sw f idx) (wrapZ (prim_width p) (prim_signed p) z)) by congruence. subst sw'. clear H.
    exists []. split; [reflexivity|].
    intros sr rest Hag Hw Hi. cbn [exec]. cbv zeta. rewrite key_of_key. rewrite <- (reads_ok_eval A sw sr Hag e He), Ez. cbn [bind].
    eexists. split; [reflexivity|]. split; [exact Hi|]. split; [exact Hw|].
    apply agree_set_int_both; assumption.
  Qed.

  Lemma rt_resize A f idx n : idx_agreed A idx = true -> reads_ok A n = true -> rt_ok0 (SResize f idx n) A (aadd (ASize f idx) A).
  Proof.
    intros Hidx He sw sw' H. cbn [exec] in H. cbv zeta in H. rewrite key_of_key in H.
    destruct (eval Wr v hs sw n) as [z| |] eqn:Ez; cbn [bind] in H; try discriminate.
    assert (sw' = set_size sw (key sw f idx) (Z.to_N z)) by congruence. subst sw'. clear H.
    exists []. split; [reflexivity|].
    intros sr rest Hag Hw Hi. cbn [exec]. cbv zeta. rewrite key_of_key. rewrite <- (reads_ok_eval A sw sr Hag n He), Ez. cbn [bind].
    eexists. split; [reflexivity|]. split; [exact Hi|]. split; [exact Hw|].
    apply agree_set_size_both; assumption.
  Qed.

  (* ---- raw memory of an agreed size ---- *)
  Lemma rt_bytes A f idx n : idx_agreed A idx = true -> reads_ok A n = true -> rt_ok0 (SBytes f idx n) A (aadd (ABlob f idx) A).
  Proof.
    intros Hidx He sw sw' H. cbn [exec] in H. cbv zeta in H.
    destruct (eval Wr v hs sw n) as [z| |] eqn:Ez; cbn [bind] in H; try discriminate.
    unfold sync_blob in H.
    set (nn := N.to_nat (Z.to_N z)) in *.
    set (b := firstn nn (get_blob sw (key_of sw f idx) ++ repeat 0 nn)) in *.
    assert (sw' = emit (set_blob sw (key_of sw f idx) b) b) by congruence. subst sw'. clear H.
    assert (Hb : length b = nn).
    { unfold b. rewrite firstn_length, app_length, repeat_length. lia. }
    exists b. split.
    - unfold wrote, emit. cbn [out set_blob]. rewrite rev_append_rev. reflexivity.
    - intros sr rest Hag Hw Hi. cbn [exec]. cbv zeta. rewrite <- (reads_ok_eval A sw sr Hag n He), Ez. cbn [bind].
      unfold sync_blob.
      destruct (read_exact sr b rest Hw Hi) as (s1 & Hr & I1 & W1 & E1 & E2 & E3 & E4 & E5).
      replace (read sr (Z.to_N z)) with (read sr (N.of_nat (length b))) by (f_equal; lia).
      rewrite Hr. fold nn. rewrite overlay_full by exact Hb.
      eexists. split; [reflexivity|]. split; [exact I1|]. split; [exact W1|].
      assert (Hag1 : agree A sw s1).
      { eapply agree_store_eq; [apply store_eq_refl| |exact Hag]. unfold store_eq. rewrite E1, E2, E3, E4. repeat split. }
      assert (Hks : key_of sr f idx = key s1 f idx).
      { unfold key_of, key, eval_idx. f_equal. apply map_ext. intros [c|x]; cbn [eval_i]; [reflexivity|]. unfold get_local. rewrite E4. reflexivity. }
      rewrite Hks, key_of_key.
      eapply agree_store_eq; [| |apply (agree_set_blob_both A sw s1 f idx b Hag1 Hidx)].
      + repeat split.
      + apply store_eq_refl.
  Qed.

  (* ---- a raw array whose length is the (agreed) element count of its container ---- *)
  Lemma rt_bytesvec A f idx : idx_agreed A idx = true -> amem (ASize f idx) A = true -> rt_ok0 (SBytesVec f idx) A (akill_blob f A).
  Proof.
    intros Hidx Hsz sw sw' H. cbn [exec] in H. cbv zeta in H. rewrite key_of_key in H.
    assert (Hn : forall sr, agree A sw sr -> get_size sr (key sr f idx) = get_size sw (key sw f idx)).
    { intros sr Hag. symmetry. apply (ag_size A sw sr Hag f idx (amem_in _ _ Hsz) Hidx). }
    destruct (get_size sw (key sw f idx) =? 0) eqn:E0.
    - assert (sw' = sw) by congruence. subst sw'. exists []. split; [apply wrote_refl|].
      intros sr rest Hag Hw Hi. cbn [exec]. cbv zeta. rewrite key_of_key, (Hn sr Hag), E0.
      exists sr. split; [reflexivity|]. split; [exact Hi|]. split; [exact Hw|].
      eapply agree_subset; [|exact Hag]. intros a Ha. unfold akill_blob in Ha. apply filter_In in Ha. apply Ha.
    - unfold sync_blob in H.
      set (nn := N.to_nat (get_size sw (key sw f idx))) in *.
      set (b := firstn nn (get_blob sw (key sw f idx) ++ repeat 0 nn)) in *.
      assert (sw' = emit (set_blob sw (key sw f idx) b) b) by congruence. subst sw'. clear H.
      assert (Hb : length b = nn).
      { unfold b. rewrite firstn_length, app_length, repeat_length. lia. }
      exists b. split.
      + unfold wrote, emit. cbn [out set_blob]. rewrite rev_append_rev. reflexivity.
      + intros sr rest Hag Hw Hi. cbn [exec]. cbv zeta. rewrite key_of_key, (Hn sr Hag), E0.
        unfold sync_blob.
        destruct (read_exact sr b rest Hw Hi) as (s1 & Hr & I1 & W1 & E1 & E2 & E3 & E4 & E5).
        replace (read sr (get_size sw (key sw f idx))) with (read sr (N.of_nat (length b))) by (f_equal; lia).
        rewrite Hr.
        eexists. split; [reflexivity|]. split; [exact I1|]. split; [exact W1|].
        assert (Hag1 : agree A sw s1).
        { eapply agree_store_eq; [apply store_eq_refl| |exact Hag]. unfold store_eq. rewrite E1, E2, E3, E4. repeat split. }
        pose proof (agree_kill_blob A sw s1 f (eval_idx sw idx) (eval_idx sr idx) b
                      (overlay nn b (get_blob sr (enc_key f (eval_idx sr idx)))) Hag1) as Hk.
        eapply agree_store_eq; [| |exact Hk].
        * repeat split.
        * apply store_eq_refl.
  Qed.

  (* ---- a local variable passed through the stream ---- *)
  Lemma rt_synclocal A x p : full_width p = true -> rt_ok0 (SSyncLocal x p) A (aadd (ALocal x) (akill x A)).
  Proof.
    intros Hp sw sw' H. cbn [exec] in H. cbv zeta in H.
    set (e := encode p (get_local sw x)) in *.
    assert (sw' = set_local (emit sw e) x (decode p e)) by congruence. subst sw'. clear H.
    assert (Hel : length e = N.to_nat (prim_width p)) by apply encode_length.
    pose proof (full_width_pos p Hp) as Hpos.
    exists e. split.
    - unfold wrote, emit. cbn [out set_local]. rewrite rev_append_rev. reflexivity.
    - intros sr rest Hag Hw Hi. cbn [exec].
      destruct (read_exact sr e rest Hw Hi) as (u & Hr & I1 & W1 & E1 & E2 & E3 & E4 & E5).
      replace (read sr (prim_width p)) with (read sr (N.of_nat (length e))) by (f_equal; lia).
      rewrite Hr.
      destruct (Nat.eqb_spec (length e) 0) as [Hz|_]; [lia|].
      rewrite overlay_full by exact Hel.
      eexists. split; [reflexivity|]. split; [exact I1|]. split; [exact W1|].
      apply agree_set_local_both; [|apply akill_xfree].
      eapply agree_store_eq; [| |eapply agree_subset; [apply akill_in|exact Hag]].
      + repeat split.
      + unfold store_eq. rewrite E1, E2, E3, E4. repeat split.
  Qed.

  (* ---- loops ---- *)
  Definition iter_state (m : mode) (body : stmt) (x : lvar) (n : N) (st : state) : res (N * state) :=
    N.iter n (fun acc => bind acc (fun p => let '(i, s) := p in
                bind (exec m v hs body (set_local s x (Z.of_N i))) (fun s' => Ok (i + 1, s')))) (Ok (0, st)).

  Lemma iter_loop_state m body x n st :
    iter_loop (exec m v hs body) x n st = bind (iter_state m body x n st) (fun p => Ok (snd p)).
  Proof. reflexivity. Qed.

  Lemma iter_state_succ m body x n st :
    iter_state m body x (N.succ n) st =
    bind (iter_state m body x n st) (fun p => let '(i, s) := p in
      bind (exec m v hs body (set_local s x (Z.of_N i))) (fun s' => Ok (i + 1, s'))).
  Proof. unfold iter_state. rewrite N.iter_succ. reflexivity. Qed.

  Lemma iter_state_count m body x : forall n st i s, iter_state m body x n st = Ok (i, s) -> i = n.
  Proof.
    induction n as [|n IH] using N.peano_ind; intros st i s H.
    - cbn in H. inversion H. reflexivity.
    - rewrite iter_state_succ in H.
      destruct (iter_state m body x n st) as [[j t]| |] eqn:E; cbn [bind] in H; try discriminate.
      destruct (exec m v hs body (set_local t x (Z.of_N j))) as [t'| |]; cbn [bind] in H; try discriminate.
      inversion H; subst. rewrite (IH st j t E). lia.
  Qed.

  Lemma rt_for_states A x body A1 :
    let B := akill x A in
    let A0 := aadd (ALocal x) B in
    rt_ok body A0 A1 -> asubset A0 A1 = true ->
    forall n sw i sw', iter_state Wr body x n sw = Ok (i, sw') -> warn sw' = false ->
    exists extra, wrote sw sw' extra /\
      forall sr rest, agree B sw sr -> wfio sr -> inp sr = extra ++ rest ->
      exists sr', iter_state Rd body x n sr = Ok (i, sr') /\ inp sr' = rest /\ wfio sr' /\ agree B sw' sr'.
  Proof.
    intros B A0 Hbody Hsub.
    induction n as [|n IH] using N.peano_ind; intros sw i sw' H Hnw.
    - cbn in H. inversion H; subst. exists []. split; [reflexivity|].
      intros sr rest Hag Hw Hi. exists sr. split; [reflexivity|]. split; [exact Hi|]. split; [exact Hw|exact Hag].
    - rewrite iter_state_succ in H.
      destruct (iter_state Wr body x n sw) as [[j t]| |] eqn:E; cbn [bind] in H; try discriminate.
      destruct (exec Wr v hs body (set_local t x (Z.of_N j))) as [t'| |] eqn:Eb; cbn [bind] in H; try discriminate.
      inversion H; subst i sw'. clear H.
      assert (Hnt : warn t = false) by exact (warn_back body _ _ Eb Hnw).
      destruct (IH sw j t E Hnt) as (e1 & W1 & R1).
      destruct (Hbody _ _ Eb Hnw) as (e2 & W2 & R2).
      exists (e1 ++ e2). split.
      + eapply wrote_trans; [exact W1|]. unfold wrote in *. cbn [out set_local] in W2. exact W2.
      + intros sr rest Hag Hw Hi. rewrite <- app_assoc in Hi.
        destruct (R1 sr (e2 ++ rest) Hag Hw Hi) as (u & X1 & I1 & Wf1 & Ag1).
        assert (Ag0 : agree A0 (set_local t x (Z.of_N j)) (set_local u x (Z.of_N j))).
        { apply agree_set_local_both; [exact Ag1|apply akill_xfree]. }
        assert (Wfu : wfio (set_local u x (Z.of_N j))) by exact Wf1.
        assert (Iu : inp (set_local u x (Z.of_N j)) = e2 ++ rest) by exact I1.
        destruct (R2 _ rest Ag0 Wfu Iu) as (u' & X2 & I2 & Wf2 & Ag2).
        exists u'. rewrite iter_state_succ, X1. cbn [bind]. rewrite X2. cbn [bind].
        split; [reflexivity|]. split; [exact I2|]. split; [exact Wf2|].
        eapply agree_subset; [|exact Ag2].
        intros a Ha. apply (asubset_in _ _ Hsub). apply in_aadd_old. exact Ha.
  Qed.

  Lemma rt_for A x n body A1 :
    reads_ok A n = true ->
    rt_ok body (aadd (ALocal x) (akill x A)) A1 -> asubset (aadd (ALocal x) (akill x A)) A1 = true ->
    rt_ok (SFor x n body) A (akill x A).
  Proof.
    intros Hn Hbody Hsub sw sw' H Hnw. cbn [exec] in H.
    destruct (eval Wr v hs sw n) as [z| |] eqn:Ez; cbn [bind] in H; try discriminate.
    rewrite iter_loop_state in H.
    destruct (iter_state Wr body x (Z.to_N z) sw) as [[i t]| |] eqn:E; cbn [bind snd] in H; try discriminate.
    assert (t = sw') by congruence. subst t. clear H.
    destruct (rt_for_states A x body A1 Hbody Hsub (Z.to_N z) sw i sw' E Hnw) as (extra & W & R).
    exists extra. split; [exact W|].
    intros sr rest Hag Hw Hi.
    assert (HagB : agree (akill x A) sw sr) by (eapply agree_subset; [apply akill_in|exact Hag]).
    destruct (R sr rest HagB Hw Hi) as (sr' & X & I & Wf & Ag).
    exists sr'. cbn [exec]. rewrite <- (reads_ok_eval A sw sr Hag n Hn), Ez. cbn [bind].
    rewrite iter_loop_state, X. cbn [bind snd].
    split; [reflexivity|]. split; [exact I|]. split; [exact Wf|exact Ag].
  Qed.


  (* ---- little-endian bytes ---- *)
  Lemma of_le_bytes_le_bytes : forall w z, of_le_bytes (le_bytes w z) = (z mod (256 ^ Z.of_nat w))%Z.
  Proof.
    induction w as [|w IH]; intros z.
    - cbn. rewrite Z.mod_1_r. reflexivity.
    - cbn [le_bytes of_le_bytes]. rewrite IH.
      rewrite Z2N.id by (apply Z.mod_pos_bound; lia).
      rewrite Nat2Z.inj_succ, Z.pow_succ_r by lia.
      rewrite Z.rem_mul_r by lia. lia.
  Qed.

  Lemma wrapZ_unsigned w z : wrapZ w false z = (z mod (256 ^ Z.of_N w))%Z.
  Proof.
    unfold wrapZ. f_equal. replace 256%Z with (2 ^ 8)%Z by reflexivity. rewrite <- Z.pow_mul_r by lia. reflexivity.
  Qed.

  Lemma of_le_wrap w z : of_le_bytes (le_bytes (N.to_nat w) (wrapZ w false z)) = wrapZ w false z.
  Proof.
    rewrite of_le_bytes_le_bytes, wrapZ_unsigned. rewrite N_nat_Z. apply Z.mod_mod.
    apply Z.pow_nonzero; lia.
  Qed.

  Lemma wrapZ_unsigned_range w z : (0 <= wrapZ w false z)%Z.
  Proof. rewrite wrapZ_unsigned. apply Z.mod_pos_bound. apply Z.pow_pos_nonneg; lia. Qed.

  Lemma wrapZ_unsigned_le w z : (0 <= z -> wrapZ w false z <= z)%Z.
  Proof. intros H. rewrite wrapZ_unsigned. apply Z.mod_le; [exact H|]. apply Z.pow_pos_nonneg; lia. Qed.

  (* ---- NiString: length prefix, then the bytes ---- *)
  Lemma rt_nistring A f idx w : 0 < w -> rt_ok0 (SNiString f idx w) A (akill_blob f A).
  Proof.
    intros Hw sw sw' H. cbn [exec] in H. cbv zeta in H.
    set (k := key_of sw f idx) in *.
    set (s0 := get_blob sw k) in *.
    set (sz := N.min (N.of_nat (length s0)) (2 ^ (8 * w) - 1)) in *.
    set (s1 := firstn (N.to_nat sz) s0) in *.
    assert (sw' = emit (emit (set_blob sw k s1) (le_bytes (N.to_nat w) (Z.of_N sz))) s1) by congruence. subst sw'. clear H.
    assert (Hszle : (N.to_nat sz <= length s0)%nat).
    { unfold sz. lia. }
    assert (Hs1 : length s1 = N.to_nat sz) by (unfold s1; rewrite firstn_length; lia).
    assert (Hzz : (0 <= Z.of_N sz < 256 ^ Z.of_nat (N.to_nat w))%Z).
    { assert (Hp : (256 ^ Z.of_nat (N.to_nat w) = 2 ^ (8 * Z.of_N w))%Z).
      { change 256%Z with (2 ^ 8)%Z. rewrite <- Z.pow_mul_r by lia. f_equal. lia. }
      rewrite Hp. assert (Hs : sz <= 2 ^ (8 * w) - 1) by (unfold sz; lia).
      assert (H2 : 0 < 2 ^ (8 * w)) by (apply N.neq_0_lt_0, N.pow_nonzero; lia).
      assert (Hc : Z.of_N (2 ^ (8 * w)) = (2 ^ (8 * Z.of_N w))%Z) by (rewrite N2Z.inj_pow; f_equal; lia).
      lia. }
    exists (le_bytes (N.to_nat w) (Z.of_N sz) ++ s1). split.
    - unfold wrote, emit. cbn [out set_blob]. rewrite !rev_append_rev, rev_app_distr, app_assoc. reflexivity.
    - intros sr rest Hag Hwf Hi. cbn [exec]. cbv zeta. rewrite <- app_assoc in Hi.
      set (lb := le_bytes (N.to_nat w) (Z.of_N sz)) in *.
      assert (Hlb : length lb = N.to_nat w) by apply le_bytes_length.
      destruct (read_exact sr lb (s1 ++ rest) Hwf Hi) as (u & Hr & I1 & W1 & E1 & E2 & E3 & E4 & E5).
      replace (read sr w) with (read sr (N.of_nat (length lb))) by (f_equal; lia).
      rewrite Hr. rewrite overlay_full by exact Hlb.
      assert (Hdec : Z.to_N (of_le_bytes lb) = sz).
      { unfold lb. rewrite of_le_bytes_le_bytes, Z.mod_small by exact Hzz. apply N2Z.id. }
      rewrite Hdec.
      destruct (read_exact u s1 rest W1 I1) as (u2 & Hr2 & I2 & W2 & F1 & F2 & F3 & F4 & F5).
      replace (read u sz) with (read u (N.of_nat (length s1))) by (f_equal; lia).
      rewrite Hr2.
      eexists. split; [reflexivity|]. split; [exact I2|]. split; [exact W2|].
      assert (Hag2 : agree A sw u2).
      { eapply agree_store_eq; [apply store_eq_refl| |exact Hag]. unfold store_eq. rewrite F1, F2, F3, F4, E1, E2, E3, E4. repeat split. }
      pose proof (agree_kill_blob A sw u2 f (eval_idx sw idx) (eval_idx sr idx) s1
                    (take_until_nul (overlay (N.to_nat sz) s1 [])) Hag2) as Hk.
      eapply agree_store_eq; [| |exact Hk].
      + repeat split.
      + apply store_eq_refl.
  Qed.

  (* ---- NiStringRef before 20.1.0.3: an inline string (u32 length, bytes); the reader takes at most 2048 bytes ---- *)
  Lemma rt_strref_old A fstr findex idx :
    Z.ltb (vfile v) V20_1_0_3 = true -> rt_ok (SStrRef fstr findex idx) A (akill_blob fstr A).
  Proof.
    intros Hv sw sw' H Hnw. cbn [exec] in H. rewrite Hv in H. cbv zeta in H.
    set (k := key_of sw fstr idx) in *.
    set (s0 := get_blob sw k) in *.
    set (sz := Z.to_N (wrapZ 4 false (Z.of_nat (length s0)))) in *.
    set (s1 := firstn (N.to_nat sz) s0) in *.
    assert (sw' = emit (emit (set_warn (set_blob sw k s1) (2049 <=? sz)) (le_bytes 4 (Z.of_N sz))) s1) by congruence. subst sw'. clear H.
    assert (Hshort : (sz <? 2049) = true).
    { rewrite !warn_emit, warn_set_warn in Hnw. apply orb_false_iff in Hnw. destruct Hnw as [_ Hl].
      apply N.leb_gt in Hl. apply N.ltb_lt. exact Hl. }
    assert (Hszle : (N.to_nat sz <= length s0)%nat).
    { unfold sz. pose proof (wrapZ_unsigned_le 4 (Z.of_nat (length s0)) ltac:(lia)). pose proof (wrapZ_unsigned_range 4 (Z.of_nat (length s0))). lia. }
    assert (Hs1 : length s1 = N.to_nat sz) by (unfold s1; rewrite firstn_length; lia).
    assert (Hzz : Z.of_N sz = wrapZ 4 false (Z.of_nat (length s0))).
    { unfold sz. rewrite Z2N.id; [reflexivity|apply wrapZ_unsigned_range]. }
    exists (le_bytes 4 (Z.of_N sz) ++ s1). split.
    - unfold wrote, emit. cbn [out set_blob set_warn]. rewrite !rev_append_rev, rev_app_distr, app_assoc. reflexivity.
    - intros sr rest Hag Hwf Hi. cbn [exec]. rewrite Hv. cbv zeta. rewrite <- app_assoc in Hi.
      set (lb := le_bytes 4 (Z.of_N sz)) in *.
      assert (Hlb : length lb = 4%nat) by apply le_bytes_length.
      destruct (read_exact sr lb (s1 ++ rest) Hwf Hi) as (u & Hr & I1 & W1 & E1 & E2 & E3 & E4 & E5).
      replace (read sr 4) with (read sr (N.of_nat (length lb))) by (f_equal; lia).
      rewrite Hr. rewrite overlay_full by exact Hlb.
      assert (Hdec : Z.to_N (of_le_bytes lb) = sz).
      { unfold lb. rewrite Hzz. change 4%nat with (N.to_nat 4). rewrite of_le_wrap, <- Hzz. apply N2Z.id. }
      rewrite Hdec, Hshort.
      destruct (read_exact u s1 rest W1 I1) as (u2 & Hr2 & I2 & W2 & F1 & F2 & F3 & F4 & F5).
      replace (read u sz) with (read u (N.of_nat (length s1))) by (f_equal; lia).
      rewrite Hr2.
      eexists. split; [reflexivity|]. split; [exact I2|]. split; [exact W2|].
      assert (Hag2 : agree A sw u2).
      { eapply agree_store_eq; [apply store_eq_refl| |exact Hag]. unfold store_eq. rewrite F1, F2, F3, F4, E1, E2, E3, E4. repeat split. }
      pose proof (agree_kill_blob A sw u2 fstr (eval_idx sw idx) (eval_idx sr idx) s1
                    (take_until_nul (overlay (N.to_nat sz) s1 [])) Hag2) as Hk.
      eapply agree_store_eq; [| |exact Hk].
      + repeat split.
      + apply store_eq_refl.
  Qed.

  (* ---- one-sided changes of the writer that no agreed token can see ---- *)
  Definition no_int_name (f : name) (B : list akey) : Prop := forall g i, In (AInt g i) B -> g <> f.
  Definition no_size_name (f : name) (B : list akey) : Prop := forall g i, In (ASize g i) B -> g <> f.

  Lemma akill_int_no f A : no_int_name f (akill_int f A).
  Proof.
    intros g i H. unfold akill_int in H. apply filter_In in H. destruct H as [_ H].
    apply negb_true_iff in H. apply N.eqb_neq in H. congruence.
  Qed.
  Lemma akill_size_no f A : no_size_name f (akill_size f A).
  Proof.
    intros g i H. unfold akill_size in H. apply filter_In in H. destruct H as [_ H].
    apply negb_true_iff in H. apply N.eqb_neq in H. congruence.
  Qed.
  Lemma akill_int_in f A a : In a (akill_int f A) -> In a A.
  Proof. unfold akill_int. rewrite filter_In. tauto. Qed.
  Lemma akill_size_in f A a : In a (akill_size f A) -> In a A.
  Proof. unfold akill_size. rewrite filter_In. tauto. Qed.

  (* the writer's state may change at scalars of the names [ni], sizes of the names [ns], locals [ls] *)
  Definition w_frame (ni ns : list name) (ls : list lvar) (sw sw2 : state) : Prop :=
    (forall y, ~ In y ls -> get_local sw2 y = get_local sw y) /\
    (forall g i, ~ In g ni -> get_int sw2 (enc_key g i) = get_int sw (enc_key g i)) /\
    (forall g i, ~ In g ns -> get_size sw2 (enc_key g i) = get_size sw (enc_key g i)) /\
    blobs sw2 = blobs sw.

  Lemma w_frame_refl ni ns ls sw : w_frame ni ns ls sw sw.
  Proof. repeat split. Qed.

  Lemma w_frame_trans ni ns ls a b c : w_frame ni ns ls a b -> w_frame ni ns ls b c -> w_frame ni ns ls a c.
  Proof.
    intros (L1 & I1 & S1 & B1) (L2 & I2 & S2 & B2). repeat split.
    - intros y H. rewrite L2, L1; auto.
    - intros g i H. rewrite I2, I1; auto.
    - intros g i H. rewrite S2, S1; auto.
    - congruence.
  Qed.

  Lemma w_frame_set_int ni ns ls sw f i z : In f ni -> w_frame ni ns ls sw (set_int sw (enc_key f i) z).
  Proof.
    intros Hf. repeat split; try reflexivity. intros g j Hg. rewrite get_set_int.
    rewrite skey_eqb_names; [reflexivity|]. intros ->. contradiction.
  Qed.

  Lemma w_frame_set_size ni ns ls sw f i n : In f ns -> w_frame ni ns ls sw (set_size sw (enc_key f i) n).
  Proof.
    intros Hf. repeat split; try reflexivity. intros g j Hg. rewrite get_set_size.
    rewrite skey_eqb_names; [reflexivity|]. intros ->. contradiction.
  Qed.

  Lemma w_frame_set_local ni ns ls sw x z : In x ls -> w_frame ni ns ls sw (set_local sw x z).
  Proof.
    intros Hx. repeat split; try reflexivity. intros y Hy. rewrite get_set_local.
    destruct (N.eqb_spec y x); [subst; contradiction|reflexivity].
  Qed.

  Lemma w_frame_store_eq ni ns ls sw a b : store_eq a b -> w_frame ni ns ls sw a -> w_frame ni ns ls sw b.
  Proof.
    intros (E1 & E2 & E3 & E4) (L & I & S & B). repeat split.
    - intros y H. unfold get_local. rewrite <- E3. apply L. exact H.
    - intros g i H. unfold get_int. rewrite <- E1. apply I. exact H.
    - intros g i H. unfold get_size. rewrite <- E2. apply S. exact H.
    - congruence.
  Qed.

  Lemma eval_idx_frame ls sw sw2 idx :
    (forall y, ~ In y ls -> get_local sw2 y = get_local sw y) ->
    (forall y, In y ls -> idx_mentions y idx = false) -> eval_idx sw2 idx = eval_idx sw idx.
  Proof.
    intros L Hm. unfold eval_idx. apply map_ext_in. intros [n|y] Hy; cbn [eval_i]; [reflexivity|].
    rewrite L; [reflexivity|]. intros Hin. specialize (Hm y Hin). unfold idx_mentions in Hm.
    assert (Hex : existsb (fun i => match i with ILocal z => y =? z | IConst _ => false end) idx = true).
    { apply existsb_exists. exists (ILocal y). split; [exact Hy|apply N.eqb_refl]. }
    congruence.
  Qed.

  Lemma agree_w_frame B ni ns ls sw sw2 sr :
    (forall f, In f ni -> no_int_name f B) -> (forall f, In f ns -> no_size_name f B) ->
    (forall y, In y ls -> xfree y B) ->
    w_frame ni ns ls sw sw2 -> agree B sw sr -> agree B sw2 sr.
  Proof.
    intros Hni Hns Hls (L & I & S & Bq) [Hl Hi Hz Hb].
    constructor.
    - intros x Hx. rewrite L; [apply Hl; exact Hx|].
      intros Hin. exact (Hls x Hin _ Hx eq_refl).
    - intros g i Hg Hidx.
      assert (Hk : key sw2 g i = key sw g i).
      { unfold key. f_equal. apply (eval_idx_frame ls); [exact L|]. intros y Hy. exact (Hls y Hy _ Hg). }
      rewrite Hk. unfold key. rewrite I; [apply Hi; auto|].
      intros Hin. exact (Hni g Hin g i Hg eq_refl).
    - intros g i Hg Hidx.
      assert (Hk : key sw2 g i = key sw g i).
      { unfold key. f_equal. apply (eval_idx_frame ls); [exact L|]. intros y Hy. exact (Hls y Hy _ Hg). }
      rewrite Hk. unfold key. rewrite S; [apply Hz; auto|].
      intros Hin. exact (Hns g Hin g i Hg eq_refl).
    - intros g i Hg Hidx.
      assert (Hk : key sw2 g i = key sw g i).
      { unfold key. f_equal. apply (eval_idx_frame ls); [exact L|]. intros y Hy. exact (Hls y Hy _ Hg). }
      rewrite Hk. unfold get_blob. rewrite Bq. apply Hb; auto.
  Qed.

  (* ---- NiVector::SyncSize ---- *)
  Lemma rt_vecsize A f idx w x :
    idx_agreed A idx = true -> 0 < w ->
    rt_ok0 (SVecSize f idx w x) A (aadd (ALocal x) (akill x (akill_size f A))).
  Proof.
    intros Hidx Hw sw sw' H. cbn [exec] in H. cbv zeta in H.
    set (k := key_of sw f idx) in *.
    set (n1 := if (0 <? get_size sw k) && (2 ^ (8 * w) - 2 <? get_size sw k - 1) then 2 ^ (8 * w) - 2 + 1 else get_size sw k) in *.
    set (sz := wrapZ w false (Z.of_N n1)) in *.
    assert (sw' = set_local (emit (set_size sw k n1) (le_bytes (N.to_nat w) sz)) x sz) by congruence. subst sw'. clear H.
    exists (le_bytes (N.to_nat w) sz). split.
    - unfold wrote, emit. cbn [out set_local set_size]. rewrite rev_append_rev. reflexivity.
    - intros sr rest Hag Hwf Hi. cbn [exec]. cbv zeta.
      set (lb := le_bytes (N.to_nat w) sz) in *.
      assert (Hlb : length lb = N.to_nat w) by apply le_bytes_length.
      destruct (read_exact sr lb rest Hwf Hi) as (u & Hr & I1 & W1 & E1 & E2 & E3 & E4 & E5).
      replace (read sr w) with (read sr (N.of_nat (length lb))) by (f_equal; lia).
      rewrite Hr. rewrite overlay_full by exact Hlb.
      assert (Hdec : of_le_bytes lb = sz) by (unfold lb, sz; apply of_le_wrap).
      rewrite Hdec.
      eexists. split; [reflexivity|]. split; [exact I1|]. split; [exact W1|].
      (* writer: size of f changed (one-sided), then both set x := sz *)
      assert (Ag1 : agree (akill_size f A) sw sr) by (eapply agree_subset; [apply akill_size_in|exact Hag]).
      assert (Ag2 : agree (akill_size f A) (emit (set_size sw k n1) lb) u).
      { eapply agree_store_eq with (sw := set_size sw k n1) (sr := sr).
        - repeat split.
        - unfold store_eq. rewrite E1, E2, E3, E4. repeat split.
        - eapply (agree_w_frame _ [] [f] []); [intros ? []| |intros ? []| |exact Ag1].
          + intros g [<-|[]]. apply akill_size_no.
          + apply w_frame_set_size. left. reflexivity. }
      apply agree_set_local_both; [|apply akill_xfree].
      eapply agree_subset; [apply akill_in|exact Ag2].
  Qed.

  (* ---- NiBlockRefArray: CleanInvalidRefs (writer only), count, resize ---- *)
  Lemma w_frame_weaken ni ns ls ni' ns' ls' a b :
    incl ni ni' -> incl ns ns' -> incl ls ls' -> w_frame ni ns ls a b -> w_frame ni' ns' ls' a b.
  Proof.
    intros H1 H2 H3 (L & I & S & B). repeat split.
    - intros y Hy. apply L. intros Hin. apply Hy. apply H3. exact Hin.
    - intros g i Hg. apply I. intros Hin. apply Hg. apply H1. exact Hin.
    - intros g i Hg. apply S. intros Hin. apply Hg. apply H2. exact Hin.
    - exact B.
  Qed.

  Lemma compact_frame fidx i : forall fuel st src dst n,
    w_frame [fidx] [] [0] st (compact_refs fuel st fidx i src dst n).
  Proof.
    induction fuel as [|f IH]; intros st src dst n; cbn [compact_refs]; [apply w_frame_refl|].
    destruct (src <? n).
    - destruct (Z.eqb _ NPOSZ); [apply IH|].
      eapply w_frame_trans; [|apply IH]. apply w_frame_set_int. left. reflexivity.
    - apply w_frame_set_local. left. reflexivity.
  Qed.

  Lemma clean_frame st fsize fkeep frefs fidx i :
    w_frame [fidx; fsize] [frefs] [0] st (clean_refs st fsize fkeep frefs fidx i).
  Proof.
    unfold clean_refs. destruct (Z.eqb _ 0); [|apply w_frame_refl].
    eapply w_frame_trans.
    - apply (w_frame_weaken [fidx] [] [0]); [| | |apply compact_frame]; intros a Ha; cbn in *; tauto.
    - eapply w_frame_trans.
      + apply w_frame_set_size. left. reflexivity.
      + apply w_frame_set_int. right. left. reflexivity.
  Qed.

  Lemma compact_out fidx i : forall fuel st src dst n, out (compact_refs fuel st fidx i src dst n) = out st.
  Proof.
    induction fuel as [|f IH]; intros st src dst n; cbn [compact_refs]; [reflexivity|].
    destruct (src <? n); [|reflexivity]. destruct (Z.eqb _ NPOSZ); rewrite IH; reflexivity.
  Qed.

  Lemma clean_out st a b c d i : out (clean_refs st a b c d i) = out st.
  Proof. unfold clean_refs. destruct (Z.eqb _ 0); [|reflexivity]. cbn [out set_int set_size]. apply compact_out. Qed.

  Lemma idx_agreed_kills A idx fi1 fi2 fs :
    idx_agreed A idx = true -> idx_mentions 0 idx = false ->
    idx_agreed (akill 0 (akill_int fi1 (akill_int fi2 (akill_size fs A)))) idx = true.
  Proof.
    unfold idx_agreed, idx_mentions. rewrite !forallb_forall. intros H Hm j Hj. specialize (H j Hj).
    destruct j as [n|y]; [reflexivity|]. apply in_amem. apply amem_in in H.
    unfold akill, akill_int, akill_size. rewrite !filter_In. repeat split; auto.
    apply negb_true_iff. apply N.eqb_neq. intros <-.
    assert (Hex : existsb (fun i => match i with ILocal z => 0 =? z | IConst _ => false end) idx = true).
    { apply existsb_exists. exists (ILocal 0). split; [exact Hj|reflexivity]. }
    congruence.
  Qed.

  Lemma rt_refarr_head A fsize fkeep frefs fidx idx :
    idx_agreed A idx = true -> idx_mentions 0 idx = false ->
    rt_ok0 (SRefArrHead fsize fkeep frefs fidx idx 4) A
          (aadd (ASize frefs idx) (aadd (AInt fsize idx) (akill 0 (akill_int fidx (akill_int fsize (akill_size frefs A)))))).
  Proof.
    intros Hidx Hm0 sw sw' H. cbn [exec] in H. cbv zeta in H.
    set (B := akill 0 (akill_int fidx (akill_int fsize (akill_size frefs A)))) in *.
    set (i := eval_idx sw idx) in *.
    set (st0 := clean_refs sw fsize fkeep frefs fidx i) in *.
    set (ksz := enc_key fsize i) in *.
    assert (sw' = set_size (sync_int Wr st0 ksz u32 4) (enc_key frefs i) (Z.to_N (get_int (sync_int Wr st0 ksz u32 4) ksz))) by congruence.
    subst sw'. clear H.
    set (e := encode u32 (get_int st0 ksz)).
    destruct (sync_int_w st0 ksz u32) as (Ww & Sw). fold e in Ww, Sw. change (prim_width u32) with 4 in Ww, Sw.
    assert (HidxB : idx_agreed B idx = true) by (apply idx_agreed_kills; assumption).
    assert (Hloc0 : locals st0 = locals st0) by reflexivity.
    exists e. split.
    - unfold wrote in *. cbn [out set_size]. rewrite Ww.
      assert (Ho : out st0 = out sw) by apply clean_out.
      rewrite Ho. reflexivity.
    - intros sr rest Hag Hwf Hi. cbn [exec]. cbv zeta.
      assert (Hi2 : eval_idx sr idx = i) by (symmetry; eapply idx_agreed_eval; eauto).
      rewrite Hi2. fold ksz.
      assert (Hel : length e = N.to_nat (prim_width u32)) by apply encode_length.
      destruct (sync_int_r sr ksz u32 e rest ltac:(cbn; lia) Hel Hwf Hi) as (I1 & W1 & S1).
      change (prim_width u32) with 4 in I1, W1, S1.
      eexists. split; [reflexivity|]. split; [exact I1|]. split; [exact W1|].
      (* agreement *)
      assert (AgB : agree B sw sr).
      { eapply agree_subset; [|exact Hag]. intros a Ha. unfold B in Ha.
        apply akill_in in Ha. apply akill_int_in in Ha. apply akill_int_in in Ha. apply akill_size_in in Ha. exact Ha. }
      assert (AgB0 : agree B st0 sr).
      { eapply (agree_w_frame B [fidx; fsize] [frefs] [0]); [| | |apply clean_frame|exact AgB].
        - intros g Hg h j Hj. unfold B in Hj. apply akill_in in Hj. destruct Hg as [Hg|[Hg|[]]]; subst g.
          + apply (akill_int_no fidx _ h j Hj).
          + apply akill_int_in in Hj. apply (akill_int_no fsize _ h j Hj).
        - intros g Hg h j Hj. destruct Hg as [Hg|[]]; subst g. unfold B in Hj. apply akill_in in Hj. apply akill_int_in in Hj. apply akill_int_in in Hj.
          apply (akill_size_no frefs _ h j Hj).
        - intros y [<-|[]]. apply akill_xfree. }
      (* both sides now hold the decoded count *)
      set (z := decode u32 e) in *.
      assert (Hkw : key st0 fsize idx = ksz).
      { unfold key, ksz. f_equal. unfold i.
        apply (eval_idx_frame [0]); [apply clean_frame|]. intros y [<-|[]]. exact Hm0. }
      assert (Hkr : key sr fsize idx = ksz) by (unfold key, ksz; rewrite Hi2; reflexivity).
      pose proof (agree_set_int_both B st0 sr fsize idx z AgB0 HidxB) as Ag1. rewrite Hkw, Hkr in Ag1.
      assert (Ag1' : agree (aadd (AInt fsize idx) B) (sync_int Wr st0 ksz u32 4) (sync_int Rd sr ksz u32 4)).
      { eapply agree_store_eq; [apply store_eq_sym; exact Sw|apply store_eq_sym; exact S1|exact Ag1]. }
      assert (Hgw : get_int (sync_int Wr st0 ksz u32 4) ksz = z).
      { destruct Sw as (E & _ & _). unfold get_int. rewrite E. fold (get_int (set_int st0 ksz z) ksz).
        rewrite get_set_int, skey_eqb_refl. reflexivity. }
      assert (Hgr : get_int (sync_int Rd sr ksz u32 4) ksz = z).
      { destruct S1 as (E & _ & _). unfold get_int. rewrite E. fold (get_int (set_int sr ksz z) ksz).
        rewrite get_set_int, skey_eqb_refl. reflexivity. }
      rewrite Hgw, Hgr.
      assert (HidxB1 : idx_agreed (aadd (AInt fsize idx) B) idx = true).
      { eapply idx_agreed_mono; [|exact HidxB]. intros a Ha. apply in_aadd_old. exact Ha. }
      pose proof (agree_set_size_both _ _ _ frefs idx (Z.to_N z) Ag1' HidxB1) as Ag2.
      assert (Hk2w : key (sync_int Wr st0 ksz u32 4) frefs idx = enc_key frefs i).
      { unfold key. f_equal. destruct Sw as (_ & _ & E & _).
        transitivity (eval_idx st0 idx).
        - unfold eval_idx. apply map_ext. intros [n|y]; cbn [eval_i]; [reflexivity|]. unfold get_local. rewrite E. reflexivity.
        - apply (eval_idx_frame [0]); [apply clean_frame|]. intros y [<-|[]]. exact Hm0. }
      assert (Hk2r : key (sync_int Rd sr ksz u32 4) frefs idx = enc_key frefs i).
      { unfold key. f_equal. destruct S1 as (_ & _ & E & _). rewrite <- Hi2.
        unfold eval_idx. apply map_ext. intros [n|y]; cbn [eval_i]; [reflexivity|]. unfold get_local. rewrite E. reflexivity. }
      rewrite Hk2w, Hk2r in Ag2. exact Ag2.
  Qed.

  (* ---- the check is sound ---- *)
  Theorem chk_sound : forall s A A', chk v s A = Some A' -> rt_ok s A A'.
  Proof.
    induction s; intros A A' H; cbn [chk] in H; try discriminate.
    - inversion H; subst. apply rt_ok0_ok. apply rt_skip.
    - destruct (chk v s1 A) as [A1|] eqn:E1; [|discriminate].
      eapply rt_seq; eauto.
    - destruct (ver_only v c) as [z|] eqn:Ev.
      + eapply rt_if_ver; [exact Ev|]. destruct (Z.eqb z 0); auto.
      + destruct (reads_ok A c) eqn:Ec; [|discriminate].
        destruct (chk v s1 A) as [A1|] eqn:E1; [|discriminate].
        destruct (chk v s2 A) as [A2|] eqn:E2; [|discriminate].
        inversion H; subst. apply rt_if_dyn; auto.
    - (* SSync *)
      destruct (idx_agreed A idx && full_width p)%bool eqn:E; [|discriminate]. inversion H; subst.
      apply andb_prop in E. destruct E as [E1 E2].
      apply rt_ok0_ok. apply (rt_scalar A (SSync f idx p) f idx p false E1 (full_width_pos p E2)).
      intros m st. reflexivity.
    - (* SSyncLocal *)
      destruct (full_width p) eqn:E; [|discriminate]. inversion H; subst.
      apply rt_ok0_ok. apply rt_synclocal. exact E.
    - (* SBytes *)
      destruct (idx_agreed A idx && reads_ok A n)%bool eqn:E; [|discriminate]. inversion H; subst.
      apply andb_prop in E. destruct E as [E1 E2]. apply rt_ok0_ok. apply rt_bytes; assumption.
    - (* SBytesVec *)
      destruct (idx_agreed A idx && amem (ASize f idx) A)%bool eqn:E; [|discriminate]. inversion H; subst.
      apply andb_prop in E. destruct E as [E1 E2]. apply rt_ok0_ok. apply rt_bytesvec; assumption.
    - (* SHalf *)
      destruct (idx_agreed A idx) eqn:E; [|discriminate]. inversion H; subst.
      apply rt_ok0_ok. apply (rt_scalar A (SHalf f idx) f idx (PInt false 2) false E); [cbn; lia|].
      intros m st. reflexivity.
    - (* SNiString *)
      destruct ((0 <? w) && (w <=? 8))%bool eqn:E; [|discriminate]. inversion H; subst.
      apply andb_prop in E. destruct E as [E1 _]. apply rt_ok0_ok. apply rt_nistring. apply N.ltb_lt. exact E1.
    - (* SStrRef *)
      destruct (Z.ltb (vfile v) V20_1_0_3) eqn:Ev.
      { inversion H; subst. apply rt_strref_old. exact Ev. }
      destruct (idx_agreed A idx) eqn:E; [|discriminate]. inversion H; subst.
      apply rt_ok0_ok. apply (rt_scalar A (SStrRef fstr findex idx) findex idx u32 true E); [cbn; lia|].
      intros m st. cbn [exec]. rewrite Ev. cbv zeta. unfold maybe_log.
      rewrite sync_int_log_ref. reflexivity.
    - (* SRef *)
      destruct (idx_agreed A idx) eqn:E; [|discriminate]. inversion H; subst.
      apply rt_ok0_ok. apply (rt_scalar A (SRef f idx) f idx u32 true E); [cbn; lia|].
      intros m st. cbn [exec]. cbv zeta. unfold maybe_log. rewrite sync_int_log_ref. reflexivity.
    - (* SRefArrHead *)
      destruct (idx_agreed A idx && (w =? 4) && negb (idx_mentions 0 idx))%bool eqn:E; [|discriminate]. inversion H; subst.
      apply andb_prop in E. destruct E as [E E3]. apply andb_prop in E. destruct E as [E1 E2].
      apply N.eqb_eq in E2. subst w. apply negb_true_iff in E3. apply rt_ok0_ok. apply rt_refarr_head; assumption.
    - (* SVecSize *)
      destruct (idx_agreed A idx && (0 <? w) && (w <=? 8))%bool eqn:E; [|discriminate]. inversion H; subst.
      apply andb_prop in E. destruct E as [E _]. apply andb_prop in E. destruct E as [E1 E2].
      apply rt_ok0_ok. apply rt_vecsize; [exact E1|apply N.ltb_lt; exact E2].
    - (* SResize *)
      destruct (idx_agreed A idx && reads_ok A n)%bool eqn:E; [|discriminate]. inversion H; subst.
      apply andb_prop in E. destruct E as [E1 E2]. apply rt_ok0_ok. apply rt_resize; assumption.
    - (* SFor *)
      destruct (reads_ok A n) eqn:En; [|discriminate].
      destruct (chk v s (aadd (ALocal x) (akill x A))) as [A1|] eqn:E1; [|discriminate].
      destruct (asubset (aadd (ALocal x) (akill x A)) A1) eqn:Es; [|discriminate].
      inversion H; subst. eapply rt_for; eauto.
    - (* SLocal *)
      destruct (reads_ok A e) eqn:Ee; [|discriminate]. inversion H; subst. apply rt_ok0_ok. apply rt_local; assumption.
    - (* SAssign *)
      destruct (idx_agreed A idx && reads_ok A e)%bool eqn:E; [|discriminate]. inversion H; subst.
      apply andb_prop in E. destruct E as [E1 E2]. apply rt_ok0_ok. apply rt_assign; assumption.
  Qed.
End Rt.

(* ---- block level ---- *)
Lemma agree_nil sw sr : agree [] sw sr.
Proof. constructor; intros; contradiction. Qed.

Lemma wfio_empty l : wfio (empty_state l).
Proof. split; reflexivity. Qed.

Definition block_prog (b : stmt * stmt) : stmt := SSeq (fst b) (snd b).

Lemma chk_block_prog v b : chk_block v b = true -> exists A', chk v (block_prog b) [] = Some A'.
Proof.
  unfold chk_block, block_prog. cbn [chk]. destruct (chk v (fst b) []) as [A0|]; [|discriminate].
  destruct (chk v (snd b) A0) as [A1|]; [|discriminate]. intros _. eauto.
Qed.

(* Write any object with an accepted block program; read the bytes (followed by anything) into a
   freshly constructed object: the read succeeds, consumes exactly the bytes written, and the object read
   agrees with the written one on everything the check tracked (in particular on every scalar field,
   reference, count and container size the block serialises outside loops, and inside loops for the
   duration of each iteration). *)
Theorem block_round_trip v hs b :
  chk_block v b = true ->
  forall obj sw', exec Wr v hs (block_prog b) obj = Ok sw' -> warn sw' = false ->
  exists bytes A', out sw' = rev bytes ++ out obj /\
    forall rest, exists sr', exec Rd v hs (block_prog b) (empty_state (bytes ++ rest)) = Ok sr' /\
                             inp sr' = rest /\ eof sr' = false /\ agree A' sw' sr'.
Proof.
  intros Hc obj sw' Hx Hnw. destruct (chk_block_prog v b Hc) as (A' & HA).
  destruct (chk_sound v hs (block_prog b) [] A' HA obj sw' Hx Hnw) as (bytes & W & R).
  exists bytes, A'. split; [exact W|].
  intros rest. destruct (R (empty_state (bytes ++ rest)) rest (agree_nil _ _) (wfio_empty _) eq_refl) as (sr' & X & I & Wf & Ag).
  exists sr'. split; [exact X|]. split; [exact I|]. split; [apply Wf|exact Ag].
Qed.
