(* NiVector::Sync in the write-idempotence discipline: "write the size, then resize to the size just written".
   The resize changes nothing, so the pair behaves as the size transfer alone (simulation lemma). *)
From NiflyVerif Require Import IR Exec IREq Refs RtDefs RtProofs WiDefs WiProofs WkDefs EncInj WkProofs.
Local Open Scope N_scope.

Definition st_sim (a b : state) : Prop := (forall n l, getv n a l = getv n b l) /\ locals a = locals b /\ out a = out b.

Section Sim.
  Variable v : version.
  Variable hs : Z -> bool.
  Variable Wtot : list wn.
  Variable sf : state.

  (* a statement that behaves like another one up to the representation of the stores inherits its judgement *)
  Lemma wk_ok_sim P a s C L C' L' :
    (forall st sa, exec Wr v hs a st = Ok sa -> exists ss, exec Wr v hs s st = Ok ss /\ st_sim ss sa) ->
    (forall st ss, exec Wr v hs s st = Ok ss -> exists sa, exec Wr v hs a st = Ok sa) ->
    wk_ok v hs Wtot sf P a C L C' L' -> wk_ok v hs Wtot sf P s C L C' L'.
  Proof.
    intros Has Hsa (M & ML & H). split; [exact M|]. split; [exact ML|].
    intros t1 t1' Hx. destruct (Hsa t1 t1' Hx) as (sa & Xa). destruct (Has t1 sa Xa) as (ss & Xs & (G & Lc & O)).
    assert (ss = t1') by congruence. subst ss.
    destruct (H t1 sa Xa) as (V & F & ex & Wx & R).
    assert (GL : forall y, get_local t1' y = get_local sa y) by (intros y; unfold get_local; rewrite Lc; reflexivity).
    split; [intros y Hy; rewrite GL; apply V; exact Hy|]. split; [intros n l Hc; rewrite G; apply F; exact Hc|].
    exists ex. split; [unfold wrote in *; rewrite O; exact Wx|].
    intros t2 HI Hh.
    destruct (R t2 HI) as (t2a & X2 & W2 & I2).
    { intros n E1 E0 l Hs. rewrite <- G. apply Hh; assumption. }
    destruct (Has t2 t2a X2) as (t2s & X2s & (G2 & Lc2 & O2)).
    exists t2s. split; [exact X2s|]. split; [unfold wrote in *; rewrite O2; exact W2|].
    constructor.
    - intros n l. rewrite G2. apply (inv_ext _ _ _ _ _ _ _ I2).
    - intros n Hr l Hs. rewrite G. apply (inv_done _ _ _ _ _ _ _ I2 n Hr).
      apply (in_slice_locals P t1' sa); [|exact Hs]. intros y _. symmetry. apply GL.
    - intros y Hy. rewrite GL. unfold get_local at 2. rewrite Lc2. apply (inv_loc _ _ _ _ _ _ _ I2 y Hy).
    - apply (inv_cv _ _ _ _ _ _ _ I2).
  Qed.

  Lemma clampN_bound w n : 0 < w -> clampN w n < 2 ^ (8 * w).
  Proof.
    intros Hw. assert (H2 : 2 <= 2 ^ (8 * w)).
    { change 2 with (2 ^ 1) at 1. apply N.pow_le_mono_r; lia. }
    unfold clampN. destruct ((0 <? n) && (2 ^ (8 * w) - 2 <? n - 1))%bool eqn:E; [lia|].
    apply andb_false_iff in E. destruct E as [E|E].
    - apply N.ltb_ge in E. lia.
    - apply N.ltb_ge in E. lia.
  Qed.

  Lemma eval_idx_not_mentioned st x z idx : idx_mentions x idx = false -> eval_idx (set_local st x z) idx = eval_idx st idx.
  Proof.
    unfold idx_mentions, eval_idx. intros H. apply map_ext_in. intros a Ha. destruct a as [c|y]; [reflexivity|]. cbn [eval_i].
    rewrite get_set_local. destruct (N.eqb_spec y x) as [->|]; [|reflexivity].
    exfalso. assert (E : existsb (fun i => match i with ILocal y => x =? y | IConst _ => false end) idx = true).
    { apply existsb_exists. exists (ILocal x). split; [exact Ha|apply N.eqb_refl]. }
    congruence.
  Qed.

  Lemma wk_vecresize P f idx w x C L :
    target_ok Wtot P C L (WSize f) idx = true -> free_var P x = true -> 0 < w -> idx_mentions x idx = false ->
    wk_ok v hs Wtot sf P (SSeq (SVecSize f idx w x) (SResize f idx (ELocal x))) C L (WSize f :: C) (x :: L).
  Proof.
    intros Ht Hf Hw Hm.
    apply (wk_ok_sim P (SVecSize f idx w x)); [| |apply wk_vecsize; assumption].
    - intros st sa Ha. cbn [exec] in Ha. cbv zeta in Ha. rewrite key_of_key in Ha. unfold key in Ha.
      set (k := enc_key f (eval_idx st idx)) in *.
      fold (clampN w (get_size st k)) in Ha. set (n1 := clampN w (get_size st k)) in *.
      assert (Hsa : sa = set_local (emit (set_size st k n1) (le_bytes (N.to_nat w) (wrapZ w false (Z.of_N n1)))) x (wrapZ w false (Z.of_N n1))) by congruence.
      clear Ha.
      assert (Hn1 : n1 < 2 ^ (8 * w)) by (apply clampN_bound; exact Hw).
      assert (Hwrap : wrapZ w false (Z.of_N n1) = Z.of_N n1).
      { unfold wrapZ. cbv zeta. apply Z.mod_small. split; [lia|].
        assert (Hc : Z.of_N (2 ^ (8 * w)) = (2 ^ (8 * Z.of_N w))%Z) by (rewrite N2Z.inj_pow; f_equal; lia).
        rewrite <- Hc. lia. }
      exists (set_size sa k n1). split.
      + change (exec Wr v hs (SSeq (SVecSize f idx w x) (SResize f idx (ELocal x))) st)
          with (bind (exec Wr v hs (SVecSize f idx w x) st) (exec Wr v hs (SResize f idx (ELocal x)))).
        assert (Xa : exec Wr v hs (SVecSize f idx w x) st = Ok sa).
        { cbn [exec]. cbv zeta. rewrite key_of_key. unfold key. fold k. fold (clampN w (get_size st k)). fold n1. rewrite Hsa. reflexivity. }
        rewrite Xa. cbn [bind exec eval]. cbv zeta. cbn [bind]. rewrite key_of_key. unfold key.
        assert (Hl : get_local sa x = Z.of_N n1) by (rewrite Hsa, get_set_local, N.eqb_refl; exact Hwrap).
        assert (Hi : eval_idx sa idx = eval_idx st idx).
        { rewrite Hsa. rewrite eval_idx_not_mentioned by exact Hm. reflexivity. }
        rewrite Hl, Hi, N2Z.id. reflexivity.
      + split; [|split; reflexivity]. intros n l. apply getv_set_size_same.
        rewrite Hsa. change (get_size (set_local (emit ?a ?b) ?y ?z) ?kk) with (get_size a kk). rewrite get_set_size, skey_eqb_refl. reflexivity.
    - intros st ss Hs.
      change (exec Wr v hs (SSeq (SVecSize f idx w x) (SResize f idx (ELocal x))) st)
        with (bind (exec Wr v hs (SVecSize f idx w x) st) (exec Wr v hs (SResize f idx (ELocal x)))) in Hs.
      destruct (exec Wr v hs (SVecSize f idx w x) st) as [sa| |]; [eexists; reflexivity|discriminate|discriminate].
  Qed.
End Sim.
