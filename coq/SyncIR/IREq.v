(* Decidable structural equality of SyncIR programs (used to compare the IR generated from the
   reference sources with the IR generated from the working tree: C08). *)
From NiflyVerif Require Import IR.
Local Open Scope N_scope.

Definition prim_eqb (a b : prim) : bool :=
  match a, b with
  | PInt s w, PInt s' w' => Bool.eqb s s' && (w =? w')
  | PFloat w, PFloat w' => w =? w'
  | PBool, PBool => true
  | _, _ => false
  end.

Definition ver_eqb (a b : verfield) : bool :=
  match a, b with VFile, VFile | VUser, VUser | VStream, VStream => true | _, _ => false end.

Definition binop_code (o : binop) : N :=
  match o with
  | Oadd => 0 | Osub => 1 | Omul => 2 | Odiv => 3 | Omod => 4 | Olt => 5 | Ogt => 6 | Ole => 7 | Oge => 8
  | Oeq => 9 | One => 10 | Oand => 11 | Oor => 12 | Oband => 13 | Obor => 14 | Obxor => 15 | Oshl => 16
  | Oshr => 17 | Omin => 18 | Omax => 19
  end.
Definition binop_eqb (a b : binop) : bool := binop_code a =? binop_code b.
Definition unop_eqb (a b : unop) : bool :=
  match a, b with Onot, Onot | Oneg, Oneg | Obnot, Obnot => true | _, _ => false end.

Definition iexpr_eqb (a b : iexpr) : bool :=
  match a, b with
  | IConst n, IConst n' => n =? n'
  | ILocal x, ILocal x' => x =? x'
  | _, _ => false
  end.

Fixpoint idx_eqb (l l' : list iexpr) : bool :=
  match l, l' with
  | [], [] => true
  | x :: r, y :: r' => iexpr_eqb x y && idx_eqb r r'
  | _, _ => false
  end.

Fixpoint expr_eqb (a b : expr) : bool :=
  match a, b with
  | EConst z, EConst z' => Z.eqb z z'
  | ELoad f i, ELoad f' i' => (f =? f') && idx_eqb i i'
  | ESize f i, ESize f' i' => (f =? f') && idx_eqb i i'
  | EStrLen f i, EStrLen f' i' => (f =? f') && idx_eqb i i'
  | ELocal x, ELocal x' => x =? x'
  | EVer v, EVer v' => ver_eqb v v'
  | EBin o x y, EBin o' x' y' => binop_eqb o o' && expr_eqb x x' && expr_eqb y y'
  | EUn o x, EUn o' x' => unop_eqb o o' && expr_eqb x x'
  | ECast w s x, ECast w' s' x' => (w =? w') && Bool.eqb s s' && expr_eqb x x'
  | ECond c x y, ECond c' x' y' => expr_eqb c c' && expr_eqb x x' && expr_eqb y y'
  | EMode, EMode => true
  | EHdrStrEmpty f i, EHdrStrEmpty f' i' => (f =? f') && idx_eqb i i'
  | EOpaque, EOpaque => true
  | _, _ => false
  end.

Fixpoint stmt_eqb (a b : stmt) : bool :=
  match a, b with
  | SSkip, SSkip => true
  | SSeq x y, SSeq x' y' => stmt_eqb x x' && stmt_eqb y y'
  | SIf c t e, SIf c' t' e' => expr_eqb c c' && stmt_eqb t t' && stmt_eqb e e'
  | SSync f i p, SSync f' i' p' => (f =? f') && idx_eqb i i' && prim_eqb p p'
  | SSyncLocal x p, SSyncLocal x' p' => (x =? x') && prim_eqb p p'
  | SSyncPart f i p k, SSyncPart f' i' p' k' => (f =? f') && idx_eqb i i' && prim_eqb p p' && (k =? k')
  | SBytes f i n, SBytes f' i' n' => (f =? f') && idx_eqb i i' && expr_eqb n n'
  | SBytesVec f i, SBytesVec f' i' => (f =? f') && idx_eqb i i'
  | SHalf f i, SHalf f' i' => (f =? f') && idx_eqb i i'
  | SNiString f i w, SNiString f' i' w' => (f =? f') && idx_eqb i i' && (w =? w')
  | SStrRef f g i, SStrRef f' g' i' => (f =? f') && (g =? g') && idx_eqb i i'
  | SCStr f i, SCStr f' i' => (f =? f') && idx_eqb i i'
  | SRef f i, SRef f' i' => (f =? f') && idx_eqb i i'
  | SRefArrHead a1 a2 a3 a4 i w, SRefArrHead b1 b2 b3 b4 i' w' =>
    (a1 =? b1) && (a2 =? b2) && (a3 =? b3) && (a4 =? b4) && idx_eqb i i' && (w =? w')
  | SCleanRefs a1 a2 a3 a4 i, SCleanRefs b1 b2 b3 b4 i' =>
    (a1 =? b1) && (a2 =? b2) && (a3 =? b3) && (a4 =? b4) && idx_eqb i i'
  | SVecSize f i w x, SVecSize f' i' w' x' => (f =? f') && idx_eqb i i' && (w =? w') && (x =? x')
  | SResize f i n, SResize f' i' n' => (f =? f') && idx_eqb i i' && expr_eqb n n'
  | SFor x n s, SFor x' n' s' => (x =? x') && expr_eqb n n' && stmt_eqb s s'
  | SLocal x p e, SLocal x' p' e' => (x =? x') && prim_eqb p p' && expr_eqb e e'
  | SAssign f i p e, SAssign f' i' p' e' => (f =? f') && idx_eqb i i' && prim_eqb p p' && expr_eqb e e'
  | SOpaque, SOpaque => true
  | _, _ => false
  end.

(* ---- soundness: a boolean "equal" means syntactically the same program ---- *)
Lemma prim_eqb_eq a b : prim_eqb a b = true -> a = b.
Proof.
  destruct a, b; cbn; try discriminate; intros H.
  - apply andb_prop in H. destruct H as [H1 H2]. apply Bool.eqb_prop in H1. apply N.eqb_eq in H2. congruence.
  - apply N.eqb_eq in H. congruence.
  - reflexivity.
Qed.

Lemma ver_eqb_eq a b : ver_eqb a b = true -> a = b.
Proof. destruct a, b; cbn; congruence. Qed.

Lemma binop_eqb_eq a b : binop_eqb a b = true -> a = b.
Proof. destruct a, b; cbn; intros H; try reflexivity; discriminate. Qed.

Lemma unop_eqb_eq a b : unop_eqb a b = true -> a = b.
Proof. destruct a, b; cbn; congruence. Qed.

Lemma iexpr_eqb_eq a b : iexpr_eqb a b = true -> a = b.
Proof. destruct a, b; cbn; try discriminate; intros H; apply N.eqb_eq in H; congruence. Qed.

Lemma idx_eqb_eq : forall l l', idx_eqb l l' = true -> l = l'.
Proof.
  induction l as [|x r IH]; intros [|y r'] H; cbn in H; try discriminate; [reflexivity|].
  apply andb_prop in H. destruct H as [H1 H2]. apply iexpr_eqb_eq in H1. f_equal; auto.
Qed.

Lemma expr_eqb_eq : forall a b, expr_eqb a b = true -> a = b.
Proof.
  induction a; intros b Hb; destruct b; cbn in Hb; try discriminate;
    repeat match goal with
           | H : (_ && _)%bool = true |- _ => apply andb_prop in H; destruct H
           end;
    repeat match goal with
           | H : (_ =? _) = true |- _ => apply N.eqb_eq in H
           | H : Z.eqb _ _ = true |- _ => apply Z.eqb_eq in H
           | H : Bool.eqb _ _ = true |- _ => apply Bool.eqb_prop in H
           | H : ver_eqb _ _ = true |- _ => apply ver_eqb_eq in H
           | H : binop_eqb _ _ = true |- _ => apply binop_eqb_eq in H
           | H : unop_eqb _ _ = true |- _ => apply unop_eqb_eq in H
           | H : idx_eqb _ _ = true |- _ => apply idx_eqb_eq in H
           | IH : forall b, expr_eqb ?a b = true -> ?a = b, H : expr_eqb ?a _ = true |- _ => apply IH in H
           end;
    subst; reflexivity.
Qed.

Lemma stmt_eqb_eq : forall a b, stmt_eqb a b = true -> a = b.
Proof.
  induction a; intros b Hb; destruct b; cbn in Hb; try discriminate;
    repeat match goal with
           | H : (_ && _)%bool = true |- _ => apply andb_prop in H; destruct H
           end;
    repeat match goal with
           | H : (_ =? _) = true |- _ => apply N.eqb_eq in H
           | H : prim_eqb _ _ = true |- _ => apply prim_eqb_eq in H
           | H : expr_eqb _ _ = true |- _ => apply expr_eqb_eq in H
           | H : idx_eqb _ _ = true |- _ => apply idx_eqb_eq in H
           | IH : forall b, stmt_eqb ?a b = true -> ?a = b, H : stmt_eqb ?a _ = true |- _ => apply IH in H
           end;
    subst; reflexivity.
Qed.

(* tables of (block id, (init, body)) *)
Fixpoint table_eqb (a b : list (N * (stmt * stmt))) : bool :=
  match a, b with
  | [], [] => true
  | (i, (x, y)) :: r, (i', (x', y')) :: r' => (i =? i') && stmt_eqb x x' && stmt_eqb y y' && table_eqb r r'
  | _, _ => false
  end.

Lemma table_eqb_eq : forall a b, table_eqb a b = true -> a = b.
Proof.
  induction a as [|[i [x y]] r IH]; intros [|[i' [x' y']] r'] H; cbn in H; try discriminate; [reflexivity|].
  repeat match goal with
         | H : (_ && _)%bool = true |- _ => apply andb_prop in H; destruct H
         end.
  repeat match goal with
         | H : (_ =? _) = true |- _ => apply N.eqb_eq in H
         | H : stmt_eqb _ _ = true |- _ => apply stmt_eqb_eq in H
         end.
  subst. f_equal. auto.
Qed.

(* per-entry comparison, for naming the block types whose encoding changed *)
Fixpoint table_diff (a b : list (N * (stmt * stmt))) : list N :=
  match a, b with
  | [], l => map fst l
  | (i, (x, y)) :: r, (i', (x', y')) :: r' =>
    (if (i =? i') && stmt_eqb x x' && stmt_eqb y y' then [] else [i]) ++ table_diff r r'
  | l, [] => map fst l
  end.
