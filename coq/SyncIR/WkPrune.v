(* Branches that a write run of a given version never takes are removed before the write-once discipline is
   applied: conditions on the version triple and on the stream mode are decided (both runs of the
   idempotence statement are write runs). The pruned program runs exactly like the original one; its set of
   modified field names is smaller (a member that only the read branch assigns is not "modified"). *)
From NiflyVerif Require Import IR Exec IREq Refs RtDefs RtProofs WiDefs WiProofs WkDefs WkProofs WkSound.
Local Open Scope N_scope.

Fixpoint wr_only (v : version) (e : expr) : option Z :=
  match e with
  | EConst z => Some z
  | EMode => Some 1%Z
  | EVer VFile => Some (vfile v) | EVer VUser => Some (vuser v) | EVer VStream => Some (vstream v)
  | EBin Oand a b =>
    match wr_only v a with
    | Some x => if Z.eqb x 0 then Some 0%Z
                else match wr_only v b with Some y => Some (bool_z (negb (Z.eqb y 0))) | None => None end
    | None => None
    end
  | EBin Oor a b =>
    match wr_only v a with
    | Some x => if Z.eqb x 0
                then match wr_only v b with Some y => Some (bool_z (negb (Z.eqb y 0))) | None => None end
                else Some 1%Z
    | None => None
    end
  | EBin o a b =>
    match wr_only v a, wr_only v b with
    | Some x, Some y => match eval_bin o x y with Ok z => Some z | _ => None end
    | _, _ => None
    end
  | EUn Onot a => match wr_only v a with Some x => Some (bool_z (Z.eqb x 0)) | None => None end
  | _ => None
  end.

Fixpoint prune (v : version) (s : stmt) : stmt :=
  match s with
  | SSeq a b => SSeq (prune v a) (prune v b)
  | SIf c t e =>
    match wr_only v c with
    | Some z => if Z.eqb z 0 then prune v e else prune v t
    | None => SIf c (prune v t) (prune v e)
    end
  | SFor x n b => SFor x n (prune v b)
  | _ => s
  end.

Definition kchk_block_p (v : version) (b : stmt * stmt) : bool :=
  let s := prune v (snd b) in
  match kchk (targets s) v [] s [] [] with Some _ => true | None => false end.

Section Prune.
  Variable v : version.
  Variable hs : Z -> bool.

  Lemma wr_only_bin o a b zr :
    o <> Oand -> o <> Oor -> wr_only v (EBin o a b) = Some zr ->
    exists x y, wr_only v a = Some x /\ wr_only v b = Some y /\ eval_bin o x y = Ok zr.
  Proof.
    intros Ha Ho H.
    assert (Hg : match wr_only v a, wr_only v b with
                 | Some x, Some y => match eval_bin o x y with Ok z => Some z | _ => None end
                 | _, _ => None
                 end = Some zr).
    { destruct o; try exact H; congruence. }
    destruct (wr_only v a) as [x|]; [|discriminate].
    destruct (wr_only v b) as [y|]; [|discriminate].
    exists x, y. repeat split; auto.
    destruct (eval_bin o x y); congruence.
  Qed.

  Lemma wr_only_sound : forall e st zr, wr_only v e = Some zr -> eval Wr v hs st e = Ok zr.
  Proof.
    induction e; intros st zr H; try (cbn [wr_only] in H; discriminate).
    - cbn in H. inversion H; reflexivity.
    - destruct v0; cbn in H; inversion H; reflexivity.
    - destruct (binop_eqb o Oand) eqn:Eand.
      + apply binop_eqb_eq in Eand. subst o. cbn [wr_only] in H. cbn [eval].
        destruct (wr_only v e1) as [x|] eqn:H1; [|discriminate].
        rewrite (IHe1 st x eq_refl). cbn [bind].
        destruct (Z.eqb x 0); [inversion H; reflexivity|].
        destruct (wr_only v e2) as [y|] eqn:H2; [|discriminate].
        rewrite (IHe2 st y eq_refl). cbn [bind]. inversion H; reflexivity.
      + destruct (binop_eqb o Oor) eqn:Eor.
        * apply binop_eqb_eq in Eor. subst o. cbn [wr_only] in H. cbn [eval].
          destruct (wr_only v e1) as [x|] eqn:H1; [|discriminate].
          rewrite (IHe1 st x eq_refl). cbn [bind].
          destruct (Z.eqb x 0); [|inversion H; reflexivity].
          destruct (wr_only v e2) as [y|] eqn:H2; [|discriminate].
          rewrite (IHe2 st y eq_refl). cbn [bind]. inversion H; reflexivity.
        * assert (Hna : o <> Oand) by (intros ->; discriminate).
          assert (Hno : o <> Oor) by (intros ->; discriminate).
          destruct (wr_only_bin o e1 e2 zr Hna Hno H) as (x & y & H1 & H2 & He).
          specialize (IHe1 st x H1). specialize (IHe2 st y H2).
          destruct o; try congruence; cbn [eval]; rewrite IHe1; cbn [bind]; rewrite IHe2; cbn [bind]; exact He.
    - destruct o; cbn [wr_only] in H; try discriminate.
      destruct (wr_only v e) as [x|] eqn:H1; [|discriminate].
      cbn [eval]. rewrite (IHe st x eq_refl). cbn [bind]. inversion H; reflexivity.
    - cbn in H. inversion H; reflexivity.
  Qed.

  Lemma iter_loop_ext (f g : state -> res state) x n st :
    (forall s, f s = g s) -> iter_loop f x n st = iter_loop g x n st.
  Proof.
    intros E. unfold iter_loop. f_equal.
    induction n as [|k IH] using N.peano_ind; [reflexivity|].
    rewrite !N.iter_succ. rewrite IH.
    clear IH. set (r := N.iter k _ (Ok (0, st))). clearbody r.
    destruct r as [[i s]| |]; cbn [bind]; try reflexivity. rewrite E. reflexivity.
  Qed.

  Lemma prune_exec : forall s st, exec Wr v hs (prune v s) st = exec Wr v hs s st.
  Proof.
    induction s; intros st; cbn [prune]; try reflexivity.
    - (* SSeq *)
      change (exec Wr v hs (SSeq ?a ?b) st) with (bind (exec Wr v hs a st) (exec Wr v hs b)).
      rewrite IHs1. destruct (exec Wr v hs s1 st) as [s'| |]; cbn [bind]; auto.
    - (* SIf *)
      destruct (wr_only v c) as [z|] eqn:Ev.
      + cbn [exec]. rewrite (wr_only_sound c st z Ev). cbn [bind]. destruct (Z.eqb z 0); auto.
      + cbn [exec]. destruct (eval Wr v hs st c) as [z| |]; cbn [bind]; try reflexivity.
        destruct (Z.eqb z 0); auto.
    - (* SFor *)
      cbn [exec]. destruct (eval Wr v hs st n) as [z| |]; cbn [bind]; try reflexivity.
      apply iter_loop_ext. exact IHs.
  Qed.
End Prune.

(* the idempotence theorem for the original program, decided on the pruned one *)
Theorem block_write_idem_pruned v hs b :
  kchk_block_p v b = true ->
  forall o o1, exec Wr v hs (snd b) o = Ok o1 ->
  exists bytes, out o1 = rev bytes ++ out o /\
    exists o2, exec Wr v hs (snd b) o1 = Ok o2 /\ out o2 = rev bytes ++ out o1 /\ ext_eq o2 o1.
Proof.
  unfold kchk_block_p. cbv zeta.
  destruct (kchk (targets (prune v (snd b))) v [] (prune v (snd b)) [] []) as [[C' L']|] eqn:E; [|discriminate].
  intros _ o o1 Hx. rewrite <- (prune_exec v hs) in Hx.
  destruct (write_idem_loops v hs (prune v (snd b)) C' L' E o o1 Hx) as (bytes & Hb & o2 & X & Ho & He).
  exists bytes. split; [exact Hb|]. exists o2. rewrite <- (prune_exec v hs). auto.
Qed.

(* the obligation of a block: accepted as it stands or after pruning *)
Definition kchk_block_any (v : version) (b : stmt * stmt) : bool := kchk_block v b || kchk_block_p v b.

Theorem block_write_idem_any v hs b :
  kchk_block_any v b = true ->
  forall o o1, exec Wr v hs (snd b) o = Ok o1 ->
  exists bytes, out o1 = rev bytes ++ out o /\
    exists o2, exec Wr v hs (snd b) o1 = Ok o2 /\ out o2 = rev bytes ++ out o1 /\ ext_eq o2 o1.
Proof.
  unfold kchk_block_any. intros H. apply orb_prop in H. destruct H as [H|H].
  - exact (block_write_idem_loops v hs b H).
  - exact (block_write_idem_pruned v hs b H).
Qed.
