(* the version triples (file, user, stream) of the supported games *)
From NiflyVerif Require Import IR.
Local Open Scope Z_scope.

Definition supported_versions : list version :=
  [ mkVer 167837802 10 5       (* Oblivion 10.1.0.106 *)
  ; mkVer 167903232 10 9       (* Oblivion 10.2.0.0 *)
  ; mkVer 335544324 11 11      (* Oblivion 20.0.0.4 *)
  ; mkVer 335544325 11 11      (* Oblivion 20.0.0.5 *)
  ; mkVer 167772416 0 0        (* "special" 10.0.1.0 *)
  ; mkVer 335675399 11 34      (* Fallout 3 / NV *)
  ; mkVer 335675399 12 83      (* Skyrim LE *)
  ; mkVer 335675399 12 100     (* Skyrim SE *)
  ; mkVer 335675399 12 130     (* Fallout 4 *)
  ; mkVer 335675399 12 132
  ; mkVer 335675399 12 139
  ; mkVer 335675399 12 155     (* Fallout 76 *)
  ; mkVer 335675399 12 172     (* Starfield *)
  ; mkVer 335675399 12 173 ].
