(* Soundness theorem of the write-idempotence discipline with loops and reference arrays. *)
From NiflyVerif Require Import IR Exec IREq Refs RtDefs RtProofs WiDefs WiProofs WkDefs EncInj WkProofs WkRefArr WkVec WkTrunc.
Local Open Scope N_scope.

Section Wk.
  Variable v : version.
  Variable hs : Z -> bool.
  Variable Wtot : list wn.
  Variable sf : state.

  Lemma is_refarr_spec a b fsize fkeep frefs fidx idx j :
    is_refarr a b = Some (fsize, fkeep, frefs, fidx, idx, j) ->
    exists w, a = SRefArrHead fsize fkeep frefs fidx idx w /\ b = SFor j (ESize frefs idx) (SRef fidx (idx ++ [ILocal j])).
  Proof.
    unfold is_refarr. destruct a; try discriminate. destruct b; try discriminate. destruct n; try discriminate.
    destruct b; try discriminate.
    destruct ((f =? frefs0) && idx_eqb idx1 idx0 && (f0 =? fidx0) && idx_eqb idx2 (idx0 ++ [ILocal x]))%bool eqn:E; [|discriminate].
    intros H. inversion H; subst. clear H.
    apply andb_prop in E. destruct E as [E E4]. apply andb_prop in E. destruct E as [E E3]. apply andb_prop in E. destruct E as [E1 E2].
    apply N.eqb_eq in E1, E3. apply idx_eqb_eq in E2, E4. subst. exists w. split; reflexivity.
  Qed.

  Lemma is_vecresize_spec a b f idx w x :
    is_vecresize a b = Some (f, idx, w, x) -> a = SVecSize f idx w x /\ b = SResize f idx (ELocal x).
  Proof.
    unfold is_vecresize. destruct a; try discriminate. destruct b; try discriminate. destruct n; try discriminate.
    destruct ((f1 =? f0) && idx_eqb idx1 idx0 && (x1 =? x0))%bool eqn:E; [|discriminate].
    intros H. inversion H; subst. clear H.
    apply andb_prop in E. destruct E as [E E3]. apply andb_prop in E. destruct E as [E1 E2].
    apply N.eqb_eq in E1, E3. apply idx_eqb_eq in E2. subst. split; reflexivity.
  Qed.

  Lemma is_trunc_spec a b x w f idx wf :
    is_trunc a b = Some (x, w, f, idx, wf) -> SSeq a b = trunc_stmt x w f idx wf /\ w <= wf.
  Proof.
    unfold is_trunc.
    repeat match goal with
           | |- context [match ?t with _ => _ end] => is_var t; destruct t; try discriminate
           end.
    match goal with |- (if ?c then _ else _) = _ -> _ => destruct c eqn:E; [|discriminate] end.
    intros H. inversion H; subst. clear H.
    repeat match goal with E : (_ && _)%bool = true |- _ => apply andb_prop in E; destruct E end.
    repeat match goal with E : (_ =? _) = true |- _ => apply N.eqb_eq in E end.
    match goal with E : idx_eqb _ _ = true |- _ => apply idx_eqb_eq in E end.
    match goal with E : (_ <=? _) = true |- _ => apply N.leb_le in E end.
    subst. split; [reflexivity|assumption].
  Qed.

  (* ---- syntactic facts about the checker ---- *)
  Lemma loop_cons_x x : forall s Q, loop_cons x s = Some Q -> forall ent, In ent Q -> fst (snd ent) = x.
  Proof.
    induction s; intros Q H ent He; cbn [loop_cons] in H;
      try (inversion H; subst; contradiction);
      try (destruct (pos_of x idx) as [p0|]; [|discriminate]; inversion H; subst; cbn in He;
           repeat (destruct He as [<-|He]; [reflexivity|]); contradiction).
    - destruct (loop_cons x s1) as [p1|]; [|discriminate]. destruct (loop_cons x s2) as [p2|]; [|discriminate].
      inversion H; subst. apply in_app_or in He. destruct He; eauto.
    - destruct (loop_cons x s1) as [p1|]; [|discriminate]. destruct (loop_cons x s2) as [p2|]; [|discriminate].
      inversion H; subst. apply in_app_or in He. destruct He; eauto.
    - eauto.
  Qed.

  Lemma loop_cons_x' x s Q : loop_cons x s = Some Q -> forall n y p, In (y, p) (cons_of Q n) -> y = x.
  Proof.
    intros H n y p Hin. unfold cons_of in Hin. apply in_map_iff in Hin. destruct Hin as ((m & yp) & E & Hf). cbn in E. subst yp.
    apply filter_In in Hf. destruct Hf as [Hf _]. apply (loop_cons_x x s Q H (m, (y, p)) Hf).
  Qed.


  Lemma covers_one x n C p :
    forall m, wmem m (n :: C) = true -> wmem m C = false -> exists q, In (x, q) (cons_of [(n, (x, p))] m).
  Proof.
    intros m E1 E2. rewrite wmem_cons, E2, orb_false_r in E1. apply wn_eqb_eq in E1. subst m.
    exists p. rewrite cons_of_single, wn_eqb_refl. left. reflexivity.
  Qed.

  Lemma loop_cons_covers x : forall s P C L C1 L1 Q,
    kchk Wtot v P s C L = Some (C1, L1) -> loop_cons x s = Some Q ->
    (forall a, wmem a C = true -> wmem a C1 = true) /\
    forall n, wmem n C1 = true -> wmem n C = false -> exists p, In (x, p) (cons_of Q n).
  Proof.
    induction s; intros P C L C1 L1 Q H HQ; cbn [kchk] in H; cbn [loop_cons] in HQ; try discriminate;
      try (inversion H; inversion HQ; subst; split; [auto|intros n E1 E2; congruence]);
      try (destruct (pos_of x idx) as [p0|]; [|discriminate]; inversion HQ; subst Q;
           repeat match type of H with (if ?b then _ else _) = Some _ => destruct b; try discriminate end;
           inversion H; subst; split; [intros a Ha; rewrite wmem_cons, Ha; apply orb_true_r|apply covers_one]; fail).
    - (* SSeq *)
      destruct (is_refarr s1 s2) as [[[[[[fsize fkeep] frefs] fidx] idx0] j0]|] eqn:ER.
      { destruct (is_refarr_spec _ _ _ _ _ _ _ _ ER) as (w0 & -> & ->).
        match type of H with (if ?b then _ else _) = Some _ => destruct b; [|discriminate] end. inversion H; subst. clear H.
        cbn [loop_cons] in HQ. destruct (pos_of x idx0) as [p0|] eqn:Ep; [|discriminate].
        destruct (pos_of x (idx0 ++ [ILocal j0])) as [p1|]; [|discriminate]. inversion HQ; subst Q. clear HQ.
        split. { intros a Ha. rewrite !wmem_cons, Ha, !orb_true_r. reflexivity. }
        intros n E E0. rewrite !wmem_cons, E0, orb_false_r in E. exists p0. unfold cons_of. cbn [app filter map fst snd].
        destruct (wn_eqb n (WInt fidx)) eqn:A1.
        { apply wn_eqb_eq in A1. subst n. cbn [wn_eqb]. rewrite N.eqb_refl. destruct (fsize =? fidx); cbn; auto. }
        destruct (wn_eqb n (WSize frefs)) eqn:A2.
        { apply wn_eqb_eq in A2. subst n. cbn [wn_eqb]. rewrite N.eqb_refl. cbn. auto. }
        cbn [orb] in E. apply wn_eqb_eq in E. subst n. cbn [wn_eqb]. rewrite N.eqb_refl. cbn. auto. }
      destruct (is_vecresize s1 s2) as [[[[vf vidx] vw] vx]|] eqn:EV.
      { destruct (is_vecresize_spec _ _ _ _ _ _ EV) as (-> & ->).
        match type of H with (if ?b then _ else _) = Some _ => destruct b; [|discriminate] end. inversion H; subst. clear H.
        cbn [loop_cons] in HQ. destruct (pos_of x vidx) as [p0|] eqn:Ep; [|discriminate]. inversion HQ; subst Q. clear HQ.
        split. { intros a Ha. rewrite wmem_cons, Ha, orb_true_r. reflexivity. }
        intros n E E0. rewrite wmem_cons, E0, orb_false_r in E. apply wn_eqb_eq in E. subst n.
        exists p0. unfold cons_of. cbn. rewrite N.eqb_refl. cbn. auto. }
      destruct (is_trunc s1 s2) as [[[[[tx tw] tf] tidx] twf]|] eqn:ET.
      { destruct (is_trunc_spec _ _ _ _ _ _ _ ET) as (Es & _). unfold trunc_stmt in Es. inversion Es; subst s1 s2. clear Es.
        match type of H with (if ?b then _ else _) = Some _ => destruct b; [|discriminate] end. inversion H; subst. clear H.
        cbn [loop_cons app] in HQ. destruct (pos_of x tidx) as [p0|] eqn:Ep; [|discriminate]. inversion HQ; subst Q. clear HQ.
        split. { intros a Ha. rewrite wmem_cons, Ha, orb_true_r. reflexivity. }
        apply covers_one. }
      destruct (kchk Wtot v P s1 C L) as [[Ca La]|] eqn:E1; [|discriminate].
      destruct (loop_cons x s1) as [q1|] eqn:Q1; [|discriminate]. destruct (loop_cons x s2) as [q2|] eqn:Q2; [|discriminate].
      inversion HQ; subst Q.
      destruct (IHs1 _ _ _ _ _ _ E1 eq_refl) as [M1 K1]. destruct (IHs2 _ _ _ _ _ _ H eq_refl) as [M2 K2].
      split; [auto|]. intros n E E0. destruct (wmem n Ca) eqn:Ea.
      + destruct (K1 n Ea E0) as (p & Hp). exists p. rewrite cons_of_app. apply in_or_app. left. exact Hp.
      + destruct (K2 n E Ea) as (p & Hp). exists p. rewrite cons_of_app. apply in_or_app. right. exact Hp.
    - (* SIf *)
      destruct (loop_cons x s1) as [q1|] eqn:Q1; [|discriminate]. destruct (loop_cons x s2) as [q2|] eqn:Q2; [|discriminate].
      inversion HQ; subst Q.
      destruct (ver_only v c) as [z|].
      + destruct (Z.eqb z 0).
        * destruct (IHs2 _ _ _ _ _ _ H eq_refl) as [M K]. split; [exact M|]. intros n E E0. destruct (K n E E0) as (p & Hp).
          exists p. rewrite cons_of_app. apply in_or_app. right. exact Hp.
        * destruct (IHs1 _ _ _ _ _ _ H eq_refl) as [M K]. split; [exact M|]. intros n E E0. destruct (K n E E0) as (p & Hp).
          exists p. rewrite cons_of_app. apply in_or_app. left. exact Hp.
      + destruct (kreads_ok Wtot P C L c); [|discriminate].
        destruct (kchk Wtot v P s1 C L) as [[Ca La]|] eqn:E1; [|discriminate].
        destruct (kchk Wtot v P s2 C L) as [[Cb Lb]|] eqn:E2; [|discriminate].
        inversion H; subst.
        destruct (IHs1 _ _ _ _ _ _ E1 eq_refl) as [M1 K1]. destruct (IHs2 _ _ _ _ _ _ E2 eq_refl) as [M2 K2].
        split; [intros a Ha; rewrite wmem_wunion, (M1 a Ha); reflexivity|].
        intros n E E0. rewrite wmem_wunion in E. apply orb_prop in E. destruct E as [E|E].
        * destruct (K1 n E E0) as (p & Hp). exists p. rewrite cons_of_app. apply in_or_app. left. exact Hp.
        * destruct (K2 n E E0) as (p & Hp). exists p. rewrite cons_of_app. apply in_or_app. right. exact Hp.
    - (* SSyncLocal *)
      destruct (lmem x0 L && free_var P x0)%bool; [|discriminate]. inversion H; inversion HQ; subst. split; [auto|intros; congruence].
    - (* SStrRef *)
      destruct (pos_of x idx) as [p0|]; [|discriminate]. inversion HQ; subst Q.
      destruct (Z.ltb (vfile v) V20_1_0_3).
      + destruct (target_ok Wtot P C L (WBlob fstr) idx); [|discriminate]. inversion H; subst.
        split; [intros a Ha; rewrite wmem_cons, Ha; apply orb_true_r|].
        intros m E1 E2. rewrite wmem_cons, E2, orb_false_r in E1. apply wn_eqb_eq in E1. subst m.
        exists p0. unfold cons_of. cbn. rewrite N.eqb_refl. left. reflexivity.
      + destruct (target_ok Wtot P C L (WInt findex) idx); [|discriminate]. inversion H; subst.
        split; [intros a Ha; rewrite wmem_cons, Ha; apply orb_true_r|].
        intros m E1 E2. rewrite wmem_cons, E2, orb_false_r in E1. apply wn_eqb_eq in E1. subst m.
        exists p0. unfold cons_of. cbn. rewrite N.eqb_refl. left. reflexivity.
    - (* SCStr *)
      destruct (idx_locals_ok L idx && readable Wtot C (WBlob f) && idx_matches P (WBlob f) idx)%bool; [|discriminate].
      inversion H; inversion HQ; subst. split; [auto|intros; congruence].
    - (* SFor *)
      destruct (kreads_ok Wtot P C L n && free_var P x0 && negb (lmem x0 (assigned s)) && forallb (fun y => negb (lmem y (assigned s))) (cvars P))%bool; [|discriminate].
      destruct (loop_cons x0 s) as [Q0|]; [|discriminate].
      destruct (kchk Wtot v (Q0 ++ P) s C (x0 :: L)) as [[Ca La]|] eqn:E1; [|discriminate].
      inversion H; subst. eapply IHs; eauto.
    - (* SLocal *)
      destruct (kreads_ok Wtot P C L e && free_var P x0)%bool; [|discriminate]. inversion H; inversion HQ; subst. split; [auto|intros; congruence].
  Qed.

  Lemma kchk_sub : forall s P C L C1 L1, kchk Wtot v P s C L = Some (C1, L1) ->
    forall a, wmem a C1 = true -> wmem a C = true \/ wmem a Wtot = true.
  Proof.
    assert (Hc : forall P tgt idx C L a, target_ok Wtot P C L tgt idx = true -> wmem a (tgt :: C) = true -> wmem a C = true \/ wmem a Wtot = true).
    { intros P tgt idx C L a Ht Ha. destruct (target_ok_parts _ _ _ _ _ _ Ht) as (_ & Hw & _).
      rewrite wmem_cons in Ha. apply orb_prop in Ha. destruct Ha as [Ha|Ha]; [|left; exact Ha].
      apply wn_eqb_eq in Ha. subst a. right. unfold writable in Hw. apply andb_prop in Hw. apply Hw. }
    induction s; intros P C L C1 L1 H a Ha; cbn [kchk] in H; try discriminate;
      try (repeat match type of H with (if ?b then _ else _) = Some _ => let E := fresh "E" in destruct b eqn:E; try discriminate end;
           inversion H; subst;
           repeat match goal with E : (_ && _)%bool = true |- _ => apply andb_prop in E; destruct E end;
           first [left; assumption | eapply Hc; eassumption]).
    - destruct (is_refarr s1 s2) as [[[[[[fsize fkeep] frefs] fidx] idx0] j0]|] eqn:ER.
      { match type of H with (if ?b then _ else _) = Some _ => destruct b eqn:EB; [|discriminate] end. inversion H; subst. clear H.
        repeat match goal with E : (_ && _)%bool = true |- _ => apply andb_prop in E; destruct E end.
        rewrite !wmem_cons in Ha.
        destruct (wn_eqb a (WInt fidx)) eqn:A1; [apply wn_eqb_eq in A1; subst a; right|].
        { match goal with Hw : writable Wtot C (WInt fidx) = true |- _ => unfold writable in Hw; apply andb_prop in Hw; apply Hw end. }
        destruct (wn_eqb a (WSize frefs)) eqn:A2; [apply wn_eqb_eq in A2; subst a; right|].
        { match goal with Hw : writable Wtot C (WSize frefs) = true |- _ => unfold writable in Hw; apply andb_prop in Hw; apply Hw end. }
        destruct (wn_eqb a (WInt fsize)) eqn:A3; [apply wn_eqb_eq in A3; subst a; right|].
        { match goal with Hw : writable Wtot C (WInt fsize) = true |- _ => unfold writable in Hw; apply andb_prop in Hw; apply Hw end. }
        left. exact Ha. }
      destruct (is_vecresize s1 s2) as [[[[vf vidx] vw] vx]|] eqn:EV.
      { match type of H with (if ?b then _ else _) = Some _ => destruct b eqn:EB; [|discriminate] end. inversion H; subst. clear H.
        repeat match goal with E : (_ && _)%bool = true |- _ => apply andb_prop in E; destruct E end.
        eapply Hc; eauto. }
      destruct (is_trunc s1 s2) as [[[[[tx tw] tf] tidx] twf]|] eqn:ET.
      { match type of H with (if ?b then _ else _) = Some _ => destruct b eqn:EB; [|discriminate] end. inversion H; subst. clear H.
        repeat match goal with E : (_ && _)%bool = true |- _ => apply andb_prop in E; destruct E end.
        eapply Hc; eauto. }
      destruct (kchk Wtot v P s1 C L) as [[Ca La]|] eqn:E1; [|discriminate].
      destruct (IHs2 _ _ _ _ _ H a Ha) as [H1|H1]; [|right; exact H1]. eapply IHs1; eauto.
    - destruct (ver_only v c) as [z|] eqn:Ev.
      + destruct (Z.eqb z 0); eauto.
      + destruct (kreads_ok Wtot P C L c); [|discriminate].
        destruct (kchk Wtot v P s1 C L) as [[Ca La]|] eqn:E1; [|discriminate].
        destruct (kchk Wtot v P s2 C L) as [[Cb Lb]|] eqn:E2; [|discriminate].
        inversion H; subst. rewrite wmem_wunion in Ha. apply orb_prop in Ha. destruct Ha; eauto.
    - destruct (kreads_ok Wtot P C L n && free_var P x && negb (lmem x (assigned s)) && forallb (fun y => negb (lmem y (assigned s))) (cvars P))%bool; [|discriminate].
      destruct (loop_cons x s) as [Q0|]; [|discriminate].
      destruct (kchk Wtot v (Q0 ++ P) s C (x :: L)) as [[Ca La]|] eqn:E1; [|discriminate].
      inversion H; subst. eapply IHs; eauto.
  Qed.

  (* ---- soundness of the check ---- *)
  Theorem kchk_sound : forall s P C L C' L', kchk Wtot v P s C L = Some (C', L') -> wk_ok v hs Wtot sf P s C L C' L'.
  Proof.
    induction s; intros P C L C' L' H; cbn [kchk] in H; try discriminate.
    - inversion H; subst. apply wk_skip.
    - destruct (is_refarr s1 s2) as [[[[[[fsize fkeep] frefs] fidx] idx0] j0]|] eqn:ER.
      { destruct (is_refarr_spec _ _ _ _ _ _ _ _ ER) as (w0 & -> & ->).
        match type of H with (if ?b then _ else _) = Some _ => destruct b eqn:EB; [|discriminate] end. inversion H; subst. clear H.
        repeat match goal with E : (_ && _)%bool = true |- _ => apply andb_prop in E; destruct E end.
        repeat match goal with E : negb _ = true |- _ => apply negb_true_iff in E end.
        apply (wk_refarr v hs Wtot sf P fsize fkeep frefs fidx idx0 w0 j0 C L'); assumption. }
      destruct (is_vecresize s1 s2) as [[[[vf vidx] vw] vx]|] eqn:EV.
      { destruct (is_vecresize_spec _ _ _ _ _ _ EV) as (-> & ->).
        match type of H with (if ?b then _ else _) = Some _ => destruct b eqn:EB; [|discriminate] end. inversion H; subst. clear H.
        repeat match goal with E : (_ && _)%bool = true |- _ => apply andb_prop in E; destruct E end.
        repeat match goal with E : negb _ = true |- _ => apply negb_true_iff in E end.
        apply wk_vecresize; try assumption. apply N.ltb_lt. assumption. }
      destruct (is_trunc s1 s2) as [[[[[tx tw] tf] tidx] twf]|] eqn:ET.
      { destruct (is_trunc_spec _ _ _ _ _ _ _ ET) as (Es & Hle). rewrite Es.
        match type of H with (if ?b then _ else _) = Some _ => destruct b eqn:EB; [|discriminate] end. inversion H; subst. clear H.
        repeat match goal with E : (_ && _)%bool = true |- _ => apply andb_prop in E; destruct E end.
        repeat match goal with E : negb _ = true |- _ => apply negb_true_iff in E end.
        apply wk_trunc; assumption. }
      destruct (kchk Wtot v P s1 C L) as [[C1 L1]|] eqn:E1; [|discriminate]. eapply wk_seq; eauto.
    - destruct (ver_only v c) as [z|] eqn:Ev.
      + eapply wk_if_ver; [exact Ev|]. destruct (Z.eqb z 0); auto.
      + destruct (kreads_ok Wtot P C L c) eqn:Ec; [|discriminate].
        destruct (kchk Wtot v P s1 C L) as [[C1 L1]|] eqn:E1; [|discriminate].
        destruct (kchk Wtot v P s2 C L) as [[C2 L2]|] eqn:E2; [|discriminate].
        inversion H; subst. apply wk_if_dyn; auto.
    - (* SSync *)
      destruct (target_ok Wtot P C L (WInt f) idx) eqn:E; [|discriminate]. inversion H; subst.
      apply (wk_sync_gen v hs Wtot sf P (SSync f idx p) f idx p (prim_width p) false _ _ E). intros st. reflexivity.
    - (* SSyncLocal *)
      destruct (lmem x L && free_var P x)%bool eqn:E; [|discriminate]. inversion H; subst.
      apply andb_prop in E. destruct E. apply wk_synclocal; assumption.
    - (* SSyncPart *)
      destruct (target_ok Wtot P C L (WInt f) idx) eqn:E; [|discriminate]. inversion H; subst.
      apply (wk_sync_gen v hs Wtot sf P (SSyncPart f idx p k) f idx p k false _ _ E). intros st. reflexivity.
    - (* SBytes *)
      destruct (target_ok Wtot P C L (WBlob f) idx && kreads_ok Wtot P C L n)%bool eqn:E; [|discriminate]. inversion H; subst.
      apply andb_prop in E. destruct E. apply wk_bytes; assumption.
    - (* SBytesVec *)
      destruct (target_ok Wtot P C L (WBlob f) idx && readable Wtot C (WSize f) && idx_matches P (WSize f) idx)%bool eqn:E; [|discriminate]. inversion H; subst.
      apply andb_prop in E. destruct E as [E E3]. apply andb_prop in E. destruct E. apply wk_bytesvec; assumption.
    - (* SHalf *)
      destruct (target_ok Wtot P C L (WInt f) idx) eqn:E; [|discriminate]. inversion H; subst.
      apply (wk_sync_gen v hs Wtot sf P (SHalf f idx) f idx (PInt false 2) 2 false _ _ E). intros st. reflexivity.
    - (* SNiString *)
      destruct (target_ok Wtot P C L (WBlob f) idx) eqn:E; [|discriminate]. inversion H; subst. apply wk_nistring. exact E.
    - (* SStrRef *)
      destruct (Z.ltb (vfile v) V20_1_0_3) eqn:Ev.
      + destruct (target_ok Wtot P C L (WBlob fstr) idx) eqn:E; [|discriminate]. inversion H; subst. apply wk_strref_old; assumption.
      + destruct (target_ok Wtot P C L (WInt findex) idx) eqn:E; [|discriminate]. inversion H; subst.
        apply (wk_sync_gen v hs Wtot sf P (SStrRef fstr findex idx) findex idx u32 4 true _ _ E).
        intros st. cbn [exec]. rewrite Ev. cbv zeta. unfold maybe_log. rewrite sync_int_log_ref, key_of_key. reflexivity.
    - (* SCStr *)
      destruct (idx_locals_ok L idx && readable Wtot C (WBlob f) && idx_matches P (WBlob f) idx)%bool eqn:E; [|discriminate]. inversion H; subst.
      apply andb_prop in E. destruct E as [E E3]. apply andb_prop in E. destruct E. apply wk_cstr; assumption.
    - (* SRef *)
      destruct (target_ok Wtot P C L (WInt f) idx) eqn:E; [|discriminate]. inversion H; subst.
      apply (wk_sync_gen v hs Wtot sf P (SRef f idx) f idx u32 4 true _ _ E).
      intros st. cbn [exec]. cbv zeta. unfold maybe_log. rewrite sync_int_log_ref, key_of_key. reflexivity.
    - (* SVecSize *)
      destruct (target_ok Wtot P C L (WSize f) idx && free_var P x)%bool eqn:E; [|discriminate]. inversion H; subst.
      apply andb_prop in E. destruct E. apply wk_vecsize; assumption.
    - (* SResize *)
      destruct (target_ok Wtot P C L (WSize f) idx && kreads_ok Wtot P C L n)%bool eqn:E; [|discriminate]. inversion H; subst.
      apply andb_prop in E. destruct E. apply wk_resize; assumption.
    - (* SFor *)
      destruct (kreads_ok Wtot P C L n && free_var P x && negb (lmem x (assigned s)) && forallb (fun y => negb (lmem y (assigned s))) (cvars P))%bool eqn:E; [|discriminate].
      destruct (loop_cons x s) as [Q|] eqn:EQ; [|discriminate].
      destruct (kchk Wtot v (Q ++ P) s C (x :: L)) as [[C1 L1]|] eqn:E1; [|discriminate].
      inversion H; subst.
      apply andb_prop in E. destruct E as [E _]. apply andb_prop in E. destruct E as [E _]. apply andb_prop in E. destruct E as [En Ef].
      destruct (loop_cons_covers x s _ _ _ _ _ Q E1 EQ) as [_ Hcov].
      eapply (wk_for v hs Wtot sf P Q x s C C' _ L1).
      + apply (loop_cons_x' x s Q EQ).
      + exact Hcov.
      + intros m A B. destruct (kchk_sub s _ _ _ _ _ E1 m A) as [X|X]; [congruence|exact X].
      + exact Ef.
      + apply IHs. exact E1.
      + exact En.
    - (* SLocal *)
      destruct (kreads_ok Wtot P C L e && free_var P x)%bool eqn:E; [|discriminate]. inversion H; subst.
      apply andb_prop in E. destruct E. apply wk_local; assumption.
    - (* SAssign *)
      destruct (target_ok Wtot P C L (WInt f) idx && kreads_ok Wtot P C L e)%bool eqn:E; [|discriminate]. inversion H; subst.
      apply andb_prop in E. destruct E. apply wk_assign; assumption.
  Qed.
End Wk.

(* ---- the theorem ---- *)
Theorem write_idem_loops v hs s C' L' :
  kchk (targets s) v [] s [] [] = Some (C', L') ->
  forall o o1, exec Wr v hs s o = Ok o1 ->
  exists bytes, out o1 = rev bytes ++ out o /\
    exists o2, exec Wr v hs s o1 = Ok o2 /\ out o2 = rev bytes ++ out o1 /\ ext_eq o2 o1.
Proof.
  intros Hc o o1 Hx.
  destruct (kchk_sound v hs (targets s) o1 s [] [] [] C' L' Hc) as (M & ML & Hs).
  destruct (Hs o o1 Hx) as (V & F & bytes & Wx & R).
  exists bytes. split; [exact Wx|].
  destruct (R o1) as (o2 & X & W2 & I2).
  - constructor.
    + intros n l. reflexivity.
    + intros n Hr l _. unfold readable in Hr. cbn [wmem existsb orb] in Hr. apply negb_true_iff in Hr.
      symmetry. apply F. left.
      destruct (wmem n C') eqn:E; [|reflexivity].
      destruct (kchk_sub v (targets s) s [] [] [] C' L' Hc n E) as [E1|E1]; [discriminate|congruence].
    + intros x Hx'. discriminate.
    + intros y Hy. contradiction.
  - intros n _ _ l _. reflexivity.
  - exists o2. split; [exact X|]. split; [exact W2|]. apply (inv_ext _ _ _ _ _ _ _ I2).
Qed.

Theorem block_write_idem_loops v hs b :
  kchk_block v b = true ->
  forall o o1, exec Wr v hs (snd b) o = Ok o1 ->
  exists bytes, out o1 = rev bytes ++ out o /\
    exists o2, exec Wr v hs (snd b) o1 = Ok o2 /\ out o2 = rev bytes ++ out o1 /\ ext_eq o2 o1.
Proof.
  unfold kchk_block. destruct (kchk (targets (snd b)) v [] (snd b) [] []) as [[C' L']|] eqn:E; [|discriminate].
  intros _. exact (write_idem_loops v hs (snd b) C' L' E).
Qed.
