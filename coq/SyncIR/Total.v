(* chk_total: a static check under which a SyncIR program can never fault (no division by a
   possibly-zero value, nothing untranslatable), whatever bytes it is given, in either mode. *)
From NiflyVerif Require Import IR Exec IREq.
Local Open Scope N_scope.

Fixpoint expr_total (e : expr) : bool :=
  match e with
  | EConst _ | ELocal _ | EVer _ | EMode | ELoad _ _ | ESize _ _ | EStrLen _ _ | EHdrStrEmpty _ _ => true
  | EBin Odiv a (EConst z) | EBin Omod a (EConst z) => negb (Z.eqb z 0) && expr_total a
  | EBin Odiv _ _ | EBin Omod _ _ => false
  | EBin _ a b => expr_total a && expr_total b
  | EUn _ a => expr_total a
  | ECast _ _ a => expr_total a
  | ECond c a b => expr_total c && expr_total a && expr_total b
  | EOpaque => false
  end.

Fixpoint stmt_total (s : stmt) : bool :=
  match s with
  | SSkip => true
  | SSeq a b => stmt_total a && stmt_total b
  | SIf c t e => expr_total c && stmt_total t && stmt_total e
  | SSync _ _ _ | SSyncPart _ _ _ _ | SBytesVec _ _ | SHalf _ _ | SNiString _ _ _ | SStrRef _ _ _
  | SCStr _ _ | SRef _ _ | SRefArrHead _ _ _ _ _ _ | SCleanRefs _ _ _ _ _ | SVecSize _ _ _ _ | SSyncLocal _ _ => true
  | SBytes _ _ n | SResize _ _ n => expr_total n
  | SFor _ n b => expr_total n && stmt_total b
  | SLocal _ _ e => expr_total e
  | SAssign _ _ _ e => expr_total e
  | SOpaque => false
  end.

Section Sound.
  Variable m : mode.
  Variable v : version.
  Variable hs : Z -> bool.

  Lemma eval_bin_total o a b : (o = Odiv \/ o = Omod -> b <> 0%Z) -> exists z, eval_bin o a b = Ok z.
  Proof.
    intros H. destruct o; cbn; try (eexists; reflexivity).
    - destruct (Z.eqb_spec b 0); [exfalso; apply H; auto|eexists; reflexivity].
    - destruct (Z.eqb_spec b 0); [exfalso; apply H; auto|eexists; reflexivity].
  Qed.

  Lemma eval_total : forall e st, expr_total e = true -> exists z, eval m v hs st e = Ok z.
  Proof.
    induction e; intros st Ht; cbn [expr_total] in Ht;
      try (cbn [eval]; eexists; reflexivity); try discriminate.
    - destruct v0; cbn [eval]; eexists; reflexivity.
    - (* EBin *)
      assert (Hab : expr_total e1 = true /\ expr_total e2 = true /\
                    ((o = Odiv \/ o = Omod) -> exists z, e2 = EConst z /\ z <> 0%Z)).
      { destruct o;
          try (apply andb_prop in Ht; destruct Ht as [H1 H2]; repeat split; auto; intros [Hd|Hd]; discriminate).
        - destruct e2; try discriminate. apply andb_prop in Ht. destruct Ht as [H1 H2].
          repeat split; auto. intros _. eexists; split; [reflexivity|].
          apply negb_true_iff in H1. apply Z.eqb_neq in H1. exact H1.
        - destruct e2; try discriminate. apply andb_prop in Ht. destruct Ht as [H1 H2].
          repeat split; auto. intros _. eexists; split; [reflexivity|].
          apply negb_true_iff in H1. apply Z.eqb_neq in H1. exact H1. }
      destruct Hab as (H1 & H2 & Hc).
      destruct (IHe1 st H1) as (x & Hx). destruct (IHe2 st H2) as (y & Hy).
      destruct o; cbn [eval]; rewrite Hx; cbn [bind];
        try (rewrite Hy; cbn [bind]; apply eval_bin_total; intros [Hd|Hd]; discriminate);
        try (destruct (Z.eqb x 0); try (eexists; reflexivity); rewrite Hy; cbn; eexists; reflexivity).
      + rewrite Hy. cbn [bind]. apply eval_bin_total. intros _.
        destruct Hc as (z0 & -> & Hz0); auto. cbn in Hy. inversion Hy; subst. exact Hz0.
      + rewrite Hy. cbn [bind]. apply eval_bin_total. intros _.
        destruct Hc as (z0 & -> & Hz0); auto. cbn in Hy. inversion Hy; subst. exact Hz0.
    - destruct (IHe st Ht) as (x & Hx). destruct o; cbn [eval]; rewrite Hx; cbn; eexists; reflexivity.
    - destruct (IHe st Ht) as (x & Hx). cbn [eval]. rewrite Hx. cbn. eexists; reflexivity.
    - apply andb_prop in Ht. destruct Ht as [Ht H3]. apply andb_prop in Ht. destruct Ht as [H1 H2].
      destruct (IHe1 st H1) as (x & Hx). cbn [eval]. rewrite Hx. cbn [bind].
      destruct (Z.eqb x 0); auto.
  Qed.

  Lemma iter_loop_total (body : state -> res state) x n st :
    (forall s, exists s', body s = Ok s') -> exists st', iter_loop body x n st = Ok st'.
  Proof.
    intros Hb. unfold iter_loop.
    assert (H : exists p, N.iter n (fun acc => bind acc (fun p => let '(i, s) := p in
                  bind (body (set_local s x (Z.of_N i))) (fun s' => Ok (i + 1, s')))) (Ok (0, st)) = Ok p).
    { induction n as [|n IH] using N.peano_ind.
      - cbn. eexists; reflexivity.
      - rewrite N.iter_succ. destruct IH as ([i s] & ->). cbn [bind].
        destruct (Hb (set_local s x (Z.of_N i))) as (s' & ->). cbn. eexists; reflexivity. }
    destruct H as (p & ->). cbn. eexists; reflexivity.
  Qed.

  Theorem exec_total : forall s st, stmt_total s = true -> exists st', exec m v hs s st = Ok st'.
  Proof.
    induction s; intros st Ht; cbn [stmt_total] in Ht; cbn [exec];
      repeat match goal with
             | H : (_ && _)%bool = true |- _ => apply andb_prop in H; destruct H
             end;
      try discriminate;
      try (eexists; reflexivity).
    - destruct (IHs1 st) as (s1' & ->); auto. cbn [bind]. apply IHs2; auto.
    - destruct (eval_total c st) as (z & ->); auto. cbn [bind]. destruct (Z.eqb z 0); [apply IHs2|apply IHs1]; auto.
    - destruct m; [destruct (read st (prim_width p)) as [got st1]; destruct (length got =? 0)%nat|]; eexists; reflexivity.
    - destruct (eval_total n st) as (z & ->); auto. cbn. eexists; reflexivity.
    - cbv zeta. destruct (get_size st _ =? 0); eexists; reflexivity.
    - cbv zeta. destruct m; [destruct (read st w) as [lb st1]; destruct (read st1 _) as [got st2]|]; eexists; reflexivity.
    - destruct (Z.ltb (vfile v) V20_1_0_3); cbv zeta; [|eexists; reflexivity].
      destruct m.
      + destruct (read st 4) as [lb st1]. destruct (_ <? 2049); [destruct (read st1 _) as [got st2]|]; eexists; reflexivity.
      + eexists; reflexivity.
    - cbv zeta. destruct m; [|eexists; reflexivity].
      destruct (eof st); [eexists; reflexivity|]. destruct (_ <? remaining st); eexists; reflexivity.
    - cbv zeta. destruct m; [destruct (read st w) as [got st1]|]; eexists; reflexivity.
    - destruct (eval_total n st) as (z & ->); auto. cbn. eexists; reflexivity.
    - destruct (eval_total n st) as (z & ->); auto. cbn [bind]. apply iter_loop_total. intros s0. apply IHs. auto.
    - destruct (eval_total e st) as (z & ->); auto. cbn. eexists; reflexivity.
    - destruct (eval_total e st) as (z & ->); auto. cbn. eexists; reflexivity.
  Qed.
End Sound.

(* the whole block: constructor constants, then the Sync chain *)
Definition block_total (b : stmt * stmt) : bool := stmt_total (fst b) && stmt_total (snd b).

Theorem block_never_faults (b : stmt * stmt) (v : version) (hs : Z -> bool) (bytes : list N) :
  block_total b = true ->
  exists st0 st, exec Wr v hs (fst b) (empty_state bytes) = Ok st0 /\
                 exec Rd v hs (snd b) st0 = Ok st.
Proof.
  intros H. apply andb_prop in H. destruct H as [H1 H2].
  destruct (exec_total Wr v hs (fst b) (empty_state bytes) H1) as (st0 & Hs0).
  destruct (exec_total Rd v hs (snd b) st0 H2) as (st & Hs).
  eauto.
Qed.
