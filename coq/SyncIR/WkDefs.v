(* Write-idempotence discipline with loops (definitions; soundness in WkProofs.v). Extends WiDefs.v:
   inside `for x < n` a statement may modify the instance of a field whose index vector holds x at a fixed
   position; different iterations then modify different instances (the index encoding is injective, EncInj.v),
   and a field name is still modified by one statement only. A constraint table records, for every field
   name modified inside the loops that are currently open, which index position holds which loop variable:
   the "slice" of the name that the current iteration owns. Reads of such a name must stay inside the slice. *)
From NiflyVerif Require Import IR Exec IREq Refs RtDefs WiDefs.
Local Open Scope N_scope.

Definition ctab := list (wn * (lvar * nat)).
Definition cons_of (P : ctab) (n : wn) : list (lvar * nat) := map snd (filter (fun e => wn_eqb (fst e) n) P).
Definition cvars (P : ctab) : list lvar := map (fun e => fst (snd e)) P.

Definition idx_matches (P : ctab) (n : wn) (idx : list iexpr) : bool :=
  forallb (fun yp => match nth_error idx (snd yp) with Some (ILocal z) => z =? fst yp | _ => false end) (cons_of P n).

(* position of the loop variable in an index vector *)
Fixpoint pos_of (x : lvar) (idx : list iexpr) : option nat :=
  match idx with
  | [] => None
  | ILocal y :: r => if y =? x then Some O else option_map S (pos_of x r)
  | _ :: r => option_map S (pos_of x r)
  end.

(* the constraints a loop over x adds: one per field name modified in its body (None: some target does not
   mention x, or the body holds a statement outside the fragment) *)
Fixpoint loop_cons (x : lvar) (s : stmt) : option ctab :=
  let one n idx := match pos_of x idx with Some p => Some [(n, (x, p))] | None => None end in
  match s with
  | SSkip | SSyncLocal _ _ | SCStr _ _ | SLocal _ _ _ => Some []
  | SSeq a b | SIf _ a b => match loop_cons x a, loop_cons x b with Some p, Some q => Some (p ++ q) | _, _ => None end
  | SSync f idx _ | SSyncPart f idx _ _ | SHalf f idx | SRef f idx | SAssign f idx _ _ => one (WInt f) idx
  | SStrRef fstr findex idx =>
    match pos_of x idx with Some p => Some [(WBlob fstr, (x, p)); (WInt findex, (x, p))] | None => None end
  | SBytes f idx _ | SBytesVec f idx | SNiString f idx _ => one (WBlob f) idx
  | SResize f idx _ | SVecSize f idx _ _ => one (WSize f) idx
  | SFor _ _ b => loop_cons x b
  | SRefArrHead fsize _ frefs fidx idx _ =>
    match pos_of x idx with Some p => Some [(WInt fsize, (x, p)); (WSize frefs, (x, p)); (WInt fidx, (x, p))] | None => None end
  | _ => None
  end.

(* locals a statement assigns *)
Fixpoint assigned (s : stmt) : list lvar :=
  match s with
  | SSeq a b | SIf _ a b => assigned a ++ assigned b
  | SSyncLocal x _ | SLocal x _ _ | SVecSize _ _ _ x => [x]
  | SFor x _ b => x :: assigned b
  | SRefArrHead _ _ _ _ _ _ | SCleanRefs _ _ _ _ _ => [0]
  | _ => []
  end.

(* is "a; b" a whole reference array  head(fsize,fkeep,frefs,fidx,idx,w); for j < size(frefs,idx): ref fidx[idx,j] ? *)
Definition is_refarr (a b : stmt) : option (name * name * name * name * list iexpr * lvar) :=
  match a, b with
  | SRefArrHead fsize fkeep frefs fidx idx w, SFor j (ESize frefs' idx') (SRef fidx' idx'') =>
    if (frefs' =? frefs) && idx_eqb idx' idx && (fidx' =? fidx) && idx_eqb idx'' (idx ++ [ILocal j])
    then Some (fsize, fkeep, frefs, fidx, idx, j) else None
  | _, _ => None
  end.

(* is "a; b" the pair  size-of-vector(f,idx) written and handed to x; resize (f,idx) to x  (NiVector::Sync) ? *)
Definition is_vecresize (a b : stmt) : option (name * list iexpr * N * lvar) :=
  match a, b with
  | SVecSize f idx w x, SResize f' idx' (ELocal x') =>
    if (f' =? f) && idx_eqb idx' idx && (x' =? x) then Some (f, idx, w, x) else None
  | _, _ => None
  end.

(* is "a; b" a truncating transfer  x := (uW) field; sync x; field := x  (an unsigned field stored in fewer bytes
   by old file versions, e.g. NiAVObject::flags as 16 bit up to stream version 26) ? *)
Definition is_trunc (a b : stmt) : option (lvar * N * name * list iexpr * N) :=
  match a, b with
  | SLocal x (PInt false w) (ECast w' false (ELoad f idx)),
    SSeq (SSyncLocal x' (PInt false w'')) (SAssign f' idx' (PInt false wf) (ELocal x'')) =>
    if (x' =? x) && (x'' =? x) && (w' =? w) && (w'' =? w) && (f' =? f) && idx_eqb idx' idx && (0 <? w) && (w <=? wf)
    then Some (x, w, f, idx, wf) else None
  | _, _ => None
  end.

Section Chk.
  Variable Wtot : list wn.

  Fixpoint kreads_ok (P : ctab) (C : list wn) (L : list lvar) (e : expr) : bool :=
    match e with
    | EConst _ | EVer _ | EMode => true
    | ELoad f idx | EHdrStrEmpty f idx => readable Wtot C (WInt f) && idx_locals_ok L idx && idx_matches P (WInt f) idx
    | ESize f idx => readable Wtot C (WSize f) && idx_locals_ok L idx && idx_matches P (WSize f) idx
    | EStrLen f idx => readable Wtot C (WBlob f) && idx_locals_ok L idx && idx_matches P (WBlob f) idx
    | ELocal x => lmem x L
    | EBin _ a b => kreads_ok P C L a && kreads_ok P C L b
    | EUn _ a => kreads_ok P C L a
    | ECast _ _ a => kreads_ok P C L a
    | ECond c a b => kreads_ok P C L c && kreads_ok P C L a && kreads_ok P C L b
    | EOpaque => false
    end.

  Definition target_ok (P : ctab) (C : list wn) (L : list lvar) (n : wn) (idx : list iexpr) : bool :=
    idx_locals_ok L idx && writable Wtot C n && idx_matches P n idx.
  Definition free_var (P : ctab) (x : lvar) : bool := negb (lmem x (cvars P)).

  Fixpoint kchk (v : version) (P : ctab) (s : stmt) (C : list wn) (L : list lvar) : option (list wn * list lvar) :=
    match s with
    | SSkip => Some (C, L)
    | SSeq a b =>
      match is_refarr a b with
      | Some (fsize, fkeep, frefs, fidx, idx, j) =>
        (* a whole reference array: CleanInvalidRefs + count, then the element loop (proved as one unit) *)
        if idx_locals_ok L idx && negb (lmem 0 L) && negb (lmem j L) && free_var P 0 && free_var P j
           && writable Wtot C (WInt fsize) && writable Wtot C (WSize frefs) && writable Wtot C (WInt fidx) && negb (fsize =? fidx)
           && idx_matches P (WInt fsize) idx && idx_matches P (WSize frefs) idx && idx_matches P (WInt fidx) (idx ++ [ILocal j])
           && readable Wtot C (WInt fkeep) && idx_matches P (WInt fkeep) idx
        then Some (WInt fidx :: WSize frefs :: WInt fsize :: C, L) else None
      | None =>
        match is_vecresize a b with
        | Some (f, idx, w, x) =>
          (* the resize to the size just written changes nothing: the pair is the size transfer alone *)
          if target_ok P C L (WSize f) idx && free_var P x && (0 <? w) && negb (idx_mentions x idx)
          then Some (WSize f :: C, x :: L) else None
        | None =>
          match is_trunc a b with
          | Some (x, w, f, idx, wf) =>
            (* the field is read before it is assigned, but what is assigned is a fixed point of the truncation *)
            if target_ok P C L (WInt f) idx && free_var P x && negb (idx_mentions x idx)
            then Some (WInt f :: C, x :: L) else None
          | None => match kchk v P a C L with Some (C1, L1) => kchk v P b C1 L1 | None => None end
          end
        end
      end
    | SIf c t e =>
      match ver_only v c with
      | Some z => if Z.eqb z 0 then kchk v P e C L else kchk v P t C L
      | None =>
        if kreads_ok P C L c then
          match kchk v P t C L, kchk v P e C L with
          | Some (C1, L1), Some (C2, L2) => Some (wunion C1 C2, linter L1 L2)
          | _, _ => None
          end
        else None
      end
    | SSync f idx _ | SSyncPart f idx _ _ | SHalf f idx | SRef f idx =>
      if target_ok P C L (WInt f) idx then Some (WInt f :: C, L) else None
    | SAssign f idx _ e =>
      if target_ok P C L (WInt f) idx && kreads_ok P C L e then Some (WInt f :: C, L) else None
    | SStrRef fstr findex idx =>
      if Z.ltb (vfile v) V20_1_0_3
      then (if target_ok P C L (WBlob fstr) idx then Some (WBlob fstr :: C, L) else None)
      else (if target_ok P C L (WInt findex) idx then Some (WInt findex :: C, L) else None)
    | SSyncLocal x _ => if lmem x L && free_var P x then Some (C, L) else None
    | SBytes f idx n =>
      if target_ok P C L (WBlob f) idx && kreads_ok P C L n then Some (WBlob f :: C, L) else None
    | SBytesVec f idx =>
      if target_ok P C L (WBlob f) idx && readable Wtot C (WSize f) && idx_matches P (WSize f) idx then Some (WBlob f :: C, L) else None
    | SNiString f idx _ => if target_ok P C L (WBlob f) idx then Some (WBlob f :: C, L) else None
    | SCStr f idx =>
      if idx_locals_ok L idx && readable Wtot C (WBlob f) && idx_matches P (WBlob f) idx then Some (C, L) else None
    | SResize f idx n =>
      if target_ok P C L (WSize f) idx && kreads_ok P C L n then Some (WSize f :: C, L) else None
    | SVecSize f idx _ x =>
      if target_ok P C L (WSize f) idx && free_var P x then Some (WSize f :: C, x :: L) else None
    | SLocal x _ e => if kreads_ok P C L e && free_var P x then Some (C, x :: L) else None
    | SFor x n body =>
      if kreads_ok P C L n && free_var P x && negb (lmem x (assigned body)) && forallb (fun y => negb (lmem y (assigned body))) (cvars P) then
        match loop_cons x body with
        | Some Q =>
          match kchk v (Q ++ P) body C (x :: L) with
          | Some (C1, L1) => Some (C1, L)
          | None => None
          end
        | None => None
        end
      else None
    | _ => None          (* a bare SRefArrHead, SCleanRefs, SOpaque: not covered *)
    end.
End Chk.

Definition kchk_block (v : version) (b : stmt * stmt) : bool :=
  match kchk (targets (snd b)) v [] (snd b) [] [] with Some _ => true | None => false end.
