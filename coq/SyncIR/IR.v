(* SyncIR: a deep embedding of nifly's bidirectional Sync() bodies.
   Programs in this language are GENERATED from /repo's C++ by tools/nif2ir.py on every run
   (coq/Gen/IRCur.v); the interpreter (Exec.v) runs one program in both stream modes, exactly as the
   C++ runs one Sync body for Get and Put. *)
From NiflyVerif Require Export Res.
Local Open Scope N_scope.

(* field names are interned by the translator; an object field instance is a name plus the values of
   the indices of the enclosing containers ("partitions[].bones[]" with [i; j]) *)
Definition name := N.
Definition lvar := N.                 (* local variables, also interned *)

(* scalar primitives: [w] is the width in BYTES *)
Inductive prim :=
| PInt (signed : bool) (w : N)        (* integers and enums *)
| PFloat (w : N)                      (* only copied: kept as their bit pattern *)
| PBool.

Definition prim_width (p : prim) : N :=
  match p with PInt _ w => w | PFloat w => w | PBool => 1 end.

Inductive verfield := VFile | VUser | VStream.

Inductive binop :=
| Oadd | Osub | Omul | Odiv | Omod | Olt | Ogt | Ole | Oge | Oeq | One | Oand | Oor
| Oband | Obor | Obxor | Oshl | Oshr | Omin | Omax.
Inductive unop := Onot | Oneg | Obnot.

(* indices of the enclosing containers: loop variables (or constants for fixed-size arrays) *)
Inductive iexpr := IConst (n : N) | ILocal (x : lvar).

Inductive expr :=
| EConst (z : Z)
| ELoad (f : name) (idx : list iexpr)         (* scalar field *)
| ESize (f : name) (idx : list iexpr)         (* current element count of a container field *)
| EStrLen (f : name) (idx : list iexpr)       (* length of a string/blob field *)
| ELocal (x : lvar)
| EVer (v : verfield)
| EBin (o : binop) (a b : expr)
| EUn (o : unop) (a : expr)
| ECast (w : N) (signed : bool) (a : expr)    (* C integer conversion to w bytes *)
| ECond (c a b : expr)
| EMode                                       (* 0 = reading, 1 = writing *)
| EHdrStrEmpty (f : name) (idx : list iexpr)  (* header string designated by a string ref is empty *)
| EOpaque.                                    (* untranslatable: evaluation faults, no checker accepts it *)

Inductive stmt :=
| SSkip
| SSeq (a b : stmt)
| SIf (c : expr) (t e : stmt)
| SSync (f : name) (idx : list iexpr) (p : prim)               (* stream.Sync(scalar member) *)
| SSyncLocal (x : lvar) (p : prim)                            (* stream.Sync(local variable) *)
| SSyncPart (f : name) (idx : list iexpr) (p : prim) (k : N)   (* first k bytes of a scalar *)
| SBytes (f : name) (idx : list iexpr) (n : expr)              (* raw memory of n bytes (plain structs, char arrays) *)
| SBytesVec (f : name) (idx : list iexpr)                      (* the whole byte vector, size(f) bytes *)
| SHalf (f : name) (idx : list iexpr)                          (* float stored as IEEE half: kept as the half's bits *)
| SNiString (f : name) (idx : list iexpr) (w : N)              (* NiString with a w-byte length prefix *)
| SStrRef (fstr findex : name) (idx : list iexpr)              (* NiStringRef: inline string below 20.1.0.3, else index *)
| SCStr (f : name) (idx : list iexpr)                          (* NUL-terminated *)
| SRef (f : name) (idx : list iexpr)                           (* NiBlockRef / NiBlockPtr: f is the index field *)
| SRefArrHead (fsize fkeep frefs fidx : name) (idx : list iexpr) (w : N)   (* NiBlockRef[Short]Array::Sync up to the element loop: clean (write mode), count, resize *)
| SCleanRefs (fsize fkeep frefs fidx : name) (idx : list iexpr)        (* CleanInvalidRefs called directly *)
| SVecSize (f : name) (idx : list iexpr) (w : N) (x : lvar)    (* NiVector::SyncSize: clamp, count; x := count *)
| SResize (f : name) (idx : list iexpr) (n : expr)
| SFor (x : lvar) (n : expr) (body : stmt)                    (* x = 0 .. n-1, n evaluated once *)
| SLocal (x : lvar) (p : prim) (e : expr)                     (* declaration / assignment of a local *)
| SAssign (f : name) (idx : list iexpr) (p : prim) (e : expr)
| SOpaque.

(* file version constants used by the hand-modelled helpers *)
Definition V20_1_0_3 : Z := 335609859.      (* 0x14010003 *)

Record version := mkVer { vfile : Z; vuser : Z; vstream : Z }.

(* the IR of one block type: class chain inlined, NiObject's groupID gate first *)
Record block_ir := mkBlockIR { bname : N (* index into the generated name table *); body : stmt }.
