(* Round-trip discipline for SyncIR programs: the static check [chk] (definitions only; the soundness
   proof is in RtProofs.v).
   Idea: run the program in write mode on an object, then in read mode on the bytes it produced. The
   two runs take the same branches and loop counts as long as every value that a condition, a count or an
   index depends on has already been transferred (it is "agreed"). [chk] tracks the agreed values
   statically; a program it accepts cannot read a value before it is agreed. *)
From NiflyVerif Require Import IR Exec IREq Refs.
Local Open Scope N_scope.

(* what the two runs are known to agree on *)
Inductive akey :=
| AInt (f : name) (idx : list iexpr)       (* a scalar field instance *)
| ASize (f : name) (idx : list iexpr)      (* the element count of a container field instance *)
| ABlob (f : name) (idx : list iexpr)      (* the bytes of a raw array instance *)
| ALocal (x : lvar).                       (* a local variable *)

Definition akey_eqb (a b : akey) : bool :=
  match a, b with
  | AInt f i, AInt f' i' => (f =? f') && idx_eqb i i'
  | ASize f i, ASize f' i' => (f =? f') && idx_eqb i i'
  | ABlob f i, ABlob f' i' => (f =? f') && idx_eqb i i'
  | ALocal x, ALocal x' => x =? x'
  | _, _ => false
  end.

Definition amem (a : akey) (A : list akey) : bool := existsb (akey_eqb a) A.
Definition aadd (a : akey) (A : list akey) : list akey := if amem a A then A else a :: A.
Definition ainter (A B : list akey) : list akey := filter (fun a => amem a B) A.
Definition asubset (A B : list akey) : bool := forallb (fun a => amem a B) A.

Definition idx_mentions (x : lvar) (idx : list iexpr) : bool :=
  existsb (fun i => match i with ILocal y => x =? y | IConst _ => false end) idx.

(* forget everything that depends on the value of local x (and x itself) *)
Definition akill (x : lvar) (A : list akey) : list akey :=
  filter (fun a => match a with
                   | AInt _ idx | ASize _ idx | ABlob _ idx => negb (idx_mentions x idx)
                   | ALocal y => negb (x =? y)
                   end) A.

(* forget every instance of a field name *)
Definition akill_int (f : name) (A : list akey) : list akey :=
  filter (fun a => match a with AInt g _ => negb (f =? g) | _ => true end) A.
Definition akill_size (f : name) (A : list akey) : list akey :=
  filter (fun a => match a with ASize g _ => negb (f =? g) | _ => true end) A.
Definition akill_blob (f : name) (A : list akey) : list akey :=
  filter (fun a => match a with ABlob g _ => negb (f =? g) | _ => true end) A.

(* all index variables are agreed locals *)
Definition idx_agreed (A : list akey) (idx : list iexpr) : bool :=
  forallb (fun i => match i with IConst _ => true | ILocal x => amem (ALocal x) A end) idx.

(* every value the expression reads is agreed; mode tests, string lengths and header look-ups are not
   accepted (they may differ between the two runs) *)
Fixpoint reads_ok (A : list akey) (e : expr) : bool :=
  match e with
  | EConst _ | EVer _ => true
  | ELoad f idx => amem (AInt f idx) A && idx_agreed A idx
  | ESize f idx => amem (ASize f idx) A && idx_agreed A idx
  | ELocal x => amem (ALocal x) A
  | EBin _ a b => reads_ok A a && reads_ok A b
  | EUn _ a => reads_ok A a
  | ECast _ _ a => reads_ok A a
  | ECond c a b => reads_ok A c && reads_ok A a && reads_ok A b
  | EStrLen _ _ | EMode | EHdrStrEmpty _ _ | EOpaque => false
  end.

Definition full_width (p : prim) : bool :=
  match p with PInt _ w => (0 <? w) && (w <=? 8) | PFloat w => (0 <? w) && (w <=? 8) | PBool => true end.

(* the check, for a given version triple (conditions on the version alone are decided) *)
Fixpoint chk (v : version) (s : stmt) (A : list akey) : option (list akey) :=
  match s with
  | SSkip => Some A
  | SSeq a b => match chk v a A with Some A1 => chk v b A1 | None => None end
  | SIf c t e =>
    match ver_only v c with
    | Some z => if Z.eqb z 0 then chk v e A else chk v t A
    | None =>
      if reads_ok A c then
        match chk v t A, chk v e A with
        | Some A1, Some A2 => Some (ainter A1 A2)
        | _, _ => None
        end
      else None
    end
  | SSync f idx p => if idx_agreed A idx && full_width p then Some (aadd (AInt f idx) A) else None
  | SHalf f idx => if idx_agreed A idx then Some (aadd (AInt f idx) A) else None
  | SRef f idx => if idx_agreed A idx then Some (aadd (AInt f idx) A) else None
  | SStrRef fstr findex idx =>
    if Z.ltb (vfile v) V20_1_0_3 then Some (akill_blob fstr A)    (* inline string: nothing new is agreed; needs the writer's flag (Exec.warn) down *)
    else if idx_agreed A idx then Some (aadd (AInt findex idx) A) else None
  | SBytes f idx n => if idx_agreed A idx && reads_ok A n then Some (aadd (ABlob f idx) A) else None
  | SBytesVec f idx => if idx_agreed A idx && amem (ASize f idx) A then Some (akill_blob f A) else None
  | SSyncLocal x p => if full_width p then Some (aadd (ALocal x) (akill x A)) else None
  | SResize f idx n => if idx_agreed A idx && reads_ok A n then Some (aadd (ASize f idx) A) else None
  | SLocal x p e => if reads_ok A e then Some (aadd (ALocal x) (akill x A)) else None
  | SAssign f idx p e => if idx_agreed A idx && reads_ok A e then Some (aadd (AInt f idx) A) else None
  | SNiString f idx w => if (0 <? w) && (w <=? 8) then Some (akill_blob f A) else None
  | SVecSize f idx w x =>
    if idx_agreed A idx && (0 <? w) && (w <=? 8) then Some (aadd (ALocal x) (akill x (akill_size f A))) else None
  | SRefArrHead fsize fkeep frefs fidx idx w =>
    if idx_agreed A idx && (w =? 4) && negb (idx_mentions 0 idx) then
      Some (aadd (ASize frefs idx) (aadd (AInt fsize idx) (akill 0 (akill_int fidx (akill_int fsize (akill_size frefs A))))))
    else None
  | SFor x n body =>
    if reads_ok A n then
      let A0 := aadd (ALocal x) (akill x A) in
      match chk v body A0 with
      | Some A1 => if asubset A0 A1 then Some (akill x A) else None
      | None => None
      end
    else None
  | _ => None
  end.

(* a block: constructor constants are assigned in both runs before the Sync chain *)
Definition chk_block (v : version) (b : stmt * stmt) : bool :=
  match chk v (fst b) [] with
  | Some A0 => match chk v (snd b) A0 with Some _ => true | None => false end
  | None => false
  end.
