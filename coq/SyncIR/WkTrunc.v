(* A truncating transfer in the write-idempotence discipline:
     x := (uW) field;  sync x;  field := x
   (old file versions store an unsigned field in fewer bytes, e.g. NiAVObject::flags as 16 bit up to stream
   version 26). The field is read before it is assigned, which the write-once discipline forbids; but the
   value assigned is a fixed point of the truncation, so a second run reads, writes and assigns the same. *)
From NiflyVerif Require Import IR Exec IREq Refs RtDefs RtProofs WiDefs WiProofs WkDefs EncInj WkProofs WkVec.
Local Open Scope N_scope.

Lemma wrapZ_u_idem w z : wrapZ w false (wrapZ w false z) = wrapZ w false z.
Proof. rewrite !(wrapZ_unsigned (fun _ => true)). apply Z.mod_mod. apply Z.pow_nonzero; lia. Qed.

Lemma decode_encode_u w z : decode (PInt false w) (encode (PInt false w) (wrapZ w false z)) = wrapZ w false z.
Proof. unfold decode, encode. cbn [prim_width prim_signed]. rewrite (of_le_wrap (fun _ => true)). apply wrapZ_u_idem. Qed.

Lemma wrapZ_u_widen w wf z : w <= wf -> wrapZ wf false (wrapZ w false z) = wrapZ w false z.
Proof.
  intros H. rewrite !(wrapZ_unsigned (fun _ => true)).
  assert (Hp : (0 < 256 ^ Z.of_N w)%Z) by (apply Z.pow_pos_nonneg; lia).
  assert (Hle : (256 ^ Z.of_N w <= 256 ^ Z.of_N wf)%Z) by (apply Z.pow_le_mono_r; lia).
  pose proof (Z.mod_pos_bound z (256 ^ Z.of_N w) Hp) as Hb.
  apply Z.mod_small. lia.
Qed.

Definition trunc_stmt (x : lvar) (w : N) (f : name) (idx : list iexpr) (wf : N) : stmt :=
  SSeq (SLocal x (PInt false w) (ECast w false (ELoad f idx)))
       (SSeq (SSyncLocal x (PInt false w)) (SAssign f idx (PInt false wf) (ELocal x))).

Section Trunc.
  Variable v : version.
  Variable hs : Z -> bool.
  Variable Wtot : list wn.
  Variable sf : state.

  (* what one run does *)
  Lemma trunc_exec x w f idx wf st :
    idx_mentions x idx = false -> w <= wf ->
    let k := enc_key f (eval_idx st idx) in
    let u := wrapZ w false (get_int st k) in
    exec Wr v hs (trunc_stmt x w f idx wf) st =
      Ok (set_int (set_local (emit (set_local st x u) (encode (PInt false w) u)) x u) k u).
  Proof.
    intros Hm Hw. cbv zeta. unfold trunc_stmt.
    change (exec Wr v hs (SSeq ?a ?b) st) with (bind (exec Wr v hs a st) (exec Wr v hs b)).
    cbn [exec eval bind prim_width prim_signed]. rewrite wrapZ_u_idem.
    set (u := wrapZ w false (get_int st (enc_key f (eval_idx st idx)))).
    change (exec Wr v hs (SSeq ?a ?b) ?s0) with (bind (exec Wr v hs a s0) (exec Wr v hs b)).
    assert (Hd : decode (PInt false w) (encode (PInt false w) u) = u) by (unfold u; apply decode_encode_u).
    assert (Hwd : wrapZ wf false u = u) by (unfold u; apply wrapZ_u_widen; exact Hw).
    cbn [exec bind]. cbv zeta. rewrite get_set_local, N.eqb_refl.
    cbn [eval bind prim_width prim_signed]. rewrite key_of_key. unfold key.
    rewrite get_set_local, N.eqb_refl. rewrite !Hd, Hwd.
    rewrite eval_idx_not_mentioned by exact Hm.
    change (eval_idx (emit ?a ?b) idx) with (eval_idx a idx).
    rewrite eval_idx_not_mentioned by exact Hm. reflexivity.
  Qed.

  Lemma wk_trunc P x w f idx wf C L :
    target_ok Wtot P C L (WInt f) idx = true -> free_var P x = true -> idx_mentions x idx = false -> w <= wf ->
    wk_ok v hs Wtot sf P (trunc_stmt x w f idx wf) C L (WInt f :: C) (x :: L).
  Proof.
    intros Ht Hf Hm Hw. destruct (target_ok_parts _ _ _ _ _ _ Ht) as (Hidx & Hwr & Hmt).
    apply (wk_leaf v hs Wtot sf P _ (WInt f) idx C L (x :: L) Ht); [intros y; apply lmem_tail|].
    intros t1 t1' H. rewrite (trunc_exec x w f idx wf t1 Hm Hw) in H.
    set (k := enc_key f (eval_idx t1 idx)) in *. set (u := wrapZ w false (get_int t1 k)) in *.
    assert (E1 : t1' = set_int (set_local (emit (set_local t1 x u) (encode (PInt false w) u)) x u) k u) by congruence.
    subst t1'. clear H.
    split.
    { intros y Hy. change (get_local (set_int ?a ?b ?c) y) with (get_local a y). rewrite get_set_local, (free_var_cv P x Hf y Hy).
      change (get_local (emit ?a ?b) y) with (get_local a y). rewrite get_set_local, (free_var_cv P x Hf y Hy). reflexivity. }
    split.
    { intros n' l Hn. unfold k. rewrite getv_set_int_other by exact Hn. rewrite getv_local, getv_emit, getv_local. reflexivity. }
    exists (encode (PInt false w) u). split.
    { unfold wrote, emit. cbn [out set_local set_int]. rewrite rev_append_rev. reflexivity. }
    intros t2 HI Hh.
    rewrite (trunc_exec x w f idx wf t2 Hm Hw). rewrite <- (kinv_eval_idx _ _ _ _ _ _ _ _ HI Hidx). fold k.
    assert (Hk : get_int t2 k = u).
    { apply VI_inj. change (VI (get_int t2 k)) with (getv (WInt f) t2 (eval_idx t1 idx)).
      rewrite (inv_ext _ _ _ _ _ _ _ HI), <- Hh. cbn [getv]. fold k. rewrite get_set_int, skey_eqb_refl. reflexivity. }
    rewrite Hk. unfold u at 1 2 3 4. rewrite wrapZ_u_idem. fold u.
    eexists. split; [reflexivity|]. split.
    { unfold wrote, emit. cbn [out set_local set_int]. rewrite rev_append_rev. reflexivity. }
    split.
    - eapply ext_via; [|apply (inv_ext _ _ _ _ _ _ _ HI)]. intros n l. unfold k.
      rewrite getv_set_int_same; [rewrite getv_local, getv_emit, getv_local; reflexivity|].
      fold k. exact Hk.
    - intros y Hy. change (get_local (set_int ?a ?b ?c) y) with (get_local a y). rewrite !get_set_local.
      rewrite lmem_cons in Hy. destruct (y =? x) eqn:Ey; [reflexivity|]. cbn [orb] in Hy.
      change (get_local (emit ?a ?b) y) with (get_local a y). rewrite !get_set_local, Ey.
      apply (inv_loc _ _ _ _ _ _ _ HI y Hy).
  Qed.
End Trunc.
