(* C05: every block reference / string-table index that passes through a block's Sync is named by a
   static collection over the generated program; the per-type obligation compares that collection
   with the names reported by the class's GetChildRefs / GetPtrs / GetStringRefs. *)
From NiflyVerif Require Import IR Exec IREq.
Local Open Scope N_scope.

(* conditions that only depend on the version triple are decided statically *)
Fixpoint ver_only (v : version) (e : expr) : option Z :=
  match e with
  | EConst z => Some z
  | EVer VFile => Some (vfile v) | EVer VUser => Some (vuser v) | EVer VStream => Some (vstream v)
  | EBin Oand a b =>
    match ver_only v a with
    | Some x => if Z.eqb x 0 then Some 0%Z
                else match ver_only v b with Some y => Some (bool_z (negb (Z.eqb y 0))) | None => None end
    | None => None
    end
  | EBin Oor a b =>
    match ver_only v a with
    | Some x => if Z.eqb x 0
                then match ver_only v b with Some y => Some (bool_z (negb (Z.eqb y 0))) | None => None end
                else Some 1%Z
    | None => None
    end
  | EBin o a b =>
    match ver_only v a, ver_only v b with
    | Some x, Some y => match eval_bin o x y with Ok z => Some z | _ => None end
    | _, _ => None
    end
  | EUn Onot a => match ver_only v a with Some x => Some (bool_z (Z.eqb x 0)) | None => None end
  | _ => None
  end.

(* names of the reference fields a program can pass through Sync for version v:
   (block references, string-table indices) *)
Fixpoint refs_for (v : version) (s : stmt) : list name * list name :=
  match s with
  | SSeq a b => let '(b1, s1) := refs_for v a in let '(b2, s2) := refs_for v b in (b1 ++ b2, s1 ++ s2)
  | SIf c t e =>
    match ver_only v c with
    | Some z => if Z.eqb z 0 then refs_for v e else refs_for v t
    | None => let '(b1, s1) := refs_for v t in let '(b2, s2) := refs_for v e in (b1 ++ b2, s1 ++ s2)
    end
  | SFor _ _ b => refs_for v b
  | SRef f _ => ([f], [])
  | SStrRef _ findex _ => if Z.ltb (vfile v) V20_1_0_3 then ([], []) else ([], [findex])
  | _ => ([], [])
  end.

Definition names_of (p : list name * list name) : list name := fst p ++ snd p.

(* ---- the log only grows, and only by keys of collected names ---- *)
Definition key_named (names : list name) (k : skey) : Prop :=
  exists f i, In f names /\ k = enc_key f i.

Definition log_ext (names : list name) (st st' : state) : Prop :=
  exists new, reflog st' = new ++ reflog st /\ Forall (key_named names) new.

Lemma log_ext_refl names st : log_ext names st st.
Proof. exists []. split; [reflexivity|constructor]. Qed.

Lemma log_ext_same names st st' : reflog st' = reflog st -> log_ext names st st'.
Proof. intros H. exists []. split; [exact H|constructor]. Qed.

Lemma log_ext_trans n1 n2 a b c : log_ext n1 a b -> log_ext n2 b c -> log_ext (n1 ++ n2) a c.
Proof.
  intros (x & Hx & Fx) (y & Hy & Fy). exists (y ++ x). split.
  - rewrite Hy, Hx, app_assoc. reflexivity.
  - apply Forall_app. split.
    + eapply Forall_impl; [|exact Fy]. intros k (f & i & Hf & ->). exists f, i. split; [apply in_or_app; right; exact Hf|reflexivity].
    + eapply Forall_impl; [|exact Fx]. intros k (f & i & Hf & ->). exists f, i. split; [apply in_or_app; left; exact Hf|reflexivity].
Qed.

Lemma log_ext_mono n n' a b : incl n n' -> log_ext n a b -> log_ext n' a b.
Proof.
  intros Hi (x & Hx & Fx). exists x. split; [exact Hx|].
  eapply Forall_impl; [|exact Fx]. intros k (f & i & Hf & ->). exists f, i. split; auto.
Qed.

Section Logged.
  Variable m : mode.
  Variable v : version.
  Variable hs : Z -> bool.

  (* primitives that do not log *)
  Lemma reflog_read st k : reflog (snd (read st k)) = reflog st.
  Proof. unfold read. destruct (eof st); [reflexivity|]. destruct (k <=? remaining st); reflexivity. Qed.

  Lemma reflog_sync_int st k p n : reflog (sync_int m st k p n) = reflog st.
  Proof.
    unfold sync_int. destruct m.
    - pose proof (reflog_read st n) as H. destruct (read st n) as [got st1]. cbn [snd] in H.
      destruct (length got =? 0)%nat; [exact H|]. exact H.
    - destruct (n =? prim_width p); reflexivity.
  Qed.

  Lemma reflog_sync_blob st k n : reflog (sync_blob m st k n) = reflog st.
  Proof.
    unfold sync_blob. destruct m; [|reflexivity].
    pose proof (reflog_read st n) as H. destruct (read st n) as [got st1]. exact H.
  Qed.

  Lemma reflog_compact : forall fuel st fidx i src dst n,
    reflog (compact_refs fuel st fidx i src dst n) = reflog st.
  Proof.
    induction fuel as [|f IH]; intros; cbn [compact_refs]; [reflexivity|].
    destruct (src <? n); [|reflexivity].
    destruct (Z.eqb _ NPOSZ); rewrite IH; reflexivity.
  Qed.

  Lemma reflog_clean st a b c d i : reflog (clean_refs st a b c d i) = reflog st.
  Proof.
    unfold clean_refs. destruct (Z.eqb _ 0); [|reflexivity].
    cbn [reflog set_int set_size]. apply reflog_compact.
  Qed.

  Lemma iter_loop_log names (body : state -> res state) x n st st' :
    (forall s s' z, body (set_local s x z) = Ok s' -> log_ext names s s') ->
    iter_loop body x n st = Ok st' -> log_ext names st st'.
  Proof.
    intros Hb. unfold iter_loop.
    set (F := fun acc : res (N * state) => bind acc (fun p => let '(i, s) := p in
                 bind (body (set_local s x (Z.of_N i))) (fun s' => Ok (i + 1, s')))).
    assert (Hiter : forall k p, N.iter k F (Ok (0, st)) = Ok p -> log_ext names st (snd p)).
    { induction k as [|k IH] using N.peano_ind; intros p Hp.
      - cbn in Hp. inversion Hp; subst. apply log_ext_refl.
      - rewrite N.iter_succ in Hp. unfold F at 1 in Hp.
        destruct (N.iter k F (Ok (0, st))) as [[i s]| |] eqn:Hk; cbn [bind] in Hp; try discriminate.
        destruct (body (set_local s x (Z.of_N i))) as [s'| |] eqn:Hbody; cbn [bind] in Hp; try discriminate.
        inversion Hp; subst. cbn [snd].
        specialize (IH _ eq_refl). cbn [snd] in IH.
        destruct IH as (a & Ha & Fa). destruct (Hb _ _ _ Hbody) as (b & Hb' & Fb).
        exists (b ++ a). split; [rewrite Hb', Ha, app_assoc; reflexivity|apply Forall_app; auto]. }
    intros H. destruct (N.iter n F (Ok (0, st))) as [p| |] eqn:Hn; cbn [bind] in H; try discriminate.
    inversion H; subst. apply Hiter with (k := n). exact Hn.
  Qed.

  Lemma ver_only_bin o a b zr :
    o <> Oand -> o <> Oor -> ver_only v (EBin o a b) = Some zr ->
    exists x y, ver_only v a = Some x /\ ver_only v b = Some y /\ eval_bin o x y = Ok zr.
  Proof.
    intros Ha Ho H.
    assert (Hg : match ver_only v a, ver_only v b with
                 | Some x, Some y => match eval_bin o x y with Ok z => Some z | _ => None end
                 | _, _ => None
                 end = Some zr).
    { destruct o; try exact H; congruence. }
    destruct (ver_only v a) as [x|]; [|discriminate].
    destruct (ver_only v b) as [y|]; [|discriminate].
    exists x, y. repeat split; auto.
    destruct (eval_bin o x y); congruence.
  Qed.

  Lemma ver_only_sound : forall e st zr, ver_only v e = Some zr -> eval m v hs st e = Ok zr.
  Proof.
    induction e; intros st zr H; try (cbn [ver_only] in H; discriminate).
    - cbn in H. inversion H; reflexivity.
    - destruct v0; cbn in H; inversion H; reflexivity.
    - destruct (binop_eqb o Oand) eqn:Eand.
      + apply binop_eqb_eq in Eand. subst o. cbn [ver_only] in H. cbn [eval].
        destruct (ver_only v e1) as [x|] eqn:H1; [|discriminate].
        rewrite (IHe1 st x eq_refl). cbn [bind].
        destruct (Z.eqb x 0); [inversion H; reflexivity|].
        destruct (ver_only v e2) as [y|] eqn:H2; [|discriminate].
        rewrite (IHe2 st y eq_refl). cbn [bind]. inversion H; reflexivity.
      + destruct (binop_eqb o Oor) eqn:Eor.
        * apply binop_eqb_eq in Eor. subst o. cbn [ver_only] in H. cbn [eval].
          destruct (ver_only v e1) as [x|] eqn:H1; [|discriminate].
          rewrite (IHe1 st x eq_refl). cbn [bind].
          destruct (Z.eqb x 0); [|inversion H; reflexivity].
          destruct (ver_only v e2) as [y|] eqn:H2; [|discriminate].
          rewrite (IHe2 st y eq_refl). cbn [bind]. inversion H; reflexivity.
        * assert (Hna : o <> Oand) by (intros ->; discriminate).
          assert (Hno : o <> Oor) by (intros ->; discriminate).
          destruct (ver_only_bin o e1 e2 zr Hna Hno H) as (x & y & H1 & H2 & He).
          specialize (IHe1 st x H1). specialize (IHe2 st y H2).
          destruct o; try congruence; cbn [eval]; rewrite IHe1; cbn [bind]; rewrite IHe2; cbn [bind]; exact He.
    - destruct o; cbn [ver_only] in H; try discriminate.
      destruct (ver_only v e) as [x|] eqn:H1; [|discriminate].
      cbn [eval]. rewrite (IHe st x eq_refl). cbn [bind]. inversion H; reflexivity.
  Qed.

  Theorem logged_sound : forall s st st',
    exec m v hs s st = Ok st' -> log_ext (names_of (refs_for v s)) st st'.
  Proof.
    induction s; intros st st' H; cbn [exec] in H; cbn [refs_for];
      try (inversion H; subst; apply log_ext_refl).
    - (* SSeq *)
      destruct (exec m v hs s1 st) as [st1| |] eqn:H1; cbn [bind] in H; try discriminate.
      destruct (refs_for v s1) as [b1 r1]. destruct (refs_for v s2) as [b2 r2].
      specialize (IHs1 _ _ H1). specialize (IHs2 _ _ H).
      pose proof (log_ext_trans _ _ _ _ _ IHs1 IHs2) as Ht.
      eapply log_ext_mono; [|exact Ht]. unfold names_of. cbn [fst snd].
      intros k Hk. rewrite !in_app_iff in *. tauto.
    - (* SIf *)
      destruct (eval m v hs st c) as [z| |] eqn:Hc; cbn [bind] in H; try discriminate.
      destruct (ver_only v c) as [z0|] eqn:Hv.
      + rewrite (ver_only_sound c st z0 Hv) in Hc. inversion Hc; subst z0.
        destruct (Z.eqb z 0); [apply IHs2|apply IHs1]; exact H.
      + destruct (refs_for v s1) as [b1 r1]. destruct (refs_for v s2) as [b2 r2].
        destruct (Z.eqb z 0).
        * specialize (IHs2 _ _ H). eapply log_ext_mono; [|exact IHs2]. unfold names_of; cbn [fst snd].
          intros k Hk. rewrite !in_app_iff in *. tauto.
        * specialize (IHs1 _ _ H). eapply log_ext_mono; [|exact IHs1]. unfold names_of; cbn [fst snd].
          intros k Hk. rewrite !in_app_iff in *. tauto.
    - (* SSync *) inversion H; subst. apply log_ext_same. apply reflog_sync_int.
    - (* SSyncLocal *)
      apply log_ext_same. destruct m.
      + pose proof (reflog_read st (prim_width p)) as Hr. destruct (read st (prim_width p)) as [got st1]. cbn [snd] in Hr.
        destruct (length got =? 0)%nat; inversion H; subst; exact Hr.
      + inversion H; subst. reflexivity.
    - (* SSyncPart *) inversion H; subst. apply log_ext_same. apply reflog_sync_int.
    - (* SBytes *)
      destruct (eval m v hs st n) as [z| |]; cbn [bind] in H; try discriminate.
      inversion H; subst. apply log_ext_same. apply reflog_sync_blob.
    - (* SBytesVec *)
      cbv zeta in H. destruct (get_size st _ =? 0); inversion H; subst; apply log_ext_same; [reflexivity|apply reflog_sync_blob].
    - (* SHalf *) inversion H; subst. apply log_ext_same. apply reflog_sync_int.
    - (* SNiString *)
      cbv zeta in H. apply log_ext_same. destruct m.
      + pose proof (reflog_read st w) as Hr1. destruct (read st w) as [lb st1]. cbn [snd] in Hr1.
        match type of H with context [read st1 ?k] => pose proof (reflog_read st1 k) as Hr2; destruct (read st1 k) as [got st2] end.
        cbn [snd] in Hr2. inversion H; subst. cbn [reflog set_blob]. congruence.
      + inversion H; subst. reflexivity.
    - (* SStrRef *)
      destruct (Z.ltb (vfile v) V20_1_0_3).
      + cbv zeta in H. apply log_ext_same. destruct m.
        * pose proof (reflog_read st 4) as Hr1. destruct (read st 4) as [lb st1]. cbn [snd] in Hr1.
          destruct (_ <? 2049).
          -- match type of H with context [read st1 ?k] => pose proof (reflog_read st1 k) as Hr2; destruct (read st1 k) as [got st2] end.
             cbn [snd] in Hr2. inversion H; subst. cbn [reflog set_blob]. congruence.
          -- inversion H; subst. cbn [reflog set_blob]. exact Hr1.
        * inversion H; subst. reflexivity.
      + cbv zeta in H. inversion H; subst.
        exists [key_of st findex idx]. split.
        * rewrite reflog_sync_int. reflexivity.
        * constructor; [|constructor]. exists findex, (eval_idx st idx). split; [left; reflexivity|reflexivity].
    - (* SCStr *)
      cbv zeta in H. apply log_ext_same. destruct m; [|inversion H; subst; reflexivity].
      destruct (eof st); [inversion H; subst; reflexivity|].
      destruct (_ <? remaining st); inversion H; subst; reflexivity.
    - (* SRef *)
      cbv zeta in H. inversion H; subst.
      exists [key_of st f idx]. split.
      + rewrite reflog_sync_int. reflexivity.
      + constructor; [|constructor]. exists f, (eval_idx st idx). split; [left; reflexivity|reflexivity].
    - (* SRefArrHead *)
      cbv zeta in H. inversion H; subst. apply log_ext_same.
      cbn [reflog set_size]. rewrite reflog_sync_int. destruct m; [reflexivity|apply reflog_clean].
    - (* SCleanRefs *) cbv zeta in H. inversion H; subst. apply log_ext_same. apply reflog_clean.
    - (* SVecSize *)
      cbv zeta in H. apply log_ext_same. destruct m.
      + pose proof (reflog_read st w) as Hr. destruct (read st w) as [got st1]. cbn [snd] in Hr.
        inversion H; subst. exact Hr.
      + inversion H; subst. reflexivity.
    - (* SResize *)
      destruct (eval m v hs st n) as [z| |]; cbn [bind] in H; try discriminate. inversion H; subst. apply log_ext_same. reflexivity.
    - (* SFor *)
      destruct (eval m v hs st n) as [z| |]; cbn [bind] in H; try discriminate.
      eapply iter_loop_log; [|exact H].
      intros s0 s' z0 Hs. apply IHs in Hs.
      destruct Hs as (new & Hn & Fn). exists new. split; [exact Hn|exact Fn].
    - (* SLocal *)
      destruct (eval m v hs st e) as [z| |]; cbn [bind] in H; try discriminate. inversion H; subst. apply log_ext_same. reflexivity.
    - (* SAssign *)
      destruct (eval m v hs st e) as [z| |]; cbn [bind] in H; try discriminate. inversion H; subst. apply log_ext_same. reflexivity.
  Qed.
End Logged.

(* ---- the per-type obligation ---- *)
Definition memN' (x : name) (l : list name) : bool := existsb (N.eqb x) l.
Definition inclb (a b : list name) : bool := forallb (fun x => memN' x b) a.

Lemma inclb_incl a b : inclb a b = true -> incl a b.
Proof.
  unfold inclb. rewrite forallb_forall. intros H x Hx. specialize (H x Hx).
  unfold memN' in H. apply existsb_exists in H. destruct H as (y & Hy & He). apply N.eqb_eq in He. subst. exact Hy.
Qed.

(* [enum] = (names reported by GetChildRefs and GetPtrs, names reported by GetStringRefs) *)
Definition refs_enumerated (versions : list version) (body : stmt) (enum : list name * list name) : bool :=
  forallb (fun v => let '(b, s) := refs_for v body in inclb b (fst enum) && inclb s (snd enum)) versions.

(* consequence: under the obligation every key logged while the block is read or written in a listed
   version belongs to a field the owner enumerates *)
Theorem enumerated_covers_logged versions body enum m v hs st st' :
  refs_enumerated versions body enum = true -> In v versions ->
  exec m v hs body st = Ok st' ->
  log_ext (fst enum ++ snd enum) st st'.
Proof.
  intros Hob Hv Hex. unfold refs_enumerated in Hob. rewrite forallb_forall in Hob. specialize (Hob v Hv).
  pose proof (logged_sound m v hs body st st' Hex) as Hl.
  destruct (refs_for v body) as [b s]. apply andb_prop in Hob. destruct Hob as [H1 H2].
  apply inclb_incl in H1. apply inclb_incl in H2.
  eapply log_ext_mono; [|exact Hl]. unfold names_of. cbn [fst snd].
  intros k Hk. apply in_app_or in Hk. apply in_or_app. destruct Hk; [left|right]; auto.
Qed.
