(* Soundness of the write-idempotence discipline with loops [kchk] (WkDefs.v). *)
From NiflyVerif Require Import IR Exec IREq Refs RtDefs RtProofs WiDefs WiProofs WkDefs EncInj.
From Coq Require Import FMapPositive.
Local Open Scope N_scope.

(* ---- field instances, uniformly over the three stores ---- *)
Inductive val := VI (z : Z) | VS (n : N) | VB (b : list N).
Definition getv (n : wn) (t : state) (l : list N) : val :=
  match n with
  | WInt f => VI (get_int t (enc_key f l))
  | WSize f => VS (get_size t (enc_key f l))
  | WBlob f => VB (get_blob t (enc_key f l))
  end.
Definition ext_eq (a b : state) : Prop := forall n l, getv n a l = getv n b l.

Lemma wn_eq_dec (a b : wn) : {a = b} + {a <> b}.
Proof. destruct (wn_eqb a b) eqn:E; [left; apply wn_eqb_eq; exact E|right; intros ->; rewrite wn_eqb_refl in E; discriminate]. Qed.

Lemma getv_set_int t f l0 z n l : getv n (set_int t (enc_key f l0) z) l = if wn_eqb n (WInt f) && list_N_eqb l l0 then VI z else getv n t l.
Proof.
  destruct n as [g|g|g]; cbn [getv wn_eqb]; try reflexivity.
  rewrite get_set_int. destruct (N.eqb_spec g f) as [->|Hn]; cbn [andb].
  - destruct (skey_eqb (enc_key f l) (enc_key f l0)) eqn:E.
    + apply skey_eqb_enc in E. subst. assert (H : list_N_eqb l0 l0 = true) by (induction l0; cbn; [reflexivity|rewrite N.eqb_refl; assumption]). rewrite H. reflexivity.
    + destruct (list_N_eqb l l0) eqn:E2; [|reflexivity].
      assert (l = l0).
      { clear E. revert l0 E2. induction l as [|a r IH]; intros [|b s] H; cbn in H; try discriminate; [reflexivity|].
        apply andb_prop in H. destruct H as [H1 H2]. apply N.eqb_eq in H1. subst. f_equal. auto. }
      subst. rewrite skey_eqb_refl in E. discriminate.
  - rewrite skey_eqb_names by exact Hn. reflexivity.
Qed.

Lemma list_N_eqb_eq l l0 : list_N_eqb l l0 = true <-> l = l0.
Proof.
  split.
  - revert l0. induction l as [|a r IH]; intros [|b s] H; cbn in H; try discriminate; [reflexivity|].
    apply andb_prop in H. destruct H as [H1 H2]. apply N.eqb_eq in H1. subst. f_equal. auto.
  - intros ->. induction l0; cbn; [reflexivity|rewrite N.eqb_refl; assumption].
Qed.

Lemma getv_set_size t f l0 z n l : getv n (set_size t (enc_key f l0) z) l = if wn_eqb n (WSize f) && list_N_eqb l l0 then VS z else getv n t l.
Proof.
  destruct n as [g|g|g]; cbn [getv wn_eqb]; try reflexivity.
  rewrite get_set_size. destruct (N.eqb_spec g f) as [->|Hn]; cbn [andb].
  - destruct (skey_eqb (enc_key f l) (enc_key f l0)) eqn:E.
    + apply skey_eqb_enc in E. subst. rewrite (proj2 (list_N_eqb_eq l0 l0) eq_refl). reflexivity.
    + destruct (list_N_eqb l l0) eqn:E2; [|reflexivity]. apply list_N_eqb_eq in E2. subst. rewrite skey_eqb_refl in E. discriminate.
  - rewrite skey_eqb_names by exact Hn. reflexivity.
Qed.

Lemma getv_set_blob t f l0 z n l : getv n (set_blob t (enc_key f l0) z) l = if wn_eqb n (WBlob f) && list_N_eqb l l0 then VB z else getv n t l.
Proof.
  destruct n as [g|g|g]; cbn [getv wn_eqb]; try reflexivity.
  rewrite get_set_blob. destruct (N.eqb_spec g f) as [->|Hn]; cbn [andb].
  - destruct (skey_eqb (enc_key f l) (enc_key f l0)) eqn:E.
    + apply skey_eqb_enc in E. subst. rewrite (proj2 (list_N_eqb_eq l0 l0) eq_refl). reflexivity.
    + destruct (list_N_eqb l l0) eqn:E2; [|reflexivity]. apply list_N_eqb_eq in E2. subst. rewrite skey_eqb_refl in E. discriminate.
  - rewrite skey_eqb_names by exact Hn. reflexivity.
Qed.

Lemma getv_emit t b n l : getv n (emit t b) l = getv n t l. Proof. destruct n; reflexivity. Qed.
Lemma getv_log t k n l : getv n (log_ref t k) l = getv n t l. Proof. destruct n; reflexivity. Qed.
Lemma getv_local t x z n l : getv n (set_local t x z) l = getv n t l. Proof. destruct n; reflexivity. Qed.
Lemma getv_warn t b n l : getv n (set_warn t b) l = getv n t l. Proof. destruct n; reflexivity. Qed.

(* ---- slices ---- *)
Definition in_slice (P : ctab) (t : state) (n : wn) (l : list N) : Prop :=
  forall y p, In (y, p) (cons_of P n) -> nth_error l p = Some (Z.to_N (get_local t y)).

Lemma idx_matches_slice P t n idx : idx_matches P n idx = true -> in_slice P t n (eval_idx t idx).
Proof.
  unfold idx_matches, in_slice. rewrite forallb_forall. intros H y p Hin. specialize (H (y, p) Hin). cbn [fst snd] in H.
  unfold eval_idx. rewrite nth_error_map. destruct (nth_error idx p) as [[c|z]|]; try discriminate.
  apply N.eqb_eq in H. subst. reflexivity.
Qed.

Lemma in_slice_locals P t t' n l : (forall y, In y (cvars P) -> get_local t' y = get_local t y) -> in_slice P t n l -> in_slice P t' n l.
Proof.
  intros Hl H y p Hin. rewrite (H y p Hin). rewrite Hl; [reflexivity|].
  unfold cons_of in Hin. apply in_map_iff in Hin. destruct Hin as ((m & yp) & E & Hf). cbn in E. subst yp.
  apply filter_In in Hf. destruct Hf as [Hf _]. unfold cvars. apply in_map_iff. exists (m, (y, p)). auto.
Qed.

Lemma cons_of_app Q P n : cons_of (Q ++ P) n = cons_of Q n ++ cons_of P n.
Proof. unfold cons_of. rewrite filter_app, map_app. reflexivity. Qed.

Lemma in_slice_app Q P t n l : in_slice (Q ++ P) t n l <-> in_slice Q t n l /\ in_slice P t n l.
Proof.
  unfold in_slice. split.
  - intros H. split; intros y p Hin; apply H; rewrite cons_of_app; apply in_or_app; auto.
  - intros [H1 H2] y p Hin. rewrite cons_of_app in Hin. apply in_app_or in Hin. destruct Hin; auto.
Qed.

Lemma cons_of_single n m x p : cons_of [(m, (x, p))] n = if wn_eqb m n then [(x, p)] else [].
Proof. unfold cons_of. cbn. destruct (wn_eqb m n); reflexivity. Qed.

Lemma cvars_app Q P : cvars (Q ++ P) = cvars Q ++ cvars P.
Proof. unfold cvars. apply map_app. Qed.

Section Wk.
  Variable v : version.
  Variable hs : Z -> bool.
  Variable Wtot : list wn.
  Variable sf : state.

  Record Inv (P : ctab) (C : list wn) (L : list lvar) (t1 t2 : state) : Prop := mkInv {
    inv_ext : ext_eq t2 sf;
    inv_done : forall n, readable Wtot C n = true -> forall l, in_slice P t1 n l -> getv n t1 l = getv n sf l;
    inv_loc : forall x, lmem x L = true -> get_local t1 x = get_local t2 x;
    inv_cv : forall y, In y (cvars P) -> lmem y L = true
  }.

  Lemma kinv_eval_idx P C L t1 t2 idx : Inv P C L t1 t2 -> idx_locals_ok L idx = true -> eval_idx t1 idx = eval_idx t2 idx.
  Proof.
    intros HI. unfold idx_locals_ok, eval_idx. induction idx as [|i r IH]; cbn [forallb map]; intros H; [reflexivity|].
    apply andb_prop in H. destruct H as [H1 H2]. f_equal; [|auto].
    destruct i as [n|x]; cbn [eval_i]; [reflexivity|]. rewrite (inv_loc _ _ _ _ _ HI x H1). reflexivity.
  Qed.

  (* a readable instance inside the slice has the same value in both runs *)
  Lemma kinv_read P C L t1 t2 n idx :
    Inv P C L t1 t2 -> readable Wtot C n = true -> idx_matches P n idx = true ->
    getv n t1 (eval_idx t1 idx) = getv n t2 (eval_idx t1 idx).
  Proof.
    intros HI Hr Hm. rewrite (inv_done _ _ _ _ _ HI n Hr _ (idx_matches_slice P t1 n idx Hm)).
    symmetry. apply (inv_ext _ _ _ _ _ HI).
  Qed.

  Lemma kinv_eval P C L t1 t2 : Inv P C L t1 t2 -> forall e, kreads_ok Wtot P C L e = true -> eval Wr v hs t1 e = eval Wr v hs t2 e.
  Proof.
    intros HI. induction e; intros He; cbn [kreads_ok] in He; cbn [eval]; try reflexivity; try discriminate.
    - apply andb_prop in He. destruct He as [He H3]. apply andb_prop in He. destruct He as [H1 H2].
      rewrite <- (kinv_eval_idx _ _ _ _ _ _ HI H2). pose proof (kinv_read _ _ _ _ _ (WInt f) idx HI H1 H3) as E. cbn [getv] in E. inversion E. reflexivity.
    - apply andb_prop in He. destruct He as [He H3]. apply andb_prop in He. destruct He as [H1 H2].
      rewrite <- (kinv_eval_idx _ _ _ _ _ _ HI H2). pose proof (kinv_read _ _ _ _ _ (WSize f) idx HI H1 H3) as E. cbn [getv] in E. inversion E. reflexivity.
    - apply andb_prop in He. destruct He as [He H3]. apply andb_prop in He. destruct He as [H1 H2].
      rewrite <- (kinv_eval_idx _ _ _ _ _ _ HI H2). pose proof (kinv_read _ _ _ _ _ (WBlob f) idx HI H1 H3) as E. cbn [getv] in E. inversion E. reflexivity.
    - rewrite (inv_loc _ _ _ _ _ HI x He). reflexivity.
    - apply andb_prop in He. destruct He as [H1 H2]. rewrite (IHe1 H1), (IHe2 H2). reflexivity.
    - rewrite (IHe He). reflexivity.
    - rewrite (IHe He). reflexivity.
    - apply andb_prop in He. destruct He as [He H3]. apply andb_prop in He. destruct He as [H1 H2].
      rewrite (IHe1 H1), (IHe2 H2), (IHe3 H3). reflexivity.
    - apply andb_prop in He. destruct He as [He H3]. apply andb_prop in He. destruct He as [H1 H2].
      rewrite <- (kinv_eval_idx _ _ _ _ _ _ HI H2). pose proof (kinv_read _ _ _ _ _ (WInt f) idx HI H1 H3) as E. cbn [getv] in E. inversion E. reflexivity.
  Qed.

  (* ---- the statement proved for every accepted statement ---- *)
  Definition wk_ok (P : ctab) (s : stmt) (C : list wn) (L : list lvar) (C' : list wn) (L' : list lvar) : Prop :=
    (forall a, wmem a C = true -> wmem a C' = true) /\
    (forall x, lmem x L = true -> lmem x L' = true) /\
    forall t1 t1', exec Wr v hs s t1 = Ok t1' ->
      (forall y, In y (cvars P) -> get_local t1' y = get_local t1 y) /\
      (forall n l, (wmem n C' = false \/ wmem n C = true \/ ~ in_slice P t1 n l) -> getv n t1' l = getv n t1 l) /\
      exists extra, wrote t1 t1' extra /\
        forall t2, Inv P C L t1 t2 ->
          (forall n, wmem n C' = true -> wmem n C = false -> forall l, in_slice P t1 n l -> getv n t1' l = getv n sf l) ->
          exists t2', exec Wr v hs s t2 = Ok t2' /\ wrote t2 t2' extra /\ Inv P C' L' t1' t2'.

  Lemma kinv_post P C L C' L' t1 t2 t1' t2' :
    Inv P C L t1 t2 ->
    (forall y, In y (cvars P) -> get_local t1' y = get_local t1 y) ->
    (forall n l, (wmem n C' = false \/ wmem n C = true \/ ~ in_slice P t1 n l) -> getv n t1' l = getv n t1 l) ->
    (forall n, wmem n C' = true -> wmem n C = false -> forall l, in_slice P t1 n l -> getv n t1' l = getv n sf l) ->
    ext_eq t2' sf ->
    (forall x, lmem x L' = true -> get_local t1' x = get_local t2' x) ->
    (forall x, lmem x L = true -> lmem x L' = true) ->
    Inv P C' L' t1' t2'.
  Proof.
    intros HI Hcv Hfr Hh Hext Hloc HL. constructor; [exact Hext| |exact Hloc|].
    - intros n Hr l Hs'.
      assert (Hs : in_slice P t1 n l).
      { apply (in_slice_locals P t1' t1); [|exact Hs']. intros y Hy. symmetry. apply Hcv. exact Hy. }
      unfold readable in Hr. destruct (wmem n C') eqn:E1.
      + destruct (wmem n C) eqn:E2.
        * rewrite (Hfr n l) by (right; left; exact E2). apply (inv_done _ _ _ _ _ HI); [|exact Hs]. unfold readable. rewrite E2. reflexivity.
        * apply Hh; assumption.
      + cbn [orb] in Hr. rewrite (Hfr n l) by (left; exact E1).
        apply (inv_done _ _ _ _ _ HI); [|exact Hs]. unfold readable. rewrite Hr. apply orb_true_r.
    - intros y Hy. apply HL. apply (inv_cv _ _ _ _ _ HI). exact Hy.
  Qed.

  Lemma wk_skip P C L : wk_ok P SSkip C L C L.
  Proof.
    split; [auto|]. split; [auto|]. intros t1 t1' H. cbn in H. assert (t1' = t1) by congruence. subst t1'.
    split; [reflexivity|]. split; [reflexivity|]. exists []. split; [apply wrote_refl|].
    intros t2 HI _. exists t2. split; [reflexivity|]. split; [apply wrote_refl|exact HI].
  Qed.

  Lemma wk_seq P a b C L C1 L1 C2 L2 : wk_ok P a C L C1 L1 -> wk_ok P b C1 L1 C2 L2 -> wk_ok P (SSeq a b) C L C2 L2.
  Proof.
    intros (Ma & La & Ha) (Mb & Lb & Hb). split; [auto|]. split; [auto|].
    intros t1 t1' H. cbn [exec] in H.
    destruct (exec Wr v hs a t1) as [t1a| |] eqn:Ea; cbn [bind] in H; try discriminate.
    destruct (Ha t1 t1a Ea) as (Va & Fa & ea & Wa & Ra). destruct (Hb t1a t1' H) as (Vb & Fb & eb & Wb & Rb).
    assert (Mb' : forall n, wmem n C2 = false -> wmem n C1 = false).
    { intros n E. destruct (wmem n C1) eqn:E1; [|reflexivity]. rewrite (Mb n E1) in E. discriminate. }
    assert (Ma' : forall n, wmem n C1 = false -> wmem n C = false).
    { intros n E. destruct (wmem n C) eqn:E1; [|reflexivity]. rewrite (Ma n E1) in E. discriminate. }
    assert (Sl : forall n l, in_slice P t1 n l <-> in_slice P t1a n l).
    { intros n l. split; apply in_slice_locals; intros y Hy; [apply Va|symmetry; apply Va]; exact Hy. }
    split; [intros y Hy; rewrite (Vb y Hy); apply Va; exact Hy|]. split.
    - intros n l [E|[E|E]].
      + rewrite (Fb n l) by (left; exact E). apply Fa. left. apply Mb'. exact E.
      + rewrite (Fb n l) by (right; left; apply Ma; exact E). apply Fa. right. left. exact E.
      + rewrite (Fb n l) by (right; right; intros Hs; apply E; apply Sl; exact Hs). apply Fa. right. right. exact E.
    - exists (ea ++ eb). split; [eapply wrote_trans; eauto|].
      intros t2 HI Hh.
      destruct (Ra t2 HI) as (t2a & Xa & W2a & Ia).
      { intros n E1 E l Hs. rewrite <- (Hh n (Mb n E1) E l Hs). symmetry. apply Fb. right. left. exact E1. }
      destruct (Rb t2a Ia) as (t2' & Xb & W2b & Ib).
      { intros n E2 E1 l Hs. apply Hh; [exact E2|apply Ma'; exact E1|apply Sl; exact Hs]. }
      exists t2'. cbn [exec]. rewrite Xa. cbn [bind]. split; [exact Xb|]. split; [eapply wrote_trans; eauto|exact Ib].
  Qed.

  Lemma wk_if_ver P c t e C L C' L' z :
    ver_only v c = Some z -> wk_ok P (if Z.eqb z 0 then e else t) C L C' L' -> wk_ok P (SIf c t e) C L C' L'.
  Proof.
    intros Hv (M & ML & Hb). split; [exact M|]. split; [exact ML|].
    intros t1 t1' H. cbn [exec] in H. rewrite (ver_only_sound Wr v hs c t1 z Hv) in H. cbn [bind] in H.
    assert (Hx : exec Wr v hs (if Z.eqb z 0 then e else t) t1 = Ok t1') by (destruct (Z.eqb z 0); exact H).
    destruct (Hb t1 t1' Hx) as (V & F & ex & Wx & R). split; [exact V|]. split; [exact F|]. exists ex. split; [exact Wx|].
    intros t2 HI Hh. destruct (R t2 HI Hh) as (t2' & X & W2 & I2). exists t2'.
    cbn [exec]. rewrite (ver_only_sound Wr v hs c t2 z Hv). cbn [bind].
    split; [destruct (Z.eqb z 0); exact X|]. auto.
  Qed.

  Lemma kinv_weaken P C1 L1 C' L' t1 t2 :
    (forall n, wmem n C' = true -> wmem n C1 = false -> forall l, in_slice P t1 n l -> getv n t1 l = getv n sf l) ->
    (forall x, lmem x L' = true -> lmem x L1 = true) ->
    (forall y, In y (cvars P) -> lmem y L' = true) ->
    Inv P C1 L1 t1 t2 -> Inv P C' L' t1 t2.
  Proof.
    intros Hh Hl Hc HI. constructor; [apply (inv_ext _ _ _ _ _ HI)| | |exact Hc].
    - intros n Hr l Hs. unfold readable in Hr. destruct (wmem n C1) eqn:E1.
      + apply (inv_done _ _ _ _ _ HI); [|exact Hs]. unfold readable. rewrite E1. reflexivity.
      + destruct (wmem n C') eqn:E2.
        * apply Hh; assumption.
        * cbn [orb] in Hr. apply (inv_done _ _ _ _ _ HI); [|exact Hs]. unfold readable. rewrite Hr. apply orb_true_r.
    - intros x Hx. apply (inv_loc _ _ _ _ _ HI). apply Hl. exact Hx.
  Qed.

  Lemma lmem_linter_intro x L1 L2 : lmem x L1 = true -> lmem x L2 = true -> lmem x (linter L1 L2) = true.
  Proof. intros H1 H2. apply lmem_in. unfold linter. apply filter_In. split; [apply lmem_in; exact H1|exact H2]. Qed.

  Lemma wk_if_dyn P c t e C L C1 L1 C2 L2 :
    kreads_ok Wtot P C L c = true -> wk_ok P t C L C1 L1 -> wk_ok P e C L C2 L2 ->
    wk_ok P (SIf c t e) C L (wunion C1 C2) (linter L1 L2).
  Proof.
    intros Hc (Mt & Lt & Ht) (Me & Le & He). split.
    { intros a Ha. rewrite wmem_wunion, (Mt a Ha). reflexivity. }
    split. { intros x Hx. apply lmem_linter_intro; auto. }
    intros t1 t1' H. cbn [exec] in H.
    destruct (eval Wr v hs t1 c) as [z| |] eqn:Ec; cbn [bind] in H; try discriminate.
    destruct (Z.eqb z 0) eqn:Ez.
    - destruct (He t1 t1' H) as (V & F & ex & Wx & R). split; [exact V|]. split.
      { intros n l [E|[E|E]]; apply F; [left|right; left; exact E|right; right; exact E].
        rewrite wmem_wunion in E. apply orb_false_iff in E. apply E. }
      exists ex. split; [exact Wx|]. intros t2 HI Hh.
      destruct (R t2 HI) as (t2' & X & W2' & I2).
      { intros n E2 E. apply Hh; [|exact E]. rewrite wmem_wunion, E2. apply orb_true_r. }
      exists t2'. cbn [exec]. rewrite <- (kinv_eval _ _ _ _ _ HI c Hc), Ec. cbn [bind]. rewrite Ez.
      split; [exact X|]. split; [exact W2'|].
      eapply kinv_weaken; [| | |exact I2].
      + intros n E E2 l Hs. apply Hh; [exact E| |].
        * destruct (wmem n C) eqn:EW; [|reflexivity]. rewrite (Me n EW) in E2. discriminate.
        * apply (in_slice_locals P t1' t1); [|exact Hs]. intros y Hy. symmetry. apply V. exact Hy.
      + intros x Hx. apply lmem_linter in Hx. apply Hx.
      + intros y Hy. apply lmem_linter_intro; [apply Lt|apply Le]; apply (inv_cv _ _ _ _ _ HI); exact Hy.
    - destruct (Ht t1 t1' H) as (V & F & ex & Wx & R). split; [exact V|]. split.
      { intros n l [E|[E|E]]; apply F; [left|right; left; exact E|right; right; exact E].
        rewrite wmem_wunion in E. apply orb_false_iff in E. apply E. }
      exists ex. split; [exact Wx|]. intros t2 HI Hh.
      destruct (R t2 HI) as (t2' & X & W2' & I2).
      { intros n E1 E. apply Hh; [|exact E]. rewrite wmem_wunion, E1. reflexivity. }
      exists t2'. cbn [exec]. rewrite <- (kinv_eval _ _ _ _ _ HI c Hc), Ec. cbn [bind]. rewrite Ez.
      split; [exact X|]. split; [exact W2'|].
      eapply kinv_weaken; [| | |exact I2].
      + intros n E E1 l Hs. apply Hh; [exact E| |].
        * destruct (wmem n C) eqn:EW; [|reflexivity]. rewrite (Mt n EW) in E1. discriminate.
        * apply (in_slice_locals P t1' t1); [|exact Hs]. intros y Hy. symmetry. apply V. exact Hy.
      + intros x Hx. apply lmem_linter in Hx. apply Hx.
      + intros y Hy. apply lmem_linter_intro; [apply Lt|apply Le]; apply (inv_cv _ _ _ _ _ HI); exact Hy.
  Qed.

  (* ---- helpers about single instances ---- *)
  Lemma cond_false n m l l0 : (n <> m \/ l <> l0) -> wn_eqb n m && list_N_eqb l l0 = false.
  Proof.
    intros [H|H].
    - destruct (wn_eqb n m) eqn:E; [apply wn_eqb_eq in E; contradiction|reflexivity].
    - destruct (list_N_eqb l l0) eqn:E; [apply list_N_eqb_eq in E; contradiction|apply andb_false_r].
  Qed.
  Lemma cond_true n m l l0 : wn_eqb n m && list_N_eqb l l0 = true -> n = m /\ l = l0.
  Proof. intros H. apply andb_prop in H. destruct H as [H1 H2]. split; [apply wn_eqb_eq; exact H1|apply list_N_eqb_eq; exact H2]. Qed.

  Lemma getv_set_int_other t f l0 z n l : (n <> WInt f \/ l <> l0) -> getv n (set_int t (enc_key f l0) z) l = getv n t l.
  Proof. intros H. rewrite getv_set_int, (cond_false _ _ _ _ H). reflexivity. Qed.
  Lemma getv_set_size_other t f l0 z n l : (n <> WSize f \/ l <> l0) -> getv n (set_size t (enc_key f l0) z) l = getv n t l.
  Proof. intros H. rewrite getv_set_size, (cond_false _ _ _ _ H). reflexivity. Qed.
  Lemma getv_set_blob_other t f l0 z n l : (n <> WBlob f \/ l <> l0) -> getv n (set_blob t (enc_key f l0) z) l = getv n t l.
  Proof. intros H. rewrite getv_set_blob, (cond_false _ _ _ _ H). reflexivity. Qed.
  Lemma getv_set_int_same t f l0 z n l : get_int t (enc_key f l0) = z -> getv n (set_int t (enc_key f l0) z) l = getv n t l.
  Proof.
    intros H. rewrite getv_set_int. destruct (wn_eqb n (WInt f) && list_N_eqb l l0) eqn:E; [|reflexivity].
    apply cond_true in E. destruct E as [-> ->]. cbn [getv]. rewrite H. reflexivity.
  Qed.
  Lemma getv_set_size_same t f l0 z n l : get_size t (enc_key f l0) = z -> getv n (set_size t (enc_key f l0) z) l = getv n t l.
  Proof.
    intros H. rewrite getv_set_size. destruct (wn_eqb n (WSize f) && list_N_eqb l l0) eqn:E; [|reflexivity].
    apply cond_true in E. destruct E as [-> ->]. cbn [getv]. rewrite H. reflexivity.
  Qed.
  Lemma getv_set_blob_same t f l0 z n l : get_blob t (enc_key f l0) = z -> getv n (set_blob t (enc_key f l0) z) l = getv n t l.
  Proof.
    intros H. rewrite getv_set_blob. destruct (wn_eqb n (WBlob f) && list_N_eqb l l0) eqn:E; [|reflexivity].
    apply cond_true in E. destruct E as [-> ->]. cbn [getv]. rewrite H. reflexivity.
  Qed.
  Lemma VI_inj a b : VI a = VI b -> a = b. Proof. intros H; inversion H; reflexivity. Qed.
  Lemma VS_inj a b : VS a = VS b -> a = b. Proof. intros H; inversion H; reflexivity. Qed.
  Lemma VB_inj a b : VB a = VB b -> a = b. Proof. intros H; inversion H; reflexivity. Qed.

  Lemma target_ok_parts P C L n idx :
    target_ok Wtot P C L n idx = true -> idx_locals_ok L idx = true /\ writable Wtot C n = true /\ idx_matches P n idx = true.
  Proof. unfold target_ok. intros H. apply andb_prop in H. destruct H as [H H3]. apply andb_prop in H. destruct H as [H1 H2]. auto. Qed.

  (* ---- leaves ---- *)
  Lemma wk_leaf P s n idx C L L' :
    target_ok Wtot P C L n idx = true ->
    (forall x, lmem x L = true -> lmem x L' = true) ->
    (forall t1 t1', exec Wr v hs s t1 = Ok t1' ->
       (forall y, In y (cvars P) -> get_local t1' y = get_local t1 y) /\
       (forall n' l, (n' <> n \/ l <> eval_idx t1 idx) -> getv n' t1' l = getv n' t1 l) /\
       exists extra, wrote t1 t1' extra /\
         forall t2, Inv P C L t1 t2 -> getv n t1' (eval_idx t1 idx) = getv n sf (eval_idx t1 idx) ->
           exists t2', exec Wr v hs s t2 = Ok t2' /\ wrote t2 t2' extra /\ ext_eq t2' sf /\
                       (forall x, lmem x L' = true -> get_local t1' x = get_local t2' x)) ->
    wk_ok P s C L (n :: C) L'.
  Proof.
    intros Ht HL H. destruct (target_ok_parts _ _ _ _ _ Ht) as (Hidx & Hw & Hm).
    split. { intros a Ha. rewrite wmem_cons, Ha. apply orb_true_r. }
    split; [exact HL|].
    intros t1 t1' Hx. destruct (H t1 t1' Hx) as (V & F & ex & Wx & R).
    assert (Hnw : wmem n C = false).
    { unfold writable in Hw. apply andb_prop in Hw. destruct Hw as [_ Hw]. apply negb_true_iff in Hw. exact Hw. }
    assert (Fr : forall n' l, (wmem n' (n :: C) = false \/ wmem n' C = true \/ ~ in_slice P t1 n' l) -> getv n' t1' l = getv n' t1 l).
    { intros n' l Hc. apply F. destruct (wn_eq_dec n' n) as [->|Hne]; [|left; exact Hne]. right.
      destruct Hc as [E|[E|E]].
      - rewrite wmem_cons, wn_eqb_refl in E. discriminate.
      - congruence.
      - intros ->. apply E. apply idx_matches_slice. exact Hm. }
    split; [exact V|]. split; [exact Fr|]. exists ex. split; [exact Wx|].
    intros t2 HI Hh.
    destruct (R t2 HI) as (t2' & X & W2 & Ex & Lo).
    { apply Hh; [rewrite wmem_cons, wn_eqb_refl; reflexivity|exact Hnw|apply idx_matches_slice; exact Hm]. }
    exists t2'. split; [exact X|]. split; [exact W2|]. eapply kinv_post; eauto.
  Qed.

  Lemma wk_leaf0 P s C L L' :
    (forall x, lmem x L = true -> lmem x L' = true) ->
    (forall t1 t1', exec Wr v hs s t1 = Ok t1' ->
       (forall y, In y (cvars P) -> get_local t1' y = get_local t1 y) /\
       (forall n l, getv n t1' l = getv n t1 l) /\
       exists extra, wrote t1 t1' extra /\
         forall t2, Inv P C L t1 t2 ->
           exists t2', exec Wr v hs s t2 = Ok t2' /\ wrote t2 t2' extra /\ ext_eq t2' sf /\
                       (forall x, lmem x L' = true -> get_local t1' x = get_local t2' x)) ->
    wk_ok P s C L C L'.
  Proof.
    intros HL H. split; [auto|]. split; [exact HL|].
    intros t1 t1' Hx. destruct (H t1 t1' Hx) as (V & F & ex & Wx & R).
    split; [exact V|]. split; [intros n l _; apply F|]. exists ex. split; [exact Wx|].
    intros t2 HI Hh. destruct (R t2 HI) as (t2' & X & W2 & Ex & Lo).
    exists t2'. split; [exact X|]. split; [exact W2|].
    eapply kinv_post; [exact HI|exact V|intros n l _; apply F|exact Hh|exact Ex|exact Lo|exact HL].
  Qed.

  Lemma ext_via t2' t2 : (forall n l, getv n t2' l = getv n t2 l) -> ext_eq t2 sf -> ext_eq t2' sf.
  Proof. intros H1 H2 n l. rewrite H1. apply H2. Qed.

  Lemma kinv_locals_same P C L t1 t2 a b :
    Inv P C L t1 t2 -> locals a = locals t1 -> locals b = locals t2 ->
    forall x, lmem x L = true -> get_local a x = get_local b x.
  Proof. intros HI Ha Hb x Hx. unfold get_local. rewrite Ha, Hb. apply (inv_loc _ _ _ _ _ HI x Hx). Qed.

  Lemma locals_cv (P : ctab) a t1 : locals a = locals t1 -> forall y, In y (cvars P) -> get_local a y = get_local t1 y.
  Proof. intros H y _. unfold get_local. rewrite H. reflexivity. Qed.

  (* a scalar transfer *)
  Lemma sync_int_wk t1 f l p nb :
    let k := enc_key f l in
    let bytes := firstn (N.to_nat nb) (encode p (get_int t1 k)) in
    let t1' := sync_int Wr t1 k p nb in
    (forall n' l', (n' <> WInt f \/ l' <> l) -> getv n' t1' l' = getv n' t1 l') /\ wrote t1 t1' bytes /\ locals t1' = locals t1 /\
    forall t2, ext_eq t2 sf -> getv (WInt f) t1' l = getv (WInt f) sf l ->
      let t2' := sync_int Wr t2 k p nb in
      wrote t2 t2' bytes /\ ext_eq t2' sf /\ locals t2' = locals t2.
  Proof.
    cbv zeta. unfold sync_int. destruct (nb =? prim_width p) eqn:Enb.
    - split; [|split; [unfold wrote, emit; cbn [out set_int]; rewrite rev_append_rev; reflexivity|split; [reflexivity|]]].
      + intros n' l' Hn. rewrite getv_emit. apply getv_set_int_other. exact Hn.
      + intros t2 Hext Hh.
        assert (Hk : get_int t2 (enc_key f l) = decode p (encode p (get_int t1 (enc_key f l)))).
        { apply VI_inj. change (VI (get_int t2 (enc_key f l))) with (getv (WInt f) t2 l). rewrite (Hext (WInt f) l), <- Hh.
          rewrite getv_emit. cbn [getv]. rewrite get_set_int, skey_eqb_refl. reflexivity. }
        rewrite Hk, encode_decode_encode.
        split; [unfold wrote, emit; cbn [out set_int]; rewrite rev_append_rev; reflexivity|]. split; [|reflexivity].
        eapply ext_via; [|exact Hext]. intros n l'. rewrite getv_emit. apply getv_set_int_same. exact Hk.
    - split; [|split; [apply wrote_emit|split; [reflexivity|]]].
      + intros n' l' Hn. apply getv_emit.
      + intros t2 Hext Hh.
        assert (Hk : get_int t2 (enc_key f l) = get_int t1 (enc_key f l)).
        { apply VI_inj. change (VI (get_int t2 (enc_key f l))) with (getv (WInt f) t2 l). rewrite (Hext (WInt f) l), <- Hh. rewrite getv_emit. reflexivity. }
        rewrite Hk. split; [apply wrote_emit|]. split; [|reflexivity].
        eapply ext_via; [|exact Hext]. intros n l'. apply getv_emit.
  Qed.

  Lemma wk_sync_gen P s f idx p nb (lg : bool) C L :
    target_ok Wtot P C L (WInt f) idx = true ->
    (forall st, exec Wr v hs s st = Ok (maybe_log lg (sync_int Wr st (key st f idx) p nb) (key st f idx))) ->
    wk_ok P s C L (WInt f :: C) L.
  Proof.
    intros Ht Hex. destruct (target_ok_parts _ _ _ _ _ Ht) as (Hidx & Hw & Hm).
    apply (wk_leaf P s (WInt f) idx C L L Ht); [auto|].
    intros t1 t1' H. rewrite Hex in H.
    assert (Hs : t1' = maybe_log lg (sync_int Wr t1 (key t1 f idx) p nb) (key t1 f idx)) by congruence. subst t1'. clear H.
    unfold key in *. destruct (sync_int_wk t1 f (eval_idx t1 idx) p nb) as (F & Wx & Lc & R).
    destruct (maybe_log_facts lg (sync_int Wr t1 (enc_key f (eval_idx t1 idx)) p nb) (enc_key f (eval_idx t1 idx))) as (L1 & L2 & L3 & L4).
    assert (SN : forall st n l, getv n (maybe_log lg st (enc_key f (eval_idx t1 idx))) l = getv n st l).
    { intros st n l. destruct lg; [apply getv_log|reflexivity]. }
    assert (LL : forall st, locals (maybe_log lg st (enc_key f (eval_idx t1 idx))) = locals st) by (intros st; destruct lg; reflexivity).
    split; [apply locals_cv; rewrite LL; exact Lc|]. split.
    - intros n' l Hn. rewrite SN. apply F. exact Hn.
    - eexists. split; [unfold wrote in *; rewrite L2; exact Wx|].
      intros t2 HI Hh. rewrite Hex. unfold key. rewrite <- (kinv_eval_idx _ _ _ _ _ _ HI Hidx).
      rewrite SN in Hh.
      destruct (R t2 (inv_ext _ _ _ _ _ HI) Hh) as (W2 & E2 & Lc2).
      eexists. split; [reflexivity|].
      destruct (maybe_log_facts lg (sync_int Wr t2 (enc_key f (eval_idx t1 idx)) p nb) (enc_key f (eval_idx t1 idx))) as (M1 & M2 & M3 & M4).
      split; [unfold wrote in *; rewrite M2; exact W2|]. split.
      + intros n l. rewrite SN. apply E2.
      + apply (kinv_locals_same _ _ _ _ _ _ _ HI); rewrite LL; assumption.
  Qed.

  Lemma free_var_cv P x : free_var P x = true -> forall y, In y (cvars P) -> (y =? x) = false.
  Proof.
    unfold free_var. intros H y Hy. apply negb_true_iff in H. destruct (N.eqb_spec y x) as [->|]; [|reflexivity].
    apply lmem_in in Hy. congruence.
  Qed.

  (* ---- assignments and resizes ---- *)
  Lemma wk_assign P f idx p e C L :
    target_ok Wtot P C L (WInt f) idx = true -> kreads_ok Wtot P C L e = true ->
    wk_ok P (SAssign f idx p e) C L (WInt f :: C) L.
  Proof.
    intros Ht He. destruct (target_ok_parts _ _ _ _ _ Ht) as (Hidx & Hw & Hm).
    apply (wk_leaf P _ (WInt f) idx C L L Ht); [auto|].
    intros t1 t1' H. cbn [exec] in H. cbv zeta in H. rewrite key_of_key in H.
    destruct (eval Wr v hs t1 e) as [z| |] eqn:Ez; cbn [bind] in H; try discriminate.
    assert (t1' = set_int t1 (key t1 f idx) (wrapZ (prim_width p) (prim_signed p) z)) by congruence. subst t1'. clear H.
    unfold key. split; [apply locals_cv; reflexivity|]. split; [intros n' l Hn; apply getv_set_int_other; exact Hn|].
    exists []. split; [reflexivity|].
    intros t2 HI Hh. cbn [exec]. cbv zeta. rewrite key_of_key. unfold key.
    rewrite <- (kinv_eval _ _ _ _ _ HI e He), Ez, <- (kinv_eval_idx _ _ _ _ _ _ HI Hidx). cbn [bind].
    eexists. split; [reflexivity|]. split; [reflexivity|]. split.
    - eapply ext_via; [|apply (inv_ext _ _ _ _ _ HI)]. intros n l. apply getv_set_int_same.
      apply VI_inj. change (VI (get_int t2 ?k)) with (getv (WInt f) t2 (eval_idx t1 idx)).
      rewrite (inv_ext _ _ _ _ _ HI), <- Hh. cbn [getv]. rewrite get_set_int, skey_eqb_refl. reflexivity.
    - apply (kinv_locals_same _ _ _ _ _ _ _ HI); reflexivity.
  Qed.

  Lemma wk_resize P f idx n C L :
    target_ok Wtot P C L (WSize f) idx = true -> kreads_ok Wtot P C L n = true ->
    wk_ok P (SResize f idx n) C L (WSize f :: C) L.
  Proof.
    intros Ht He. destruct (target_ok_parts _ _ _ _ _ Ht) as (Hidx & Hw & Hm).
    apply (wk_leaf P _ (WSize f) idx C L L Ht); [auto|].
    intros t1 t1' H. cbn [exec] in H. cbv zeta in H. rewrite key_of_key in H.
    destruct (eval Wr v hs t1 n) as [z| |] eqn:Ez; cbn [bind] in H; try discriminate.
    assert (t1' = set_size t1 (key t1 f idx) (Z.to_N z)) by congruence. subst t1'. clear H.
    unfold key. split; [apply locals_cv; reflexivity|]. split; [intros n' l Hn; apply getv_set_size_other; exact Hn|].
    exists []. split; [reflexivity|].
    intros t2 HI Hh. cbn [exec]. cbv zeta. rewrite key_of_key. unfold key.
    rewrite <- (kinv_eval _ _ _ _ _ HI n He), Ez, <- (kinv_eval_idx _ _ _ _ _ _ HI Hidx). cbn [bind].
    eexists. split; [reflexivity|]. split; [reflexivity|]. split.
    - eapply ext_via; [|apply (inv_ext _ _ _ _ _ HI)]. intros m l. apply getv_set_size_same.
      apply VS_inj. change (VS (get_size t2 ?k)) with (getv (WSize f) t2 (eval_idx t1 idx)).
      rewrite (inv_ext _ _ _ _ _ HI), <- Hh. cbn [getv]. rewrite get_set_size, skey_eqb_refl. reflexivity.
    - apply (kinv_locals_same _ _ _ _ _ _ _ HI); reflexivity.
  Qed.

  (* ---- locals ---- *)
  Lemma lmem_tail x y L : lmem x L = true -> lmem x (y :: L) = true.
  Proof. intros H. rewrite lmem_cons, H. apply orb_true_r. Qed.

  Lemma wk_local P x p e C L : kreads_ok Wtot P C L e = true -> free_var P x = true -> wk_ok P (SLocal x p e) C L C (x :: L).
  Proof.
    intros He Hf. apply wk_leaf0; [intros y; apply lmem_tail|]. intros t1 t1' H. cbn [exec] in H.
    destruct (eval Wr v hs t1 e) as [z| |] eqn:Ez; cbn [bind] in H; try discriminate.
    assert (t1' = set_local t1 x (wrapZ (prim_width p) (prim_signed p) z)) by congruence. subst t1'. clear H.
    split; [intros y Hy; rewrite get_set_local, (free_var_cv P x Hf y Hy); reflexivity|].
    split; [intros n l; apply getv_local|]. exists []. split; [reflexivity|].
    intros t2 HI. cbn [exec]. rewrite <- (kinv_eval _ _ _ _ _ HI e He), Ez. cbn [bind].
    eexists. split; [reflexivity|]. split; [reflexivity|]. split.
    - eapply ext_via; [|apply (inv_ext _ _ _ _ _ HI)]. intros n l. apply getv_local.
    - intros y Hy. rewrite !get_set_local. rewrite lmem_cons in Hy. destruct (y =? x); [reflexivity|].
      apply (inv_loc _ _ _ _ _ HI y Hy).
  Qed.

  Lemma wk_synclocal P x p C L : lmem x L = true -> free_var P x = true -> wk_ok P (SSyncLocal x p) C L C L.
  Proof.
    intros Hx Hf. apply wk_leaf0; [auto|]. intros t1 t1' H. cbn [exec] in H. cbv zeta in H.
    assert (t1' = set_local (emit t1 (encode p (get_local t1 x))) x (decode p (encode p (get_local t1 x)))) by congruence.
    subst t1'. clear H.
    split; [intros y Hy; rewrite get_set_local, (free_var_cv P x Hf y Hy); reflexivity|].
    split; [intros n l; rewrite getv_local; apply getv_emit|].
    exists (encode p (get_local t1 x)). split; [unfold wrote, emit; cbn [out set_local]; rewrite rev_append_rev; reflexivity|].
    intros t2 HI. cbn [exec]. cbv zeta. rewrite <- (inv_loc _ _ _ _ _ HI x Hx).
    eexists. split; [reflexivity|]. split; [unfold wrote, emit; cbn [out set_local]; rewrite rev_append_rev; reflexivity|]. split.
    - eapply ext_via; [|apply (inv_ext _ _ _ _ _ HI)]. intros n l. rewrite getv_local. apply getv_emit.
    - intros y Hy. rewrite !get_set_local. destruct (y =? x); [reflexivity|].
      change (get_local (emit ?a ?b) y) with (get_local a y). apply (inv_loc _ _ _ _ _ HI y Hy).
  Qed.

  (* ---- raw arrays and strings ---- *)
  Lemma sync_blob_wk t1 f l nn :
    let k := enc_key f l in
    let b := firstn (N.to_nat nn) (get_blob t1 k ++ repeat 0 (N.to_nat nn)) in
    let t1' := sync_blob Wr t1 k nn in
    (forall n' l', (n' <> WBlob f \/ l' <> l) -> getv n' t1' l' = getv n' t1 l') /\ wrote t1 t1' b /\ locals t1' = locals t1 /\
    forall t2, ext_eq t2 sf -> getv (WBlob f) t1' l = getv (WBlob f) sf l ->
      let t2' := sync_blob Wr t2 k nn in wrote t2 t2' b /\ ext_eq t2' sf /\ locals t2' = locals t2.
  Proof.
    cbv zeta. unfold sync_blob.
    set (b := firstn (N.to_nat nn) (get_blob t1 (enc_key f l) ++ repeat 0 (N.to_nat nn))).
    assert (Hb : length b = N.to_nat nn) by (unfold b; rewrite firstn_length, app_length, repeat_length; lia).
    split; [|split; [unfold wrote, emit; cbn [out set_blob]; rewrite rev_append_rev; reflexivity|split; [reflexivity|]]].
    - intros n' l' Hn. rewrite getv_emit. apply getv_set_blob_other. exact Hn.
    - intros t2 Hext Hh.
      assert (Hk : get_blob t2 (enc_key f l) = b).
      { apply VB_inj. change (VB (get_blob t2 (enc_key f l))) with (getv (WBlob f) t2 l). rewrite (Hext (WBlob f) l), <- Hh.
        rewrite getv_emit. cbn [getv]. rewrite get_set_blob, skey_eqb_refl. reflexivity. }
      rewrite Hk, (firstn_pad_idem b _ Hb).
      split; [unfold wrote, emit; cbn [out set_blob]; rewrite rev_append_rev; reflexivity|]. split; [|reflexivity].
      eapply ext_via; [|exact Hext]. intros n l'. rewrite getv_emit. apply getv_set_blob_same. exact Hk.
  Qed.

  Lemma wk_bytes P f idx n C L :
    target_ok Wtot P C L (WBlob f) idx = true -> kreads_ok Wtot P C L n = true ->
    wk_ok P (SBytes f idx n) C L (WBlob f :: C) L.
  Proof.
    intros Ht He. destruct (target_ok_parts _ _ _ _ _ Ht) as (Hidx & Hw & Hm).
    apply (wk_leaf P _ (WBlob f) idx C L L Ht); [auto|].
    intros t1 t1' H. cbn [exec] in H. cbv zeta in H. rewrite key_of_key in H.
    destruct (eval Wr v hs t1 n) as [z| |] eqn:Ez; cbn [bind] in H; try discriminate.
    assert (t1' = sync_blob Wr t1 (key t1 f idx) (Z.to_N z)) by congruence. subst t1'. clear H.
    unfold key. destruct (sync_blob_wk t1 f (eval_idx t1 idx) (Z.to_N z)) as (F & Wx & Lc & R).
    split; [apply locals_cv; exact Lc|]. split; [exact F|]. eexists. split; [exact Wx|].
    intros t2 HI Hh. cbn [exec]. cbv zeta. rewrite key_of_key. unfold key.
    rewrite <- (kinv_eval _ _ _ _ _ HI n He), Ez, <- (kinv_eval_idx _ _ _ _ _ _ HI Hidx). cbn [bind].
    destruct (R t2 (inv_ext _ _ _ _ _ HI) Hh) as (W2 & E2 & Lc2).
    eexists. split; [reflexivity|]. split; [exact W2|]. split; [exact E2|].
    apply (kinv_locals_same _ _ _ _ _ _ _ HI); assumption.
  Qed.

  Lemma wk_bytesvec P f idx C L :
    target_ok Wtot P C L (WBlob f) idx = true -> readable Wtot C (WSize f) = true -> idx_matches P (WSize f) idx = true ->
    wk_ok P (SBytesVec f idx) C L (WBlob f :: C) L.
  Proof.
    intros Ht Hr Hms. destruct (target_ok_parts _ _ _ _ _ Ht) as (Hidx & Hw & Hm).
    apply (wk_leaf P _ (WBlob f) idx C L L Ht); [auto|].
    intros t1 t1' H. cbn [exec] in H. cbv zeta in H. rewrite key_of_key in H. unfold key in H.
    assert (Hsz : forall t2, Inv P C L t1 t2 -> get_size t2 (enc_key f (eval_idx t1 idx)) = get_size t1 (enc_key f (eval_idx t1 idx))).
    { intros t2 HI. symmetry. apply VS_inj. apply (kinv_read _ _ _ _ _ (WSize f) idx HI Hr Hms). }
    destruct (get_size t1 (enc_key f (eval_idx t1 idx)) =? 0) eqn:E0.
    - assert (t1' = t1) by congruence. subst t1'. split; [reflexivity|]. split; [reflexivity|].
      exists []. split; [reflexivity|]. intros t2 HI Hh. cbn [exec]. cbv zeta. rewrite key_of_key. unfold key.
      rewrite <- (kinv_eval_idx _ _ _ _ _ _ HI Hidx), (Hsz t2 HI), E0.
      exists t2. split; [reflexivity|]. split; [reflexivity|]. split; [apply (inv_ext _ _ _ _ _ HI)|apply (inv_loc _ _ _ _ _ HI)].
    - assert (t1' = sync_blob Wr t1 (enc_key f (eval_idx t1 idx)) (get_size t1 (enc_key f (eval_idx t1 idx)))) by congruence. subst t1'. clear H.
      destruct (sync_blob_wk t1 f (eval_idx t1 idx) (get_size t1 (enc_key f (eval_idx t1 idx)))) as (F & Wx & Lc & R).
      split; [apply locals_cv; exact Lc|]. split; [exact F|]. eexists. split; [exact Wx|].
      intros t2 HI Hh. cbn [exec]. cbv zeta. rewrite key_of_key. unfold key.
      rewrite <- (kinv_eval_idx _ _ _ _ _ _ HI Hidx), (Hsz t2 HI), E0.
      destruct (R t2 (inv_ext _ _ _ _ _ HI) Hh) as (W2 & E2 & Lc2).
      eexists. split; [reflexivity|]. split; [exact W2|]. split; [exact E2|].
      apply (kinv_locals_same _ _ _ _ _ _ _ HI); assumption.
  Qed.

  Lemma wk_nistring P f idx w C L :
    target_ok Wtot P C L (WBlob f) idx = true -> wk_ok P (SNiString f idx w) C L (WBlob f :: C) L.
  Proof.
    intros Ht. destruct (target_ok_parts _ _ _ _ _ Ht) as (Hidx & Hw & Hm).
    apply (wk_leaf P _ (WBlob f) idx C L L Ht); [auto|].
    intros t1 t1' H. cbn [exec] in H. cbv zeta in H. rewrite key_of_key in H. unfold key in H.
    set (l0 := eval_idx t1 idx) in *.
    set (s0 := get_blob t1 (enc_key f l0)) in *.
    set (sz := N.min (N.of_nat (length s0)) (2 ^ (8 * w) - 1)) in *.
    set (s1 := firstn (N.to_nat sz) s0) in *.
    assert (t1' = emit (emit (set_blob t1 (enc_key f l0) s1) (le_bytes (N.to_nat w) (Z.of_N sz))) s1) by congruence. subst t1'. clear H.
    assert (Hs1 : length s1 = N.to_nat sz) by (unfold s1; rewrite firstn_length; unfold sz; lia).
    split; [apply locals_cv; reflexivity|]. split.
    { intros n' l Hn. rewrite !getv_emit. apply getv_set_blob_other. exact Hn. }
    exists (le_bytes (N.to_nat w) (Z.of_N sz) ++ s1). split.
    { unfold wrote, emit. cbn [out set_blob]. rewrite !rev_append_rev, rev_app_distr, app_assoc. reflexivity. }
    intros t2 HI Hh. cbn [exec]. cbv zeta. rewrite key_of_key. unfold key.
    rewrite <- (kinv_eval_idx _ _ _ _ _ _ HI Hidx). fold l0.
    assert (Hk : get_blob t2 (enc_key f l0) = s1).
    { apply VB_inj. change (VB (get_blob t2 (enc_key f l0))) with (getv (WBlob f) t2 l0).
      rewrite (inv_ext _ _ _ _ _ HI), <- Hh. rewrite !getv_emit. cbn [getv]. rewrite get_set_blob, skey_eqb_refl. reflexivity. }
    rewrite Hk.
    assert (Hsz : N.min (N.of_nat (length s1)) (2 ^ (8 * w) - 1) = sz) by (rewrite Hs1; unfold sz; lia).
    rewrite Hsz. assert (Hf : firstn (N.to_nat sz) s1 = s1) by (rewrite <- Hs1; apply firstn_all). rewrite Hf.
    eexists. split; [reflexivity|]. split.
    { unfold wrote, emit. cbn [out set_blob]. rewrite !rev_append_rev, rev_app_distr, app_assoc. reflexivity. }
    split.
    - eapply ext_via; [|apply (inv_ext _ _ _ _ _ HI)]. intros n l. rewrite !getv_emit. apply getv_set_blob_same. exact Hk.
    - apply (kinv_locals_same _ _ _ _ _ _ _ HI); reflexivity.
  Qed.

  Lemma wk_strref_old P fstr findex idx C L :
    Z.ltb (vfile v) V20_1_0_3 = true -> target_ok Wtot P C L (WBlob fstr) idx = true ->
    wk_ok P (SStrRef fstr findex idx) C L (WBlob fstr :: C) L.
  Proof.
    intros Hv Ht. destruct (target_ok_parts _ _ _ _ _ Ht) as (Hidx & Hw & Hm).
    apply (wk_leaf P _ (WBlob fstr) idx C L L Ht); [auto|].
    intros t1 t1' H. cbn [exec] in H. rewrite Hv in H. cbv zeta in H. rewrite key_of_key in H. unfold key in H.
    set (l0 := eval_idx t1 idx) in *.
    set (s0 := get_blob t1 (enc_key fstr l0)) in *.
    set (sz := Z.to_N (wrapZ 4 false (Z.of_nat (length s0)))) in *.
    set (s1 := firstn (N.to_nat sz) s0) in *.
    assert (t1' = emit (emit (set_warn (set_blob t1 (enc_key fstr l0) s1) (2049 <=? sz)) (le_bytes 4 (Z.of_N sz))) s1) by congruence. subst t1'. clear H.
    assert (Hszle : (N.to_nat sz <= length s0)%nat).
    { unfold sz. pose proof (wrapZ_unsigned_le hs 4 (Z.of_nat (length s0)) ltac:(lia)). pose proof (wrapZ_unsigned_range hs 4 (Z.of_nat (length s0))). lia. }
    assert (Hs1 : length s1 = N.to_nat sz) by (unfold s1; rewrite firstn_length; lia).
    assert (Hlt : (0 <= Z.of_N sz < 2 ^ 32)%Z).
    { unfold sz. rewrite Z2N.id by apply (wrapZ_unsigned_range hs). unfold wrapZ. cbv zeta. change (8 * Z.of_N 4)%Z with 32%Z.
      apply Z.mod_pos_bound. lia. }
    split; [apply locals_cv; reflexivity|]. split.
    { intros n' l Hn. rewrite !getv_emit, getv_warn. apply getv_set_blob_other. exact Hn. }
    exists (le_bytes 4 (Z.of_N sz) ++ s1). split.
    { unfold wrote, emit. cbn [out set_blob set_warn]. rewrite !rev_append_rev, rev_app_distr, app_assoc. reflexivity. }
    intros t2 HI Hh. cbn [exec]. rewrite Hv. cbv zeta. rewrite key_of_key. unfold key.
    rewrite <- (kinv_eval_idx _ _ _ _ _ _ HI Hidx). fold l0.
    assert (Hk : get_blob t2 (enc_key fstr l0) = s1).
    { apply VB_inj. change (VB (get_blob t2 (enc_key fstr l0))) with (getv (WBlob fstr) t2 l0).
      rewrite (inv_ext _ _ _ _ _ HI), <- Hh. rewrite !getv_emit, getv_warn. cbn [getv]. rewrite get_set_blob, skey_eqb_refl. reflexivity. }
    rewrite Hk.
    assert (Hsz : Z.to_N (wrapZ 4 false (Z.of_nat (length s1))) = sz).
    { rewrite Hs1. rewrite N_nat_Z. rewrite (wrap32_small) by exact Hlt. apply N2Z.id. }
    rewrite Hsz. assert (Hf : firstn (N.to_nat sz) s1 = s1) by (rewrite <- Hs1; apply firstn_all). rewrite Hf.
    eexists. split; [reflexivity|]. split.
    { unfold wrote, emit. cbn [out set_blob set_warn]. rewrite !rev_append_rev, rev_app_distr, app_assoc. reflexivity. }
    split.
    - eapply ext_via; [|apply (inv_ext _ _ _ _ _ HI)]. intros n l. rewrite !getv_emit, getv_warn. apply getv_set_blob_same. exact Hk.
    - apply (kinv_locals_same _ _ _ _ _ _ _ HI); reflexivity.
  Qed.

  Lemma wk_cstr P f idx C L :
    idx_locals_ok L idx = true -> readable Wtot C (WBlob f) = true -> idx_matches P (WBlob f) idx = true ->
    wk_ok P (SCStr f idx) C L C L.
  Proof.
    intros Hidx Hr Hm. apply wk_leaf0; [auto|]. intros t1 t1' H. cbn [exec] in H. cbv zeta in H. rewrite key_of_key in H. unfold key in H.
    set (s0 := get_blob t1 (enc_key f (eval_idx t1 idx))) in *.
    injection H as <-.
    split; [reflexivity|]. split; [intros n l; destruct n; reflexivity|].
    exists (s0 ++ [0]). split.
    { unfold wrote. cbn [out]. rewrite rev_append_rev, rev_app_distr. reflexivity. }
    intros t2 HI. cbn [exec]. cbv zeta. rewrite key_of_key. unfold key. rewrite <- (kinv_eval_idx _ _ _ _ _ _ HI Hidx).
    assert (Hb : get_blob t2 (enc_key f (eval_idx t1 idx)) = s0).
    { symmetry. apply VB_inj. apply (kinv_read _ _ _ _ _ (WBlob f) idx HI Hr Hm). }
    rewrite Hb. eexists. split; [reflexivity|]. split.
    { unfold wrote. cbn [out]. rewrite rev_append_rev, rev_app_distr. reflexivity. }
    split.
    - eapply ext_via; [|apply (inv_ext _ _ _ _ _ HI)]. intros n l; destruct n; reflexivity.
    - apply (kinv_locals_same _ _ _ _ _ _ _ HI); reflexivity.
  Qed.

  Lemma wk_vecsize P f idx w x C L :
    target_ok Wtot P C L (WSize f) idx = true -> free_var P x = true ->
    wk_ok P (SVecSize f idx w x) C L (WSize f :: C) (x :: L).
  Proof.
    intros Ht Hf. destruct (target_ok_parts _ _ _ _ _ Ht) as (Hidx & Hw & Hm).
    apply (wk_leaf P _ (WSize f) idx C L (x :: L) Ht); [intros y; apply lmem_tail|].
    intros t1 t1' H. cbn [exec] in H. cbv zeta in H. rewrite key_of_key in H. unfold key in H.
    set (l0 := eval_idx t1 idx) in *.
    fold (clampN w (get_size t1 (enc_key f l0))) in H.
    set (n1 := clampN w (get_size t1 (enc_key f l0))) in *.
    assert (t1' = set_local (emit (set_size t1 (enc_key f l0) n1) (le_bytes (N.to_nat w) (wrapZ w false (Z.of_N n1)))) x (wrapZ w false (Z.of_N n1))) by congruence.
    subst t1'. clear H.
    split; [intros y Hy; rewrite get_set_local, (free_var_cv P x Hf y Hy); reflexivity|]. split.
    { intros n' l Hn. rewrite getv_local, getv_emit. apply getv_set_size_other. exact Hn. }
    exists (le_bytes (N.to_nat w) (wrapZ w false (Z.of_N n1))). split.
    { unfold wrote, emit. cbn [out set_size set_local]. rewrite rev_append_rev. reflexivity. }
    intros t2 HI Hh. cbn [exec]. cbv zeta. rewrite key_of_key. unfold key.
    rewrite <- (kinv_eval_idx _ _ _ _ _ _ HI Hidx). fold l0.
    fold (clampN w (get_size t2 (enc_key f l0))).
    assert (Hk : get_size t2 (enc_key f l0) = n1).
    { apply VS_inj. change (VS (get_size t2 (enc_key f l0))) with (getv (WSize f) t2 l0).
      rewrite (inv_ext _ _ _ _ _ HI), <- Hh. rewrite getv_local, getv_emit. cbn [getv]. rewrite get_set_size, skey_eqb_refl. reflexivity. }
    rewrite Hk. unfold n1 at 1 2 3 4. rewrite (clampN_idem hs). fold n1.
    eexists. split; [reflexivity|]. split.
    { unfold wrote, emit. cbn [out set_size set_local]. rewrite rev_append_rev. reflexivity. }
    split.
    - eapply ext_via; [|apply (inv_ext _ _ _ _ _ HI)]. intros n l. rewrite getv_local, getv_emit. apply getv_set_size_same. exact Hk.
    - intros y Hy. rewrite !get_set_local. rewrite lmem_cons in Hy. destruct (y =? x); [reflexivity|].
      change (get_local (emit (set_size ?a ?kk ?nn) ?b) y) with (get_local a y). apply (inv_loc _ _ _ _ _ HI y Hy).
  Qed.

  (* ---- loops ---- *)
  Section Loop.
    Variable P Q : ctab.
    Variable x : lvar.
    Variable body : stmt.
    Variable C C1 : list wn.
    Variable L L1 : list lvar.
    Hypothesis HQx : forall n y p, In (y, p) (cons_of Q n) -> y = x.
    Hypothesis Hcov : forall n, wmem n C1 = true -> wmem n C = false -> exists p, In (x, p) (cons_of Q n).
    Hypothesis Hsub : forall n, wmem n C1 = true -> wmem n C = false -> wmem n Wtot = true.
    Hypothesis Hfx : free_var P x = true.
    Hypothesis Hbody : wk_ok (Q ++ P) body C (x :: L) C1 L1.

    (* the instance (n, l) belongs to iteration j *)
    Definition slice_at (j : N) (n : wn) (l : list N) : Prop := forall p, In (x, p) (cons_of Q n) -> nth_error l p = Some j.
    Definition hit (N0 : N) (n : wn) (l : list N) : Prop := exists j, j < N0 /\ slice_at j n l.

    Lemma in_slice_Q t j n l : get_local t x = Z.of_N j -> (in_slice Q t n l <-> slice_at j n l).
    Proof.
      intros Hx. unfold in_slice, slice_at. split.
      - intros H p Hp. rewrite (H x p Hp), Hx, N2Z.id. reflexivity.
      - intros H y p Hp. pose proof (HQx n y p Hp) as ->. rewrite (H p Hp), Hx, N2Z.id. reflexivity.
    Qed.

    Lemma cvP_not_x y : In y (cvars P) -> (y =? x) = false.
    Proof. apply free_var_cv. exact Hfx. Qed.

    Lemma in_slice_P_setx t j n l : in_slice P (set_local t x j) n l <-> in_slice P t n l.
    Proof.
      split; apply in_slice_locals; intros y Hy; rewrite get_set_local, (cvP_not_x y Hy); reflexivity.
    Qed.

    Lemma loop_states :
      forall N0 u0 i uN, iter_state v hs Wr body x N0 u0 = Ok (i, uN) ->
        (forall y, In y (cvars P) -> get_local uN y = get_local u0 y) /\
        (forall n l, (wmem n C1 = false \/ wmem n C = true \/ ~ in_slice P u0 n l \/ ~ hit N0 n l) -> getv n uN l = getv n u0 l) /\
        exists extra, wrote u0 uN extra /\
          forall w0, Inv P C L u0 w0 ->
            (forall n, wmem n C1 = true -> wmem n C = false -> forall l, in_slice P u0 n l -> hit N0 n l -> getv n uN l = getv n sf l) ->
            exists wN, iter_state v hs Wr body x N0 w0 = Ok (i, wN) /\ wrote w0 wN extra /\ Inv P C L uN wN.
    Proof.
      destruct Hbody as (Mb & Lb & Hb).
      induction N0 as [|N0 IH] using N.peano_ind; intros u0 i uN H.
      - cbn in H. inversion H; subst. split; [reflexivity|]. split; [reflexivity|].
        exists []. split; [reflexivity|]. intros w0 HI _. exists w0. split; [reflexivity|]. split; [reflexivity|exact HI].
      - rewrite iter_state_succ in H.
        destruct (iter_state v hs Wr body x N0 u0) as [[j t]| |] eqn:E; cbn [bind] in H; try discriminate.
        pose proof (iter_state_count v hs Wr body x N0 u0 j t E) as ->.
        destruct (exec Wr v hs body (set_local t x (Z.of_N N0))) as [u'| |] eqn:Eb; cbn [bind] in H; try discriminate.
        inversion H; subst i uN. clear H.
        destruct (IH u0 N0 t E) as (Va & Fa & ea & Wa & Ra).
        destruct (Hb _ _ Eb) as (Vb & Fb & eb & Wb & Rb).
        set (t1 := set_local t x (Z.of_N N0)) in *.
        assert (Hx1 : get_local t1 x = Z.of_N N0) by (unfold t1; rewrite get_set_local, N.eqb_refl; reflexivity).
        assert (VbP : forall y, In y (cvars P) -> get_local u' y = get_local t y).
        { intros y Hy. rewrite (Vb y) by (rewrite cvars_app; apply in_or_app; right; exact Hy).
          unfold t1. rewrite get_set_local, (cvP_not_x y Hy). reflexivity. }
        assert (SliceT : forall n l, in_slice P u0 n l <-> in_slice P t1 n l).
        { intros n l. unfold t1. rewrite in_slice_P_setx. split; apply in_slice_locals; intros y Hy; [apply Va|symmetry; apply Va]; exact Hy. }
        (* an instance of another iteration is outside the current slice *)
        assert (Other : forall n l, wmem n C1 = true -> wmem n C = false -> (exists j, j <> N0 /\ slice_at j n l) -> ~ in_slice (Q ++ P) t1 n l).
        { intros n l E1 E2 (j & Hj & Hs) Hin. apply in_slice_app in Hin. destruct Hin as [HinQ _].
          apply (in_slice_Q t1 N0 n l Hx1) in HinQ. destruct (Hcov n E1 E2) as (p & Hp).
          pose proof (Hs p Hp) as A. pose proof (HinQ p Hp) as B. rewrite A in B. inversion B. contradiction. }
        split; [intros y Hy; rewrite (VbP y Hy); apply Va; exact Hy|]. split.
        + intros n l Hc.
          assert (Hu : getv n u' l = getv n t l).
          { change (getv n t l) with (getv n t1 l).
            destruct (wmem n C1) eqn:E1; [|apply Fb; left; exact E1].
            destruct (wmem n C) eqn:E2; [apply Fb; right; left; exact E2|].
            apply Fb. right. right. destruct Hc as [Hc|[Hc|[Hc|Hc]]]; try discriminate.
            - intros Hin. apply in_slice_app in Hin. apply Hc. apply SliceT. apply Hin.
            - intros Hin. apply in_slice_app in Hin. destruct Hin as [HinQ _]. apply Hc.
              exists N0. split; [lia|]. apply (in_slice_Q t1 N0 n l Hx1). exact HinQ. }
          rewrite Hu. apply Fa. destruct Hc as [Hc|[Hc|[Hc|Hc]]]; auto.
          right. right. right. intros (j & Hj & Hs). apply Hc. exists j. split; [lia|exact Hs].
        + exists (ea ++ eb). split.
          { eapply wrote_trans; [exact Wa|]. unfold wrote in *. cbn [out set_local] in Wb. exact Wb. }
          intros w0 HI Hh.
          destruct (Ra w0 HI) as (wN & Xa & W2a & Ia).
          { intros n E1 E2 l Hs (j & Hj & Hsl). rewrite <- (Hh n E1 E2 l Hs) by (exists j; split; [lia|exact Hsl]).
            symmetry. change (getv n t l) with (getv n t1 l). apply Fb. right. right.
            apply (Other n l E1 E2). exists j. split; [lia|exact Hsl]. }
          set (t2 := set_local wN x (Z.of_N N0)).
          assert (I1 : Inv (Q ++ P) C (x :: L) t1 t2).
          { constructor.
            - intros n l. unfold t2. rewrite getv_local. apply (inv_ext _ _ _ _ _ Ia).
            - intros n Hr l Hs. unfold t1 at 1. rewrite getv_local. apply (inv_done _ _ _ _ _ Ia n Hr).
              apply in_slice_app in Hs. destruct Hs as [_ Hs]. unfold t1 in Hs. apply in_slice_P_setx in Hs. exact Hs.
            - intros y Hy. unfold t1, t2. rewrite !get_set_local. rewrite lmem_cons in Hy. destruct (y =? x); [reflexivity|].
              apply (inv_loc _ _ _ _ _ Ia y Hy).
            - intros y Hy. rewrite cvars_app in Hy. apply in_app_or in Hy. destruct Hy as [Hy|Hy].
              + unfold cvars in Hy. apply in_map_iff in Hy. destruct Hy as ((m & (y' & p)) & E' & Hin). cbn in E'. subst y'.
                assert (y = x).
                { apply (HQx m y p). unfold cons_of. apply in_map_iff. exists (m, (y, p)). split; [reflexivity|].
                  apply filter_In. split; [exact Hin|apply wn_eqb_refl]. }
                subst. rewrite lmem_cons, N.eqb_refl. reflexivity.
              + apply lmem_tail. apply (inv_cv _ _ _ _ _ HI). exact Hy. }
          destruct (Rb t2 I1) as (w' & Xb & W2b & Ib).
          { intros n E1 E2 l Hs. apply Hh; [exact E1|exact E2| |].
            - apply SliceT. apply in_slice_app in Hs. apply Hs.
            - exists N0. split; [lia|]. apply in_slice_app in Hs. destruct Hs as [HsQ _].
              apply (in_slice_Q t1 N0 n l Hx1). exact HsQ. }
          exists w'. rewrite iter_state_succ, Xa. cbn [bind]. fold t2. rewrite Xb. cbn [bind].
          split; [reflexivity|]. split.
          { eapply wrote_trans; [exact W2a|]. unfold wrote in *. unfold t2 in W2b. cbn [out set_local] in W2b. exact W2b. }
          constructor.
          * apply (inv_ext _ _ _ _ _ Ib).
          * intros n Hr l Hs.
            assert (Hst : in_slice P t n l).
            { apply (in_slice_locals P u' t); [|exact Hs]. intros y Hy. symmetry. apply VbP. exact Hy. }
            assert (Hnc : wmem n C1 = false \/ wmem n C = true).
            { unfold readable in Hr. destruct (wmem n C) eqn:E2; [right; reflexivity|]. cbn [orb] in Hr. left.
              destruct (wmem n C1) eqn:E1; [|reflexivity]. rewrite (Hsub n E1 E2) in Hr. discriminate. }
            assert (Hu : getv n u' l = getv n t l).
            { change (getv n t l) with (getv n t1 l). apply Fb. destruct Hnc as [A|A]; [left; exact A|right; left; exact A]. }
            rewrite Hu. apply (inv_done _ _ _ _ _ Ia n Hr l Hst).
          * intros y Hy. apply (inv_loc _ _ _ _ _ Ib). apply Lb. apply lmem_tail. exact Hy.
          * apply (inv_cv _ _ _ _ _ HI).
    Qed.

    Lemma wk_for n : kreads_ok Wtot P C L n = true -> wk_ok P (SFor x n body) C L C1 L.
    Proof.
      intros Hn. destruct Hbody as (Mb & Lb & Hb). split; [exact Mb|]. split; [auto|].
      intros t1 t1' H. cbn [exec] in H.
      destruct (eval Wr v hs t1 n) as [z| |] eqn:Ez; cbn [bind] in H; try discriminate.
      rewrite iter_loop_state in H.
      destruct (iter_state v hs Wr body x (Z.to_N z) t1) as [[i t]| |] eqn:E; cbn [bind snd] in H; try discriminate.
      assert (t = t1') by congruence. subst t. clear H.
      destruct (loop_states (Z.to_N z) t1 i t1' E) as (Va & Fa & ex & Wx & R).
      split; [exact Va|]. split.
      { intros m l Hc. apply Fa. destruct Hc as [A|[A|A]]; auto. }
      exists ex. split; [exact Wx|].
      intros t2 HI Hh.
      destruct (R t2 HI) as (wN & X & W2 & IN).
      { intros m E1 E2 l Hs _. apply Hh; assumption. }
      exists wN. cbn [exec]. rewrite <- (kinv_eval _ _ _ _ _ HI n Hn), Ez. cbn [bind].
      rewrite iter_loop_state, X. cbn [bind snd]. split; [reflexivity|]. split; [exact W2|].
      eapply kinv_post; [exact HI|exact Va| |exact Hh|apply (inv_ext _ _ _ _ _ IN)|apply (inv_loc _ _ _ _ _ IN)|auto].
      intros m l Hc. apply Fa. destruct Hc as [A|[A|A]]; auto.
    Qed.
  End Loop.

End Wk.
