(* Reference arrays (NiBlockRefArray::Sync = CleanInvalidRefs + count + elements) in the write-idempotence
   discipline: facts about the compaction loop of Exec.compact_refs. *)
From NiflyVerif Require Import IR Exec IREq Refs RtDefs RtProofs WiDefs WiProofs WkDefs EncInj WkProofs.
Local Open Scope N_scope.

Definition kelt (fidx : name) (i : list N) (j : N) : skey := enc_key fidx (i ++ [j]).
Definition live (z : Z) : Prop := wrapZ 4 false z <> NPOSZ.

Lemma app_single_inj (i : list N) a b : i ++ [a] = i ++ [b] -> a = b.
Proof. intros H. apply app_inv_head in H. inversion H. reflexivity. Qed.

Section Compact.
  Variable fidx : name.
  Variable i : list N.

  (* compaction of an array without empty references changes nothing and counts every entry *)
  Lemma compact_noop : forall fuel st k n,
    k <= n -> (N.to_nat (n - k) < fuel)%nat ->
    (forall j, k <= j < n -> live (get_int st (kelt fidx i j))) ->
    let st' := compact_refs fuel st fidx i k k n in
    (forall m l, getv m st' l = getv m st l) /\ get_local st' 0 = Z.of_N n /\
    (forall y, y <> 0 -> get_local st' y = get_local st y) /\ out st' = out st.
  Proof.
    induction fuel as [|fuel IH]; intros st k n Hk Hf Hl; [lia|]. cbn [compact_refs].
    destruct (N.ltb_spec k n) as [Hlt|Hge].
    - fold (kelt fidx i k).
      destruct (Z.eqb_spec (wrapZ 4 false (get_int st (kelt fidx i k))) NPOSZ) as [E|E]; [exfalso; apply (Hl k); [lia|exact E]|].
      set (st2 := set_int st (enc_key fidx (i ++ [k])) (get_int st (kelt fidx i k))).
      assert (G2 : forall m l, getv m st2 l = getv m st l) by (intros m l; apply getv_set_int_same; reflexivity).
      destruct (IH st2 (k + 1) n ltac:(lia) ltac:(lia)) as (A & B & C & D).
      { intros j Hj. unfold kelt. pose proof (G2 (WInt fidx) (i ++ [j])) as E2. cbn [getv] in E2. apply VI_inj in E2. rewrite E2. apply Hl. lia. }
      split; [intros m l; rewrite A; apply G2|]. split; [exact B|]. split; [exact C|exact D].
    - assert (k = n) by lia. subst k. cbv zeta.
      split; [intros m l; apply getv_local|]. split; [rewrite get_set_local, N.eqb_refl; reflexivity|].
      split; [|reflexivity]. intros y Hy. rewrite get_set_local. destruct (N.eqb_spec y 0); [contradiction|reflexivity].
  Qed.

  (* what a compaction run does *)
  Lemma compact_spec : forall fuel st src dst n,
    dst <= src -> src <= n -> (N.to_nat (n - src) < fuel)%nat ->
    let st' := compact_refs fuel st fidx i src dst n in
    exists cnt, dst <= cnt /\ cnt <= n /\ get_local st' 0 = Z.of_N cnt /\
      (forall y, y <> 0 -> get_local st' y = get_local st y) /\ out st' = out st /\
      (forall m l, (m <> WInt fidx \/ (forall j, dst <= j < cnt -> l <> i ++ [j])) -> getv m st' l = getv m st l) /\
      (forall j, dst <= j < cnt -> live (get_int st' (kelt fidx i j))).
  Proof.
    induction fuel as [|fuel IH]; intros st src dst n Hd Hs Hf; [lia|]. cbn [compact_refs].
    destruct (N.ltb_spec src n) as [Hlt|Hge].
    - destruct (Z.eqb_spec (wrapZ 4 false (get_int st (enc_key fidx (i ++ [src])))) NPOSZ) as [E|E].
      + destruct (IH st (src + 1) dst n ltac:(lia) ltac:(lia) ltac:(lia)) as (cnt & A1 & A2 & A3 & A4 & A5 & A6 & A7).
        exists cnt. repeat split; auto.
      + set (vsrc := get_int st (enc_key fidx (i ++ [src]))) in *.
        set (st2 := set_int st (enc_key fidx (i ++ [dst])) vsrc).
        destruct (IH st2 (src + 1) (dst + 1) n ltac:(lia) ltac:(lia) ltac:(lia)) as (cnt & A1 & A2 & A3 & A4 & A5 & A6 & A7).
        exists cnt. split; [lia|]. split; [exact A2|]. split; [exact A3|]. split; [exact A4|]. split; [exact A5|]. split.
        * intros m l Hc. rewrite A6.
          -- apply getv_set_int_other. destruct Hc as [Hc|Hc]; [left; exact Hc|right]. apply Hc. lia.
          -- destruct Hc as [Hc|Hc]; [left; exact Hc|right]. intros j Hj. apply Hc. lia.
        * intros j Hj. destruct (N.eq_dec j dst) as [->|Hne].
          -- unfold kelt.
             assert (G : getv (WInt fidx) (compact_refs fuel st2 fidx i (src + 1) (dst + 1) n) (i ++ [dst]) = getv (WInt fidx) st2 (i ++ [dst])).
             { apply A6. right. intros j' Hj' Heq. apply app_single_inj in Heq. lia. }
             cbn [getv] in G. apply VI_inj in G. rewrite G. unfold st2. rewrite get_set_int, skey_eqb_refl. exact E.
          -- apply A7. lia.
    - cbv zeta. exists dst. split; [lia|]. split; [lia|]. split; [rewrite get_set_local, N.eqb_refl; reflexivity|].
      split; [intros y Hy; rewrite get_set_local; destruct (N.eqb_spec y 0); [contradiction|reflexivity]|].
      split; [reflexivity|]. split; [intros m l _; apply getv_local|]. intros j Hj. lia.
  Qed.
End Compact.

Lemma app_single_neq (i : list N) j : i ++ [j] <> i.
Proof. intros H. apply (f_equal (@length N)) in H. rewrite app_length in H. cbn in H. lia. Qed.

Section Clean.
  Variables fsize fkeep frefs fidx : name.
  Variable i : list N.

  Lemma clean_spec st :
    let st0 := clean_refs st fsize fkeep frefs fidx i in
    (forall y, y <> 0 -> get_local st0 y = get_local st y) /\ out st0 = out st /\
    (forall m l, (m <> WInt fsize \/ l <> i) -> (m <> WSize frefs \/ l <> i) -> (m <> WInt fidx \/ forall jv, l <> i ++ [jv]) ->
                 getv m st0 l = getv m st l) /\
    (get_int st (enc_key fkeep i) = 0%Z ->
       exists cnt, get_int st0 (enc_key fsize i) = Z.of_N cnt /\ get_size st0 (enc_key frefs i) = cnt /\
                   forall jv, jv < cnt -> live (get_int st0 (kelt fidx i jv))) /\
    (get_int st (enc_key fkeep i) <> 0%Z -> st0 = st).
  Proof.
    cbv zeta. unfold clean_refs. destruct (Z.eqb_spec (get_int st (enc_key fkeep i)) 0) as [E|E].
    - set (n := get_size st (enc_key frefs i)).
      destruct (compact_spec fidx i (S (N.to_nat n)) st 0 0 n ltac:(lia) ltac:(lia) ltac:(lia)) as (cnt & A1 & A2 & A3 & A4 & A5 & A6 & A7).
      cbv zeta in A3, A4, A5, A6, A7.
      set (st1 := compact_refs (S (N.to_nat n)) st fidx i 0 0 n) in *.
      rewrite A3, N2Z.id.
      split; [intros y Hy; apply A4; exact Hy|]. split; [exact A5|]. split; [|split; [|intros; contradiction]].
      + intros m l H1 H2 H3. rewrite getv_set_int_other by exact H1. rewrite getv_set_size_other by exact H2.
        apply A6. destruct H3 as [H3|H3]; [left; exact H3|right; intros jv _; apply H3].
      + intros _. exists cnt. split; [rewrite get_set_int, skey_eqb_refl; reflexivity|]. split.
        * change (get_size (set_int ?a ?k ?z) ?kk) with (get_size a kk). rewrite get_set_size, skey_eqb_refl. reflexivity.
        * intros jv Hj. unfold kelt.
          assert (G : getv (WInt fidx) (set_int (set_size st1 (enc_key frefs i) cnt) (enc_key fsize i) (Z.of_N cnt)) (i ++ [jv]) = getv (WInt fidx) st1 (i ++ [jv])).
          { rewrite getv_set_int_other by (right; apply app_single_neq). apply getv_set_size_other. left. discriminate. }
          cbn [getv] in G. apply VI_inj in G. rewrite G. apply A7. lia.
    - split; [reflexivity|]. split; [reflexivity|]. split; [reflexivity|]. split; [intros; contradiction|reflexivity].
  Qed.

  (* cleaning an array that is already clean and whose count field is right changes nothing *)
  Lemma clean_noop t :
    let m := get_size t (enc_key frefs i) in
    (get_int t (enc_key fkeep i) = 0%Z -> (forall jv, jv < m -> live (get_int t (kelt fidx i jv))) /\ get_int t (enc_key fsize i) = Z.of_N m) ->
    let st0 := clean_refs t fsize fkeep frefs fidx i in
    (forall n l, getv n st0 l = getv n t l) /\ (forall y, y <> 0 -> get_local st0 y = get_local t y) /\ out st0 = out t.
  Proof.
    cbv zeta. intros H. unfold clean_refs. destruct (Z.eqb_spec (get_int t (enc_key fkeep i)) 0) as [E|E].
    - destruct (H E) as [Hl Hs]. set (m := get_size t (enc_key frefs i)) in *.
      destruct (compact_noop fidx i (S (N.to_nat m)) t 0 m ltac:(lia) ltac:(lia)) as (A & B & C0 & D).
      { intros jv Hj. apply Hl. lia. }
      cbv zeta in A, B, C0, D. set (st1 := compact_refs (S (N.to_nat m)) t fidx i 0 0 m) in *.
      rewrite B, N2Z.id. split; [|split; [intros y Hy; apply C0; exact Hy|exact D]].
      intros n l. rewrite getv_set_int_same.
      + rewrite getv_set_size_same; [apply A|]. pose proof (A (WSize frefs) i) as G. cbn [getv] in G. apply VS_inj in G. exact G.
      + change (get_int (set_size ?a ?k ?z) ?kk) with (get_int a kk).
        pose proof (A (WInt fsize) i) as G. cbn [getv] in G. apply VI_inj in G. rewrite G. exact Hs.
    - split; [reflexivity|]. split; reflexivity.
  Qed.
End Clean.

(* a loop of reference transfers keeps every scalar modulo 2^32 *)
Section RefLoop.
  Variable v : version.
  Variable hs : Z -> bool.

  Lemma decode_u32_wrap z : wrapZ 4 false (decode u32 (encode u32 z)) = wrapZ 4 false z.
  Proof.
    unfold decode, encode, u32. cbn [prim_width prim_signed].
    rewrite (of_le_bytes_le_bytes hs). change (Z.of_nat (N.to_nat 4)) with 4%Z.
    unfold wrapZ. cbv zeta. change (8 * Z.of_N 4)%Z with 32%Z. change (256 ^ 4)%Z with (2 ^ 32)%Z.
    rewrite !Z.mod_mod by lia. reflexivity.
  Qed.

  Lemma decode_u32_bounds z : (0 <= z)%Z -> (0 <= decode u32 (encode u32 z) <= z)%Z.
  Proof.
    intros Hz. unfold decode, encode, u32. cbn [prim_width prim_signed]. rewrite (of_le_bytes_le_bytes hs).
    set (M := (256 ^ Z.of_nat (N.to_nat 4))%Z).
    assert (HM : (0 < M)%Z) by (unfold M; apply Z.pow_pos_nonneg; lia).
    pose proof (Z.mod_pos_bound z M HM) as B1. pose proof (Z.mod_le z M Hz HM) as B2.
    set (r := (z mod M)%Z) in *. clearbody r.
    pose proof (wrapZ_unsigned_range hs 4 r) as B3. pose proof (wrapZ_unsigned_le hs 4 r ltac:(lia)) as B4.
    set (q := wrapZ 4 false r) in *. clearbody q. lia.
  Qed.

  Lemma refloop_wrap fidx idx' j : forall n0 t i t', iter_state v hs Wr (SRef fidx idx') j n0 t = Ok (i, t') ->
    (forall k, wrapZ 4 false (get_int t' k) = wrapZ 4 false (get_int t k)).
  Proof.
    induction n0 as [|n0 IH] using N.peano_ind; intros t i t' H k.
    - cbn in H. inversion H; subst. reflexivity.
    - rewrite iter_state_succ in H.
      destruct (iter_state v hs Wr (SRef fidx idx') j n0 t) as [[jj u]| |] eqn:E; cbn [bind] in H; try discriminate.
      cbn [exec] in H. cbv zeta in H. cbn [bind] in H. inversion H; subst. clear H.
      rewrite <- (IH t jj u E k).
      change (get_int (emit ?a ?b) k) with (get_int a k).
      rewrite get_set_int.
      destruct (skey_eqb k _) eqn:Ek; [|reflexivity].
      apply skey_eqb_true in Ek. subst k. apply decode_u32_wrap.
  Qed.
End RefLoop.

(* ---- the whole reference array: head (clean, count) and element loop, as one unit ---- *)
Section RefArr.
  Variable v : version.
  Variable hs : Z -> bool.
  Variable Wtot : list wn.
  Variable sf : state.
  Variable P : ctab.
  Variables fsize fkeep frefs fidx : name.
  Variable idx : list iexpr.
  Variable w : N.
  Variable j : lvar.
  Variable C : list wn.
  Variable L : list lvar.

  Definition refarr_stmt : stmt :=
    SSeq (SRefArrHead fsize fkeep frefs fidx idx w) (SFor j (ESize frefs idx) (SRef fidx (idx ++ [ILocal j]))).
  Definition Ch : list wn := WSize frefs :: WInt fsize :: C.
  Definition C1 : list wn := WInt fidx :: Ch.
  Definition Qj : ctab := [(WInt fidx, (j, length idx))].

  Hypothesis Hidx : idx_locals_ok L idx = true.
  Hypothesis H0L : lmem 0 L = false.
  Hypothesis HjL : lmem j L = false.
  Hypothesis Hf0 : free_var P 0 = true.
  Hypothesis Hfj : free_var P j = true.
  Hypothesis Hw1 : writable Wtot C (WInt fsize) = true.
  Hypothesis Hw2 : writable Wtot C (WSize frefs) = true.
  Hypothesis Hw3 : writable Wtot C (WInt fidx) = true.
  Hypothesis Hne : (fsize =? fidx) = false.
  Hypothesis Hm1 : idx_matches P (WInt fsize) idx = true.
  Hypothesis Hm2 : idx_matches P (WSize frefs) idx = true.
  Hypothesis Hm3 : idx_matches P (WInt fidx) (idx ++ [ILocal j]) = true.
  Hypothesis Hk1 : readable Wtot C (WInt fkeep) = true.
  Hypothesis Hk2 : idx_matches P (WInt fkeep) idx = true.

  Lemma idx_no_local y st z : lmem y L = false -> eval_idx (set_local st y z) idx = eval_idx st idx.
  Proof.
    intros Hy. unfold eval_idx. apply map_ext_in. intros a Ha. destruct a as [c|x]; [reflexivity|]. cbn [eval_i].
    rewrite get_set_local. destruct (N.eqb_spec x y) as [->|]; [|reflexivity].
    unfold idx_locals_ok in Hidx. rewrite forallb_forall in Hidx. specialize (Hidx _ Ha). cbn in Hidx. congruence.
  Qed.

  Lemma idx_same_locals st st' : (forall y, lmem y L = true -> get_local st' y = get_local st y) -> eval_idx st' idx = eval_idx st idx.
  Proof.
    intros H. unfold eval_idx. apply map_ext_in. intros a Ha. destruct a as [c|x]; [reflexivity|]. cbn [eval_i].
    unfold idx_locals_ok in Hidx. rewrite forallb_forall in Hidx. specialize (Hidx _ Ha). cbn in Hidx. rewrite (H x Hidx). reflexivity.
  Qed.

  Lemma writable_not_in n : writable Wtot C n = true -> wmem n C = false.
  Proof. unfold writable. intros H. apply andb_prop in H. destruct H as [_ H]. apply negb_true_iff in H. exact H. Qed.

  Lemma body_ok : wk_ok v hs Wtot sf (Qj ++ P) (SRef fidx (idx ++ [ILocal j])) Ch (j :: L) C1 (j :: L).
  Proof.
    pose proof (wk_sync_gen v hs Wtot sf (Qj ++ P) (SRef fidx (idx ++ [ILocal j])) fidx (idx ++ [ILocal j]) u32 4 true Ch (j :: L)) as X.
    apply X; clear X.
    - unfold target_ok. apply andb_true_intro. split; [apply andb_true_intro; split|].
      + unfold idx_locals_ok. rewrite forallb_app. apply andb_true_intro. split.
        * pose proof Hidx as Hi. unfold idx_locals_ok in Hi. rewrite forallb_forall in Hi. apply forallb_forall. intros a Ha.
          specialize (Hi a Ha). destruct a; [reflexivity|]. rewrite lmem_cons, Hi. apply orb_true_r.
        * cbn. rewrite N.eqb_refl. reflexivity.
      + unfold writable, Ch. unfold writable in Hw3. apply andb_prop in Hw3. destruct Hw3 as [A B].
        rewrite A. cbn [andb]. rewrite !wmem_cons. cbn [wn_eqb]. rewrite N.eqb_sym, Hne. cbn [orb]. exact B.
      + unfold idx_matches. rewrite cons_of_app, forallb_app. apply andb_true_intro. split; [|exact Hm3].
        unfold Qj, cons_of. cbn. rewrite N.eqb_refl. cbn. rewrite nth_error_app2 by apply Nat.le_refl. rewrite Nat.sub_diag. cbn. rewrite N.eqb_refl. reflexivity.
    - intros st. cbn [exec]. cbv zeta. unfold maybe_log. rewrite sync_int_log_ref, key_of_key. reflexivity.
  Qed.

  Lemma loop_ok : wk_ok v hs Wtot sf P (SFor j (ESize frefs idx) (SRef fidx (idx ++ [ILocal j]))) Ch L C1 L.
  Proof.
    apply (wk_for v hs Wtot sf P Qj j (SRef fidx (idx ++ [ILocal j])) Ch C1 L (j :: L)).
    - intros n y p Hin. unfold Qj in Hin. rewrite cons_of_single in Hin. destruct (wn_eqb (WInt fidx) n); [|destruct Hin].
      destruct Hin as [Hin|[]]. inversion Hin. reflexivity.
    - intros n E1 E2. unfold C1 in E1. rewrite wmem_cons, E2, orb_false_r in E1. apply wn_eqb_eq in E1. subst n.
      exists (length idx). unfold Qj, cons_of. cbn. rewrite N.eqb_refl. left. reflexivity.
    - intros n E1 E2. unfold C1 in E1. rewrite wmem_cons, E2, orb_false_r in E1. apply wn_eqb_eq in E1. subst n.
      unfold writable in Hw3. apply andb_prop in Hw3. apply Hw3.
    - exact Hfj.
    - exact body_ok.
    - cbn [kreads_ok]. apply andb_true_intro. split; [apply andb_true_intro; split|].
      + unfold readable, Ch. rewrite wmem_cons, wn_eqb_refl. reflexivity.
      + exact Hidx.
      + exact Hm2.
  Qed.

  Lemma cvP_not y z : free_var P z = true -> In y (cvars P) -> (y =? z) = false.
  Proof. intros H Hy. exact (free_var_cv P z H y Hy). Qed.

  Lemma slice_elt t1 jv : in_slice P t1 (WInt fidx) (eval_idx t1 idx ++ [jv]).
  Proof.
    pose proof (idx_matches_slice P (set_local t1 j (Z.of_N jv)) (WInt fidx) (idx ++ [ILocal j]) Hm3) as H.
    unfold eval_idx in H. rewrite map_app in H. cbn [map eval_i] in H. rewrite get_set_local, N.eqb_refl, N2Z.id in H.
    fold (eval_idx (set_local t1 j (Z.of_N jv)) idx) in H. rewrite (idx_no_local j t1 (Z.of_N jv) HjL) in H.
    apply (in_slice_locals P (set_local t1 j (Z.of_N jv)) t1); [|exact H].
    intros y Hy. rewrite get_set_local, (cvP_not y j Hfj Hy). reflexivity.
  Qed.

  Lemma wk_refarr : wk_ok v hs Wtot sf P refarr_stmt C L C1 L.
  Proof.
    destruct loop_ok as (MB & LB & HB).
    pose proof (writable_not_in _ Hw1) as N1. pose proof (writable_not_in _ Hw2) as N2. pose proof (writable_not_in _ Hw3) as N3.
    split. { intros a Ha. unfold C1, Ch. rewrite !wmem_cons, Ha. rewrite !orb_true_r. reflexivity. }
    split; [auto|].
    intros t1 t1' H. unfold refarr_stmt in H.
    change (bind (exec Wr v hs (SRefArrHead fsize fkeep frefs fidx idx w) t1) (exec Wr v hs (SFor j (ESize frefs idx) (SRef fidx (idx ++ [ILocal j])))) = Ok t1') in H.
    destruct (exec Wr v hs (SRefArrHead fsize fkeep frefs fidx idx w) t1) as [th| |] eqn:Eh; cbn [bind] in H; try discriminate.
    cbn [exec] in Eh. cbv zeta in Eh.
    set (i := eval_idx t1 idx) in *.
    set (st0 := clean_refs t1 fsize fkeep frefs fidx i) in *.
    set (st1 := sync_int Wr st0 (enc_key fsize i) u32 w) in *.
    assert (Hth : th = set_size st1 (enc_key frefs i) (Z.to_N (get_int st1 (enc_key fsize i)))) by congruence. clear Eh.
    destruct (clean_spec fsize fkeep frefs fidx i t1) as (K1 & K2 & K3 & K4 & K5). fold st0 in K1, K2, K3, K4, K5.
    destruct (sync_int_wk sf st0 fsize i u32 w) as (F1 & W1 & Lc1 & R1). fold st1 in F1, W1, Lc1, R1.
    destruct (HB th t1' H) as (VB & FB & eb & WB & RB).
    (* locals *)
    assert (Lth : forall y, y <> 0 -> get_local th y = get_local t1 y).
    { intros y Hy. rewrite Hth. change (get_local (set_size ?a ?k ?z) y) with (get_local a y).
      unfold get_local at 1. rewrite Lc1. apply K1. exact Hy. }
    assert (LthP : forall y, In y (cvars P) -> get_local th y = get_local t1 y).
    { intros y Hy. apply Lth. intros ->. pose proof (cvP_not 0 0 Hf0 Hy) as E. rewrite N.eqb_refl in E. discriminate. }
    assert (Sl : forall n l, in_slice P t1 n l <-> in_slice P th n l).
    { intros n l. split; apply in_slice_locals; intros y Hy; [apply LthP|symmetry; apply LthP]; exact Hy. }
    assert (Ith : eval_idx th idx = i).
    { apply idx_same_locals. intros y Hy. apply Lth. intros ->. congruence. }
    (* head frame *)
    assert (FH : forall m l, (m <> WInt fsize \/ l <> i) -> (m <> WSize frefs \/ l <> i) -> (m <> WInt fidx \/ forall jv, l <> i ++ [jv]) ->
                             getv m th l = getv m t1 l).
    { intros m l A1 A2 A3. rewrite Hth. rewrite getv_set_size_other by exact A2. rewrite F1 by exact A1. apply K3; assumption. }
    assert (Hs1 : in_slice P t1 (WInt fsize) i) by (apply idx_matches_slice; exact Hm1).
    assert (Hs2 : in_slice P t1 (WSize frefs) i) by (apply idx_matches_slice; exact Hm2).
    split; [intros y Hy; rewrite (VB y Hy); apply LthP; exact Hy|]. split.
    { intros n l Hc.
      assert (E1 : getv n t1' l = getv n th l).
      { apply FB. destruct Hc as [A|[A|A]].
        - left. exact A.
        - right. left. unfold Ch. rewrite !wmem_cons, A, !orb_true_r. reflexivity.
        - right. right. intros B. apply A. apply Sl. exact B. }
      rewrite E1. apply FH.
      - destruct (wn_eq_dec n (WInt fsize)) as [->|Hn]; [|left; exact Hn]. right. destruct Hc as [A|[A|A]].
        + unfold C1, Ch in A. rewrite !wmem_cons, wn_eqb_refl, !orb_true_r in A. discriminate.
        + congruence.
        + intros ->. apply A. exact Hs1.
      - destruct (wn_eq_dec n (WSize frefs)) as [->|Hn]; [|left; exact Hn]. right. destruct Hc as [A|[A|A]].
        + unfold C1, Ch in A. rewrite !wmem_cons, wn_eqb_refl, !orb_true_r in A. discriminate.
        + congruence.
        + intros ->. apply A. exact Hs2.
      - destruct (wn_eq_dec n (WInt fidx)) as [->|Hn]; [|left; exact Hn]. right. destruct Hc as [A|[A|A]].
        + unfold C1 in A. rewrite wmem_cons, wn_eqb_refl in A. discriminate.
        + congruence.
        + intros jv ->. apply A. apply slice_elt. }
    set (hb := firstn (N.to_nat w) (encode u32 (get_int st0 (enc_key fsize i)))) in *.
    exists (hb ++ eb). split.
    { eapply wrote_trans; [|exact WB]. unfold wrote in *. rewrite Hth. cbn [out set_size]. rewrite W1, K2. reflexivity. }
    intros t2 HI Hh.
    (* facts about the final state on the three names *)
    assert (Gsz : getv (WInt fsize) t1' i = getv (WInt fsize) sf i).
    { apply Hh; [unfold C1, Ch; rewrite !wmem_cons, wn_eqb_refl, !orb_true_r; reflexivity|exact N1|exact Hs1]. }
    assert (Grf : getv (WSize frefs) t1' i = getv (WSize frefs) sf i).
    { apply Hh; [unfold C1, Ch; rewrite !wmem_cons, wn_eqb_refl, !orb_true_r; reflexivity|exact N2|exact Hs2]. }
    assert (Gel : forall jv, getv (WInt fidx) t1' (i ++ [jv]) = getv (WInt fidx) sf (i ++ [jv])).
    { intros jv. apply Hh; [unfold C1; rewrite wmem_cons, wn_eqb_refl; reflexivity|exact N3|apply slice_elt]. }
    assert (Bsz : getv (WInt fsize) t1' i = getv (WInt fsize) th i).
    { apply FB. right. left. unfold Ch. rewrite !wmem_cons, wn_eqb_refl, !orb_true_r. reflexivity. }
    assert (Brf : getv (WSize frefs) t1' i = getv (WSize frefs) th i).
    { apply FB. right. left. unfold Ch. rewrite !wmem_cons, wn_eqb_refl. reflexivity. }
    assert (Tsz : get_int th (enc_key fsize i) = get_int st1 (enc_key fsize i)) by (rewrite Hth; reflexivity).
    set (x1 := get_int st1 (enc_key fsize i)) in *.
    assert (Trf : get_size th (enc_key frefs i) = Z.to_N x1) by (rewrite Hth, get_set_size, skey_eqb_refl; reflexivity).
    assert (I2 : eval_idx t2 idx = i) by (symmetry; apply (kinv_eval_idx Wtot sf P C L t1 t2 idx HI Hidx)).
    assert (Ext2 := inv_ext _ _ _ _ _ _ _ HI).
    assert (S2sz : get_int t2 (enc_key fsize i) = x1).
    { apply VI_inj. change (VI (get_int t2 (enc_key fsize i))) with (getv (WInt fsize) t2 i). rewrite Ext2, <- Gsz, Bsz. cbn [getv]. rewrite Tsz. reflexivity. }
    assert (S2rf : get_size t2 (enc_key frefs i) = Z.to_N x1).
    { apply VS_inj. change (VS (get_size t2 (enc_key frefs i))) with (getv (WSize frefs) t2 i). rewrite Ext2, <- Grf, Brf. cbn [getv]. rewrite Trf. reflexivity. }
    assert (Kp : get_int t2 (enc_key fkeep i) = get_int t1 (enc_key fkeep i)).
    { symmetry. apply VI_inj. apply (kinv_read Wtot sf P C L t1 t2 (WInt fkeep) idx HI Hk1 Hk2). }
    (* the head of run 2 changes nothing *)
    set (s0 := clean_refs t2 fsize fkeep frefs fidx i).
    assert (C2 : (forall n l, getv n s0 l = getv n t2 l) /\ (forall y, y <> 0 -> get_local s0 y = get_local t2 y) /\ out s0 = out t2).
    { apply clean_noop. rewrite Kp. intros Hkeep. destruct (K4 Hkeep) as (cnt & A1 & A2 & A3).
      assert (Hx1 : (0 <= x1 <= Z.of_N cnt)%Z).
      { unfold x1, st1, sync_int. destruct (w =? prim_width u32).
        - change (get_int (emit ?a ?b) ?k) with (get_int a k). rewrite get_set_int, skey_eqb_refl, A1.
          apply (decode_u32_bounds hs). apply N2Z.is_nonneg.
        - change (get_int (emit ?a ?b) ?k) with (get_int a k). rewrite A1. split; [apply N2Z.is_nonneg|apply Z.le_refl]. }
      split.
      - rewrite S2rf. intros jv Hjv.
        assert (E2 : get_int t2 (kelt fidx i jv) = get_int t1' (kelt fidx i jv)).
        { apply VI_inj. change (VI (get_int t2 (kelt fidx i jv))) with (getv (WInt fidx) t2 (i ++ [jv])). rewrite Ext2, <- Gel. reflexivity. }
        unfold live. rewrite E2.
        change (bind (eval Wr v hs th (ESize frefs idx)) (fun z => iter_loop (exec Wr v hs (SRef fidx (idx ++ [ILocal j]))) j (Z.to_N z) th) = Ok t1') in H.
        cbn [eval] in H. rewrite Ith in H. cbn [bind] in H. rewrite iter_loop_state in H.
        destruct (iter_state v hs Wr (SRef fidx (idx ++ [ILocal j])) j (Z.to_N (Z.of_N (get_size th (enc_key frefs i)))) th) as [[ii tt]| |] eqn:Ei; cbn [bind snd] in H; try discriminate.
        assert (tt = t1') by congruence. subst tt.
        rewrite (refloop_wrap v hs fidx (idx ++ [ILocal j]) j _ th ii t1' Ei).
        assert (E3 : get_int th (kelt fidx i jv) = get_int st0 (kelt fidx i jv)).
        { apply VI_inj. change (VI (get_int th (kelt fidx i jv))) with (getv (WInt fidx) th (i ++ [jv])).
          rewrite Hth. rewrite getv_set_size_other by (left; discriminate). rewrite F1; [reflexivity|].
          right. apply app_single_neq. }
        rewrite E3. apply A3. clear - Hjv Hx1. lia.
      - rewrite S2rf, S2sz. rewrite Z2N.id by (destruct Hx1; assumption). reflexivity. }
    destruct C2 as (C2a & C2b & C2c).
    assert (Ext0 : ext_eq s0 sf) by (intros n l; rewrite C2a; apply Ext2).
    destruct (R1 s0 Ext0) as (W2 & E2 & Lc2).
    { rewrite <- Gsz, Bsz. cbn [getv]. rewrite Tsz. reflexivity. }
    set (s1 := sync_int Wr s0 (enc_key fsize i) u32 w) in *.
    assert (Ssz : get_int s1 (enc_key fsize i) = x1).
    { apply VI_inj. change (VI (get_int s1 (enc_key fsize i))) with (getv (WInt fsize) s1 i). rewrite E2, <- Gsz, Bsz. cbn [getv]. rewrite Tsz. reflexivity. }
    assert (Srf : get_size s1 (enc_key frefs i) = Z.to_N x1).
    { apply VS_inj. change (VS (get_size s1 (enc_key frefs i))) with (getv (WSize frefs) s1 i). rewrite E2, <- Grf, Brf. cbn [getv]. rewrite Trf. reflexivity. }
    set (t2h := set_size s1 (enc_key frefs i) (Z.to_N (get_int s1 (enc_key fsize i)))).
    assert (Xh : exec Wr v hs (SRefArrHead fsize fkeep frefs fidx idx w) t2 = Ok t2h).
    { cbn [exec]. cbv zeta. rewrite I2. reflexivity. }
    assert (Exth : ext_eq t2h sf).
    { intros n l. unfold t2h. rewrite getv_set_size_same; [apply E2|]. rewrite Ssz. exact Srf. }
    assert (L2h : forall y, y <> 0 -> get_local t2h y = get_local t2 y).
    { intros y Hy. unfold t2h. change (get_local (set_size ?a ?k ?z) y) with (get_local a y). unfold get_local at 1. rewrite Lc2. apply C2b. exact Hy. }
    assert (IH1 : Inv Wtot sf P Ch L th t2h).
    { constructor.
      - exact Exth.
      - intros n Hr l Hs. apply Sl in Hs.
        unfold readable, Ch in Hr. rewrite !wmem_cons in Hr.
        destruct (wn_eqb n (WSize frefs)) eqn:Ea.
        { apply wn_eqb_eq in Ea. subst n. rewrite <- (Hh (WSize frefs)); [|unfold C1, Ch; rewrite !wmem_cons, wn_eqb_refl, !orb_true_r; reflexivity|exact N2|exact Hs].
          symmetry. apply FB. right. left. unfold Ch. rewrite !wmem_cons, wn_eqb_refl. reflexivity. }
        destruct (wn_eqb n (WInt fsize)) eqn:Eb.
        { apply wn_eqb_eq in Eb. subst n. rewrite <- (Hh (WInt fsize)); [|unfold C1, Ch; rewrite !wmem_cons, wn_eqb_refl, !orb_true_r; reflexivity|exact N1|exact Hs].
          symmetry. apply FB. right. left. unfold Ch. rewrite !wmem_cons, wn_eqb_refl, !orb_true_r. reflexivity. }
        cbn [orb] in Hr.
        assert (Hn3 : n <> WInt fidx).
        { intros ->. unfold writable in Hw3. apply andb_prop in Hw3. destruct Hw3 as [A B]. rewrite A in Hr. rewrite N3 in Hr. discriminate. }
        rewrite FH.
        + apply (inv_done _ _ _ _ _ _ _ HI n Hr l Hs).
        + left. intros ->. rewrite wn_eqb_refl in Eb. discriminate.
        + left. intros ->. rewrite wn_eqb_refl in Ea. discriminate.
        + left. exact Hn3.
      - intros y Hy. rewrite Lth, L2h; [apply (inv_loc _ _ _ _ _ _ _ HI y Hy)| |]; intros ->; congruence.
      - apply (inv_cv _ _ _ _ _ _ _ HI). }
    destruct (RB t2h IH1) as (t2' & XB & W2B & IB).
    { intros n E1 E0 l Hs. apply Hh; [exact E1| |apply Sl; exact Hs].
      unfold Ch in E0. rewrite !wmem_cons in E0. apply orb_false_iff in E0. destruct E0 as [_ E0]. apply orb_false_iff in E0. apply E0. }
    exists t2'. unfold refarr_stmt.
    change (exec Wr v hs (SSeq (SRefArrHead fsize fkeep frefs fidx idx w) (SFor j (ESize frefs idx) (SRef fidx (idx ++ [ILocal j])))) t2)
      with (bind (exec Wr v hs (SRefArrHead fsize fkeep frefs fidx idx w) t2) (exec Wr v hs (SFor j (ESize frefs idx) (SRef fidx (idx ++ [ILocal j]))))).
    rewrite Xh. cbn [bind]. split; [exact XB|]. split; [|exact IB].
    eapply wrote_trans; [|exact W2B]. unfold wrote in *. unfold t2h. cbn [out set_size]. rewrite W2, C2c. reflexivity.
  Qed.
End RefArr.
