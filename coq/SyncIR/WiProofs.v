(* Soundness of the write-idempotence discipline [wchk] (WiDefs.v): for a program it accepts, writing the
   object that a first write left behind emits the same bytes again and changes no field. *)
From NiflyVerif Require Import IR Exec IREq Refs RtDefs RtProofs WiDefs.
From Coq Require Import FMapPositive.
Local Open Scope N_scope.

(* ---- encode . decode . encode = encode ---- *)
Lemma le_bytes_congr : forall w a b, (a mod 256 ^ Z.of_nat w = b mod 256 ^ Z.of_nat w)%Z -> le_bytes w a = le_bytes w b.
Proof.
  induction w as [|w IH]; intros a b H; cbn [le_bytes]; [reflexivity|].
  rewrite Nat2Z.inj_succ, Z.pow_succ_r in H by lia.
  assert (Hp : (0 < 256 ^ Z.of_nat w)%Z) by (apply Z.pow_pos_nonneg; lia).
  pose proof (Z.rem_mul_r a 256 (256 ^ Z.of_nat w) ltac:(lia) Hp) as Ea.
  pose proof (Z.rem_mul_r b 256 (256 ^ Z.of_nat w) ltac:(lia) Hp) as Eb.
  rewrite H, Eb in Ea.
  pose proof (Z.mod_pos_bound a 256 ltac:(lia)) as Ba. pose proof (Z.mod_pos_bound b 256 ltac:(lia)) as Bb.
  set (xa := (a mod 256)%Z) in *. set (xb := (b mod 256)%Z) in *.
  set (ya := ((a / 256) mod 256 ^ Z.of_nat w)%Z) in *. set (yb := ((b / 256) mod 256 ^ Z.of_nat w)%Z) in *.
  assert (Ha : xa = xb) by lia. assert (Hd : ya = yb) by lia.
  f_equal; [rewrite Ha; reflexivity|]. apply IH. exact Hd.
Qed.

Lemma pow256 (w : N) : (256 ^ Z.of_nat (N.to_nat w) = 2 ^ (8 * Z.of_N w))%Z.
Proof. change 256%Z with (2 ^ 8)%Z. rewrite <- Z.pow_mul_r by lia. f_equal. lia. Qed.

Lemma wrapZ_mod w s x : (wrapZ w s x mod 2 ^ (8 * Z.of_N w) = x mod 2 ^ (8 * Z.of_N w))%Z.
Proof.
  unfold wrapZ. cbv zeta.
  assert (Hp : (0 < 2 ^ (8 * Z.of_N w))%Z) by (apply Z.pow_pos_nonneg; lia).
  destruct s; [|apply Z.mod_mod; lia].
  destruct (Z.ltb _ _); [apply Z.mod_mod; lia|].
  rewrite <- (Z.mod_add _ 1 (2 ^ (8 * Z.of_N w))) by lia.
  replace (x mod 2 ^ (8 * Z.of_N w) - 2 ^ (8 * Z.of_N w) + 1 * 2 ^ (8 * Z.of_N w))%Z with (x mod 2 ^ (8 * Z.of_N w))%Z by lia.
  apply Z.mod_mod. lia.
Qed.

Lemma encode_decode_encode p z : encode p (decode p (encode p z)) = encode p z.
Proof.
  assert (Hp : (0 < 2 ^ (8 * Z.of_N (prim_width p)))%Z) by (apply Z.pow_pos_nonneg; lia).
  unfold encode, decode. apply le_bytes_congr. rewrite pow256, wrapZ_mod.
  rewrite (of_le_bytes_le_bytes (fun _ => true)), pow256. apply Z.mod_mod. lia.
Qed.

Lemma decode_encode_idem p z : decode p (encode p (decode p (encode p z))) = decode p (encode p z).
Proof. rewrite encode_decode_encode. reflexivity. Qed.

(* ---- small facts about the name sets ---- *)
Lemma wn_eqb_eq a b : wn_eqb a b = true -> a = b.
Proof. destruct a, b; cbn; try discriminate; intros H; apply N.eqb_eq in H; subst; reflexivity. Qed.
Lemma wn_eqb_refl a : wn_eqb a a = true.
Proof. destruct a; cbn; apply N.eqb_refl. Qed.
Lemma wmem_in a W : wmem a W = true <-> In a W.
Proof.
  unfold wmem. rewrite existsb_exists. split.
  - intros (b & Hb & E). apply wn_eqb_eq in E. subst. exact Hb.
  - intros H. exists a. split; [exact H|apply wn_eqb_refl].
Qed.
Lemma wmem_cons a b W : wmem a (b :: W) = wn_eqb a b || wmem a W.
Proof. reflexivity. Qed.
Lemma wmem_wunion a W1 W2 : wmem a (wunion W1 W2) = wmem a W1 || wmem a W2.
Proof.
  unfold wunion. unfold wmem at 1. rewrite existsb_app. fold (wmem a W1).
  destruct (wmem a W1) eqn:E1; [reflexivity|]. cbn [orb].
  destruct (wmem a W2) eqn:E2.
  - apply wmem_in in E2. apply existsb_exists. exists a. split; [|apply wn_eqb_refl].
    apply filter_In. split; [exact E2|]. rewrite E1. reflexivity.
  - destruct (existsb (wn_eqb a) (filter _ W2)) eqn:E3; [|reflexivity].
    apply existsb_exists in E3. destruct E3 as (b & Hb & E). apply wn_eqb_eq in E. subst b.
    apply filter_In in Hb. destruct Hb as [Hb _]. apply wmem_in in Hb. congruence.
Qed.
Lemma lmem_in x L : lmem x L = true <-> In x L.
Proof.
  unfold lmem. rewrite existsb_exists. split.
  - intros (y & Hy & E). apply N.eqb_eq in E. subst. exact Hy.
  - intros H. exists x. split; [exact H|apply N.eqb_refl].
Qed.
Lemma lmem_linter x L1 L2 : lmem x (linter L1 L2) = true -> lmem x L1 = true /\ lmem x L2 = true.
Proof.
  intros H. apply lmem_in in H. unfold linter in H. apply filter_In in H. destruct H as [H1 H2].
  split; [apply lmem_in; exact H1|exact H2].
Qed.

(* ---- extensional equality of stores, by field name ---- *)
Definition same_name (a b : state) (n : wn) : Prop :=
  match n with
  | WInt f => forall l, get_int a (enc_key f l) = get_int b (enc_key f l)
  | WSize f => forall l, get_size a (enc_key f l) = get_size b (enc_key f l)
  | WBlob f => forall l, get_blob a (enc_key f l) = get_blob b (enc_key f l)
  end.
Definition store_ext (a b : state) : Prop := forall n, same_name a b n.

Lemma same_name_refl a n : same_name a a n.
Proof. destruct n; intro; reflexivity. Qed.
Lemma same_name_sym a b n : same_name a b n -> same_name b a n.
Proof. destruct n; intros H l; symmetry; apply H. Qed.
Lemma same_name_trans a b c n : same_name a b n -> same_name b c n -> same_name a c n.
Proof. destruct n; intros H1 H2 l; rewrite H1; apply H2. Qed.

Lemma get_set_blob st k b k' : get_blob (set_blob st k b) k' = if skey_eqb k' k then b else get_blob st k'.
Proof. unfold get_blob, set_blob. cbn [blobs]. rewrite find2_add2. destruct (skey_eqb k' k); reflexivity. Qed.

Lemma skey_eqb_true k k' : skey_eqb k k' = true -> k = k'.
Proof.
  unfold skey_eqb. intros H. apply andb_prop in H. destruct H as [H1 H2].
  apply Pos.eqb_eq in H1, H2. destruct k, k'. cbn in *. subst. reflexivity.
Qed.

(* setting one instance of a field leaves every other field name alone *)
Lemma set_int_other st f l z n : n <> WInt f -> same_name (set_int st (enc_key f l) z) st n.
Proof.
  intros Hn. destruct n as [g|g|g]; intro l'; try reflexivity.
  rewrite get_set_int, skey_eqb_names; [reflexivity|]. intros E. apply Hn. subst. reflexivity.
Qed.
Lemma set_size_other st f l z n : n <> WSize f -> same_name (set_size st (enc_key f l) z) st n.
Proof.
  intros Hn. destruct n as [g|g|g]; intro l'; try reflexivity.
  rewrite get_set_size, skey_eqb_names; [reflexivity|]. intros E. apply Hn. subst. reflexivity.
Qed.
Lemma set_blob_other st f l z n : n <> WBlob f -> same_name (set_blob st (enc_key f l) z) st n.
Proof.
  intros Hn. destruct n as [g|g|g]; intro l'; try reflexivity.
  rewrite get_set_blob, skey_eqb_names; [reflexivity|]. intros E. apply Hn. subst. reflexivity.
Qed.
(* writing back the value an instance already has changes nothing *)
Lemma set_int_same st k z n : get_int st k = z -> same_name (set_int st k z) st n.
Proof.
  intros Hz. destruct n as [g|g|g]; intro l'; try reflexivity.
  rewrite get_set_int. destruct (skey_eqb (enc_key g l') k) eqn:E; [|reflexivity].
  apply skey_eqb_true in E. subst k. symmetry. exact Hz.
Qed.
Lemma set_size_same st k z n : get_size st k = z -> same_name (set_size st k z) st n.
Proof.
  intros Hz. destruct n as [g|g|g]; intro l'; try reflexivity.
  rewrite get_set_size. destruct (skey_eqb (enc_key g l') k) eqn:E; [|reflexivity].
  apply skey_eqb_true in E. subst k. symmetry. exact Hz.
Qed.
Lemma set_blob_same st k z n : get_blob st k = z -> same_name (set_blob st k z) st n.
Proof.
  intros Hz. destruct n as [g|g|g]; intro l'; try reflexivity.
  rewrite get_set_blob. destruct (skey_eqb (enc_key g l') k) eqn:E; [|reflexivity].
  apply skey_eqb_true in E. subst k. symmetry. exact Hz.
Qed.
(* emit, log_ref, set_local, set_warn do not touch the stores *)
Lemma same_name_emit st b n : same_name (emit st b) st n. Proof. destruct n; intro; reflexivity. Qed.
Lemma same_name_log st k n : same_name (log_ref st k) st n. Proof. destruct n; intro; reflexivity. Qed.
Lemma same_name_local st x z n : same_name (set_local st x z) st n. Proof. destruct n; intro; reflexivity. Qed.
Lemma same_name_warn st b n : same_name (set_warn st b) st n. Proof. destruct n; intro; reflexivity. Qed.

Section Wi.
  Variable v : version.
  Variable hs : Z -> bool.
  Variable Wtot : list wn.
  Variable sf : state.            (* the state the first write ends in *)

  (* run 1 is at t1, run 2 at t2: run 2's fields are the final ones throughout; run 1's fields are final for the
     names that are done (modified earlier, or never modified); agreed locals are equal *)
  Record Inv (W : list wn) (L : list lvar) (t1 t2 : state) : Prop := mkInv {
    inv_ext : store_ext t2 sf;
    inv_done : forall n, readable Wtot W n = true -> same_name t1 sf n;
    inv_loc : forall x, lmem x L = true -> get_local t1 x = get_local t2 x
  }.

  Lemma inv_eval_idx W L t1 t2 idx : Inv W L t1 t2 -> idx_locals_ok L idx = true -> eval_idx t1 idx = eval_idx t2 idx.
  Proof.
    intros HI. unfold idx_locals_ok, eval_idx. induction idx as [|i r IH]; cbn [forallb map]; intros H; [reflexivity|].
    apply andb_prop in H. destruct H as [H1 H2]. f_equal; [|auto].
    destruct i as [n|x]; cbn [eval_i]; [reflexivity|]. rewrite (inv_loc _ _ _ _ HI x H1). reflexivity.
  Qed.

  Lemma inv_key W L t1 t2 f idx : Inv W L t1 t2 -> idx_locals_ok L idx = true -> key t1 f idx = key t2 f idx.
  Proof. intros HI H. unfold key. rewrite (inv_eval_idx _ _ _ _ _ HI H). reflexivity. Qed.

  (* a readable name has the same value in both runs *)
  Lemma inv_read W L t1 t2 n : Inv W L t1 t2 -> readable Wtot W n = true -> same_name t1 t2 n.
  Proof.
    intros HI Hr. eapply same_name_trans; [apply (inv_done _ _ _ _ HI n Hr)|]. apply same_name_sym. apply (inv_ext _ _ _ _ HI).
  Qed.

  Lemma inv_eval W L t1 t2 : Inv W L t1 t2 -> forall e, wreads_ok Wtot W L e = true -> eval Wr v hs t1 e = eval Wr v hs t2 e.
  Proof.
    intros HI. induction e; intros He; cbn [wreads_ok] in He; cbn [eval]; try reflexivity; try discriminate.
    - apply andb_prop in He. destruct He as [H1 H2].
      rewrite (inv_eval_idx _ _ _ _ _ HI H2). f_equal. apply (inv_read _ _ _ _ (WInt f) HI H1).
    - apply andb_prop in He. destruct He as [H1 H2].
      rewrite (inv_eval_idx _ _ _ _ _ HI H2). do 2 f_equal. apply (inv_read _ _ _ _ (WSize f) HI H1).
    - apply andb_prop in He. destruct He as [H1 H2].
      rewrite (inv_eval_idx _ _ _ _ _ HI H2). do 3 f_equal. apply (inv_read _ _ _ _ (WBlob f) HI H1).
    - rewrite (inv_loc _ _ _ _ HI x He). reflexivity.
    - apply andb_prop in He. destruct He as [H1 H2]. rewrite (IHe1 H1), (IHe2 H2). reflexivity.
    - rewrite (IHe He). reflexivity.
    - rewrite (IHe He). reflexivity.
    - apply andb_prop in He. destruct He as [He H3]. apply andb_prop in He. destruct He as [H1 H2].
      rewrite (IHe1 H1), (IHe2 H2), (IHe3 H3). reflexivity.
    - apply andb_prop in He. destruct He as [H1 H2].
      rewrite (inv_eval_idx _ _ _ _ _ HI H2). do 3 f_equal. apply (inv_read _ _ _ _ (WInt f) HI H1).
  Qed.

  (* ---- the statement proved for every accepted statement ---- *)
  Definition wi_ok (s : stmt) (W : list wn) (L : list lvar) (W' : list wn) (L' : list lvar) : Prop :=
    (forall a, wmem a W = true -> wmem a W' = true) /\
    forall t1 t1', exec Wr v hs s t1 = Ok t1' ->
      (forall n, wmem n W' = false \/ wmem n W = true -> same_name t1' t1 n) /\
      exists extra, wrote t1 t1' extra /\
        forall t2, Inv W L t1 t2 ->
          (forall n, wmem n W' = true -> wmem n W = false -> same_name t1' sf n) ->
          exists t2', exec Wr v hs s t2 = Ok t2' /\ wrote t2 t2' extra /\ Inv W' L' t1' t2'.

  Lemma inv_post W L W' L' t1 t2 t1' t2' :
    Inv W L t1 t2 ->
    (forall n, wmem n W' = false \/ wmem n W = true -> same_name t1' t1 n) ->
    (forall n, wmem n W' = true -> wmem n W = false -> same_name t1' sf n) ->
    store_ext t2' sf ->
    (forall x, lmem x L' = true -> get_local t1' x = get_local t2' x) ->
    Inv W' L' t1' t2'.
  Proof.
    intros HI Hfr Hh Hext Hloc. constructor; [exact Hext| |exact Hloc].
    intros n Hr. unfold readable in Hr.
    destruct (wmem n W') eqn:E1.
    - destruct (wmem n W) eqn:E2.
      + eapply same_name_trans; [apply Hfr; right; exact E2|]. apply (inv_done _ _ _ _ HI). unfold readable. rewrite E2. reflexivity.
      + apply Hh; assumption.
    - cbn [orb] in Hr. eapply same_name_trans; [apply Hfr; left; exact E1|].
      apply (inv_done _ _ _ _ HI). unfold readable. rewrite Hr. apply orb_true_r.
  Qed.

  Lemma wi_skip W L : wi_ok SSkip W L W L.
  Proof.
    split; [auto|]. intros t1 t1' H. cbn in H. assert (t1' = t1) by congruence. subst t1'.
    split; [intros; apply same_name_refl|]. exists []. split; [apply wrote_refl|].
    intros t2 HI _. exists t2. split; [reflexivity|]. split; [apply wrote_refl|exact HI].
  Qed.

  Lemma wi_seq a b W L W1 L1 W2 L2 : wi_ok a W L W1 L1 -> wi_ok b W1 L1 W2 L2 -> wi_ok (SSeq a b) W L W2 L2.
  Proof.
    intros [Ma Ha] [Mb Hb]. split; [auto|].
    intros t1 t1' H. cbn [exec] in H.
    destruct (exec Wr v hs a t1) as [t1a| |] eqn:Ea; cbn [bind] in H; try discriminate.
    destruct (Ha t1 t1a Ea) as (Fa & ea & Wa & Ra). destruct (Hb t1a t1' H) as (Fb & eb & Wb & Rb).
    assert (Mb' : forall n, wmem n W2 = false -> wmem n W1 = false).
    { intros n E. destruct (wmem n W1) eqn:E1; [|reflexivity]. rewrite (Mb n E1) in E. discriminate. }
    assert (Ma' : forall n, wmem n W1 = false -> wmem n W = false).
    { intros n E. destruct (wmem n W) eqn:E1; [|reflexivity]. rewrite (Ma n E1) in E. discriminate. }
    split.
    - intros n [E|E].
      + eapply same_name_trans; [apply Fb; left; exact E|]. apply Fa. left. apply Mb'. exact E.
      + eapply same_name_trans; [apply Fb; right; apply Ma; exact E|]. apply Fa. right. exact E.
    - exists (ea ++ eb). split; [eapply wrote_trans; eauto|].
      intros t2 HI Hh.
      destruct (Ra t2 HI) as (t2a & Xa & W2a & Ia).
      { intros n E1 E. eapply same_name_trans; [|apply (Hh n (Mb n E1) E)].
        apply same_name_sym. apply Fb. right. exact E1. }
      destruct (Rb t2a Ia) as (t2' & Xb & W2b & Ib).
      { intros n E2 E1. apply Hh; [exact E2|]. apply Ma'. exact E1. }
      exists t2'. cbn [exec]. rewrite Xa. cbn [bind]. split; [exact Xb|]. split; [eapply wrote_trans; eauto|exact Ib].
  Qed.

  Lemma wi_if_ver c t e W L W' L' z :
    ver_only v c = Some z -> wi_ok (if Z.eqb z 0 then e else t) W L W' L' -> wi_ok (SIf c t e) W L W' L'.
  Proof.
    intros Hv [M Hb]. split; [exact M|].
    intros t1 t1' H. cbn [exec] in H. rewrite (ver_only_sound Wr v hs c t1 z Hv) in H. cbn [bind] in H.
    assert (Hx : exec Wr v hs (if Z.eqb z 0 then e else t) t1 = Ok t1') by (destruct (Z.eqb z 0); exact H).
    destruct (Hb t1 t1' Hx) as (F & ex & Wx & R). split; [exact F|]. exists ex. split; [exact Wx|].
    intros t2 HI Hh. destruct (R t2 HI Hh) as (t2' & X & W2 & I2). exists t2'.
    cbn [exec]. rewrite (ver_only_sound Wr v hs c t2 z Hv). cbn [bind].
    split; [destruct (Z.eqb z 0); exact X|]. auto.
  Qed.

  Lemma inv_weaken W1 L1 W' L' t1 t2 :
    (forall n, wmem n W1 = true -> wmem n W' = true) ->
    (forall n, wmem n W' = true -> wmem n W1 = false -> same_name t1 sf n) ->
    (forall x, lmem x L' = true -> lmem x L1 = true) ->
    Inv W1 L1 t1 t2 -> Inv W' L' t1 t2.
  Proof.
    intros Hm Hh Hl HI. constructor; [apply (inv_ext _ _ _ _ HI)| |].
    - intros n Hr. unfold readable in Hr. destruct (wmem n W1) eqn:E1.
      + apply (inv_done _ _ _ _ HI). unfold readable. rewrite E1. reflexivity.
      + destruct (wmem n W') eqn:E2.
        * apply Hh; assumption.
        * cbn [orb] in Hr. apply (inv_done _ _ _ _ HI). unfold readable. rewrite Hr. apply orb_true_r.
    - intros x Hx. apply (inv_loc _ _ _ _ HI). apply Hl. exact Hx.
  Qed.

  Lemma wi_if_dyn c t e W L W1 L1 W2 L2 :
    wreads_ok Wtot W L c = true -> wi_ok t W L W1 L1 -> wi_ok e W L W2 L2 ->
    wi_ok (SIf c t e) W L (wunion W1 W2) (linter L1 L2).
  Proof.
    intros Hc [Mt Ht] [Me He]. split.
    { intros a Ha. rewrite wmem_wunion, (Mt a Ha). reflexivity. }
    intros t1 t1' H. cbn [exec] in H.
    destruct (eval Wr v hs t1 c) as [z| |] eqn:Ec; cbn [bind] in H; try discriminate.
    destruct (Z.eqb z 0) eqn:Ez.
    - destruct (He t1 t1' H) as (F & ex & Wx & R). split.
      { intros n [E|E]; apply F; [left|right; exact E]. rewrite wmem_wunion in E. apply orb_false_iff in E. apply E. }
      exists ex. split; [exact Wx|]. intros t2 HI Hh.
      destruct (R t2 HI) as (t2' & X & W2' & I2).
      { intros n E2 E. apply Hh; [|exact E]. rewrite wmem_wunion, E2. apply orb_true_r. }
      exists t2'. cbn [exec]. rewrite <- (inv_eval _ _ _ _ HI c Hc), Ec. cbn [bind]. rewrite Ez.
      split; [exact X|]. split; [exact W2'|].
      eapply inv_weaken; [| | |exact I2].
      + intros n E. rewrite wmem_wunion, E. apply orb_true_r.
      + intros n E E2. apply Hh; [exact E|]. destruct (wmem n W) eqn:EW; [|reflexivity]. rewrite (Me n EW) in E2. discriminate.
      + intros x Hx. apply lmem_linter in Hx. apply Hx.
    - destruct (Ht t1 t1' H) as (F & ex & Wx & R). split.
      { intros n [E|E]; apply F; [left|right; exact E]. rewrite wmem_wunion in E. apply orb_false_iff in E. apply E. }
      exists ex. split; [exact Wx|]. intros t2 HI Hh.
      destruct (R t2 HI) as (t2' & X & W2' & I2).
      { intros n E1 E. apply Hh; [|exact E]. rewrite wmem_wunion, E1. reflexivity. }
      exists t2'. cbn [exec]. rewrite <- (inv_eval _ _ _ _ HI c Hc), Ec. cbn [bind]. rewrite Ez.
      split; [exact X|]. split; [exact W2'|].
      eapply inv_weaken; [| | |exact I2].
      + intros n E. rewrite wmem_wunion, E. reflexivity.
      + intros n E E1. apply Hh; [exact E|]. destruct (wmem n W) eqn:EW; [|reflexivity]. rewrite (Mt n EW) in E1. discriminate.
      + intros x Hx. apply lmem_linter in Hx. apply Hx.
  Qed.

  (* ---- leaves ---- *)
  Lemma wn_neq_of_mem n tgt W W' :
    W' = tgt :: W -> writable Wtot W tgt = true -> (wmem n W' = false \/ wmem n W = true) -> n <> tgt.
  Proof.
    intros -> Hw [E|E] Heq; subst n.
    - rewrite wmem_cons, wn_eqb_refl in E. discriminate.
    - unfold writable in Hw. apply andb_prop in Hw. destruct Hw as [_ Hw]. rewrite E in Hw. discriminate.
  Qed.

  Lemma wi_leaf s tgt W L L' :
    writable Wtot W tgt = true ->
    (forall t1 t1', exec Wr v hs s t1 = Ok t1' ->
       (forall n, n <> tgt -> same_name t1' t1 n) /\
       exists extra, wrote t1 t1' extra /\
         forall t2, Inv W L t1 t2 -> same_name t1' sf tgt ->
           exists t2', exec Wr v hs s t2 = Ok t2' /\ wrote t2 t2' extra /\ store_ext t2' sf /\
                       (forall x, lmem x L' = true -> get_local t1' x = get_local t2' x)) ->
    wi_ok s W L (tgt :: W) L'.
  Proof.
    intros Hw H. split.
    { intros a Ha. rewrite wmem_cons, Ha. apply orb_true_r. }
    intros t1 t1' Hx. destruct (H t1 t1' Hx) as (F & ex & Wx & R).
    assert (Fr : forall n, wmem n (tgt :: W) = false \/ wmem n W = true -> same_name t1' t1 n).
    { intros n Hn. apply F. eapply wn_neq_of_mem; eauto. }
    split; [exact Fr|]. exists ex. split; [exact Wx|].
    intros t2 HI Hh.
    assert (Ht : same_name t1' sf tgt).
    { apply Hh; [rewrite wmem_cons, wn_eqb_refl; reflexivity|].
      unfold writable in Hw. apply andb_prop in Hw. destruct Hw as [_ Hw]. apply negb_true_iff in Hw. exact Hw. }
    destruct (R t2 HI Ht) as (t2' & X & W2 & Ex & Lo).
    exists t2'. split; [exact X|]. split; [exact W2|]. eapply inv_post; eauto.
  Qed.

  (* statements that modify no field *)
  Lemma wi_leaf0 s W L L' :
    (forall t1 t1', exec Wr v hs s t1 = Ok t1' ->
       (forall n, same_name t1' t1 n) /\
       exists extra, wrote t1 t1' extra /\
         forall t2, Inv W L t1 t2 ->
           exists t2', exec Wr v hs s t2 = Ok t2' /\ wrote t2 t2' extra /\ store_ext t2' sf /\
                       (forall x, lmem x L' = true -> get_local t1' x = get_local t2' x)) ->
    wi_ok s W L W L'.
  Proof.
    intros H. split; [auto|].
    intros t1 t1' Hx. destruct (H t1 t1' Hx) as (F & ex & Wx & R).
    split; [intros n _; apply F|]. exists ex. split; [exact Wx|].
    intros t2 HI Hh. destruct (R t2 HI) as (t2' & X & W2 & Ex & Lo).
    exists t2'. split; [exact X|]. split; [exact W2|]. eapply inv_post; [exact HI|intros n _; apply F|exact Hh|exact Ex|exact Lo].
  Qed.

  Lemma store_ext_via t2' t2 : (forall n, same_name t2' t2 n) -> store_ext t2 sf -> store_ext t2' sf.
  Proof. intros H1 H2 n. eapply same_name_trans; [apply H1|apply H2]. Qed.

  Lemma wrote_emit st b : wrote st (emit st b) b.
  Proof. unfold wrote, emit. cbn [out]. rewrite rev_append_rev. reflexivity. Qed.

  (* a scalar transfer *)
  Lemma sync_int_wi t1 f l p nb :
    let k := enc_key f l in
    let bytes := firstn (N.to_nat nb) (encode p (get_int t1 k)) in
    let t1' := sync_int Wr t1 k p nb in
    (forall n, n <> WInt f -> same_name t1' t1 n) /\ wrote t1 t1' bytes /\ locals t1' = locals t1 /\
    forall t2, store_ext t2 sf -> same_name t1' sf (WInt f) ->
      let t2' := sync_int Wr t2 k p nb in
      wrote t2 t2' bytes /\ store_ext t2' sf /\ locals t2' = locals t2.
  Proof.
    cbv zeta. unfold sync_int. destruct (nb =? prim_width p) eqn:Enb.
    - split; [|split; [(unfold wrote, emit; cbn [out set_int]; rewrite rev_append_rev; reflexivity)|split; [reflexivity|]]].
      + intros n Hn. eapply same_name_trans; [apply same_name_emit|]. apply set_int_other. exact Hn.
      + intros t2 Hext Hh.
        assert (Hk : get_int t2 (enc_key f l) = decode p (encode p (get_int t1 (enc_key f l)))).
        { rewrite (Hext (WInt f) l), <- (Hh l). cbn [same_name]. 
          change (get_int (emit ?a ?b) ?k) with (get_int a k). rewrite get_set_int, skey_eqb_refl. reflexivity. }
        rewrite Hk, encode_decode_encode.
        split; [(unfold wrote, emit; cbn [out set_int]; rewrite rev_append_rev; reflexivity)|]. split; [|reflexivity].
        eapply store_ext_via; [|exact Hext]. intros n.
        eapply same_name_trans; [apply same_name_emit|]. apply set_int_same.
        exact Hk.
    - split; [|split; [(unfold wrote, emit; cbn [out set_int]; rewrite rev_append_rev; reflexivity)|split; [reflexivity|]]].
      + intros n Hn. apply same_name_emit.
      + intros t2 Hext Hh.
        assert (Hk : get_int t2 (enc_key f l) = get_int t1 (enc_key f l)).
        { rewrite (Hext (WInt f) l), <- (Hh l). reflexivity. }
        rewrite Hk. split; [(unfold wrote, emit; cbn [out set_int]; rewrite rev_append_rev; reflexivity)|]. split; [|reflexivity].
        eapply store_ext_via; [|exact Hext]. intros n. apply same_name_emit.
  Qed.

  Lemma wi_sync_gen s f idx p nb (lg : bool) W L :
    idx_locals_ok L idx = true -> writable Wtot W (WInt f) = true ->
    (forall st, exec Wr v hs s st = Ok (maybe_log lg (sync_int Wr st (key st f idx) p nb) (key st f idx))) ->
    wi_ok s W L (WInt f :: W) L.
  Proof.
    intros Hidx Hw Hex. apply wi_leaf; [exact Hw|].
    intros t1 t1' H. rewrite Hex in H.
    assert (Ht : t1' = maybe_log lg (sync_int Wr t1 (key t1 f idx) p nb) (key t1 f idx)) by congruence. subst t1'. clear H.
    unfold key in *. destruct (sync_int_wi t1 f (eval_idx t1 idx) p nb) as (F & Wx & Lc & R).
    destruct (maybe_log_facts lg (sync_int Wr t1 (enc_key f (eval_idx t1 idx)) p nb) (enc_key f (eval_idx t1 idx))) as (L1 & L2 & L3 & L4).
    assert (SN : forall n, same_name (maybe_log lg (sync_int Wr t1 (enc_key f (eval_idx t1 idx)) p nb) (enc_key f (eval_idx t1 idx)))
                                     (sync_int Wr t1 (enc_key f (eval_idx t1 idx)) p nb) n).
    { intros n. destruct lg; [apply same_name_log|apply same_name_refl]. }
    split.
    - intros n Hn. eapply same_name_trans; [apply SN|]. apply F. exact Hn.
    - eexists. split; [unfold wrote in *; rewrite L2; exact Wx|].
      intros t2 HI Hh. rewrite Hex. unfold key. rewrite <- (inv_eval_idx _ _ _ _ _ HI Hidx).
      destruct (R t2 (inv_ext _ _ _ _ HI)) as (W2 & E2 & Lc2).
      { eapply same_name_trans; [apply same_name_sym; apply SN|exact Hh]. }
      eexists. split; [reflexivity|].
      destruct (maybe_log_facts lg (sync_int Wr t2 (enc_key f (eval_idx t1 idx)) p nb) (enc_key f (eval_idx t1 idx))) as (M1 & M2 & M3 & M4).
      split; [unfold wrote in *; rewrite M2; exact W2|]. split.
      + intros n. eapply same_name_trans; [|apply E2]. destruct lg; [apply same_name_log|apply same_name_refl].
      + intros x Hx. unfold get_local.
        assert (La : locals (maybe_log lg (sync_int Wr t1 (enc_key f (eval_idx t1 idx)) p nb) (enc_key f (eval_idx t1 idx))) = locals t1)
          by (destruct lg; exact Lc).
        assert (Lb : locals (maybe_log lg (sync_int Wr t2 (enc_key f (eval_idx t1 idx)) p nb) (enc_key f (eval_idx t1 idx))) = locals t2)
          by (destruct lg; exact Lc2).
        rewrite La, Lb. apply (inv_loc _ _ _ _ HI x Hx).
  Qed.

  Lemma inv_locals_same W L t1 t2 a b :
    Inv W L t1 t2 -> locals a = locals t1 -> locals b = locals t2 ->
    forall x, lmem x L = true -> get_local a x = get_local b x.
  Proof. intros HI Ha Hb x Hx. unfold get_local. rewrite Ha, Hb. apply (inv_loc _ _ _ _ HI x Hx). Qed.

  (* ---- assignments and resizes ---- *)
  Lemma wi_assign f idx p e W L :
    idx_locals_ok L idx = true -> writable Wtot W (WInt f) = true -> wreads_ok Wtot W L e = true ->
    wi_ok (SAssign f idx p e) W L (WInt f :: W) L.
  Proof.
    intros Hidx Hw He. apply wi_leaf; [exact Hw|].
    intros t1 t1' H. cbn [exec] in H. cbv zeta in H. rewrite key_of_key in H.
    destruct (eval Wr v hs t1 e) as [z| |] eqn:Ez; cbn [bind] in H; try discriminate.
    assert (t1' = set_int t1 (key t1 f idx) (wrapZ (prim_width p) (prim_signed p) z)) by congruence. subst t1'. clear H.
    unfold key. split; [intros n Hn; apply set_int_other; exact Hn|].
    exists []. split; [reflexivity|].
    intros t2 HI Hh. cbn [exec]. cbv zeta. rewrite key_of_key. unfold key.
    rewrite <- (inv_eval _ _ _ _ HI e He), Ez, <- (inv_eval_idx _ _ _ _ _ HI Hidx). cbn [bind].
    eexists. split; [reflexivity|]. split; [reflexivity|]. split.
    - eapply store_ext_via; [|apply (inv_ext _ _ _ _ HI)]. intros n. apply set_int_same.
      rewrite (inv_ext _ _ _ _ HI (WInt f) _), <- (Hh _). rewrite get_set_int, skey_eqb_refl. reflexivity.
    - apply (inv_locals_same _ _ _ _ _ _ HI); reflexivity.
  Qed.

  Lemma wi_resize f idx n W L :
    idx_locals_ok L idx = true -> writable Wtot W (WSize f) = true -> wreads_ok Wtot W L n = true ->
    wi_ok (SResize f idx n) W L (WSize f :: W) L.
  Proof.
    intros Hidx Hw He. apply wi_leaf; [exact Hw|].
    intros t1 t1' H. cbn [exec] in H. cbv zeta in H. rewrite key_of_key in H.
    destruct (eval Wr v hs t1 n) as [z| |] eqn:Ez; cbn [bind] in H; try discriminate.
    assert (t1' = set_size t1 (key t1 f idx) (Z.to_N z)) by congruence. subst t1'. clear H.
    unfold key. split; [intros m Hm; apply set_size_other; exact Hm|].
    exists []. split; [reflexivity|].
    intros t2 HI Hh. cbn [exec]. cbv zeta. rewrite key_of_key. unfold key.
    rewrite <- (inv_eval _ _ _ _ HI n He), Ez, <- (inv_eval_idx _ _ _ _ _ HI Hidx). cbn [bind].
    eexists. split; [reflexivity|]. split; [reflexivity|]. split.
    - eapply store_ext_via; [|apply (inv_ext _ _ _ _ HI)]. intros m. apply set_size_same.
      rewrite (inv_ext _ _ _ _ HI (WSize f) _), <- (Hh _). rewrite get_set_size, skey_eqb_refl. reflexivity.
    - apply (inv_locals_same _ _ _ _ _ _ HI); reflexivity.
  Qed.

  (* ---- locals ---- *)
  Lemma lmem_cons x y L : lmem x (y :: L) = (x =? y) || lmem x L.
  Proof. reflexivity. Qed.

  Lemma wi_local x p e W L : wreads_ok Wtot W L e = true -> wi_ok (SLocal x p e) W L W (x :: L).
  Proof.
    intros He. apply wi_leaf0. intros t1 t1' H. cbn [exec] in H.
    destruct (eval Wr v hs t1 e) as [z| |] eqn:Ez; cbn [bind] in H; try discriminate.
    assert (t1' = set_local t1 x (wrapZ (prim_width p) (prim_signed p) z)) by congruence. subst t1'. clear H.
    split; [intros n; apply same_name_local|]. exists []. split; [reflexivity|].
    intros t2 HI. cbn [exec]. rewrite <- (inv_eval _ _ _ _ HI e He), Ez. cbn [bind].
    eexists. split; [reflexivity|]. split; [reflexivity|]. split.
    - eapply store_ext_via; [|apply (inv_ext _ _ _ _ HI)]. intros n. apply same_name_local.
    - intros y Hy. rewrite !get_set_local. rewrite lmem_cons in Hy. destruct (y =? x); [reflexivity|].
      apply (inv_loc _ _ _ _ HI y Hy).
  Qed.

  Lemma wi_synclocal x p W L : lmem x L = true -> wi_ok (SSyncLocal x p) W L W L.
  Proof.
    intros Hx. apply wi_leaf0. intros t1 t1' H. cbn [exec] in H. cbv zeta in H.
    assert (t1' = set_local (emit t1 (encode p (get_local t1 x))) x (decode p (encode p (get_local t1 x)))) by congruence.
    subst t1'. clear H.
    split; [intros n; eapply same_name_trans; [apply same_name_local|apply same_name_emit]|].
    exists (encode p (get_local t1 x)). split; [unfold wrote, emit; cbn [out set_local]; rewrite rev_append_rev; reflexivity|].
    intros t2 HI. cbn [exec]. cbv zeta. rewrite <- (inv_loc _ _ _ _ HI x Hx).
    eexists. split; [reflexivity|]. split; [unfold wrote, emit; cbn [out set_local]; rewrite rev_append_rev; reflexivity|]. split.
    - eapply store_ext_via; [|apply (inv_ext _ _ _ _ HI)]. intros n. eapply same_name_trans; [apply same_name_local|apply same_name_emit].
    - intros y Hy. rewrite !get_set_local. destruct (y =? x); [reflexivity|].
      change (get_local (emit ?a ?b) y) with (get_local a y). apply (inv_loc _ _ _ _ HI y Hy).
  Qed.

  (* ---- raw arrays and strings ---- *)
  Lemma firstn_pad_idem (b : list N) n : length b = n -> firstn n (b ++ repeat 0 n) = b.
  Proof. intros H. rewrite firstn_app, H, Nat.sub_diag. cbn [firstn]. rewrite app_nil_r. rewrite <- H. apply firstn_all. Qed.

  Lemma sync_blob_wi t1 f l nn :
    let k := enc_key f l in
    let b := firstn (N.to_nat nn) (get_blob t1 k ++ repeat 0 (N.to_nat nn)) in
    let t1' := sync_blob Wr t1 k nn in
    (forall n, n <> WBlob f -> same_name t1' t1 n) /\ wrote t1 t1' b /\ locals t1' = locals t1 /\
    forall t2, store_ext t2 sf -> same_name t1' sf (WBlob f) ->
      let t2' := sync_blob Wr t2 k nn in wrote t2 t2' b /\ store_ext t2' sf /\ locals t2' = locals t2.
  Proof.
    cbv zeta. unfold sync_blob.
    set (b := firstn (N.to_nat nn) (get_blob t1 (enc_key f l) ++ repeat 0 (N.to_nat nn))).
    assert (Hb : length b = N.to_nat nn) by (unfold b; rewrite firstn_length, app_length, repeat_length; lia).
    split; [|split; [unfold wrote, emit; cbn [out set_blob]; rewrite rev_append_rev; reflexivity|split; [reflexivity|]]].
    - intros n Hn. eapply same_name_trans; [apply same_name_emit|]. apply set_blob_other. exact Hn.
    - intros t2 Hext Hh.
      assert (Hk : get_blob t2 (enc_key f l) = b).
      { rewrite (Hext (WBlob f) l), <- (Hh l). change (get_blob (emit ?a ?c) ?k) with (get_blob a k).
        rewrite get_set_blob, skey_eqb_refl. reflexivity. }
      rewrite Hk, (firstn_pad_idem b _ Hb).
      split; [unfold wrote, emit; cbn [out set_blob]; rewrite rev_append_rev; reflexivity|]. split; [|reflexivity].
      eapply store_ext_via; [|exact Hext]. intros n. eapply same_name_trans; [apply same_name_emit|]. apply set_blob_same. exact Hk.
  Qed.

  Lemma wi_bytes f idx n W L :
    idx_locals_ok L idx = true -> writable Wtot W (WBlob f) = true -> wreads_ok Wtot W L n = true ->
    wi_ok (SBytes f idx n) W L (WBlob f :: W) L.
  Proof.
    intros Hidx Hw He. apply wi_leaf; [exact Hw|].
    intros t1 t1' H. cbn [exec] in H. cbv zeta in H. rewrite key_of_key in H.
    destruct (eval Wr v hs t1 n) as [z| |] eqn:Ez; cbn [bind] in H; try discriminate.
    assert (t1' = sync_blob Wr t1 (key t1 f idx) (Z.to_N z)) by congruence. subst t1'. clear H.
    unfold key. destruct (sync_blob_wi t1 f (eval_idx t1 idx) (Z.to_N z)) as (F & Wx & Lc & R).
    split; [exact F|]. eexists. split; [exact Wx|].
    intros t2 HI Hh. cbn [exec]. cbv zeta. rewrite key_of_key. unfold key.
    rewrite <- (inv_eval _ _ _ _ HI n He), Ez, <- (inv_eval_idx _ _ _ _ _ HI Hidx). cbn [bind].
    destruct (R t2 (inv_ext _ _ _ _ HI) Hh) as (W2 & E2 & Lc2).
    eexists. split; [reflexivity|]. split; [exact W2|]. split; [exact E2|].
    apply (inv_locals_same _ _ _ _ _ _ HI); assumption.
  Qed.

  Lemma wi_bytesvec f idx W L :
    idx_locals_ok L idx = true -> writable Wtot W (WBlob f) = true -> readable Wtot W (WSize f) = true ->
    wi_ok (SBytesVec f idx) W L (WBlob f :: W) L.
  Proof.
    intros Hidx Hw Hr. apply wi_leaf; [exact Hw|].
    intros t1 t1' H. cbn [exec] in H. cbv zeta in H. rewrite key_of_key in H. unfold key in H.
    assert (Hsz : forall t2, Inv W L t1 t2 -> get_size t2 (enc_key f (eval_idx t1 idx)) = get_size t1 (enc_key f (eval_idx t1 idx))).
    { intros t2 HI. symmetry. apply (inv_read _ _ _ _ (WSize f) HI Hr). }
    destruct (get_size t1 (enc_key f (eval_idx t1 idx)) =? 0) eqn:E0.
    - assert (t1' = t1) by congruence. subst t1'. split; [intros; apply same_name_refl|].
      exists []. split; [reflexivity|]. intros t2 HI Hh. cbn [exec]. cbv zeta. rewrite key_of_key. unfold key.
      rewrite <- (inv_eval_idx _ _ _ _ _ HI Hidx), (Hsz t2 HI), E0.
      exists t2. split; [reflexivity|]. split; [reflexivity|]. split; [apply (inv_ext _ _ _ _ HI)|apply (inv_loc _ _ _ _ HI)].
    - assert (t1' = sync_blob Wr t1 (enc_key f (eval_idx t1 idx)) (get_size t1 (enc_key f (eval_idx t1 idx)))) by congruence. subst t1'. clear H.
      destruct (sync_blob_wi t1 f (eval_idx t1 idx) (get_size t1 (enc_key f (eval_idx t1 idx)))) as (F & Wx & Lc & R).
      split; [exact F|]. eexists. split; [exact Wx|].
      intros t2 HI Hh. cbn [exec]. cbv zeta. rewrite key_of_key. unfold key.
      rewrite <- (inv_eval_idx _ _ _ _ _ HI Hidx), (Hsz t2 HI), E0.
      destruct (R t2 (inv_ext _ _ _ _ HI) Hh) as (W2 & E2 & Lc2).
      eexists. split; [reflexivity|]. split; [exact W2|]. split; [exact E2|].
      apply (inv_locals_same _ _ _ _ _ _ HI); assumption.
  Qed.

  Lemma wi_nistring f idx w W L :
    idx_locals_ok L idx = true -> writable Wtot W (WBlob f) = true ->
    wi_ok (SNiString f idx w) W L (WBlob f :: W) L.
  Proof.
    intros Hidx Hw. apply wi_leaf; [exact Hw|].
    intros t1 t1' H. cbn [exec] in H. cbv zeta in H. rewrite key_of_key in H. unfold key in H.
    set (k := enc_key f (eval_idx t1 idx)) in *.
    set (s0 := get_blob t1 k) in *.
    set (sz := N.min (N.of_nat (length s0)) (2 ^ (8 * w) - 1)) in *.
    set (s1 := firstn (N.to_nat sz) s0) in *.
    assert (t1' = emit (emit (set_blob t1 k s1) (le_bytes (N.to_nat w) (Z.of_N sz))) s1) by congruence. subst t1'. clear H.
    assert (Hs1 : length s1 = N.to_nat sz) by (unfold s1; rewrite firstn_length; unfold sz; lia).
    split.
    { intros n Hn. eapply same_name_trans; [apply same_name_emit|]. eapply same_name_trans; [apply same_name_emit|].
      apply set_blob_other. exact Hn. }
    exists (le_bytes (N.to_nat w) (Z.of_N sz) ++ s1). split.
    { unfold wrote, emit. cbn [out set_blob]. rewrite !rev_append_rev, rev_app_distr, app_assoc. reflexivity. }
    intros t2 HI Hh. cbn [exec]. cbv zeta. rewrite key_of_key. unfold key.
    rewrite <- (inv_eval_idx _ _ _ _ _ HI Hidx). fold k.
    assert (Hk : get_blob t2 k = s1).
    { unfold k. rewrite (inv_ext _ _ _ _ HI (WBlob f) _), <- (Hh _).
      change (get_blob (emit (emit ?a ?c) ?d) ?kk) with (get_blob a kk). rewrite get_set_blob, skey_eqb_refl. reflexivity. }
    rewrite Hk.
    assert (Hsz : N.min (N.of_nat (length s1)) (2 ^ (8 * w) - 1) = sz) by (rewrite Hs1; unfold sz; lia).
    rewrite Hsz. assert (Hf : firstn (N.to_nat sz) s1 = s1) by (rewrite <- Hs1; apply firstn_all). rewrite Hf.
    eexists. split; [reflexivity|]. split.
    { unfold wrote, emit. cbn [out set_blob]. rewrite !rev_append_rev, rev_app_distr, app_assoc. reflexivity. }
    split.
    - eapply store_ext_via; [|apply (inv_ext _ _ _ _ HI)]. intros n.
      eapply same_name_trans; [apply same_name_emit|]. eapply same_name_trans; [apply same_name_emit|].
      apply set_blob_same. exact Hk.
    - apply (inv_locals_same _ _ _ _ _ _ HI); reflexivity.
  Qed.

  Lemma wrap32_small z : (0 <= z < 2 ^ 32)%Z -> wrapZ 4 false z = z.
  Proof. intros H. unfold wrapZ. cbv zeta. change (8 * Z.of_N 4)%Z with 32%Z. apply Z.mod_small. exact H. Qed.

  Lemma wi_strref_old fstr findex idx W L :
    Z.ltb (vfile v) V20_1_0_3 = true -> idx_locals_ok L idx = true -> writable Wtot W (WBlob fstr) = true ->
    wi_ok (SStrRef fstr findex idx) W L (WBlob fstr :: W) L.
  Proof.
    intros Hv Hidx Hw. apply wi_leaf; [exact Hw|].
    intros t1 t1' H. cbn [exec] in H. rewrite Hv in H. cbv zeta in H. rewrite key_of_key in H. unfold key in H.
    set (k := enc_key fstr (eval_idx t1 idx)) in *.
    set (s0 := get_blob t1 k) in *.
    set (sz := Z.to_N (wrapZ 4 false (Z.of_nat (length s0)))) in *.
    set (s1 := firstn (N.to_nat sz) s0) in *.
    assert (t1' = emit (emit (set_warn (set_blob t1 k s1) (2049 <=? sz)) (le_bytes 4 (Z.of_N sz))) s1) by congruence. subst t1'. clear H.
    assert (Hszle : (N.to_nat sz <= length s0)%nat).
    { unfold sz. pose proof (wrapZ_unsigned_le hs 4 (Z.of_nat (length s0)) ltac:(lia)). pose proof (wrapZ_unsigned_range hs 4 (Z.of_nat (length s0))). lia. }
    assert (Hs1 : length s1 = N.to_nat sz) by (unfold s1; rewrite firstn_length; lia).
    assert (Hlt : (0 <= Z.of_N sz < 2 ^ 32)%Z).
    { unfold sz. rewrite Z2N.id by apply (wrapZ_unsigned_range hs). unfold wrapZ. cbv zeta. change (8 * Z.of_N 4)%Z with 32%Z.
      apply Z.mod_pos_bound. lia. }
    split.
    { intros n Hn. eapply same_name_trans; [apply same_name_emit|]. eapply same_name_trans; [apply same_name_emit|].
      eapply same_name_trans; [apply same_name_warn|]. apply set_blob_other. exact Hn. }
    exists (le_bytes 4 (Z.of_N sz) ++ s1). split.
    { unfold wrote, emit. cbn [out set_blob set_warn]. rewrite !rev_append_rev, rev_app_distr, app_assoc. reflexivity. }
    intros t2 HI Hh. cbn [exec]. rewrite Hv. cbv zeta. rewrite key_of_key. unfold key.
    rewrite <- (inv_eval_idx _ _ _ _ _ HI Hidx). fold k.
    assert (Hk : get_blob t2 k = s1).
    { unfold k. rewrite (inv_ext _ _ _ _ HI (WBlob fstr) _), <- (Hh _).
      change (get_blob (emit (emit (set_warn ?a ?bb) ?c) ?d) ?kk) with (get_blob a kk). rewrite get_set_blob, skey_eqb_refl. reflexivity. }
    rewrite Hk.
    assert (Hsz : Z.to_N (wrapZ 4 false (Z.of_nat (length s1))) = sz).
    { rewrite Hs1. rewrite N_nat_Z. rewrite wrap32_small by exact Hlt. apply N2Z.id. }
    rewrite Hsz. assert (Hf : firstn (N.to_nat sz) s1 = s1) by (rewrite <- Hs1; apply firstn_all). rewrite Hf.
    eexists. split; [reflexivity|]. split.
    { unfold wrote, emit. cbn [out set_blob set_warn]. rewrite !rev_append_rev, rev_app_distr, app_assoc. reflexivity. }
    split.
    - eapply store_ext_via; [|apply (inv_ext _ _ _ _ HI)]. intros n.
      eapply same_name_trans; [apply same_name_emit|]. eapply same_name_trans; [apply same_name_emit|].
      eapply same_name_trans; [apply same_name_warn|]. apply set_blob_same. exact Hk.
    - apply (inv_locals_same _ _ _ _ _ _ HI); reflexivity.
  Qed.

  Lemma wi_cstr f idx W L :
    idx_locals_ok L idx = true -> readable Wtot W (WBlob f) = true -> wi_ok (SCStr f idx) W L W L.
  Proof.
    intros Hidx Hr. apply wi_leaf0. intros t1 t1' H. cbn [exec] in H. cbv zeta in H. rewrite key_of_key in H. unfold key in H.
    set (s0 := get_blob t1 (enc_key f (eval_idx t1 idx))) in *.
    injection H as <-.
    split; [intros n; destruct n; intro; reflexivity|].
    exists (s0 ++ [0]). split.
    { unfold wrote. cbn [out]. rewrite rev_append_rev, rev_app_distr. reflexivity. }
    intros t2 HI. cbn [exec]. cbv zeta. rewrite key_of_key. unfold key. rewrite <- (inv_eval_idx _ _ _ _ _ HI Hidx).
    assert (Hb : get_blob t2 (enc_key f (eval_idx t1 idx)) = s0).
    { symmetry. apply (inv_read _ _ _ _ (WBlob f) HI Hr). }
    rewrite Hb. eexists. split; [reflexivity|]. split.
    { unfold wrote. cbn [out]. rewrite rev_append_rev, rev_app_distr. reflexivity. }
    split.
    - eapply store_ext_via; [|apply (inv_ext _ _ _ _ HI)]. intros n; destruct n; intro; reflexivity.
    - apply (inv_locals_same _ _ _ _ _ _ HI); reflexivity.
  Qed.

  (* ---- NiVector size: clamp to what the size type can express, write it, hand it on through a local ---- *)
  Definition clampN (w n : N) : N := if (0 <? n) && (2 ^ (8 * w) - 2 <? n - 1) then 2 ^ (8 * w) - 2 + 1 else n.
  Lemma clampN_idem w n : clampN w (clampN w n) = clampN w n.
  Proof.
    unfold clampN. destruct ((0 <? n) && (2 ^ (8 * w) - 2 <? n - 1))%bool eqn:E; [|rewrite E; reflexivity].
    replace (2 ^ (8 * w) - 2 <? 2 ^ (8 * w) - 2 + 1 - 1) with false; [rewrite andb_false_r; reflexivity|].
    symmetry. apply N.ltb_ge. lia.
  Qed.

  Lemma wi_vecsize f idx w x W L :
    idx_locals_ok L idx = true -> writable Wtot W (WSize f) = true ->
    wi_ok (SVecSize f idx w x) W L (WSize f :: W) (x :: L).
  Proof.
    intros Hidx Hw. apply wi_leaf; [exact Hw|].
    intros t1 t1' H. cbn [exec] in H. cbv zeta in H. rewrite key_of_key in H. unfold key in H.
    set (k := enc_key f (eval_idx t1 idx)) in *.
    fold (clampN w (get_size t1 k)) in H.
    set (n1 := clampN w (get_size t1 k)) in *.
    assert (t1' = set_local (emit (set_size t1 k n1) (le_bytes (N.to_nat w) (wrapZ w false (Z.of_N n1)))) x (wrapZ w false (Z.of_N n1))) by congruence.
    subst t1'. clear H.
    split.
    { intros n Hn. eapply same_name_trans; [apply same_name_local|]. eapply same_name_trans; [apply same_name_emit|].
      apply set_size_other. exact Hn. }
    exists (le_bytes (N.to_nat w) (wrapZ w false (Z.of_N n1))). split.
    { unfold wrote, emit. cbn [out set_size set_local]. rewrite rev_append_rev. reflexivity. }
    intros t2 HI Hh. cbn [exec]. cbv zeta. rewrite key_of_key. unfold key.
    rewrite <- (inv_eval_idx _ _ _ _ _ HI Hidx). fold k.
    fold (clampN w (get_size t2 k)).
    assert (Hk : get_size t2 k = n1).
    { unfold k. rewrite (inv_ext _ _ _ _ HI (WSize f) _), <- (Hh _).
      change (get_size (set_local (emit ?a ?c) ?y ?z) ?kk) with (get_size a kk). rewrite get_set_size, skey_eqb_refl. reflexivity. }
    rewrite Hk. unfold n1 at 1 2 3 4. rewrite clampN_idem. fold n1.
    eexists. split; [reflexivity|]. split.
    { unfold wrote, emit. cbn [out set_size set_local]. rewrite rev_append_rev. reflexivity. }
    split.
    - eapply store_ext_via; [|apply (inv_ext _ _ _ _ HI)]. intros n.
      eapply same_name_trans; [apply same_name_local|]. eapply same_name_trans; [apply same_name_emit|].
      apply set_size_same. exact Hk.
    - intros y Hy. rewrite !get_set_local. rewrite lmem_cons in Hy. destruct (y =? x); [reflexivity|].
      change (get_local (emit (set_size ?a ?kk ?nn) ?b) y) with (get_local a y). apply (inv_loc _ _ _ _ HI y Hy).
  Qed.

  (* ---- soundness of the check ---- *)
  Theorem wchk_sound : forall s W L W' L', wchk Wtot v s W L = Some (W', L') -> wi_ok s W L W' L'.
  Proof.
    induction s; intros W L W' L' H; cbn [wchk] in H; try discriminate.
    - inversion H; subst. apply wi_skip.
    - destruct (wchk Wtot v s1 W L) as [[W1 L1]|] eqn:E1; [|discriminate]. eapply wi_seq; eauto.
    - destruct (ver_only v c) as [z|] eqn:Ev.
      + eapply wi_if_ver; [exact Ev|]. destruct (Z.eqb z 0); auto.
      + destruct (wreads_ok Wtot W L c) eqn:Ec; [|discriminate].
        destruct (wchk Wtot v s1 W L) as [[W1 L1]|] eqn:E1; [|discriminate].
        destruct (wchk Wtot v s2 W L) as [[W2 L2]|] eqn:E2; [|discriminate].
        inversion H; subst. apply wi_if_dyn; auto.
    - (* SSync *)
      destruct (idx_locals_ok L idx && writable Wtot W (WInt f))%bool eqn:E; [|discriminate]. inversion H; subst.
      apply andb_prop in E. destruct E as [E1 E2].
      apply (wi_sync_gen (SSync f idx p) f idx p (prim_width p) false _ _ E1 E2). intros st. reflexivity.
    - (* SSyncLocal *)
      destruct (lmem x L) eqn:E; [|discriminate]. inversion H; subst. apply wi_synclocal. exact E.
    - (* SSyncPart *)
      destruct (idx_locals_ok L idx && writable Wtot W (WInt f))%bool eqn:E; [|discriminate]. inversion H; subst.
      apply andb_prop in E. destruct E as [E1 E2].
      apply (wi_sync_gen (SSyncPart f idx p k) f idx p k false _ _ E1 E2). intros st. reflexivity.
    - (* SBytes *)
      destruct (idx_locals_ok L idx && writable Wtot W (WBlob f) && wreads_ok Wtot W L n)%bool eqn:E; [|discriminate]. inversion H; subst.
      apply andb_prop in E. destruct E as [E E3]. apply andb_prop in E. destruct E as [E1 E2]. apply wi_bytes; assumption.
    - (* SBytesVec *)
      destruct (idx_locals_ok L idx && writable Wtot W (WBlob f) && readable Wtot W (WSize f))%bool eqn:E; [|discriminate]. inversion H; subst.
      apply andb_prop in E. destruct E as [E E3]. apply andb_prop in E. destruct E as [E1 E2]. apply wi_bytesvec; assumption.
    - (* SHalf *)
      destruct (idx_locals_ok L idx && writable Wtot W (WInt f))%bool eqn:E; [|discriminate]. inversion H; subst.
      apply andb_prop in E. destruct E as [E1 E2].
      apply (wi_sync_gen (SHalf f idx) f idx (PInt false 2) 2 false _ _ E1 E2). intros st. reflexivity.
    - (* SNiString *)
      destruct (idx_locals_ok L idx && writable Wtot W (WBlob f))%bool eqn:E; [|discriminate]. inversion H; subst.
      apply andb_prop in E. destruct E as [E1 E2]. apply wi_nistring; assumption.
    - (* SStrRef *)
      destruct (Z.ltb (vfile v) V20_1_0_3) eqn:Ev.
      + destruct (idx_locals_ok L idx && writable Wtot W (WBlob fstr))%bool eqn:E; [|discriminate]. inversion H; subst.
        apply andb_prop in E. destruct E as [E1 E2]. apply wi_strref_old; assumption.
      + destruct (idx_locals_ok L idx && writable Wtot W (WInt findex))%bool eqn:E; [|discriminate]. inversion H; subst.
        apply andb_prop in E. destruct E as [E1 E2].
        apply (wi_sync_gen (SStrRef fstr findex idx) findex idx u32 4 true _ _ E1 E2).
        intros st. cbn [exec]. rewrite Ev. cbv zeta. unfold maybe_log. rewrite sync_int_log_ref, key_of_key. reflexivity.
    - (* SCStr *)
      destruct (idx_locals_ok L idx && readable Wtot W (WBlob f))%bool eqn:E; [|discriminate]. inversion H; subst.
      apply andb_prop in E. destruct E as [E1 E2]. apply wi_cstr; assumption.
    - (* SRef *)
      destruct (idx_locals_ok L idx && writable Wtot W (WInt f))%bool eqn:E; [|discriminate]. inversion H; subst.
      apply andb_prop in E. destruct E as [E1 E2].
      apply (wi_sync_gen (SRef f idx) f idx u32 4 true _ _ E1 E2).
      intros st. cbn [exec]. cbv zeta. unfold maybe_log. rewrite sync_int_log_ref, key_of_key. reflexivity.
    - (* SVecSize *)
      destruct (idx_locals_ok L idx && writable Wtot W (WSize f))%bool eqn:E; [|discriminate]. inversion H; subst.
      apply andb_prop in E. destruct E as [E1 E2]. apply wi_vecsize; assumption.
    - (* SResize *)
      destruct (idx_locals_ok L idx && writable Wtot W (WSize f) && wreads_ok Wtot W L n)%bool eqn:E; [|discriminate]. inversion H; subst.
      apply andb_prop in E. destruct E as [E E3]. apply andb_prop in E. destruct E as [E1 E2]. apply wi_resize; assumption.
    - (* SLocal *)
      destruct (wreads_ok Wtot W L e) eqn:E; [|discriminate]. inversion H; subst. apply wi_local. exact E.
    - (* SAssign *)
      destruct (idx_locals_ok L idx && writable Wtot W (WInt f) && wreads_ok Wtot W L e)%bool eqn:E; [|discriminate]. inversion H; subst.
      apply andb_prop in E. destruct E as [E E3]. apply andb_prop in E. destruct E as [E1 E2]. apply wi_assign; assumption.
  Qed.

  (* what the check adds to W was declared in Wtot *)
  Lemma wchk_sub : forall s W L W' L', wchk Wtot v s W L = Some (W', L') ->
    forall a, wmem a W' = true -> wmem a W = true \/ wmem a Wtot = true.
  Proof.
    assert (Hc : forall tgt W a, writable Wtot W tgt = true -> wmem a (tgt :: W) = true -> wmem a W = true \/ wmem a Wtot = true).
    { intros tgt W a Hw Ha. rewrite wmem_cons in Ha. apply orb_prop in Ha. destruct Ha as [Ha|Ha]; [|left; exact Ha].
      apply wn_eqb_eq in Ha. subst a. right. unfold writable in Hw. apply andb_prop in Hw. apply Hw. }
    induction s; intros W L W' L' H a Ha; cbn [wchk] in H; try discriminate;
      repeat match type of H with
             | (if ?b then _ else _) = Some _ => let E := fresh "E" in destruct b eqn:E; try discriminate
             end;
      try (inversion H; subst; auto; fail);
      try (inversion H; subst;
           repeat match goal with E : (_ && _)%bool = true |- _ => apply andb_prop in E; destruct E end;
           eapply Hc; eauto; fail).
    - destruct (wchk Wtot v s1 W L) as [[W1 L1]|] eqn:E1; [|discriminate].
      destruct (IHs2 _ _ _ _ H a Ha) as [H1|H1]; [|right; exact H1]. eapply IHs1; eauto.
    - destruct (ver_only v c) as [z|] eqn:Ev.
      + destruct (Z.eqb z 0); eauto.
      + destruct (wreads_ok Wtot W L c); [|discriminate].
        destruct (wchk Wtot v s1 W L) as [[W1 L1]|] eqn:E1; [|discriminate].
        destruct (wchk Wtot v s2 W L) as [[W2 L2]|] eqn:E2; [|discriminate].
        inversion H; subst. rewrite wmem_wunion in Ha. apply orb_prop in Ha. destruct Ha; eauto.
  Qed.
End Wi.

(* ---- the theorem: a second write of what the first write left behind ---- *)
Theorem write_idem v hs s W' L' :
  wchk (targets s) v s [] [] = Some (W', L') ->
  forall o o1, exec Wr v hs s o = Ok o1 ->
  exists bytes, out o1 = rev bytes ++ out o /\
    exists o2, exec Wr v hs s o1 = Ok o2 /\ out o2 = rev bytes ++ out o1 /\ store_ext o2 o1.
Proof.
  intros Hc o o1 Hx.
  destruct (wchk_sound v hs (targets s) o1 s [] [] W' L' Hc) as [M Hs].
  destruct (Hs o o1 Hx) as (F & bytes & Wx & R).
  exists bytes. split; [exact Wx|].
  destruct (R o1) as (o2 & X & W2 & I2).
  - constructor.
    + intros n. apply same_name_refl.
    + intros n Hr. unfold readable in Hr. cbn [wmem existsb orb] in Hr. apply negb_true_iff in Hr.
      apply same_name_sym. apply F. left.
      destruct (wmem n W') eqn:E; [|reflexivity].
      destruct (wchk_sub v (targets s) s [] [] W' L' Hc n E) as [E1|E1]; [discriminate|congruence].
    + intros x Hx'. discriminate.
  - intros n _ _. apply same_name_refl.
  - exists o2. split; [exact X|]. split; [exact W2|]. apply (inv_ext _ _ _ _ _ _ I2).
Qed.

Theorem block_write_idem v hs b :
  wchk_block v b = true ->
  forall o o1, exec Wr v hs (snd b) o = Ok o1 ->
  exists bytes, out o1 = rev bytes ++ out o /\
    exists o2, exec Wr v hs (snd b) o1 = Ok o2 /\ out o2 = rev bytes ++ out o1 /\ store_ext o2 o1.
Proof.
  unfold wchk_block. destruct (wchk (targets (snd b)) v (snd b) [] []) as [[W' L']|] eqn:E; [|discriminate].
  intros _. exact (write_idem v hs (snd b) W' L' E).
Qed.
