(* Write-idempotence discipline for SyncIR programs (definitions; soundness in WiProofs.v).
   Run a program in write mode on an object, giving bytes e and the object o1 as the write left it
   (scalars stored back in range, vectors clamped, empty references removed, strings cut). Run it again on o1.
   The second run emits e again and leaves every field of o1 as it is, provided
     - every field NAME is modified by at most one statement on every path (write-once), and
     - every value that a condition, a count, an index or a right-hand side reads is either never
       modified by the program or was modified earlier on the path (it already has its final value).
   [wchk] checks this statically for the loop-free fragment (loops are rejected for now: two iterations
   write the same field name at different indices, which needs the injectivity of the index encoding). *)
From NiflyVerif Require Import IR Exec IREq Refs RtDefs.
Local Open Scope N_scope.

Inductive wn := WInt (f : name) | WSize (f : name) | WBlob (f : name).

Definition wn_eqb (a b : wn) : bool :=
  match a, b with
  | WInt f, WInt g | WSize f, WSize g | WBlob f, WBlob g => f =? g
  | _, _ => false
  end.
Definition wmem (a : wn) (W : list wn) : bool := existsb (wn_eqb a) W.
Definition lmem (x : lvar) (L : list lvar) : bool := existsb (N.eqb x) L.
Definition wunion (W1 W2 : list wn) : list wn := W1 ++ filter (fun a => negb (wmem a W1)) W2.
Definition linter (L1 L2 : list lvar) : list lvar := filter (fun x => lmem x L2) L1.

Section Chk.
  Variable Wtot : list wn.      (* every field name the program may modify *)

  (* the name has its final value: modified earlier on this path, or never modified at all *)
  Definition readable (W : list wn) (a : wn) : bool := wmem a W || negb (wmem a Wtot).
  (* the statement may modify it: declared, and not modified before *)
  Definition writable (W : list wn) (a : wn) : bool := wmem a Wtot && negb (wmem a W).

  Definition idx_locals_ok (L : list lvar) (idx : list iexpr) : bool :=
    forallb (fun i => match i with IConst _ => true | ILocal x => lmem x L end) idx.

  Fixpoint wreads_ok (W : list wn) (L : list lvar) (e : expr) : bool :=
    match e with
    | EConst _ | EVer _ | EMode => true          (* both runs are write runs *)
    | ELoad f idx | EHdrStrEmpty f idx => readable W (WInt f) && idx_locals_ok L idx
    | ESize f idx => readable W (WSize f) && idx_locals_ok L idx
    | EStrLen f idx => readable W (WBlob f) && idx_locals_ok L idx
    | ELocal x => lmem x L
    | EBin _ a b => wreads_ok W L a && wreads_ok W L b
    | EUn _ a => wreads_ok W L a
    | ECast _ _ a => wreads_ok W L a
    | ECond c a b => wreads_ok W L c && wreads_ok W L a && wreads_ok W L b
    | EOpaque => false
    end.

  Fixpoint wchk (v : version) (s : stmt) (W : list wn) (L : list lvar) : option (list wn * list lvar) :=
    match s with
    | SSkip => Some (W, L)
    | SSeq a b => match wchk v a W L with Some (W1, L1) => wchk v b W1 L1 | None => None end
    | SIf c t e =>
      match ver_only v c with
      | Some z => if Z.eqb z 0 then wchk v e W L else wchk v t W L
      | None =>
        if wreads_ok W L c then
          match wchk v t W L, wchk v e W L with
          | Some (W1, L1), Some (W2, L2) => Some (wunion W1 W2, linter L1 L2)
          | _, _ => None
          end
        else None
      end
    | SSync f idx _ | SSyncPart f idx _ _ | SHalf f idx | SRef f idx =>
      if idx_locals_ok L idx && writable W (WInt f) then Some (WInt f :: W, L) else None
    | SAssign f idx _ e =>
      if idx_locals_ok L idx && writable W (WInt f) && wreads_ok W L e then Some (WInt f :: W, L) else None
    | SStrRef fstr findex idx =>
      if Z.ltb (vfile v) V20_1_0_3
      then (if idx_locals_ok L idx && writable W (WBlob fstr) then Some (WBlob fstr :: W, L) else None)
      else (if idx_locals_ok L idx && writable W (WInt findex) then Some (WInt findex :: W, L) else None)
    | SSyncLocal x _ => if lmem x L then Some (W, L) else None
    | SBytes f idx n =>
      if idx_locals_ok L idx && writable W (WBlob f) && wreads_ok W L n then Some (WBlob f :: W, L) else None
    | SBytesVec f idx =>
      if idx_locals_ok L idx && writable W (WBlob f) && readable W (WSize f) then Some (WBlob f :: W, L) else None
    | SNiString f idx _ =>
      if idx_locals_ok L idx && writable W (WBlob f) then Some (WBlob f :: W, L) else None
    | SCStr f idx => if idx_locals_ok L idx && readable W (WBlob f) then Some (W, L) else None
    | SResize f idx n =>
      if idx_locals_ok L idx && writable W (WSize f) && wreads_ok W L n then Some (WSize f :: W, L) else None
    | SVecSize f idx _ x =>
      if idx_locals_ok L idx && writable W (WSize f) then Some (WSize f :: W, x :: L) else None
    | SLocal x _ e => if wreads_ok W L e then Some (W, x :: L) else None
    | _ => None          (* SFor, SRefArrHead, SCleanRefs, SOpaque: not covered yet *)
    end.
End Chk.

(* every name a statement may modify (syntactic over-approximation, all versions) *)
Fixpoint targets (s : stmt) : list wn :=
  match s with
  | SSeq a b => targets a ++ targets b
  | SIf _ t e => targets t ++ targets e
  | SSync f _ _ | SSyncPart f _ _ _ | SHalf f _ | SRef f _ | SAssign f _ _ _ => [WInt f]
  | SStrRef fstr findex _ => [WBlob fstr; WInt findex]
  | SBytes f _ _ | SBytesVec f _ | SNiString f _ _ => [WBlob f]
  | SResize f _ _ | SVecSize f _ _ _ => [WSize f]
  | SRefArrHead fsize _ frefs fidx _ _ | SCleanRefs fsize _ frefs fidx _ => [WInt fsize; WSize frefs; WInt fidx]
  | SFor _ _ b => targets b
  | _ => []
  end.

(* the Sync chain of a block (the constructor part is not run again by a second save) *)
Definition wchk_block (v : version) (b : stmt * stmt) : bool :=
  match wchk (targets (snd b)) v (snd b) [] [] with Some _ => true | None => false end.
