(* The SyncIR interpreter: one program, two stream modes.
   Reading follows std::istream: a short read delivers the available prefix, sets eof, and every
   later read is a no-op. Division by zero and EOpaque are Fault. *)
From NiflyVerif Require Export IR.
From Coq Require Import FMapPositive.
Local Open Scope N_scope.

Inductive mode := Rd | Wr.

(* ---- keys: a field name and the current values of its indices, encoded injectively ---- *)
Fixpoint enc_p (p acc : positive) : positive :=
  match p with
  | xH => (acc~0~1)%positive
  | xO q => enc_p q (acc~1~0)%positive
  | xI q => enc_p q (acc~1~1)%positive
  end.
Definition enc_n (n : N) (acc : positive) : positive :=
  match n with N0 => (acc~0~0)%positive | Npos p => enc_p p acc end.
(* a key = (field name, encoded index vector): the stores are two-level maps, so that instances of
   different field names can never collide *)
Definition skey := (positive * positive)%type.
Definition skey_eqb (a b : skey) : bool := Pos.eqb (fst a) (fst b) && Pos.eqb (snd a) (snd b).
Definition enc_key (f : name) (idx : list N) : skey :=
  (N.succ_pos f, fold_left (fun acc n => enc_n n acc) idx xH).

Module PM := PositiveMap.

Record state := mkState {
  ints   : PM.t (PM.t Z);        (* scalar fields: name -> index vector -> value *)
  blobs  : PM.t (PM.t (list N)); (* strings and raw memory *)
  sizes  : PM.t (PM.t N);        (* element counts of container fields *)
  locals : list (lvar * Z);
  inp    : list N;               (* unread input *)
  remaining : N;                 (* = length inp, kept to avoid recounting *)
  eof    : bool;                 (* the stream has failed: reads are no-ops *)
  out    : list N;               (* output, most recent byte first *)
  trace  : list N;               (* size of every primitive transfer, most recent first *)
  reflog : list skey;        (* keys of the block-reference / string-index fields that passed through Sync *)
  warn   : bool                  (* model-only: an inline string of 2049 bytes or more was written (old versions);
                                    the reader cannot take it back. Never reset. *)
}.

Definition empty_state (input : list N) : state :=
  mkState (PM.empty _) (PM.empty _) (PM.empty _) [] input (N.of_nat (length input)) false [] [] [] false.

Definition find2 {A} (m : PM.t (PM.t A)) (k : skey) : option A :=
  match PM.find (fst k) m with Some inner => PM.find (snd k) inner | None => None end.
Definition add2 {A} (m : PM.t (PM.t A)) (k : skey) (a : A) : PM.t (PM.t A) :=
  PM.add (fst k) (PM.add (snd k) a (match PM.find (fst k) m with Some inner => inner | None => PM.empty A end)) m.

Definition get_int (st : state) (k : skey) : Z := match find2 (ints st) k with Some z => z | None => 0%Z end.
Definition get_blob (st : state) (k : skey) : list N := match find2 (blobs st) k with Some b => b | None => [] end.
Definition get_size (st : state) (k : skey) : N := match find2 (sizes st) k with Some n => n | None => 0 end.
Definition set_int (st : state) (k : skey) (z : Z) : state :=
  mkState (add2 (ints st) k z) (blobs st) (sizes st) (locals st) (inp st) (remaining st) (eof st) (out st) (trace st) (reflog st) (warn st).
Definition set_blob (st : state) (k : skey) (b : list N) : state :=
  mkState (ints st) (add2 (blobs st) k b) (sizes st) (locals st) (inp st) (remaining st) (eof st) (out st) (trace st) (reflog st) (warn st).
Definition set_size (st : state) (k : skey) (n : N) : state :=
  mkState (ints st) (blobs st) (add2 (sizes st) k n) (locals st) (inp st) (remaining st) (eof st) (out st) (trace st) (reflog st) (warn st).

Definition log_ref (st : state) (k : skey) : state :=
  mkState (ints st) (blobs st) (sizes st) (locals st) (inp st) (remaining st) (eof st) (out st) (trace st) (k :: reflog st) (warn st).

Fixpoint assoc_get (l : list (lvar * Z)) (x : lvar) : Z :=
  match l with [] => 0%Z | (y, v) :: r => if x =? y then v else assoc_get r x end.
Fixpoint assoc_set (l : list (lvar * Z)) (x : lvar) (v : Z) : list (lvar * Z) :=
  match l with [] => [(x, v)] | (y, w) :: r => if x =? y then (x, v) :: r else (y, w) :: assoc_set r x v end.
Definition get_local (st : state) (x : lvar) : Z := assoc_get (locals st) x.
Definition set_local (st : state) (x : lvar) (v : Z) : state :=
  mkState (ints st) (blobs st) (sizes st) (assoc_set (locals st) x v) (inp st) (remaining st) (eof st) (out st) (trace st) (reflog st) (warn st).

(* ---- bytes ---- *)
Fixpoint le_bytes (w : nat) (z : Z) : list N :=
  match w with O => [] | S w' => Z.to_N (Z.modulo z 256) :: le_bytes w' (Z.div z 256) end.
Fixpoint of_le_bytes (l : list N) : Z :=
  match l with [] => 0%Z | b :: r => (Z.of_N b + 256 * of_le_bytes r)%Z end.

Definition wrapZ (w : N) (signed : bool) (z : Z) : Z :=
  let m := Z.pow 2 (8 * Z.of_N w) in
  let u := Z.modulo z m in
  if signed then (if Z.ltb u (Z.div m 2) then u else u - m)%Z else u.

Definition prim_signed (p : prim) : bool := match p with PInt s _ => s | _ => false end.
Definition decode (p : prim) (bytes : list N) : Z := wrapZ (prim_width p) (prim_signed p) (of_le_bytes bytes).
Definition encode (p : prim) (z : Z) : list N := le_bytes (N.to_nat (prim_width p)) z.

Definition set_warn (st : state) (b : bool) : state :=
  mkState (ints st) (blobs st) (sizes st) (locals st) (inp st) (remaining st) (eof st) (out st) (trace st) (reflog st)
          (warn st || b).

(* stream primitives: every one of them is one entry of the trace, as in the C++ hook *)
Definition emit (st : state) (b : list N) : state :=
  mkState (ints st) (blobs st) (sizes st) (locals st) (inp st) (remaining st) (eof st)
          (rev_append b (out st)) (N.of_nat (length b) :: trace st) (reflog st) (warn st).

(* read k bytes: the bytes delivered (all k, or the available prefix, or none after a failure) *)
Definition read (st : state) (k : N) : list N * state :=
  if eof st then ([], mkState (ints st) (blobs st) (sizes st) (locals st) (inp st) (remaining st) true (out st) (k :: trace st) (reflog st) (warn st))
  else if k <=? remaining st then
    (firstn (N.to_nat k) (inp st),
     mkState (ints st) (blobs st) (sizes st) (locals st) (skipn (N.to_nat k) (inp st)) (remaining st - k) false (out st) (k :: trace st) (reflog st) (warn st))
  else
    (inp st, mkState (ints st) (blobs st) (sizes st) (locals st) [] 0 true (out st) (k :: trace st) (reflog st) (warn st)).

(* overwrite the first bytes of [old] (padded with zeros to n) with what was read *)
Definition overlay (n : nat) (got old : list N) : list N :=
  let base := firstn n (old ++ repeat 0 n) in
  firstn n (got ++ skipn (length got) base).

Fixpoint take_until_nul (l : list N) : list N :=
  match l with [] => [] | b :: r => if b =? 0 then [] else b :: take_until_nul r end.

(* ---- expressions ---- *)
Section Eval.
  Variable m : mode.
  Variable v : version.
  Variable hdr_str_empty : Z -> bool.    (* is header string number i empty? (external: the header's string table) *)

  Definition bool_z (b : bool) : Z := if b then 1%Z else 0%Z.

  Definition eval_bin (o : binop) (a b : Z) : res Z :=
    match o with
    | Oadd => Ok (a + b)%Z | Osub => Ok (a - b)%Z | Omul => Ok (a * b)%Z
    | Odiv => if Z.eqb b 0 then Fault else Ok (Z.quot a b)
    | Omod => if Z.eqb b 0 then Fault else Ok (Z.rem a b)
    | Olt => Ok (bool_z (Z.ltb a b)) | Ogt => Ok (bool_z (Z.ltb b a))
    | Ole => Ok (bool_z (Z.leb a b)) | Oge => Ok (bool_z (Z.leb b a))
    | Oeq => Ok (bool_z (Z.eqb a b)) | One => Ok (bool_z (negb (Z.eqb a b)))
    | Oand => Ok (bool_z (negb (Z.eqb a 0) && negb (Z.eqb b 0)))
    | Oor => Ok (bool_z (negb (Z.eqb a 0) || negb (Z.eqb b 0)))
    | Oband => Ok (Z.land a b) | Obor => Ok (Z.lor a b) | Obxor => Ok (Z.lxor a b)
    | Oshl => Ok (Z.shiftl a b) | Oshr => Ok (Z.shiftr a b)
    | Omin => Ok (Z.min a b) | Omax => Ok (Z.max a b)
    end.

  Definition eval_i (st : state) (i : iexpr) : N :=
    match i with IConst n => n | ILocal x => Z.to_N (get_local st x) end.
  Definition eval_idx (st : state) (l : list iexpr) : list N := map (eval_i st) l.

  Fixpoint eval (st : state) (e : expr) : res Z :=
    match e with
    | EConst z => Ok z
    | ELoad f idx => Ok (get_int st (enc_key f (eval_idx st idx)))
    | ESize f idx => Ok (Z.of_N (get_size st (enc_key f (eval_idx st idx))))
    | EStrLen f idx => Ok (Z.of_nat (length (get_blob st (enc_key f (eval_idx st idx)))))
    | ELocal x => Ok (get_local st x)
    | EVer VFile => Ok (vfile v) | EVer VUser => Ok (vuser v) | EVer VStream => Ok (vstream v)
    | EBin Oand a b => bind (eval st a) (fun x => if Z.eqb x 0 then Ok 0%Z else bind (eval st b) (fun y => Ok (bool_z (negb (Z.eqb y 0)))))
    | EBin Oor a b => bind (eval st a) (fun x => if Z.eqb x 0 then bind (eval st b) (fun y => Ok (bool_z (negb (Z.eqb y 0)))) else Ok 1%Z)
    | EBin o a b => bind (eval st a) (fun x => bind (eval st b) (fun y => eval_bin o x y))
    | EUn Onot a => bind (eval st a) (fun x => Ok (bool_z (Z.eqb x 0)))
    | EUn Oneg a => bind (eval st a) (fun x => Ok (- x)%Z)
    | EUn Obnot a => bind (eval st a) (fun x => Ok (Z.lnot x))
    | ECast w s a => bind (eval st a) (fun x => Ok (wrapZ w s x))
    | ECond c a b => bind (eval st c) (fun x => if Z.eqb x 0 then eval st b else eval st a)
    | EMode => Ok (match m with Rd => 0%Z | Wr => 1%Z end)
    | EHdrStrEmpty f idx => Ok (bool_z (hdr_str_empty (get_int st (enc_key f (eval_idx st idx)))))
    | EOpaque => Fault
    end.

  Definition key_of (st : state) (f : name) (idx : list iexpr) : skey := enc_key f (eval_idx st idx).

  (* sync of a scalar living at integer key k *)
  Definition sync_int (st : state) (k : skey) (p : prim) (nbytes : N) : state :=
    match m with
    | Wr =>
      (* the member has the C type of p: its value is always in range. The model makes that explicit by
         storing back what was written (the identity on in-range values). *)
      let e := encode p (get_int st k) in
      let st1 := if nbytes =? prim_width p then set_int st k (decode p e) else st in
      emit st1 (firstn (N.to_nat nbytes) e)
    | Rd =>
      let '(got, st1) := read st nbytes in
      if (length got =? 0)%nat then st1
      else
        let old := encode p (get_int st k) in
        set_int st1 k (decode p (overlay (N.to_nat (prim_width p)) got old))
    end.

  Definition sync_blob (st : state) (k : skey) (n : N) : state :=
    match m with
    | Wr =>
      (* raw memory of exactly n bytes *)
      let b := firstn (N.to_nat n) (get_blob st k ++ repeat 0 (N.to_nat n)) in
      emit (set_blob st k b) b
    | Rd =>
      let '(got, st1) := read st n in
      set_blob st1 k (overlay (N.to_nat n) got (get_blob st k))
    end.

  Definition NPOSZ : Z := 4294967295%Z.
  Definition u32 : prim := PInt false 4.

  (* remove the empty references of a NiBlockRefArray (CleanInvalidRefs) *)
  Fixpoint compact_refs (fuel : nat) (st : state) (fidx : name) (i : list N) (src dst n : N) : state :=
    match fuel with
    | O => st
    | S f =>
      if src <? n then
        let vsrc := get_int st (enc_key fidx (i ++ [src])) in
        (* IsEmpty() compares the uint32_t member: the value as the member's type holds it *)
        if Z.eqb (wrapZ 4 false vsrc) NPOSZ then compact_refs f st fidx i (src + 1) dst n
        else compact_refs f (set_int st (enc_key fidx (i ++ [dst])) vsrc) fidx i (src + 1) (dst + 1) n
      else set_local st 0 (Z.of_N dst)       (* result count is handed back through local 0 *)
    end.

  Definition clean_refs (st : state) (fsize fkeep frefs fidx : name) (i : list N) : state :=
    if Z.eqb (get_int st (enc_key fkeep i)) 0 then
      let n := get_size st (enc_key frefs i) in
      let st1 := compact_refs (S (N.to_nat n)) st fidx i 0 0 n in
      let cnt := Z.to_N (get_local st1 0) in
      set_int (set_size st1 (enc_key frefs i) cnt) (enc_key fsize i) (Z.of_N cnt)
    else st.

  (* sequential iteration with the loop variable bound to 0 .. n-1; stops at the first fault *)
  Definition iter_loop (body : state -> res state) (x : lvar) (n : N) (st : state) : res state :=
    bind (N.iter n (fun acc => bind acc (fun p => let '(i, s) := p in
                      bind (body (set_local s x (Z.of_N i))) (fun s' => Ok (i + 1, s'))))
                 (Ok (0, st)))
         (fun p => Ok (snd p)).

  Fixpoint exec (s : stmt) (st : state) : res state :=
    match s with
    | SSkip => Ok st
    | SSeq a b => bind (exec a st) (exec b)
    | SIf c t e => bind (eval st c) (fun z => if Z.eqb z 0 then exec e st else exec t st)
    | SSync f idx p => (let k := key_of st f idx in Ok (sync_int st k p (prim_width p)))
    | SSyncPart f idx p n => (let k := key_of st f idx in Ok (sync_int st k p n))
    | SSyncLocal x p =>
      match m with
      | Wr => (* a C local of the type of p: always in range; made explicit by storing back what was written *)
              let e := encode p (get_local st x) in Ok (set_local (emit st e) x (decode p e))
      | Rd => let '(got, st1) := read st (prim_width p) in
              if (length got =? 0)%nat then Ok st1
              else Ok (set_local st1 x (decode p (overlay (N.to_nat (prim_width p)) got (encode p (get_local st x)))))
      end
    | SBytes f idx n =>
      (let k := key_of st f idx in bind (eval st n) (fun z => Ok (sync_blob st k (Z.to_N z))))
    | SBytesVec f idx =>
      (let k := key_of st f idx in
        let n := get_size st k in if n =? 0 then Ok st else Ok (sync_blob st k n))
    | SHalf f idx => (let k := key_of st f idx in Ok (sync_int st k (PInt false 2) 2))
    | SNiString f idx w =>
      (let k := key_of st f idx in
        match m with
        | Wr =>
          (* the string is cut in place to the longest one the size prefix can express (2^(8w)-1 bytes;
             block strings never ask for a terminating NUL), then size and bytes are written *)
          let s0 := get_blob st k in
          let sz := N.min (N.of_nat (length s0)) (2 ^ (8 * w) - 1) in
          let s1 := firstn (N.to_nat sz) s0 in
          let st1 := set_blob st k s1 in
          Ok (emit (emit st1 (le_bytes (N.to_nat w) (Z.of_N sz))) s1)
        | Rd =>
          let '(lb, st1) := read st w in
          let sz := Z.to_N (of_le_bytes (overlay (N.to_nat w) lb [])) in
          let '(got, st2) := read st1 sz in
          (* buf[sz] = 0; str = buf.get(): a C-string assignment, cut at the first NUL *)
          Ok (set_blob st2 k (take_until_nul (overlay (N.to_nat sz) got [])))
        end)
    | SStrRef fstr findex idx =>
      if Z.ltb (vfile v) V20_1_0_3 then
        (let k := key_of st fstr idx in
          match m with
          | Wr =>
            let s0 := get_blob st k in
            let sz := Z.to_N (wrapZ 4 false (Z.of_nat (length s0))) in
            let s1 := firstn (N.to_nat sz) s0 in
            (* model-only flag: NiStringRef::Read takes at most 2048 bytes back *)
            Ok (emit (emit (set_warn (set_blob st k s1) (2049 <=? sz)) (le_bytes 4 (Z.of_N sz))) s1)
          | Rd =>
            let '(lb, st1) := read st 4 in
            let sz := Z.to_N (of_le_bytes (overlay 4 lb [])) in
            if sz <? 2049 then
              let '(got, st2) := read st1 sz in
              Ok (set_blob st2 k (take_until_nul (overlay (N.to_nat sz) got [])))
            else Ok (set_blob st1 k [])       (* buf is zero-initialised and nothing is read *)
          end)
      else (let k := key_of st findex idx in Ok (sync_int (log_ref st k) k u32 4))
    | SCStr f idx =>
      (let k := key_of st f idx in
        match m with
        | Wr => let s0 := get_blob st k in
                Ok (mkState (ints st) (blobs st) (sizes st) (locals st) (inp st) (remaining st) (eof st)
                            (0 :: rev_append s0 (out st)) (N.of_nat (length s0) + 1 :: trace st) (reflog st) (warn st))
        | Rd =>
          if eof st then Ok st
          else
            let s0 := take_until_nul (inp st) in
            let n := N.of_nat (length s0) in
            if n <? remaining st then
              Ok (set_blob (mkState (ints st) (blobs st) (sizes st) (locals st) (skipn (S (length s0)) (inp st))
                                    (remaining st - n - 1) false (out st) (n + 1 :: trace st) (reflog st) (warn st)) k s0)
            else
              Ok (set_blob (mkState (ints st) (blobs st) (sizes st) (locals st) [] 0 true (out st) (n + 1 :: trace st) (reflog st) (warn st)) k s0)
        end)
    | SRef f idx => (let k := key_of st f idx in Ok (sync_int (log_ref st k) k u32 4))
    | SRefArrHead fsize fkeep frefs fidx idx w =>
      (let i := eval_idx st idx in
        let st0 := match m with Wr => clean_refs st fsize fkeep frefs fidx i | Rd => st end in
        let ksz := enc_key fsize i in
        let st1 := sync_int st0 ksz u32 w in
        Ok (set_size st1 (enc_key frefs i) (Z.to_N (get_int st1 ksz))))
    | SCleanRefs fsize fkeep frefs fidx idx =>
      (let i := eval_idx st idx in Ok (clean_refs st fsize fkeep frefs fidx i))
    | SVecSize f idx w x =>
      (let k := key_of st f idx in
        match m with
        | Wr =>
          (* if (!empty() && size() - 1 > MaxIndex) resize(MaxIndex + 1); sz = size() as SizeType *)
          let n := get_size st k in
          let maxidx := 2 ^ (8 * w) - 2 in
          let n1 := if (0 <? n) && (maxidx <? n - 1) then maxidx + 1 else n in
          let st1 := set_size st k n1 in
          let sz := wrapZ w false (Z.of_N n1) in
          Ok (set_local (emit st1 (le_bytes (N.to_nat w) sz)) x sz)
        | Rd =>
          let '(got, st1) := read st w in
          let old := le_bytes (N.to_nat w) (Z.of_N (get_size st k)) in
          Ok (set_local st1 x (of_le_bytes (overlay (N.to_nat w) got old)))
        end)
    | SResize f idx n =>
      (let k := key_of st f idx in bind (eval st n) (fun z => Ok (set_size st k (Z.to_N z))))
    | SFor x n body =>
      bind (eval st n) (fun z => iter_loop (exec body) x (Z.to_N z) st)
    | SLocal x p e => bind (eval st e) (fun z => Ok (set_local st x (wrapZ (prim_width p) (prim_signed p) z)))
    | SAssign f idx p e =>
      (let k := key_of st f idx in bind (eval st e) (fun z => Ok (set_int st k (wrapZ (prim_width p) (prim_signed p) z))))
    | SOpaque => Fault
    end.
End Eval.

(* get: parse a byte string into an object store; put: print an object store *)
Definition run (m : mode) (v : version) (hs : Z -> bool) (s : stmt) (st : state) : res state := exec m v hs s st.
(* rev_append, not rev: List.rev is quadratic when extracted *)
Definition output (st : state) : list N := rev_append (out st) [].
Definition transfers (st : state) : list N := rev_append (trace st) [].

(* a state for writing: same object, fresh output *)
Definition rewind (st : state) (input : list N) : state :=
  mkState (ints st) (blobs st) (sizes st) [] input (N.of_nat (length input)) false [] [] [] (warn st).

(* ---- entry points for the extracted oracle: uniquely named, so that other families' extracted
   constants cannot shadow them in the single extracted module ---- *)
Definition syncir_rd : mode := Rd.
Definition syncir_wr : mode := Wr.
Definition syncir_ver (f u s : Z) : version := mkVer f u s.
Definition syncir_run := run.
Definition syncir_fresh (input : list N) : state := empty_state input.
Definition syncir_rewind := rewind.
Definition syncir_clear_out (st : state) : state :=
  mkState (ints st) (blobs st) (sizes st) (locals st) (inp st) (remaining st) (eof st) [] [] [] (warn st).
Definition syncir_output := output.
Definition syncir_transfers := transfers.
Definition syncir_consumed (st : state) : bool := (remaining st =? 0) && negb (eof st).
Definition syncir_eof (st : state) : bool := eof st.
Definition syncir_nlog (st : state) : N := N.of_nat (length (reflog st)).
Definition syncir_warn (st : state) : bool := warn st.

(* ---- which fields did a run alter? (used on the model to observe "saving alters the object") ----
   names of the scalar / size / blob fields having at least one instance with a different value in b than in a;
   an absent instance counts as the default (0, 0, empty) *)
Definition pm2_altered {A} (eqb : A -> A -> bool) (dflt : A) (m1 m2 : PM.t (PM.t A)) : list N :=
  let one (ma mb : PM.t (PM.t A)) :=
    PM.fold (fun n inner acc =>
      if PM.fold (fun k x bad => bad || negb (eqb x (match find2 mb (n, k) with Some y => y | None => dflt end))) inner false
      then Pos.pred_N n :: acc else acc) ma [] in
  one m1 m2 ++ one m2 m1.
Fixpoint list_N_eqb (a b : list N) : bool :=
  match a, b with [], [] => true | x :: r, y :: s => (x =? y) && list_N_eqb r s | _, _ => false end.
(* reference arrays are compacted by a write (CleanInvalidRefs): that normal-form step is not an alteration *)
Fixpoint syncir_refarr_names (s : stmt) : list N :=
  match s with
  | SSeq a b => syncir_refarr_names a ++ syncir_refarr_names b
  | SIf _ t e => syncir_refarr_names t ++ syncir_refarr_names e
  | SFor _ _ b => syncir_refarr_names b
  | SRefArrHead fsize _ frefs fidx _ _ | SCleanRefs fsize _ frefs fidx _ => [fsize; frefs; fidx]
  | _ => []
  end.
Definition syncir_altered (prog : stmt) (a b : state) : list N * (list N * list N) :=
  let skip := syncir_refarr_names prog in
  let keep := filter (fun n => negb (existsb (N.eqb n) skip)) in
  (keep (pm2_altered Z.eqb 0%Z (ints a) (ints b)),
   (keep (pm2_altered N.eqb 0 (sizes a) (sizes b)), keep (pm2_altered list_N_eqb [] (blobs a) (blobs b)))).
