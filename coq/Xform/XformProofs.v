(* Algebraic laws of the transform model, for EVERY commutative field (no bound on any element).
   Exact arithmetic only: nothing here speaks about IEEE-754 rounding. *)
From Coq Require Import Field_theory Ring_theory Field Ring List Permutation.
From NiflyVerif Require Import XformModel.
Import ListNotations.

(* "K is a commutative field": the ring/field axioms of Coq.setoid_ring for K's operations, with
   Leibniz equality *)
Definition is_field {F : Type} (K : fops F) : Prop :=
  field_theory (f0 K) (f1 K) (fadd K) (fmul K) (fsub K) (fopp K) (fdiv K) (finv K) (@eq F).
(* n is a unit vector; (c, s) lies on the unit circle *)
Definition unit_vec {F : Type} (K : fops F) (n : vec3 F) : Prop := v3_dot K n n = f1 K.
Definition unit_circle {F : Type} (K : fops F) (c s : F) : Prop :=
  fadd K (fmul K c c) (fmul K s s) = f1 K.

Section Laws.
Variable F : Type.
Variable K : fops F.
Hypothesis FK : is_field K.
Let Fth : field_theory (f0 K) (f1 K) (fadd K) (fmul K) (fsub K) (fopp K) (fdiv K) (finv K) (@eq F) := FK.
Add Field Ffield : Fth.

Local Notation "x + y" := (fadd K x y).
Local Notation "x * y" := (fmul K x y).
Local Notation "x - y" := (fsub K x y).
Local Notation "x / y" := (fdiv K x y).
Local Notation "- x" := (fopp K x).
Local Notation "0" := (f0 K).
Local Notation "1" := (f1 K).

Ltac unf := cbv [xf_apply xf_compose xf_inverse xf_id xf_to_matrix m4_mulv m4_mul m4_id
  m3_mul m3_mulv m3_transpose m3_id m3_det v3_add v3_sub v3_scale v3_lscale v3_zero
  rodrigues rodrigues_alt rodrigues_gen rot_cosang rot_axis_raw rot trans scl vx vy vz
  r00 r01 r02 r10 r11 r12 r20 r21 r22 a0 a1 a2 a3 a4 a5 a6 a7 a8 a9 a10 a11 a12 a13 a14 a15] in *.

(* ---------------- ApplyTransform / ComposeTransforms ---------------- *)

Lemma apply_compose : forall (t1 t2 : xform F) (v : vec3 F),
  xf_apply K (xf_compose K t1 t2) v = xf_apply K t1 (xf_apply K t2 v).
Proof.
  intros [[? ? ? ? ? ? ? ? ?] [? ? ?] ?] [[? ? ? ? ? ? ? ? ?] [? ? ?] ?] [? ? ?].
  unf. f_equal; ring.
Qed.

Lemma apply_id : forall v : vec3 F, xf_apply K (xf_id K) v = v.
Proof. intros [? ? ?]. unf. f_equal; ring. Qed.

Lemma compose_assoc : forall t1 t2 t3 : xform F,
  xf_compose K (xf_compose K t1 t2) t3 = xf_compose K t1 (xf_compose K t2 t3).
Proof.
  intros [[? ? ? ? ? ? ? ? ?] [? ? ?] ?] [[? ? ? ? ? ? ? ? ?] [? ? ?] ?] [[? ? ? ? ? ? ? ? ?] [? ? ?] ?].
  unf. f_equal; [f_equal; ring | f_equal; ring | ring].
Qed.

(* ---------------- Matrix3::Invert ---------------- *)

Lemma invert_none_iff : forall m : mat3 F, m3_invert K m = None <-> m3_det K m = 0.
Proof.
  intros m. unfold m3_invert. destruct (feq_dec K (m3_det K m) 0); split; intros; congruence.
Qed.

Lemma invert_mul_id : forall m mi : mat3 F,
  m3_invert K m = Some mi -> m3_mul K m mi = m3_id K /\ m3_mul K mi m = m3_id K.
Proof.
  intros m mi. unfold m3_invert.
  destruct (feq_dec K (m3_det K m) 0) as [|Hd]; [discriminate|].
  intros H; injection H as <-.
  destruct m as [? ? ? ? ? ? ? ? ?]. unf.
  split; f_equal; field; exact Hd.
Qed.

Lemma invert_some : forall m : mat3 F, m3_det K m <> 0 -> exists mi, m3_invert K m = Some mi.
Proof.
  intros m Hd. unfold m3_invert. destruct (feq_dec K (m3_det K m) 0); [contradiction|eauto].
Qed.

(* the inverse is unique: anything that multiplies to the identity is what Invert returns *)
Lemma det_mul : forall a b : mat3 F, m3_det K (m3_mul K a b) = m3_det K a * m3_det K b.
Proof. intros [? ? ? ? ? ? ? ? ?] [? ? ? ? ? ? ? ? ?]. unf. ring. Qed.

Lemma det_id : m3_det K (m3_id K) = 1.
Proof. unf. ring. Qed.

Lemma det_transpose : forall m : mat3 F, m3_det K (m3_transpose m) = m3_det K m.
Proof. intros [? ? ? ? ? ? ? ? ?]. unf. ring. Qed.

(* ---------------- InverseTransform ---------------- *)

Lemma one_neq_zero : 1 <> 0.
Proof. exact (F_1_neq_0 Fth). Qed.

Lemma compose_inverse : forall t : xform F,
  m3_det K (rot t) <> 0 -> scl t <> 0 -> xf_compose K t (xf_inverse K t) = xf_id K.
Proof.
  intros [m [? ? ?] s] Hd Hs. cbn [rot scl] in Hd, Hs.
  unfold xf_inverse, m3_inverse, m3_invert; cbn [rot trans scl].
  destruct (feq_dec K (m3_det K m) 0) as [|_]; [contradiction|].
  destruct m as [? ? ? ? ? ? ? ? ?]. unf.
  f_equal; [f_equal; field; exact Hd | f_equal; field; split; assumption | field; exact Hs].
Qed.

Lemma inverse_compose : forall t : xform F,
  m3_det K (rot t) <> 0 -> scl t <> 0 -> xf_compose K (xf_inverse K t) t = xf_id K.
Proof.
  intros [m [? ? ?] s] Hd Hs. cbn [rot scl] in Hd, Hs.
  unfold xf_inverse, m3_inverse, m3_invert; cbn [rot trans scl].
  destruct (feq_dec K (m3_det K m) 0) as [|_]; [contradiction|].
  destruct m as [? ? ? ? ? ? ? ? ?]. unf.
  f_equal; [f_equal; field; exact Hd | f_equal; field; split; assumption | field; exact Hs].
Qed.

Lemma inverse_apply : forall (t : xform F) (v : vec3 F),
  m3_det K (rot t) <> 0 -> scl t <> 0 -> xf_apply K (xf_inverse K t) (xf_apply K t v) = v.
Proof.
  intros t v Hd Hs. rewrite <- apply_compose, inverse_compose by assumption. apply apply_id.
Qed.

Lemma apply_inverse : forall (t : xform F) (v : vec3 F),
  m3_det K (rot t) <> 0 -> scl t <> 0 -> xf_apply K t (xf_apply K (xf_inverse K t) v) = v.
Proof.
  intros t v Hd Hs. rewrite <- apply_compose, compose_inverse by assumption. apply apply_id.
Qed.

(* ---------------- ToMatrix / Matrix4 ---------------- *)

Lemma m4_eq : forall x0 x1 x2 x3 x4 x5 x6 x7 x8 x9 x10 x11 x12 x13 x14 x15 y0 y1 y2 y3 y4 y5 y6 y7 y8 y9 y10 y11 y12 y13 y14 y15 : F,
  x0 = y0 -> x1 = y1 -> x2 = y2 -> x3 = y3 -> x4 = y4 -> x5 = y5 -> x6 = y6 -> x7 = y7 -> x8 = y8 -> x9 = y9 -> x10 = y10 -> x11 = y11 -> x12 = y12 -> x13 = y13 -> x14 = y14 -> x15 = y15 ->
  M4 x0 x1 x2 x3 x4 x5 x6 x7 x8 x9 x10 x11 x12 x13 x14 x15 = M4 y0 y1 y2 y3 y4 y5 y6 y7 y8 y9 y10 y11 y12 y13 y14 y15.
Proof. intros; subst; reflexivity. Qed.

Lemma to_matrix_apply : forall (t : xform F) (v : vec3 F),
  m4_mulv K (xf_to_matrix K t) v = xf_apply K t v.
Proof.
  intros [[? ? ? ? ? ? ? ? ?] [? ? ?] ?] [? ? ?]. unf. f_equal; ring.
Qed.

Lemma to_matrix_compose : forall t1 t2 : xform F,
  xf_to_matrix K (xf_compose K t1 t2) = m4_mul K (xf_to_matrix K t1) (xf_to_matrix K t2).
Proof.
  intros [[? ? ? ? ? ? ? ? ?] [? ? ?] ?] [[? ? ? ? ? ? ? ? ?] [? ? ?] ?]. unf. apply m4_eq; ring.
Qed.

(* ---------------- RotVecToMat (rational restriction) ---------------- *)

(* the two formulas for "onemcosang" agree on the unit circle *)
Lemma onemcos_alt : forall c s : F, c * c + s * s = 1 -> 1 + c <> 0 -> s * s / (1 + c) = 1 - c.
Proof.
  intros c s H Hc.
  assert (Hs : s * s = 1 - c * c) by (rewrite <- H; ring).
  rewrite Hs. field. exact Hc.
Qed.

Lemma rodrigues_alt_eq : forall (n : vec3 F) (c s : F),
  unit_circle K c s -> 1 + c <> 0 -> rodrigues_alt K n c s = rodrigues K n c s.
Proof. intros n c s Hc H1. unfold rodrigues_alt, rodrigues. rewrite onemcos_alt by assumption. reflexivity. Qed.

Lemma rotvec_orthonormal : forall (n : vec3 F) (c s : F),
  unit_vec K n -> unit_circle K c s ->
  let m := rodrigues K n c s in
  m3_mul K m (m3_transpose m) = m3_id K /\ m3_mul K (m3_transpose m) m = m3_id K /\ m3_det K m = 1.
Proof.
  intros [x y z] c s Hn Hc. unfold unit_vec, unit_circle, v3_dot in *. cbn [vx vy vz] in Hn.
  assert (Hz : z * z = 1 - x * x - y * y) by (rewrite <- Hn; ring).
  assert (Hs : s * s = 1 - c * c) by (rewrite <- Hc; ring).
  unf. repeat split; try f_equal; ring [Hz Hs].
Qed.

(* RotMatToVec recovers cos(angle) from the trace and sin(angle)*axis from the skew part *)
Lemma rotvec_trace : forall (n : vec3 F) (c s : F),
  unit_vec K n -> 1 + 1 <> 0 ->
  rot_cosang K (rodrigues K n c s) = c.
Proof.
  intros [x y z] c s Hn H2. unfold unit_vec, v3_dot in Hn. cbn [vx vy vz] in Hn.
  assert (Hz : z * z = 1 - x * x - y * y) by (rewrite <- Hn; ring).
  unf. rewrite Hz. field. exact H2.
Qed.

Lemma rotvec_axis : forall (n : vec3 F) (c s : F),
  rot_axis_raw K (rodrigues K n c s) = v3_lscale K ((1 + 1) * s) n.
Proof. intros [x y z] c s. unf. f_equal; ring. Qed.

(* ---------------- averages of copies (translation and scale parts) ---------------- *)

Lemma sum_scalar_repeat : forall (x : F) (n : nat) (acc : F),
  fold_left (fun a y => a + y) (repeat x n) acc = acc + fnat K n * x.
Proof.
  intros x n. induction n as [|n IH]; intros acc; cbn [repeat fold_left fnat].
  - ring.
  - rewrite IH. ring.
Qed.

Lemma sum_vec_repeat : forall (v : vec3 F) (n : nat) (acc : vec3 F),
  fold_left (v3_add K) (repeat v n) acc = v3_add K acc (v3_lscale K (fnat K n) v).
Proof.
  intros v n. induction n as [|n IH]; intros acc; cbn [repeat fold_left fnat].
  - destruct acc, v. unf. f_equal; ring.
  - rewrite IH. destruct acc, v. unf. f_equal; ring.
Qed.

Lemma map_repeat' : forall (A B : Type) (f : A -> B) (x : A) (n : nat),
  map f (repeat x n) = repeat (f x) n.
Proof. intros A B f x n. induction n as [|n IH]; cbn; [reflexivity | rewrite IH; reflexivity]. Qed.

(* CalcAverageMatTransform of n copies of t: translation and scale come back exactly,
   whenever the count n is not zero in the field (always the case in characteristic 0, n > 0) *)
Lemma average_of_copies_ts : forall (t : xform F) (n : nat),
  fnat K n <> 0 ->
  avg_trans K (repeat t n) = trans t /\ avg_scale K (repeat t n) = scl t.
Proof.
  intros t n Hn. unfold avg_trans, avg_scale, sum_vec, sum_scalar.
  rewrite !map_repeat', repeat_length, sum_vec_repeat, sum_scalar_repeat.
  destruct t as [m [x y z] s]. unf. split; [f_equal|]; field; exact Hn.
Qed.

(* CalcMedianOfFloats on n copies: std::nth_element only permutes the data, so whatever it does the
   element at n/2 (and n/2 - 1) is x; the even case returns (x + x) / 2 *)
Lemma median_of_copies : forall (x : F) (n : nat) (l : list F) (k : nat),
  Permutation l (repeat x n) -> (k < n)%nat -> nth k l 0 = x.
Proof.
  intros x n l k Hp Hk. apply Permutation_repeat in Hp. subst l.
  rewrite (nth_indep _ 0 x) by (rewrite repeat_length; exact Hk). apply nth_repeat.
Qed.

Lemma median_even_of_copies : forall x : F, 1 + 1 <> 0 -> (x + x) / (1 + 1) = x.
Proof. intros x H2. field. exact H2. Qed.

(* ---------------- RotMatToVec: the half-turn case (justification of the repair of
   C20-rotmattovec-symmetric-half-turn) ---------------- *)

(* if the skew part of a rotation matrix vanishes, sin(angle) = 0: the matrix is the identity or a
   half turn, whatever the rounded trace says *)
Lemma rotvec_skew_zero : forall (n : vec3 F) (c s : F),
  unit_vec K n -> 1 + 1 <> 0 -> rot_axis_raw K (rodrigues K n c s) = v3_zero K -> s = 0.
Proof.
  intros [x y z] c s Hn H2 H. rewrite rotvec_axis in H.
  unfold unit_vec, v3_dot in Hn. unf. injection H as Hx Hy Hz.
  assert (E : (1 + 1) * s = ((1 + 1) * s * x) * x + ((1 + 1) * s * y) * y + ((1 + 1) * s * z) * z)
    by (transitivity ((1 + 1) * s * (x * x + y * y + z * z)); [rewrite Hn|]; ring).
  rewrite Hx, Hy, Hz in E.
  assert (E0 : (1 + 1) * s = 0) by (rewrite E; ring).
  transitivity ((1 + 1) * s / (1 + 1)); [field; exact H2 | rewrite E0; field; exact H2].
Qed.

(* and in that case (indeed for any c) the diagonal minus cosang is proportional to the squared axis
   components, with factor (1 - c)/2 (= 1 at a half turn): this is what the sqrt-based case reads *)
Lemma rotvec_half_turn_sq : forall (n : vec3 F) (c s : F),
  unit_vec K n -> 1 + 1 <> 0 ->
  half_turn_sq K (rodrigues K n c s) =
  v3_scale K (V3 (vx n * vx n) (vy n * vy n) (vz n * vz n)) ((1 - c) / (1 + 1)).
Proof.
  intros n c s Hn H2. unfold half_turn_sq. rewrite rotvec_trace by assumption.
  destruct n as [x y z]. unf. f_equal; field; exact H2.
Qed.

(* ---------------- CalcAverageRotation / CalcMedianRotation on copies ---------------- *)

Lemma m3_mul_assoc : forall a b c : mat3 F, m3_mul K (m3_mul K a b) c = m3_mul K a (m3_mul K b c).
Proof. intros [? ? ? ? ? ? ? ? ?] [? ? ? ? ? ? ? ? ?] [? ? ? ? ? ? ? ? ?]. unf. f_equal; ring. Qed.

Lemma m3_mul_id_l : forall a : mat3 F, m3_mul K (m3_id K) a = a.
Proof. intros [? ? ? ? ? ? ? ? ?]. unf. f_equal; ring. Qed.

Lemma avg_vec_repeat : forall (v : vec3 F) (n : nat), fnat K n <> 0 ->
  v3_divn K (sum_vec K (repeat v n)) (fnat K n) = v.
Proof.
  intros v n Hn. unfold sum_vec. rewrite sum_vec_repeat. destruct v as [x y z].
  unfold v3_divn. unf. f_equal; field; exact Hn.
Qed.

(* The REPAIRED two-pass average of n >= 1 copies of r returns r, whatever base B the first pass
   produced, as long as B is orthonormal and the rotation-vector round trip is exact on the rebased
   matrix B^T r (in exact arithmetic both hold for RotVecToMat / RotMatToVec below a half turn; they
   are hypotheses here because those functions are not modelled). *)
Lemma avg_rotation_of_copies : forall (m2v : mat3 F -> vec3 F) (v2m : vec3 F -> mat3 F) (r : mat3 F) (n : nat),
  n <> 0%nat -> fnat K n <> 0 ->
  let B := v2m (m2v r) in
  m3_mul K B (m3_transpose B) = m3_id K ->
  v2m (m2v (m3_mul K (m3_transpose B) r)) = m3_mul K (m3_transpose B) r ->
  avg_rotation K m2v v2m (repeat r n) = r.
Proof.
  intros m2v v2m r n Hn0 Hn B Horth Hrt.
  destruct n as [|k]; [contradiction|].
  unfold avg_rotation. change (r :: repeat r k) with (repeat r (S k)).
  cbn [repeat]. change (r :: repeat r k) with (repeat r (S k)).
  rewrite repeat_length, !map_repeat', !avg_vec_repeat by exact Hn.
  fold B. rewrite Hrt, <- m3_mul_assoc, Horth. apply m3_mul_id_l.
Qed.

(* the code before the repair applied n times the offset instead *)
Lemma avg_rotation_unrepaired_of_copies : forall (m2v : mat3 F -> vec3 F) (v2m : vec3 F -> mat3 F) (r : mat3 F) (n : nat),
  n <> 0%nat -> fnat K n <> 0 ->
  let B := v2m (m2v r) in
  avg_rotation_unrepaired K m2v v2m (repeat r n) =
  m3_mul K B (v2m (v3_lscale K (fnat K n) (m2v (m3_mul K (m3_transpose B) r)))).
Proof.
  intros m2v v2m r n Hn0 Hn B.
  destruct n as [|k]; [contradiction|].
  unfold avg_rotation_unrepaired. cbn [repeat]. change (r :: repeat r k) with (repeat r (S k)).
  rewrite repeat_length, !map_repeat', avg_vec_repeat by exact Hn.
  fold B. unfold sum_vec. rewrite sum_vec_repeat. f_equal. f_equal.
  destruct (m2v (m3_mul K (m3_transpose B) r)) as [x y z]. unf. f_equal; ring.
Qed.

(* the median scheme on copies, given that the scalar median of n copies of x is x
   (C20_median_of_copies / C20_median_even_of_copies) *)
Lemma median_rotation_of_copies : forall (m2v : mat3 F -> vec3 F) (v2m : vec3 F -> mat3 F) (med : list F -> F)
  (r : mat3 F) (n : nat),
  n <> 0%nat -> fnat K n <> 0 -> (forall x, med (repeat x n) = x) ->
  let B := v2m (m2v r) in
  m3_mul K B (m3_transpose B) = m3_id K ->
  v2m (m2v (m3_mul K (m3_transpose B) r)) = m3_mul K (m3_transpose B) r ->
  median_rotation K m2v v2m med (repeat r n) = r.
Proof.
  intros m2v v2m med r n Hn0 Hn Hmed B Horth Hrt.
  destruct n as [|k]; [contradiction|].
  unfold median_rotation. cbn [repeat]. change (r :: repeat r k) with (repeat r (S k)).
  rewrite repeat_length, !map_repeat', avg_vec_repeat by exact Hn.
  fold B. unfold med_vec. rewrite !map_repeat', !Hmed.
  destruct (m2v (m3_mul K (m3_transpose B) r)) as [x y z] eqn:E. cbn [vx vy vz].
  rewrite Hrt, <- m3_mul_assoc, Horth. apply m3_mul_id_l.
Qed.

(* ---------------- Matrix4::Det / Adjoint / Inverse ---------------- *)

Lemma inverse4_none_iff : forall m : mat4 F, m4_inverse K m = None <-> m4_det K m = 0.
Proof.
  intros m. unfold m4_inverse. destruct (feq_dec K (m4_det K m) 0); split; intros; congruence.
Qed.

Lemma inverse4_mul_id : forall m mi : mat4 F,
  m4_inverse K m = Some mi -> m4_mul K m mi = m4_id K /\ m4_mul K mi m = m4_id K.
Proof.
  intros m mi. unfold m4_inverse.
  destruct (feq_dec K (m4_det K m) 0) as [|Hd]; [discriminate|].
  intros H; injection H as <-.
  destruct m as [? ? ? ? ? ? ? ? ? ? ? ? ? ? ? ?].
  cbv -[fadd fmul fsub fopp fdiv finv f0 f1] in Hd. cbv -[fadd fmul fsub fopp fdiv finv f0 f1].
  split; apply m4_eq; field; exact Hd.
Qed.

End Laws.
