(* The mathematical fact behind "a bounding sphere is no larger than the sphere around the set's
   bounding-box diagonal", over the rationals: the ball centred at the bounding-box centre with
   radius half the diagonal encloses every point, so a MINIMUM enclosing ball cannot have a larger
   radius.  (Squared distances: no square root needed.)  This is about the ideal result; Miniball.hpp
   itself is not modelled. *)
From Coq Require Import QArith Qminmax Lqa List.
Import ListNotations.
Local Open Scope Q_scope.

Definition pt := (Q * Q * Q)%type.
Definition px (p : pt) : Q := fst (fst p).
Definition py (p : pt) : Q := snd (fst p).
Definition pz (p : pt) : Q := snd p.

Definition dist2 (p c : pt) : Q :=
  (px p - px c) * (px p - px c) + (py p - py c) * (py p - py c) + (pz p - pz c) * (pz p - pz c).

(* smallest / largest value of a coordinate over the non-empty list p0 :: l *)
Definition lo (f : pt -> Q) (p0 : pt) (l : list pt) : Q := fold_right (fun p a => Qmin (f p) a) (f p0) l.
Definition hi (f : pt -> Q) (p0 : pt) (l : list pt) : Q := fold_right (fun p a => Qmax (f p) a) (f p0) l.

Definition bbox_center (p0 : pt) (l : list pt) : pt :=
  ((lo px p0 l + hi px p0 l) / 2, (lo py p0 l + hi py p0 l) / 2, (lo pz p0 l + hi pz p0 l) / 2).
(* squared half diagonal of the bounding box *)
Definition bbox_half_diag2 (p0 : pt) (l : list pt) : Q :=
  let dx := (hi px p0 l - lo px p0 l) / 2 in
  let dy := (hi py p0 l - lo py p0 l) / 2 in
  let dz := (hi pz p0 l - lo pz p0 l) / 2 in
  dx * dx + dy * dy + dz * dz.

Definition encloses (c : pt) (r2 : Q) (pts : list pt) : Prop := forall p, In p pts -> dist2 p c <= r2.
(* (c, r2) is a minimum enclosing ball: it encloses, and no enclosing ball has a smaller radius *)
Definition is_meb (c : pt) (r2 : Q) (pts : list pt) : Prop :=
  encloses c r2 pts /\ forall c' r2', encloses c' r2' pts -> r2 <= r2'.

Lemma Qsquare_nonneg : forall a : Q, 0 <= a * a.
Proof. intros [n d]. unfold Qle, Qmult; cbn. rewrite Z.mul_1_r. apply Z.square_nonneg. Qed.

Lemma lo_hi_bounds : forall (f : pt -> Q) p0 l p, In p (p0 :: l) -> lo f p0 l <= f p /\ f p <= hi f p0 l.
Proof.
  intros f p0 l. induction l as [|q l IH]; intros p Hin.
  - destruct Hin as [<-|[]]. unfold lo, hi; cbn. split; apply Qle_refl.
  - unfold lo, hi in *; cbn [fold_right].
    destruct Hin as [<-|[<-|Hin]].
    + destruct (IH p0 (or_introl eq_refl)) as [H1 H2]. split.
      * eapply Qle_trans; [apply Q.le_min_r|exact H1].
      * eapply Qle_trans; [exact H2|apply Q.le_max_r].
    + split; [apply Q.le_min_l|apply Q.le_max_l].
    + destruct (IH p (or_intror Hin)) as [H1 H2]. split.
      * eapply Qle_trans; [apply Q.le_min_r|exact H1].
      * eapply Qle_trans; [exact H2|apply Q.le_max_r].
Qed.

Lemma coord_bound : forall a b x : Q, a <= x -> x <= b ->
  (x - (a + b) / 2) * (x - (a + b) / 2) <= ((b - a) / 2) * ((b - a) / 2).
Proof.
  intros a b x H1 H2.
  assert (H : 0 <= (x - a) * (b - x)) by (apply Qmult_le_0_compat; lra).
  apply Qle_minus_iff.
  setoid_replace ((b - a) / 2 * ((b - a) / 2) + - ((x - (a + b) / 2) * (x - (a + b) / 2)))
    with ((x - a) * (b - x)) by field.
  exact H.
Qed.

Lemma bbox_ball_encloses : forall p0 l, encloses (bbox_center p0 l) (bbox_half_diag2 p0 l) (p0 :: l).
Proof.
  intros p0 l p Hin.
  destruct (lo_hi_bounds px p0 l p Hin) as [X1 X2].
  destruct (lo_hi_bounds py p0 l p Hin) as [Y1 Y2].
  destruct (lo_hi_bounds pz p0 l p Hin) as [Z1 Z2].
  unfold dist2, bbox_center, bbox_half_diag2. cbn [px py pz fst snd].
  pose proof (coord_bound _ _ _ X1 X2). pose proof (coord_bound _ _ _ Y1 Y2).
  pose proof (coord_bound _ _ _ Z1 Z2). lra.
Qed.

Lemma meb_le_bbox : forall c r2 p0 l, is_meb c r2 (p0 :: l) ->
  encloses c r2 (p0 :: l) /\ r2 <= bbox_half_diag2 p0 l.
Proof. intros c r2 p0 l [He Hm]. split; [exact He|]. apply (Hm _ _ (bbox_ball_encloses p0 l)). Qed.
