(* Xform: exact-arithmetic model of the transform algebra of nifly
   (include/Object3d.hpp Matrix3 488-633, Matrix4 651-953, MatTransform 1012-1130;
    src/Object3d.cpp RotVecToMat 21-44, Matrix3::Determinant/Invert/Inverse 237-265,
    MatTransform::InverseTransform/ComposeTransforms 315-329, CalcAverageMatTransform 115-136).

   Every formula is transcribed entry by entry from the C++ (same association, same operand order)
   over an ABSTRACT commutative field given as a record of operations [fops F].  What is NOT
   modelled: IEEE-754 binary32 rounding (the C++ computes in float), sqrt/sin/cos/asin/acos,
   external/Miniball.hpp.  The instance that is extracted and run is [QcOps] (Coq's canonical
   rationals [Qc], Leibniz equality), so the theorems of XformProofs.v, proved for every field,
   apply verbatim to the executed model. *)
From Coq Require Import List.
Import ListNotations.

Record fops (F : Type) := FOps {
  f0 : F; f1 : F;
  fadd : F -> F -> F; fmul : F -> F -> F; fsub : F -> F -> F; fopp : F -> F;
  fdiv : F -> F -> F; finv : F -> F;
  (* the C++ tests [det == 0.0f]; the model needs a decidable equality for that test *)
  feq_dec : forall x y : F, {x = y} + {x <> y} }.
Arguments f0 {F}. Arguments f1 {F}. Arguments fadd {F}. Arguments fmul {F}. Arguments fsub {F}.
Arguments fopp {F}. Arguments fdiv {F}. Arguments finv {F}. Arguments feq_dec {F}.

(* Vector3 {x,y,z}; Matrix3 = three rows (rIJ = rows[I][J]); Matrix4 = float m[16], row-major;
   MatTransform {translation; rotation; scale}. *)
Record vec3 (F : Type) := V3 { vx : F; vy : F; vz : F }.
Record mat3 (F : Type) := M3 {
  r00 : F; r01 : F; r02 : F;
  r10 : F; r11 : F; r12 : F;
  r20 : F; r21 : F; r22 : F }.
Record mat4 (F : Type) := M4 {
  a0 : F; a1 : F; a2 : F; a3 : F;
  a4 : F; a5 : F; a6 : F; a7 : F;
  a8 : F; a9 : F; a10 : F; a11 : F;
  a12 : F; a13 : F; a14 : F; a15 : F }.
Record xform (F : Type) := XF { rot : mat3 F; trans : vec3 F; scl : F }.
Arguments V3 {F}. Arguments vx {F}. Arguments vy {F}. Arguments vz {F}.
Arguments M3 {F}. Arguments r00 {F}. Arguments r01 {F}. Arguments r02 {F}.
Arguments r10 {F}. Arguments r11 {F}. Arguments r12 {F}.
Arguments r20 {F}. Arguments r21 {F}. Arguments r22 {F}.
Arguments M4 {F}. Arguments a0 {F}. Arguments a1 {F}. Arguments a2 {F}. Arguments a3 {F}.
Arguments a4 {F}. Arguments a5 {F}. Arguments a6 {F}. Arguments a7 {F}.
Arguments a8 {F}. Arguments a9 {F}. Arguments a10 {F}. Arguments a11 {F}.
Arguments a12 {F}. Arguments a13 {F}. Arguments a14 {F}. Arguments a15 {F}.
Arguments XF {F}. Arguments rot {F}. Arguments trans {F}. Arguments scl {F}.

Section Model.
Variable F : Type.
Variable K : fops F.

Local Notation "x + y" := (fadd K x y).
Local Notation "x * y" := (fmul K x y).
Local Notation "x - y" := (fsub K x y).
Local Notation "x / y" := (fdiv K x y).
Local Notation "- x" := (fopp K x).
Local Notation "0" := (f0 K).
Local Notation "1" := (f1 K).

(* ---- Vector3 (Object3d.hpp:146-222, 364) ---- *)
Definition v3_zero : vec3 F := V3 0 0 0.
Definition v3_add (a b : vec3 F) : vec3 F := V3 (vx a + vx b) (vy a + vy b) (vz a + vz b).
Definition v3_sub (a b : vec3 F) : vec3 F := V3 (vx a - vx b) (vy a - vy b) (vz a - vz b).
(* Vector3::operator*(float val): (x*val, y*val, z*val) *)
Definition v3_scale (v : vec3 F) (f : F) : vec3 F := V3 (vx v * f) (vy v * f) (vz v * f).
(* operator*(float f, const Vector3& v): (f*v.x, f*v.y, f*v.z) *)
Definition v3_lscale (f : F) (v : vec3 F) : vec3 F := V3 (f * vx v) (f * vy v) (f * vz v).

(* Vector3::dot *)
Definition v3_dot (a b : vec3 F) : F := vx a * vx b + vy a * vy b + vz a * vz b.

(* ---- Matrix3 (Object3d.hpp:488-593) ---- *)
Definition m3_id : mat3 F := M3 1 0 0 0 1 0 0 0 1.

(* Matrix3::operator*(const Matrix3& o), lines 545-557 *)
Definition m3_mul (m o : mat3 F) : mat3 F := M3
  (r00 m * r00 o + r01 m * r10 o + r02 m * r20 o)
  (r00 m * r01 o + r01 m * r11 o + r02 m * r21 o)
  (r00 m * r02 o + r01 m * r12 o + r02 m * r22 o)
  (r10 m * r00 o + r11 m * r10 o + r12 m * r20 o)
  (r10 m * r01 o + r11 m * r11 o + r12 m * r21 o)
  (r10 m * r02 o + r11 m * r12 o + r12 m * r22 o)
  (r20 m * r00 o + r21 m * r10 o + r22 m * r20 o)
  (r20 m * r01 o + r21 m * r11 o + r22 m * r21 o)
  (r20 m * r02 o + r21 m * r12 o + r22 m * r22 o).

(* Matrix3::operator*(const Vector3& v), lines 559-563: rows times the column v *)
Definition m3_mulv (m : mat3 F) (v : vec3 F) : vec3 F := V3
  (r00 m * vx v + r01 m * vy v + r02 m * vz v)
  (r10 m * vx v + r11 m * vy v + r12 m * vz v)
  (r20 m * vx v + r21 m * vy v + r22 m * vz v).

(* Matrix3::Transpose, lines 581-593 *)
Definition m3_transpose (m : mat3 F) : mat3 F := M3
  (r00 m) (r10 m) (r20 m)
  (r01 m) (r11 m) (r21 m)
  (r02 m) (r12 m) (r22 m).

(* Matrix3::Determinant, Object3d.cpp:237-241 *)
Definition m3_det (m : mat3 F) : F :=
  r00 m * (r11 m * r22 m - r12 m * r21 m)
  + r01 m * (r12 m * r20 m - r10 m * r22 m)
  + r02 m * (r10 m * r21 m - r11 m * r20 m).

(* Matrix3::Invert, Object3d.cpp:243-259: false (here None) when det == 0, else adjugate * (1/det).
   The entries are listed in the order of the record (im[0][0], im[0][1], ...), each with the
   formula the C++ assigns to it. *)
Definition m3_invert (m : mat3 F) : option (mat3 F) :=
  let det := m3_det m in
  if feq_dec K det 0 then None
  else
    let idet := 1 / det in
    Some (M3
      ((r11 m * r22 m - r12 m * r21 m) * idet)   (* im[0][0] *)
      ((r21 m * r02 m - r22 m * r01 m) * idet)   (* im[0][1] *)
      ((r01 m * r12 m - r02 m * r11 m) * idet)   (* im[0][2] *)
      ((r12 m * r20 m - r10 m * r22 m) * idet)   (* im[1][0] *)
      ((r22 m * r00 m - r20 m * r02 m) * idet)   (* im[1][1] *)
      ((r02 m * r10 m - r00 m * r12 m) * idet)   (* im[1][2] *)
      ((r10 m * r21 m - r11 m * r20 m) * idet)   (* im[2][0] *)
      ((r20 m * r01 m - r21 m * r00 m) * idet)   (* im[2][1] *)
      ((r00 m * r11 m - r01 m * r10 m) * idet)). (* im[2][2] *)

(* Matrix3::Inverse, Object3d.cpp:261-265: the identity when Invert fails *)
Definition m3_inverse (m : mat3 F) : mat3 F :=
  match m3_invert m with Some i => i | None => m3_id end.

(* ---- MatTransform (Object3d.hpp:1096-1098, Object3d.cpp:315-329) ---- *)
Definition xf_id : xform F := XF m3_id v3_zero 1.

(* ApplyTransform: translation + rotation * (pos * scale) *)
Definition xf_apply (t : xform F) (p : vec3 F) : vec3 F :=
  v3_add (trans t) (m3_mulv (rot t) (v3_scale p (scl t))).

(* InverseTransform: inv.rotation = rotation.Inverse(); inv.scale = 1 / scale;
   inv.translation = -inv.scale * (inv.rotation * translation) *)
Definition xf_inverse (t : xform F) : xform F :=
  let irot := m3_inverse (rot t) in
  let iscale := 1 / scl t in
  XF irot (v3_lscale (- iscale) (m3_mulv irot (trans t))) iscale.

(* ComposeTransforms: rotation * other.rotation; scale * other.scale;
   translation + rotation * (scale * other.translation) *)
Definition xf_compose (t o : xform F) : xform F :=
  XF (m3_mul (rot t) (rot o))
     (v3_add (trans t) (m3_mulv (rot t) (v3_lscale (scl t) (trans o))))
     (scl t * scl o).

(* ---- Matrix4 (Object3d.hpp:651-863) and MatTransform::ToMatrix (1047-1062) ---- *)
Definition m4_id : mat4 F := M4 1 0 0 0 0 1 0 0 0 0 1 0 0 0 0 1.

(* ToMatrix: the default-constructed Matrix4 is the identity, entries 0..11 are overwritten *)
Definition xf_to_matrix (t : xform F) : mat4 F :=
  let r := rot t in let s := scl t in
  M4 (r00 r * s) (r01 r * s) (r02 r * s) (vx (trans t))
     (r10 r * s) (r11 r * s) (r12 r * s) (vy (trans t))
     (r20 r * s) (r21 r * s) (r22 r * s) (vz (trans t))
     0 0 0 1.

(* Matrix4::operator*(const Vector3& v), lines 832-836 (affine: the implied w is 1) *)
Definition m4_mulv (m : mat4 F) (v : vec3 F) : vec3 F := V3
  (a0 m * vx v + a1 m * vy v + a2 m * vz v + a3 m)
  (a4 m * vx v + a5 m * vy v + a6 m * vz v + a7 m)
  (a8 m * vx v + a9 m * vy v + a10 m * vz v + a11 m).

(* Matrix4::operator*= / operator*(const Matrix4&), lines 838-856: each row n of *this times r *)
Definition m4_mul (m r : mat4 F) : mat4 F := M4
  (a0 m * a0 r + a1 m * a4 r + a2 m * a8 r + a3 m * a12 r)
  (a0 m * a1 r + a1 m * a5 r + a2 m * a9 r + a3 m * a13 r)
  (a0 m * a2 r + a1 m * a6 r + a2 m * a10 r + a3 m * a14 r)
  (a0 m * a3 r + a1 m * a7 r + a2 m * a11 r + a3 m * a15 r)
  (a4 m * a0 r + a5 m * a4 r + a6 m * a8 r + a7 m * a12 r)
  (a4 m * a1 r + a5 m * a5 r + a6 m * a9 r + a7 m * a13 r)
  (a4 m * a2 r + a5 m * a6 r + a6 m * a10 r + a7 m * a14 r)
  (a4 m * a3 r + a5 m * a7 r + a6 m * a11 r + a7 m * a15 r)
  (a8 m * a0 r + a9 m * a4 r + a10 m * a8 r + a11 m * a12 r)
  (a8 m * a1 r + a9 m * a5 r + a10 m * a9 r + a11 m * a13 r)
  (a8 m * a2 r + a9 m * a6 r + a10 m * a10 r + a11 m * a14 r)
  (a8 m * a3 r + a9 m * a7 r + a10 m * a11 r + a11 m * a15 r)
  (a12 m * a0 r + a13 m * a4 r + a14 m * a8 r + a15 m * a12 r)
  (a12 m * a1 r + a13 m * a5 r + a14 m * a9 r + a15 m * a13 r)
  (a12 m * a2 r + a13 m * a6 r + a14 m * a10 r + a15 m * a14 r)
  (a12 m * a3 r + a13 m * a7 r + a14 m * a11 r + a15 m * a15 r).

(* Matrix4::operator*(float val) *)
Definition m4_scale (m : mat4 F) (f : F) : mat4 F := M4
  (a0 m * f) (a1 m * f) (a2 m * f) (a3 m * f) (a4 m * f) (a5 m * f) (a6 m * f) (a7 m * f)
  (a8 m * f) (a9 m * f) (a10 m * f) (a11 m * f) (a12 m * f) (a13 m * f) (a14 m * f) (a15 m * f).

(* Matrix4::Det, lines 778-796 *)
Definition m4_det (m : mat4 F) : F :=
  let A := a0 m * ((a5 m * a10 m * a15 m + a6 m * a11 m * a13 m + a7 m * a9 m * a14 m)
                   - (a7 m * a10 m * a13 m + a6 m * a9 m * a15 m + a5 m * a11 m * a14 m)) in
  let B := a1 m * ((a4 m * a10 m * a15 m + a6 m * a11 m * a12 m + a7 m * a8 m * a14 m)
                   - (a7 m * a10 m * a12 m + a6 m * a8 m * a15 m + a4 m * a11 m * a14 m)) in
  let C := a2 m * ((a4 m * a9 m * a15 m + a5 m * a11 m * a12 m + a7 m * a8 m * a13 m)
                   - (a7 m * a9 m * a12 m + a5 m * a8 m * a15 m + a4 m * a11 m * a13 m)) in
  let D := a3 m * ((a4 m * a9 m * a14 m + a5 m * a10 m * a12 m + a6 m * a8 m * a13 m)
                   - (a6 m * a9 m * a12 m + a5 m * a8 m * a14 m + a4 m * a10 m * a13 m)) in
  A - B + C - D.

(* m[k] as a function of the index (k < 16) *)
Definition m4_get (m : mat4 F) (k : nat) : F :=
  match k with
  | 0 => a0 m | 1 => a1 m | 2 => a2 m | 3 => a3 m
  | 4 => a4 m | 5 => a5 m | 6 => a6 m | 7 => a7 m
  | 8 => a8 m | 9 => a9 m | 10 => a10 m | 11 => a11 m
  | 12 => a12 m | 13 => a13 m | 14 => a14 m | _ => a15 m
  end%nat.

(* Matrix4::Get33(o, r, c), lines 722-733: the 9 entries outside row r and column c, in order *)
Definition m4_get33 (m : mat4 F) (r c : nat) : list F :=
  flat_map (fun i => if Nat.eqb i r then [] else
    flat_map (fun j => if Nat.eqb j c then [] else [m4_get m (4 * i + j)%nat]) [0; 1; 2; 3]%nat)
    [0; 1; 2; 3]%nat.

(* Matrix4::Det33, lines 798-806 *)
Definition det33 (t : list F) : F :=
  let g k := nth k t 0 in
  (g 0%nat * g 4%nat * g 8%nat + g 1%nat * g 5%nat * g 6%nat + g 2%nat * g 3%nat * g 7%nat)
  - (g 2%nat * g 4%nat * g 6%nat + g 1%nat * g 3%nat * g 8%nat + g 0%nat * g 5%nat * g 7%nat).

(* Matrix4::Adjoint, lines 763-776: c[i + j*4] = (-1)^(i+j) Det33(minor(i,j));
   written per destination index k = i + 4 j, i.e. i = k mod 4, j = k / 4 *)
Definition m4_adj_entry (m : mat4 F) (k : nat) : F :=
  let i := Nat.modulo k 4 in let j := Nat.div k 4 in
  let d := det33 (m4_get33 m i j) in
  if Bool.eqb (Nat.odd i) (Nat.odd j) then d else - d.

Definition m4_adjoint (m : mat4 F) : mat4 F :=
  let e := m4_adj_entry m in
  M4 (e 0%nat) (e 1%nat) (e 2%nat) (e 3%nat) (e 4%nat) (e 5%nat) (e 6%nat) (e 7%nat)
     (e 8%nat) (e 9%nat) (e 10%nat) (e 11%nat) (e 12%nat) (e 13%nat) (e 14%nat) (e 15%nat).

(* Matrix4::Inverse, lines 735-743: det == 0 is reported through a sentinel (c[0] = FLT_MAX);
   here None *)
Definition m4_inverse (m : mat4 F) : option (mat4 F) :=
  let det := m4_det m in
  if feq_dec K det 0 then None else Some (m4_scale (m4_adjoint m) (1 / det)).

(* ---- RotVecToMat restricted to rational data (Object3d.cpp:21-44) ----
   [n] is the (unit) axis, [c] = cos angle, [s] = sin angle, [omc] = "onemcosang".
   Entry formulas exactly as assigned to m[i][j]. *)
Definition rodrigues_gen (n : vec3 F) (c s omc : F) : mat3 F := M3
  (vx n * vx n * omc + c)            (* m[0][0] *)
  (vx n * vy n * omc + vz n * s)     (* m[0][1] *)
  (vz n * vx n * omc - vy n * s)     (* m[0][2] *)
  (vx n * vy n * omc - vz n * s)     (* m[1][0] *)
  (vy n * vy n * omc + c)            (* m[1][1] *)
  (vy n * vz n * omc + vx n * s)     (* m[1][2] *)
  (vz n * vx n * omc + vy n * s)     (* m[2][0] *)
  (vy n * vz n * omc - vx n * s)     (* m[2][1] *)
  (vz n * vz n * omc + c).           (* m[2][2] *)

(* the branch "onemcosang = 1 - cosang" *)
Definition rodrigues (n : vec3 F) (c s : F) : mat3 F := rodrigues_gen n c s (1 - c).
(* the branch "onemcosang = sinang * sinang / (1 + cosang)" taken when cosang > .5 *)
Definition rodrigues_alt (n : vec3 F) (c s : F) : mat3 F := rodrigues_gen n c s (s * s / (1 + c)).

(* what RotMatToVec (Object3d.cpp:46-60) reads off the matrix before asin/acos:
   cosang = (m00 + m11 + m22 - 1) * 0.5 and v = (m12 - m21, m20 - m02, m01 - m10) *)
Definition rot_cosang (m : mat3 F) : F := (r00 m + r11 m + r22 m - 1) / (1 + 1).
Definition rot_axis_raw (m : mat3 F) : vec3 F :=
  V3 (r12 m - r21 m) (r20 m - r02 m) (r01 m - r10 m).

(* ---- the translation / scale part of CalcAverageMatTransform (Object3d.cpp:115-136) ----
   sums accumulate from zero in list order; the count n is converted to float *)
Fixpoint fnat (n : nat) : F := match n with O => 0 | S k => fnat k + 1 end.
Definition sum_vec (l : list (vec3 F)) : vec3 F := fold_left v3_add l v3_zero.
Definition sum_scalar (l : list F) : F := fold_left (fun a x => a + x) l 0.
Definition avg_trans (ts : list (xform F)) : vec3 F :=
  let s := sum_vec (map trans ts) in let n := fnat (length ts) in
  V3 (vx s / n) (vy s / n) (vz s / n).
Definition avg_scale (ts : list (xform F)) : F :=
  sum_scalar (map scl ts) / fnat (length ts).

(* ---- what RotMatToVec's half-turn case reads (Object3d.cpp:62-64 before the repair of
   C20-rotmattovec-symmetric-half-turn, 67-69 after): x = (m[0][0] - cosang) * 0.5, ... (square roots
   and the normalisation follow).  After the repair this case is also taken when the skew part
   [rot_axis_raw] vanishes although cosang > -1. ---- *)
Definition half_turn_sq (m : mat3 F) : vec3 F :=
  let c := rot_cosang m in
  V3 ((r00 m - c) / (1 + 1)) ((r11 m - c) / (1 + 1)) ((r22 m - c) / (1 + 1)).

(* ---- CalcAverageRotation (Object3d.cpp:88-117) and CalcMedianRotation (165-192): the two-pass
   scheme.  RotMatToVec / RotVecToMat (sqrt, sin, cos, asin, acos) and CalcMedianOfFloats
   (std::nth_element) are not modelled: they are the parameters [m2v], [v2m], [med] of the scheme.
   [avg_rotation] is the REPAIRED code (fix C20-average-rotation-overcorrects): sum2 is divided by n
   like sum1; [avg_rotation_unrepaired] is the code before the repair. ---- *)
Section TwoPass.
Variable m2v : mat3 F -> vec3 F.
Variable v2m : vec3 F -> mat3 F.
Variable med : list F -> F.

Definition v3_divn (v : vec3 F) (n : F) : vec3 F := V3 (vx v / n) (vy v / n) (vz v / n).

Definition avg_rotation (rots : list (mat3 F)) : mat3 F :=
  match rots with
  | [] => m3_id
  | _ =>
    let n := fnat (length rots) in
    let sum1 := v3_divn (sum_vec (map m2v rots)) n in
    let base := v2m sum1 in
    let baseinv := m3_transpose base in
    let sum2 := v3_divn (sum_vec (map (fun r => m2v (m3_mul baseinv r)) rots)) n in
    m3_mul base (v2m sum2)
  end.

Definition avg_rotation_unrepaired (rots : list (mat3 F)) : mat3 F :=
  match rots with
  | [] => m3_id
  | _ =>
    let n := fnat (length rots) in
    let sum1 := v3_divn (sum_vec (map m2v rots)) n in
    let base := v2m sum1 in
    let baseinv := m3_transpose base in
    let sum2 := sum_vec (map (fun r => m2v (m3_mul baseinv r)) rots) in
    m3_mul base (v2m sum2)
  end.

(* CalcMedianOfVector3: component-wise *)
Definition med_vec (l : list (vec3 F)) : vec3 F := V3 (med (map vx l)) (med (map vy l)) (med (map vz l)).

Definition median_rotation (rots : list (mat3 F)) : mat3 F :=
  match rots with
  | [] => m3_id
  | _ =>
    let n := fnat (length rots) in
    let sum1 := v3_divn (sum_vec (map m2v rots)) n in
    let base := v2m sum1 in
    let baseinv := m3_transpose base in
    m3_mul base (v2m (med_vec (map (fun r => m2v (m3_mul baseinv r)) rots)))
  end.
End TwoPass.

End Model.

Arguments v3_zero {F}. Arguments v3_add {F}. Arguments v3_sub {F}. Arguments v3_scale {F}.
Arguments v3_lscale {F}. Arguments v3_dot {F}. Arguments m3_id {F}. Arguments m3_mul {F}. Arguments m3_mulv {F}.
Arguments m3_transpose {F}. Arguments m3_det {F}. Arguments m3_invert {F}. Arguments m3_inverse {F}.
Arguments xf_id {F}. Arguments xf_apply {F}. Arguments xf_inverse {F}. Arguments xf_compose {F}.
Arguments m4_id {F}. Arguments xf_to_matrix {F}. Arguments m4_mulv {F}. Arguments m4_mul {F}.
Arguments m4_scale {F}. Arguments m4_det {F}. Arguments m4_get {F}. Arguments m4_get33 {F}.
Arguments det33 {F}. Arguments m4_adj_entry {F}. Arguments m4_adjoint {F}. Arguments m4_inverse {F}.
Arguments rodrigues_gen {F}. Arguments rodrigues {F}. Arguments rodrigues_alt {F}.
Arguments rot_cosang {F}. Arguments rot_axis_raw {F}.
Arguments fnat {F}. Arguments sum_vec {F}. Arguments sum_scalar {F}.
Arguments avg_trans {F}. Arguments avg_scale {F}.
Arguments half_turn_sq {F}. Arguments v3_divn {F}. Arguments avg_rotation {F}.
Arguments avg_rotation_unrepaired {F}. Arguments med_vec {F}. Arguments median_rotation {F}.

(* ---- the executed instance: canonical rationals ---- *)
From Coq Require Import QArith Qcanon.

Definition QcOps : fops Qc :=
  FOps Qc 0%Qc 1%Qc Qcplus Qcmult Qcminus Qcopp Qcdiv Qcinv Qc_eq_dec.

Definition qc_make (num : Z) (den : positive) : Qc := Q2Qc (Qmake num den).
Definition qc_num (x : Qc) : Z := Qnum (this x).
Definition qc_den (x : Qc) : positive := Qden (this x).
(* the C++ test "cosang > .5" selecting the formula for onemcosang *)
Definition qc_gt_half (c : Qc) : bool :=
  match Qccompare c (qc_make 1 2) with Gt => true | _ => false end.
Definition qc_rotvec (n : vec3 Qc) (c s : Qc) : mat3 Qc :=
  if qc_gt_half c then rodrigues_alt QcOps n c s else rodrigues QcOps n c s.

Definition qc_apply := xf_apply QcOps.
Definition qc_compose := xf_compose QcOps.
Definition qc_inverse := xf_inverse QcOps.
Definition qc_invert3 := m3_invert QcOps.
Definition qc_det3 := m3_det QcOps.
Definition qc_mul3 := m3_mul QcOps.
Definition qc_mulv3 := m3_mulv QcOps.
Definition qc_to_matrix := xf_to_matrix QcOps.
Definition qc_mulv4 := m4_mulv QcOps.
Definition qc_mul4 := m4_mul QcOps.
Definition qc_det4 := m4_det QcOps.
Definition qc_inverse4 := m4_inverse QcOps.
Definition qc_avg_trans := avg_trans QcOps.
Definition qc_avg_scale := avg_scale QcOps.
Definition qc_rot_cosang := rot_cosang QcOps.
Definition qc_rot_axis_raw := rot_axis_raw QcOps.
