(* C19 canonical form of a texture path, transcribed from the property text (DESIGN.md, C19 "Spec
   detail"), as a boolean function so that it can be extracted and evaluated on the paths the
   implementation produces.

   canonical p  :=  p = ""  \/
       no leading / trailing C-locale whitespace
    /\ no '/'
    /\ no two consecutive backslashes
    /\ nothing before the textures folder: (starts with textures\ , case-insensitively)
                                        \/ (contains no \textures\ )
    /\ (needs_prefix /\ isrel p -> starts with textures\ )
    /\ (terrain /\ isrel p -> starts with Data\ )

   For terrain files the property text puts the Data\ prefix in front of everything, so the two
   clauses about the textures folder look at the path behind a leading Data\ ([body]). A later
   \textures\ inside a path that already starts with textures\ is a legal folder name and is not
   flagged. Nothing more than the property text is demanded (no rule on character set, extension,
   inner whitespace or case). *)
From NiflyVerif Require Import Res PathModel.
Local Open Scope N_scope.

(* [pat] occurs somewhere in [p], ASCII case-insensitively *)
Fixpoint contains_ci (pat p : list N) : bool :=
  starts_ci pat p || match p with [] => false | _ :: r => contains_ci pat r end.

(* two consecutive backslashes somewhere *)
Fixpoint has_dbs (p : list N) : bool :=
  match p with
  | [] => false
  | a :: r => ((a =? BS) && match r with b :: _ => b =? BS | [] => false end) || has_dbs r
  end.

Definition hd_space (p : list N) : bool := match p with c :: _ => is_space c | [] => false end.
Definition last_space (p : list N) : bool := is_space (last p 0).
Definition has_fs (p : list N) : bool := existsb (N.eqb FS) p.

(* the path behind the terrain prefix *)
Definition body (terrain : bool) (p : list N) : list N :=
  if terrain && starts_ci DATA p then skipn 5 p else p.

Definition canonical (needs_prefix terrain : bool) (isrel : list N -> bool) (p : list N) : bool :=
  match p with
  | [] => true
  | _ =>
    negb (hd_space p) && negb (last_space p) && negb (has_fs p) && negb (has_dbs p)
    && (starts_ci TEX (body terrain p) || negb (contains_ci BTEX (body terrain p)))
    && implb (needs_prefix && isrel p) (starts_ci TEX (body terrain p))
    && implb (terrain && isrel p) (starts_ci DATA p)
  end.

Definition canonical_posix (np terrain : bool) (p : list N) : bool := canonical np terrain isrel_posix p.

Definition all_space (p : list N) : bool := forallb is_space p.
